/-
Line-protocol driver over the executable model.  One command per input line, one observation
per output line.  `harness/impl.py` executes the same lines against the real library and
prints the same observations; `harness/compare.py` diffs the two streams.
-/
import DafRel.Model.Codec
import DafRel.Model.Diagnostics
import DafRel.Model.Processor
import DafRel.Model.Sql
import DafRel.Model.Names

open DafRel
open DafRel.Sexp

structure Drv where
  env : Env := {}
  engines : List (String × Engine) := []
  pool : List (String × Rel) := []
  leaves : List (Nat × List Row) := []
  leafNames : List (Nat × String) := []
  st : ExecState := {}
  /-- opaque SQL-side payload markers (processor results) -/
  nextSerial : Nat := 1
  nextSel : Nat := 1000000
  sqlSt : SqlState := {}
  /-- direct evaluation of the applied operation sequence: name -> (columns, rows, key-determined) -/
  direct : List (String × (Cols × List Row × Bool)) := []
  /-- relations whose construction moved a projection upstream of a deduplication by back-tracking
  (known finding F04), and everything built from them -/
  f04 : List String := []
  /-- allocation ids of payloads attached by a `process` call that was not determinate (a hook cut or deduplicated
  rows in an order the database chose): whatever reads them is not determinate either -/
  tainted : List Nat := []
deriving Inhabited

namespace Drv

def sigma (d : Drv) : Leaves := fun oid =>
  match d.leaves.find? (·.1 == oid) with
  | some (_, rows) => rows
  | none => []

def rel? (d : Drv) (n : String) : Option Rel := (d.pool.find? (·.1 == n)).map (·.2)
def eng? (d : Drv) (n : String) : Option Engine := (d.engines.find? (·.1 == n)).map (·.2)

def hasPay (d : Drv) (oid : Nat) : Bool := (d.st.payload oid).isSome || d.sqlSt.hasPayload oid

def store (d : Drv) : Store :=
  d.st.store ++ d.sqlSt.payloads.map (fun p => (p.1, p.1))

def showRel (d : Drv) (r : Rel) : String := r.show d.hasPay ++ " | " ++ r.showMeta

def setRel (d : Drv) (n : String) (r : Rel) : Drv :=
  { d with pool := (n, r) :: d.pool.filter (·.1 != n) }

def direct? (d : Drv) (n : String) : Option (Cols × List Row × Bool) :=
  (d.direct.find? (·.1 == n)).map (·.2)

def setDirect (d : Drv) (n : String) (v : Option (Cols × List Row × Bool)) : Drv :=
  match v with
  | some x => { d with direct := (n, x) :: d.direct.filter (·.1 != n) }
  | none => d

/-- Direct evaluation of a unary operation on an operand's direct rows. -/
def directU (d : Drv) (tn : String) (op : UOp) : Option (Cols × List Row × Bool) :=
  match d.direct? tn with
  | none => none
  | some (cols, rows, kd) =>
    let c' := op.appliedColumns cols
    let kd' := kd && (match op with
      | .dedup => rowsKeyDetermined cols rows
      | _ => true)
    some (c', op.sem c' rows, kd')

end Drv

def needsId (oid : Nat) : Bool := oid == 0 || oid ≥ tempBase

structure RenumSt where
  d : Drv
  memo : List (String × Nat) := []
  remap : List (Nat × Nat) := []

/-- Give fresh allocation ids to the markers a pure model function created (`oid = 0`, or a
temporary id handed out by the processor); structurally identical new markers inside one result
are one object. -/
partial def renumber (r : Rel) : StateM RenumSt Rel := do
  match r with
  | .leaf .. => return r
  | .unary op t c => return .unary op (← renumber t) c
  | .binary op l rr c =>
    let l' ← renumber l
    let r' ← renumber rr
    return .binary op l' r' c
  | .mat oid name t =>
    let t' ← renumber t
    if !needsId oid then return .mat oid name t'
    let s ← get
    let key := s!"{oid}:" ++ (Rel.mat 0 name t').show (fun _ => false)
    match s.memo.find? (·.1 == key) with
    | some (_, o) => return .mat o name t'
    | none =>
      let o := s.d.nextSerial
      set { s with d := { s.d with nextSerial := o + 1 }, memo := (key, o) :: s.memo, remap := (oid, o) :: s.remap }
      return .mat o name t'
  | .transfer oid dest t =>
    let t' ← renumber t
    if !needsId oid then return .transfer oid dest t'
    let s ← get
    let key := s!"{oid}:" ++ (Rel.transfer 0 dest t').show (fun _ => false)
    match s.memo.find? (·.1 == key) with
    | some (_, o) => return .transfer o dest t'
    | none =>
      let o := s.d.nextSerial
      set { s with d := { s.d with nextSerial := o + 1 }, memo := (key, o) :: s.memo, remap := (oid, o) :: s.remap }
      return .transfer o dest t'
  | .select oid sr p dd a b k c t =>
    let k' ← renumber k
    let t' ← renumber t
    if !needsId oid then return .select oid sr p dd a b k' c t'
    let s ← get
    let key := s!"{oid}:" ++ (Rel.select 0 sr p dd a b k' c t').show (fun _ => false)
    match s.memo.find? (·.1 == key) with
    | some (_, o) => return .select o sr p dd a b k' c t'
    | none =>
      let o := s.d.nextSel
      set { s with d := { s.d with nextSel := o + 1 }, memo := (key, o) :: s.memo, remap := (oid, o) :: s.remap }
      return .select o sr p dd a b k' c t'

def remapKey (remap : List (Nat × Nat)) (k : Nat) : Nat :=
  if k ≥ tempBase then ((remap.find? (·.1 == k)).map (·.2)).getD k else k

def Drv.adopt (d : Drv) (n : String) (r : Rel) : Drv × Rel :=
  let (r', s) := (renumber r).run { d := d }
  let d' := s.d
  -- relocate payloads attached under temporary ids; entries of discarded temporaries are dropped
  let d' := { d' with
    st := { d'.st with payloads := (d'.st.payloads.map (fun (p : Nat × Iterable) => (remapKey s.remap p.1, p.2))).filter (fun p => p.1 < tempBase) },
    sqlSt := { d'.sqlSt with payloads := (d'.sqlSt.payloads.map (fun (p : Nat × SqlPayload) => (remapKey s.remap p.1, p.2))).filter (fun p => p.1 < tempBase) } }
  (d'.setRel n r', r')

def errLine (e : Err) : String := "err " ++ e.name

/-- A deduplication lies on the unary spine of the tree (between the root and the first node that
is not a unary operation). -/
def dedupOnSpine : Rel → Bool
  | .unary .dedup _ _ => true
  | .unary _ t _ => dedupOnSpine t
  | _ => false

/-- Remove the `#<serial>` tokens (object identity) from a printed tree. -/
def stripSerials (s : String) : String :=
  let step (st : String × Bool) (c : Char) : String × Bool :=
    let (acc, skipping) := st
    if skipping then
      if c.isDigit then (acc, true) else (acc.push c, false)
    else if c == '#' then (acc.push '#', true)
    else (acc.push c, false)
  (s.foldl step ("", false)).1

/-- No positional slice sits above a transfer out of a SQL engine (whose row order is the
database's business). -/
def iterDet (σ : Leaves) : Rel → Bool
  | .leaf .. => true
  | .unary op t cols =>
    iterDet σ t && (match op with
      | .slice _ _ => !(hasSqlTransferAux t)
      -- key-based deduplication keeps the LAST row of each key: on rows that are not
      -- key-determined the survivor depends on the order the database delivered them in
      | .dedup => !(hasSqlTransferAux t) || rowsKeyDetermined cols (sem σ t)
      | _ => true)
  | .binary _ l r _ => iterDet σ l && iterDet σ r
  | .mat _ _ t => iterDet σ t
  | .transfer _ _ t => iterDet σ t
  | .select _ _ _ _ _ _ _ _ t => iterDet σ t
where
  hasSqlTransferAux : Rel → Bool
    | .leaf .. => false
    | .unary _ t _ => hasSqlTransferAux t
    | .binary _ l r _ => hasSqlTransferAux l || hasSqlTransferAux r
    | .mat _ _ t => hasSqlTransferAux t
    | .transfer _ _ t => t.engine.kind == .sql || hasSqlTransferAux t
    | .select _ _ _ _ _ _ _ _ t => hasSqlTransferAux t

/-- Allocation ids of the payload-capable nodes of a tree. -/
def relOids : Rel → List Nat
  | .leaf o .. => [o]
  | .unary _ t _ => relOids t
  | .binary _ l r _ => relOids l ++ relOids r
  | .mat o _ t => o :: relOids t
  | .transfer o _ t => o :: relOids t
  | .select o _ _ _ _ _ s _ t => o :: (relOids s ++ relOids t)

/-- The tree contains a transfer out of a SQL engine (row order then depends on the database). -/
def hasSqlTransfer : Rel → Bool
  | .leaf .. => false
  | .unary _ t _ => hasSqlTransfer t
  | .binary _ l r _ => hasSqlTransfer l || hasSqlTransfer r
  | .mat _ _ t => hasSqlTransfer t
  | .transfer _ _ t => t.engine.kind == .sql || hasSqlTransfer t
  | .select _ _ _ _ _ _ _ _ t => hasSqlTransfer t

/-- Report a freshly built relation. -/
def Drv.report (d : Drv) (n : String) (how : String) (res : Except Err Rel) : Drv × String :=
  match res with
  | .error e => (d, errLine e)
  | .ok r =>
    let (d', r') := d.adopt n r
    (d', s!"ok {how} {d'.showRel r'}")

def decOpts (d : Drv) : Sexp → Option Opts
  | list [atom "opts", atom pref, atom bt, atom tr, atom req] => do
    let p ← if pref == "-" then some none else (d.eng? pref).map some
    pure { pref := p, backtrack := (← decBool bt), transfer := (← decBool tr), require := (← decBool req) }
  | _ => none

def decRows (xs : List Sexp) : Option (List (List Int)) :=
  xs.mapM (fun x => match x with
    | list vs => vs.mapM (fun v => match v with
      | atom s => s.toInt?
      | _ => none)
    | _ => none)

def mkRow (cols : Cols) (vals : List Int) : Row :=
  (cols.zip vals).foldl (fun r (t, v) => r.set t v) Row.empty

def showLog (d : Drv) (log : List Nat) : String :=
  let names := log.map (fun o => ((d.leafNames.find? (·.1 == o)).map (·.2)).getD s!"?{o}")
  "[" ++ ",".intercalate (names.foldl (fun acc s => insertSortedStr' s acc) []) ++ "]"
where
  insertSortedStr' (x : String) : List String → List String
    | [] => [x]
    | y :: ys => if x ≤ y then x :: y :: ys else y :: insertSortedStr' x ys

/-- The rows the harness attaches as a payload: the relation evaluated by the engines themselves
(processed, then executed), with every state change discarded - NOT the reference semantics
(they differ on data that is not key-determined). -/
def rowsOf (d : Drv) (r : Rel) : List Row :=
  match processTop d.sigma d.st d.sqlSt r with
  | (.ok res, ps) =>
    let p := res.get r
    match p.engine.kind with
    | .iter =>
      match exec d.sigma p.engine p ps.st with
      | .ok (it, _) => it.rowsD d.sigma
      | .error _ => sem d.sigma r
    | .sql =>
      match sqlRun ps.sq ps.store p with
      | .inr (out, _) => out.rows
      | .inl _ => sem d.sigma r
  | _ => sem d.sigma r

def step (d : Drv) (cmd : List Sexp) : Drv × String :=
  match cmd with
  | [atom "tags", list ts] =>
    let tags := ts.filterMap (fun t => match t with
      | list [atom n, atom k] => some (Tag.mk n (k == "k"))
      | _ => none)
    ({ d with env := { tags := tags } }, "ok")
  | [atom "engine", atom n, atom kind] =>
    let e : Engine := ⟨d.engines.length, if kind == "sql" then .sql else .iter⟩
    ({ d with engines := d.engines ++ [(n, e)] }, s!"ok e{e.id}")
  -- (leaf rN eK (a b c) ((1 2 3) ...) min max name)
  | [atom "leaf", atom n, atom en, list cs, list rows, atom mn, atom mx, atom name] =>
    match d.eng? en, decCols d.env cs, decRows rows, mn.toNat?, decOptNat mx with
    | some e, some cols, some rws, some mn, some mx =>
      match mx with
      | some m => if m < mn then (d, errLine .value) else go d n e cols rws mn mx name
      | none => go d n e cols rws mn mx name
    | _, _, _, _, _ => (d, "bad-leaf")
  | [atom "doomed", atom n, atom en, list cs, atom name] =>
    match d.eng? en, decCols d.env cs with
    | some e, some cols => go d n e cols [] 0 (some 0) name
    | _, _ => (d, "bad-doomed")
  | [atom "joinid", atom n, atom en, atom name] =>
    match d.eng? en with
    | some e => go d n e [] [[]] 1 (some 1) name
    | none => (d, "bad-joinid")
  -- (apply rN rT OP OPTS)
  | [atom "apply", atom n, atom tn, opx, optx] =>
    match d.rel? tn, decOpReq d.env opx, decOpts d optx with
    | some t, some req, some o =>
      let res : Except Err Res :=
        match req with
        | .slice a b c =>
          -- `relation[a:b:c]`; with a preferred engine (and no step): `Slice(a, b).apply(relation, options)`
          if o.pref.isSome && c.isNone then do
            let op ← UOp.mkSlice (a.getD 0) b
            applyOp d.store defaultFuel (.u op) t o
          else t.getItem d.store a b c
        | _ => do
          let op ← req.toUOp
          applyOp d.store defaultFuel (.u op) t o
      match res with
      | .error e => (d, errLine e)
      | .ok r =>
        let dv : Option (Cols × List Row × Bool) :=
          match req with
          | .slice a b _ =>
            match UOp.mkSlice (a.getD 0) b with
            | .ok op => d.directU tn op
            | .error _ => none
          | _ =>
            match req.toUOp with
            | .ok op => d.directU tn op
            | .error _ => none
        let isProj := match req with
          | .proj _ => true
          | _ => false
        let taint := d.f04.contains tn ||
          (isProj && o.backtrack && (match o.pref with
            | some e => e != t.engine
            | none => false) && dedupOnSpine t)
        let d := if taint then { d with f04 := n :: d.f04 } else d
        (d.setDirect n dv).report n (if r.isSame then "same" else "new") (.ok (r.get t))
    | _, _, _ => (d, "bad-ref")
  -- (join rN rL rR PRED bt tr)
  | [atom "join", atom n, atom ln, atom rn, px, atom bt, atom tr] =>
    match d.rel? ln, d.rel? rn, decPred d.env px, decBool bt, decBool tr with
    | some l, some r, some p, some bt, some tr =>
      match l.joinWith d.store r p bt tr with
      | .error e => (d, errLine e)
      | .ok res =>
        let dv : Option (Cols × List Row × Bool) :=
          match d.direct? ln, d.direct? rn with
          | some (lc, lr, lk), some (rc, rr, rk) =>
            let common := Cols.keys (Cols.inter lc rc)
            some (lc.union rc, joinRows common p lr rr, lk && rk)
          | _, _ => none
        let d := if d.f04.contains ln || d.f04.contains rn then { d with f04 := n :: d.f04 } else d
        (d.setDirect n dv).report n (if res.isSame then "same" else "new") (.ok (res.get l))
    | _, _, _, _, _ => (d, "bad-ref")
  -- (joinp rN rL rR PRED (opts ...)): Join(pred).partial(rR).apply(rL, <every apply option>)
  | [atom "joinp", atom n, atom ln, atom rn, px, ox] =>
    match d.rel? ln, d.rel? rn, decPred d.env px, decOpts d ox with
    | some l, some r, some p, some o =>
      match l.joinOpts d.store r p o with
      | .error e => (d, errLine e)
      | .ok res =>
        let dv : Option (Cols × List Row × Bool) :=
          match d.direct? ln, d.direct? rn with
          | some (lc, lr, lk), some (rc, rr, rk) =>
            let common := Cols.keys (Cols.inter lc rc)
            some (lc.union rc, joinRows common p lr rr, lk && rk)
          | _, _ => none
        let d := if d.f04.contains ln || d.f04.contains rn then { d with f04 := n :: d.f04 } else d
        (d.setDirect n dv).report n (if res.isSame then "same" else "new") (.ok (res.get l))
    | _, _, _, _ => (d, "bad-ref")
  -- (joinpl rN rT rF PRED (opts ...)): Join(pred).partial(rF, is_lhs=True).apply(rT, ...) - the fixed relation on the left
  | [atom "joinpl", atom n, atom tn, atom fn, px, ox] =>
    match d.rel? tn, d.rel? fn, decPred d.env px, decOpts d ox with
    | some t, some f, some p, some o =>
      match t.joinOptsL d.store f p o with
      | .error e => (d, errLine e)
      | .ok res =>
        let dv : Option (Cols × List Row × Bool) :=
          match d.direct? fn, d.direct? tn with
          | some (lc, lr, lk), some (rc, rr, rk) =>
            let common := Cols.keys (Cols.inter lc rc)
            some (lc.union rc, joinRows common p lr rr, lk && rk)
          | _, _ => none
        let d := if d.f04.contains tn || d.f04.contains fn then { d with f04 := n :: d.f04 } else d
        (d.setDirect n dv).report n (if res.isSame then "same" else "new") (.ok (res.get t))
    | _, _, _, _ => (d, "bad-ref")
  -- (joinmax rN rL rR (COLS) PRED (opts ...)): Join(pred, max_columns=COLS).partial(rR).apply(rL, ...)
  | [atom "joinmax", atom n, atom ln, atom rn, list cs, px, ox] =>
    match d.rel? ln, d.rel? rn, decCols d.env cs, decPred d.env px, decOpts d ox with
    | some l, some r, some cap, some p, some o =>
      match l.joinMax d.store r p cap o with
      | .error e => (d, errLine e)
      | .ok res =>
        let dv : Option (Cols × List Row × Bool) :=
          match d.direct? ln, d.direct? rn with
          | some (lc, lr, lk), some (rc, rr, rk) =>
            let common := Cols.inter (Cols.keys (Cols.inter lc rc)) cap
            some (lc.union rc, joinRows common p lr rr, lk && rk)
          | _, _ => none
        let d := if d.f04.contains ln || d.f04.contains rn then { d with f04 := n :: d.f04 } else d
        (d.setDirect n dv).report n (if res.isSame then "same" else "new") (.ok (res.get l))
    | _, _, _, _, _ => (d, "bad-ref")
  -- (joinon rN rL rR (COLS) PRED bt tr): join with explicit common columns
  | [atom "joinon", atom n, atom ln, atom rn, list cs, px, atom bt, atom tr] =>
    match d.rel? ln, d.rel? rn, decCols d.env cs, decPred d.env px, decBool bt, decBool tr with
    | some l, some r, some common, some p, some bt, some tr =>
      match l.joinOn d.store r p common bt tr with
      | .error e => (d, errLine e)
      | .ok res =>
        let dv : Option (Cols × List Row × Bool) :=
          match d.direct? ln, d.direct? rn with
          | some (lc, lr, lk), some (rc, rr, rk) => some (lc.union rc, joinRows common p lr rr, lk && rk)
          | _, _ => none
        let d := if d.f04.contains ln || d.f04.contains rn then { d with f04 := n :: d.f04 } else d
        (d.setDirect n dv).report n (if res.isSame then "same" else "new") (.ok (res.get l))
    | _, _, _, _, _, _ => (d, "bad-ref")
  -- (joinb rN rL rR (COLS) PRED): Join(pred, min_columns=COLS, max_columns=COLS).apply(rL, rR) - the binary operation itself
  | [atom "joinb", atom n, atom ln, atom rn, list cs, px] =>
    match d.rel? ln, d.rel? rn, decCols d.env cs, decPred d.env px with
    | some l, some r, some common, some p =>
      match Rel.joinDirect d.store l r p common with
      | .error e => (d, errLine e)
      | .ok res =>
        let dv : Option (Cols × List Row × Bool) :=
          match d.direct? ln, d.direct? rn with
          | some (lc, lr, lk), some (rc, rr, rk) => some (lc.union rc, joinRows common p lr rr, lk && rk)
          | _, _ => none
        let d := if d.f04.contains ln || d.f04.contains rn then { d with f04 := n :: d.f04 } else d
        (d.setDirect n dv).report n "new" (.ok (res.get l r))
    | _, _, _, _ => (d, "bad-ref")
  -- (predjoin PRED rL rR): the required columns a predicate declares, before and after it was used in a join
  | [atom "predjoin", px, atom ln, atom rn] =>
    match d.rel? ln, d.rel? rn, decPred d.env px with
    | some l, some r, some p =>
      let used := match l.joinWith d.store r p true false with
        | .ok _ => "joined"
        | .error e => "err:" ++ e.name
      let c := showCols p.columnsRequired
      (d, s!"ok before={c} after={c} fresh={c} used={used}")
    | _, _, _ => (d, "bad-ref")
  | [atom "chain", atom n, atom ln, atom rn] =>
    match d.rel? ln, d.rel? rn with
    | some l, some r =>
      match l.chainWith d.store r with
      | .error e => (d, errLine e)
      | .ok res =>
        let dv : Option (Cols × List Row × Bool) :=
          match d.direct? ln, d.direct? rn with
          | some (lc, lr, lk), some (_, rr, rk) => some (lc, lr ++ rr, lk && rk)
          | _, _ => none
        let d := if d.f04.contains ln || d.f04.contains rn then { d with f04 := n :: d.f04 } else d
        (d.setDirect n dv).report n "new" (.ok (res.get l r))
    | _, _ => (d, "bad-ref")
  | [atom "mat", atom n, atom tn, atom name] =>
    match d.rel? tn with
    | some t =>
      match t.materialized d.store name with
      | .error e => (d, errLine e)
      | .ok res =>
        let d := if d.f04.contains tn then { d with f04 := n :: d.f04 } else d
        (d.setDirect n (d.direct? tn)).report n (if res.isSame then "same" else "new") (.ok (res.get t))
    | none => (d, "bad-ref")
  | [atom "transfer", atom n, atom tn, atom en] =>
    match d.rel? tn, d.eng? en with
    | some t, some e =>
      match t.transferredTo d.store e with
      | .error er => (d, errLine er)
      | .ok res =>
        let d := if d.f04.contains tn then { d with f04 := n :: d.f04 } else d
        (d.setDirect n (d.direct? tn)).report n (if res.isSame then "same" else "new") (.ok (res.get t))
    | _, _ => (d, "bad-ref")
  -- (transferp rN rT E): E.transfer(rT, payload=<the rows of rT>), E an iteration engine: `EngineError` when the
  -- (simplified) target already lives in E, otherwise a new Transfer that holds the payload
  | [atom "transferp", atom n, atom tn, atom en] =>
    match d.rel? tn, d.eng? en with
    | some t, some e =>
      if e.kind != .iter then (d, "bad-op")
      else
        match transferWithPayload d.store defaultFuel e t with
        | .error er => (d, errLine er)
        | .ok res =>
          let d := if d.f04.contains tn then { d with f04 := n :: d.f04 } else d
          let (d, line) := (d.setDirect n (d.direct? tn)).report n (if res.isSame then "same" else "new") (.ok (res.get t))
          match d.rel? n with
          | some r =>
            (match attachTarget d.hasPay r with
             | .error er => (d, errLine er)
             | .ok oid =>
               let d2 := { d with st := { d.st with payloads := (oid, .seq (rowsOf d r)) :: d.st.payloads } }
               (d2, s!"ok new {d2.showRel r}"))
          | none => (d, line)
    | _, _ => (d, "bad-ref")
  -- (fmt PREFIX COUNTER HEX): the generated relation name for these ingredients
  | [atom "fmt", atom pfx, atom c, atom hex] =>
    match c.toNat? with
    | some n => (d, "ok " ++ String.ofList (Names.formatName pfx.toList n hex.toList))
    | none => (d, "bad-fmt")
  -- (snap): relations are immutable values in the model: nothing ever changes
  | [atom "snap"] => (d, "ok changed=[]")
  -- (hash rA rB): hashability and value equality (dataclass __eq__: structure, not identity or payload)
  | [atom "hash", atom an, atom bn] =>
    match d.rel? an, d.rel? bn with
    | some a, some b =>
      let strip (r : Rel) : String := stripSerials (r.show (fun _ => false))
      let eq := strip a == strip b
      (d, s!"ok hashable=T equal={showBool eq} samehash={showBool eq}")
    | _, _ => (d, "bad-ref")
  -- (unwrap rN rT): the `skip_to` of a Select (a raw, unconformed relation)
  | [atom "unwrap", atom n, atom tn] =>
    match d.rel? tn with
    | none => (d, "bad-ref")
    | some t =>
      if !t.isSelect then (d, errLine .attribute)
      else (d.setDirect n (d.direct? tn)).report n "new" (.ok t.skipTo)
  -- (rawu rN OP rT): UnaryOperationRelation(op, target, columns=op.applied_columns(target)), no engine involved
  | [atom "rawu", atom n, opx, atom tn] =>
    match d.rel? tn, decOpReq d.env opx with
    | some t, some req =>
      match req.toUOp with
      | .error e => (d, errLine e)
      | .ok op => (d.setDirect n (d.directU tn op)).report n "new" (.ok (.unary op t (op.appliedColumns t.columns)))
    | _, _ => (d, "bad-ref")
  -- (rawchain rN rL rR) / (rawjoin rN rL rR PRED): BinaryOperationRelation built by hand
  | [atom "rawchain", atom n, atom ln, atom rn] =>
    match d.rel? ln, d.rel? rn with
    | some l, some r =>
      let dv : Option (Cols × List Row × Bool) :=
        match d.direct? ln, d.direct? rn with
        | some (lc, lr, lk), some (_, rr, rk) => some (lc, lr ++ rr, lk && rk)
        | _, _ => none
      (d.setDirect n dv).report n "new" (.ok (.binary .chain l r l.columns))
    | _, _ => (d, "bad-ref")
  | [atom "rawjoin", atom n, atom ln, atom rn, px] =>
    match d.rel? ln, d.rel? rn, decPred d.env px with
    | some l, some r, some p =>
      let common := Cols.keys (Cols.inter l.columns r.columns)
      let dv : Option (Cols × List Row × Bool) :=
        match d.direct? ln, d.direct? rn with
        | some (lc, lr, lk), some (rc, rr, rk) =>
          some (lc.union rc, joinRows (Cols.keys (Cols.inter lc rc)) p lr rr, lk && rk)
        | _, _ => none
      (d.setDirect n dv).report n "new"
        (.ok (.binary (.join ⟨p, common, some common⟩) l r (l.columns.union r.columns)))
    | _, _, _ => (d, "bad-ref")
  -- (conform cN rN): engine.conform(relation)
  | [atom "conform", atom n, atom tn] =>
    match d.rel? tn with
    | none => (d, "bad-ref")
    | some t =>
      match conform d.store defaultFuel t with
      | .error e => (d, errLine e)
      | .ok res => (d.setDirect n (d.direct? tn)).report n (if res.isSame then "same" else "new") (.ok (res.get t))
  -- (exec rN): execute in the relation's own engine, iterate twice
  | [atom "exec", atom n] =>
    match d.rel? n with
    | none => (d, "bad-ref")
    | some r =>
      if r.engine.kind == .sql then (d, "bad-exec") else
      let s0 := { d.st with log := [] }
      match exec d.sigma r.engine r s0 with
      | .error e => (d, errLine e)
      | .ok (it, s1) =>
        let execLog := s1.log
        match iterate d.sigma it [] with
        | .error e => ({ d with st := { s1 with log := [] } }, "ok exec " ++ errLine e)
        | .ok (rows1, log1) =>
          match iterate d.sigma it [] with
          | .error e => ({ d with st := { s1 with log := [] } }, "ok exec " ++ errLine e)
          | .ok (rows2, log2) =>
            let univ := d.env.tags
            let again := if showRows univ rows1 == showRows univ rows2 then "same" else "diff"
            ({ d with st := { s1 with log := [] } },
             s!"ok rows={showRows univ rows1} again={again} pulls_exec={showLog d execLog} pulls_iter1={showLog d log1} pulls_iter2={showLog d log2} order={if hasSqlTransfer r then "any" else "exact"} det={showBool (iterDet d.sigma r && !((relOids r).any d.tainted.contains))}")
  -- (sem rN): reference semantics (model only; the harness uses it as the oracle)
  | [atom "sem", atom n] =>
    match d.rel? n with
    | none => (d, "bad-ref")
    | some r =>
      let tree := showRows d.env.tags (sem d.sigma r)
      let kdt := keyDetermined d.sigma r
      match d.direct? n with
      | some (_, rows, kd) =>
        (d, s!"ok rows={showRows d.env.tags rows} tree={tree} kd={showBool (kd && kdt)} f04={showBool (d.f04.contains n)}")
      | none => (d, s!"ok rows={tree} tree={tree} kd={showBool kdt} f04={showBool (d.f04.contains n)}")
  -- (show rN)
  | [atom "show", atom n] =>
    match d.rel? n with
    | none => (d, "bad-ref")
    | some r => (d, "ok " ++ d.showRel r)
  -- (commute NEW CUR rT): raw `new.commute(UnaryOperationRelation(cur, target))`
  | [atom "commute", nx, cx, atom tn] =>
    match d.rel? tn, decOpReq d.env nx, decOpReq d.env cx with
    | some t, some nreq, some creq =>
      match nreq.toUOp, creq.toUOp with
      | .ok nw, .ok cur =>
        let ccols := cur.appliedColumns t.columns
        let c := nw.commute cur t.columns ccols
        (d, s!"ok first={match c.first with | none => "-" | some f => f.show} second={c.second.show} done={showBool c.done} cur={cur.show}")
      | .error e, _ => (d, errLine e)
      | _, .error e => (d, errLine e)
    | _, _, _ => (d, "bad-ref")
  -- (commutej rF (COMMON) PRED CUR rT): a PartialJoin with explicit common columns commuted past CUR
  | [atom "commutej", atom fn, list cs, px, cx, atom tn] =>
    match d.rel? tn, d.rel? fn, decCols d.env cs, decPred d.env px, decOpReq d.env cx with
    | some t, some fixed, some common, some p, some creq =>
      match creq.toUOp with
      | .error e => (d, errLine e)
      | .ok cur =>
        match JoinOp.make p common (some common) with
        | .error e => (d, errLine e)
        | .ok j =>
          if !(common.subset fixed.columns) then (d, errLine .column) else
          let pj : PJoin := ⟨j, fixed, false⟩
          let ccols := cur.appliedColumns t.columns
          let (f, second, done) := pj.commute cur t.columns ccols
          match f with
          | none => (d, s!"ok first=- second={second.show} done={showBool done} cur={cur.show}")
          | some _ =>
            let wfFirst := pj.columnsRequired.subset t.columns && common.subset t.columns
            let afterFirst := t.columns.union fixed.columns
            let wfSecond := second.columnsRequired.subset afterFirst &&
              (match second with
               | .calc tag _ => !(decide (tag ∈ afterFirst))
               | _ => true)
            (d, s!"ok first=join:T second={second.show} done={showBool done} cur={cur.show} wf={showBool (wfFirst && wfSecond)}")
    | _, _, _, _, _ => (d, "bad-ref")
  -- (commutesem NEW CUR rT): both sides of the commutation law, evaluated by the reference semantics
  | [atom "commutesem", nx, cx, atom tn] =>
    match d.rel? tn, decOpReq d.env nx, decOpReq d.env cx with
    | some t, some nreq, some creq =>
      match nreq.toUOp, creq.toUOp with
      | .ok nw, .ok cur =>
        let tcols := t.columns
        let ccols := cur.appliedColumns tcols
        let c := nw.commute cur tcols ccols
        match c.first with
        | none => (d, "ok none")
        | some f =>
          let mk (op : UOp) (x : Rel) : Rel :=
            match op with
            | .identity => x
            | _ => .unary op x (op.appliedColumns x.columns)
          let cur_rel := mk cur t
          let a_rel := mk nw cur_rel
          let first_rel := mk f t
          let second_rel := mk c.second first_rel
          let b_rel := if c.done then second_rel else mk nw second_rel
          let wf := f.wfOn tcols && c.second.wfOn first_rel.columns && (c.done || nw.wfOn second_rel.columns)
          let univ := d.env.tags
          let run (x : Rel) : String :=
            match exec d.sigma x.engine x { d.st with log := [] } with
            | .error e => errLine e
            | .ok (it, _) =>
              match iterate d.sigma it [] with
              | .error e => errLine e
              | .ok (rows, _) => showRows univ rows
          let kd := keyDetermined d.sigma a_rel && keyDetermined d.sigma b_rel
          (d, s!"ok a={run a_rel} b={if wf then run b_rel else "[?]"} wf={showBool wf} kd={showBool kd}")
      | .error e, _ => (d, errLine e)
      | _, .error e => (d, errLine e)
    | _, _, _ => (d, "bad-ref")
  -- (seqsem rT FIRST SECOND): the two operations applied in sequence (reference semantics)
  | [atom "seqsem", atom tn, fx, sx] =>
    match d.rel? tn, decOpReq d.env fx, decOpReq d.env sx with
    | some t, some freq, some sreq =>
      match freq.toUOp, sreq.toUOp with
      | .ok f, .ok s2 =>
        let fcols := f.appliedColumns t.columns
        let scols := s2.appliedColumns fcols
        (d, s!"ok rows={showRows d.env.tags (s2.sem scols (f.sem fcols (sem d.sigma t)))}")
      | .error e, _ => (d, errLine e)
      | _, .error e => (d, errLine e)
    | _, _, _ => (d, "bad-ref")
  -- (simplify NEW UP): raw `new.simplify(upstream)`
  | [atom "simplify", nx, ux] =>
    match decOpReq d.env nx, decOpReq d.env ux with
    | some nreq, some ureq =>
      match nreq.toUOp, ureq.toUOp with
      | .ok nw, .ok up =>
        match nw.simplify up with
        | .error e => (d, errLine e)
        | .ok .no => (d, "ok none")
        | .ok .keepUpstream => (d, "ok upstream")
        | .ok (.replace op) => (d, "ok " ++ op.show)
      | .error e, _ => (d, errLine e)
      | _, .error e => (d, errLine e)
    | _, _ => (d, "bad-simplify")
  -- (pred P (a 1) (b 2) ...): as_trivial, flatten, columns_required, iteration callable value
  | atom "pred" :: px :: binds =>
    match decPred d.env px with
    | none => (d, "bad-pred")
    | some p =>
      let row : Row := binds.foldl (fun r b => match b with
        | list [atom t, atom v] => match d.env.tag? t, v.toInt? with
          | some tg, some i => r.set tg i
          | _, _ => r
        | _ => r) Row.empty
      let triv := match p.asTrivial with | none => "-" | some b => showBool b
      let flat := match p.flattenAnd with | none => "F" | some ps => "(" ++ " ".intercalate (ps.map Pred.show) ++ ")"
      let norm := p.normalise.show
      let ev := match p.eval row with | none => "err" | some b => showBool b
      let evr := match p.eval (row.restrict p.columnsRequired) with | none => "err" | some b => showBool b
      let sb (o : Option Bool) : String := match o with | none => "err" | some b => showBool b
      let flatval := match p.flattenAnd with
        | none => "-"
        | some ps => sb (Pred.evalAll row ps)
      let normval := sb (p.normalise.eval row)
      let avail : List (Tag × SqlExpr) := (binds.filterMap (fun b => match b with
        | list [atom t, _] => (d.env.tag? t).map (fun tg => (tg, SqlExpr.col "row" tg))
        | _ => none))
      let sqlv := match convPred avail p with
        | .error e => "err:" ++ e.name
        | .ok sp => showBool (sp.eval (rowEnv "row" row))
      (d, s!"ok triv={triv} flat={flat} norm={norm} flatval={flatval} normval={normval} cols={showCols p.columnsRequired} iter={ev} restricted={evr} spec={showBool (p.val row)} sup_iter={showBool (p.isSupportedBy .iter)} sup_sql={showBool (p.isSupportedBy .sql)} sql={sqlv}")
  -- (expr E (a 1) ...)
  | atom "expr" :: ex :: binds =>
    match decExpr d.env ex with
    | none => (d, "bad-expr")
    | some e =>
      let row : Row := binds.foldl (fun r b => match b with
        | list [atom t, atom v] => match d.env.tag? t, v.toInt? with
          | some tg, some i => r.set tg i
          | _, _ => r
        | _ => r) Row.empty
      let ev := match e.eval row with | none => "err" | some v => toString v
      let evr := match e.eval (row.restrict e.columnsRequired) with | none => "err" | some v => toString v
      let avail : List (Tag × SqlExpr) := (binds.filterMap (fun b => match b with
        | list [atom t, _] => (d.env.tag? t).map (fun tg => (tg, SqlExpr.col "row" tg))
        | _ => none))
      let sqlv := match convExpr avail e with
        | .error er => "err:" ++ er.name
        | .ok se => match se.eval (rowEnv "row" row) with
          | some v => toString v
          | none => "err:eval"
      (d, s!"ok cols={showCols e.columnsRequired} iter={ev} restricted={evr} spec={e.val row} sql={sqlv}")
  -- (diag rN none|truthful)
  | [atom "diag", atom n, atom mode] =>
    match d.rel? n with
    | none => (d, "bad-ref")
    | some r =>
      -- the harness's truthful executor evaluates with the engines themselves (`rowsOf`)
      let ex : Option (Rel → Bool) := if mode == "truthful" then some (fun x => !(rowsOf d x).isEmpty) else none
      let res := Diagnostics.run ex r
      (d, s!"ok doomed={showBool res.isDoomed} messages={res.messages}")
  -- (attach rN): attach a fresh payload object to the relation itself
  | [atom "attach", atom n] =>
    match d.rel? n with
    | none => (d, "bad-ref")
    | some r =>
      match attachTarget d.hasPay r with
      | .error e => (d, errLine e)
      | .ok oid =>
          match r.engine.kind with
          | .iter =>
            ({ d with st := { d.st with payloads := (oid, .seq (rowsOf d r)) :: d.st.payloads } }, "ok attached")
          | .sql =>
            let idx := d.sqlSt.tables.length
            let name := s!"att{idx}"
            let pay : SqlPayload := tablePayload name 0 idx r.columns
            ({ d with sqlSt := { d.sqlSt with tables := d.sqlSt.tables ++ [rowsOf d r],
                                              payloads := (oid, pay) :: d.sqlSt.payloads } }, "ok attached")
  -- (process rN rM): Processor.process
  | [atom "process", atom n, atom tn] =>
    match d.rel? tn with
    | none => (d, "bad-ref")
    | some t =>
      match processTop d.sigma d.st d.sqlSt t with
      | (.error e, ps) =>
        if e == .unspecified then (d, errLine e)
        else ({ d with st := { ps.st with payloads := ps.st.payloads.filter (fun p => p.1 < tempBase) },
                       sqlSt := { ps.sq with payloads := ps.sq.payloads.filter (fun p => p.1 < tempBase) } }, errLine e)
      | (.ok res, ps) =>
        let before := d.st.payloads.map (·.1) ++ d.sqlSt.payloads.map (·.1)
        let d := { d with st := ps.st, sqlSt := ps.sq }
        let d := d.setDirect n (d.direct? tn)
        let d := if d.f04.contains tn then { d with f04 := n :: d.f04 } else d
        let (d, line) := d.report n (if res.isSame then "same" else "new") (.ok (res.get t))
        -- payloads attached by a processing that was not determinate taint whatever reads them later (the ids are
        -- those the pool uses after the new nodes have been numbered)
        let newOids := (d.st.payloads.map (·.1) ++ d.sqlSt.payloads.map (·.1)).filter (fun o => !(before.contains o))
        let d := { d with tainted := if ps.det then d.tainted else newOids ++ d.tainted }
        -- input tree after processing (payload marks may have changed)
        (d, line ++ " || input=" ++ (t.show d.hasPay) ++ " || hooks=" ++ " ".intercalate ps.hooks
            ++ s!" det={showBool ps.det}")
  -- (sqlexec rN): conform, compile, evaluate with the SQL semantics
  | [atom "sqlexec", atom n] =>
    match d.rel? n with
    | none => (d, "bad-ref")
    | some r =>
      match sqlRun d.sqlSt d.store r with
      | .inl msg => (d, msg)
      | .inr (out, _) =>
        -- `ready`: the conformed tree meets the decidable hypotheses of the compile-correctness theorem
        let ready := match conform d.store defaultFuel r with
          | .ok c => (c.get r).structReady d.sqlSt
          | .error _ => false
        let det := out.det && !((relOids r).any d.tainted.contains)
        (d, s!"ok rows={showRows d.env.tags out.rows} total={showBool out.total} det={showBool det} ready={showBool ready}")
  | _ => (d, "bad-command")
where
  go (d : Drv) (n : String) (e : Engine) (cols : Cols) (rws : List (List Int)) (mn : Nat)
      (mx : Option Nat) (name : String) : Drv × String :=
    let oid := d.nextSerial
    let leaf := Rel.leaf oid e cols name mn mx true 0
    let rows := rws.map (mkRow cols)
    let d := { d with nextSerial := oid + 1,
                      leaves := (oid, rows) :: d.leaves,
                      leafNames := (oid, name) :: d.leafNames }
    let d := d.setDirect n (some (cols, rows, true))
    match e.kind with
    | .iter => d.report n "new" (.ok leaf)
    | .sql =>
      let idx := d.sqlSt.tables.length
      let doomed := mx == some 0 && rws.isEmpty && name.startsWith "D"
      let pay : SqlPayload := tablePayload name oid idx cols (if doomed then [.lit false] else [])
      let d := { d with sqlSt := { d.sqlSt with tables := d.sqlSt.tables ++ [rows],
                                                payloads := (oid, pay) :: d.sqlSt.payloads } }
      d.report n "new" (applySkip leaf {})

partial def loop (h : IO.FS.Stream) (out : IO.FS.Stream) (d : Drv) : IO Unit := do
  let line ← h.getLine
  if line.isEmpty then return ()
  let trimmed := line.trimAscii.toString
  if trimmed.isEmpty then
    loop h out d
  else if trimmed == "(reset)" then
    out.putStrLn "ok reset"
    loop h out {}
  else
    match parseLine trimmed with
    | some [list cmd] =>
      let (d', o) := step d cmd
      out.putStrLn o
      loop h out d'
    | _ =>
      out.putStrLn "bad-syntax"
      loop h out d

def main : IO Unit := do
  let stdin ← IO.getStdin
  let stdout ← IO.getStdout
  loop stdin stdout {}
