/-
Joins in the reference semantics: restricting the operands to visible columns before joining equals
restricting the joined rows afterwards (what the SQL engine relies on when it strips the projection of a
`Select` operand and re-projects after the join), the join identity, and `Join._finish_apply`.
-/
import DafRel.Lemmas.FinishApply
import DafRel.Lemmas.Trivial
import DafRel.Lemmas.ApplySpec
import DafRel.Lemmas.Commute
import DafRel.Lemmas.Build

namespace DafRel

/-! ### Rows -/

theorem Row.merge_restrict (a b : Row) (lc rc cr : Cols) (hb : RowHasCols b cr)
    (hrc : ∀ u, u ∈ rc → u ∈ cr) (hhid : ∀ u, u ∈ cr → u ∉ rc → u ∉ lc) :
    (a.restrict lc).merge (b.restrict rc) = (a.merge b).restrict (lc.union rc) := by
  funext u
  unfold Row.merge Row.restrict
  by_cases hr : u ∈ rc
  · have hsome : (b u).isSome = true := (hb u).mpr (hrc u hr)
    have hu : u ∈ lc.union rc := (Cols.mem_union _ _ _).mpr (Or.inr hr)
    cases hbu : b u with
    | none => simp [hbu] at hsome
    | some v => simp [hr, hu, hbu]
  · by_cases hl : u ∈ lc
    · have hu : u ∈ lc.union rc := (Cols.mem_union _ _ _).mpr (Or.inl hl)
      have hnone : b u = none := by
        cases hbu : b u with
        | none => rfl
        | some v =>
          have : u ∈ cr := (hb u).mp (by simp [hbu])
          exact absurd hl (hhid u this hr)
      simp [hr, hl, hu, hnone]
    · have hu : u ∉ lc.union rc := fun h => by
        rcases (Cols.mem_union _ _ _).mp h with h | h
        · exact hl h
        · exact hr h
      simp [hr, hl, hu]

theorem Row.agree_restrict (a b : Row) (lc rc c : Cols) (hl : ∀ u, u ∈ c → u ∈ lc) (hr : ∀ u, u ∈ c → u ∈ rc) :
    (a.restrict lc).agree (b.restrict rc) c = a.agree b c := by
  unfold Row.agree
  rw [Bool.eq_iff_iff]
  simp only [List.all_eq_true]
  constructor <;> intro h u hu <;> have := h u hu <;> simpa [Row.restrict, hl u hu, hr u hu] using this

theorem Row.merge_empty_left (b : Row) : Row.empty.merge b = b := by
  funext u
  unfold Row.merge Row.empty
  cases b u <;> rfl

theorem Row.merge_empty_right (a : Row) : a.merge Row.empty = a := by
  funext u
  unfold Row.merge Row.empty
  rfl

/-! ### `joinRows` -/

/-- Joining the restrictions = restricting the join, when the common columns are visible on both
sides, the predicate only needs visible columns and no hidden column of the right operand has the
name of a visible column of the left one. -/
theorem joinRows_restrict (c : Cols) (p : Pred) (L R : List Row) (lc rc cr : Cols)
    (hR : RowsHaveCols R cr) (hrc : ∀ u, u ∈ rc → u ∈ cr) (hhid : ∀ u, u ∈ cr → u ∉ rc → u ∉ lc)
    (hcl : ∀ u, u ∈ c → u ∈ lc) (hcr : ∀ u, u ∈ c → u ∈ rc)
    (hp : p.columnsRequired.subset (lc.union rc) = true) :
    joinRows c p (L.map (fun r => r.restrict lc)) (R.map (fun r => r.restrict rc)) =
      (joinRows c p L R).map (fun r => r.restrict (lc.union rc)) := by
  unfold joinRows
  induction L with
  | nil => rfl
  | cons a L ih =>
    simp only [List.map_cons, List.flatMap_cons, List.map_append]
    rw [ih]
    congr 1
    rw [List.filter_map, List.map_map, List.map_map]
    have hf : ∀ b, b ∈ R →
        ((fun r => (a.restrict lc).agree r c && p.val ((a.restrict lc).merge r)) ∘ fun r => r.restrict rc) b =
        (fun r => a.agree r c && p.val (a.merge r)) b := by
      intro b hb
      simp only [Function.comp]
      rw [Row.agree_restrict a b lc rc c hcl hcr, Row.merge_restrict a b lc rc cr (hR b hb) hrc hhid,
        Pred.val_restrict p _ _ hp]
    rw [List.filter_congr hf]
    apply List.map_congr_left
    intro b hb
    have hb' : b ∈ R := (List.mem_filter.mp hb).1
    simp only [Function.comp]
    exact Row.merge_restrict a b lc rc cr (hR b hb') hrc hhid

theorem joinRows_identity_left (c : Cols) (p : Pred) (R : List Row) (hc : c = [])
    (hp : ∀ r, p.val r = true) : joinRows c p [Row.empty] R = R := by
  subst hc
  simp [joinRows, Row.agree, hp, Row.merge_empty_left]

theorem joinRows_identity_right (c : Cols) (p : Pred) (L : List Row) (hc : c = [])
    (hp : ∀ r, p.val r = true) : joinRows c p L [Row.empty] = L := by
  subst hc
  simp [joinRows, Row.agree, hp, Row.merge_empty_right]

end DafRel

namespace DafRel

theorem Cols.eq_nil_of_isEmpty (c : Cols) (h : c.isEmpty = true) : c = [] := by
  cases c with
  | nil => rfl
  | cons _ _ => simp [Cols.isEmpty] at h

theorem isJoinIdentity_cols (t : Rel) (h : t.isJoinIdentity = true) : t.columns = [] := by
  simp only [Rel.isJoinIdentity, Bool.and_eq_true] at h
  exact Cols.eq_nil_of_isEmpty _ h.1.1

/-- `Join._finish_apply(lhs, rhs)` (the base-class construction also used by the SQL engine). -/
theorem joinFinish_sound (σ : Leaves) (j : JoinOp) (nl nr : Rel) (hwl : nl.WF) (htl : nl.Truthful σ)
    (hwr : nr.WF) (htr : nr.Truthful σ) (hcl : j.minCols.subset nl.columns = true)
    (hcr : j.minCols.subset nr.columns = true) (heng : nl.engine = nr.engine) (res : BRes)
    (h : binaryFinishApply (.join j) nl nr = .ok res) :
    (res.get nl nr).WF ∧ (res.get nl nr).Truthful σ ∧
      sem σ (res.get nl nr) = joinRows j.minCols j.pred (sem σ nl) (sem σ nr) ∧
      (∀ c, c ∈ (res.get nl nr).columns ↔ c ∈ nl.columns.union nr.columns) ∧
      (res.get nl nr).engine = nl.engine := by
  unfold binaryFinishApply at h
  simp only at h
  by_cases h1 : (j.pred.asTrivial == some true && nl.isJoinIdentity) = true
  · simp only [h1, if_true] at h
    injection h with h; subst h
    simp only [Bool.and_eq_true, beq_iff_eq] at h1
    have hnil := isJoinIdentity_cols nl h1.2
    have hc : j.minCols = [] := by
      rw [hnil] at hcl
      cases hm : j.minCols with
      | nil => rfl
      | cons a _ => rw [hm] at hcl; simp [Cols.subset] at hcl
    refine ⟨hwr, htr, ?_, ?_, heng.symm⟩
    · simp only [BRes.get]
      rw [joinIdentity_sound σ nl hwl htl h1.2,
        joinRows_identity_left _ _ _ hc (fun r => Pred.asTrivial_val r j.pred true h1.1)]
    · intro c; simp [BRes.get, hnil, Cols.mem_union]
  · simp only [h1, Bool.false_eq_true, if_false] at h
    by_cases h2 : (j.pred.asTrivial == some true && nr.isJoinIdentity) = true
    · simp only [h2, if_true] at h
      injection h with h; subst h
      simp only [Bool.and_eq_true, beq_iff_eq] at h2
      have hnil := isJoinIdentity_cols nr h2.2
      have hc : j.minCols = [] := by
        rw [hnil] at hcr
        cases hm : j.minCols with
        | nil => rfl
        | cons a _ => rw [hm] at hcr; simp [Cols.subset] at hcr
      refine ⟨hwl, htl, ?_, ?_, rfl⟩
      · simp only [BRes.get]
        rw [joinIdentity_sound σ nr hwr htr h2.2,
          joinRows_identity_right _ _ _ hc (fun r => Pred.asTrivial_val r j.pred true h2.1)]
      · intro c; simp [BRes.get, hnil, Cols.mem_union]
    · simp only [h2, Bool.false_eq_true, if_false] at h
      split at h
      · cases h
      · split at h
        · cases h
        · injection h with h; subst h
          exact ⟨⟨hwl, hwr, rfl, hcl, hcr⟩, ⟨htl, htr⟩, rfl, fun _ => Iff.rfl, rfl⟩

end DafRel
