/-
`execute` on trees that contain Transfers OUT OF ANOTHER ENGINE FAMILY, provided those Transfers already hold a
payload (what `Processor.process` leaves behind): the iteration engine returns the cached rows and never looks
below such a node.  Generalises `exec_correct` (Lemmas/Exec.lean); also shows that `execute` never removes a
payload.
-/
import DafRel.Lemmas.Exec
import DafRel.Lemmas.Payload

namespace DafRel

/-- Like `Rel.IterOK`, but a Transfer or Materialization that holds a payload in the store may have any target
(`execute` returns the cached rows and never looks below such a node). -/
def Rel.IterOKs (s : ExecState) : Rel → Prop
  | .leaf _ _ _ _ _ _ p _ => p = true
  | .unary op t _ => Rel.IterOKs s t ∧ op.isIdentity = false ∧ op.arityOk = true
  | .binary op l r _ =>
    Rel.IterOKs s l ∧ Rel.IterOKs s r ∧ l.engine = r.engine ∧
      (match op with
       | .chain => True
       | _ => False)
  | .mat oid _ t => (s.payload oid).isSome = true ∨ Rel.IterOKs s t
  | .transfer oid _ t => (s.payload oid).isSome = true ∨ (Rel.IterOKs s t ∧ t.engine.kind = .iter)
  | .select _ _ _ _ _ _ _ _ t => Rel.IterOKs s t

/-- Payloads present in `s` are present in `s'`. -/
def PayMono (s s' : ExecState) : Prop := ∀ o, (s.payload o).isSome = true → (s'.payload o).isSome = true

theorem PayMono.refl (s : ExecState) : PayMono s s := fun _ h => h
theorem PayMono.trans {a b c : ExecState} (h1 : PayMono a b) (h2 : PayMono b c) : PayMono a c :=
  fun o h => h2 o (h1 o h)
theorem PayMono.of_payloads_eq {s s' : ExecState} (h : s'.payloads = s.payloads) : PayMono s s' := by
  intro o ho; simpa [ExecState.payload, h] using ho
theorem PayMono.cons (s : ExecState) (oid : Nat) (it : Iterable) (ev : List Nat) :
    PayMono s { s with payloads := (oid, it) :: s.payloads, evals := ev } := by
  intro o ho
  have := ExecState.payload_cons s oid it o
  simp only [ExecState.payload] at this ho ⊢
  rw [List.find?_cons]
  by_cases h : (oid == o) = true
  · simp [h]
  · simp only [h]; exact ho

theorem IterOKs.mono {s s' : ExecState} (hm : PayMono s s') : (r : Rel) → r.IterOKs s → r.IterOKs s'
  | .leaf .., h => h
  | .unary _ t _, h => ⟨IterOKs.mono hm t h.1, h.2⟩
  | .binary _ l r _, h => ⟨IterOKs.mono hm l h.1, IterOKs.mono hm r h.2.1, h.2.2⟩
  | .mat oid _ t, h => h.elim (fun hp => Or.inl (hm oid hp)) (fun hr => Or.inr (IterOKs.mono hm t hr))
  | .transfer oid _ t, h => h.elim (fun hp => Or.inl (hm oid hp)) (fun hr => Or.inr ⟨IterOKs.mono hm t hr.1, hr.2⟩)
  | .select _ _ _ _ _ _ _ _ t, h => IterOKs.mono hm t h

theorem IterOKs.of_iterOK (s : ExecState) : (r : Rel) → r.IterOK → r.IterOKs s
  | .leaf .., h => h
  | .unary _ t _, h => ⟨IterOKs.of_iterOK s t h.1, h.2⟩
  | .binary _ l r _, h => ⟨IterOKs.of_iterOK s l h.1, IterOKs.of_iterOK s r h.2.1, h.2.2⟩
  | .mat _ _ t, h => Or.inr (IterOKs.of_iterOK s t h)
  | .transfer _ _ t, h => Or.inr ⟨IterOKs.of_iterOK s t h.1, h.2⟩
  | .select _ _ _ _ _ _ _ _ t, h => IterOKs.of_iterOK s t h

/-- Write-once: every payload of `s` is still there in `s'`, the same object. -/
def PayKeep (s s' : ExecState) : Prop := ∀ o p, s.payload o = some p → s'.payload o = some p

theorem PayKeep.refl (s : ExecState) : PayKeep s s := fun _ _ h => h
theorem PayKeep.trans {a b c : ExecState} (h1 : PayKeep a b) (h2 : PayKeep b c) : PayKeep a c :=
  fun o p h => h2 o p (h1 o p h)
theorem PayKeep.of_payloads_eq {s s' : ExecState} (h : s'.payloads = s.payloads) : PayKeep s s' := by
  intro o p ho; simpa [ExecState.payload, h] using ho
theorem PayKeep.cons (s : ExecState) (oid : Nat) (it : Iterable) (ev : List Nat) (hn : s.payload oid = none) :
    PayKeep s { s with payloads := (oid, it) :: s.payloads, evals := ev } := by
  intro o p ho
  have hne : ¬ oid = o := by
    intro h; rw [h] at hn; rw [hn] at ho; cases ho
  have hb : (oid == o) = false := by simpa using hne
  simpa [ExecState.payload, List.find?_cons, hb] using ho
theorem PayKeep.mono {s s' : ExecState} (h : PayKeep s s') : PayMono s s' := by
  intro o ho
  cases hp : s.payload o with
  | none => simp [hp] at ho
  | some p => simp [h o p hp]

/-- Payloads present in `s'` were present in `s` or sit on a Materialization of `r`. -/
def PayNew (r : Rel) (s s' : ExecState) : Prop :=
  ∀ o, (s'.payload o).isSome = true → (s.payload o).isSome = true ∨ o ∈ r.matOids

theorem PayNew.refl (r : Rel) (s : ExecState) : PayNew r s s := fun _ h => Or.inl h
theorem PayNew.of_payloads_eq (r : Rel) {s s' : ExecState} (h : s'.payloads = s.payloads) : PayNew r s s' := by
  intro o ho; left; simpa [ExecState.payload, h] using ho
theorem PayNew.trans {r1 r2 r : Rel} {a b c : ExecState} (h1 : PayNew r1 a b) (h2 : PayNew r2 b c)
    (s1 : ∀ o, o ∈ r1.matOids → o ∈ r.matOids) (s2 : ∀ o, o ∈ r2.matOids → o ∈ r.matOids) : PayNew r a c := by
  intro o ho
  rcases h2 o ho with h | h
  · rcases h1 o h with h | h
    · exact Or.inl h
    · exact Or.inr (s1 o h)
  · exact Or.inr (s2 o h)
theorem PayNew.sub {r1 r : Rel} {a b : ExecState} (h1 : PayNew r1 a b)
    (s1 : ∀ o, o ∈ r1.matOids → o ∈ r.matOids) : PayNew r a b :=
  fun o ho => (h1 o ho).imp id (s1 o)

/-- What `execute` delivers, plus: no payload is lost, new ones sit on Materializations of the tree. -/
def ExecGoodM (σ : Leaves) (reg : Nat → Option (List Row)) (r : Rel) (s : ExecState)
    (x : Except Err (Iterable × ExecState)) : Prop :=
  ∃ it s', x = .ok (it, s') ∧ it.rows σ = .ok (sem σ r) ∧ ItOK it ∧ StoreOK σ reg s' ∧ PayMono s s' ∧ PayNew r s s'

theorem exec_shortcutsM (σ : Leaves) (reg : Nat → Option (List Row)) (r : Rel) (self : Engine)
    (s : ExecState) (he : r.engine = self) (hwf : r.WF) (htr : r.Truthful σ)
    (hreg : r.RegOK σ reg) (hs : StoreOK σ reg s) (node : Except Err (Iterable × ExecState))
    (hnode : r.payloadIt s = none → ExecGoodM σ reg r s node) :
    ExecGoodM σ reg r s
      (if r.engine != self then .error .engine
       else if r.maxRows == some 0 then .ok (.seq [], s)
       else if r.isJoinIdentity then .ok (.seq [Row.empty], s)
       else match r.payloadIt s with
         | some p => .ok (p, s)
         | none => node) := by
  have h1 : (r.engine != self) = false := by simp [he]
  rw [h1]
  simp only [Bool.false_eq_true, if_false]
  by_cases h0 : r.maxRows = some 0
  · have : (r.maxRows == some 0) = true := by simp [h0]
    rw [if_pos this]
    exact ⟨_, _, rfl, by simp [Iterable.rows, maxRows_zero_sound σ r hwf htr h0], trivial, hs, PayMono.refl s, PayNew.refl r s⟩
  · have : ¬ ((r.maxRows == some 0) = true) := by simpa using h0
    rw [if_neg this]
    by_cases hj : r.isJoinIdentity = true
    · rw [if_pos hj]
      exact ⟨_, _, rfl, by simp [Iterable.rows, joinIdentity_sound σ r hwf htr hj], trivial, hs, PayMono.refl s, PayNew.refl r s⟩
    · rw [if_neg hj]
      cases hp : r.payloadIt s with
      | some p =>
        obtain ⟨h2, h3⟩ := payloadIt_correct σ reg r s hreg hs p hp
        exact ⟨_, _, rfl, h2, h3, hs, PayMono.refl s, PayNew.refl r s⟩
      | none => exact hnode hp

/-- **Iteration engine correctness, with payload-holding Transfers from other engine families.** -/
theorem exec_correctM (σ : Leaves) (reg : Nat → Option (List Row)) :
    (r : Rel) → (self : Engine) → (s : ExecState) →
    r.IterOKs s → r.WF → r.Truthful σ → keyDetermined σ r = true → r.RegOK σ reg → StoreOK σ reg s →
    r.engine = self → ExecGoodM σ reg r s (exec σ self r s)
  | .leaf oid eng cols name mn mx pl msgs, self, s, hio, hwf, htr, _, hreg, hs, he => by
    rw [exec]
    refine exec_shortcutsM σ reg _ self s he hwf htr hreg hs _ ?_
    intro hp
    simp only [Rel.IterOKs] at hio
    simp [Rel.payloadIt, hio] at hp
  | .unary op t cols, self, s, hio, hwf, htr, hkd, hreg, hs, he => by
    rw [exec]
    refine exec_shortcutsM σ reg _ self s he hwf htr hreg hs _ ?_
    intro _
    simp only [Rel.IterOKs] at hio
    simp only [Rel.WF] at hwf
    simp only [Rel.Truthful] at htr
    simp only [keyDetermined, Bool.and_eq_true] at hkd
    simp only [Rel.RegOK] at hreg
    obtain ⟨it, s1, h1, h2, h3, h4, h5, h6⟩ :=
      exec_correctM σ reg t self s hio.1 hwf.1 htr hkd.1 hreg hs (by simpa [Rel.engine] using he)
    have hm := metadata_truthful σ t hwf.1 htr
    obtain ⟨hc, hop⟩ := hwf.2
    subst hc
    obtain ⟨it', s', g1, g2, g3, g4⟩ := execOp_correct σ op t.columns it s1 (sem σ t) h2 h3 hm.keys hop
      hio.2.1 hio.2.2 (by
        cases op <;> first | rfl | exact hkd.2)
    refine ⟨it', s', ?_, by simpa [sem] using g2, g3, h4.of_payloads_eq g4, h5.trans (PayMono.of_payloads_eq g4),
      PayNew.trans h6 (PayNew.of_payloads_eq t g4) (fun _ h => h) (fun _ h => h)⟩
    simp only [h1, g1]
  | .binary op l rr cols, self, s, hio, hwf, htr, hkd, hreg, hs, he => by
    rw [exec.eq_def]
    refine exec_shortcutsM σ reg _ self s he hwf htr hreg hs _ ?_
    intro _
    simp only [Rel.IterOKs] at hio
    obtain ⟨hl, hr, heng, hop⟩ := hio
    cases op with
    | join j => cases hop
    | ignoreOne b => cases hop
    | chain =>
      simp only [Rel.WF] at hwf
      simp only [Rel.Truthful] at htr
      simp only [keyDetermined, Bool.and_eq_true] at hkd
      simp only [Rel.RegOK] at hreg
      have hel : l.engine = self := by simpa [Rel.engine] using he
      obtain ⟨a, s1, h1, h2, _, h4, h5, h6⟩ := exec_correctM σ reg l self s hl hwf.1 htr.1 hkd.1 hreg.1 hs hel
      obtain ⟨b, s2, g1, g2, _, g4, g5, g6⟩ :=
        exec_correctM σ reg rr self s1 (IterOKs.mono h5 rr hr) hwf.2.1 htr.2 hkd.2 hreg.2 h4 (by rw [← heng, hel])
      refine ⟨.chain a b, s2, ?_, ?_, trivial, g4, h5.trans g5,
        PayNew.trans h6 g6 (fun _ h => by simp [Rel.matOids, h]) (fun _ h => by simp [Rel.matOids, h])⟩
      · simp only [h1, g1]
      · simp only [Iterable.rows, h2, g2, sem]
  | .mat oid name t, self, s, hio, hwf, htr, hkd, hreg, hs, he => by
    rw [exec]
    refine exec_shortcutsM σ reg _ self s he hwf htr hreg hs _ ?_
    intro hp
    simp only [Rel.IterOKs] at hio
    simp only [Rel.WF] at hwf
    simp only [Rel.Truthful] at htr
    simp only [keyDetermined] at hkd
    simp only [Rel.RegOK] at hreg
    have hio : Rel.IterOKs s t := by
      rcases hio with hpay | hio
      · simp only [Rel.payloadIt, Rel.oid] at hp
        rw [hp] at hpay; cases hpay
      · exact hio
    obtain ⟨it, s1, h1, h2, h3, h4, h5, h6⟩ :=
      exec_correctM σ reg t self s hio hwf htr hkd hreg.2 hs (by simpa [Rel.engine] using he)
    obtain ⟨it', s2, g1, g2, g3, g4⟩ := materializedIt_correct σ it s1 (sem σ t) h2 h3
    refine ⟨it', { s2 with payloads := (oid, it') :: s2.payloads, evals := oid :: s2.evals }, ?_,
      by simpa [sem] using g2, g3, ?_, ?_, ?_⟩
    · simp only [h1, g1]
    · exact StoreOK.of_payloads_eq ((h4.of_payloads_eq g4).cons oid it' (sem σ t) g3 hreg.1 g2) rfl
    · exact (h5.trans (PayMono.of_payloads_eq g4)).trans (PayMono.cons s2 oid it' _)
    · intro o ho
      by_cases hoo : o = oid
      · right; simp [Rel.matOids, hoo]
      · have : (s2.payload o).isSome = true := by
          have hne : (oid == o) = false := by simpa using fun h => hoo h.symm
          simpa [ExecState.payload, List.find?_cons, hne] using ho
        rcases h6 o (by simpa [ExecState.payload, g4] using this) with h | h
        · exact Or.inl h
        · right; simp [Rel.matOids, h]
  | .transfer oid d t, self, s, hio, hwf, htr, hkd, hreg, hs, he => by
    rw [exec]
    refine exec_shortcutsM σ reg _ self s he hwf htr hreg hs _ ?_
    intro hp
    simp only [Rel.IterOKs] at hio
    rcases hio with hpay | hio
    · simp only [Rel.payloadIt, Rel.oid] at hp
      rw [hp] at hpay; cases hpay
    · simp only [Rel.WF] at hwf
      simp only [Rel.Truthful] at htr
      simp only [keyDetermined] at hkd
      simp only [Rel.RegOK] at hreg
      obtain ⟨it, s1, h1, h2, h3, h4, h5, h6⟩ := exec_correctM σ reg t t.engine s hio.1 hwf htr hkd hreg.2 hs rfl
      refine ⟨it, s1, ?_, by simpa [sem] using h2, h3, h4, h5, h6⟩
      simp only [hio.2, h1]
  | .select oid so pr dd s1 s2 sk ic t, self, s, hio, hwf, htr, hkd, hreg, hs, he => by
    rw [exec.eq_def]
    refine exec_shortcutsM σ reg _ self s he hwf htr hreg hs _ ?_
    intro _
    simp only [Rel.IterOKs] at hio
    simp only [Rel.WF] at hwf
    simp only [Rel.Truthful] at htr
    simp only [keyDetermined] at hkd
    simp only [Rel.RegOK] at hreg
    obtain ⟨it, s1', h1, h2, h3, h4, h5, h6⟩ :=
      exec_correctM σ reg t self s hio hwf htr hkd hreg.2 hs (by simpa [Rel.engine] using he)
    exact ⟨it, s1', by simp only [h1], by simpa [sem] using h2, h3, h4, h5, h6⟩

end DafRel
