/-
How the list functions of the reference semantics commute with each other
(map / filter / stable sort / first occurrences / slices).  Used for C04 (commutation).
-/
import DafRel.Lemmas.Dedup

namespace DafRel

variable {α β : Type}

/-! ### stable sort and `map` -/

theorem insertSorted_map (g : α → β) (le : β → β → Bool) (le' : α → α → Bool) (x : α) (l : List α)
    (h : ∀ b, b ∈ l → le (g x) (g b) = le' x b) :
    insertSorted le (g x) (l.map g) = (insertSorted le' x l).map g := by
  induction l with
  | nil => rfl
  | cons y ys ih =>
    simp only [List.map_cons, insertSorted, h y (by simp)]
    split
    · rfl
    · simp only [List.map_cons]
      rw [ih (fun b hb => h b (by simp [hb]))]

theorem isort_map (g : α → β) (le : β → β → Bool) (le' : α → α → Bool) (l : List α)
    (h : ∀ a b, a ∈ l → b ∈ l → le (g a) (g b) = le' a b) :
    isort le (l.map g) = (isort le' l).map g := by
  induction l with
  | nil => rfl
  | cons y ys ih =>
    simp only [List.map_cons, isort]
    rw [ih (fun a b ha hb => h a b (by simp [ha]) (by simp [hb]))]
    apply insertSorted_map
    intro b hb
    exact h y b (by simp) (by simp [(mem_isort le' b ys).mp hb])

/-! ### stable sort and `filter` -/

theorem sorted_filter {le : α → α → Bool} (p : α → Bool) (l : List α) (h : Sorted le l) :
    Sorted le (l.filter p) := by
  unfold Sorted at *
  exact h.filter p

theorem filter_insertSorted {le : α → α → Bool} (tr : Trans le) (p : α → Bool) (x : α) (l : List α)
    (hs : Sorted le l) :
    (insertSorted le x l).filter p = if p x then insertSorted le x (l.filter p) else l.filter p := by
  induction l with
  | nil => by_cases hpx : p x = true <;> simp [insertSorted, List.filter, hpx]
  | cons y ys ih =>
    have hs' := hs
    unfold Sorted at hs'
    rw [List.pairwise_cons] at hs'
    have ih' := ih hs'.2
    by_cases hxy : le x y = true
    · simp only [insertSorted, hxy, if_true]
      by_cases hpx : p x = true
      · simp only [List.filter_cons, hpx, if_true]
        by_cases hpy : p y = true
        · simp [hpy, insertSorted, hxy]
        · simp only [hpy, Bool.false_eq_true, if_false]
          rw [insertSorted_of_le_all]
          intro z hz
          have hz' := (List.mem_filter.mp hz).1
          exact tr x y z hxy (hs'.1 z hz')
      · simp [List.filter_cons, hpx]
    · simp only [insertSorted, hxy, Bool.false_eq_true, if_false]
      by_cases hpy : p y = true
      · simp only [List.filter_cons, hpy, if_true, ih']
        by_cases hpx : p x = true
        · simp [hpx, insertSorted, hxy]
        · simp [hpx]
      · simp only [List.filter_cons, hpy, Bool.false_eq_true, if_false, ih']

theorem filter_isort {le : α → α → Bool} (ht : Total le) (tr : Trans le) (p : α → Bool) (l : List α) :
    (isort le l).filter p = isort le (l.filter p) := by
  induction l with
  | nil => rfl
  | cons x xs ih =>
    simp only [isort]
    rw [filter_insertSorted tr p x _ (sorted_isort ht tr xs), ih]
    by_cases hpx : p x = true
    · simp [hpx, isort]
    · simp [hpx]

/-! ### slices and `map` -/

theorem sliceList_map (g : α → β) (s : Nat) (e : Option Nat) (l : List α) :
    sliceList s e (l.map g) = (sliceList s e l).map g := by
  cases e <;> simp [sliceList, List.map_drop, List.map_take]

/-! ### first occurrences -/

/-- First occurrences commute with a map that neither merges nor splits observation classes. -/
theorem firstOccBy_map {γ δ : Type} [DecidableEq γ] [DecidableEq δ] (f : Row → γ) (f' : Row → δ)
    (g : Row → Row) (S l : List Row)
    (h : ∀ a b, (a ∈ S ∨ a ∈ l) → (b ∈ S ∨ b ∈ l) → (f (g a) = f (g b) ↔ f' a = f' b)) :
    firstOccBy f (S.map (fun a => f (g a))) (l.map g) = (firstOccBy f' (S.map f') l).map g := by
  induction l generalizing S with
  | nil => rfl
  | cons r rs ih =>
    simp only [List.map_cons, firstOccBy]
    have hiff : f (g r) ∈ S.map (fun a => f (g a)) ↔ f' r ∈ S.map f' := by
      simp only [List.mem_map]
      constructor
      · rintro ⟨a, ha, hfa⟩
        exact ⟨a, ha, (h a r (Or.inl ha) (Or.inr (by simp))).mp hfa⟩
      · rintro ⟨a, ha, hga⟩
        exact ⟨a, ha, (h a r (Or.inl ha) (Or.inr (by simp))).mpr hga⟩
    by_cases hm : f (g r) ∈ S.map (fun a => f (g a))
    · simp only [hm, hiff.mp hm, if_true]
      exact ih S (fun a b ha hb => h a b (ha.imp id (List.mem_cons_of_mem _)) (hb.imp id (List.mem_cons_of_mem _)))
    · have hm2 : ¬ f' r ∈ S.map f' := fun x => hm (hiff.mpr x)
      simp only [hm, hm2, if_false, List.map_cons]
      congr 1
      have := ih (r :: S) (fun a b ha hb => h a b
        (by rcases ha with ha | ha
            · rcases List.mem_cons.mp ha with rfl | ha'
              · exact Or.inr (by simp)
              · exact Or.inl ha'
            · exact Or.inr (List.mem_cons_of_mem _ ha))
        (by rcases hb with hb | hb
            · rcases List.mem_cons.mp hb with rfl | hb'
              · exact Or.inr (by simp)
              · exact Or.inl hb'
            · exact Or.inr (List.mem_cons_of_mem _ hb)))
      simpa using this

/-- Putting a key into `seen` = dropping the rows with that key. -/
theorem firstOccBy_seen_filter {γ : Type} [DecidableEq γ] (f : Row → γ) (k : γ) (seen : List γ)
    (l : List Row) :
    firstOccBy f (k :: seen) l = firstOccBy f seen (l.filter (fun y => decide (f y ≠ k))) := by
  induction l generalizing seen with
  | nil => rfl
  | cons r rs ih =>
    by_cases hk : f r = k
    · have : (decide (f r ≠ k)) = false := by simp [hk]
      simp only [firstOccBy, List.filter_cons, this, Bool.false_eq_true, if_false]
      simp only [hk, List.mem_cons, true_or, if_true]
      exact ih seen
    · have : (decide (f r ≠ k)) = true := by simp [hk]
      simp only [firstOccBy, List.filter_cons, this, if_true, List.mem_cons, hk, false_or]
      by_cases hs : f r ∈ seen
      · simp only [hs, if_true]; exact ih seen
      · simp only [hs, if_false]
        congr 1
        rw [← ih (f r :: seen)]
        apply firstOccBy_congr_seen
        intro x
        simp only [List.mem_cons]
        constructor
        · rintro (h | h | h)
          · exact Or.inr (Or.inl h)
          · exact Or.inl h
          · exact Or.inr (Or.inr h)
        · rintro (h | h | h)
          · exact Or.inr (Or.inl h)
          · exact Or.inl h
          · exact Or.inr (Or.inr h)

/-- A key all of whose rows fail the filter may be added to `seen` without changing the filtered
result. -/
theorem firstOccBy_seen_filter_irrelevant {γ : Type} [DecidableEq γ] (f : Row → γ) (p : Row → Bool)
    (k : γ) (seen : List γ) (l : List Row) (h : ∀ a, a ∈ l → f a = k → p a = false) :
    (firstOccBy f (k :: seen) l).filter p = (firstOccBy f seen l).filter p := by
  induction l generalizing seen with
  | nil => rfl
  | cons r rs ih =>
    have hrs : ∀ a, a ∈ rs → f a = k → p a = false := fun a ha => h a (List.mem_cons_of_mem _ ha)
    by_cases hk : f r = k
    · have hpr : p r = false := h r (by simp) hk
      simp only [firstOccBy, hk, List.mem_cons, true_or, if_true]
      by_cases hs : k ∈ seen
      · simp only [hs, if_true]; exact ih seen hrs
      · simp only [hs, if_false, List.filter_cons, hpr, Bool.false_eq_true, if_false]
    · simp only [firstOccBy, List.mem_cons, hk, false_or]
      by_cases hs : f r ∈ seen
      · simp only [hs, if_true]; exact ih seen hrs
      · simp only [hs, if_false, List.filter_cons]
        have : (firstOccBy f (f r :: k :: seen) rs).filter p = (firstOccBy f (f r :: seen) rs).filter p := by
          rw [firstOccBy_congr_seen f (f r :: k :: seen) (k :: f r :: seen) rs (by
            intro x
            simp only [List.mem_cons]
            constructor
            · rintro (h | h | h)
              · exact Or.inr (Or.inl h)
              · exact Or.inl h
              · exact Or.inr (Or.inr h)
            · rintro (h | h | h)
              · exact Or.inr (Or.inl h)
              · exact Or.inl h
              · exact Or.inr (Or.inr h))]
          exact ih (f r :: seen) hrs
        rw [this]

/-- First occurrences commute with a filter that cannot tell rows of one class apart. -/
theorem firstOccBy_filter {γ : Type} [DecidableEq γ] (f : Row → γ) (p : Row → Bool) (seen : List γ)
    (l : List Row) (h : ∀ a b, a ∈ l → b ∈ l → f a = f b → p a = p b) :
    firstOccBy f seen (l.filter p) = (firstOccBy f seen l).filter p := by
  induction l generalizing seen with
  | nil => rfl
  | cons r rs ih =>
    have hrs : ∀ a b, a ∈ rs → b ∈ rs → f a = f b → p a = p b :=
      fun a b ha hb => h a b (List.mem_cons_of_mem _ ha) (List.mem_cons_of_mem _ hb)
    by_cases hp : p r = true
    · simp only [List.filter_cons, hp, if_true, firstOccBy]
      by_cases hs : f r ∈ seen
      · simp only [hs, if_true]; exact ih seen hrs
      · simp only [hs, if_false, List.filter_cons, hp, if_true]
        congr 1
        exact ih _ hrs
    · have hp' : p r = false := by simpa using hp
      simp only [List.filter_cons, hp', Bool.false_eq_true, if_false, firstOccBy]
      by_cases hs : f r ∈ seen
      · simp only [hs, if_true]; exact ih seen hrs
      · simp only [hs, if_false, List.filter_cons, hp', Bool.false_eq_true, if_false]
        rw [ih seen hrs]
        symm
        apply firstOccBy_seen_filter_irrelevant
        intro a ha hk
        rw [h a r (List.mem_cons_of_mem _ ha) (by simp) hk]
        exact hp'

/-! ### column sets that are equal as sets -/

theorem agree_congr (a b : Row) (c1 c2 : Cols) (h : ∀ x, x ∈ c1 ↔ x ∈ c2) :
    a.agree b c1 = a.agree b c2 := by
  rw [Bool.eq_iff_iff]
  simp only [Row.agree, List.all_eq_true]
  exact ⟨fun g t ht => g t ((h t).mpr ht), fun g t ht => g t ((h t).mp ht)⟩

theorem keys_congr (c1 c2 : Cols) (h : ∀ x, x ∈ c1 ↔ x ∈ c2) : ∀ x, x ∈ c1.keys ↔ x ∈ c2.keys := by
  intro x
  simp only [Cols.keys, List.mem_filter, h]

theorem rowsKeyDetermined_congr (c1 c2 : Cols) (h : ∀ x, x ∈ c1 ↔ x ∈ c2) (rows : List Row) :
    rowsKeyDetermined c1 rows = rowsKeyDetermined c2 rows := by
  unfold rowsKeyDetermined
  congr 1
  funext a
  congr 1
  funext b
  rw [agree_congr a b c1.keys c2.keys (keys_congr c1 c2 h), agree_congr a b c1 c2 h]

theorem firstOcc_congr (c1 c2 : Cols) (h : ∀ x, x ∈ c1 ↔ x ∈ c2) (rows : List Row) :
    firstOcc c1 rows = firstOcc c2 rows := by
  simp only [firstOcc, firstOccAux_eq_by]
  have := firstOccBy_congr_obs (fun r : Row => r.proj c1) (fun r : Row => r.proj c2) [] rows (by
    intro a b _ _
    rw [← agree_iff_proj, ← agree_iff_proj, agree_congr a b c1 c2 h])
  simpa using this

/-! ### first occurrences and the stable sort -/

theorem mem_firstOccBy {γ : Type} [DecidableEq γ] (f : Row → γ) (seen : List γ) (l : List Row) (r : Row) :
    r ∈ firstOccBy f seen l → r ∈ l := by
  induction l generalizing seen with
  | nil => simp [firstOccBy]
  | cons x xs ih =>
    simp only [firstOccBy]
    split
    · intro h; exact List.mem_cons_of_mem _ (ih _ h)
    · intro h
      rcases List.mem_cons.mp h with rfl | h
      · simp
      · exact List.mem_cons_of_mem _ (ih _ h)

/-- Inserting `x` (whose class has no other literal representative) into a sorted list and then
taking first occurrences = taking first occurrences of the list without `x`'s class and then
inserting `x`: the stable insert puts `x` in front of all its ties. -/
theorem firstOccBy_insertSorted {γ : Type} [DecidableEq γ] (f : Row → γ) {le : Row → Row → Bool}
    (ht : Total le) (tr : Trans le) (x : Row) :
    (n : Nat) → (S : List Row) → S.length ≤ n → Sorted le S →
    (∀ a b, a ∈ x :: S → b ∈ x :: S → f a = f b → a = b) →
    firstOccBy f [] (insertSorted le x S) =
      insertSorted le x (firstOccBy f [] (S.filter (fun y => decide (f y ≠ f x))))
  | _, [], _, _, _ => by simp [insertSorted, firstOccBy]
  | 0, y :: ys, hn, _, _ => by simp at hn
  | n+1, y :: ys, hn, hs, hinj => by
    have hs' := hs
    unfold Sorted at hs'
    rw [List.pairwise_cons] at hs'
    by_cases hxy : le x y = true
    · simp only [insertSorted, hxy, if_true]
      rw [show firstOccBy f [] (x :: y :: ys) = x :: firstOccBy f [f x] (y :: ys) by
        simp [firstOccBy]]
      rw [firstOccBy_seen_filter f (f x) [] (y :: ys)]
      symm
      apply insertSorted_of_le_all
      intro z hz
      have hz1 := mem_firstOccBy f [] _ z hz
      have hz2 := (List.mem_filter.mp hz1).1
      rcases List.mem_cons.mp hz2 with rfl | hz3
      · exact hxy
      · exact tr x y z hxy (hs'.1 z hz3)
    · have hne : y ≠ x := by
        intro h
        subst h
        rcases ht y y with h | h <;> exact hxy h
      have hfne : f y ≠ f x := fun h => hne (hinj y x (by simp) (by simp) h)
      simp only [insertSorted, hxy, Bool.false_eq_true, if_false]
      rw [show firstOccBy f [] (y :: insertSorted le x ys) = y :: firstOccBy f [f y] (insertSorted le x ys) by
        simp [firstOccBy]]
      rw [firstOccBy_seen_filter f (f y) [] (insertSorted le x ys)]
      rw [filter_insertSorted tr _ x ys hs'.2]
      have hpx : decide (f x ≠ f y) = true := by simpa using fun h => hfne h.symm
      rw [if_pos hpx]
      have hlen : (ys.filter (fun z => decide (f z ≠ f y))).length ≤ n := by
        have := List.length_filter_le (fun z => decide (f z ≠ f y)) ys
        simp only [List.length_cons] at hn
        omega
      rw [firstOccBy_insertSorted f ht tr x n _ hlen (sorted_filter _ ys hs'.2) (by
        intro a b ha hb
        apply hinj
        · rcases List.mem_cons.mp ha with rfl | ha
          · simp
          · exact List.mem_cons_of_mem _ (List.mem_cons_of_mem _ (List.mem_filter.mp ha).1)
        · rcases List.mem_cons.mp hb with rfl | hb
          · simp
          · exact List.mem_cons_of_mem _ (List.mem_cons_of_mem _ (List.mem_filter.mp hb).1))]
      have hqy : decide (f y ≠ f x) = true := by simpa using hfne
      simp only [List.filter_cons, hqy, if_true]
      rw [show firstOccBy f [] (y :: ys.filter (fun z => decide (f z ≠ f x))) =
            y :: firstOccBy f [f y] (ys.filter (fun z => decide (f z ≠ f x))) by simp [firstOccBy]]
      rw [firstOccBy_seen_filter f (f y) []]
      simp only [insertSorted, hxy, Bool.false_eq_true, if_false]
      congr 2
      rw [List.filter_filter, List.filter_filter]
      congr 1
      apply List.filter_congr
      intro z _
      exact Bool.and_comm _ _

/-- **First occurrences commute with the stable sort** (when rows of one observation class are
literally equal, which is the case for rows that have exactly the observed columns). -/
theorem firstOccBy_isort {γ : Type} [DecidableEq γ] (f : Row → γ) {le : Row → Row → Bool}
    (ht : Total le) (tr : Trans le) :
    (n : Nat) → (l : List Row) → l.length ≤ n → (∀ a b, a ∈ l → b ∈ l → f a = f b → a = b) →
    firstOccBy f [] (isort le l) = isort le (firstOccBy f [] l)
  | _, [], _, _ => rfl
  | 0, x :: xs, hn, _ => by simp at hn
  | n+1, x :: xs, hn, hinj => by
    simp only [isort]
    rw [firstOccBy_insertSorted f ht tr x xs.length (isort le xs) (by rw [length_isort]; exact Nat.le_refl _)
      (sorted_isort ht tr xs) (by
        intro a b ha hb
        apply hinj
        · rcases List.mem_cons.mp ha with rfl | ha
          · simp
          · exact List.mem_cons_of_mem _ ((mem_isort le a xs).mp ha)
        · rcases List.mem_cons.mp hb with rfl | hb
          · simp
          · exact List.mem_cons_of_mem _ ((mem_isort le b xs).mp hb))]
    rw [filter_isort ht tr]
    have hlen : (xs.filter (fun y => decide (f y ≠ f x))).length ≤ n := by
      have := List.length_filter_le (fun y => decide (f y ≠ f x)) xs
      simp only [List.length_cons] at hn
      omega
    rw [firstOccBy_isort f ht tr n _ hlen (by
      intro a b ha hb
      exact hinj a b (List.mem_cons_of_mem _ (List.mem_filter.mp ha).1)
        (List.mem_cons_of_mem _ (List.mem_filter.mp hb).1))]
    rw [show firstOccBy f [] (x :: xs) = x :: firstOccBy f [f x] xs by simp [firstOccBy]]
    rw [firstOccBy_seen_filter f (f x) [] xs]
    rfl

end DafRel
