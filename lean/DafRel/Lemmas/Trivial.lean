/-
Soundness of `as_trivial`, `flatten_logical_and`, `logical_and` and the predicate
normalisation of `Selection.__post_init__`, for the specification semantics (`val`) and for the
checked evaluator (`eval`).
-/
import DafRel.Lemmas.Expr

namespace DafRel

/-! ### `as_trivial` w.r.t. `val` -/

mutual
theorem Pred.asTrivial_val (r : Row) : (p : Pred) → (b : Bool) → p.asTrivial = some b → p.val r = b
  | .lit v, b, h => by simp [Pred.asTrivial] at h; simp [Pred.val, h]
  | .ref _, _, h => by simp [Pred.asTrivial] at h
  | .fn _ _ _, _, h => by simp [Pred.asTrivial] at h
  | .inC _ _, _, h => by simp [Pred.asTrivial] at h
  | .not p, b, h => by
    simp only [Pred.asTrivial, Option.map_eq_some_iff] at h
    obtain ⟨b', hb', rfl⟩ := h
    simp [Pred.val, Pred.asTrivial_val r p b' hb']
  | .and ps, b, h => by
    have := Pred.asTrivialAnd_val r ps (some true) b (by simpa [Pred.asTrivial] using h)
    cases b <;> simp_all [Pred.val]
  | .or ps, b, h => by
    have := Pred.asTrivialOr_val r ps (some false) b (by simpa [Pred.asTrivial] using h)
    cases b <;> simp_all [Pred.val]
theorem Pred.asTrivialAnd_val (r : Row) : (ps : List Pred) → (acc : Option Bool) → (b : Bool) →
    Pred.asTrivialAnd ps acc = some b →
      (b = true → acc = some true ∧ Pred.valAll r ps = true) ∧
      (b = false → acc = some false ∨ Pred.valAll r ps = false)
  | [], acc, b, h => by
    simp [Pred.asTrivialAnd] at h
    cases b <;> simp_all [Pred.valAll]
  | p :: ps, acc, b, h => by
    unfold Pred.asTrivialAnd at h
    cases hp : Pred.asTrivial p with
    | none =>
      simp only [hp] at h
      have ih := Pred.asTrivialAnd_val r ps none b h
      cases b <;> simp_all [Pred.valAll]
    | some x =>
      have hv := Pred.asTrivial_val r p x hp
      cases x with
      | false =>
        simp only [hp] at h
        cases b <;> simp_all [Pred.valAll]
      | true =>
        simp only [hp] at h
        have ih := Pred.asTrivialAnd_val r ps acc b h
        cases b <;> simp_all [Pred.valAll]
theorem Pred.asTrivialOr_val (r : Row) : (ps : List Pred) → (acc : Option Bool) → (b : Bool) →
    Pred.asTrivialOr ps acc = some b →
      (b = false → acc = some false ∧ Pred.valAny r ps = false) ∧
      (b = true → acc = some true ∨ Pred.valAny r ps = true)
  | [], acc, b, h => by
    simp [Pred.asTrivialOr] at h
    cases b <;> simp_all [Pred.valAny]
  | p :: ps, acc, b, h => by
    unfold Pred.asTrivialOr at h
    cases hp : Pred.asTrivial p with
    | none =>
      simp only [hp] at h
      have ih := Pred.asTrivialOr_val r ps none b h
      cases b <;> simp_all [Pred.valAny]
    | some x =>
      have hv := Pred.asTrivial_val r p x hp
      cases x with
      | true =>
        simp only [hp] at h
        cases b <;> simp_all [Pred.valAny]
      | false =>
        simp only [hp] at h
        have ih := Pred.asTrivialOr_val r ps acc b h
        cases b <;> simp_all [Pred.valAny]
end

/-! ### `as_trivial` w.r.t. the checked evaluator: if the callable returns at all, it returns `b` -/

mutual
theorem Pred.asTrivial_eval (r : Row) :
    (p : Pred) → (b v : Bool) → p.asTrivial = some b → p.eval r = some v → v = b
  | .lit x, b, v, h, he => by simp [Pred.asTrivial] at h; simp [Pred.eval] at he; simp_all
  | .ref _, _, _, h, _ => by simp [Pred.asTrivial] at h
  | .fn _ _ _, _, _, h, _ => by simp [Pred.asTrivial] at h
  | .inC _ _, _, _, h, _ => by simp [Pred.asTrivial] at h
  | .not p, b, v, h, he => by
    simp only [Pred.asTrivial, Option.map_eq_some_iff] at h
    simp only [Pred.eval, Option.map_eq_some_iff] at he
    obtain ⟨b', hb', rfl⟩ := h
    obtain ⟨v', hv', rfl⟩ := he
    simp [Pred.asTrivial_eval r p b' v' hb' hv']
  | .and ps, b, v, h, he => by
    have := Pred.asTrivialAnd_eval r ps (some true) b v (by simpa [Pred.asTrivial] using h)
      (by simpa [Pred.eval] using he)
    cases b <;> cases v <;> simp_all
  | .or ps, b, v, h, he => by
    have := Pred.asTrivialOr_eval r ps (some false) b v (by simpa [Pred.asTrivial] using h)
      (by simpa [Pred.eval] using he)
    cases b <;> cases v <;> simp_all
theorem Pred.asTrivialAnd_eval (r : Row) : (ps : List Pred) → (acc : Option Bool) → (b v : Bool) →
    Pred.asTrivialAnd ps acc = some b → Pred.evalAll r ps = some v →
      (b = true → acc = some true ∧ v = true) ∧ (b = false → acc = some false ∨ v = false)
  | [], acc, b, v, h, he => by
    simp [Pred.asTrivialAnd] at h
    simp [Pred.evalAll] at he
    cases b <;> simp_all
  | p :: ps, acc, b, v, h, he => by
    unfold Pred.asTrivialAnd at h
    unfold Pred.evalAll at he
    cases hp : Pred.asTrivial p with
    | none =>
      simp only [hp] at h
      cases hev : Pred.eval r p with
      | none => simp [hev] at he
      | some x =>
        cases x with
        | false =>
          simp [hev] at he
          have ih := Pred.asTrivialAnd_val r ps none b h
          cases b <;> simp_all
        | true =>
          simp only [hev] at he
          have ih := Pred.asTrivialAnd_eval r ps none b v h he
          cases b <;> simp_all
    | some x =>
      cases hev : Pred.eval r p with
      | none => simp [hev] at he
      | some y =>
        have hy := Pred.asTrivial_eval r p x y hp hev
        subst hy
        cases y with
        | false =>
          simp only [hp] at h
          simp [hev] at he
          cases b <;> simp_all
        | true =>
          simp only [hp] at h
          simp only [hev] at he
          exact Pred.asTrivialAnd_eval r ps acc b v h he
theorem Pred.asTrivialOr_eval (r : Row) : (ps : List Pred) → (acc : Option Bool) → (b v : Bool) →
    Pred.asTrivialOr ps acc = some b → Pred.evalAny r ps = some v →
      (b = false → acc = some false ∧ v = false) ∧ (b = true → acc = some true ∨ v = true)
  | [], acc, b, v, h, he => by
    simp [Pred.asTrivialOr] at h
    simp [Pred.evalAny] at he
    cases b <;> simp_all
  | p :: ps, acc, b, v, h, he => by
    unfold Pred.asTrivialOr at h
    unfold Pred.evalAny at he
    cases hp : Pred.asTrivial p with
    | none =>
      simp only [hp] at h
      cases hev : Pred.eval r p with
      | none => simp [hev] at he
      | some x =>
        cases x with
        | true =>
          simp [hev] at he
          have ih := Pred.asTrivialOr_val r ps none b h
          cases b <;> simp_all
        | false =>
          simp only [hev] at he
          have ih := Pred.asTrivialOr_eval r ps none b v h he
          cases b <;> simp_all
    | some x =>
      cases hev : Pred.eval r p with
      | none => simp [hev] at he
      | some y =>
        have hy := Pred.asTrivial_eval r p x y hp hev
        subst hy
        cases y with
        | true =>
          simp only [hp] at h
          simp [hev] at he
          cases b <;> simp_all
        | false =>
          simp only [hp] at h
          simp only [hev] at he
          exact Pred.asTrivialOr_eval r ps acc b v h he
end

/-! ### `flatten_logical_and`, `logical_and` -/

theorem Pred.valAll_append (r : Row) (xs ys : List Pred) :
    Pred.valAll r (xs ++ ys) = (Pred.valAll r xs && Pred.valAll r ys) := by
  induction xs with
  | nil => simp [Pred.valAll]
  | cons x xs ih => simp [Pred.valAll, ih, Bool.and_assoc]

mutual
theorem Pred.flattenAnd_val (r : Row) : (p : Pred) →
    (match p.flattenAnd with
     | some ps => p.val r = Pred.valAll r ps
     | none => p.val r = false)
  | .and ps => by
    have := Pred.flattenAndList_val r ps
    simp only [Pred.flattenAnd, Pred.val]
    exact this
  | .lit true => by simp [Pred.flattenAnd, Pred.val, Pred.valAll]
  | .lit false => by simp [Pred.flattenAnd, Pred.val]
  | .ref t => by simp [Pred.flattenAnd, Pred.valAll]
  | .fn f a s => by simp [Pred.flattenAnd, Pred.valAll]
  | .not p => by simp [Pred.flattenAnd, Pred.valAll]
  | .or ps => by simp [Pred.flattenAnd, Pred.valAll]
  | .inC i c => by simp [Pred.flattenAnd, Pred.valAll]
theorem Pred.flattenAndList_val (r : Row) : (ps : List Pred) →
    (match Pred.flattenAndList ps with
     | some qs => Pred.valAll r ps = Pred.valAll r qs
     | none => Pred.valAll r ps = false)
  | [] => by simp [Pred.flattenAndList]
  | p :: ps => by
    have h1 := Pred.flattenAnd_val r p
    have h2 := Pred.flattenAndList_val r ps
    unfold Pred.flattenAndList
    cases hp : Pred.flattenAnd p with
    | none => simp_all [Pred.valAll]
    | some xs =>
      cases hps : Pred.flattenAndList ps with
      | none => simp_all [Pred.valAll]
      | some ys => simp_all [Pred.valAll, Pred.valAll_append]
end

theorem Pred.logicalAnd_val (r : Row) (ps : List Pred) : (Pred.logicalAnd ps).val r = Pred.valAll r ps := by
  match ps with
  | [] => simp [Pred.logicalAnd, Pred.val, Pred.valAll]
  | [p] => simp [Pred.logicalAnd, Pred.valAll]
  | p :: q :: rest => simp [Pred.logicalAnd, Pred.val]

theorem Pred.normalise_val (r : Row) (p : Pred) : p.normalise.val r = p.val r := by
  have h := Pred.flattenAnd_val r p
  unfold Pred.normalise
  cases hp : p.flattenAnd with
  | none => rfl
  | some ps => simp_all [Pred.logicalAnd_val]

end DafRel
