/-
Soundness of `UnaryOperation.commute` for every pair of operations (C04).
-/
import DafRel.Lemmas.ListOps
import DafRel.Lemmas.Simplify
import DafRel.Spec.Commute

namespace DafRel

/-! ### Rows -/

theorem Row.set_restrict_insert (r : Row) (c : Cols) (tag : Tag) (v : Int) :
    (r.set tag v).restrict (c.insert tag) = (r.restrict c).set tag v := by
  funext u
  unfold Row.restrict Row.set
  by_cases hu : u = tag
  · subst hu; simp [Cols.mem_insert]
  · simp [hu, Cols.mem_insert]

theorem Row.set_set_comm (r : Row) (t1 t2 : Tag) (v1 v2 : Int) (h : t1 ≠ t2) :
    (r.set t1 v1).set t2 v2 = (r.set t2 v2).set t1 v1 := by
  funext u
  unfold Row.set
  by_cases h1 : u = t1
  · subst h1; simp [h]
  · simp [h1]

theorem Expr.val_set (e : Expr) (r : Row) (tag : Tag) (v : Int) (h : tag ∉ e.columnsRequired) :
    e.val (r.set tag v) = e.val r := by
  apply Expr.val_congr
  intro t ht
  have : t ≠ tag := fun he => h (he ▸ ht)
  simp [Row.set, this]

theorem Pred.val_set (p : Pred) (r : Row) (tag : Tag) (v : Int) (h : tag ∉ p.columnsRequired) :
    p.val (r.set tag v) = p.val r := by
  apply Pred.val_congr
  intro t ht
  have : t ≠ tag := fun he => h (he ▸ ht)
  simp [Row.set, this]

theorem Expr.val_restrict (e : Expr) (r : Row) (c : Cols) (h : e.columnsRequired.subset c = true) :
    e.val (r.restrict c) = e.val r := by
  apply Expr.val_congr
  intro t ht
  exact Row.restrict_agree r c t ((Cols.subset_iff _ _).mp h t ht)

theorem Pred.val_restrict (p : Pred) (r : Row) (c : Cols) (h : p.columnsRequired.subset c = true) :
    p.val (r.restrict c) = p.val r := by
  apply Pred.val_congr
  intro t ht
  exact Row.restrict_agree r c t ((Cols.subset_iff _ _).mp h t ht)

/-- The comparator only looks at the sort terms' values. -/
theorem lexLe_congr (ts : List SortTerm) (a a' b b' : Row)
    (ha : ∀ t, t ∈ ts → t.expr.val a' = t.expr.val a) (hb : ∀ t, t ∈ ts → t.expr.val b' = t.expr.val b) :
    lexLe ts a' b' = lexLe ts a b := by
  induction ts with
  | nil => rfl
  | cons t ts ih =>
    simp only [lexLe, ha t (by simp), hb t (by simp)]
    rw [ih (fun u hu => ha u (by simp [hu])) (fun u hu => hb u (by simp [hu]))]

theorem sortCols_subset_term (ts : List SortTerm) (c : Cols) (h : (UOp.sortCols ts).subset c = true)
    (t : SortTerm) (ht : t ∈ ts) : t.expr.columnsRequired.subset c = true := by
  rw [Cols.subset_iff] at h ⊢
  intro x hx
  apply h
  induction ts with
  | nil => cases ht
  | cons u us ih =>
    simp only [UOp.sortCols, List.mem_append]
    rcases List.mem_cons.mp ht with rfl | h'
    · exact Or.inl hx
    · exact Or.inr (ih (fun y hy => h y (by simp [UOp.sortCols, hy])) h')

/-! ### Deduplication commutes with calculation, selection and sort -/

theorem rows_eq_of_proj {a b : Row} {cols : Cols} {l : List Row} (hl : RowsHaveCols l cols)
    (ha : a ∈ l) (hb : b ∈ l) (h : a.proj cols = b.proj cols) : a = b :=
  row_ext_of_cols (hl a ha) (hl b hb) h

theorem calc_dedup (tcols : Cols) (tag : Tag) (e : Expr) (l : List Row) (hl : RowsHaveCols l tcols)
    (htag : tag ∉ tcols) :
    firstOcc (tcols.insert tag) (l.map (fun r => r.set tag (e.val r))) =
      (firstOcc tcols l).map (fun r => r.set tag (e.val r)) := by
  simp only [firstOcc, firstOccAux_eq_by]
  have := firstOccBy_map (fun r : Row => r.proj (tcols.insert tag)) (fun r : Row => r.proj tcols)
    (fun r => r.set tag (e.val r)) [] l (by
      intro a b ha hb
      simp only [List.not_mem_nil, false_or] at ha hb
      constructor
      · intro h
        rw [← agree_iff_proj] at h ⊢
        simp only [Row.agree, List.all_eq_true, beq_iff_eq] at h ⊢
        intro t ht
        have hne : t ≠ tag := fun he => htag (he ▸ ht)
        have := h t ((Cols.mem_insert tcols tag t).mpr (Or.inl ht))
        simpa [Row.set, hne] using this
      · intro h
        rw [rows_eq_of_proj hl ha hb h])
  simpa using this

theorem sel_dedup (tcols : Cols) (p : Row → Bool) (l : List Row) (hl : RowsHaveCols l tcols) :
    firstOcc tcols (l.filter p) = (firstOcc tcols l).filter p := by
  simp only [firstOcc, firstOccAux_eq_by]
  apply firstOccBy_filter
  intro a b ha hb h
  rw [rows_eq_of_proj hl ha hb h]

theorem sort_dedup (tcols : Cols) (ts : List SortTerm) (l : List Row) (hl : RowsHaveCols l tcols) :
    firstOcc tcols (isort (lexLe ts) l) = isort (lexLe ts) (firstOcc tcols l) := by
  simp only [firstOcc, firstOccAux_eq_by]
  exact firstOccBy_isort _ (lexLe_total ts) (lexLe_trans ts) l.length l (Nat.le_refl _)
    (fun a b ha hb h => rows_eq_of_proj hl ha hb h)

theorem commute_identity (cur : UOp) (tcols : Cols) (l : List Row)
    (hcur : cur.wfOn tcols = true) : commuteSoundAt .identity cur tcols l := by
  simp only [commuteSoundAt, UOp.commute]
  refine ⟨rfl, hcur, ?_⟩
  rw [if_pos trivial]
  exact ⟨rfl, fun _ => Iff.rfl⟩

theorem commute_slice (a : Nat) (b : Option Nat) (cur : UOp) (tcols : Cols) (l : List Row)
    (hcur : cur.wfOn tcols = true) : commuteSoundAt (.slice a b) cur tcols l := by
  cases cur with
  | proj c =>
    simp only [commuteSoundAt, UOp.commute]
    refine ⟨rfl, hcur, ?_⟩
    rw [if_pos trivial]
    exact ⟨(sliceList_map _ a b l).symm, fun _ => Iff.rfl⟩
  | «calc» tag e =>
    simp only [commuteSoundAt, UOp.commute]
    refine ⟨rfl, hcur, ?_⟩
    rw [if_pos trivial]
    exact ⟨(sliceList_map _ a b l).symm, fun _ => Iff.rfl⟩
  | _ => simp [commuteSoundAt, UOp.commute, UOp.commuteFail]

/-- A calculation moves upstream of anything that does not define or need its tag. -/
theorem commute_calc (tag : Tag) (e : Expr) (cur : UOp) (tcols : Cols) (l : List Row)
    (hl : RowsHaveCols l tcols) (hcur : cur.wfOn tcols = true)
    (hself : (UOp.calc tag e).wfOn (cur.appliedColumns tcols) = true) :
    commuteSoundAt (.calc tag e) cur tcols l := by
  by_cases h1 : e.columnsRequired.subset tcols = true
  · by_cases h2 : tag ∈ tcols
    · simp [commuteSoundAt, UOp.commute, h1, h2, UOp.commuteFail]
    · have hselfwf : (UOp.calc tag e).wfOn tcols = true := by
        simp [UOp.wfOn, UOp.columnsRequired, h1, h2]
      simp only [UOp.wfOn, UOp.columnsRequired, Bool.and_eq_true, decide_eq_true_eq] at hself
      obtain ⟨hreqc, htagc⟩ := hself
      have hset : ∀ (p : Pred), p.columnsRequired.subset tcols = true → ∀ r v, p.val (Row.set r tag v) = p.val r := by
        intro p hp r v
        exact Pred.val_set p r tag v (fun hm => h2 ((Cols.subset_iff _ _).mp hp tag hm))
      have hsete : ∀ (x : Expr), x.columnsRequired.subset tcols = true → ∀ r v, x.val (Row.set r tag v) = x.val r := by
        intro x hx r v
        exact Expr.val_set x r tag v (fun hm => h2 ((Cols.subset_iff _ _).mp hx tag hm))
      cases cur with
      | proj c =>
        simp only [commuteSoundAt, UOp.commute, h1, h2, Bool.not_true, Bool.false_eq_true, if_false]
        simp only [UOp.appliedColumns] at htagc hreqc
        refine ⟨hselfwf, ?_, ?_⟩
        · simp only [UOp.wfOn, UOp.columnsRequired, UOp.appliedColumns, Bool.and_true] at hcur ⊢
          rw [Cols.subset_iff] at hcur ⊢
          intro x hx
          rcases (Cols.mem_insert c tag x).mp hx with hx | hx
          · exact (Cols.mem_insert tcols tag x).mpr (Or.inl (hcur x hx))
          · exact (Cols.mem_insert tcols tag x).mpr (Or.inr hx)
        · rw [if_pos trivial]
          refine ⟨?_, fun _ => Iff.rfl⟩
          simp only [UOp.sem, UOp.appliedColumns, List.map_map]
          apply List.map_congr_left
          intro r _
          simp only [Function.comp]
          rw [Row.set_restrict_insert, Expr.val_restrict e r c hreqc]
      | «calc» t2 e2 =>
        simp only [commuteSoundAt, UOp.commute, h1, h2, Bool.not_true, Bool.false_eq_true, if_false]
        simp only [UOp.appliedColumns] at htagc hreqc
        simp only [UOp.wfOn, UOp.columnsRequired, Bool.and_eq_true, decide_eq_true_eq] at hcur
        have hne : t2 ≠ tag := fun he => htagc ((Cols.mem_insert tcols t2 tag).mpr (Or.inr he.symm))
        refine ⟨hselfwf, ?_, ?_⟩
        · simp only [UOp.wfOn, UOp.columnsRequired, UOp.appliedColumns, Bool.and_eq_true, decide_eq_true_eq]
          refine ⟨?_, ?_⟩
          · rw [Cols.subset_iff]
            intro x hx
            exact (Cols.mem_insert tcols tag x).mpr (Or.inl ((Cols.subset_iff _ _).mp hcur.1 x hx))
          · apply decide_eq_true
            intro hm
            rcases (Cols.mem_insert tcols tag t2).mp hm with hm | hm
            · exact hcur.2 hm
            · exact hne hm
        · rw [if_pos trivial]
          refine ⟨?_, ?_⟩
          · simp only [UOp.sem, List.map_map]
            apply List.map_congr_left
            intro r hr
            simp only [Function.comp]
            rw [hsete e2 hcur.1, Expr.val_set e r t2 _ (fun hm => hcur.2 ((Cols.subset_iff _ _).mp h1 t2 hm))]
            exact Row.set_set_comm r tag t2 _ _ (fun he => hne he.symm)
          · intro x
            simp only [UOp.appliedColumns, Cols.mem_insert]
            constructor
            · rintro ((h | h) | h)
              · exact Or.inl (Or.inl h)
              · exact Or.inr h
              · exact Or.inl (Or.inr h)
            · rintro ((h | h) | h)
              · exact Or.inl (Or.inl h)
              · exact Or.inr h
              · exact Or.inl (Or.inr h)
      | dedup =>
        simp only [commuteSoundAt, UOp.commute, h1, h2, Bool.not_true, Bool.false_eq_true, if_false]
        refine ⟨hselfwf, rfl, ?_⟩
        rw [if_pos trivial]
        refine ⟨?_, fun _ => Iff.rfl⟩
        simp only [UOp.sem, UOp.appliedColumns]
        exact calc_dedup tcols tag e l hl h2
      | identity =>
        simp only [commuteSoundAt, UOp.commute, h1, h2, Bool.not_true, Bool.false_eq_true, if_false]
        refine ⟨hselfwf, rfl, ?_⟩
        rw [if_pos trivial]
        exact ⟨rfl, fun _ => Iff.rfl⟩
      | sel p =>
        simp only [commuteSoundAt, UOp.commute, h1, h2, Bool.not_true, Bool.false_eq_true, if_false]
        simp only [UOp.wfOn, UOp.columnsRequired, Bool.and_true] at hcur
        refine ⟨hselfwf, ?_, ?_⟩
        · simp only [UOp.wfOn, UOp.columnsRequired, UOp.appliedColumns, Bool.and_true]
          rw [Cols.subset_iff]
          intro x hx
          exact (Cols.mem_insert tcols tag x).mpr (Or.inl ((Cols.subset_iff _ _).mp hcur x hx))
        · rw [if_pos trivial]
          refine ⟨?_, fun _ => Iff.rfl⟩
          simp only [UOp.sem, List.filter_map]
          congr 1
          apply List.filter_congr
          intro r _
          simp only [Function.comp]
          exact hset p hcur r _
      | slice a b =>
        simp only [commuteSoundAt, UOp.commute, h1, h2, Bool.not_true, Bool.false_eq_true, if_false]
        refine ⟨hselfwf, rfl, ?_⟩
        rw [if_pos trivial]
        exact ⟨sliceList_map _ a b l, fun _ => Iff.rfl⟩
      | sort ts =>
        simp only [commuteSoundAt, UOp.commute, h1, h2, Bool.not_true, Bool.false_eq_true, if_false]
        simp only [UOp.wfOn, UOp.columnsRequired, Bool.and_true] at hcur
        refine ⟨hselfwf, ?_, ?_⟩
        · simp only [UOp.wfOn, UOp.columnsRequired, UOp.appliedColumns, Bool.and_true]
          rw [Cols.subset_iff]
          intro x hx
          exact (Cols.mem_insert tcols tag x).mpr (Or.inl ((Cols.subset_iff _ _).mp hcur x hx))
        · rw [if_pos trivial]
          refine ⟨?_, fun _ => Iff.rfl⟩
          simp only [UOp.sem]
          apply isort_map
          intro a b _ _
          apply lexLe_congr
          · intro t ht; exact hsete t.expr (sortCols_subset_term ts tcols hcur t ht) a _
          · intro t ht; exact hsete t.expr (sortCols_subset_term ts tcols hcur t ht) b _
  · simp [commuteSoundAt, UOp.commute, h1, UOp.commuteFail]

theorem map_restrict_self (l : List Row) (tcols c : Cols) (hl : RowsHaveCols l tcols)
    (hc : ∀ t, t ∈ c ↔ t ∈ tcols) : l.map (fun r => r.restrict c) = l := by
  have : l.map (fun r => r.restrict c) = l.map id := by
    apply List.map_congr_left
    intro r hr
    exact Row.restrict_self (hl r hr) hc
  simpa using this

/-- A deduplication moves upstream of anything that keeps all columns and does not count rows. -/
theorem commute_dedup (cur : UOp) (tcols : Cols) (l : List Row)
    (hl : RowsHaveCols l tcols) (hcur : cur.wfOn tcols = true) :
    commuteSoundAt .dedup cur tcols l := by
  by_cases h1 : tcols.subset (cur.appliedColumns tcols) = true
  · cases cur with
    | slice a b => simp [commuteSoundAt, UOp.commute, h1, UOp.commuteFail, UOp.isCountDependent]
    | «calc» tag e =>
      simp only [commuteSoundAt, UOp.commute, h1, UOp.isCountDependent, Bool.not_true, Bool.false_eq_true, if_false]
      have hcur0 := hcur
      simp only [UOp.wfOn, UOp.columnsRequired, Bool.and_eq_true, decide_eq_true_eq] at hcur
      refine ⟨rfl, hcur0, ?_⟩
      rw [if_pos trivial]
      refine ⟨?_, fun _ => Iff.rfl⟩
      simp only [UOp.sem, UOp.appliedColumns]
      exact (calc_dedup tcols tag e l hl hcur.2).symm
    | dedup =>
      simp only [commuteSoundAt, UOp.commute, h1, UOp.isCountDependent, Bool.not_true, Bool.false_eq_true, if_false]
      refine ⟨rfl, rfl, ?_⟩
      rw [if_pos trivial]
      exact ⟨trivial, fun _ => trivial⟩
    | identity =>
      simp only [commuteSoundAt, UOp.commute, h1, UOp.isCountDependent, Bool.not_true, Bool.false_eq_true, if_false]
      refine ⟨rfl, rfl, ?_⟩
      rw [if_pos trivial]
      exact ⟨rfl, fun _ => Iff.rfl⟩
    | proj c =>
      simp only [commuteSoundAt, UOp.commute, h1, UOp.isCountDependent, Bool.not_true, Bool.false_eq_true, if_false]
      refine ⟨rfl, hcur, ?_⟩
      rw [if_pos trivial]
      refine ⟨?_, fun _ => Iff.rfl⟩
      simp only [UOp.wfOn, UOp.columnsRequired, Bool.and_true] at hcur
      simp only [UOp.appliedColumns] at h1
      have hc : ∀ t, t ∈ c ↔ t ∈ tcols :=
        fun t => ⟨(Cols.subset_iff _ _).mp hcur t, (Cols.subset_iff _ _).mp h1 t⟩
      simp only [UOp.sem, UOp.appliedColumns]
      rw [map_restrict_self l tcols c hl hc]
      rw [map_restrict_self (firstOcc tcols l) tcols c (fun r hr => hl r (mem_firstOccAux _ _ _ _ hr)) hc]
      exact firstOcc_congr tcols c (fun t => (hc t).symm) l
    | sel p =>
      simp only [commuteSoundAt, UOp.commute, h1, UOp.isCountDependent, Bool.not_true, Bool.false_eq_true, if_false]
      refine ⟨rfl, hcur, ?_⟩
      rw [if_pos trivial]
      refine ⟨?_, fun _ => Iff.rfl⟩
      simp only [UOp.sem, UOp.appliedColumns]
      exact (sel_dedup tcols _ l hl).symm
    | sort ts =>
      simp only [commuteSoundAt, UOp.commute, h1, UOp.isCountDependent, Bool.not_true, Bool.false_eq_true, if_false]
      refine ⟨rfl, hcur, ?_⟩
      rw [if_pos trivial]
      refine ⟨?_, fun _ => Iff.rfl⟩
      simp only [UOp.sem, UOp.appliedColumns]
      exact (sort_dedup tcols ts l hl).symm
  · simp [commuteSoundAt, UOp.commute, h1, UOp.commuteFail]

/-- A selection moves upstream of anything that does not count rows. -/
theorem commute_sel (p : Pred) (cur : UOp) (tcols : Cols) (l : List Row)
    (hl : RowsHaveCols l tcols) (hcur : cur.wfOn tcols = true)
    (hself : (UOp.sel p).wfOn (cur.appliedColumns tcols) = true) :
    commuteSoundAt (.sel p) cur tcols l := by
  by_cases h1 : p.columnsRequired.subset tcols = true
  · have hselfwf : (UOp.sel p).wfOn tcols = true := by simp [UOp.wfOn, UOp.columnsRequired, h1]
    cases cur with
    | slice a b => simp [commuteSoundAt, UOp.commute, h1, UOp.commuteFail, UOp.isCountDependent]
    | «calc» tag e =>
      simp only [commuteSoundAt, UOp.commute, h1, UOp.isCountDependent, Bool.not_true, Bool.false_eq_true, if_false]
      refine ⟨hselfwf, hcur, ?_⟩
      rw [if_pos trivial]
      refine ⟨?_, fun _ => Iff.rfl⟩
      simp only [UOp.wfOn, UOp.columnsRequired, Bool.and_eq_true, decide_eq_true_eq] at hcur
      simp only [UOp.sem, List.filter_map]
      congr 1
      apply List.filter_congr
      intro r _
      simp only [Function.comp]
      exact (Pred.val_set p r tag _ (fun hm => hcur.2 ((Cols.subset_iff _ _).mp h1 tag hm))).symm
    | dedup =>
      simp only [commuteSoundAt, UOp.commute, h1, UOp.isCountDependent, Bool.not_true, Bool.false_eq_true, if_false]
      refine ⟨hselfwf, rfl, ?_⟩
      rw [if_pos trivial]
      refine ⟨?_, fun _ => Iff.rfl⟩
      simp only [UOp.sem, UOp.appliedColumns]
      exact sel_dedup tcols _ l hl
    | identity =>
      simp only [commuteSoundAt, UOp.commute, h1, UOp.isCountDependent, Bool.not_true, Bool.false_eq_true, if_false]
      refine ⟨hselfwf, rfl, ?_⟩
      rw [if_pos trivial]
      exact ⟨rfl, fun _ => Iff.rfl⟩
    | proj c =>
      simp only [commuteSoundAt, UOp.commute, h1, UOp.isCountDependent, Bool.not_true, Bool.false_eq_true, if_false]
      refine ⟨hselfwf, hcur, ?_⟩
      rw [if_pos trivial]
      refine ⟨?_, fun _ => Iff.rfl⟩
      simp only [UOp.wfOn, UOp.columnsRequired, UOp.appliedColumns, Bool.and_true] at hself
      simp only [UOp.sem, List.filter_map]
      congr 1
      apply List.filter_congr
      intro r _
      simp only [Function.comp]
      exact (Pred.val_restrict p r c hself).symm
    | sel q =>
      simp only [commuteSoundAt, UOp.commute, h1, UOp.isCountDependent, Bool.not_true, Bool.false_eq_true, if_false]
      refine ⟨hselfwf, hcur, ?_⟩
      rw [if_pos trivial]
      refine ⟨?_, fun _ => Iff.rfl⟩
      simp only [UOp.sem, List.filter_filter]
      apply List.filter_congr
      intro r _
      exact Bool.and_comm _ _
    | sort ts =>
      simp only [commuteSoundAt, UOp.commute, h1, UOp.isCountDependent, Bool.not_true, Bool.false_eq_true, if_false]
      refine ⟨hselfwf, hcur, ?_⟩
      rw [if_pos trivial]
      refine ⟨?_, fun _ => Iff.rfl⟩
      simp only [UOp.sem]
      exact (filter_isort (lexLe_total ts) (lexLe_trans ts) _ l).symm
  · simp [commuteSoundAt, UOp.commute, h1, UOp.commuteFail]

/-- A sort moves upstream of anything that is not order dependent and is not itself a sort. -/
theorem commute_sort (ts : List SortTerm) (cur : UOp) (tcols : Cols) (l : List Row)
    (hl : RowsHaveCols l tcols) (hcur : cur.wfOn tcols = true)
    (hself : (UOp.sort ts).wfOn (cur.appliedColumns tcols) = true) :
    commuteSoundAt (.sort ts) cur tcols l := by
  by_cases h1 : (UOp.sortCols ts).subset tcols = true
  · have hselfwf : (UOp.sort ts).wfOn tcols = true := by simp [UOp.wfOn, UOp.columnsRequired, h1]
    cases cur with
    | slice a b => simp [commuteSoundAt, UOp.commute, h1, UOp.commuteFail, UOp.isOrderDependent]
    | sort ts0 => simp [commuteSoundAt, UOp.commute, h1, UOp.commuteFail, UOp.isOrderDependent]
    | «calc» tag e =>
      simp only [commuteSoundAt, UOp.commute, h1, UOp.isOrderDependent, Bool.not_true, Bool.false_eq_true, if_false]
      refine ⟨hselfwf, hcur, ?_⟩
      rw [if_pos trivial]
      refine ⟨?_, fun _ => Iff.rfl⟩
      simp only [UOp.wfOn, UOp.columnsRequired, Bool.and_eq_true, decide_eq_true_eq] at hcur
      simp only [UOp.sem]
      symm
      apply isort_map
      intro a b _ _
      have hv : ∀ (t : SortTerm), t ∈ ts → ∀ r v, t.expr.val (Row.set r tag v) = t.expr.val r := by
        intro t ht r v
        apply Expr.val_set
        intro hm
        exact hcur.2 ((Cols.subset_iff _ _).mp (sortCols_subset_term ts tcols h1 t ht) tag hm)
      exact lexLe_congr ts a _ b _ (fun t ht => hv t ht a _) (fun t ht => hv t ht b _)
    | dedup =>
      simp only [commuteSoundAt, UOp.commute, h1, UOp.isOrderDependent, Bool.not_true, Bool.false_eq_true, if_false]
      refine ⟨hselfwf, rfl, ?_⟩
      rw [if_pos trivial]
      refine ⟨?_, fun _ => Iff.rfl⟩
      simp only [UOp.sem, UOp.appliedColumns]
      exact sort_dedup tcols ts l hl
    | identity =>
      simp only [commuteSoundAt, UOp.commute, h1, UOp.isOrderDependent, Bool.not_true, Bool.false_eq_true, if_false]
      refine ⟨hselfwf, rfl, ?_⟩
      rw [if_pos trivial]
      exact ⟨rfl, fun _ => Iff.rfl⟩
    | proj c =>
      simp only [commuteSoundAt, UOp.commute, h1, UOp.isOrderDependent, Bool.not_true, Bool.false_eq_true, if_false]
      refine ⟨hselfwf, hcur, ?_⟩
      rw [if_pos trivial]
      refine ⟨?_, fun _ => Iff.rfl⟩
      simp only [UOp.wfOn, UOp.columnsRequired, UOp.appliedColumns, Bool.and_true] at hself
      simp only [UOp.sem]
      symm
      apply isort_map
      intro a b _ _
      have hv : ∀ (t : SortTerm), t ∈ ts → ∀ r, t.expr.val (Row.restrict r c) = t.expr.val r :=
        fun t ht r => Expr.val_restrict t.expr r c (sortCols_subset_term ts c hself t ht)
      exact lexLe_congr ts a _ b _ (fun t ht => hv t ht a) (fun t ht => hv t ht b)
    | sel q =>
      simp only [commuteSoundAt, UOp.commute, h1, UOp.isOrderDependent, Bool.not_true, Bool.false_eq_true, if_false]
      refine ⟨hselfwf, hcur, ?_⟩
      rw [if_pos trivial]
      refine ⟨?_, fun _ => Iff.rfl⟩
      simp only [UOp.sem]
      exact filter_isort (lexLe_total ts) (lexLe_trans ts) _ l
  · simp [commuteSoundAt, UOp.commute, h1, UOp.commuteFail]

theorem UOp.sem_proj (c x : Cols) (l : List Row) : (UOp.proj c).sem x l = l.map (fun r => r.restrict c) := rfl
theorem UOp.appliedColumns_proj (c x : Cols) : (UOp.proj c).appliedColumns x = c := rfl
theorem UOp.wfOn_proj (c x : Cols) : (UOp.proj c).wfOn x = c.subset x := by
  simp [UOp.wfOn, UOp.columnsRequired]

/-- The generic branch of `Projection.commute` for an operation that keeps its target's columns
and whose rows can be computed on the columns it requires (selection, slice, sort, identity). -/
theorem commute_proj_generic (cols : Cols) (cur : UOp) (tcols : Cols) (l : List Row)
    (hcur : cur.wfOn tcols = true) (hself : cols.subset tcols = true)
    (hkeep : ∀ c, cur.appliedColumns c = c)
    (hwf : ∀ c, cur.wfOn c = cur.columnsRequired.subset c)
    /- `cur` computed on rows restricted to a superset of its required columns -/
    (hloc : ∀ (c : Cols), cur.columnsRequired.subset c = true → ∀ c1 c2,
        cur.sem c1 (l.map (fun r => r.restrict c)) = (cur.sem c2 l).map (fun r => r.restrict c)) :
    (if !(cur.columnsRequired.subset cols) then
        let f := UOp.proj (cols.union cur.columnsRequired)
        let fc := f.appliedColumns tcols
        let sc := cur.appliedColumns fc
        f.wfOn tcols = true ∧ cur.wfOn fc = true ∧ (UOp.proj cols).wfOn sc = true ∧
          (UOp.proj cols).sem ((UOp.proj cols).appliedColumns sc) (cur.sem sc (f.sem fc l)) =
            (UOp.proj cols).sem ((UOp.proj cols).appliedColumns (cur.appliedColumns tcols))
              (cur.sem (cur.appliedColumns tcols) l) ∧
          (∀ x, x ∈ sc → x ∈ cur.appliedColumns tcols)
      else
        let f := UOp.proj cols
        let fc := f.appliedColumns tcols
        let sc := cur.appliedColumns fc
        f.wfOn tcols = true ∧ cur.wfOn fc = true ∧
          cur.sem sc (f.sem fc l) = (UOp.proj cols).sem ((UOp.proj cols).appliedColumns (cur.appliedColumns tcols))
              (cur.sem (cur.appliedColumns tcols) l) ∧
          (∀ x, x ∈ sc ↔ x ∈ (UOp.proj cols).appliedColumns (cur.appliedColumns tcols))) := by
  have hreq : cur.columnsRequired.subset tcols = true := by rw [← hwf]; exact hcur
  by_cases h : cur.columnsRequired.subset cols = true
  · simp only [h, Bool.not_true, Bool.false_eq_true, if_false]
    refine ⟨by rw [UOp.wfOn_proj]; exact hself, ?_, ?_, ?_⟩
    · rw [hwf]; exact h
    · simp only [UOp.sem_proj, UOp.appliedColumns_proj]
      exact hloc cols h _ _
    · intro x; simp only [UOp.appliedColumns_proj, hkeep]
  · simp only [h, Bool.not_false, if_true]
    have hsub : (cols.union cur.columnsRequired).subset tcols = true := by
      rw [Cols.subset_iff]
      intro x hx
      rcases (Cols.mem_union _ _ x).mp hx with hx | hx
      · exact (Cols.subset_iff _ _).mp hself x hx
      · exact (Cols.subset_iff _ _).mp hreq x hx
    have hreq' : cur.columnsRequired.subset (cols.union cur.columnsRequired) = true := by
      rw [Cols.subset_iff]; intro x hx; exact (Cols.mem_union _ _ x).mpr (Or.inr hx)
    refine ⟨by rw [UOp.wfOn_proj]; exact hsub, ?_, ?_, ?_, ?_⟩
    · rw [hwf]; exact hreq'
    · simp only [UOp.wfOn_proj, UOp.appliedColumns_proj, hkeep]
      rw [Cols.subset_iff]; intro x hx; exact (Cols.mem_union _ _ x).mpr (Or.inl hx)
    rotate_left
    · intro x hx
      simp only [UOp.appliedColumns_proj, hkeep] at hx ⊢
      exact (Cols.subset_iff _ _).mp hsub x hx
    · simp only [UOp.sem_proj, UOp.appliedColumns_proj]
      rw [hloc (cols.union cur.columnsRequired) hreq' _ (cur.appliedColumns tcols), List.map_map]
      apply List.map_congr_left
      intro r _
      simp only [Function.comp]
      exact Row.restrict_restrict r cols _ (fun t ht => (Cols.mem_union _ _ t).mpr (Or.inl ht))

/-- Stitching the generic branch into the statement. -/
theorem commute_proj_keep (cols : Cols) (cur : UOp) (tcols : Cols) (l : List Row)
    (hcur : cur.wfOn tcols = true) (hself : (UOp.proj cols).wfOn (cur.appliedColumns tcols) = true)
    (hkeep : ∀ c, cur.appliedColumns c = c)
    (hwf : ∀ c, cur.wfOn c = cur.columnsRequired.subset c)
    (hloc : ∀ (c : Cols), cur.columnsRequired.subset c = true → ∀ c1 c2,
        cur.sem c1 (l.map (fun r => r.restrict c)) = (cur.sem c2 l).map (fun r => r.restrict c))
    (hcomm : (UOp.proj cols).commute cur tcols (cur.appliedColumns tcols) =
      if !(cur.columnsRequired.subset cols) then
        ⟨some (.proj (cols.union cur.columnsRequired)), cur, false⟩
      else ⟨some (.proj cols), cur, true⟩) :
    commuteSoundAt (.proj cols) cur tcols l := by
  have hself' : cols.subset tcols = true := by
    rw [UOp.wfOn_proj, hkeep] at hself; exact hself
  have g := commute_proj_generic cols cur tcols l hcur hself' hkeep hwf hloc
  unfold commuteSoundAt
  simp only [hcomm]
  by_cases h : cur.columnsRequired.subset cols = true
  · simp only [h, Bool.not_true, Bool.false_eq_true, if_false] at g ⊢
    exact ⟨g.1, g.2.1, g.2.2.1, g.2.2.2⟩
  · simp only [h, Bool.not_false, if_true] at g ⊢
    refine ⟨g.1, g.2.1, g.2.2.1, g.2.2.2.1, ?_, g.2.2.2.2⟩
    intro x
    simp only [UOp.appliedColumns_proj]

/-- A projection moves upstream of everything except a deduplication (see
`commute_proj_dedup_unsound`), possibly widened by the columns the existing operation needs. -/
theorem commute_proj (cols : Cols) (cur : UOp) (tcols : Cols) (l : List Row)
    (hcur : cur.wfOn tcols = true) (hself : (UOp.proj cols).wfOn (cur.appliedColumns tcols) = true)
    (hnd : cur.isDedup = false) :
    commuteSoundAt (.proj cols) cur tcols l := by
  cases cur with
  | dedup => simp [UOp.isDedup] at hnd
  | identity =>
    exact commute_proj_keep cols .identity tcols l hcur hself (fun _ => rfl) (fun _ => rfl)
      (fun _ _ _ _ => rfl) rfl
  | slice a b =>
    exact commute_proj_keep cols (.slice a b) tcols l hcur hself (fun _ => rfl) (fun _ => rfl)
      (fun c _ _ _ => sliceList_map _ a b l) rfl
  | sel p =>
    refine commute_proj_keep cols (.sel p) tcols l hcur hself (fun _ => rfl)
      (fun c => by simp [UOp.wfOn, UOp.columnsRequired]) ?_ rfl
    intro c hc _ _
    simp only [UOp.sem, List.filter_map]
    congr 1
    apply List.filter_congr
    intro r _
    exact Pred.val_restrict p r c hc
  | sort ts =>
    refine commute_proj_keep cols (.sort ts) tcols l hcur hself (fun _ => rfl)
      (fun c => by simp [UOp.wfOn, UOp.columnsRequired]) ?_ rfl
    intro c hc _ _
    simp only [UOp.sem]
    apply isort_map
    intro a b _ _
    have hv : ∀ (t : SortTerm), t ∈ ts → ∀ r, t.expr.val (Row.restrict r c) = t.expr.val r :=
      fun t ht r => Expr.val_restrict t.expr r c (sortCols_subset_term ts c hc t ht)
    exact lexLe_congr ts a _ b _ (fun t ht => hv t ht a) (fun t ht => hv t ht b)
  | proj c0 =>
    simp only [commuteSoundAt, UOp.commute]
    simp only [UOp.wfOn_proj, UOp.appliedColumns_proj] at hself hcur
    refine ⟨?_, rfl, ?_⟩
    · rw [UOp.wfOn_proj, Cols.subset_iff]
      intro x hx
      exact (Cols.subset_iff _ _).mp hcur x ((Cols.subset_iff _ _).mp hself x hx)
    · rw [if_pos trivial]
      refine ⟨?_, fun _ => Iff.rfl⟩
      simp only [UOp.sem, List.map_map]
      apply List.map_congr_left
      intro r _
      simp only [Function.comp]
      exact (Row.restrict_restrict r cols c0 ((Cols.subset_iff _ _).mp hself)).symm
  | «calc» tag e =>
    simp only [UOp.wfOn_proj] at hself
    simp only [UOp.appliedColumns] at hself
    simp only [UOp.wfOn, UOp.columnsRequired, Bool.and_eq_true, decide_eq_true_eq] at hcur
    obtain ⟨hereq, htag⟩ := hcur
    have hsub := (Cols.subset_iff _ _).mp hself
    by_cases ht : tag ∈ cols
    · -- the projection keeps the calculated column
      have hcm : ∀ x, x ∈ cols.diff [tag] ↔ x ∈ cols ∧ x ≠ tag := by
        intro x; rw [Cols.mem_diff]; simp
      have hcmsub : ∀ x, x ∈ cols.diff [tag] → x ∈ tcols := by
        intro x hx
        obtain ⟨h1, h2⟩ := (hcm x).mp hx
        rcases (Cols.mem_insert tcols tag x).mp (hsub x h1) with h | h
        · exact h
        · exact absurd h h2
      have htage : tag ∉ e.columnsRequired := fun hm => htag ((Cols.subset_iff _ _).mp hereq tag hm)
      by_cases hreq : e.columnsRequired.subset (cols.diff [tag]) = true
      · simp only [commuteSoundAt, UOp.commute, ht, not_true_eq_false, if_false, UOp.columnsRequired, hreq,
          Bool.not_true, Bool.false_eq_true]
        refine ⟨?_, ?_, ?_⟩
        · rw [UOp.wfOn_proj, Cols.subset_iff]; exact hcmsub
        · simp only [UOp.wfOn, UOp.columnsRequired, UOp.appliedColumns_proj, Bool.and_eq_true]
          refine ⟨hreq, ?_⟩
          apply decide_eq_true
          intro hm
          exact ((hcm tag).mp hm).2 rfl
        · rw [if_pos trivial]
          refine ⟨?_, ?_⟩
          · simp only [UOp.sem, List.map_map]
            apply List.map_congr_left
            intro r _
            simp only [Function.comp]
            rw [Expr.val_restrict e r _ hreq]
            funext u
            unfold Row.set Row.restrict
            by_cases hu : u = tag
            · subst hu; simp [ht]
            · have : u ∈ cols.diff [tag] ↔ u ∈ cols := by rw [hcm]; simp [hu]
              simp [hu, this]
          · intro x
            simp only [UOp.appliedColumns, Cols.mem_insert, hcm]
            constructor
            · rintro (⟨h, _⟩ | h)
              · exact h
              · exact h ▸ ht
            · intro h
              by_cases hx : x = tag
              · exact Or.inr hx
              · exact Or.inl ⟨h, hx⟩
      · simp only [commuteSoundAt, UOp.commute, ht, not_true_eq_false, if_false, UOp.columnsRequired, hreq,
          Bool.not_false, if_true]
        have hreq' : e.columnsRequired.subset ((cols.diff [tag]).union e.columnsRequired) = true := by
          rw [Cols.subset_iff]; intro x hx; exact (Cols.mem_union _ _ x).mpr (Or.inr hx)
        refine ⟨?_, ?_, ?_⟩
        · rw [UOp.wfOn_proj, Cols.subset_iff]
          intro x hx
          rcases (Cols.mem_union _ _ x).mp hx with hx | hx
          · exact hcmsub x hx
          · exact (Cols.subset_iff _ _).mp hereq x hx
        · simp only [UOp.wfOn, UOp.columnsRequired, UOp.appliedColumns_proj, Bool.and_eq_true]
          refine ⟨hreq', ?_⟩
          apply decide_eq_true
          intro hm
          rcases (Cols.mem_union _ _ tag).mp hm with hm | hm
          · exact ((hcm tag).mp hm).2 rfl
          · exact htage hm
        · rw [if_neg (by simp)]
          refine ⟨?_, ?_, fun _ => Iff.rfl, ?_⟩
          rotate_left 2
          · intro x hx
            simp only [UOp.appliedColumns, Cols.mem_insert, Cols.mem_union] at hx ⊢
            rcases hx with (hx | hx) | hx
            · exact Or.inl (hcmsub x hx)
            · exact Or.inl ((Cols.subset_iff _ _).mp hereq x hx)
            · exact Or.inr hx
          · rw [UOp.wfOn_proj, Cols.subset_iff]
            intro x hx
            simp only [UOp.appliedColumns, Cols.mem_insert, Cols.mem_union, hcm]
            by_cases hxt : x = tag
            · exact Or.inr hxt
            · exact Or.inl (Or.inl ⟨hx, hxt⟩)
          · simp only [UOp.sem, List.map_map]
            apply List.map_congr_left
            intro r _
            simp only [Function.comp]
            rw [Expr.val_restrict e r _ hreq']
            funext u
            unfold Row.set Row.restrict
            by_cases huc : u ∈ cols
            · by_cases hu : u = tag
              · simp [huc, hu]
              · have : u ∈ (cols.diff [tag]).union e.columnsRequired :=
                  (Cols.mem_union _ _ u).mpr (Or.inl ((hcm u).mpr ⟨huc, hu⟩))
                simp [huc, hu, this]
            · simp [huc]
    · -- the projection drops the calculated column: the calculation disappears
      simp only [commuteSoundAt, UOp.commute, ht, not_false_eq_true, if_true]
      have hsub' : cols.subset tcols = true := by
        rw [Cols.subset_iff]
        intro x hx
        rcases (Cols.mem_insert tcols tag x).mp (hsub x hx) with h | h
        · exact h
        · exact absurd (h ▸ hx) ht
      refine ⟨by rw [UOp.wfOn_proj]; exact hsub', rfl, ?_⟩
      refine ⟨?_, fun _ => Iff.rfl⟩
      simp only [UOp.sem, List.map_map]
      apply List.map_congr_left
      intro r _
      simp only [Function.comp]
      exact (Row.restrict_set r cols tag _ ht).symm

end DafRel
