/-
The checked evaluators (what the engine's callables do) agree with the specification semantics
whenever the expression is well-formed (arities) and the row has all required columns:
no exception, same value.  AND/OR: the short-circuit of `all()`/`any()` is invisible then.
-/
import DafRel.Lemmas.Expr

namespace DafRel

def Row.hasAll (r : Row) (c : Cols) : Prop := ∀ t, t ∈ c → (r t).isSome = true

theorem Fn.apply_some_of_arity (f : Fn) (vs : List Int) (h : vs.length = f.arity) :
    ∃ v, f.apply vs = some v := by
  rcases vs with _ | ⟨a, _ | ⟨b, _ | ⟨c, rest⟩⟩⟩ <;> cases f <;> simp [Fn.arity] at h <;> simp [Fn.apply] <;> omega

theorem PFn.apply_some_of_arity (f : PFn) (vs : List Int) (h : vs.length = f.arity) :
    ∃ v, f.apply vs = some v := by
  rcases vs with _ | ⟨a, _ | ⟨b, _ | ⟨c, rest⟩⟩⟩ <;> cases f <;> simp [PFn.arity] at h <;> simp [PFn.apply] <;> omega

theorem Expr.valList_length (r : Row) (es : List Expr) : (Expr.valList r es).length = es.length := by
  induction es with
  | nil => rfl
  | cons e es ih => simp [Expr.valList, ih]

mutual
theorem Expr.eval_eq_val (r : Row) : (e : Expr) → e.arityOk = true → r.hasAll e.columnsRequired →
    e.eval r = some (e.val r)
  | .lit _, _, _ => rfl
  | .ref t, _, h => by
    have := h t (by simp [Expr.columnsRequired])
    cases hr : r t with
    | none => simp [hr] at this
    | some v => simp [Expr.eval, Expr.val, Row.getD0, hr]
  | .fn f args _, ha, h => by
    simp only [Expr.arityOk, Bool.and_eq_true, beq_iff_eq] at ha
    have hl := Expr.evalList_eq_valList r args ha.2 (by simpa [Expr.columnsRequired] using h)
    simp only [Expr.eval, hl, Expr.val]
    obtain ⟨v, hv⟩ := Fn.apply_some_of_arity f (Expr.valList r args) (by rw [Expr.valList_length, ha.1])
    simp [hv]
theorem Expr.evalList_eq_valList (r : Row) : (es : List Expr) → Expr.arityOkList es = true →
    r.hasAll (Expr.columnsRequiredList es) → Expr.evalList r es = some (Expr.valList r es)
  | [], _, _ => rfl
  | e :: es, ha, h => by
    simp only [Expr.arityOkList, Bool.and_eq_true] at ha
    have h1 := Expr.eval_eq_val r e ha.1 (fun t ht => h t (by simp [Expr.columnsRequiredList, ht]))
    have h2 := Expr.evalList_eq_valList r es ha.2 (fun t ht => h t (by simp [Expr.columnsRequiredList, ht]))
    simp [Expr.evalList, h1, h2, Expr.valList]
end

theorem Container.evalContains_eq (r : Row) (x : Int) (c : Container) (ha : c.arityOk = true)
    (h : r.hasAll c.columnsRequired) : c.evalContains r x = some (c.valContains r x) := by
  cases c with
  | range a b s => rfl
  | seq items =>
    have := Expr.evalList_eq_valList r items (by simpa [Container.arityOk] using ha)
      (by simpa [Container.columnsRequired] using h)
    simp [Container.evalContains, Container.valContains, this]

mutual
theorem Pred.eval_eq_val (r : Row) : (p : Pred) → p.arityOk = true → r.hasAll p.columnsRequired →
    p.eval r = some (p.val r)
  | .lit _, _, _ => rfl
  | .ref t, _, h => by
    have := h t (by simp [Pred.columnsRequired])
    cases hr : r t with
    | none => simp [hr] at this
    | some v => simp [Pred.eval, Pred.val, Row.getD0, hr]
  | .fn f args _, ha, h => by
    simp only [Pred.arityOk, Bool.and_eq_true, beq_iff_eq] at ha
    have hl := Expr.evalList_eq_valList r args ha.2 (by simpa [Pred.columnsRequired] using h)
    simp only [Pred.eval, hl, Pred.val]
    obtain ⟨v, hv⟩ := PFn.apply_some_of_arity f (Expr.valList r args) (by rw [Expr.valList_length, ha.1])
    simp [hv]
  | .not p, ha, h => by
    have := Pred.eval_eq_val r p (by simpa [Pred.arityOk] using ha) (by simpa [Pred.columnsRequired] using h)
    simp [Pred.eval, Pred.val, this]
  | .and ps, ha, h => by
    have := Pred.evalAll_eq_valAll r ps (by simpa [Pred.arityOk] using ha) (by simpa [Pred.columnsRequired] using h)
    simp [Pred.eval, Pred.val, this]
  | .or ps, ha, h => by
    have := Pred.evalAny_eq_valAny r ps (by simpa [Pred.arityOk] using ha) (by simpa [Pred.columnsRequired] using h)
    simp [Pred.eval, Pred.val, this]
  | .inC item c, ha, h => by
    simp only [Pred.arityOk, Bool.and_eq_true] at ha
    have h1 := Expr.eval_eq_val r item ha.1 (fun t ht => h t (by simp [Pred.columnsRequired, ht]))
    have h2 := Container.evalContains_eq r (item.val r) c ha.2 (fun t ht => h t (by simp [Pred.columnsRequired, ht]))
    simp [Pred.eval, Pred.val, h1, h2]
theorem Pred.evalAll_eq_valAll (r : Row) : (ps : List Pred) → Pred.arityOkList ps = true →
    r.hasAll (Pred.columnsRequiredList ps) → Pred.evalAll r ps = some (Pred.valAll r ps)
  | [], _, _ => rfl
  | p :: ps, ha, h => by
    simp only [Pred.arityOkList, Bool.and_eq_true] at ha
    have h1 := Pred.eval_eq_val r p ha.1 (fun t ht => h t (by simp [Pred.columnsRequiredList, ht]))
    have h2 := Pred.evalAll_eq_valAll r ps ha.2 (fun t ht => h t (by simp [Pred.columnsRequiredList, ht]))
    simp only [Pred.evalAll, h1, Pred.valAll]
    cases hv : Pred.val r p <;> simp [h2]
theorem Pred.evalAny_eq_valAny (r : Row) : (ps : List Pred) → Pred.arityOkList ps = true →
    r.hasAll (Pred.columnsRequiredList ps) → Pred.evalAny r ps = some (Pred.valAny r ps)
  | [], _, _ => rfl
  | p :: ps, ha, h => by
    simp only [Pred.arityOkList, Bool.and_eq_true] at ha
    have h1 := Pred.eval_eq_val r p ha.1 (fun t ht => h t (by simp [Pred.columnsRequiredList, ht]))
    have h2 := Pred.evalAny_eq_valAny r ps ha.2 (fun t ht => h t (by simp [Pred.columnsRequiredList, ht]))
    simp only [Pred.evalAny, h1, Pred.valAny]
    cases hv : Pred.val r p <;> simp [h2]
end

end DafRel
