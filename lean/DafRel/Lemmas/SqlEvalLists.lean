/-
List-level facts about the SQL evaluation model (`Query.eval`): ORDER BY keys versus the reference
comparator `lexLe`, DISTINCT versus first occurrences, OFFSET/LIMIT versus Python slices.
-/
import DafRel.Model.Sql
import DafRel.Lemmas.ListOps
import DafRel.Lemmas.Commute

namespace DafRel

/-- The ORDER BY key tuple of a row under the sort terms `ts`. -/
def keysOf (ts : List SortTerm) (r : Row) : List (Int × Bool) := ts.map (fun t => (t.expr.val r, t.asc))

theorem keysLe_keysOf (ts : List SortTerm) (a b : Row) : keysLe (keysOf ts a) (keysOf ts b) = lexLe ts a b := by
  induction ts with
  | nil => rfl
  | cons t ts ih =>
    simp only [keysOf, List.map_cons, keysLe, lexLe]
    split
    · exact ih
    · rfl

/-- DISTINCT over (row, keys) pairs built from rows = first occurrences of the rows. -/
theorem distinctPairs_map (cols : Cols) (f : Row → List (Int × Bool)) (rows : List Row)
    (seen : List (List (Option Int))) :
    distinctPairs cols (rows.map (fun r => (r, f r))) seen = (firstOccAux cols seen rows).map (fun r => (r, f r)) := by
  induction rows generalizing seen with
  | nil => rfl
  | cons r rs ih =>
    simp only [List.map_cons, distinctPairs, firstOccAux]
    split
    · exact ih seen
    · simp only [List.map_cons]
      rw [ih]

theorem finishLevel_rows (cols : Cols) (pairs : List (Row × List (Int × Bool))) (hasOrder : Bool)
    (offset : Nat) (limit : Option Nat) (detIn amb : Bool) :
    (finishLevel cols pairs hasOrder offset limit detIn amb).rows =
      (sliceList offset (limit.map (· + offset))
        (if hasOrder then isort (fun a b => keysLe a.2 b.2) pairs else pairs)).map (·.1) := rfl

/-- `OFFSET start LIMIT (stop - start)` = the Python slice `[start:stop]`. -/
theorem sliceList_limit {α : Type} (start : Nat) (stop : Option Nat) (l : List α) :
    sliceList start ((stop.map (· - start)).map (· + start)) l = sliceList start stop l := by
  cases stop with
  | none => rfl
  | some e =>
    simp only [Option.map_some, sliceList]
    by_cases h : start ≤ e
    · rw [Nat.sub_add_cancel h]
    · have h1 : e - start + start = start := by omega
      rw [h1]
      have h2 : ((l.take start).drop start) = [] := by simp
      have h3 : ((l.take e).drop start) = [] := by
        apply List.drop_eq_nil_of_le
        simp only [List.length_take]
        omega
      rw [h2, h3]

/-- Sorting the (row, keys) pairs by their keys = sorting the rows by `lexLe`. -/
theorem isort_pairs (ts : List SortTerm) (g : Row → Row) (rows : List Row) :
    isort (fun (a b : Row × List (Int × Bool)) => keysLe a.2 b.2) (rows.map (fun r => (g r, keysOf ts r))) =
      (isort (lexLe ts) rows).map (fun r => (g r, keysOf ts r)) := by
  apply isort_map
  intro a b _ _
  exact keysLe_keysOf ts a b

end DafRel
