/-
The Processor on a tree that lives in one iteration engine: nothing is rebuilt, every materialization receives a
payload holding exactly the rows of the direct evaluation of its target, the payload store stays right - so a
subsequent `execute` returns the direct rows (Lemmas/Exec.lean).
-/
import DafRel.Spec.Processor
import DafRel.Lemmas.Exec
import DafRel.Lemmas.ExecP
import DafRel.Lemmas.Metadata

namespace DafRel

theorem PlainIter.engine {e : Engine} : (t : Rel) → t.PlainIter e → t.engine = e
  | .leaf .., h => h
  | .unary _ t _, h => PlainIter.engine t h
  | .binary _ l _ _, h => PlainIter.engine l h.1
  | .mat _ _ t, h => PlainIter.engine t h
  | .transfer .., h => by cases h
  | .select .., h => by cases h

/-- What processing a plain iteration-engine tree achieves. -/
structure ProcIterOK (σ : Leaves) (reg : Nat → Option (List Row)) (t : Rel) (s s' : ProcState) : Prop where
  store : StoreOK σ reg s'.st
  sq : s'.sq = s.sq
  cached : t.procFlag = true → (s'.payloadOf t).isSome = true
  temp : s'.nextTemp = s.nextTemp
  mono : PayMono s.st s'.st
  new : PayNew t s.st s'.st
  keep : PayKeep s.st s'.st

theorem payloadOf_free (s : ProcState) (r : Rel) (h : s.sq.payload r.oid = none) :
    s.payloadOf r = match r with
      | .leaf oid _ _ _ _ _ p _ => if !p then none else some (.iter (.leafRef oid))
      | .unary .. => none
      | .binary .. => none
      | r => (s.st.payload r.oid).map AnyPayload.iter := by
  cases r <;> simp only [Rel.oid] at h <;> simp [ProcState.payloadOf, h, Rel.oid] <;>
    (try (cases s.st.payload _ <;> rfl))

theorem sqFree_oid (sq : SqlState) : (r : Rel) → r.sqFree sq → r.procFlag = true → sq.payload r.oid = none
  | .leaf .., h, _ => h
  | .mat .., h, _ => h.1
  | .transfer .., h, _ => h.1
  | .select .., h, _ => h.1
  | .unary .., _, hf => by simp [Rel.procFlag] at hf
  | .binary .., _, hf => by simp [Rel.procFlag] at hf

/-- The `materialize` hook of the harness's Processor on a single-engine iteration tree: it returns the rows of the
direct evaluation as a row sequence, logs one hook call, and leaves the payload store right. -/
theorem hookMaterialize_iter (σ : Leaves) (reg : Nat → Option (List Row)) (t : Rel) (name : String) (s : ProcState)
    (hk : t.engine.kind = .iter) (hio : t.IterOKs s.st) (hwf : t.WF) (htr : t.Truthful σ) (hkd : keyDetermined σ t = true)
    (hreg : t.RegOK σ reg) (hs : StoreOK σ reg s.st) (hac : t.Acyclic) :
    ∃ s', (hookMaterialize σ t name) s = (.ok (.iter (.seq (sem σ t))), s') ∧ StoreOK σ reg s'.st ∧
      s'.sq = s.sq ∧ s'.nextTemp = s.nextTemp ∧ PayMono s.st s'.st ∧ PayNew t s.st s'.st ∧ PayKeep s.st s'.st := by
  obtain ⟨it, st', h1, h2, h3, h4, h5⟩ : ∃ it st', exec σ t.engine t { s.st with log := [] } = .ok (it, st') ∧
      it.rows σ = .ok (sem σ t) ∧ StoreOK σ reg st' ∧ PayMono s.st st' ∧ PayNew t s.st st' := by
    have hm0 : PayMono s.st { s.st with log := [] } := PayMono.of_payloads_eq rfl
    have := exec_correctM σ reg t t.engine { s.st with log := [] } (IterOKs.mono hm0 t hio) hwf htr hkd hreg
      (hs.log []) rfl
    unfold ExecGoodM at this
    obtain ⟨it, s', a, b, _, d, e, f⟩ := this
    exact ⟨it, s', a, b, d, fun o ho => e o ho, fun o ho => f o ho⟩
  unfold hookMaterialize evalSingle wrapRows
  simp [bind, ExceptT.bind, ExceptT.mk, ExceptT.bindCont, StateT.bind, get, getThe, MonadStateOf.get,
    StateT.get, set, StateT.set, modify, modifyGet, MonadStateOf.modifyGet, StateT.modifyGet, MonadState.modifyGet,
    liftM, monadLift, MonadLift.monadLift, ExceptT.lift, pure,
    ExceptT.pure, StateT.pure, Functor.map, StateT.map, hk, h1, h2]
  have hfr := exec_frame σ t t.engine _ it st' hac h1
  exact ⟨_, rfl, h3.of_payloads_eq rfl, rfl, rfl, fun o ho => h4 o ho, fun o ho => h5 o ho,
    fun o p hp => hfr.mono o p hp⟩

theorem payloadThrough_some (s : ProcState) (p : AnyPayload) : (t : Rel) → s.payloadOf t = some p →
    payloadThrough s t = some p
  | .leaf .., h => h
  | .unary .., h => h
  | .binary .., h => h
  | .mat oid n t, h => by unfold payloadThrough; simp only [h]
  | .transfer oid d t, h => by unfold payloadThrough; simp only [h]
  | .select a b c d e f g i j, h => by unfold payloadThrough; simp only [h]

theorem payloadThrough_temp (s : ProcState) (n : Nat) : (t : Rel) →
    payloadThrough { s with nextTemp := n } t = payloadThrough s t
  | .leaf .. => rfl
  | .unary .. => rfl
  | .binary .. => rfl
  | .mat oid nm t => by
    unfold payloadThrough
    rw [payloadThrough_temp s n t]; rfl
  | .transfer oid d t => by
    unfold payloadThrough
    rw [payloadThrough_temp s n t]; rfl
  | .select a b c d e f g i t => by
    unfold payloadThrough
    rw [payloadThrough_temp s n t]; rfl

theorem payloadOf_marker_isSome (s : ProcState) (x : Rel) (hx : x.procFlag = true) (hl : ∀ a b c d e f g i, x ≠ .leaf a b c d e f g i) :
    (s.payloadOf x).isSome = ((s.st.payload x.oid).isSome || (s.sq.payload x.oid).isSome) := by
  cases x with
  | leaf a b c d e f g i => exact absurd rfl (hl a b c d e f g i)
  | unary => simp [Rel.procFlag] at hx
  | binary => simp [Rel.procFlag] at hx
  | mat oid n t => simp only [ProcState.payloadOf, Rel.oid]; cases s.st.payload oid <;> simp
  | transfer oid d t => simp only [ProcState.payloadOf, Rel.oid]; cases s.st.payload oid <;> simp
  | select oid a1 a2 a3 a4 a5 a6 a7 t => simp only [ProcState.payloadOf, Rel.oid]; cases s.st.payload oid <;> simp

theorem payloadOf_mono {s s' : ProcState} (hsq : s'.sq = s.sq) (hm : PayMono s.st s'.st) (x : Rel)
    (h : (s.payloadOf x).isSome = true) : (s'.payloadOf x).isSome = true := by
  have key : ∀ y : Rel, y.procFlag = true → (∀ a b c d e f g i, y ≠ .leaf a b c d e f g i) →
      (s.payloadOf y).isSome = true → (s'.payloadOf y).isSome = true := by
    intro y hy hl hh
    rw [payloadOf_marker_isSome s y hy hl] at hh
    rw [payloadOf_marker_isSome s' y hy hl, hsq]
    simp only [Bool.or_eq_true] at hh ⊢
    exact hh.imp (hm _) id
  cases x with
  | leaf oid le cols nm mn mx pl ms =>
    simp only [ProcState.payloadOf] at h ⊢
    rw [hsq]; exact h
  | unary => simp [ProcState.payloadOf] at h
  | binary => simp [ProcState.payloadOf] at h
  | mat oid n t => exact key _ rfl (fun _ _ _ _ _ _ _ _ hh => by cases hh) h
  | transfer oid d t => exact key _ rfl (fun _ _ _ _ _ _ _ _ hh => by cases hh) h
  | select oid a1 a2 a3 a4 a5 a6 a7 t => exact key _ rfl (fun _ _ _ _ _ _ _ _ hh => by cases hh) h

theorem payloadThrough_mono {s s' : ProcState} (hsq : s'.sq = s.sq) (hm : PayMono s.st s'.st) :
    (x : Rel) → (payloadThrough s x).isSome = true → (payloadThrough s' x).isSome = true
  | .leaf a b c d e f g i, h => by
    simp only [payloadThrough] at h ⊢
    exact payloadOf_mono hsq hm _ h
  | .unary .., h => by simp [payloadThrough, ProcState.payloadOf] at h
  | .binary .., h => by simp [payloadThrough, ProcState.payloadOf] at h
  | .mat oid n t, h => by
    unfold payloadThrough at h ⊢
    cases hp' : s'.payloadOf (Rel.mat oid n t) with
    | some q => rfl
    | none =>
      cases hp : s.payloadOf (Rel.mat oid n t) with
      | some q =>
        have := payloadOf_mono hsq hm (Rel.mat oid n t) (by simp [hp])
        simp [hp'] at this
      | none =>
        simp only [hp] at h
        exact payloadThrough_mono hsq hm t h
  | .transfer oid d t, h => by
    unfold payloadThrough at h ⊢
    cases hp' : s'.payloadOf (Rel.transfer oid d t) with
    | some q => rfl
    | none =>
      cases hp : s.payloadOf (Rel.transfer oid d t) with
      | some q =>
        have := payloadOf_mono hsq hm (Rel.transfer oid d t) (by simp [hp])
        simp [hp'] at this
      | none =>
        simp only [hp] at h
        exact payloadThrough_mono hsq hm t h
  | .select oid a1 a2 a3 a4 a5 a6 a7 t, h => by
    unfold payloadThrough at h ⊢
    cases hp' : s'.payloadOf (Rel.select oid a1 a2 a3 a4 a5 a6 a7 t) with
    | some q => rfl
    | none =>
      cases hp : s.payloadOf (Rel.select oid a1 a2 a3 a4 a5 a6 a7 t) with
      | some q =>
        have := payloadOf_mono hsq hm (Rel.select oid a1 a2 a3 a4 a5 a6 a7 t) (by simp [hp])
        simp [hp'] at this
      | none =>
        simp only [hp] at h
        exact payloadThrough_mono hsq hm t h

/-- A payload found by looking through payload-less markers of an executable tree stands for the tree's rows. -/
theorem payloadThrough_rows (σ : Leaves) (reg : Nat → Option (List Row)) (s : ProcState) (hs : StoreOK σ reg s.st) :
    (x : Rel) → x.sqFree s.sq → x.RegOK σ reg → x.IterOKs s.st → (p : AnyPayload) → payloadThrough s x = some p →
    ∃ it, p = .iter it ∧ ItOK it ∧ it.rows σ = .ok (sem σ x)
  | .leaf oid le cols nm mn mx pl ms, hq, _, _, p, h => by
    simp only [payloadThrough] at h
    rw [payloadOf_free s (Rel.leaf oid le cols nm mn mx pl ms) hq] at h
    cases pl with
    | false => simp at h
    | true =>
      simp only [Bool.not_true, Bool.false_eq_true, if_false, Option.some.injEq] at h
      exact ⟨.leafRef oid, h.symm, trivial, rfl⟩
  | .unary .., _, _, _, p, h => by simp [payloadThrough, ProcState.payloadOf] at h
  | .binary .., _, _, _, p, h => by simp [payloadThrough, ProcState.payloadOf] at h
  | .mat oid n t, hq, hreg, hio, p, h => by
    unfold payloadThrough at h
    rw [payloadOf_free s (Rel.mat oid n t) hq.1] at h
    simp only [Rel.oid] at h
    cases hp : s.st.payload oid with
    | some it =>
      simp only [hp, Option.map_some, Option.some.injEq] at h
      obtain ⟨hi, rows, hr, hrows⟩ := hs oid it hp
      rw [hreg.1] at hr
      injection hr with hr
      exact ⟨it, h.symm, hi, by rw [hrows, ← hr]; rfl⟩
    | none =>
      simp only [hp, Option.map_none] at h
      have hio' : t.IterOKs s.st := by
        rcases hio with hh | hh
        · rw [hp] at hh; cases hh
        · exact hh
      obtain ⟨it, a, b, c⟩ := payloadThrough_rows σ reg s hs t hq.2 hreg.2 hio' p h
      exact ⟨it, a, b, by simpa [sem] using c⟩
  | .transfer oid d t, hq, hreg, hio, p, h => by
    unfold payloadThrough at h
    rw [payloadOf_free s (Rel.transfer oid d t) hq.1] at h
    simp only [Rel.oid] at h
    cases hp : s.st.payload oid with
    | some it =>
      simp only [hp, Option.map_some, Option.some.injEq] at h
      obtain ⟨hi, rows, hr, hrows⟩ := hs oid it hp
      rw [hreg.1] at hr
      injection hr with hr
      exact ⟨it, h.symm, hi, by rw [hrows, ← hr]; rfl⟩
    | none =>
      simp only [hp, Option.map_none] at h
      have hio' : t.IterOKs s.st ∧ t.engine.kind = .iter := by
        rcases hio with hh | hh
        · rw [hp] at hh; cases hh
        · exact hh
      obtain ⟨it, a, b, c⟩ := payloadThrough_rows σ reg s hs t (hq.2 hio'.2) hreg.2 hio'.1 p h
      exact ⟨it, a, b, by simpa [sem] using c⟩
  | .select oid a1 a2 a3 a4 a5 a6 a7 t, hq, hreg, hio, p, h => by
    unfold payloadThrough at h
    rw [payloadOf_free s (Rel.select oid a1 a2 a3 a4 a5 a6 a7 t) hq.1] at h
    simp only [Rel.oid] at h
    cases hp : s.st.payload oid with
    | some it =>
      simp only [hp, Option.map_some, Option.some.injEq] at h
      obtain ⟨hi, rows, hr, hrows⟩ := hs oid it hp
      rw [hreg.1] at hr
      injection hr with hr
      exact ⟨it, h.symm, hi, by rw [hrows, ← hr]; rfl⟩
    | none =>
      simp only [hp, Option.map_none] at h
      obtain ⟨it, a, b, c⟩ := payloadThrough_rows σ reg s hs t hq.2 hreg.2 hio p h
      exact ⟨it, a, b, by simpa [sem] using c⟩

theorem payloadThrough_isSome (s : ProcState) (t : Rel) (h : (s.payloadOf t).isSome = true) :
    (payloadThrough s t).isSome = true := by
  cases hp : s.payloadOf t with
  | none => simp [hp] at h
  | some p => rw [payloadThrough_some s p t hp]; rfl

/-- **The payload a Materialization receives** (`matPayload`, iteration engines): whichever of the four sources is
used - the processed target's own payload (found through payload-less wrappers), the engine's trivial payload for a
statically trivial relation, or the `materialize` hook - it is an iteration payload that stands for exactly the rows of
the direct evaluation of the target; the store stays right, nothing stored is replaced, new payloads sit on
Materializations of the processed target only. -/
theorem matPayload_spec (σ : Leaves) (reg : Nat → Option (List Row)) (oid : Nat) (name : String) (target x : Rel)
    (persisted : Bool) (s1 : ProcState) (hk : x.engine.kind = .iter) (hkt : target.engine.kind = .iter)
    (hio : x.IterOKs s1.st) (hwf : x.WF) (htr : x.Truthful σ) (hkd : keyDetermined σ x = true)
    (hreg : x.RegOK σ reg) (hs : StoreOK σ reg s1.st) (hac : x.Acyclic) (hq : x.sqFree s1.sq)
    (hsem : sem σ x = sem σ target) (hwft : target.WF) (htrt : target.Truthful σ)
    (hflag : persisted = true → (payloadThrough s1 x).isSome = true) :
    ∃ it s2, (matPayload σ (.mat oid name target) target x name persisted) s1 = (.ok (some (.iter it)), s2) ∧
      ItOK it ∧ it.rows σ = .ok (sem σ target) ∧ StoreOK σ reg s2.st ∧ s2.sq = s1.sq ∧ s2.nextTemp = s1.nextTemp ∧
      PayMono s1.st s2.st ∧ PayNew x s1.st s2.st ∧ PayKeep s1.st s2.st := by
  unfold matPayload
  cases persisted with
  | true =>
    have hsome := hflag rfl
    cases hpt : payloadThrough s1 x with
    | none => simp [hpt] at hsome
    | some p =>
      obtain ⟨it, hpit, hi, hrows⟩ := payloadThrough_rows σ reg s1 hs x hq hreg hio p hpt
      subst hpit
      refine ⟨it, s1, ?_, hi, by rw [hrows, hsem], hs, rfl, rfl, PayMono.refl _, PayNew.refl _ _, PayKeep.refl _⟩
      simp [bind, ExceptT.bind, ExceptT.mk, ExceptT.bindCont, StateT.bind, get, getThe, MonadStateOf.get,
        StateT.get, liftM, monadLift, MonadLift.monadLift, ExceptT.lift, pure, ExceptT.pure, StateT.pure,
        Functor.map, StateT.map, hpt]
  | false =>
    by_cases hji : (Rel.mat oid name target).isJoinIdentity = true
    · have hsemt : sem σ target = [Row.empty] :=
        joinIdentity_sound σ target hwft htrt
          (by simpa [Rel.isJoinIdentity, Rel.columns, Rel.maxRows, Rel.minRows] using hji)
      refine ⟨.mapping [] [Row.empty], s1, ?_, by simp [ItOK], by rw [hsemt]; rfl, hs, rfl, rfl, PayMono.refl _,
        PayNew.refl _ _, PayKeep.refl _⟩
      simp [hji, hkt, trivialPayload, bind, ExceptT.bind, ExceptT.mk, ExceptT.bindCont, StateT.bind, get, getThe,
        MonadStateOf.get, StateT.get, liftM, monadLift, MonadLift.monadLift, ExceptT.lift, pure, ExceptT.pure,
        StateT.pure, Functor.map, StateT.map]
    · by_cases hmz : (Rel.mat oid name target).maxRows = some 0
      · have hsemt : sem σ target = [] :=
          maxRows_zero_sound σ target hwft htrt (by simpa [Rel.maxRows] using hmz)
        refine ⟨.mapping [] [], s1, ?_, by simp [ItOK], by rw [hsemt]; rfl, hs, rfl, rfl, PayMono.refl _,
          PayNew.refl _ _, PayKeep.refl _⟩
        simp [hji, hmz, hkt, trivialPayload, bind, ExceptT.bind, ExceptT.mk, ExceptT.bindCont, StateT.bind, get,
          getThe, MonadStateOf.get, StateT.get, liftM, monadLift, MonadLift.monadLift, ExceptT.lift, pure,
          ExceptT.pure, StateT.pure, Functor.map, StateT.map]
      · obtain ⟨s2, hh, h2, hsq, hnt, hm2, hn2, hk2⟩ := hookMaterialize_iter σ reg x name s1 hk hio hwf htr hkd hreg hs hac
        refine ⟨.seq (sem σ x), s2, ?_, trivial, by rw [← hsem]; rfl, h2, hsq, hnt, hm2, hn2, hk2⟩
        simp [hji, hmz, hh, bind, ExceptT.bind, ExceptT.mk, ExceptT.bindCont, StateT.bind, get, getThe,
          MonadStateOf.get, StateT.get, liftM, monadLift, MonadLift.monadLift, ExceptT.lift, pure, ExceptT.pure,
          StateT.pure, Functor.map, StateT.map]

/-- The payload a processed leaf or materialization of a plain tree holds stands for its rows. -/
theorem cached_payload_rows (σ : Leaves) (reg : Nat → Option (List Row)) (s : ProcState) (e : Engine)
    (hs : StoreOK σ reg s.st) :
    (t : Rel) → t.sqFree s.sq → t.PlainIter e → t.RegOK σ reg → t.procFlag = true → (p : AnyPayload) → s.payloadOf t = some p →
    ∃ it, p = .iter it ∧ ItOK it ∧ it.rows σ = .ok (sem σ t)
  | .leaf oid le cols nm mn mx pl ms, hq, _, _, _, p, h => by
    rw [payloadOf_free s (Rel.leaf oid le cols nm mn mx pl ms) hq] at h
    cases pl with
    | false => simp at h
    | true =>
      simp only [Bool.not_true, Bool.false_eq_true, if_false, Option.some.injEq] at h
      exact ⟨.leafRef oid, h.symm, trivial, rfl⟩
  | .mat oid n t, hq, _, hreg, _, p, h => by
    rw [payloadOf_free s (Rel.mat oid n t) hq.1] at h
    simp only [Rel.oid] at h
    cases hp : s.st.payload oid with
    | none => simp [hp] at h
    | some it =>
      simp only [hp, Option.map_some, Option.some.injEq] at h
      obtain ⟨hi, rows, hr, hrows⟩ := hs oid it hp
      rw [hreg.1] at hr
      injection hr with hr
      exact ⟨it, h.symm, hi, by rw [hrows, ← hr]; rfl⟩
  | .unary .., _, _, _, hf, _, _ => by simp [Rel.procFlag] at hf
  | .binary .., _, _, _, hf, _, _ => by simp [Rel.procFlag] at hf
  | .transfer .., _, hp, _, _, _, _ => by cases hp
  | .select .., _, hp, _, _, _, _ => by cases hp

theorem process_plain_iter (σ : Leaves) (reg : Nat → Option (List Row)) (e : Engine) (hek : e.kind = .iter) :
    (t : Rel) → (fuel : Nat) → (matAs : Option String) → (s : ProcState) →
    t.PlainIter e → t.IterOK → t.WF → t.Truthful σ → keyDetermined σ t = true → t.RegOK σ reg →
    StoreOK σ reg s.st → t.sqFree s.sq → t.Acyclic → t.size ≤ fuel →
    ∃ s', (processRec σ fuel t matAs).run.run s = (.ok (.same, t.procFlag), s') ∧ ProcIterOK σ reg t s s'
  | .leaf oid le cols nm mn mx pl ms, fuel, matAs, s, hp, hio, hwf, htr, hkd, hreg, hs, hq, hac, hf => by
    cases fuel with
    | zero => simp [Rel.size] at hf
    | succ n =>
      have hpl : pl = true := hio
      have hc : (s.payloadOf (Rel.leaf oid le cols nm mn mx pl ms)).isSome = true := by
        rw [payloadOf_free s (Rel.leaf oid le cols nm mn mx pl ms) hq]; simp [hpl]
      refine ⟨s, ?_, hs, rfl, fun _ => hc, rfl, PayMono.refl _, PayNew.refl _ _, PayKeep.refl _⟩
      unfold processRec
      simp [bind, ExceptT.bind, ExceptT.mk, ExceptT.bindCont, StateT.bind, get, getThe, MonadStateOf.get, StateT.get,
        liftM, monadLift, MonadLift.monadLift, ExceptT.lift, ExceptT.run, StateT.run, hc, pure, ExceptT.pure,
        StateT.pure, Functor.map, StateT.map, Rel.procFlag]
  | .unary op t c, fuel, matAs, s, hp, hio, hwf, htr, hkd, hreg, hs, hq, hac, hf => by
    cases fuel with
    | zero => simp [Rel.size] at hf
    | succ n =>
      have hkd' : keyDetermined σ t = true := by
        simp only [keyDetermined, Bool.and_eq_true] at hkd; exact hkd.1
      obtain ⟨s', ih, P⟩ := process_plain_iter σ reg e hek t n none s hp hio.1 hwf.1 htr hkd' hreg hs hq hac
        (by simp [Rel.size] at hf; omega)
      simp only [ExceptT.run, StateT.run] at ih
      refine ⟨s', ?_, P.store, P.sq, fun h => by simp [Rel.procFlag] at h, P.temp, P.mono, P.new, P.keep⟩
      unfold processRec
      simp [bind, ExceptT.bind, ExceptT.mk, ExceptT.bindCont, StateT.bind, get, getThe, MonadStateOf.get, StateT.get,
        liftM, monadLift, MonadLift.monadLift, ExceptT.lift, ExceptT.run, StateT.run, pure, ExceptT.pure, StateT.pure,
        Functor.map, StateT.map, ProcState.payloadOf, ih, Rel.procFlag]
  | .binary op l r c, fuel, matAs, s, hp, hio, hwf, htr, hkd, hreg, hs, hq, hac, hf => by
    cases fuel with
    | zero => simp [Rel.size] at hf
    | succ n =>
      obtain ⟨hpl, hpr, hpo⟩ := hp
      obtain ⟨hil, hir, _, hop⟩ := hio
      simp only [keyDetermined, Bool.and_eq_true] at hkd
      cases op with
      | chain =>
        obtain ⟨s1, ih1, P1⟩ := process_plain_iter σ reg e hek l n none s hpl hil hwf.1 htr.1 hkd.1 hreg.1 hs hq.1 hac.1
          (by simp [Rel.size] at hf; omega)
        obtain ⟨s2, ih2, P2⟩ := process_plain_iter σ reg e hek r n none s1 hpr hir hwf.2.1 htr.2 hkd.2 hreg.2
          P1.store (by rw [P1.sq]; exact hq.2) hac.2 (by simp [Rel.size] at hf; omega)
        simp only [ExceptT.run, StateT.run] at ih1 ih2
        refine ⟨s2, ?_, P2.store, by rw [P2.sq, P1.sq], fun h => by simp [Rel.procFlag] at h, by rw [P2.temp, P1.temp], P1.mono.trans P2.mono,
          PayNew.trans P1.new P2.new (fun _ h => by simp [Rel.matOids, h]) (fun _ h => by simp [Rel.matOids, h]),
          P1.keep.trans P2.keep⟩
        unfold processRec
        simp [bind, ExceptT.bind, ExceptT.mk, ExceptT.bindCont, StateT.bind, get, getThe, MonadStateOf.get,
          StateT.get, liftM, monadLift, MonadLift.monadLift, ExceptT.lift, ExceptT.run, StateT.run, pure,
          ExceptT.pure, StateT.pure, Functor.map, StateT.map, ProcState.payloadOf, ih1, ih2, Res.get, hpo.1, hpo.2,
          Rel.procFlag]
      | join j => cases hop
      | ignoreOne b => cases hop
  | .transfer .., _, _, _, hp, _, _, _, _, _, _, _, _, _ => by cases hp
  | .select .., _, _, _, hp, _, _, _, _, _, _, _, _, _ => by cases hp
  | .mat oid name target, fuel, matAs, s, hp, hio, hwf, htr, hkd, hreg, hs, hq, hac, hf => by
    cases fuel with
    | zero => simp [Rel.size] at hf
    | succ n =>
      have hpt : Rel.PlainIter e target := hp
      have hkd' : keyDetermined σ target = true := hkd
      cases hc : s.st.payload oid with
      | some it0 =>
        -- already materialized
        have hcached : (s.payloadOf (Rel.mat oid name target)).isSome = true := by
          rw [payloadOf_free s (Rel.mat oid name target) hq.1]; simp [Rel.oid, hc]
        refine ⟨s, ?_, hs, rfl, fun _ => hcached, rfl, PayMono.refl _, PayNew.refl _ _, PayKeep.refl _⟩
        unfold processRec
        simp [bind, ExceptT.bind, ExceptT.mk, ExceptT.bindCont, StateT.bind, get, getThe, MonadStateOf.get,
          StateT.get, liftM, monadLift, MonadLift.monadLift, ExceptT.lift, ExceptT.run, StateT.run, hcached, pure,
          ExceptT.pure, StateT.pure, Functor.map, StateT.map, Rel.procFlag]
      | none =>
        have hnc : (s.payloadOf (Rel.mat oid name target)).isSome = false := by
          rw [payloadOf_free s (Rel.mat oid name target) hq.1]; simp [Rel.oid, hc]
        obtain ⟨s1, ih, P1⟩ := process_plain_iter σ reg e hek target n (some name) s hpt hio hwf htr hkd' hreg.2 hs hq.2
          hac.2 (by simp [Rel.size] at hf; omega)
        simp only [ExceptT.run, StateT.run] at ih
        have hattach : ∀ (s2 : ProcState) (it : Iterable), StoreOK σ reg s2.st → s2.sq = s.sq →
            s2.nextTemp = s.nextTemp → PayMono s.st s2.st → PayNew target s.st s2.st → PayKeep s.st s2.st → ItOK it →
            it.rows σ = .ok (sem σ target) →
            ProcIterOK σ reg (Rel.mat oid name target) s (s2.attach oid (.iter it)) := by
          intro s2 it h2 hq2 ht2 hm2 hn2 hk2 hi hr
          have hnone2 : s2.st.payload oid = none := by
            cases hp2 : s2.st.payload oid with
            | none => rfl
            | some p =>
              rcases hn2 oid (by simp [hp2]) with h | h
              · rw [hc] at h; cases h
              · exact absurd h hac.1
          refine ⟨?_, hq2, fun _ => ?_, ht2, ?_, ?_, hk2.trans (PayKeep.cons s2.st oid it s2.st.evals hnone2)⟩
          · exact StoreOK.cons h2 oid it (sem σ target) hi hreg.1 hr
          · simp [ProcState.attach, ProcState.payloadOf, Rel.oid, ExecState.payload]
          · exact hm2.trans (PayMono.cons s2.st oid it s2.st.evals)
          · intro o ho
            by_cases hoo : o = oid
            · right; simp [Rel.matOids, hoo]
            · have : (s2.st.payload o).isSome = true := by
                have hne : (oid == o) = false := by simpa using fun h => hoo h.symm
                simpa [ProcState.attach, ExecState.payload, List.find?_cons, hne] using ho
              rcases hn2 o this with h | h
              · exact Or.inl h
              · right; simp [Rel.matOids, h]
        have hmf : (Rel.mat oid name target).procFlag = true := rfl
        rw [hmf]
        have hek' : target.engine.kind = .iter := by rw [PlainIter.engine target hpt]; exact hek
        have hflag : target.procFlag = true → (payloadThrough s1 target).isSome = true :=
          fun hfl => payloadThrough_isSome s1 target (P1.cached hfl)
        obtain ⟨it, s2, hmp, hi, hr, h2, hsq, hnt, hm2, hn2, hk2⟩ := matPayload_spec σ reg oid name target target
          target.procFlag s1 hek' hek' (IterOKs.of_iterOK _ target hio) hwf htr hkd' hreg.2 P1.store hac.2
          (by rw [P1.sq]; exact hq.2) rfl hwf htr hflag
        refine ⟨s2.attach oid (.iter it), ?_,
          hattach s2 it h2 (by rw [hsq, P1.sq]) (by rw [hnt, P1.temp]) (P1.mono.trans hm2)
            (PayNew.trans P1.new hn2 (fun _ h => h) (fun _ h => h)) (P1.keep.trans hk2) hi hr⟩
        unfold processRec
        simp [hnc, ih, hmp, Res.get, bind, ExceptT.bind, ExceptT.mk, ExceptT.bindCont, StateT.bind, get, getThe,
          MonadStateOf.get, StateT.get, modify, modifyGet, MonadStateOf.modifyGet, StateT.modifyGet,
          MonadState.modifyGet, liftM, monadLift, MonadLift.monadLift, ExceptT.lift, ExceptT.run, StateT.run,
          pure, ExceptT.pure, StateT.pure, Functor.map, StateT.map]

theorem sqFree_empty : (t : Rel) → t.sqFree {}
  | .leaf .. => rfl
  | .unary _ t _ => sqFree_empty t
  | .binary _ l r _ => ⟨sqFree_empty l, sqFree_empty r⟩
  | .mat _ _ t => ⟨rfl, sqFree_empty t⟩
  | .transfer _ _ t => ⟨rfl, fun _ => sqFree_empty t⟩
  | .select _ _ _ _ _ _ _ _ t => ⟨rfl, sqFree_empty t⟩

/-- **Process, then execute**: for a tree inside one iteration engine (leaves, unary operations, chains,
materializations), `Processor.process` returns the tree itself, and executing it afterwards yields exactly the rows
of the direct evaluation. -/
theorem process_then_execute (σ : Leaves) (reg : Nat → Option (List Row)) (e : Engine) (hek : e.kind = .iter)
    (t : Rel) (st : ExecState) (hp : t.PlainIter e) (hio : t.IterOK) (hwf : t.WF) (htr : t.Truthful σ)
    (hkd : keyDetermined σ t = true) (hreg : t.RegOK σ reg) (hs : StoreOK σ reg st) (hac : t.Acyclic)
    (hf : t.size ≤ defaultFuel) :
    ∃ ps, processTop σ st {} t = (.ok .same, ps) ∧
      ∃ it s', exec σ t.engine t ps.st = .ok (it, s') ∧ it.rows σ = .ok (sem σ t) := by
  obtain ⟨s', h, P⟩ := process_plain_iter σ reg e hek t defaultFuel none { st := st, sq := {} } hp hio hwf htr hkd
    hreg hs (sqFree_empty t) hac hf
  refine ⟨s', ?_, ?_⟩
  · unfold processTop
    simp only [ExceptT.run, StateT.run] at h ⊢
    rw [h]
    rfl
  · have := exec_correct σ reg t t.engine s'.st hio hwf htr hkd hreg P.store rfl
    unfold ExecGood at this
    obtain ⟨it, s'', a, b, _, _⟩ := this
    exact ⟨it, s'', a, b⟩

end DafRel
