/-
The Processor on a tree that lives in one iteration engine: nothing is rebuilt, every materialization receives a
payload holding exactly the rows of the direct evaluation of its target, the payload store stays right - so a
subsequent `execute` returns the direct rows (Lemmas/Exec.lean).
-/
import DafRel.Spec.Processor
import DafRel.Lemmas.Exec
import DafRel.Lemmas.ExecP
import DafRel.Lemmas.Metadata

namespace DafRel

theorem PlainIter.engine {e : Engine} : (t : Rel) → t.PlainIter e → t.engine = e
  | .leaf .., h => h
  | .unary _ t _, h => PlainIter.engine t h
  | .binary _ l _ _, h => PlainIter.engine l h.1
  | .mat _ _ t, h => PlainIter.engine t h
  | .transfer .., h => by cases h
  | .select .., h => by cases h

/-- What processing a plain iteration-engine tree achieves. -/
structure ProcIterOK (σ : Leaves) (reg : Nat → Option (List Row)) (t : Rel) (s s' : ProcState) : Prop where
  store : StoreOK σ reg s'.st
  sq : s'.sq = s.sq
  cached : t.procFlag = true → (s'.payloadOf t).isSome = true
  temp : s'.nextTemp = s.nextTemp
  mono : PayMono s.st s'.st
  new : PayNew t s.st s'.st
  keep : PayKeep s.st s'.st

theorem payloadOf_free (s : ProcState) (r : Rel) (h : s.sq.payload r.oid = none) :
    s.payloadOf r = match r with
      | .leaf oid _ _ _ _ _ p _ => if !p then none else some (.iter (.leafRef oid))
      | .unary .. => none
      | .binary .. => none
      | r => (s.st.payload r.oid).map AnyPayload.iter := by
  cases r <;> simp only [Rel.oid] at h <;> simp [ProcState.payloadOf, h, Rel.oid] <;>
    (try (cases s.st.payload _ <;> rfl))

theorem sqFree_oid (sq : SqlState) : (r : Rel) → r.sqFree sq → r.procFlag = true → sq.payload r.oid = none
  | .leaf .., h, _ => h
  | .mat .., h, _ => h.1
  | .transfer .., h, _ => h.1
  | .select .., h, _ => h.1
  | .unary .., _, hf => by simp [Rel.procFlag] at hf
  | .binary .., _, hf => by simp [Rel.procFlag] at hf

/-- The `materialize` hook of the harness's Processor on a single-engine iteration tree: it returns the rows of the
direct evaluation as a row sequence, logs one hook call, and leaves the payload store right. -/
theorem hookMaterialize_iter (σ : Leaves) (reg : Nat → Option (List Row)) (t : Rel) (name : String) (s : ProcState)
    (hk : t.engine.kind = .iter) (hio : t.IterOKs s.st) (hwf : t.WF) (htr : t.Truthful σ) (hkd : keyDetermined σ t = true)
    (hreg : t.RegOK σ reg) (hs : StoreOK σ reg s.st) (hac : t.Acyclic) :
    ∃ s', (hookMaterialize σ t name) s = (.ok (.iter (.seq (sem σ t))), s') ∧ StoreOK σ reg s'.st ∧
      s'.sq = s.sq ∧ s'.nextTemp = s.nextTemp ∧ PayMono s.st s'.st ∧ PayNew t s.st s'.st ∧ PayKeep s.st s'.st := by
  obtain ⟨it, st', h1, h2, h3, h4, h5⟩ : ∃ it st', exec σ t.engine t { s.st with log := [] } = .ok (it, st') ∧
      it.rows σ = .ok (sem σ t) ∧ StoreOK σ reg st' ∧ PayMono s.st st' ∧ PayNew t s.st st' := by
    have hm0 : PayMono s.st { s.st with log := [] } := PayMono.of_payloads_eq rfl
    have := exec_correctM σ reg t t.engine { s.st with log := [] } (IterOKs.mono hm0 t hio) hwf htr hkd hreg
      (hs.log []) rfl
    unfold ExecGoodM at this
    obtain ⟨it, s', a, b, _, d, e, f⟩ := this
    exact ⟨it, s', a, b, d, fun o ho => e o ho, fun o ho => f o ho⟩
  unfold hookMaterialize evalSingle wrapRows
  simp [bind, ExceptT.bind, ExceptT.mk, ExceptT.bindCont, StateT.bind, get, getThe, MonadStateOf.get,
    StateT.get, set, StateT.set, modify, modifyGet, MonadStateOf.modifyGet, StateT.modifyGet, MonadState.modifyGet,
    liftM, monadLift, MonadLift.monadLift, ExceptT.lift, pure,
    ExceptT.pure, StateT.pure, Functor.map, StateT.map, hk, h1, h2]
  have hfr := exec_frame σ t t.engine _ it st' hac h1
  exact ⟨_, rfl, h3.of_payloads_eq rfl, rfl, rfl, fun o ho => h4 o ho, fun o ho => h5 o ho,
    fun o p hp => hfr.mono o p hp⟩

theorem payloadThrough_some (s : ProcState) (p : AnyPayload) : (t : Rel) → s.payloadOf t = some p →
    payloadThrough s t = some p
  | .leaf .., h => h
  | .unary .., h => h
  | .binary .., h => h
  | .mat oid n t, h => by unfold payloadThrough; simp only [h]
  | .transfer oid d t, h => by unfold payloadThrough; simp only [h]
  | .select a b c d e f g i j, h => by unfold payloadThrough; simp only [h]

/-- The payload a processed leaf or materialization of a plain tree holds stands for its rows. -/
theorem cached_payload_rows (σ : Leaves) (reg : Nat → Option (List Row)) (s : ProcState) (e : Engine)
    (hs : StoreOK σ reg s.st) :
    (t : Rel) → t.sqFree s.sq → t.PlainIter e → t.RegOK σ reg → t.procFlag = true → (p : AnyPayload) → s.payloadOf t = some p →
    ∃ it, p = .iter it ∧ ItOK it ∧ it.rows σ = .ok (sem σ t)
  | .leaf oid le cols nm mn mx pl ms, hq, _, _, _, p, h => by
    rw [payloadOf_free s (Rel.leaf oid le cols nm mn mx pl ms) hq] at h
    cases pl with
    | false => simp at h
    | true =>
      simp only [Bool.not_true, Bool.false_eq_true, if_false, Option.some.injEq] at h
      exact ⟨.leafRef oid, h.symm, trivial, rfl⟩
  | .mat oid n t, hq, _, hreg, _, p, h => by
    rw [payloadOf_free s (Rel.mat oid n t) hq.1] at h
    simp only [Rel.oid] at h
    cases hp : s.st.payload oid with
    | none => simp [hp] at h
    | some it =>
      simp only [hp, Option.map_some, Option.some.injEq] at h
      obtain ⟨hi, rows, hr, hrows⟩ := hs oid it hp
      rw [hreg.1] at hr
      injection hr with hr
      exact ⟨it, h.symm, hi, by rw [hrows, ← hr]; rfl⟩
  | .unary .., _, _, _, hf, _, _ => by simp [Rel.procFlag] at hf
  | .binary .., _, _, _, hf, _, _ => by simp [Rel.procFlag] at hf
  | .transfer .., _, hp, _, _, _, _ => by cases hp
  | .select .., _, hp, _, _, _, _ => by cases hp

theorem process_plain_iter (σ : Leaves) (reg : Nat → Option (List Row)) (e : Engine) (hek : e.kind = .iter) :
    (t : Rel) → (fuel : Nat) → (matAs : Option String) → (s : ProcState) →
    t.PlainIter e → t.IterOK → t.WF → t.Truthful σ → keyDetermined σ t = true → t.RegOK σ reg →
    StoreOK σ reg s.st → t.sqFree s.sq → t.Acyclic → t.size ≤ fuel →
    ∃ s', (processRec σ fuel t matAs).run.run s = (.ok (.same, t.procFlag), s') ∧ ProcIterOK σ reg t s s'
  | .leaf oid le cols nm mn mx pl ms, fuel, matAs, s, hp, hio, hwf, htr, hkd, hreg, hs, hq, hac, hf => by
    cases fuel with
    | zero => simp [Rel.size] at hf
    | succ n =>
      have hpl : pl = true := hio
      have hc : (s.payloadOf (Rel.leaf oid le cols nm mn mx pl ms)).isSome = true := by
        rw [payloadOf_free s (Rel.leaf oid le cols nm mn mx pl ms) hq]; simp [hpl]
      refine ⟨s, ?_, hs, rfl, fun _ => hc, rfl, PayMono.refl _, PayNew.refl _ _, PayKeep.refl _⟩
      unfold processRec
      simp [bind, ExceptT.bind, ExceptT.mk, ExceptT.bindCont, StateT.bind, get, getThe, MonadStateOf.get, StateT.get,
        liftM, monadLift, MonadLift.monadLift, ExceptT.lift, ExceptT.run, StateT.run, hc, pure, ExceptT.pure,
        StateT.pure, Functor.map, StateT.map, Rel.procFlag]
  | .unary op t c, fuel, matAs, s, hp, hio, hwf, htr, hkd, hreg, hs, hq, hac, hf => by
    cases fuel with
    | zero => simp [Rel.size] at hf
    | succ n =>
      have hkd' : keyDetermined σ t = true := by
        simp only [keyDetermined, Bool.and_eq_true] at hkd; exact hkd.1
      obtain ⟨s', ih, P⟩ := process_plain_iter σ reg e hek t n none s hp hio.1 hwf.1 htr hkd' hreg hs hq hac
        (by simp [Rel.size] at hf; omega)
      simp only [ExceptT.run, StateT.run] at ih
      refine ⟨s', ?_, P.store, P.sq, fun h => by simp [Rel.procFlag] at h, P.temp, P.mono, P.new, P.keep⟩
      unfold processRec
      simp [bind, ExceptT.bind, ExceptT.mk, ExceptT.bindCont, StateT.bind, get, getThe, MonadStateOf.get, StateT.get,
        liftM, monadLift, MonadLift.monadLift, ExceptT.lift, ExceptT.run, StateT.run, pure, ExceptT.pure, StateT.pure,
        Functor.map, StateT.map, ProcState.payloadOf, ih, Rel.procFlag]
  | .binary op l r c, fuel, matAs, s, hp, hio, hwf, htr, hkd, hreg, hs, hq, hac, hf => by
    cases fuel with
    | zero => simp [Rel.size] at hf
    | succ n =>
      obtain ⟨hpl, hpr, hpo⟩ := hp
      obtain ⟨hil, hir, _, hop⟩ := hio
      simp only [keyDetermined, Bool.and_eq_true] at hkd
      cases op with
      | chain =>
        obtain ⟨s1, ih1, P1⟩ := process_plain_iter σ reg e hek l n none s hpl hil hwf.1 htr.1 hkd.1 hreg.1 hs hq.1 hac.1
          (by simp [Rel.size] at hf; omega)
        obtain ⟨s2, ih2, P2⟩ := process_plain_iter σ reg e hek r n none s1 hpr hir hwf.2.1 htr.2 hkd.2 hreg.2
          P1.store (by rw [P1.sq]; exact hq.2) hac.2 (by simp [Rel.size] at hf; omega)
        simp only [ExceptT.run, StateT.run] at ih1 ih2
        refine ⟨s2, ?_, P2.store, by rw [P2.sq, P1.sq], fun h => by simp [Rel.procFlag] at h, by rw [P2.temp, P1.temp], P1.mono.trans P2.mono,
          PayNew.trans P1.new P2.new (fun _ h => by simp [Rel.matOids, h]) (fun _ h => by simp [Rel.matOids, h]),
          P1.keep.trans P2.keep⟩
        unfold processRec
        simp [bind, ExceptT.bind, ExceptT.mk, ExceptT.bindCont, StateT.bind, get, getThe, MonadStateOf.get,
          StateT.get, liftM, monadLift, MonadLift.monadLift, ExceptT.lift, ExceptT.run, StateT.run, pure,
          ExceptT.pure, StateT.pure, Functor.map, StateT.map, ProcState.payloadOf, ih1, ih2, Res.get, hpo.1, hpo.2,
          Rel.procFlag]
      | join j => cases hop
      | ignoreOne b => cases hop
  | .transfer .., _, _, _, hp, _, _, _, _, _, _, _, _, _ => by cases hp
  | .select .., _, _, _, hp, _, _, _, _, _, _, _, _, _ => by cases hp
  | .mat oid name target, fuel, matAs, s, hp, hio, hwf, htr, hkd, hreg, hs, hq, hac, hf => by
    cases fuel with
    | zero => simp [Rel.size] at hf
    | succ n =>
      have hpt : Rel.PlainIter e target := hp
      have hkd' : keyDetermined σ target = true := hkd
      cases hc : s.st.payload oid with
      | some it0 =>
        -- already materialized
        have hcached : (s.payloadOf (Rel.mat oid name target)).isSome = true := by
          rw [payloadOf_free s (Rel.mat oid name target) hq.1]; simp [Rel.oid, hc]
        refine ⟨s, ?_, hs, rfl, fun _ => hcached, rfl, PayMono.refl _, PayNew.refl _ _, PayKeep.refl _⟩
        unfold processRec
        simp [bind, ExceptT.bind, ExceptT.mk, ExceptT.bindCont, StateT.bind, get, getThe, MonadStateOf.get,
          StateT.get, liftM, monadLift, MonadLift.monadLift, ExceptT.lift, ExceptT.run, StateT.run, hcached, pure,
          ExceptT.pure, StateT.pure, Functor.map, StateT.map, Rel.procFlag]
      | none =>
        have hnc : (s.payloadOf (Rel.mat oid name target)).isSome = false := by
          rw [payloadOf_free s (Rel.mat oid name target) hq.1]; simp [Rel.oid, hc]
        obtain ⟨s1, ih, P1⟩ := process_plain_iter σ reg e hek target n (some name) s hpt hio hwf htr hkd' hreg.2 hs hq.2
          hac.2 (by simp [Rel.size] at hf; omega)
        simp only [ExceptT.run, StateT.run] at ih
        have hattach : ∀ (s2 : ProcState) (it : Iterable), StoreOK σ reg s2.st → s2.sq = s.sq →
            s2.nextTemp = s.nextTemp → PayMono s.st s2.st → PayNew target s.st s2.st → PayKeep s.st s2.st → ItOK it →
            it.rows σ = .ok (sem σ target) →
            ProcIterOK σ reg (Rel.mat oid name target) s (s2.attach oid (.iter it)) := by
          intro s2 it h2 hq2 ht2 hm2 hn2 hk2 hi hr
          have hnone2 : s2.st.payload oid = none := by
            cases hp2 : s2.st.payload oid with
            | none => rfl
            | some p =>
              rcases hn2 oid (by simp [hp2]) with h | h
              · rw [hc] at h; cases h
              · exact absurd h hac.1
          refine ⟨?_, hq2, fun _ => ?_, ht2, ?_, ?_, hk2.trans (PayKeep.cons s2.st oid it s2.st.evals hnone2)⟩
          · exact StoreOK.cons h2 oid it (sem σ target) hi hreg.1 hr
          · simp [ProcState.attach, ProcState.payloadOf, Rel.oid, ExecState.payload]
          · exact hm2.trans (PayMono.cons s2.st oid it s2.st.evals)
          · intro o ho
            by_cases hoo : o = oid
            · right; simp [Rel.matOids, hoo]
            · have : (s2.st.payload o).isSome = true := by
                have hne : (oid == o) = false := by simpa using fun h => hoo h.symm
                simpa [ProcState.attach, ExecState.payload, List.find?_cons, hne] using ho
              rcases hn2 o this with h | h
              · exact Or.inl h
              · right; simp [Rel.matOids, h]
        have hmf : (Rel.mat oid name target).procFlag = true := rfl
        rw [hmf]
        have hek' : target.engine.kind = .iter := by rw [PlainIter.engine target hpt]; exact hek
        by_cases hfl : target.procFlag = true
        · -- the target's own payload is handed on
          have hsome := P1.cached hfl
          cases hpo : s1.payloadOf target with
          | none => simp [hpo] at hsome
          | some p =>
            obtain ⟨it, hpit, hi, hr⟩ := cached_payload_rows σ reg s1 e P1.store target (by rw [P1.sq]; exact hq.2) hpt hreg.2 hfl p hpo
            subst hpit
            refine ⟨s1.attach oid (.iter it), ?_, hattach s1 it P1.store P1.sq P1.temp P1.mono P1.new P1.keep hi hr⟩
            unfold processRec
            simp [hfl, hnc, ih, Res.get, bind, ExceptT.bind, ExceptT.mk, ExceptT.bindCont, StateT.bind, get, getThe,
              MonadStateOf.get, StateT.get, modify, modifyGet, MonadStateOf.modifyGet, StateT.modifyGet,
              MonadState.modifyGet, liftM, monadLift, MonadLift.monadLift, ExceptT.lift, ExceptT.run, StateT.run,
              pure, ExceptT.pure, StateT.pure, Functor.map, StateT.map,
              payloadThrough_some s1 _ target hpo]
        · by_cases hji : (Rel.mat oid name target).isJoinIdentity = true
          · -- statically a join identity: the engine's trivial payload, no hook
            have hsem : sem σ target = [Row.empty] :=
              joinIdentity_sound σ target hwf htr
                (by simpa [Rel.isJoinIdentity, Rel.columns, Rel.maxRows, Rel.minRows] using hji)
            refine ⟨s1.attach oid (.iter (.mapping [] [Row.empty])), ?_,
              hattach s1 _ P1.store P1.sq P1.temp P1.mono P1.new P1.keep (by simp [ItOK]) (by rw [hsem]; rfl)⟩
            unfold processRec
            simp [hfl, hnc, ih, hji, hek', trivialPayload, Res.get, bind, ExceptT.bind, ExceptT.mk, ExceptT.bindCont,
              StateT.bind, get, getThe, MonadStateOf.get, StateT.get, modify, modifyGet, MonadStateOf.modifyGet,
              StateT.modifyGet, MonadState.modifyGet, liftM, monadLift, MonadLift.monadLift, ExceptT.lift,
              ExceptT.run, StateT.run, pure, ExceptT.pure, StateT.pure, Functor.map, StateT.map]
          · by_cases hmz : (Rel.mat oid name target).maxRows = some 0
            · -- statically empty
              have hsem : sem σ target = [] :=
                maxRows_zero_sound σ target hwf htr (by simpa [Rel.maxRows] using hmz)
              refine ⟨s1.attach oid (.iter (.mapping [] [])), ?_,
                hattach s1 _ P1.store P1.sq P1.temp P1.mono P1.new P1.keep (by simp [ItOK]) (by rw [hsem]; rfl)⟩
              unfold processRec
              simp [hfl, hnc, ih, hji, hmz, hek', trivialPayload, Res.get, bind, ExceptT.bind, ExceptT.mk,
                ExceptT.bindCont, StateT.bind, get, getThe, MonadStateOf.get, StateT.get, modify, modifyGet,
                MonadStateOf.modifyGet, StateT.modifyGet, MonadState.modifyGet, liftM, monadLift,
                MonadLift.monadLift, ExceptT.lift, ExceptT.run, StateT.run, pure, ExceptT.pure, StateT.pure,
                Functor.map, StateT.map]
            · -- the hook evaluates the target
              obtain ⟨s2, hh, h2, hsq, hnt, hm2, hn2, hk2⟩ := hookMaterialize_iter σ reg target name s1 hek'
                (IterOKs.of_iterOK _ target hio) hwf htr hkd' hreg.2 P1.store hac.2
              refine ⟨s2.attach oid (.iter (.seq (sem σ target))), ?_,
                hattach s2 _ h2 (by rw [hsq, P1.sq]) (by rw [hnt, P1.temp]) (P1.mono.trans hm2)
                  (PayNew.trans P1.new hn2 (fun _ h => h) (fun _ h => h)) (P1.keep.trans hk2) trivial rfl⟩
              unfold processRec
              simp [hfl, hnc, ih, hji, hmz, hh, Res.get, bind, ExceptT.bind, ExceptT.mk, ExceptT.bindCont, StateT.bind,
                get, getThe, MonadStateOf.get, StateT.get, modify, modifyGet, MonadStateOf.modifyGet,
                StateT.modifyGet, MonadState.modifyGet, liftM, monadLift, MonadLift.monadLift, ExceptT.lift,
                ExceptT.run, StateT.run, pure, ExceptT.pure, StateT.pure, Functor.map, StateT.map]

theorem sqFree_empty : (t : Rel) → t.sqFree {}
  | .leaf .. => rfl
  | .unary _ t _ => sqFree_empty t
  | .binary _ l r _ => ⟨sqFree_empty l, sqFree_empty r⟩
  | .mat _ _ t => ⟨rfl, sqFree_empty t⟩
  | .transfer _ _ t => ⟨rfl, fun _ => sqFree_empty t⟩
  | .select _ _ _ _ _ _ _ _ t => ⟨rfl, sqFree_empty t⟩

/-- **Process, then execute**: for a tree inside one iteration engine (leaves, unary operations, chains,
materializations), `Processor.process` returns the tree itself, and executing it afterwards yields exactly the rows
of the direct evaluation. -/
theorem process_then_execute (σ : Leaves) (reg : Nat → Option (List Row)) (e : Engine) (hek : e.kind = .iter)
    (t : Rel) (st : ExecState) (hp : t.PlainIter e) (hio : t.IterOK) (hwf : t.WF) (htr : t.Truthful σ)
    (hkd : keyDetermined σ t = true) (hreg : t.RegOK σ reg) (hs : StoreOK σ reg st) (hac : t.Acyclic)
    (hf : t.size ≤ defaultFuel) :
    ∃ ps, processTop σ st {} t = (.ok .same, ps) ∧
      ∃ it s', exec σ t.engine t ps.st = .ok (it, s') ∧ it.rows σ = .ok (sem σ t) := by
  obtain ⟨s', h, P⟩ := process_plain_iter σ reg e hek t defaultFuel none { st := st, sq := {} } hp hio hwf htr hkd
    hreg hs (sqFree_empty t) hac hf
  refine ⟨s', ?_, ?_⟩
  · unfold processTop
    simp only [ExceptT.run, StateT.run] at h ⊢
    rw [h]
    rfl
  · have := exec_correct σ reg t t.engine s'.st hio hwf htr hkd hreg P.store rfl
    unfold ExecGood at this
    obtain ⟨it, s'', a, b, _, _⟩ := this
    exact ⟨it, s'', a, b⟩

end DafRel
