/-
`convert_column_expression` / `convert_predicate`: the SQL expression evaluates, on the database
row environment, to what the iteration engine's callable computes on the corresponding row.
-/
import DafRel.Lemmas.SqlRange
import DafRel.Lemmas.EvalVal

namespace DafRel

/-- Every available column's SQL expression evaluates to the row's value for that column. -/
def AvailOK (avail : List (Tag × SqlExpr)) (env : PEnv) (r : Row) : Prop :=
  ∀ t x, SqlPayload.lookup avail t = some x → x.eval env = r t

mutual
theorem convExpr_eval (avail : List (Tag × SqlExpr)) (env : PEnv) (r : Row) (ha : AvailOK avail env r) :
    (e : Expr) → (x : SqlExpr) → convExpr avail e = .ok x → x.eval env = e.eval r
  | .lit v, x, h => by simp only [convExpr] at h; injection h with h; subst h; rfl
  | .ref t, x, h => by
    simp only [convExpr] at h
    cases hl : SqlPayload.lookup avail t with
    | none => simp [hl] at h
    | some y =>
      simp only [hl] at h
      injection h with h; subst h
      simpa [Expr.eval] using ha t y hl
  | .fn f args s, x, h => by
    simp only [convExpr] at h
    cases hc : convExprs avail args with
    | error e => simp [hc] at h
    | ok as =>
      simp only [hc] at h
      injection h with h; subst h
      simp only [SqlExpr.eval, Expr.eval, convExprs_eval avail env r ha args as hc]
      cases Expr.evalList r args <;> rfl
theorem convExprs_eval (avail : List (Tag × SqlExpr)) (env : PEnv) (r : Row) (ha : AvailOK avail env r) :
    (es : List Expr) → (xs : List SqlExpr) → convExprs avail es = .ok xs →
      SqlExpr.evalList env xs = Expr.evalList r es
  | [], xs, h => by simp only [convExprs] at h; injection h with h; subst h; rfl
  | e :: es, xs, h => by
    simp only [convExprs] at h
    cases h1 : convExpr avail e with
    | error err => simp [h1] at h
    | ok x =>
      cases h2 : convExprs avail es with
      | error err => simp [h1, h2] at h
      | ok ys =>
        simp only [h1, h2] at h
        injection h with h; subst h
        simp only [SqlExpr.evalList, Expr.evalList, convExpr_eval avail env r ha e x h1,
          convExprs_eval avail env r ha es ys h2]
        cases Expr.eval r e with
        | none => rfl
        | some v => cases Expr.evalList r es <;> rfl
end

mutual
/-- Whenever the iteration engine's callable yields a truth value, the converted SQL predicate
yields the same one. -/
theorem convPred_eval (avail : List (Tag × SqlExpr)) (env : PEnv) (r : Row) (ha : AvailOK avail env r) :
    (p : Pred) → (q : SqlPred) → (b : Bool) → convPred avail p = .ok q → p.eval r = some b → q.eval env = b
  | .lit v, q, b, h, hb => by
    simp only [convPred] at h; injection h with h; subst h
    simpa [Pred.eval, SqlPred.eval] using hb
  | .ref t, q, b, h, hb => by
    simp only [convPred] at h
    simp only [Pred.eval] at hb
    cases hrt : r t with
    | none => simp [hrt] at hb
    | some v =>
      simp only [hrt, Option.map_some, Option.some.injEq] at hb
      cases hl : SqlPayload.lookup avail t with
      | none => simp [hl] at h
      | some y =>
        have hy := ha t y hl
        rw [hrt] at hy
        cases y with
        | col s c =>
          simp only [hl] at h; injection h with h; subst h
          simp only [SqlExpr.eval] at hy
          simp only [SqlPred.eval, hy, Option.getD_some]
          rw [← hb, Bool.eq_iff_iff]; simp
        | lit w =>
          simp only [hl] at h; injection h with h; subst h
          simp only [SqlPred.eval, SqlExpr.evalList, hy, PFn.apply, Option.getD_some]
          exact hb
        | fn f as =>
          simp only [hl] at h; injection h with h; subst h
          simp only [SqlPred.eval, SqlExpr.evalList, hy, PFn.apply, Option.getD_some]
          exact hb
  | .fn f args s, q, b, h, hb => by
    simp only [convPred] at h
    cases hc : convExprs avail args with
    | error e => simp [hc] at h
    | ok as =>
      simp only [hc] at h; injection h with h; subst h
      simp only [Pred.eval] at hb
      simp only [SqlPred.eval, convExprs_eval avail env r ha args as hc]
      cases he : Expr.evalList r args with
      | none => simp [he] at hb
      | some vs => simp only [he] at hb; simp [hb]
  | .not p, q, b, h, hb => by
    simp only [convPred] at h
    cases hc : convPred avail p with
    | error e => simp [hc] at h
    | ok q' =>
      simp only [hc] at h; injection h with h; subst h
      simp only [Pred.eval] at hb
      cases hp : Pred.eval r p with
      | none => simp [hp] at hb
      | some b' =>
        simp only [hp, Option.map_some, Option.some.injEq] at hb
        simp only [SqlPred.eval, convPred_eval avail env r ha p q' b' hc hp]
        exact hb
  | .and ps, q, b, h, hb => by
    simp only [convPred] at h
    simp only [Pred.eval] at hb
    cases hc : convPreds avail ps with
    | error e => simp [hc] at h
    | ok qs =>
      have hall := convPreds_evalAll avail env r ha ps qs b hc hb
      match qs, h, hc, hall with
      | [], h, hc, hall =>
        simp only [hc] at h; injection h with h; subst h
        simpa [SqlPred.eval, SqlPred.evalAll] using hall
      | [q1], h, hc, hall =>
        simp only [hc] at h; injection h with h; subst h
        simpa [SqlPred.evalAll] using hall
      | q1 :: q2 :: rest, h, hc, hall =>
        simp only [hc] at h; injection h with h; subst h
        simpa [SqlPred.eval] using hall
  | .or ps, q, b, h, hb => by
    simp only [convPred] at h
    simp only [Pred.eval] at hb
    cases hc : convPreds avail ps with
    | error e => simp [hc] at h
    | ok qs =>
      have hany := convPreds_evalAny avail env r ha ps qs b hc hb
      match qs, h, hc, hany with
      | [], h, hc, hany =>
        simp only [hc] at h; injection h with h; subst h
        simpa [SqlPred.eval, SqlPred.evalAny] using hany
      | [q1], h, hc, hany =>
        simp only [hc] at h; injection h with h; subst h
        simpa [SqlPred.evalAny] using hany
      | q1 :: q2 :: rest, h, hc, hany =>
        simp only [hc] at h; injection h with h; subst h
        simpa [SqlPred.eval] using hany
  | .inC item c, q, b, h, hb => by
    simp only [convPred] at h
    simp only [Pred.eval] at hb
    cases hc : convExpr avail item with
    | error e => simp [hc] at h
    | ok x =>
      simp only [hc] at h
      have hx := convExpr_eval avail env r ha item x hc
      cases hv : Expr.eval r item with
      | none => simp [hv] at hb
      | some v =>
        simp only [hv] at hb
        rw [hv] at hx
        cases c with
        | range a0 b0 s0 =>
          simp only at h; injection h with h; subst h
          simp only [Container.evalContains, Option.some.injEq] at hb
          rw [convRange_sound env x v a0 b0 s0 hx]
          exact hb
        | seq items =>
          simp only at h
          cases hi : convExprs avail items with
          | error e => simp [hi] at h
          | ok xs =>
            simp only [hi] at h; injection h with h; subst h
            simp only [Container.evalContains] at hb
            have hl := convExprs_eval avail env r ha items xs hi
            cases hvs : Expr.evalList r items with
            | none => simp [hvs] at hb
            | some vs =>
              simp only [hvs, Option.some.injEq] at hb
              simp only [SqlPred.eval, hx, hl, hvs]
              exact hb
theorem convPreds_evalAll (avail : List (Tag × SqlExpr)) (env : PEnv) (r : Row) (ha : AvailOK avail env r) :
    (ps : List Pred) → (qs : List SqlPred) → (b : Bool) → convPreds avail ps = .ok qs →
      Pred.evalAll r ps = some b → SqlPred.evalAll env qs = b
  | [], qs, b, h, hb => by
    simp only [convPreds] at h; injection h with h; subst h
    simpa [Pred.evalAll, SqlPred.evalAll] using hb
  | p :: ps, qs, b, h, hb => by
    simp only [convPreds] at h
    cases h1 : convPred avail p with
    | error e => simp [h1] at h
    | ok q =>
      cases h2 : convPreds avail ps with
      | error e => simp [h1, h2] at h
      | ok qs' =>
        simp only [h1, h2] at h; injection h with h; subst h
        simp only [Pred.evalAll] at hb
        cases hp : Pred.eval r p with
        | none => simp [hp] at hb
        | some bp =>
          have hq := convPred_eval avail env r ha p q bp h1 hp
          cases bp with
          | false =>
            simp only [hp, Option.some.injEq] at hb
            simp [SqlPred.evalAll, hq, ← hb]
          | true =>
            simp only [hp] at hb
            simp [SqlPred.evalAll, hq, convPreds_evalAll avail env r ha ps qs' b h2 hb]
theorem convPreds_evalAny (avail : List (Tag × SqlExpr)) (env : PEnv) (r : Row) (ha : AvailOK avail env r) :
    (ps : List Pred) → (qs : List SqlPred) → (b : Bool) → convPreds avail ps = .ok qs →
      Pred.evalAny r ps = some b → SqlPred.evalAny env qs = b
  | [], qs, b, h, hb => by
    simp only [convPreds] at h; injection h with h; subst h
    simpa [Pred.evalAny, SqlPred.evalAny] using hb
  | p :: ps, qs, b, h, hb => by
    simp only [convPreds] at h
    cases h1 : convPred avail p with
    | error e => simp [h1] at h
    | ok q =>
      cases h2 : convPreds avail ps with
      | error e => simp [h1, h2] at h
      | ok qs' =>
        simp only [h1, h2] at h; injection h with h; subst h
        simp only [Pred.evalAny] at hb
        cases hp : Pred.eval r p with
        | none => simp [hp] at hb
        | some bp =>
          have hq := convPred_eval avail env r ha p q bp h1 hp
          cases bp with
          | true =>
            simp only [hp, Option.some.injEq] at hb
            simp [SqlPred.evalAny, hq, ← hb]
          | false =>
            simp only [hp] at hb
            simp [SqlPred.evalAny, hq, convPreds_evalAny avail env r ha ps qs' b h2 hb]
end

end DafRel

namespace DafRel

/-! ### The conversion succeeds when every referenced column is available -/

mutual
theorem convExpr_total (avail : List (Tag × SqlExpr)) :
    (e : Expr) → (∀ t, t ∈ e.columnsRequired → (SqlPayload.lookup avail t).isSome = true) →
      ∃ x, convExpr avail e = .ok x
  | .lit v, _ => ⟨_, rfl⟩
  | .ref t, h => by
    have := h t (by simp [Expr.columnsRequired])
    cases hl : SqlPayload.lookup avail t with
    | none => simp [hl] at this
    | some y => exact ⟨y, by simp [convExpr, hl]⟩
  | .fn f args s, h => by
    obtain ⟨xs, hx⟩ := convExprs_total avail args (by simpa [Expr.columnsRequired] using h)
    exact ⟨.fn f xs, by simp [convExpr, hx]⟩
theorem convExprs_total (avail : List (Tag × SqlExpr)) :
    (es : List Expr) → (∀ t, t ∈ Expr.columnsRequiredList es → (SqlPayload.lookup avail t).isSome = true) →
      ∃ xs, convExprs avail es = .ok xs
  | [], _ => ⟨_, rfl⟩
  | e :: es, h => by
    obtain ⟨x, hx⟩ := convExpr_total avail e (fun t ht => h t (by simp [Expr.columnsRequiredList, ht]))
    obtain ⟨xs, hxs⟩ := convExprs_total avail es (fun t ht => h t (by simp [Expr.columnsRequiredList, ht]))
    exact ⟨x :: xs, by simp [convExprs, hx, hxs]⟩
end

end DafRel
