/-
`UnaryOperation._finish_apply` (with its recursive re-simplification) preserves
well-formedness, truthfulness and — the point of C05 — the reference semantics.
-/
import DafRel.Lemmas.Simplify

namespace DafRel

/-- What a successful `_finish_apply` guarantees about its result `t'`. -/
structure FinishOK (σ : Leaves) (op : UOp) (t t' : Rel) : Prop where
  wf : t'.WF
  truthful : t'.Truthful σ
  sem_eq : sem σ t' = op.sem (op.appliedColumns t.columns) (sem σ t)
  cols : ∀ c, c ∈ t'.columns ↔ c ∈ op.appliedColumns t.columns
  engine : t'.engine = t.engine

theorem keepUpstream_cols (new up : UOp) (h : new.simplify up = .ok .keepUpstream) (c : Cols) :
    new.appliedColumns c = c := by
  cases new with
  | «calc» _ _ => simp [UOp.simplify] at h
  | dedup => rfl
  | identity => rfl
  | proj p =>
    cases up <;> simp [UOp.simplify] at h
    split at h <;> simp at h
  | sel _ => rfl
  | slice _ _ => rfl
  | sort _ => rfl

theorem noop_sound (σ : Leaves) (op : UOp) (t : Rel) (hwf : t.WF) (htr : t.Truthful σ)
    (hn : op.noopOn t.columns = true) : FinishOK σ op t t := by
  have m := metadata_truthful σ t hwf htr
  cases op with
  | «calc» _ _ => simp [UOp.noopOn] at hn
  | dedup => simp [UOp.noopOn] at hn
  | identity => exact ⟨hwf, htr, by simp [UOp.sem], by simp [UOp.appliedColumns], rfl⟩
  | proj c =>
    simp only [UOp.noopOn, Cols.seteq_iff] at hn
    refine ⟨hwf, htr, ?_, ?_, rfl⟩
    · simp only [UOp.sem]
      symm
      calc (sem σ t).map (fun r => r.restrict c)
          = (sem σ t).map id := by
            apply List.map_congr_left
            intro r hr
            exact Row.restrict_self (m.keys r hr) hn
        _ = sem σ t := by simp
    · intro x; simp only [UOp.appliedColumns]; exact (hn x).symm
  | sel p =>
    simp only [UOp.noopOn, beq_iff_eq] at hn
    refine ⟨hwf, htr, ?_, by simp [UOp.appliedColumns], rfl⟩
    simp only [UOp.sem]
    symm
    apply List.filter_eq_self.mpr
    intro r _
    exact Pred.asTrivial_val r p true hn
  | slice s e =>
    simp only [UOp.noopOn, Bool.and_eq_true, beq_iff_eq, Option.isNone_iff_eq_none] at hn
    obtain ⟨rfl, rfl⟩ := hn
    exact ⟨hwf, htr, by simp [UOp.sem, sliceList], by simp [UOp.appliedColumns], rfl⟩
  | sort ts =>
    have : ts = [] := by cases ts <;> simp_all [UOp.noopOn]
    subst this
    exact ⟨hwf, htr, by simp [UOp.sem, isort_lexLe_nil], by simp [UOp.appliedColumns], rfl⟩

theorem construct_sound (σ : Leaves) (op : UOp) (t : Rel) (hwf : t.WF) (htr : t.Truthful σ)
    (hop : op.wfOn t.columns = true) (res : Res) (h : op.construct t = .ok res) :
    FinishOK σ op t (res.get t) := by
  unfold UOp.construct at h
  split at h
  · simp at h
  · injection h with h
    subst h
    exact ⟨⟨hwf, rfl, hop⟩, htr, rfl, fun _ => Iff.rfl, rfl⟩

/-- **`_finish_apply` is sound**: whatever merging or elision happens, the resulting tree is
well-formed and evaluates to the operation applied to the target's rows. -/
theorem finishApply_sound (σ : Leaves) : (t : Rel) → (op : UOp) → t.WF → t.Truthful σ →
    op.wfOn t.columns = true → (res : Res) → op.finishApply t = .ok res →
    FinishOK σ op t (res.get t)
  | .unary up t' c, op, hwf, htr, hop, res, h => by
    unfold UOp.finishApply at h
    by_cases hn : op.noopOn c = true
    · simp only [hn, if_true] at h
      injection h with h; subst h
      exact noop_sound σ op _ hwf htr hn
    · simp only [hn] at h
      have hwf' := hwf
      simp only [Rel.WF] at hwf'
      obtain ⟨hwt, hc, hup⟩ := hwf'
      have hss := simplify_sound op up t'.columns (sem σ t') hup (by rw [← hc]; exact hop)
      cases hs : op.simplify up with
      | error e => simp [hs] at hss
      | ok sres =>
        simp only [hs] at h hss
        cases sres with
        | no => exact construct_sound σ op _ hwf htr hop res h
        | keepUpstream =>
          injection h with h; subst h
          simp only [Res.get]
          refine ⟨hwf, htr, ?_, ?_, rfl⟩
          · simp only [sem, Rel.columns]
            rw [hc]
            exact (hss _).symm
          · intro x
            simp only [Rel.columns]
            rw [keepUpstream_cols op up hs]
        | replace s =>
          obtain ⟨hsem, hcols, hswf⟩ := hss
          cases hr : UOp.finishApply s t' with
          | error e => simp [hr] at h
          | ok r =>
            simp only [hr] at h
            injection h with h; subst h
            have ih := finishApply_sound σ t' s hwt (by simpa [Rel.Truthful] using htr) hswf r hr
            show FinishOK σ op _ (r.get t')
            refine ⟨ih.wf, ih.truthful, ?_, ?_, ?_⟩
            · rw [ih.sem_eq]
              simp only [sem, Rel.columns]
              rw [hsem]
              rw [hc]
            · intro x
              rw [ih.cols x, hcols]
              simp only [Rel.columns, hc]
            · rw [ih.engine]; rfl
  | .leaf a b c d e f g i, op, hwf, htr, hop, res, h => by
    unfold UOp.finishApply at h
    by_cases hn : op.noopOn (Rel.leaf a b c d e f g i).columns = true
    · simp only [hn, if_true] at h
      injection h with h; subst h
      exact noop_sound σ op _ hwf htr hn
    · simp only [hn] at h
      exact construct_sound σ op _ hwf htr hop res h
  | .binary a b c d, op, hwf, htr, hop, res, h => by
    unfold UOp.finishApply at h
    by_cases hn : op.noopOn (Rel.binary a b c d).columns = true
    · simp only [hn, if_true] at h
      injection h with h; subst h
      exact noop_sound σ op _ hwf htr hn
    · simp only [hn] at h
      exact construct_sound σ op _ hwf htr hop res h
  | .mat a b c, op, hwf, htr, hop, res, h => by
    unfold UOp.finishApply at h
    by_cases hn : op.noopOn (Rel.mat a b c).columns = true
    · simp only [hn, if_true] at h
      injection h with h; subst h
      exact noop_sound σ op _ hwf htr hn
    · simp only [hn] at h
      exact construct_sound σ op _ hwf htr hop res h
  | .transfer a b c, op, hwf, htr, hop, res, h => by
    unfold UOp.finishApply at h
    by_cases hn : op.noopOn (Rel.transfer a b c).columns = true
    · simp only [hn, if_true] at h
      injection h with h; subst h
      exact noop_sound σ op _ hwf htr hn
    · simp only [hn] at h
      exact construct_sound σ op _ hwf htr hop res h
  | .select a b c d e f g i j, op, hwf, htr, hop, res, h => by
    unfold UOp.finishApply at h
    by_cases hn : op.noopOn (Rel.select a b c d e f g i j).columns = true
    · simp only [hn, if_true] at h
      injection h with h; subst h
      exact noop_sound σ op _ hwf htr hn
    · simp only [hn] at h
      exact construct_sound σ op _ hwf htr hop res h

theorem construct_error (op : UOp) (t : Rel) (e : Err) (h : op.construct t = .error e) :
    e = .engine := by
  unfold UOp.construct at h
  split at h
  · injection h with h; exact h.symm
  · simp at h

/-- `_finish_apply` never raises anything but the documented `EngineError`
(the operation's expressions are not supported by the target's engine). -/
theorem finishApply_error (σ : Leaves) : (t : Rel) → (op : UOp) → t.WF →
    op.wfOn t.columns = true → (e : Err) → op.finishApply t = .error e → e = .engine
  | .unary up t' c, op, hwf, hop, e, h => by
    unfold UOp.finishApply at h
    by_cases hn : op.noopOn c = true
    · simp [hn] at h
    · simp only [hn] at h
      simp only [Rel.WF] at hwf
      obtain ⟨hwt, hc, hup⟩ := hwf
      have hss := simplify_sound op up t'.columns [] hup (by rw [← hc]; exact hop)
      cases hs : op.simplify up with
      | error e' => simp [hs] at hss
      | ok sres =>
        simp only [hs] at h hss
        cases sres with
        | no => exact construct_error _ _ _ h
        | keepUpstream => simp at h
        | replace s =>
          cases hr : UOp.finishApply s t' with
          | error e' =>
            simp only [hr] at h
            injection h with h
            subst h
            exact finishApply_error σ t' s hwt hss.2.2 _ hr
          | ok r => simp [hr] at h
  | .leaf .., op, _, _, e, h => by
    unfold UOp.finishApply at h
    split at h
    · simp at h
    · exact construct_error _ _ _ h
  | .binary .., op, _, _, e, h => by
    unfold UOp.finishApply at h
    split at h
    · simp at h
    · exact construct_error _ _ _ h
  | .mat .., op, _, _, e, h => by
    unfold UOp.finishApply at h
    split at h
    · simp at h
    · exact construct_error _ _ _ h
  | .transfer .., op, _, _, e, h => by
    unfold UOp.finishApply at h
    split at h
    · simp at h
    · exact construct_error _ _ _ h
  | .select .., op, _, _, e, h => by
    unfold UOp.finishApply at h
    split at h
    · simp at h
    · exact construct_error _ _ _ h

end DafRel
