/-
Soundness of `PartialJoin.commute` (C04, and the join case of back-tracking in C03): moving a join with a
fixed relation upstream of an existing unary operation.
-/
import DafRel.Lemmas.JoinSound
import DafRel.Lemmas.SortFlatMap

namespace DafRel

/-! ### Permutations -/

theorem insertSorted_perm {α : Type} (le : α → α → Bool) (x : α) (l : List α) :
    List.Perm (insertSorted le x l) (x :: l) := by
  induction l with
  | nil => exact List.Perm.refl _
  | cons y ys ih =>
    unfold insertSorted
    split
    · exact List.Perm.refl _
    · exact (List.Perm.cons y ih).trans (List.Perm.swap x y ys)

theorem isort_perm {α : Type} (le : α → α → Bool) (l : List α) : List.Perm (isort le l) l := by
  induction l with
  | nil => exact List.Perm.refl _
  | cons x xs ih =>
    unfold isort
    exact (insertSorted_perm le x _).trans (List.Perm.cons x ih)

theorem perm_flatMap_left {α β : Type} (l : List α) (f g : α → List β) (h : ∀ a, a ∈ l → List.Perm (f a) (g a)) :
    List.Perm (l.flatMap f) (l.flatMap g) := by
  induction l with
  | nil => exact List.Perm.refl _
  | cons a l ih =>
    simp only [List.flatMap_cons]
    exact List.Perm.append (h a (by simp)) (ih (fun b hb => h b (by simp [hb])))

theorem joinRows_perm_left (c : Cols) (q : Pred) (A A' B : List Row) (h : List.Perm A A') :
    List.Perm (joinRows c q A B) (joinRows c q A' B) := by
  unfold joinRows
  exact List.Perm.flatMap_right _ h

theorem joinRows_perm_right (c : Cols) (q : Pred) (A B B' : List Row) (h : List.Perm B B') :
    List.Perm (joinRows c q A B) (joinRows c q A B') := by
  unfold joinRows
  apply perm_flatMap_left
  intro a _
  exact List.Perm.map _ (List.Perm.filter _ h)

/-! ### Row transformers and filters under a join -/

theorem flatMap_congr' {α β : Type} (l : List α) (f g : α → List β) (h : ∀ a, a ∈ l → f a = g a) :
    l.flatMap f = l.flatMap g := by
  induction l with
  | nil => rfl
  | cons a l ih =>
    simp only [List.flatMap_cons]
    rw [h a (by simp), ih (fun b hb => h b (by simp [hb]))]

/-- A per-row map on the right operand commutes with the join. -/
theorem joinRows_map_right (c : Cols) (q : Pred) (A B : List Row) (g g' : Row → Row)
    (hag : ∀ a b, a ∈ A → b ∈ B → a.agree (g b) c = a.agree b c)
    (hq : ∀ a b, a ∈ A → b ∈ B → q.val (a.merge (g b)) = q.val (a.merge b))
    (hm : ∀ a b, a ∈ A → b ∈ B → a.agree b c = true → a.merge (g b) = g' (a.merge b)) :
    joinRows c q A (B.map g) = (joinRows c q A B).map g' := by
  unfold joinRows
  rw [List.map_flatMap]
  apply flatMap_congr'
  intro a ha
  rw [List.filter_map, List.map_map, List.map_map]
  have hf : ∀ b, b ∈ B → ((fun r => a.agree r c && q.val (a.merge r)) ∘ g) b =
      (fun r => a.agree r c && q.val (a.merge r)) b := by
    intro b hb
    simp only [Function.comp, hag a b ha hb, hq a b ha hb]
  rw [List.filter_congr hf]
  apply List.map_congr_left
  intro b hb
  have hb' := List.mem_filter.mp hb
  simp only [Bool.and_eq_true] at hb'
  simp only [Function.comp]
  exact hm a b ha hb'.1 hb'.2.1

/-- A per-row map on the left operand commutes with the join. -/
theorem joinRows_map_left (c : Cols) (q : Pred) (A B : List Row) (g g' : Row → Row)
    (hag : ∀ a b, a ∈ A → b ∈ B → (g a).agree b c = a.agree b c)
    (hq : ∀ a b, a ∈ A → b ∈ B → q.val ((g a).merge b) = q.val (a.merge b))
    (hm : ∀ a b, a ∈ A → b ∈ B → a.agree b c = true → (g a).merge b = g' (a.merge b)) :
    joinRows c q (A.map g) B = (joinRows c q A B).map g' := by
  unfold joinRows
  rw [List.map_flatMap, List.flatMap_map]
  apply flatMap_congr'
  intro a ha
  have hf : ∀ b, b ∈ B → (fun r => (g a).agree r c && q.val ((g a).merge r)) b =
      (fun r => a.agree r c && q.val (a.merge r)) b := by
    intro b hb
    simp only [hag a b ha hb, hq a b ha hb]
  rw [List.filter_congr hf, List.map_map]
  apply List.map_congr_left
  intro b hb
  have hb' := List.mem_filter.mp hb
  simp only [Bool.and_eq_true] at hb'
  simp only [Function.comp]
  exact hm a b ha hb'.1 hb'.2.1

/-- A filter on the right operand commutes with the join. -/
theorem joinRows_filter_right (c : Cols) (q : Pred) (A B : List Row) (pr : Row → Bool)
    (h : ∀ a b, a ∈ A → b ∈ B → a.agree b c = true → pr (a.merge b) = pr b) :
    joinRows c q A (B.filter pr) = (joinRows c q A B).filter pr := by
  unfold joinRows
  rw [List.filter_flatMap]
  apply flatMap_congr'
  intro a ha
  rw [List.filter_map, List.filter_filter, List.filter_filter]
  congr 1
  apply List.filter_congr
  intro b hb
  simp only [Function.comp]
  by_cases hab : a.agree b c = true
  · rw [h a b ha hb hab, hab]
    cases pr b <;> simp
  · simp [hab]

/-- A filter on the left operand commutes with the join. -/
theorem joinRows_filter_left (c : Cols) (q : Pred) (A B : List Row) (pr : Row → Bool)
    (h : ∀ a b, a ∈ A → b ∈ B → a.agree b c = true → pr (a.merge b) = pr a) :
    joinRows c q (A.filter pr) B = (joinRows c q A B).filter pr := by
  unfold joinRows
  induction A with
  | nil => rfl
  | cons a A ih =>
    have ih' := ih (fun a' b ha' hb => h a' b (by simp [ha']) hb)
    simp only [List.flatMap_cons, List.filter_append]
    rw [← ih']
    have hhead : ((B.filter (fun r => a.agree r c && q.val (a.merge r))).map (fun r => a.merge r)).filter pr =
        if pr a then (B.filter (fun r => a.agree r c && q.val (a.merge r))).map (fun r => a.merge r) else [] := by
      rw [List.filter_map]
      have hc : ∀ b, b ∈ B.filter (fun r => a.agree r c && q.val (a.merge r)) →
          (pr ∘ fun r => a.merge r) b = pr a := by
        intro b hb
        have hb' := List.mem_filter.mp hb
        simp only [Bool.and_eq_true] at hb'
        exact h a b (by simp) hb'.1 hb'.2.1
      cases hpa : pr a with
      | true =>
        simp only [if_true]
        congr 1
        apply List.filter_eq_self.mpr
        intro b hb
        rw [hc b hb, hpa]
      | false =>
        simp only [Bool.false_eq_true, if_false, List.map_eq_nil_iff]
        apply List.filter_eq_nil_iff.mpr
        intro b hb
        rw [hc b hb, hpa]
        simp
    rw [hhead]
    cases hpa : pr a with
    | true => simp [List.filter_cons, hpa]
    | false => simp [List.filter_cons, hpa]

/-! ### Rows of the two operands -/

/-- A merged row takes the right operand's value wherever the right operand has the column. -/
theorem Row.merge_right_of_some (a b : Row) (t : Tag) (h : (b t).isSome = true) : (a.merge b) t = b t := by
  unfold Row.merge
  cases hb : b t with
  | none => simp [hb] at h
  | some v => rfl

theorem Row.merge_left_of_none (a b : Row) (t : Tag) (h : b t = none) : (a.merge b) t = a t := by
  unfold Row.merge
  simp [h]

theorem Row.agree_at (a b : Row) (c : Cols) (h : a.agree b c = true) (t : Tag) (ht : t ∈ c) : a t = b t := by
  unfold Row.agree at h
  have := List.all_eq_true.mp h t ht
  simpa using this

/-- With the target on the right, the merged row agrees with the target's row on the target's columns. -/
theorem Row.merge_agrees_right (a b : Row) (tcols : Cols) (hb : RowHasCols b tcols) (t : Tag) (ht : t ∈ tcols) :
    (a.merge b) t = b t :=
  Row.merge_right_of_some a b t ((hb t).mpr ht)

/-- With the target on the left, the merged row agrees with the target's row on the target's columns as
soon as every column the two operands share is a common column they agree on. -/
theorem Row.merge_agrees_left (b a : Row) (tcols fcols c : Cols) (ha : RowHasCols a fcols)
    (hshare : ∀ u, u ∈ fcols → u ∈ tcols → u ∈ c) (hag : b.agree a c = true) (t : Tag) (ht : t ∈ tcols) :
    (b.merge a) t = b t := by
  by_cases hf : t ∈ fcols
  · rw [Row.merge_right_of_some b a t ((ha t).mpr hf)]
    exact (Row.agree_at b a c hag t (hshare t hf ht)).symm
  · apply Row.merge_left_of_none
    cases hat : a t with
    | none => rfl
    | some v => exact absurd ((ha t).mp (by simp [hat])) hf

end DafRel

namespace DafRel

/-! ### `PartialJoin.commute` -/

theorem PJoin.mem_appliedColumns (p : PJoin) (tcols : Cols) (x : Tag) :
    x ∈ p.appliedColumns tcols ↔ x ∈ p.fixed.columns ∨ x ∈ tcols := by
  unfold PJoin.appliedColumns
  split <;> simp only [Cols.mem_union]
  exact Or.comm

theorem PJoin.min_sub_required (p : PJoin) (x : Tag) (h : x ∈ p.join.minCols) : x ∈ p.columnsRequired := by
  unfold PJoin.columnsRequired
  by_cases hx : x ∈ p.join.pred.columnsRequired.diff p.fixed.columns
  · exact (Cols.mem_union _ _ _).mpr (Or.inl hx)
  · exact (Cols.mem_union _ _ _).mpr (Or.inr h)

theorem PJoin.pred_sub (p : PJoin) (x : Tag) (h : x ∈ p.join.pred.columnsRequired) :
    x ∈ p.fixed.columns ∨ x ∈ p.columnsRequired := by
  by_cases hf : x ∈ p.fixed.columns
  · exact Or.inl hf
  · exact Or.inr ((Cols.mem_union _ _ _).mpr (Or.inl ((Cols.mem_diff _ _ _).mpr ⟨h, hf⟩)))

/-- The facts every case of the proof uses: the rows of the two operands, and the guard at the top of
`PartialJoin.commute` (a column the operands share is a resolved common column). -/
structure PJCtx (p : PJoin) (tcols : Cols) (F l : List Row) : Prop where
  hl : RowsHaveCols l tcols
  hF : RowsHaveCols F p.fixed.columns
  share : ∀ u, u ∈ p.fixed.columns → u ∈ tcols → u ∈ p.join.minCols

/-- On the target's columns a joined row carries the target row's values. -/
theorem PJCtx.merged_right {p : PJoin} {tcols : Cols} {F l : List Row} (k : PJCtx p tcols F l)
    (a b : Row) (hb : b ∈ l) (t : Tag) (ht : t ∈ tcols) : (a.merge b) t = b t :=
  Row.merge_agrees_right a b tcols (k.hl b hb) t ht

theorem PJCtx.merged_left {p : PJoin} {tcols : Cols} {F l : List Row} (k : PJCtx p tcols F l)
    (b a : Row) (ha : a ∈ F) (hag : b.agree a p.join.minCols = true) (t : Tag) (ht : t ∈ tcols) :
    (b.merge a) t = b t :=
  Row.merge_agrees_left b a tcols p.fixed.columns p.join.minCols (k.hF a ha) k.share hag t ht

/-- A filter on the target's columns commutes with the partial join. -/
theorem PJCtx.filter {p : PJoin} {tcols : Cols} {F l : List Row} (k : PJCtx p tcols F l)
    (pr : Row → Bool) (hpr : ∀ r1 r2 : Row, (∀ t, t ∈ tcols → r1 t = r2 t) → pr r1 = pr r2) :
    p.semRows F (l.filter pr) = (p.semRows F l).filter pr := by
  unfold PJoin.semRows
  split
  · apply joinRows_filter_right
    intro a b _ hb _
    exact hpr _ _ (fun t ht => k.merged_right a b hb t ht)
  · apply joinRows_filter_left
    intro b a _ ha hag
    exact hpr _ _ (fun t ht => k.merged_left b a ha hag t ht)

theorem Row.agree_congr_right (a b b' : Row) (c : Cols) (h : ∀ t, t ∈ c → b' t = b t) :
    a.agree b' c = a.agree b c := by
  unfold Row.agree
  rw [Bool.eq_iff_iff]
  simp only [List.all_eq_true]
  constructor <;> intro h2 t ht <;> have := h2 t ht <;> simpa [h t ht] using this

theorem Row.agree_congr_left (a a' b : Row) (c : Cols) (h : ∀ t, t ∈ c → a' t = a t) :
    a'.agree b c = a.agree b c := by
  unfold Row.agree
  rw [Bool.eq_iff_iff]
  simp only [List.all_eq_true]
  constructor <;> intro h2 t ht <;> have := h2 t ht <;> simpa [h t ht] using this

end DafRel

namespace DafRel

theorem Row.merge_congr_at (a b a' b' : Row) (t : Tag) (ha : a' t = a t) (hb : b' t = b t) :
    (a'.merge b') t = (a.merge b) t := by
  unfold Row.merge
  rw [ha, hb]

theorem RowHasCols.none_of_not_mem {r : Row} {c : Cols} (h : RowHasCols r c) (t : Tag) (ht : t ∉ c) : r t = none := by
  cases hr : r t with
  | none => rfl
  | some v => exact absurd ((h t).mp (by simp [hr])) ht

/-- A Calculation of a tag neither operand has, over the target's columns, commutes with the partial join. -/
theorem PJCtx.calc {p : PJoin} {tcols : Cols} {F l : List Row} (k : PJCtx p tcols F l) (tag : Tag) (e : Expr)
    (he : e.columnsRequired.subset tcols = true) (htf : tag ∉ p.fixed.columns)
    (htc : tag ∉ p.join.minCols) (htq : tag ∉ p.join.pred.columnsRequired) :
    p.semRows F (l.map (fun r => r.set tag (e.val r))) = (p.semRows F l).map (fun r => r.set tag (e.val r)) := by
  have hne : ∀ t, t ∈ p.join.minCols → t ≠ tag := fun t ht h => htc (h ▸ ht)
  have hneq : ∀ t, t ∈ p.join.pred.columnsRequired → t ≠ tag := fun t ht h => htq (h ▸ ht)
  unfold PJoin.semRows
  split
  · apply joinRows_map_right
    · intro a b _ _
      apply Row.agree_congr_right
      intro t ht
      simp [Row.set, hne t ht]
    · intro a b _ _
      apply Pred.val_congr
      intro t ht
      apply Row.merge_congr_at _ _ _ _ t rfl
      simp [Row.set, hneq t ht]
    · intro a b _ hb _
      have hev : e.val (a.merge b) = e.val b :=
        Expr.val_congr _ _ e (fun t ht => k.merged_right a b hb t ((Cols.subset_iff _ _).mp he t ht))
      funext u
      by_cases hu : u = tag
      · subst hu
        simp [Row.merge, Row.set, hev]
      · have : (b.set tag (e.val b)) u = b u := by simp [Row.set, hu]
        simp only [Row.set, hu, if_false]
        exact Row.merge_congr_at _ _ _ _ u rfl this
  · apply joinRows_map_left
    · intro b a _ _
      apply Row.agree_congr_left
      intro t ht
      simp [Row.set, hne t ht]
    · intro b a _ _
      apply Pred.val_congr
      intro t ht
      apply Row.merge_congr_at _ _ _ _ t _ rfl
      simp [Row.set, hneq t ht]
    · intro b a _ ha hag
      have hev : e.val (b.merge a) = e.val b :=
        Expr.val_congr _ _ e (fun t ht => k.merged_left b a ha hag t ((Cols.subset_iff _ _).mp he t ht))
      have hat : a tag = none := (k.hF a ha).none_of_not_mem tag htf
      funext u
      by_cases hu : u = tag
      · subst hu
        simp [Row.merge, Row.set, hev, hat]
      · have : (b.set tag (e.val b)) u = b u := by simp [Row.set, hu]
        simp only [Row.set, hu, if_false]
        exact Row.merge_congr_at _ _ _ _ u this rfl

/-- A Projection that keeps the columns the join needs commutes with the partial join, when the outer
projection is widened by the fixed relation's columns. -/
theorem PJCtx.proj {p : PJoin} {tcols : Cols} {F l : List Row} (k : PJCtx p tcols F l) (c' : Cols)
    (hc : ∀ t, t ∈ c' → t ∈ tcols) (hreq : ∀ t, t ∈ p.columnsRequired → t ∈ c') :
    p.semRows F (l.map (fun r => r.restrict c')) =
      (p.semRows F l).map (fun r => r.restrict (p.appliedColumns c')) := by
  have hmin : ∀ t, t ∈ p.join.minCols → t ∈ c' := fun t ht => hreq t (p.min_sub_required t ht)
  have hq : ∀ t, t ∈ p.join.pred.columnsRequired → t ∈ p.fixed.columns ∨ t ∈ c' := fun t ht => by
    rcases p.pred_sub t ht with h | h
    · exact Or.inl h
    · exact Or.inr (hreq t h)
  unfold PJoin.semRows
  split
  · -- target on the right
    have hX : ∀ (a b : Row), b ∈ l → ∀ t, t ∈ p.fixed.columns ∨ t ∈ c' → (a.merge (b.restrict c')) t = (a.merge b) t := by
      intro a b hb t ht
      by_cases htc : t ∈ c'
      · exact Row.merge_congr_at _ _ _ _ t rfl (Row.restrict_agree b c' t htc)
      · have htf : t ∈ p.fixed.columns := ht.resolve_right htc
        have hbt : b t = none := by
          apply (k.hl b hb).none_of_not_mem
          intro htt
          exact htc (hmin t (k.share t htf htt))
        apply Row.merge_congr_at _ _ _ _ t rfl
        simp [Row.restrict, htc, hbt]
    apply joinRows_map_right
    · intro a b _ _
      exact Row.agree_congr_right a b _ _ (fun t ht => Row.restrict_agree b c' t (hmin t ht))
    · intro a b _ hb
      exact Pred.val_congr _ _ _ (fun t ht => hX a b hb t (hq t ht))
    · intro a b ha hb _
      funext u
      by_cases hu : u ∈ p.appliedColumns c'
      · have := hX a b hb u ((p.mem_appliedColumns c' u).mp hu)
        simp only [Row.restrict, hu, if_true] at this ⊢
        exact this
      · have hu' := fun h => hu ((p.mem_appliedColumns c' u).mpr h)
        have huf : u ∉ p.fixed.columns := fun h => hu' (Or.inl h)
        have huc : u ∉ c' := fun h => hu' (Or.inr h)
        have hau : a u = none := (k.hF a ha).none_of_not_mem u huf
        simp [Row.restrict, Row.merge, hu, huc, hau]
  · -- target on the left
    have hX : ∀ (b a : Row), a ∈ F → ∀ t, t ∈ p.fixed.columns ∨ t ∈ c' → ((b.restrict c').merge a) t = (b.merge a) t := by
      intro b a ha t ht
      by_cases htc : t ∈ c'
      · exact Row.merge_congr_at _ _ _ _ t (Row.restrict_agree b c' t htc) rfl
      · have htf : t ∈ p.fixed.columns := ht.resolve_right htc
        have hsome : (a t).isSome = true := (k.hF a ha t).mpr htf
        rw [Row.merge_right_of_some _ a t hsome, Row.merge_right_of_some _ a t hsome]
    apply joinRows_map_left
    · intro b a _ _
      exact Row.agree_congr_left b _ a _ (fun t ht => Row.restrict_agree b c' t (hmin t ht))
    · intro b a _ ha
      exact Pred.val_congr _ _ _ (fun t ht => hX b a ha t (hq t ht))
    · intro b a _ ha _
      funext u
      by_cases hu : u ∈ p.appliedColumns c'
      · have := hX b a ha u ((p.mem_appliedColumns c' u).mp hu)
        simp only [Row.restrict, hu, if_true] at this ⊢
        exact this
      · have hu' := fun h => hu ((p.mem_appliedColumns c' u).mpr h)
        have huf : u ∉ p.fixed.columns := fun h => hu' (Or.inl h)
        have huc : u ∉ c' := fun h => hu' (Or.inr h)
        have hau : a u = none := (k.hF a ha).none_of_not_mem u huf
        simp [Row.restrict, Row.merge, hu, huc, hau]

/-- With the target as the LEFT (outer) operand of the nested loop, a Sort over the target's columns commutes with
the partial join as a LIST function: the rows a target row expands to carry its sort key, and the sort is stable. -/
theorem PJCtx.sort_left {p : PJoin} {tcols : Cols} {F l : List Row} (k : PJCtx p tcols F l) (ts : List SortTerm)
    (hts : (UOp.sortCols ts).subset tcols = true) (hside : p.fixedIsLhs = false) :
    isort (lexLe ts) (p.semRows F l) = p.semRows F (isort (lexLe ts) l) := by
  unfold PJoin.semRows
  simp only [hside, Bool.false_eq_true, if_false]
  unfold joinRows
  apply isort_flatMap (lexLe ts) (lexLe ts) _ (lexLe_total ts) (lexLe_trans ts)
  intro u v _ _ x y hx hy
  have key : ∀ (b z : Row), z ∈ (F.filter (fun a => b.agree a p.join.minCols && p.join.pred.val (b.merge a))).map
      (fun a => b.merge a) → ∀ t, t ∈ ts → t.expr.val z = t.expr.val b := by
    intro b z hz t ht
    obtain ⟨a, ha, rfl⟩ := List.mem_map.mp hz
    have ha' := List.mem_filter.mp ha
    simp only [Bool.and_eq_true] at ha'
    apply Expr.val_congr
    intro c hc
    exact k.merged_left b a ha'.1 ha'.2.1 c
      ((Cols.subset_iff _ _).mp (sortCols_subset_term ts tcols hts t ht) c hc)
  exact lexLe_congr ts u x v y (key u x hx) (key v y hy)

/-- Permuting the target's rows permutes the joined rows. -/
theorem PJoin.semRows_perm (p : PJoin) (F l l' : List Row) (h : List.Perm l l') :
    List.Perm (p.semRows F l) (p.semRows F l') := by
  unfold PJoin.semRows
  split
  · exact joinRows_perm_right _ _ _ _ _ h
  · exact joinRows_perm_left _ _ _ _ _ h

end DafRel

namespace DafRel

/-- **`PartialJoin.commute` is sound** for every existing operation, target and fixed relation. -/
theorem pjoin_commute_sound (p : PJoin) (cur : UOp) (tcols : Cols) (F l : List Row)
    (hl : RowsHaveCols l tcols) (hF : RowsHaveCols F p.fixed.columns)
    (hcur : cur.wfOn tcols = true)
    (hp : p.columnsRequired.subset (cur.appliedColumns tcols) = true) :
    pjoinCommuteSoundAt p cur tcols F l := by
  unfold pjoinCommuteSoundAt PJoin.commute
  by_cases hg : ((p.fixed.columns.inter (tcols.union (cur.appliedColumns tcols))).subset p.join.minCols) = true
  case neg => simp [hg]
  simp only [hg, Bool.not_true, Bool.false_eq_true, if_false]
  have hshare2 : ∀ u, u ∈ p.fixed.columns → (u ∈ tcols ∨ u ∈ cur.appliedColumns tcols) → u ∈ p.join.minCols := by
    intro u hu h
    exact (Cols.subset_iff _ _).mp hg u ((Cols.mem_inter _ _ _).mpr ⟨hu, (Cols.mem_union _ _ _).mpr h⟩)
  have k : PJCtx p tcols F l := ⟨hl, hF, fun u hu ht => hshare2 u hu (Or.inl ht)⟩
  have hpm := (Cols.subset_iff _ _).mp hp
  cases cur with
  | dedup => simp
  | slice a b => simp [UOp.isCountDependent]
  | proj c' =>
    simp only [UOp.appliedColumns] at hpm hshare2 ⊢
    have hc : ∀ t, t ∈ c' → t ∈ tcols := by
      simp only [UOp.wfOn, UOp.columnsRequired, Bool.and_true] at hcur
      exact (Cols.subset_iff _ _).mp hcur
    have heq := k.proj c' hc hpm
    refine ⟨by trivial, by trivial, ?_, ?_, ?_, ?_, ?_⟩
    · exact (Cols.subset_iff _ _).mpr (fun t ht => hc t (hpm t ht))
    · simp only [UOp.wfOn, UOp.columnsRequired, Bool.and_true]
      apply (Cols.subset_iff _ _).mpr
      intro t ht
      rcases (p.mem_appliedColumns c' t).mp ht with h | h
      · exact (p.mem_appliedColumns tcols t).mpr (Or.inl h)
      · exact (p.mem_appliedColumns tcols t).mpr (Or.inr (hc t h))
    · intro _; trivial
    · simp only [UOp.sem]; rw [heq]
    · intro _; simp only [UOp.sem]; rw [heq]
  | identity =>
    have hreq : p.columnsRequired.subset tcols = true := hp
    simp only [hreq, Bool.not_true, Bool.false_eq_true, if_false, UOp.isCountDependent]
    refine ⟨by trivial, by trivial, by trivial, by simp [UOp.wfOn, UOp.columnsRequired, Cols.subset], fun x => Iff.rfl, ?_, fun _ => rfl⟩
    exact List.Perm.refl _
  | sel pr =>
    have hreq : p.columnsRequired.subset tcols = true := hp
    simp only [hreq, Bool.not_true, Bool.false_eq_true, if_false, UOp.isCountDependent]
    have hpr : pr.columnsRequired.subset tcols = true := by
      simpa only [UOp.wfOn, UOp.columnsRequired, Bool.and_true] using hcur
    have heq := k.filter (fun r => pr.val r)
      (fun r1 r2 h => Pred.val_congr r1 r2 pr (fun t ht => h t ((Cols.subset_iff _ _).mp hpr t ht)))
    refine ⟨by trivial, by trivial, by trivial, ?_, fun x => Iff.rfl, ?_, ?_⟩
    · simp only [UOp.wfOn, UOp.columnsRequired, Bool.and_true]
      exact (Cols.subset_iff _ _).mpr
        (fun t ht => (p.mem_appliedColumns tcols t).mpr (Or.inr ((Cols.subset_iff _ _).mp hpr t ht)))
    · simp only [UOp.sem]; rw [heq]
    · intro _; simp only [UOp.sem]; rw [heq]
  | sort ts =>
    have hreq : p.columnsRequired.subset tcols = true := hp
    simp only [hreq, Bool.not_true, Bool.false_eq_true, if_false, UOp.isCountDependent]
    have hts : (UOp.sortCols ts).subset tcols = true := by
      simpa only [UOp.wfOn, UOp.columnsRequired, Bool.and_true] using hcur
    refine ⟨by trivial, by trivial, by trivial, ?_, fun x => Iff.rfl, ?_, ?_⟩
    · simp only [UOp.wfOn, UOp.columnsRequired, Bool.and_true]
      exact (Cols.subset_iff _ _).mpr
        (fun t ht => (p.mem_appliedColumns tcols t).mpr (Or.inr ((Cols.subset_iff _ _).mp hts t ht)))
    · simp only [UOp.sem]
      exact (isort_perm _ _).trans (p.semRows_perm F _ _ (isort_perm _ l).symm)
    · intro h
      rcases h with h | h
      · exact absurd rfl (h ts)
      · simp only [UOp.sem]
        exact k.sort_left ts hts h
  | «calc» tag e =>
    simp only [UOp.appliedColumns] at hpm hshare2 ⊢
    simp only [UOp.wfOn, UOp.columnsRequired, Bool.and_eq_true, decide_eq_true_eq] at hcur
    by_cases hreq : p.columnsRequired.subset tcols = true
    case neg => simp [hreq]
    simp only [hreq, Bool.not_true, Bool.false_eq_true, if_false, UOp.isCountDependent]
    have hreqm := (Cols.subset_iff _ _).mp hreq
    have htc : tag ∉ p.join.minCols := fun h => hcur.2 (hreqm tag (p.min_sub_required tag h))
    have htf : tag ∉ p.fixed.columns := fun h =>
      htc (hshare2 tag h (Or.inr ((Cols.mem_insert _ _ _).mpr (Or.inr rfl))))
    have htq : tag ∉ p.join.pred.columnsRequired := fun h => by
      rcases p.pred_sub tag h with h' | h'
      · exact htf h'
      · exact hcur.2 (hreqm tag h')
    have heq := k.calc tag e hcur.1 htf htc htq
    refine ⟨by trivial, by trivial, by trivial, ?_, ?_, ?_, ?_⟩
    · simp only [UOp.wfOn, UOp.columnsRequired, Bool.and_eq_true, decide_eq_true_eq]
      refine ⟨(Cols.subset_iff _ _).mpr
        (fun t ht => (p.mem_appliedColumns tcols t).mpr (Or.inr ((Cols.subset_iff _ _).mp hcur.1 t ht))), ?_⟩
      intro h
      rcases (p.mem_appliedColumns tcols tag).mp h with h | h
      · exact htf h
      · exact hcur.2 h
    · intro x
      simp only [Cols.mem_insert, PJoin.mem_appliedColumns]
      exact or_assoc
    · simp only [UOp.sem]; rw [heq]
    · intro _; simp only [UOp.sem]; rw [heq]

end DafRel
