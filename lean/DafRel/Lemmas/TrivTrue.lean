/-
`as_trivial() is True` through `Selection.__post_init__`'s flattening: the stored predicate is
trivially true exactly when the given one is.
-/
import DafRel.Model.Op

namespace DafRel

def AllTriv (ps : List Pred) : Prop := ∀ x, x ∈ ps → x.asTrivial = some true

theorem AllTriv.nil : AllTriv [] := fun _ h => by cases h

theorem allTriv_cons (p : Pred) (ps : List Pred) : AllTriv (p :: ps) ↔ p.asTrivial = some true ∧ AllTriv ps := by
  constructor
  · intro h; exact ⟨h p (by simp), fun x hx => h x (by simp [hx])⟩
  · intro h x hx
    rcases List.mem_cons.mp hx with rfl | hx
    · exact h.1
    · exact h.2 x hx

theorem allTriv_append (xs ys : List Pred) : AllTriv (xs ++ ys) ↔ AllTriv xs ∧ AllTriv ys := by
  constructor
  · intro h; exact ⟨fun x hx => h x (by simp [hx]), fun x hx => h x (by simp [hx])⟩
  · intro h x hx
    rcases List.mem_append.mp hx with hx | hx
    · exact h.1 x hx
    · exact h.2 x hx

theorem asTrivialAnd_true (ps : List Pred) (acc : Option Bool) :
    Pred.asTrivialAnd ps acc = some true ↔ acc = some true ∧ AllTriv ps := by
  induction ps generalizing acc with
  | nil => simp [Pred.asTrivialAnd, AllTriv.nil]
  | cons p ps ih =>
    rw [allTriv_cons]
    unfold Pred.asTrivialAnd
    cases hp : Pred.asTrivial p with
    | none => simp [ih]
    | some b =>
      cases b with
      | false => simp
      | true => simp [ih]

theorem logicalAnd_true (ps : List Pred) : (Pred.logicalAnd ps).asTrivial = some true ↔ AllTriv ps := by
  match ps with
  | [] => simp [Pred.logicalAnd, Pred.asTrivial, AllTriv.nil]
  | [p] =>
    simp only [Pred.logicalAnd, allTriv_cons]
    exact ⟨fun h => ⟨h, AllTriv.nil⟩, fun h => h.1⟩
  | p :: q :: rest =>
    simp only [Pred.logicalAnd, Pred.asTrivial, asTrivialAnd_true, true_and]

mutual
theorem Pred.flattenAnd_true : (p : Pred) → (ps : List Pred) → p.flattenAnd = some ps →
    (p.asTrivial = some true ↔ AllTriv ps)
  | .and qs, ps, h => by
    simp only [Pred.flattenAnd] at h
    simp only [Pred.asTrivial, asTrivialAnd_true, true_and]
    exact Pred.flattenAndList_true qs ps h
  | .lit true, ps, h => by simp [Pred.flattenAnd] at h; subst h; simp [Pred.asTrivial, AllTriv.nil]
  | .lit false, ps, h => by simp [Pred.flattenAnd] at h
  | .ref x, ps, h => by simp [Pred.flattenAnd] at h; subst h; simp [allTriv_cons, AllTriv.nil]
  | .fn f a s, ps, h => by simp [Pred.flattenAnd] at h; subst h; simp [allTriv_cons, AllTriv.nil]
  | .not p, ps, h => by simp [Pred.flattenAnd] at h; subst h; simp [allTriv_cons, AllTriv.nil]
  | .or qs, ps, h => by simp [Pred.flattenAnd] at h; subst h; simp [allTriv_cons, AllTriv.nil]
  | .inC i c, ps, h => by simp [Pred.flattenAnd] at h; subst h; simp [allTriv_cons, AllTriv.nil]
theorem Pred.flattenAndList_true : (qs : List Pred) → (ps : List Pred) →
    Pred.flattenAndList qs = some ps → (AllTriv qs ↔ AllTriv ps)
  | [], ps, h => by simp [Pred.flattenAndList] at h; subst h; exact Iff.rfl
  | q :: qs, ps, h => by
    unfold Pred.flattenAndList at h
    cases hq : Pred.flattenAnd q with
    | none => simp [hq] at h
    | some xs =>
      cases hqs : Pred.flattenAndList qs with
      | none => simp [hq, hqs] at h
      | some ys =>
        simp [hq, hqs] at h
        subst h
        rw [allTriv_cons, allTriv_append, Pred.flattenAnd_true q xs hq, Pred.flattenAndList_true qs ys hqs]
end

theorem Pred.normalise_true (p : Pred) : p.normalise.asTrivial = some true ↔ p.asTrivial = some true := by
  unfold Pred.normalise
  cases h : p.flattenAnd with
  | none => exact Iff.rfl
  | some ps => simp only [logicalAnd_true]; exact (Pred.flattenAnd_true p ps h).symm

/-- A merged selection is trivially true only if both parts are. -/
theorem mkSel_and_trivial (q p : Pred) (s : Pred) (h : UOp.mkSel (.and [q, p]) = .sel s)
    (ht : s.asTrivial = some true) : q.asTrivial = some true ∧ p.asTrivial = some true := by
  unfold UOp.mkSel at h
  injection h with h
  subst h
  rw [Pred.normalise_true] at ht
  simp only [Pred.asTrivial, asTrivialAnd_true, true_and, allTriv_cons] at ht
  exact ⟨ht.1, ht.2.1⟩

end DafRel
