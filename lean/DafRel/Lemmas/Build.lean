/-
Factory calls inside an iteration engine: what `UnaryOperation.apply` (no preferred engine),
`chain` and `materialized` build, and the invariants the built trees satisfy.  Together with
`Lemmas/Exec.lean` this gives C01 for whole *construction histories*.
-/
import DafRel.Model.Apply
import DafRel.Lemmas.FinishApply
import DafRel.Lemmas.Exec
import DafRel.Lemmas.ListOps
import DafRel.Spec.History

namespace DafRel

/-! ### `apply` inside an iteration engine is `_begin_apply` followed by `_finish_apply` -/

theorem beginApply_engine (op : UOp) (t : Rel) (op' : UOp) (e : Engine)
    (h : op.beginApply t none = .ok (op', e)) : e = t.engine := by
  unfold UOp.beginApply at h
  cases op <;> simp only [Option.getD] at h
  all_goals (repeat' split at h) <;>
    first | (injection h with h; injection h with h1 h2; exact h2.symm) | (cases h)

theorem applyOp_iter (st : Store) (fuel : Nat) (op : UOp) (t : Rel) (hk : t.engine.kind = .iter) :
    applyOp st (fuel+2) (.u op) t {} =
      match op.beginApply t none with
      | .error e => .error e
      | .ok (op', _) => op'.finishApply t := by
  rw [applyOp]
  simp only [AnyOp.beginApply]
  cases hb : op.beginApply t none with
  | error e => simp [Except.map, bind, Except.bind]
  | ok x =>
    obtain ⟨op', e⟩ := x
    have he := beginApply_engine op t op' e hb
    subst he
    simp [Except.map, bind, Except.bind, appendUnary, Res.get, hk, pure, Except.pure]
    cases UOp.finishApply op' t with
    | error e => rfl
    | ok r => cases r <;> rfl

theorem sortCols_subset (ts : List SortTerm) (c : Cols)
    (h : ts.all (fun tm => tm.expr.columnsRequired.subset c) = true) : (UOp.sortCols ts).subset c = true := by
  induction ts with
  | nil => rfl
  | cons t ts ih =>
    simp only [List.all_cons, Bool.and_eq_true] at h
    rw [Cols.subset_iff]
    intro x hx
    simp only [UOp.sortCols, List.mem_append] at hx
    rcases hx with hx | hx
    · exact (Cols.subset_iff _ _).mp h.1 x hx
    · exact (Cols.subset_iff _ _).mp (ih h.2) x hx

/-- `_begin_apply` either passes the operation through, checked against the target's columns,
or replaces an operation that does nothing on this target by the identity placeholder. -/
theorem beginApply_cases (op : UOp) (t : Rel) (op' : UOp) (e : Engine)
    (h : op.beginApply t none = .ok (op', e)) :
    (op' = op ∧ op.wfOn t.columns = true) ∨ (op' = .identity ∧ op.noopOn t.columns = true) := by
  unfold UOp.beginApply at h
  cases op with
  | identity =>
    injection h with h; injection h with h1 h2
    exact Or.inl ⟨h1.symm, rfl⟩
  | dedup =>
    injection h with h; injection h with h1 h2
    exact Or.inl ⟨h1.symm, rfl⟩
  | slice a b =>
    simp only at h
    split at h
    · rename_i hc
      injection h with h; injection h with h1 h2
      exact Or.inr ⟨h1.symm, by simpa [UOp.noopOn] using hc⟩
    · injection h with h; injection h with h1 h2
      exact Or.inl ⟨h1.symm, rfl⟩
  | sort ts =>
    simp only at h
    split at h
    · rename_i hc
      injection h with h; injection h with h1 h2
      exact Or.inr ⟨h1.symm, by simpa [UOp.noopOn] using hc⟩
    · split at h
      · rename_i hc
        injection h with h; injection h with h1 h2
        refine Or.inl ⟨h1.symm, ?_⟩
        simp only [UOp.wfOn, UOp.columnsRequired, Bool.and_true]
        exact sortCols_subset ts _ hc
      · cases h
  | sel p =>
    simp only at h
    split at h
    · rename_i hc
      injection h with h; injection h with h1 h2
      exact Or.inr ⟨h1.symm, by simpa [UOp.noopOn] using hc⟩
    · split at h
      · cases h
      · rename_i hc
        injection h with h; injection h with h1 h2
        refine Or.inl ⟨h1.symm, ?_⟩
        simpa [UOp.wfOn, UOp.columnsRequired] using hc
  | proj c =>
    simp only at h
    split at h
    · rename_i hc
      injection h with h; injection h with h1 h2
      exact Or.inr ⟨h1.symm, by simpa [UOp.noopOn] using hc⟩
    · split at h
      · cases h
      · rename_i hc
        injection h with h; injection h with h1 h2
        refine Or.inl ⟨h1.symm, ?_⟩
        simpa [UOp.wfOn, UOp.columnsRequired] using hc
  | «calc» tag ex =>
    simp only at h
    split at h
    · cases h
    · split at h
      · cases h
      · rename_i hc1 hc2
        injection h with h; injection h with h1 h2
        refine Or.inl ⟨h1.symm, ?_⟩
        simp only [UOp.wfOn, UOp.columnsRequired, Bool.and_eq_true, decide_eq_true_eq]
        exact ⟨by simpa using hc1, hc2⟩

/-! ### Invariants that `_finish_apply` preserves -/

theorem construct_get (op : UOp) (t : Rel) (res : Res) (h : op.construct t = .ok res) :
    res.get t = .unary op t (op.appliedColumns t.columns) := by
  unfold UOp.construct at h
  split at h
  · cases h
  · injection h with h; subst h; rfl

theorem construct_supported (op : UOp) (t : Rel) (res : Res) (h : op.construct t = .ok res) :
    op.isSupportedBy t.engine.kind = true := by
  unfold UOp.construct at h
  split at h
  · cases h
  · rename_i hs; simpa using hs

/-- Generic preservation: a tree predicate `P` that survives dropping the top operation and
adding an operation satisfying `Q`, where `Q` is closed under merging (`simplify`). -/
theorem finishApply_pres (P : Rel → Prop) (Q Qu : UOp → Prop)
    (hdrop : ∀ up t c, P (.unary up t c) → P t ∧ Qu up)
    (hadd : ∀ op t c, P t → Q op → op.isSupportedBy t.engine.kind = true → P (.unary op t c))
    (hsimp : ∀ new up s, new.simplify up = .ok (.replace s) → Q new → Qu up → Q s) :
    (t : Rel) → (op : UOp) → (res : Res) → P t → Q op → op.finishApply t = .ok res → P (res.get t)
  | .unary up t' c, op, res, hp, hq, h => by
    unfold UOp.finishApply at h
    by_cases hn : op.noopOn c = true
    · simp only [hn, if_true] at h
      injection h with h; subst h; exact hp
    · simp only [hn] at h
      cases hs : op.simplify up with
      | error e => simp [hs] at h
      | ok sres =>
        simp only [hs] at h
        cases sres with
        | no => rw [construct_get op _ res h]; exact hadd _ _ _ hp hq (construct_supported op _ res h)
        | keepUpstream => injection h with h; subst h; exact hp
        | replace s =>
          cases hr : UOp.finishApply s t' with
          | error e => simp [hr] at h
          | ok r =>
            simp only [hr] at h
            injection h with h; subst h
            have hd := hdrop up t' c hp
            exact finishApply_pres P Q Qu hdrop hadd hsimp t' s r hd.1 (hsimp op up s hs hq hd.2) hr
  | .leaf a b c d e f g i, op, res, hp, hq, h => by
    unfold UOp.finishApply at h
    split at h
    · injection h with h; subst h; exact hp
    · rw [construct_get op _ res h]; exact hadd _ _ _ hp hq (construct_supported op _ res h)
  | .binary a b c d, op, res, hp, hq, h => by
    unfold UOp.finishApply at h
    split at h
    · injection h with h; subst h; exact hp
    · rw [construct_get op _ res h]; exact hadd _ _ _ hp hq (construct_supported op _ res h)
  | .mat a b c, op, res, hp, hq, h => by
    unfold UOp.finishApply at h
    split at h
    · injection h with h; subst h; exact hp
    · rw [construct_get op _ res h]; exact hadd _ _ _ hp hq (construct_supported op _ res h)
  | .transfer a b c, op, res, hp, hq, h => by
    unfold UOp.finishApply at h
    split at h
    · injection h with h; subst h; exact hp
    · rw [construct_get op _ res h]; exact hadd _ _ _ hp hq (construct_supported op _ res h)
  | .select a b c d e f g i j, op, res, hp, hq, h => by
    unfold UOp.finishApply at h
    split at h
    · injection h with h; subst h; exact hp
    · rw [construct_get op _ res h]; exact hadd _ _ _ hp hq (construct_supported op _ res h)

/-! #### arities -/

mutual
theorem Pred.flattenAnd_arityOk : (p : Pred) → (ps : List Pred) → p.flattenAnd = some ps →
    p.arityOk = true → Pred.arityOkList ps = true
  | .and qs, ps, h, ha => by
    simp only [Pred.flattenAnd] at h
    exact Pred.flattenAndList_arityOk qs ps h (by simpa [Pred.arityOk] using ha)
  | .lit true, ps, h, _ => by simp only [Pred.flattenAnd] at h; cases h; rfl
  | .lit false, ps, h, _ => by simp [Pred.flattenAnd] at h
  | .ref t, ps, h, ha => by simp only [Pred.flattenAnd] at h; cases h; simp [Pred.arityOkList, ha]
  | .fn f a s, ps, h, ha => by simp only [Pred.flattenAnd] at h; cases h; simp [Pred.arityOkList, ha]
  | .not p, ps, h, ha => by simp only [Pred.flattenAnd] at h; cases h; simp [Pred.arityOkList, ha]
  | .or qs, ps, h, ha => by simp only [Pred.flattenAnd] at h; cases h; simp [Pred.arityOkList, ha]
  | .inC i c, ps, h, ha => by simp only [Pred.flattenAnd] at h; cases h; simp [Pred.arityOkList, ha]
theorem Pred.flattenAndList_arityOk : (qs : List Pred) → (ps : List Pred) →
    Pred.flattenAndList qs = some ps → Pred.arityOkList qs = true → Pred.arityOkList ps = true
  | [], ps, h, _ => by simp only [Pred.flattenAndList] at h; cases h; rfl
  | q :: qs, ps, h, ha => by
    simp only [Pred.arityOkList, Bool.and_eq_true] at ha
    simp only [Pred.flattenAndList] at h
    cases h1 : Pred.flattenAnd q with
    | none => simp [h1] at h
    | some xs =>
      cases h2 : Pred.flattenAndList qs with
      | none => simp [h1, h2] at h
      | some ys =>
        simp only [h1, h2] at h
        cases h
        have a1 := Pred.flattenAnd_arityOk q xs h1 ha.1
        have a2 := Pred.flattenAndList_arityOk qs ys h2 ha.2
        clear h1 h2
        induction xs with
        | nil => simpa using a2
        | cons x xs ih =>
          simp only [Pred.arityOkList, Bool.and_eq_true] at a1
          simp only [List.cons_append, Pred.arityOkList, Bool.and_eq_true]
          exact ⟨a1.1, ih a1.2⟩
end

theorem Pred.logicalAnd_arityOk (ps : List Pred) (h : Pred.arityOkList ps = true) :
    (Pred.logicalAnd ps).arityOk = true := by
  match ps, h with
  | [], _ => rfl
  | [p], h => simpa [Pred.logicalAnd, Pred.arityOkList] using h
  | p :: q :: rest, h => simpa [Pred.logicalAnd, Pred.arityOk] using h

theorem Pred.normalise_arityOk (p : Pred) (h : p.arityOk = true) : p.normalise.arityOk = true := by
  unfold Pred.normalise
  cases hf : p.flattenAnd with
  | none => exact h
  | some ps => exact Pred.logicalAnd_arityOk ps (Pred.flattenAnd_arityOk p ps hf h)

/-- What the iteration engine needs of an operation it is to execute. -/
def UOp.execOK (op : UOp) : Prop := op.isIdentity = false ∧ op.arityOk = true

theorem simplify_execOK (new up s : UOp) (h : new.simplify up = .ok (.replace s))
    (hn : new.execOK) (hu : up.execOK) : s.execOK := by
  unfold UOp.simplify at h
  cases new with
  | identity => simp at h
  | dedup => simp at h
  | «calc» _ _ => simp at h
  | slice a b =>
    simp only at h
    split at h
    · simp at h
    · cases up <;> simp only [Except.map] at h <;> try (cases h)
      rename_i s0 e0
      obtain ⟨x, y, hxy⟩ : ∃ x y, UOp.sliceThen s0 e0 a b = .ok (.slice x y) := ⟨_, _, sliceThen_eq s0 e0 a b⟩
      rw [hxy] at h
      injection h with h; injection h with h; subst h
      exact ⟨rfl, rfl⟩
  | sort ts =>
    simp only at h
    split at h
    · simp at h
    · cases up <;> try (simp at h)
      rename_i ts0
      subst h
      refine ⟨rfl, ?_⟩
      simp only [UOp.arityOk, List.all_eq_true]
      intro t ht
      have h1 := hn.2
      have h2 := hu.2
      simp only [UOp.arityOk, List.all_eq_true] at h1 h2
      rcases mem_sortThen ts0 ts t ht with hm | hm
      · exact h1 t hm
      · exact h2 t hm
  | sel p =>
    cases up <;> try (simp at h)
    rename_i q
    subst h
    refine ⟨rfl, ?_⟩
    simp only [UOp.mkSel, UOp.arityOk]
    apply Pred.normalise_arityOk
    have h1 := hn.2
    have h2 := hu.2
    simp only [UOp.arityOk] at h1 h2
    simp [Pred.arityOk, Pred.arityOkList, h1, h2]
  | proj c =>
    cases up <;> try (simp at h)
    · rename_i tag ex
      split at h
      · cases h
      · injection h with h; injection h with h; subst h; exact ⟨rfl, rfl⟩
    · subst h; exact ⟨rfl, rfl⟩

theorem finishApply_iterOK (t : Rel) (op : UOp) (res : Res) (ht : t.IterOK) (hop : op.execOK)
    (h : op.finishApply t = .ok res) : (res.get t).IterOK :=
  finishApply_pres Rel.IterOK UOp.execOK UOp.execOK
    (fun up t c hp => by simp only [Rel.IterOK] at hp; exact ⟨hp.1, hp.2⟩)
    (fun op t c hp hq _ => by simp only [Rel.IterOK]; exact ⟨hp, hq⟩)
    simplify_execOK t op res ht hop h

/-! #### key-determined inputs of deduplications -/

theorem simplify_notDedup (new up s : UOp) (h : new.simplify up = .ok (.replace s))
    (_ : new.isDedup = false) (_ : True) : s.isDedup = false := by
  unfold UOp.simplify at h
  cases new with
  | identity => simp at h
  | dedup => simp at h
  | «calc» _ _ => simp at h
  | slice a b =>
    simp only at h
    split at h
    · simp at h
    · cases up <;> simp only [Except.map] at h <;> try (cases h)
      rename_i s0 e0
      obtain ⟨x, y, hxy⟩ : ∃ x y, UOp.sliceThen s0 e0 a b = .ok (.slice x y) := ⟨_, _, sliceThen_eq s0 e0 a b⟩
      rw [hxy] at h
      injection h with h; injection h with h; subst h
      rfl
  | sort ts =>
    simp only at h
    split at h
    · simp at h
    · cases up <;> try (simp at h)
      subst h; rfl
  | sel p =>
    cases up <;> try (simp at h)
    subst h; rfl
  | proj c =>
    cases up <;> try (simp at h)
    · split at h
      · cases h
      · injection h with h; injection h with h; subst h; rfl
    · subst h; rfl

theorem finishApply_kd (σ : Leaves) (t : Rel) (op : UOp) (res : Res) (ht : keyDetermined σ t = true)
    (hop : op.isDedup = false) (h : op.finishApply t = .ok res) :
    keyDetermined σ (res.get t) = true :=
  finishApply_pres (fun r => keyDetermined σ r = true) (fun o => o.isDedup = false) (fun _ => True)
    (fun up t c hp => by
      simp only [keyDetermined, Bool.and_eq_true] at hp
      exact ⟨hp.1, trivial⟩)
    (fun op t c hp hq _ => by
      simp only [keyDetermined, Bool.and_eq_true]
      refine ⟨hp, ?_⟩
      cases op <;> first | rfl | (simp [UOp.isDedup] at hq))
    (fun new up s hs hn _ => simplify_notDedup new up s hs hn trivial) t op res ht hop h

theorem finishApply_dedup (t : Rel) (res : Res) (h : UOp.dedup.finishApply t = .ok res) :
    res.get t = .unary .dedup t t.columns := by
  cases t with
  | unary up t' c =>
    unfold UOp.finishApply at h
    simp only [UOp.noopOn, UOp.simplify] at h
    exact construct_get _ _ res (by simpa using h)
  | leaf a b c d e f g i =>
    unfold UOp.finishApply at h
    simp only [UOp.noopOn] at h
    exact construct_get _ _ res (by simpa using h)
  | binary a b c d =>
    unfold UOp.finishApply at h
    simp only [UOp.noopOn] at h
    exact construct_get _ _ res (by simpa using h)
  | mat a b c =>
    unfold UOp.finishApply at h
    simp only [UOp.noopOn] at h
    exact construct_get _ _ res (by simpa using h)
  | transfer a b c =>
    unfold UOp.finishApply at h
    simp only [UOp.noopOn] at h
    exact construct_get _ _ res (by simpa using h)
  | select a b c d e f g i j =>
    unfold UOp.finishApply at h
    simp only [UOp.noopOn] at h
    exact construct_get _ _ res (by simpa using h)

/-! ### Column sets that are equal as sets -/

theorem UOp.appliedColumns_congr (op : UOp) (c1 c2 : Cols) (h : ∀ x, x ∈ c1 ↔ x ∈ c2) :
    ∀ x, x ∈ op.appliedColumns c1 ↔ x ∈ op.appliedColumns c2 := by
  intro x
  cases op <;> simp only [UOp.appliedColumns, Cols.mem_insert, h]

theorem UOp.sem_congr (op : UOp) (c1 c2 : Cols) (h : ∀ x, x ∈ c1 ↔ x ∈ c2) (rows : List Row) :
    op.sem c1 rows = op.sem c2 rows := by
  cases op <;> simp only [UOp.sem]
  exact firstOcc_congr c1 c2 h rows

theorem wfOn_congr (op : UOp) (c1 c2 : Cols) (h : ∀ x, x ∈ c1 ↔ x ∈ c2) :
    op.wfOn c1 = op.wfOn c2 := by
  have hs : ∀ a : Cols, a.subset c1 = a.subset c2 := by
    intro a
    rw [Bool.eq_iff_iff, Cols.subset_iff, Cols.subset_iff]
    exact ⟨fun g t ht => (h t).mp (g t ht), fun g t ht => (h t).mpr (g t ht)⟩
  unfold UOp.wfOn
  rw [hs]
  cases op <;> simp only [h]

theorem finishApply_identity (t : Rel) : UOp.identity.finishApply t = .ok .same := by
  cases t <;> (unfold UOp.finishApply; simp [UOp.noopOn])

/-- What is true of the tree built for a history. -/
structure Built (σ : Leaves) (eng : Engine) (b : Build) (r : Rel) : Prop where
  wf : r.WF
  truthful : r.Truthful σ
  iterOK : r.IterOK
  kd : keyDetermined σ r = true
  sem_eq : sem σ r = b.direct σ
  cols : ∀ c, c ∈ r.columns ↔ c ∈ b.cols
  engine : r.engine = eng

theorem defaultFuel_eq : defaultFuel = 99998 + 2 := rfl

theorem build_invariant (σ : Leaves) (st : Store) (eng : Engine) (hk : eng.kind = .iter) :
    (b : Build) → (r : Rel) → b.ok σ → b.tree st eng = .ok r → Built σ eng b r
  | .leaf oid cols name mn mx msgs, r, hok, h => by
    simp only [Build.tree] at h
    injection h with h; subst h
    simp only [Build.ok] at hok
    exact ⟨trivial, hok, rfl, rfl, rfl, fun _ => Iff.rfl, rfl⟩
  | .op o b, r, hok, h => by
    simp only [Build.tree] at h
    simp only [Build.ok] at hok
    obtain ⟨hokb, har, hkd⟩ := hok
    cases hb : Build.tree st eng b with
    | error e => simp [hb] at h
    | ok t =>
      simp only [hb] at h
      have ih := build_invariant σ st eng hk b t hokb hb
      have hkt : t.engine.kind = .iter := by rw [ih.engine]; exact hk
      rw [defaultFuel_eq, applyOp_iter st 99998 o t hkt] at h
      cases hbeg : o.beginApply t none with
      | error e => simp [hbeg] at h
      | ok x =>
        obtain ⟨o', e⟩ := x
        simp only [hbeg] at h
        cases hfin : o'.finishApply t with
        | error e => simp [hfin] at h
        | ok res =>
          simp only [hfin] at h
          injection h with h; subst h
          have hcolsEq : ∀ c, c ∈ o.appliedColumns t.columns ↔ c ∈ o.appliedColumns b.cols :=
            UOp.appliedColumns_congr o _ _ ih.cols
          have hsemEq : o.sem (o.appliedColumns t.columns) (sem σ t) = Build.direct σ (.op o b) := by
            simp only [Build.direct]
            rw [UOp.sem_congr o _ _ hcolsEq, ih.sem_eq]
          rcases beginApply_cases o t o' e hbeg with ⟨h1, hwfo⟩ | ⟨h1, hnoop⟩
          · subst h1
            by_cases hidn : o'.isIdentity = true
            · have : o' = .identity := by cases o' <;> simp [UOp.isIdentity] at hidn ⊢
              subst this
              rw [finishApply_identity] at hfin
              injection hfin with hfin; subst hfin
              have f := noop_sound σ .identity t ih.wf ih.truthful rfl
              exact ⟨ih.wf, ih.truthful, ih.iterOK, ih.kd, by rw [← hsemEq]; exact f.sem_eq,
                fun c => (f.cols c).trans (hcolsEq c), ih.engine⟩
            · have hidn' : o'.isIdentity = false := by simpa using hidn
              have f := finishApply_sound σ t o' ih.wf ih.truthful hwfo res hfin
              refine ⟨f.wf, f.truthful, finishApply_iterOK t o' res ih.iterOK ⟨hidn', har⟩ hfin, ?_,
                by rw [← hsemEq]; exact f.sem_eq, fun c => (f.cols c).trans (hcolsEq c),
                f.engine.trans ih.engine⟩
              by_cases hdd : o'.isDedup = true
              · have : o' = .dedup := by cases o' <;> simp [UOp.isDedup] at hdd ⊢
                subst this
                rw [finishApply_dedup t res hfin]
                simp only [keyDetermined, Bool.and_eq_true]
                refine ⟨ih.kd, ?_⟩
                rw [rowsKeyDetermined_congr _ _ ih.cols, ih.sem_eq]
                exact hkd rfl
              · exact finishApply_kd σ t o' res ih.kd (by simpa using hdd) hfin
          · subst h1
            rw [finishApply_identity] at hfin
            injection hfin with hfin; subst hfin
            have f := noop_sound σ o t ih.wf ih.truthful hnoop
            exact ⟨ih.wf, ih.truthful, ih.iterOK, ih.kd, by rw [← hsemEq]; exact f.sem_eq,
              fun c => (f.cols c).trans (hcolsEq c), ih.engine⟩
  | .chain a b, r, hok, h => by
    simp only [Build.tree] at h
    simp only [Build.ok] at hok
    cases ha : Build.tree st eng a with
    | error e => simp [ha] at h
    | ok ta =>
      cases hb : Build.tree st eng b with
      | error e => simp [ha, hb] at h
      | ok tb =>
        simp only [ha, hb] at h
        have iha := build_invariant σ st eng hk a ta hok.1 ha
        have ihb := build_invariant σ st eng hk b tb hok.2 hb
        have hkt : ta.engine.kind = .iter := by rw [iha.engine]; exact hk
        have hfuel : defaultFuel = 99999 + 1 := rfl
        rw [hfuel, binaryApply] at h
        simp only [chainBeginApply, iha.engine, ihb.engine, bne_self_eq_false, Bool.false_eq_true,
          if_false, hk] at h
        by_cases hc : ta.columns.seteq tb.columns = true
        · simp [hc, bind, Except.bind, binaryFinishApply] at h
          subst h
          have hceq := (Cols.seteq_iff _ _).mp hc
          refine ⟨⟨iha.wf, ihb.wf, rfl, hceq⟩, ⟨iha.truthful, ihb.truthful⟩,
            ⟨iha.iterOK, ihb.iterOK, iha.engine.trans ihb.engine.symm, trivial⟩, ?_, ?_, ?_, ?_⟩
          · simp [BRes.get, keyDetermined, iha.kd, ihb.kd]
          · simp [sem, Build.direct, iha.sem_eq, ihb.sem_eq, BRes.get]
          · intro c; simpa [BRes.get, Rel.columns, Build.cols] using iha.cols c
          · simpa [BRes.get, Rel.engine] using iha.engine
        · simp [hc, bind, Except.bind] at h
  | .mat oid name b, r, hok, h => by
    simp only [Build.tree] at h
    simp only [Build.ok] at hok
    cases hb : Build.tree st eng b with
    | error e => simp [hb] at h
    | ok t =>
      simp only [hb] at h
      have ih := build_invariant σ st eng hk b t hok hb
      have hkt : t.engine.kind = .iter := by rw [ih.engine]; exact hk
      have hfuel : defaultFuel = 99999 + 1 := rfl
      rw [hfuel, materialize] at h
      simp only [hkt] at h
      by_cases hm : matSimplify t = true
      · simp only [hm, if_true] at h
        injection h with h; subst h
        exact ⟨ih.wf, ih.truthful, ih.iterOK, ih.kd, ih.sem_eq, ih.cols, ih.engine⟩
      · simp only [hm] at h
        injection h with h; subst h
        exact ⟨ih.wf, ih.truthful, ih.iterOK, ih.kd, ih.sem_eq, ih.cols, ih.engine⟩

end DafRel
