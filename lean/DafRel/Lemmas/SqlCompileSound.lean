/-
**The SELECT the SQL engine emits evaluates to the reference rows.**  For every Good tree whose leaves
(and processed markers) carry table payloads, `_select_to_executable` / `to_payload` produce a query that,
in the SQL evaluation model (`Query.eval`: list semantics of SELECT/JOIN/UNION/DISTINCT/ORDER BY/
OFFSET-LIMIT, validated against SQLite), returns exactly the rows - values, multiplicity, order - of the
reference semantics of the tree.  Mutual induction over the recursion budget of the two functions.
-/
import DafRel.Lemmas.SqlSelectSem
import DafRel.Lemmas.ConformSound

namespace DafRel

variable {I : NodeInv}

theorem hasDup_select (items : List (Tag × SqlExpr)) (frm : From) (wh : List SqlPred) (d : Bool)
    (ob : List (SqlExpr × Bool)) (a : Nat) (b : Option Nat) (h : (Query.select items frm wh d ob a b).hasDup = false) :
    From.hasDup frm = false ∧ (From.names frm).Nodup := by
  simp only [Query.hasDup, Bool.or_eq_false_iff, Bool.not_eq_false', decide_eq_true_eq] at h
  exact h

/-- The joint statement. -/
structure CompileOK (I : NodeInv) (σ : Leaves) (s : SqlState) (fuel : Nat) : Prop where
  select : ∀ S ctr q c, Good I σ S → S.isSelect = true → S.SqlReady s s.tables σ →
    compileSelect s fuel S ctr = .ok (q, c) → q.hasDup = false → (Query.eval s.tables q).rows = sem σ S
  payload : ∀ t ctr p c, Good I σ t → t.SqlReady s s.tables σ → toPayload s fuel t ctr = .ok (p, c) →
    From.hasDup p.frm = false → (From.names p.frm).Nodup → PaySem s.tables p (sem σ t) t.columns

theorem compile_zero (σ : Leaves) (s : SqlState) : CompileOK I σ s 0 :=
  ⟨fun S ctr q c _ _ _ h _ => (by rw [compileSelect] at h; cases h),
   fun t ctr p c _ _ h _ _ => (by rw [toPayload] at h; cases h)⟩

end DafRel

namespace DafRel

variable {I : NodeInv}

theorem payload_step (σ : Leaves) (s : SqlState) (fuel : Nat) (ih : CompileOK I σ s fuel) :
    ∀ t ctr p c, Good I σ t → t.SqlReady s s.tables σ → toPayload s (fuel+1) t ctr = .ok (p, c) →
      From.hasDup p.frm = false → (From.names p.frm).Nodup → PaySem s.tables p (sem σ t) t.columns := by
  intro t ctr p c gt hrd h hdup hnd
  cases t with
  | leaf oid e cols nm mn mx pl ms =>
    unfold toPayload at h
    obtain ⟨p0, hp0, P0⟩ := hrd
    simp only [Rel.payloadSql, Rel.oid, hp0] at h
    injection h with h; injection h with h1 _; subst h1
    exact P0
  | mat oid nm t' =>
    unfold toPayload at h
    obtain ⟨p0, hp0, P0⟩ := hrd
    simp only [Rel.payloadSql, Rel.oid, hp0] at h
    injection h with h; injection h with h1 _; subst h1
    exact P0
  | transfer oid d t' =>
    unfold toPayload at h
    obtain ⟨p0, hp0, P0⟩ := hrd
    simp only [Rel.payloadSql, Rel.oid, hp0] at h
    injection h with h; injection h with h1 _; subst h1
    exact P0
  | select oid so pr dd a b sk ic tg =>
    unfold toPayload at h
    rcases hrd with ⟨hnone, hsk, har, hamb⟩ | ⟨own, hown, Pown⟩
    rotate_left
    · simp only [Rel.payloadSql, Rel.oid, hown] at h
      injection h with h; injection h with h1 _; subst h1
      exact Pown
    simp only [Rel.payloadSql, Rel.oid, hnone] at h
    cases hc : compileSelect s fuel (Rel.select oid so pr dd a b sk ic tg) ctr with
    | error e => simp [hc] at h
    | ok v =>
      obtain ⟨q, c1⟩ := v
      simp only [hc] at h
      injection h with h; injection h with h1 _; subst h1
      have hq : (Query.eval s.tables q).rows = sem σ (Rel.select oid so pr dd a b sk ic tg) :=
        ih.select _ ctr q c1 gt rfl (Or.inl ⟨hnone, hsk, har, hamb⟩) hc (by simpa [From.hasDup] using hdup)
      exact paySem_subquery s.tables _ q _ _ hq gt.rows
  | unary op t' cc =>
    obtain ⟨gt', hwf⟩ := gt.unaryInv
    obtain ⟨hwt, hcc, hopw⟩ := hwf
    obtain ⟨hrd', hao⟩ := hrd
    cases op with
    | «calc» tag e =>
      unfold toPayload at h
      simp only [Rel.payloadSql] at h
      cases h0 : toPayload s fuel t' ctr with
      | error err => simp [h0] at h
      | ok v =>
        obtain ⟨p0, c1⟩ := v
        simp only [h0] at h
        cases hx : convExpr p0.avail e with
        | error err => simp [hx] at h
        | ok x =>
          simp only [hx] at h
          injection h with h; injection h with h1 _; subst h1
          have P0 := ih.payload t' ctr p0 c1 gt' hrd' h0 hdup hnd
          simp only [UOp.wfOn, UOp.columnsRequired, Bool.and_eq_true, decide_eq_true_eq] at hopw
          have := paySem_calc s.tables p0 _ _ tag e x P0 gt'.rows hopw.1 (by simpa [UOp.arityOk] using hao) hx
          simp only [sem, UOp.sem, Rel.columns, hcc, UOp.appliedColumns]
          exact this
    | sel pr =>
      unfold toPayload at h
      simp only [Rel.payloadSql] at h
      cases h0 : toPayload s fuel t' ctr with
      | error err => simp [h0] at h
      | ok v =>
        obtain ⟨p0, c1⟩ := v
        simp only [h0] at h
        cases hw : convFlattened p0.avail pr with
        | error err => simp [hw] at h
        | ok ws =>
          simp only [hw] at h
          injection h with h; injection h with h1 _; subst h1
          have P0 := ih.payload t' ctr p0 c1 gt' hrd' h0 hdup (by simpa using hnd)
          simp only [UOp.wfOn, UOp.columnsRequired, Bool.and_true] at hopw
          have := paySem_sel s.tables p0 _ _ pr ws P0 gt'.rows hopw (by simpa [UOp.arityOk] using hao) hw
          simp only [sem, UOp.sem, Rel.columns, hcc, UOp.appliedColumns]
          exact this
    | dedup => unfold toPayload at h; simp [Rel.payloadSql] at h
    | identity => unfold toPayload at h; simp [Rel.payloadSql] at h
    | proj _ => unfold toPayload at h; simp [Rel.payloadSql] at h
    | slice _ _ => unfold toPayload at h; simp [Rel.payloadSql] at h
    | sort _ => unfold toPayload at h; simp [Rel.payloadSql] at h
  | binary bop l r cc =>
    cases bop with
    | chain => unfold toPayload at h; simp [Rel.payloadSql] at h
    | ignoreOne il => unfold toPayload at h; simp [Rel.payloadSql] at h
    | join j =>
      unfold toPayload at h
      simp only [Rel.payloadSql] at h
      obtain ⟨gl, gr, hwf, hpc⟩ := gt.joinInv
      obtain ⟨hwl, hwr, hcc, hml, hmr⟩ := hwf
      obtain ⟨hrl, hrr, hja, hjr⟩ := hrd
      cases h1 : toPayload s fuel l ctr with
      | error err => simp [h1] at h
      | ok v1 =>
        obtain ⟨pl, c1⟩ := v1
        simp only [h1] at h
        cases h2 : toPayload s fuel r c1 with
        | error err => simp [h2] at h
        | ok v2 =>
          obtain ⟨pr, c2⟩ := v2
          simp only [h2, JoinOp.commonColumns, hjr, if_true] at h
          cases hoc : j.minCols.mapM (onCommonTerm pl.avail pr.avail) with
          | none => simp [hoc] at h
          | some oc =>
            simp only [hoc] at h
            cases hex : joinExtra (availMerge pl.avail pr.avail) j.pred with
            | error err => simp [hex] at h
            | ok ex =>
              simp only [hex] at h
              injection h with h; injection h with hp _; subst hp
              simp only [From.hasDup, Bool.or_eq_false_iff] at hdup
              simp only [From.names] at hnd
              have hnd' := List.nodup_append.mp hnd
              have Pl := ih.payload l ctr pl c1 gl hrl h1 hdup.1 hnd'.1
              have Pr := ih.payload r c1 pr c2 gr hrr h2 hdup.2 hnd'.2.1
              have hd : ∀ s', s' ∈ From.names pl.frm → s' ∉ From.names pr.frm :=
                fun s' h1' h2' => hnd'.2.2 s' h1' s' h2' rfl
              have := paySem_join s.tables pl pr _ _ _ _ Pl Pr gl.rows gr.rows hd j.minCols
                ((Cols.subset_iff _ _).mp hml) ((Cols.subset_iff _ _).mp hmr) oc hoc j.pred hja hpc ex hex
              simp only [sem, Rel.columns, hcc]
              exact this

end DafRel

namespace DafRel

variable {I : NodeInv}

/-- The payload of an atom (leaf, materialization, transfer) that holds one. -/
theorem atom_payload (σ : Leaves) (s : SqlState) (t : Rel) (p : SqlPayload) (hrd : t.SqlReady s s.tables σ)
    (h : t.payloadSql s = some p) : PaySem s.tables p (sem σ t) t.columns := by
  cases t with
  | leaf oid e cols nm mn mx pl ms =>
    obtain ⟨p0, hp0, P0⟩ := hrd
    simp only [Rel.payloadSql, Rel.oid, hp0, Option.some.injEq] at h
    subst h; exact P0
  | mat oid nm t' =>
    obtain ⟨p0, hp0, P0⟩ := hrd
    simp only [Rel.payloadSql, Rel.oid, hp0, Option.some.injEq] at h
    subst h; exact P0
  | transfer oid d t' =>
    obtain ⟨p0, hp0, P0⟩ := hrd
    simp only [Rel.payloadSql, Rel.oid, hp0, Option.some.injEq] at h
    subst h; exact P0
  | select oid so pr dd a b sk ic tg =>
    rcases hrd with ⟨hnone, _⟩ | ⟨own, hown, Pown⟩
    · simp [Rel.payloadSql, Rel.oid, hnone] at h
    · simp only [Rel.payloadSql, Rel.oid, hown, Option.some.injEq] at h
      subst h; exact Pown
  | unary => simp [Rel.payloadSql] at h
  | binary => simp [Rel.payloadSql] at h

theorem select_step (σ : Leaves) (s : SqlState) (fuel : Nat) (ih : CompileOK I σ s fuel) :
    ∀ S ctr q c, Good I σ S → S.isSelect = true → S.SqlReady s s.tables σ →
      compileSelect s (fuel+1) S ctr = .ok (q, c) → q.hasDup = false → (Query.eval s.tables q).rows = sem σ S := by
  intro S ctr q c gS hs hrd h hdup
  obtain ⟨hS, gk⟩ := gS.selInv hs
  cases S with
  | select oid so pr dd a b sk ic tg =>
    rcases hrd with ⟨hnone, hsk, har, hamb⟩ | ⟨own, hown, Pown⟩
    rotate_left
    · -- a payload attached to the Select itself
      unfold compileSelect at h
      simp only [hown] at h
      cases hit : tg.columns.mapM (fun t => (SqlPayload.lookup own.avail t).map (fun e => (t, e))) with
      | none => simp [hit] at h
      | some items0 =>
        simp only [hit] at h
        injection h with h; injection h with hq _; subst hq
        have := select_level_sem s.tables own _ tg.columns ({} : Slots) tg.columns items0 [] Pown gS.rows
          (Slots.empty_wfOn _) (fun _ => Iff.rfl) hit rfl (fun t ht => by cases ht) (fun hd => by cases hd)
        rw [Slots.empty_sem] at this
        exact this
    have hslots : (Rel.select oid so pr dd a b sk ic tg).slots = ⟨so, pr, dd, a, b⟩ := rfl
    have hskip : (Rel.select oid so pr dd a b sk ic tg).skipTo = sk := rfl
    rw [hS.sem_eq, hslots, hskip]
    unfold compileSelect at h
    simp only [hnone] at h
    split at h
    · -- a UNION [ALL] of two Selects
      rename_i l r cc
      split at h
      · rename_i o1 s1 p1 d1 a1 b1 k1 i1 t1 o2 s2 p2 d2 a2 b2 k2 i2 t2
        have hgc := (hskip ▸ gk : Good I σ (.binary .chain _ _ cc)).chainInv
        obtain ⟨hr1, hr2, _⟩ := hsk
        cases hl : compileSelect s fuel (Rel.select o1 s1 p1 d1 a1 b1 k1 i1 t1) ctr with
        | error e => simp [hl] at h
        | ok v1 =>
          obtain ⟨ql, c1⟩ := v1
          simp only [hl] at h
          cases hr : compileSelect s fuel (Rel.select o2 s2 p2 d2 a2 b2 k2 i2 t2) c1 with
          | error e => simp [hr] at h
          | ok v2 =>
            obtain ⟨qr, c2⟩ := v2
            simp only [hr] at h
            cases hob : so.mapM (fun t => (convExpr (subAvail "" (Rel.binary .chain
                (Rel.select o1 s1 p1 d1 a1 b1 k1 i1 t1) (Rel.select o2 s2 p2 d2 a2 b2 k2 i2 t2) cc).columns) t.expr).map
                (fun e => (e, t.asc))) with
            | error e => simp [hob] at h
            | ok ob =>
              simp only [hob] at h
              injection h with h; injection h with hq _; subst hq
              simp only [Query.hasDup, Bool.or_eq_false_iff] at hdup
              have e1 := ih.select _ ctr ql c1 hgc.1 rfl hr1 hl hdup.1
              have e2 := ih.select _ c1 qr c2 hgc.2 rfl hr2 hr hdup.2
              have hpn : pr = none := by
                have := hS.compoundProj (by rw [hS.compound]; rfl)
                simpa [hslots] using this
              have hsw : (⟨so, pr, dd, a, b⟩ : Slots).wfOn
                  (Rel.binary .chain (Rel.select o1 s1 p1 d1 a1 b1 k1 i1 t1) (Rel.select o2 s2 p2 d2 a2 b2 k2 i2 t2) cc).columns := by
                have := hS.slotsWF; rw [hslots, hskip] at this; exact this
              have := compound_level_sem s.tables ql qr _ _ (⟨so, pr, dd, a, b⟩ : Slots) ob
                (by rw [e1, e2]; rfl) gk.rows hsw hpn hob har
              exact this
      · cases h
    · -- one query level over the skip target's payload
      rename_i hnotchain
      split at h
      · cases h
      rename_i p c1 hp
      cases hit : tg.columns.mapM (fun t => (SqlPayload.lookup p.avail t).map (fun e => (t, e))) with
      | none => simp [hit] at h
      | some items0 =>
        simp only [hit] at h
        cases hob : so.mapM (fun t => (convExpr p.avail t.expr).map (fun e => (e, t.asc))) with
        | error e => simp [hob] at h
        | ok ob =>
          simp only [hob] at h
          injection h with h; injection h with hq _; subst hq
          obtain ⟨hd1, hd2⟩ := hasDup_select _ _ _ _ _ _ _ hdup
          -- the payload of the skip target stands for its rows
          have P : PaySem s.tables p (sem σ sk) sk.columns := by
            cases hps : sk.payloadSql s with
            | some p0 =>
              simp only [hps] at hp
              injection hp with hp; injection hp with hp1 _; subst hp1
              exact atom_payload σ s sk p0 hsk hps
            | none =>
              simp only [hps] at hp
              exact ih.payload sk ctr p c1 (hskip ▸ gk) hsk hp hd1 hd2
          have hsw : (⟨so, pr, dd, a, b⟩ : Slots).wfOn sk.columns := by
            have := hS.slotsWF; rw [hslots, hskip] at this; exact this
          have htc : ∀ t, t ∈ tg.columns ↔ t ∈ (⟨so, pr, dd, a, b⟩ : Slots).columns sk.columns := by
            intro t; have := hS.cols t; rw [hslots, hskip] at this; exact this
          exact select_level_sem s.tables p _ sk.columns (⟨so, pr, dd, a, b⟩ : Slots) tg.columns items0 ob P
            (hskip ▸ gk : Good I σ sk).rows hsw htc hit hob har
            (fun hdd => (Cols.subset_iff _ _).mpr fun t ht =>
              (htc t).mp ((Cols.subset_iff _ _).mp (hamb hdd) t ht))
  | leaf => simp [Rel.isSelect] at hs
  | unary => simp [Rel.isSelect] at hs
  | binary => simp [Rel.isSelect] at hs
  | mat => simp [Rel.isSelect] at hs
  | transfer => simp [Rel.isSelect] at hs

/-- **The emitted SELECT evaluates to the reference rows**, for every recursion budget. -/
theorem compile_sound (σ : Leaves) (s : SqlState) : ∀ fuel, CompileOK I σ s fuel
  | 0 => compile_zero σ s
  | fuel+1 =>
    let ih := compile_sound σ s fuel
    ⟨select_step σ s fuel ih, payload_step σ s fuel ih⟩

end DafRel
