/-
`UnaryOperation.apply` with any preferred-engine options on a target that lives in a SQL engine:
the SQL engine does not back-track, so the call is `_begin_apply`, an optional transfer and
`append_unary` in the target's or the preferred engine.
-/
import DafRel.Lemmas.Backtrack
import DafRel.Lemmas.SqlTransfer

namespace DafRel


theorem backtrack_sql (st : Store) (fuel : Nat) (op : AnyOp) (t : Rel) (pref : Engine) (hk : t.engine.kind = .sql) :
    backtrack st (fuel+1) op t pref = .ok (.same, false) := by
  rw [backtrack.eq_def]
  simp only [hk]

/-- **`apply` on a SQL-engine target is sound for every option combination.** -/
theorem applyOp_sql_target_sound (σ : Leaves) (st : Store) (fuel : Nat) (o : UOp) (t : Rel) (opts : Opts) (res : Res)
    (hwf : t.WF) (htr : t.Truthful σ) (hraw : t.RawSql)
    (hs : ∀ p, opts.pref = some p → transferSimplify p t = none)
    (h : applyOp st (fuel+1) (.u o) t opts = .ok res) : ApplyOK σ o t (res.get t) opts := by
  have hkt : t.engine.kind = .sql := Rel.RawSql.engine t hraw
  have gt : Good NodeInv.triv σ t := raw_good σ t hwf htr hraw
  rw [applyOp_eq_spec] at h
  unfold applyOpSpec at h
  cases hb : o.beginApply t opts.pref with
  | error e => simp [hb] at h
  | ok v =>
    obtain ⟨o', pref⟩ := v
    simp only [hb] at h
    obtain ⟨hcases, hpref⟩ := beginApply_cases' o t opts.pref o' pref hb
    have ho'wf : o'.wfOn t.columns = true := by
      rcases hcases with ⟨h1, h2⟩ | ⟨h1, _⟩
      · rw [h1]; exact h2
      · rw [h1]; rfl
    apply applyOK_of_begin σ o o' t _ opts hwf htr hcases
    -- the final `append_unary` on a relation `x` with the right content
    have finish : ∀ (base : Res) (x : Rel) (r : Res), base.get t = x → x.WF → x.Truthful σ →
        (x.engine.kind = .sql → Good NodeInv.triv σ x) → o'.wfOn x.columns = true →
        sem σ x = sem σ t → (∀ c, c ∈ x.columns ↔ c ∈ t.columns) →
        (x.engine = t.engine ∨ (opts.transfer = true ∧ opts.pref = some x.engine)) →
        (match appendUnary st fuel (.u o') x with
          | .error e => (.error e : Except Err Res)
          | .ok .same => .ok base
          | .ok (.new y) => .ok (.new y)) = .ok r → ApplyOK σ o' t (r.get t) opts := by
      intro base x r hbx hxwf hxtr hxg hxop hxsem hxcols hxeng hr
      cases ha : appendUnary st fuel (.u o') x with
      | error e => simp [ha] at hr
      | ok ra =>
        have hget : r.get t = ra.get x := by
          cases ra with
          | same => simp only [ha] at hr; injection hr with hr; subst hr; simpa [Res.get] using hbx
          | new y => simp only [ha] at hr; injection hr with hr; subst hr; rfl
        have F : FinishOK σ o' x (ra.get x) := by
          cases hxk : x.engine.kind with
          | iter =>
            exact finishApply_sound σ x o' hxwf hxtr hxop ra (appendUnary_iter st fuel o' x ra hxk ha)
          | sql => exact ((treeBuild_sound σ st fuel).appendUnary o' x ra (hxg hxk) hxop ha).2.1
        rw [hget]
        refine ⟨?_, fun c => (F.cols c).trans (UOp.appliedColumns_congr o' _ _ hxcols c), F.wf, F.truthful, ?_⟩
        · rw [F.sem_eq, hxsem]
          exact UOp.sem_congr o' _ _ (UOp.appliedColumns_congr o' _ _ hxcols) _
        · rw [F.engine]; exact hxeng
    by_cases he : (pref == t.engine) = true
    · simp only [he, if_true] at h
      exact finish .same t res rfl hwf htr (fun _ => gt) ho'wf rfl (fun _ => Iff.rfl) (Or.inl rfl) h
    · simp only [he, Bool.false_eq_true, if_false] at h
      cases fuel with
      | zero =>
        -- no budget left for the back-tracking / append step
        exfalso
        by_cases hbk : opts.backtrack = true
        · simp [hbk, backtrack] at h
        · simp only [hbk, Bool.false_eq_true, if_false] at h
          by_cases htrf : opts.transfer = true
          · simp [htrf, transferTo] at h
          · simp only [htrf, Bool.false_eq_true, if_false] at h
            by_cases hrq : opts.require = true
            · simp [hrq] at h
            · simp [hrq, appendUnary] at h
      | succ fuel =>
        have hbt : (if opts.backtrack = true then backtrack st (fuel+1) (.u o') t pref else .ok (.same, false)) =
            .ok (.same, false) := by
          split
          · exact backtrack_sql st fuel _ t pref hkt
          · rfl
        simp only [hbt] at h
        by_cases htrf : opts.transfer = true
        · simp only [htrf, if_true, Res.get] at h
          have hpo : opts.pref = some pref := by
            rcases hpref with h1 | h1
            · exact absurd (by simp [h1]) he
            · exact h1
          cases htt : transferTo st (fuel+1) pref t with
          | error e => simp [htt] at h
          | ok r2 =>
            simp only [htt] at h
            obtain ⟨t1, t2, t3, t4, t5, _, t7⟩ :=
              transferTo_sql_sound σ st (fuel+1) pref t r2 hwf htr (fun _ => hraw) (hs pref hpo) htt
            have hne : t.engine ≠ pref := fun hq => he (by simp [hq])
            have hx : ∀ (base : Res), base.get t = r2.get t →
                (match appendUnary st (fuel+1) (.u o') (r2.get t) with
                  | .error e => (.error e : Except Err Res)
                  | .ok .same => .ok base
                  | .ok (.new y) => .ok (.new y)) = .ok res → ApplyOK σ o' t (res.get t) opts := by
              intro base hbase hr
              refine finish base _ res hbase t3 t4 (fun hq => t7 (by rw [← t5 hne]; exact hq))
                (by rw [wfOn_congr o' _ _ t2]; exact ho'wf) t1 t2 ?_ hr
              right
              exact ⟨htrf, by rw [t5 hne]; exact hpo⟩
            cases r2 with
            | same => exact hx .same rfl h
            | new y => exact hx (.new y) rfl h
        · simp only [htrf, Bool.false_eq_true, if_false] at h
          by_cases hrq : opts.require = true
          · simp [hrq] at h
          · simp only [hrq, Bool.false_eq_true, if_false, Res.get] at h
            exact finish .same t res rfl hwf htr (fun _ => gt) ho'wf rfl (fun _ => Iff.rfl) (Or.inl rfl) h

end DafRel

namespace DafRel


/-- **`apply` on an iteration-engine target with a preferred engine of EITHER family, back-tracking
allowed, no transfer** (the default `transfer=False`): back-tracking may insert the operation below a
transfer that leads into a SQL engine, where the SQL engine's own `apply` takes over. -/
theorem applyOp_iter_target_anypref_sound (σ : Leaves) (st : Store) (fuel : Nat) (o : UOp) (t : Rel) (opts : Opts)
    (res : Res) (hkt : t.engine.kind = .iter) (hwf : t.WF) (htr : t.Truthful σ)
    (hnd : o.isProj = true → t.spineNoDedup) (hpo : ∀ p, opts.pref = some p → t.prefTargetsGood NodeInv.triv σ p)
    (htf : opts.transfer = false)
    (h : applyOp st (fuel+1) (.u o) t opts = .ok res) : ApplyOK σ o t (res.get t) opts := by
  rw [applyOp_eq_spec] at h
  unfold applyOpSpec at h
  cases hb : o.beginApply t opts.pref with
  | error e => simp [hb] at h
  | ok v =>
    obtain ⟨o', pref⟩ := v
    simp only [hb] at h
    obtain ⟨hcases, hpref⟩ := beginApply_cases' o t opts.pref o' pref hb
    have ho'wf : o'.wfOn t.columns = true := by
      rcases hcases with ⟨h1, h2⟩ | ⟨h1, _⟩
      · rw [h1]; exact h2
      · rw [h1]; rfl
    have ho'nd : o'.isProj = true → t.spineNoDedup := by
      intro hp
      rcases hcases with ⟨h1, _⟩ | ⟨h1, _⟩
      · rw [h1] at hp; exact hnd hp
      · rw [h1] at hp; simp [UOp.isProj] at hp
    apply applyOK_of_begin σ o o' t _ opts hwf htr hcases
    have finish : ∀ (base : Res) (x : Rel) (r : Res), base.get t = x → x.engine.kind = .iter → x.WF → x.Truthful σ →
        o'.wfOn x.columns = true →
        o'.sem (o'.appliedColumns x.columns) (sem σ x) = o'.sem (o'.appliedColumns t.columns) (sem σ t) →
        (∀ c, c ∈ o'.appliedColumns x.columns ↔ c ∈ o'.appliedColumns t.columns) →
        x.engine = t.engine →
        (match appendUnary st fuel (.u o') x with
          | .error e => (.error e : Except Err Res)
          | .ok .same => .ok base
          | .ok (.new y) => .ok (.new y)) = .ok r → ApplyOK σ o' t (r.get t) opts := by
      intro base x r hbx hxk hxwf hxtr hxop hxsem hxcols hxeng hr
      cases ha : appendUnary st fuel (.u o') x with
      | error e => simp [ha] at hr
      | ok ra =>
        have hfa := appendUnary_iter st fuel o' x ra hxk ha
        have F := finishApply_sound σ x o' hxwf hxtr hxop ra hfa
        have hget : r.get t = ra.get x := by
          cases ra with
          | same => simp only [ha] at hr; injection hr with hr; subst hr; simpa [Res.get] using hbx
          | new y => simp only [ha] at hr; injection hr with hr; subst hr; rfl
        rw [hget]
        exact ⟨by rw [F.sem_eq]; exact hxsem, fun c => (F.cols c).trans (hxcols c), F.wf, F.truthful,
          Or.inl (by rw [F.engine]; exact hxeng)⟩
    by_cases he : (pref == t.engine) = true
    · simp only [he, if_true] at h
      exact finish .same t res rfl hkt hwf htr ho'wf rfl (fun _ => Iff.rfl) rfl h
    · simp only [he, Bool.false_eq_true, if_false] at h
      have hpo' : t.prefTargetsGood NodeInv.triv σ pref := by
        rcases hpref with h1 | h1
        · exact absurd (by simp [h1]) he
        · exact hpo pref h1
      have hbt : ∀ (r1 : Res) (d : Bool),
          (if opts.backtrack = true then backtrack st fuel (.u o') t pref else .ok (.same, false)) = .ok (r1, d) →
          BTok σ o' t (r1.get t) d := by
        intro r1 d hr
        by_cases hbk : opts.backtrack = true
        · simp only [hbk, if_true] at hr
          exact backtrack_sound σ st pref fuel o' t r1 d hwf htr ho'wf ho'nd hpo' hr
        · simp only [hbk, Bool.false_eq_true, if_false] at hr
          injection hr with hr; injection hr with h1 h2; subst h1; subst h2
          exact BTok.unchanged σ o' t hwf htr ho'wf
      cases hbtv : (if opts.backtrack = true then backtrack st fuel (.u o') t pref else .ok (.same, false)) with
      | error e => simp [hbtv] at h
      | ok v1 =>
        obtain ⟨r1, d⟩ := v1
        have B := hbt r1 d hbtv
        simp only [hbtv] at h
        cases d with
        | true =>
          simp only at h
          injection h with h; subst h
          obtain ⟨e1, e2⟩ := B.done_sound rfl
          exact ⟨e1, e2, B.wf, B.truthful, Or.inl B.engine⟩
        | false =>
          simp only [htf, Bool.false_eq_true, if_false] at h
          obtain ⟨p1, p2⟩ := B.pend_sound rfl
          have hk1 : (r1.get t).engine.kind = .iter := by rw [B.engine]; exact hkt
          by_cases hrq : opts.require = true
          · simp [hrq] at h
          · simp only [hrq, Bool.false_eq_true, if_false] at h
            exact finish r1 _ res rfl hk1 B.wf B.truthful (B.pend_wf rfl) p1 p2 B.engine h

/-- **`apply` on an iteration-engine target with a preferred engine of EITHER family, `transfer=True` without
back-tracking** (and, as before, back-tracking without transfer): the target is transferred to the preferred engine -
into a database: `conform(Transfer(target))` - and the operation is applied there by that engine's own `apply`.
Generalises `applyOp_iter_target_anypref_sound`: back-tracking may insert the operation below a
transfer that leads into a SQL engine, where the SQL engine's own `apply` takes over. -/
theorem applyOp_iter_target_transfer_sound (σ : Leaves) (st : Store) (fuel : Nat) (o : UOp) (t : Rel) (opts : Opts)
    (res : Res) (hkt : t.engine.kind = .iter) (hwf : t.WF) (htr : t.Truthful σ)
    (hnd : o.isProj = true → t.spineNoDedup) (hpo : ∀ p, opts.pref = some p → t.prefTargetsGood NodeInv.triv σ p)
    (htf : opts.transfer = true → opts.backtrack = false ∧ ∀ p, opts.pref = some p → transferSimplify p t = none)
    (h : applyOp st (fuel+1) (.u o) t opts = .ok res) : ApplyOK σ o t (res.get t) opts := by
  rw [applyOp_eq_spec] at h
  unfold applyOpSpec at h
  cases hb : o.beginApply t opts.pref with
  | error e => simp [hb] at h
  | ok v =>
    obtain ⟨o', pref⟩ := v
    simp only [hb] at h
    obtain ⟨hcases, hpref⟩ := beginApply_cases' o t opts.pref o' pref hb
    have ho'wf : o'.wfOn t.columns = true := by
      rcases hcases with ⟨h1, h2⟩ | ⟨h1, _⟩
      · rw [h1]; exact h2
      · rw [h1]; rfl
    have ho'nd : o'.isProj = true → t.spineNoDedup := by
      intro hp
      rcases hcases with ⟨h1, _⟩ | ⟨h1, _⟩
      · rw [h1] at hp; exact hnd hp
      · rw [h1] at hp; simp [UOp.isProj] at hp
    apply applyOK_of_begin σ o o' t _ opts hwf htr hcases
    have finish : ∀ (base : Res) (x : Rel) (r : Res), base.get t = x → x.engine.kind = .iter → x.WF → x.Truthful σ →
        o'.wfOn x.columns = true →
        o'.sem (o'.appliedColumns x.columns) (sem σ x) = o'.sem (o'.appliedColumns t.columns) (sem σ t) →
        (∀ c, c ∈ o'.appliedColumns x.columns ↔ c ∈ o'.appliedColumns t.columns) →
        x.engine = t.engine →
        (match appendUnary st fuel (.u o') x with
          | .error e => (.error e : Except Err Res)
          | .ok .same => .ok base
          | .ok (.new y) => .ok (.new y)) = .ok r → ApplyOK σ o' t (r.get t) opts := by
      intro base x r hbx hxk hxwf hxtr hxop hxsem hxcols hxeng hr
      cases ha : appendUnary st fuel (.u o') x with
      | error e => simp [ha] at hr
      | ok ra =>
        have hfa := appendUnary_iter st fuel o' x ra hxk ha
        have F := finishApply_sound σ x o' hxwf hxtr hxop ra hfa
        have hget : r.get t = ra.get x := by
          cases ra with
          | same => simp only [ha] at hr; injection hr with hr; subst hr; simpa [Res.get] using hbx
          | new y => simp only [ha] at hr; injection hr with hr; subst hr; rfl
        rw [hget]
        exact ⟨by rw [F.sem_eq]; exact hxsem, fun c => (F.cols c).trans (hxcols c), F.wf, F.truthful,
          Or.inl (by rw [F.engine]; exact hxeng)⟩
    by_cases he : (pref == t.engine) = true
    · simp only [he, if_true] at h
      exact finish .same t res rfl hkt hwf htr ho'wf rfl (fun _ => Iff.rfl) rfl h
    · simp only [he, Bool.false_eq_true, if_false] at h
      have hpo' : t.prefTargetsGood NodeInv.triv σ pref := by
        rcases hpref with h1 | h1
        · exact absurd (by simp [h1]) he
        · exact hpo pref h1
      have hbt : ∀ (r1 : Res) (d : Bool),
          (if opts.backtrack = true then backtrack st fuel (.u o') t pref else .ok (.same, false)) = .ok (r1, d) →
          BTok σ o' t (r1.get t) d := by
        intro r1 d hr
        by_cases hbk : opts.backtrack = true
        · simp only [hbk, if_true] at hr
          exact backtrack_sound σ st pref fuel o' t r1 d hwf htr ho'wf ho'nd hpo' hr
        · simp only [hbk, Bool.false_eq_true, if_false] at hr
          injection hr with hr; injection hr with h1 h2; subst h1; subst h2
          exact BTok.unchanged σ o' t hwf htr ho'wf
      cases hbtv : (if opts.backtrack = true then backtrack st fuel (.u o') t pref else .ok (.same, false)) with
      | error e => simp [hbtv] at h
      | ok v1 =>
        obtain ⟨r1, d⟩ := v1
        have B := hbt r1 d hbtv
        simp only [hbtv] at h
        cases d with
        | true =>
          simp only at h
          injection h with h; subst h
          obtain ⟨e1, e2⟩ := B.done_sound rfl
          exact ⟨e1, e2, B.wf, B.truthful, Or.inl B.engine⟩
        | false =>
          obtain ⟨p1, p2⟩ := B.pend_sound rfl
          have hk1 : (r1.get t).engine.kind = .iter := by rw [B.engine]; exact hkt
          by_cases htrf : opts.transfer = true
          · obtain ⟨hnb, hsimp⟩ := htf htrf
            have hpo : opts.pref = some pref := by
              rcases hpref with h1 | h1
              · exact absurd (by simp [h1]) he
              · exact h1
            -- no back-tracking: the tree handed to the transfer is the target itself
            have hr1 : r1 = .same := by
              simp only [hnb, Bool.false_eq_true, if_false] at hbtv
              injection hbtv with hbtv; injection hbtv with h1 _; exact h1.symm
            subst hr1
            simp only [htrf, if_true, Res.get] at h
            cases htt : transferTo st fuel pref t with
            | error e => simp [htt] at h
            | ok r2 =>
              simp only [htt] at h
              obtain ⟨t1, t2, t3, t4, t5, _, t7⟩ :=
                transferTo_sql_sound σ st fuel pref t r2 hwf htr (fun hq => by rw [hkt] at hq; cases hq)
                  (hsimp pref hpo) htt
              have hne : t.engine ≠ pref := fun hq => he (by simp [hq])
              have hx : ∀ (base : Res), base.get t = r2.get t →
                  (match appendUnary st fuel (.u o') (r2.get t) with
                    | .error e => (.error e : Except Err Res)
                    | .ok .same => .ok base
                    | .ok (.new y) => .ok (.new y)) = .ok res → ApplyOK σ o' t (res.get t) opts := by
                intro base hbase hr
                cases ha : appendUnary st fuel (.u o') (r2.get t) with
                | error e => simp [ha] at hr
                | ok ra =>
                  have hget : res.get t = ra.get (r2.get t) := by
                    cases ra with
                    | same => simp only [ha] at hr; injection hr with hr; subst hr; simpa [Res.get] using hbase
                    | new y => simp only [ha] at hr; injection hr with hr; subst hr; rfl
                  have hxop : o'.wfOn (r2.get t).columns = true := by rw [wfOn_congr o' _ _ t2]; exact ho'wf
                  have F : FinishOK σ o' (r2.get t) (ra.get (r2.get t)) := by
                    cases hxk : (r2.get t).engine.kind with
                    | iter =>
                      exact finishApply_sound σ _ o' t3 t4 hxop ra (appendUnary_iter st fuel o' _ ra hxk ha)
                    | sql =>
                      exact ((treeBuild_sound σ st fuel).appendUnary o' _ ra
                        (t7 (by rw [← t5 hne]; exact hxk)) hxop ha).2.1
                  rw [hget]
                  refine ⟨?_, fun c => (F.cols c).trans (UOp.appliedColumns_congr o' _ _ t2 c), F.wf, F.truthful, ?_⟩
                  · rw [F.sem_eq, t1]
                    exact UOp.sem_congr o' _ _ (UOp.appliedColumns_congr o' _ _ t2) _
                  · right
                    exact ⟨htrf, by rw [F.engine, t5 hne]; exact hpo⟩
              cases r2 with
              | same => exact hx .same rfl h
              | new y => exact hx (.new y) rfl h
          · simp only [htrf, Bool.false_eq_true, if_false] at h
            by_cases hrq : opts.require = true
            · simp [hrq] at h
            · simp only [hrq, Bool.false_eq_true, if_false] at h
              exact finish r1 _ res rfl hk1 B.wf B.truthful (B.pend_wf rfl) p1 p2 B.engine h

end DafRel
