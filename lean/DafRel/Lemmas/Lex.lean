/-
The lexicographic comparator `lexLe` of a list of sort terms: it is a total preorder, it
decomposes as `lexOf (term comparator) (rest)`, sorting by `ts2 ++ ts1` is sorting by `ts1` and
then stably by `ts2`, later duplicate terms are irrelevant (`Sort.then`), and the iteration
engine's multi-pass sort equals one stable sort by `lexLe`.
-/
import DafRel.Lemmas.Sort
import DafRel.Lemmas.Expr
import DafRel.Model.IterExec

namespace DafRel

/-- Comparator of a single sort term. -/
def termLe (t : SortTerm) (a b : Row) : Bool :=
  if t.asc then decide (t.expr.val a ≤ t.expr.val b) else decide (t.expr.val a ≥ t.expr.val b)

theorem termLe_total (t : SortTerm) : Total (termLe t) := by
  intro a b
  unfold termLe
  split <;> simp <;> omega

theorem termLe_trans (t : SortTerm) : Trans (termLe t) := by
  intro a b c
  unfold termLe
  split <;> simp <;> omega

theorem lexLe_cons (t : SortTerm) (ts : List SortTerm) (a b : Row) :
    lexLe (t :: ts) a b = lexOf (termLe t) (lexLe ts) a b := by
  simp only [lexLe, lexOf, termLe]
  by_cases h : t.expr.val a = t.expr.val b
  · simp [h]
  · cases hasc : t.asc
    · simp only [h, if_false, Bool.false_eq_true, ge_iff_le]
      by_cases h1 : t.expr.val b ≤ t.expr.val a
      · have h2 : ¬ t.expr.val a ≤ t.expr.val b := by omega
        have h3 : t.expr.val a > t.expr.val b := by omega
        simp [h1, h2, h3]
      · have h3 : ¬ t.expr.val a > t.expr.val b := by omega
        simp [h1, h3]
    · simp only [h, if_false, if_true]
      by_cases h1 : t.expr.val a ≤ t.expr.val b
      · have h2 : ¬ t.expr.val b ≤ t.expr.val a := by omega
        have h3 : t.expr.val a < t.expr.val b := by omega
        simp [h1, h2, h3]
      · have h3 : ¬ t.expr.val a < t.expr.val b := by omega
        simp [h1, h3]

theorem lexLe_nil (a b : Row) : lexLe [] a b = true := rfl

theorem lexLe_total : (ts : List SortTerm) → Total (lexLe ts)
  | [] => fun _ _ => Or.inl rfl
  | t :: ts => by
    have := lexOf_total (termLe_total t) (lexLe_total ts)
    intro a b
    rw [lexLe_cons, lexLe_cons]
    exact this a b

theorem lexLe_trans : (ts : List SortTerm) → Trans (lexLe ts)
  | [] => fun _ _ _ _ _ => rfl
  | t :: ts => by
    have := lexOf_trans (termLe_total t) (termLe_trans t) (lexLe_trans ts)
    intro a b c
    rw [lexLe_cons, lexLe_cons, lexLe_cons]
    exact this a b c

theorem isort_lexLe_cons (t : SortTerm) (ts : List SortTerm) (l : List Row) :
    isort (lexLe (t :: ts)) l = isort (termLe t) (isort (lexLe ts) l) := by
  rw [isort_isort_lex (termLe_total t) (termLe_trans t) (lexLe_total ts) (lexLe_trans ts)]
  apply isort_congr
  intro a b _ _
  exact lexLe_cons t ts a b

/-- Sorting by `ts1` and then (stably) by `ts2` is sorting by `ts2 ++ ts1`. -/
theorem isort_lexLe_append (ts2 ts1 : List SortTerm) (l : List Row) :
    isort (lexLe ts2) (isort (lexLe ts1) l) = isort (lexLe (ts2 ++ ts1)) l := by
  induction ts2 generalizing l with
  | nil =>
    have : isort (lexLe []) (isort (lexLe ts1) l) = isort (fun _ _ => true) (isort (lexLe ts1) l) := by
      apply isort_congr; intros; rfl
    rw [this, isort_true]; rfl
  | cons t ts ih =>
    rw [isort_lexLe_cons, ih, List.cons_append, isort_lexLe_cons]

/-! ### Duplicate terms -/

mutual
theorem Expr.beq_val (r : Row) : (a b : Expr) → Expr.beq a b = true → a.val r = b.val r
  | .lit x, .lit y, h => by simp [Expr.beq] at h; simp [Expr.val, h]
  | .ref x, .ref y, h => by simp [Expr.beq] at h; simp [Expr.val, h]
  | .fn f as _, .fn g bs _, h => by
    simp only [Expr.beq, Bool.and_eq_true, beq_iff_eq] at h
    have := Expr.beqList_val r as bs h.2
    simp [Expr.val, h.1, this]
  | .lit _, .ref _, h => by simp [Expr.beq] at h
  | .lit _, .fn _ _ _, h => by simp [Expr.beq] at h
  | .ref _, .lit _, h => by simp [Expr.beq] at h
  | .ref _, .fn _ _ _, h => by simp [Expr.beq] at h
  | .fn _ _ _, .lit _, h => by simp [Expr.beq] at h
  | .fn _ _ _, .ref _, h => by simp [Expr.beq] at h
theorem Expr.beqList_val (r : Row) : (as bs : List Expr) → Expr.beqList as bs = true →
    Expr.valList r as = Expr.valList r bs
  | [], [], _ => rfl
  | a :: as, b :: bs, h => by
    simp only [Expr.beqList, Bool.and_eq_true] at h
    simp [Expr.valList, Expr.beq_val r a b h.1, Expr.beqList_val r as bs h.2]
  | [], _ :: _, h => by simp [Expr.beqList] at h
  | _ :: _, [], h => by simp [Expr.beqList] at h
end

theorem SortTerm.beq_key (r : Row) (s t : SortTerm) (h : (s == t) = true) :
    s.expr.val r = t.expr.val r ∧ s.asc = t.asc := by
  have h' : (Expr.beq s.expr t.expr && s.asc == t.asc) = true := h
  simp only [Bool.and_eq_true, beq_iff_eq] at h'
  exact ⟨Expr.beq_val r _ _ h'.1, h'.2⟩

/-- If all terms of `pre` compare equal on `a b`, the comparator is decided by the rest. -/
theorem lexLe_append_of_eq (pre rest : List SortTerm) (a b : Row)
    (h : ∀ t, t ∈ pre → t.expr.val a = t.expr.val b) : lexLe (pre ++ rest) a b = lexLe rest a b := by
  induction pre with
  | nil => rfl
  | cons t ts ih =>
    have := h t (by simp)
    simp only [List.cons_append, lexLe, this, if_true]
    exact ih (fun u hu => h u (by simp [hu]))

/-- The comparator after a common prefix only matters when the prefix compares equal. -/
theorem lexLe_append_congr (pre r1 r2 : List SortTerm) (a b : Row)
    (h : (∀ u, u ∈ pre → u.expr.val a = u.expr.val b) → lexLe r1 a b = lexLe r2 a b) :
    lexLe (pre ++ r1) a b = lexLe (pre ++ r2) a b := by
  induction pre with
  | nil => exact h (by simp)
  | cons u us ih =>
    simp only [List.cons_append, lexLe]
    by_cases hk : u.expr.val a = u.expr.val b
    · simp only [hk, if_true]
      apply ih
      intro hall
      apply h
      intro v hv
      rcases List.mem_cons.mp hv with rfl | hv'
      · exact hk
      · exact hall v hv'
    · simp [hk]

/-- A term that already occurs earlier in the list can be dropped. -/
theorem lexLe_insert_dup (pre post : List SortTerm) (t : SortTerm) (a b : Row)
    (h : pre.contains t = true) : lexLe (pre ++ t :: post) a b = lexLe (pre ++ post) a b := by
  apply lexLe_append_congr
  intro hall
  obtain ⟨u, hu, htu⟩ := List.contains_iff_exists_mem_beq.mp h
  have ha := SortTerm.beq_key a t u htu
  have hb := SortTerm.beq_key b t u htu
  have hteq : t.expr.val a = t.expr.val b := by rw [ha.1, hb.1, hall u hu]
  simp [lexLe, hteq]

theorem sortThen_lexLe (self next : List SortTerm) (a b : Row) :
    lexLe (UOp.sortThen self next) a b = lexLe (next ++ self) a b := by
  unfold UOp.sortThen
  induction self generalizing next with
  | nil => simp
  | cons t ts ih =>
    simp only [List.foldl_cons]
    split
    · rename_i hc
      rw [ih, lexLe_insert_dup next ts t a b hc]
    · rw [ih]; simp

/-! ### The multi-pass sort of the iteration engine -/

theorem tupleLe_map_asc (g : List SortTerm) (hg : ∀ t, t ∈ g → t.asc = true) (a b : Row) :
    tupleLe (g.map (fun t => t.expr.val a)) (g.map (fun t => t.expr.val b)) = lexLe g a b := by
  induction g with
  | nil => rfl
  | cons t ts ih =>
    have h1 := hg t (by simp)
    have ih' := ih (fun u hu => hg u (by simp [hu]))
    simp only [List.map_cons, tupleLe, lexLe, h1, if_true, ih']

theorem tupleLe_map_desc (g : List SortTerm) (hg : ∀ t, t ∈ g → t.asc = false) (a b : Row) :
    tupleLe (g.map (fun t => t.expr.val b)) (g.map (fun t => t.expr.val a)) = lexLe g a b := by
  induction g with
  | nil => rfl
  | cons t ts ih =>
    have h1 := hg t (by simp)
    have ih' := ih (fun u hu => hg u (by simp [hu]))
    simp only [List.map_cons, tupleLe, lexLe, h1, ih']
    by_cases h : t.expr.val a = t.expr.val b
    · simp [h]
    · have : ¬ t.expr.val b = t.expr.val a := fun h' => h h'.symm
      simp [h, this]

theorem sortPass_eq (asc : Bool) (g : List SortTerm) (hg : ∀ t, t ∈ g → t.asc = asc) (l : List Row) :
    sortPass asc g l = isort (lexLe g) l := by
  unfold sortPass
  cases asc with
  | true =>
    simp only [if_true]
    apply isort_congr
    intro a b _ _
    exact tupleLe_map_asc g hg a b
  | false =>
    simp only [Bool.false_eq_true, if_false]
    apply isort_congr
    intro a b _ _
    exact tupleLe_map_desc g hg a b

theorem groupByAsc_spec : (ts : List SortTerm) →
    ((groupByAsc ts).map (·.2)).flatten = ts ∧
    (∀ g, g ∈ groupByAsc ts → ∀ t, t ∈ g.2 → t.asc = g.1)
  | [] => by simp [groupByAsc]
  | t :: ts => by
    have ih := groupByAsc_spec ts
    unfold groupByAsc
    cases hg : groupByAsc ts with
    | nil =>
      rw [hg] at ih
      simp at ih
      simp [ih]
    | cons g rest =>
      rw [hg] at ih
      obtain ⟨asc, gs⟩ := g
      simp only
      split
      · rename_i heq
        simp only [beq_iff_eq] at heq
        constructor
        · simpa using ih.1
        · intro g' hg' u hu
          rcases List.mem_cons.mp hg' with rfl | hg''
          · rcases List.mem_cons.mp hu with rfl | hu'
            · exact heq.symm
            · exact ih.2 (asc, gs) (by simp) u hu'
          · exact ih.2 g' (by simp [hg'']) u hu
      · constructor
        · simpa using ih.1
        · intro g' hg' u hu
          rcases List.mem_cons.mp hg' with rfl | hg''
          · simp at hu; rw [hu]
          · exact ih.2 g' hg'' u hu

theorem foldl_passes (gs : List (Bool × List SortTerm))
    (h : ∀ g, g ∈ gs → ∀ t, t ∈ g.2 → t.asc = g.1) (l : List Row) :
    gs.reverse.foldl (fun rows g => sortPass g.1 g.2 rows) l
      = isort (lexLe ((gs.map (·.2)).flatten)) l := by
  induction gs with
  | nil =>
    simp only [List.reverse_nil, List.foldl_nil, List.map_nil, List.flatten_nil]
    have : isort (lexLe []) l = isort (fun _ _ => true) l := by apply isort_congr; intros; rfl
    rw [this, isort_true]
  | cons g gs ih =>
    simp only [List.reverse_cons, List.foldl_append, List.foldl_cons, List.foldl_nil, List.map_cons,
      List.flatten_cons]
    rw [ih (fun g' hg' => h g' (by simp [hg'])), sortPass_eq g.1 g.2 (h g (by simp)),
      isort_lexLe_append]

/-- **The iteration engine's multi-pass sort is one stable sort by the lexicographic comparator.** -/
theorem multipassSort_eq (ts : List SortTerm) (l : List Row) :
    multipassSort ts l = isort (lexLe ts) l := by
  unfold multipassSort
  have hs := groupByAsc_spec ts
  rw [foldl_passes _ hs.2, hs.1]

end DafRel
