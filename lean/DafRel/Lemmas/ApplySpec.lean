/-
`UnaryOperation.apply` written without mutable variables (`applyOpSpec`), proved equal to the model's
`applyOp`; shared by the back-tracking proofs (C03) and the SQL tree-building induction (C17).
-/
import DafRel.Model.Apply

namespace DafRel

theorem Cols.mem_inter (a b : Cols) (t : Tag) : t ∈ a.inter b ↔ t ∈ a ∧ t ∈ b := by
  unfold Cols.inter
  simp [List.mem_filter]

/-! ### `UnaryOperation.apply` with preferred-engine options -/

/-- `UnaryOperation.apply` for a `UOp`, written without mutable variables. -/
def applyOpSpec (st : Store) (fuel : Nat) (o : UOp) (t : Rel) (opts : Opts) : Except Err Res :=
  match o.beginApply t opts.pref with
  | .error e => .error e
  | .ok (o', pref) =>
    let finish (base : Res) : Except Err Res :=
      match appendUnary st fuel (.u o') (base.get t) with
      | .error e => .error e
      | .ok .same => .ok base
      | .ok (.new x) => .ok (.new x)
    if pref == t.engine then finish .same
    else
      let bt : Except Err (Res × Bool) :=
        if opts.backtrack then backtrack st fuel (.u o') t pref else .ok (.same, false)
      match bt with
      | .error e => .error e
      | .ok (r, true) => .ok r
      | .ok (r, false) =>
        if opts.transfer then
          match transferTo st fuel pref (r.get t) with
          | .error e => .error e
          | .ok .same => finish r
          | .ok (.new x) => finish (.new x)
        else if opts.require then .error .engine
        else finish r

theorem applyOp_eq_spec (st : Store) (fuel : Nat) (o : UOp) (t : Rel) (opts : Opts) :
    applyOp st (fuel+1) (.u o) t opts = applyOpSpec st fuel o t opts := by
  rw [applyOp]
  simp only [AnyOp.beginApply, bind, Except.bind, pure, Except.pure, Except.map, applyOpSpec]
  cases hb : o.beginApply t opts.pref with
  | error e => rfl
  | ok v =>
    obtain ⟨o', pref⟩ := v
    simp only
    by_cases he : pref = t.engine
    · subst he
      simp only [bne_self_eq_false, Bool.false_eq_true, if_false, beq_self_eq_true, if_true, Bool.not_false, Res.get]
      cases appendUnary st fuel (AnyOp.u o') t with
      | error e => rfl
      | ok r => cases r <;> rfl
    · have h1 : (pref != t.engine) = true := by simpa using he
      have h2 : (pref == t.engine) = false := by simpa using he
      simp only [h1, h2, if_true, Bool.false_eq_true, if_false]
      cases hbt : opts.backtrack with
      | false =>
        simp only [Bool.false_eq_true, if_false, Bool.not_false, if_true, Res.get]
        cases htr : opts.transfer with
        | true =>
          simp only [if_true]
          cases transferTo st fuel pref t with
          | error e => rfl
          | ok r2 =>
            cases r2 with
            | same =>
              simp only [Res.get]
              cases appendUnary st fuel (AnyOp.u o') t with
              | error e => rfl
              | ok r => cases r <;> rfl
            | new x =>
              simp only [Res.get]
              cases appendUnary st fuel (AnyOp.u o') x with
              | error e => rfl
              | ok r => cases r <;> rfl
        | false =>
          simp only [Bool.false_eq_true, if_false]
          cases hrq : opts.require with
          | true => rfl
          | false =>
            simp only [Bool.false_eq_true, if_false]
            cases appendUnary st fuel (AnyOp.u o') t with
            | error e => rfl
            | ok r => cases r <;> rfl
      | true =>
        simp only [if_true]
        cases backtrack st fuel (AnyOp.u o') t pref with
        | error e => rfl
        | ok v1 =>
          obtain ⟨r1, d⟩ := v1
          cases d with
          | true => simp
          | false =>
            simp only [Bool.not_false, if_true]
            cases htr : opts.transfer with
            | true =>
              simp only [if_true]
              cases transferTo st fuel pref (r1.get t) with
              | error e => rfl
              | ok r2 =>
                cases r2 with
                | same =>
                  simp only
                  cases appendUnary st fuel (AnyOp.u o') (r1.get t) with
                  | error e => rfl
                  | ok r => cases r <;> rfl
                | new x =>
                  simp only [Res.get]
                  cases appendUnary st fuel (AnyOp.u o') x with
                  | error e => rfl
                  | ok r => cases r <;> rfl
            | false =>
              simp only [Bool.false_eq_true, if_false]
              cases hrq : opts.require with
              | true => rfl
              | false =>
                simp only [Bool.false_eq_true, if_false]
                cases appendUnary st fuel (AnyOp.u o') (r1.get t) with
                | error e => rfl
                | ok r => cases r <;> rfl

end DafRel
