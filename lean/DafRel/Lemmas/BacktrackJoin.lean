/-
Back-tracking of a JOIN (`PartialJoin`) from an iteration-engine relation into a SQL preferred engine (C03):
`backtrack_unary(PartialJoin, tree, preferred)` either leaves the tree alone (not done) or returns a relation with the
rows (as a multiset - a join defines no order) and columns of joining at the root.

Ingredients: `pjoin_commute_sound` (C04 for joins: every commutation report), `finishApply_sound` (C05), the join
factory inside the SQL engine (`appendUnary_pj_sound`, from the C17 induction) below the transfer that leads to the
preferred engine.
-/
import DafRel.Lemmas.JoinCommute
import DafRel.Lemmas.JoinFactory
import DafRel.Lemmas.Backtrack
import DafRel.Lemmas.SqlTransfer

namespace DafRel

/-! ### Permutations under the list functions of the operations a join commutes with -/

theorem UOp.sem_perm (op : UOp) (hd : op.isDedup = false) (hc : op.isCountDependent = false) (c1 c2 : Cols)
    (l l' : List Row) (h : List.Perm l l') : List.Perm (op.sem c1 l) (op.sem c2 l') := by
  cases op with
  | «calc» tag e => exact List.Perm.map _ h
  | dedup => simp [UOp.isDedup] at hd
  | identity => exact h
  | proj c => exact List.Perm.map _ h
  | sel p => exact List.Perm.filter _ h
  | slice a b => simp [UOp.isCountDependent] at hc
  | sort ts => exact (isort_perm _ l).trans (h.trans (isort_perm _ l').symm)

/-- What the second operation of a join's commutation report looks like. -/
theorem pjoin_commute_shape (p : PJoin) (cur : UOp) (tcols ccols : Cols)
    (h : (p.commute cur tcols ccols).1.isSome = true) :
    ((p.commute cur tcols ccols).2.1 = cur ∧ cur.isDedup = false ∧ cur.isCountDependent = false) ∨
    (∃ c', cur = .proj c' ∧ (p.commute cur tcols ccols).2.1 = .proj (p.appliedColumns ccols)) := by
  unfold PJoin.commute at h ⊢
  split at h
  · simp at h
  · rename_i hg
    simp only [hg, if_false]
    cases cur with
    | dedup => simp at h
    | proj c' => exact Or.inr ⟨c', rfl, rfl⟩
    | slice a b => simp [UOp.isCountDependent] at h
    | identity =>
      simp only at h ⊢
      split at h
      · simp at h
      · rename_i h1; simp [h1, UOp.isCountDependent, UOp.isDedup]
    | sel q =>
      simp only at h ⊢
      split at h
      · simp at h
      · rename_i h1; simp [h1, UOp.isCountDependent, UOp.isDedup]
    | sort ts =>
      simp only at h ⊢
      split at h
      · simp at h
      · rename_i h1; simp [h1, UOp.isCountDependent, UOp.isDedup]
    | «calc» tag e =>
      simp only at h ⊢
      split at h
      · simp at h
      · rename_i h1; simp [h1, UOp.isCountDependent, UOp.isDedup]

/-- A resolved partial join is its own `_begin_apply` replacement. -/
theorem pjBeginApply_resolved (p : PJoin) (x : Rel) (pref : Option Engine) (p' : PJoin) (e : Engine)
    (hres : p.join.resolved = true) (h : p.beginApply x pref = .ok (p', e)) : p' = p := by
  unfold PJoin.beginApply at h
  simp only [hres, Bool.not_true, Bool.false_eq_true, if_false] at h
  split at h
  · cases h
  · injection h with h; injection h with h1 _; exact h1.symm

/-! ### The contract -/

/-- What a finished back-tracking of the join `p` promises about the relation `tree'` it returns. -/
structure BTJ (σ : Leaves) (p : PJoin) (tree tree' : Rel) : Prop where
  wf : tree'.WF
  truthful : tree'.Truthful σ
  engine : tree'.engine = tree.engine
  rows : List.Perm (sem σ tree') (p.semRows (sem σ p.fixed) (sem σ tree))
  cols : ∀ x, x ∈ tree'.columns ↔ x ∈ p.appliedColumns tree.columns

theorem BTJ.transfer {σ : Leaves} {p : PJoin} {target t' : Rel} (h : BTJ σ p target t') (oid oid' : Nat)
    (dest : Engine) : BTJ σ p (.transfer oid dest target) (.transfer oid' dest t') :=
  ⟨h.wf, h.truthful, rfl, h.rows, h.cols⟩

/-! ### The join factory inside the SQL engine, for a resolved partial join -/

theorem applyOp_pj_resolved {I : NodeInv} (σ : Leaves) (st : Store) (fuel : Nat) (p : PJoin) (x : Rel)
    (gx : Good I σ x) (gF : Good I σ p.fixed) (heng : p.fixed.engine = x.engine)
    (hres : p.join.resolved = true) (hfix : p.join.minCols.subset p.fixed.columns = true)
    (res : Res) (h : applyOp st fuel (.pj p) x {} = .ok res) :
    ∃ T, res = .new T ∧ Good I σ T ∧ sem σ T = p.semRows (sem σ p.fixed) (sem σ x) ∧
      (∀ c, c ∈ T.columns ↔ c ∈ p.appliedColumns x.columns) ∧ T.engine = x.engine := by
  cases fuel with
  | zero => rw [applyOp] at h; cases h
  | succ fuel =>
    rw [applyOp] at h
    simp only [AnyOp.beginApply, bind, Except.bind, pure, Except.pure, Except.map] at h
    cases hb : p.beginApply x none with
    | error e => simp [hb] at h
    | ok v =>
      obtain ⟨p', e⟩ := v
      obtain ⟨_, _, _, f4, _, f6, f7, _⟩ := pjBeginApply_ok p x none p' e (fun _ => hfix) hb
      have hpp := pjBeginApply_resolved p x none p' e hres hb
      subst hpp
      have he : e = x.engine := by rw [f4]; exact heng
      subst he
      simp only [hb, bne_self_eq_false, Bool.false_eq_true, if_false, Bool.not_false, if_true, Res.get] at h
      cases h1 : appendUnary st fuel (.pj p') x with
      | error e => simp [h1] at h
      | ok r1 =>
        have hcl : p'.join.minCols.subset (p'.lhs x).columns = true := by
          unfold PJoin.lhs; split
          · exact hfix
          · exact f6
        have hcr : p'.join.minCols.subset (p'.rhs x).columns = true := by
          unfold PJoin.rhs; split
          · exact f6
          · exact hfix
        have hp : p'.join.pred.columnsRequired.subset ((p'.lhs x).columns.union (p'.rhs x).columns) = true := by
          refine (Cols.subset_iff _ _).mpr fun t ht => ?_
          have := (Cols.mem_union _ _ _).mp ((Cols.subset_iff _ _).mp f7 t ht)
          unfold PJoin.lhs PJoin.rhs
          split
          · exact (Cols.mem_union _ _ _).mpr this
          · exact (Cols.mem_union _ _ _).mpr this.symm
        obtain ⟨T, hT, gT, _, semT, colT, engT⟩ := appendUnary_pj_sound σ st fuel p' x gx gF hcl hcr hp r1 h1
        subst hT
        simp only [h1] at h
        injection h with h
        refine ⟨T, h.symm, gT, ?_, ?_, ?_⟩
        · rw [semT]; unfold PJoin.semRows PJoin.lhs PJoin.rhs; split <;> rfl
        · intro c; rw [colT c]; unfold PJoin.appliedColumns PJoin.lhs PJoin.rhs; split <;> exact Iff.rfl
        · rw [engT]; unfold PJoin.lhs; split
          · exact heng
          · rfl

/-! ### One step of back-tracking past a unary operation -/

theorem pjoin_commute_none_done (p : PJoin) (cur : UOp) (tcols ccols : Cols)
    (h : (p.commute cur tcols ccols).1 = none) : (p.commute cur tcols ccols).2.2 = false := by
  unfold PJoin.commute at h ⊢
  split
  · rfl
  · rename_i hg
    simp only [hg, if_false] at h
    cases cur <;> simp only at h ⊢ <;> (repeat' split at h) <;> (try (simp at h)) <;> simp_all

/-- What a reported move of a join promises, unpacked. -/
theorem pjoinCommuteSoundAt_some (p : PJoin) (cur : UOp) (tcols : Cols) (F l : List Row) (f : PJoin)
    (hC : pjoinCommuteSoundAt p cur tcols F l)
    (hf : (p.commute cur tcols (cur.appliedColumns tcols)).1 = some f) :
    let c := p.commute cur tcols (cur.appliedColumns tcols)
    f = p ∧ c.2.2 = true ∧ p.columnsRequired.subset tcols = true ∧ c.2.1.wfOn (p.appliedColumns tcols) = true ∧
    (∀ x, x ∈ c.2.1.appliedColumns (p.appliedColumns tcols) ↔ x ∈ p.appliedColumns (cur.appliedColumns tcols)) ∧
    List.Perm (c.2.1.sem (c.2.1.appliedColumns (p.appliedColumns tcols)) (p.semRows F l))
      (p.semRows F (cur.sem (cur.appliedColumns tcols) l)) := by
  unfold pjoinCommuteSoundAt at hC
  simp only [hf] at hC
  obtain ⟨h1, h2, h3, h4, h5, h6, _⟩ := hC
  subst h1
  exact ⟨rfl, h2, h3, h4, h5, h6⟩

/-- The reported second operation, as a list function and as a column-set function, under `second == cur`. -/
theorem pj_second_beq (p : PJoin) (cur : UOp) (tcols ccols : Cols)
    (hs : (p.commute cur tcols ccols).1.isSome = true)
    (hbeq : ((p.commute cur tcols ccols).2.1 == cur) = true) :
    (∀ c rows, (p.commute cur tcols ccols).2.1.sem c rows = cur.sem c rows) ∧
    (∀ cols x, x ∈ (p.commute cur tcols ccols).2.1.appliedColumns cols ↔ x ∈ cur.appliedColumns cols) := by
  rcases pjoin_commute_shape p cur tcols ccols hs with ⟨h, _, _⟩ | ⟨c', h1, h2⟩
  · rw [h]; exact ⟨fun _ _ => rfl, fun _ _ => Iff.rfl⟩
  · subst h1
    rw [h2] at hbeq ⊢
    have hse : (p.appliedColumns ccols).seteq c' = true := hbeq
    have hiff := (Cols.seteq_iff _ _).mp hse
    refine ⟨fun _ rows => ?_, fun _ x => hiff x⟩
    simp only [UOp.sem]
    apply List.map_congr_left
    intro r _
    exact Row.restrict_congr r _ _ hiff

theorem btj_step (σ : Leaves) (p : PJoin) (cur : UOp) (target X : Rel) (r : Res)
    (hwft : target.WF) (htrt : target.Truthful σ) (hcur : cur.wfOn target.columns = true)
    (hF : RowsHaveCols (sem σ p.fixed) p.fixed.columns)
    (hp : p.columnsRequired.subset (cur.appliedColumns target.columns) = true)
    (f : PJoin) (hf : (p.commute cur target.columns (cur.appliedColumns target.columns)).1 = some f)
    (ih : BTJ σ p target X)
    (hfin : (p.commute cur target.columns (cur.appliedColumns target.columns)).2.1.finishApply X = .ok r) :
    BTJ σ p (.unary cur target (cur.appliedColumns target.columns)) (r.get X) := by
  have hl := (metadata_truthful σ target hwft htrt).keys
  have hC := pjoin_commute_sound p cur target.columns (sem σ p.fixed) (sem σ target) hl hF hcur hp
  obtain ⟨_, _, _, hsw, hcols, hperm⟩ := pjoinCommuteSoundAt_some p cur target.columns _ _ f hC hf
  have hs : (p.commute cur target.columns (cur.appliedColumns target.columns)).1.isSome = true := by simp [hf]
  generalize hsec : (p.commute cur target.columns (cur.appliedColumns target.columns)).2.1 = second at *
  have hwX : second.wfOn X.columns = true := by rw [wfOn_congr second _ _ ih.cols]; exact hsw
  have Fin := finishApply_sound σ X second ih.wf ih.truthful hwX r hfin
  have hflags : second.isDedup = false ∧ second.isCountDependent = false := by
    rcases pjoin_commute_shape p cur target.columns _ hs with ⟨h, h1, h2⟩ | ⟨c', _, h2⟩
    · rw [hsec] at h; rw [h]; exact ⟨h1, h2⟩
    · rw [hsec] at h2; rw [h2]; exact ⟨rfl, rfl⟩
  refine ⟨Fin.wf, Fin.truthful, Fin.engine.trans ih.engine, ?_, ?_⟩
  · rw [Fin.sem_eq]
    exact (UOp.sem_perm second hflags.1 hflags.2 _ _ _ _ ih.rows).trans hperm
  · intro x
    exact (Fin.cols x).trans ((congr_applied second ih.cols x).trans (hcols x))

theorem btj_same (σ : Leaves) (p : PJoin) (cur : UOp) (target : Rel)
    (hwft : target.WF) (htrt : target.Truthful σ) (hcur : cur.wfOn target.columns = true)
    (hF : RowsHaveCols (sem σ p.fixed) p.fixed.columns)
    (hp : p.columnsRequired.subset (cur.appliedColumns target.columns) = true)
    (f : PJoin) (hf : (p.commute cur target.columns (cur.appliedColumns target.columns)).1 = some f)
    (ih : BTJ σ p target target)
    (hbeq : ((p.commute cur target.columns (cur.appliedColumns target.columns)).2.1 == cur) = true) :
    BTJ σ p (.unary cur target (cur.appliedColumns target.columns))
      (.unary cur target (cur.appliedColumns target.columns)) := by
  have hl := (metadata_truthful σ target hwft htrt).keys
  have hC := pjoin_commute_sound p cur target.columns (sem σ p.fixed) (sem σ target) hl hF hcur hp
  obtain ⟨_, _, _, _, hcols, hperm⟩ := pjoinCommuteSoundAt_some p cur target.columns _ _ f hC hf
  have hs : (p.commute cur target.columns (cur.appliedColumns target.columns)).1.isSome = true := by simp [hf]
  obtain ⟨hsemeq, hcoleq⟩ := pj_second_beq p cur target.columns _ hs hbeq
  have hflags : cur.isDedup = false ∧ cur.isCountDependent = false := by
    rcases pjoin_commute_shape p cur target.columns _ hs with ⟨_, h1, h2⟩ | ⟨c', h1, _⟩
    · exact ⟨h1, h2⟩
    · subst h1; exact ⟨rfl, rfl⟩
  refine ⟨⟨hwft, rfl, hcur⟩, htrt, rfl, ?_, ?_⟩
  · show List.Perm (cur.sem (cur.appliedColumns target.columns) (sem σ target)) _
    rw [hsemeq] at hperm
    exact (UOp.sem_perm cur hflags.1 hflags.2 _ _ _ _ ih.rows).trans hperm
  · intro x
    show x ∈ cur.appliedColumns target.columns ↔ _
    exact (congr_applied cur ih.cols x).trans (((hcoleq _ x).symm).trans (hcols x))

/-! ### The induction -/

/-- **Back-tracking a join into a SQL preferred engine is sound**: whatever
`backtrack_unary(PartialJoin, tree, preferred)` returns for an iteration-engine tree is either the tree itself
(not done) or a well-formed relation in the tree's engine with the columns and - as a multiset - the rows of
joining at the root. -/
theorem backtrack_pj_sound (σ : Leaves) (st : Store) (pref : Engine) (hpk : pref.kind = .sql) (p : PJoin)
    (gF : Good NodeInv.triv σ p.fixed) (hfe : p.fixed.engine = pref)
    (hres : p.join.resolved = true) (hfix : p.join.minCols.subset p.fixed.columns = true) :
    (fuel : Nat) → (tree : Rel) → (res : Res) → (done : Bool) →
    tree.WF → tree.Truthful σ → p.columnsRequired.subset tree.columns = true →
    tree.prefTargetsGood NodeInv.triv σ pref → tree.spineNoPayload st →
    backtrack st fuel (.pj p) tree pref = .ok (res, done) →
    (done = false → res = .same) ∧ (done = true → BTJ σ p tree (res.get tree))
  | 0, tree, res, done, _, _, _, _, _, h => by rw [backtrack] at h; cases h
  | fuel+1, tree, res, done, hwf, htr, hop, hpo, hnp, h => by
    have hF : RowsHaveCols (sem σ p.fixed) p.fixed.columns := gF.rows
    have unchanged : ∀ {res : Res} {done : Bool}, (Res.same, false) = (res, done) →
        (done = false → res = .same) ∧ (done = true → BTJ σ p tree (res.get tree)) := by
      intro res done h
      injection h with h1 h2; subst h1; subst h2
      exact ⟨fun _ => rfl, fun h => by cases h⟩
    cases hk : tree.engine.kind with
    | sql =>
      rw [backtrack.eq_def] at h
      simp only [hk] at h
      injection h with h
      exact unchanged h
    | iter =>
      cases tree with
      | leaf a b c d e f g i =>
        rw [backtrack.eq_def] at h
        simp only [hk, Rel.isLocked, if_true] at h
        injection h with h
        exact unchanged h
      | mat a b c =>
        rw [backtrack.eq_def] at h
        simp only [hk, Rel.isLocked, if_true] at h
        injection h with h
        exact unchanged h
      | binary a b c d =>
        rw [backtrack.eq_def] at h
        simp only [hk, Rel.isLocked, Bool.false_eq_true, if_false] at h
        injection h with h
        exact unchanged h
      | select a b c d e f g i j =>
        rw [backtrack.eq_def] at h
        simp [hk, Rel.isLocked] at h
      | transfer oid dest target =>
        rw [backtrack] at h
        simp only [hk, Rel.isLocked, Bool.false_eq_true, if_false, bind, Except.bind, pure, Except.pure] at h
        have hwft : target.WF := hwf
        have htrt : target.Truthful σ := htr
        have hopt : p.columnsRequired.subset target.columns = true := hop
        have hpo' : (target.engine = pref → pref.kind = .sql → Good NodeInv.triv σ target) ∧
            target.prefTargetsGood NodeInv.triv σ pref := hpo
        have hnp' : (st.get oid).isNone = true ∧ target.spineNoPayload st := hnp
        by_cases he : (target.engine == pref) = true
        · simp only [he, if_true] at h
          cases happ : applyOp st fuel (.pj p) target {} with
          | error e => simp [happ] at h
          | ok r =>
            simp only [happ] at h
            injection h with h; injection h with h1 h2; subst h2
            have heq := beq_iff_eq.mp he
            obtain ⟨T, hT, gT, semT, colT, engT⟩ := applyOp_pj_resolved σ st fuel p target (hpo'.1 heq hpk) gF
              (hfe.trans heq.symm) hres hfix r happ
            subst hT
            refine ⟨fun h => (by cases h), fun _ => ?_⟩
            rw [← h1]
            simp only [reapplyTransfer, Res.get]
            exact ⟨gT.wf, gT.truthful, rfl, by show List.Perm (sem σ T) _; rw [semT]; exact List.Perm.refl _, colT⟩
        · simp only [he, Bool.false_eq_true, if_false] at h
          cases hb : backtrack st fuel (.pj p) target pref with
          | error e => simp [hb] at h
          | ok v =>
            obtain ⟨up, d⟩ := v
            simp only [hb] at h
            injection h with h; injection h with h1 h2; subst h2
            obtain ⟨ih1, ih2⟩ := backtrack_pj_sound σ st pref hpk p gF hfe hres hfix fuel target up d hwft htrt hopt
              hpo'.2 hnp'.2 hb
            rw [← h1]
            refine ⟨fun hd => ?_, fun hd => ?_⟩
            · rw [ih1 hd]; simp [reapplyTransfer, hnp'.1]
            · have B := ih2 hd
              cases up with
              | same =>
                simp only [reapplyTransfer, hnp'.1, if_true, Res.get] at B ⊢
                exact B.transfer oid oid dest
              | new t =>
                simp only [reapplyTransfer, Res.get] at B ⊢
                exact B.transfer oid 0 dest
      | unary cur target ccols =>
        rw [backtrack] at h
        have hkt : target.engine.kind = .iter := hk
        simp only [Rel.engine, hkt, Rel.isLocked, Bool.false_eq_true, if_false, AnyOp.commute, bind, Except.bind,
          pure, Except.pure] at h
        obtain ⟨hwft, hcc, hcur⟩ := hwf
        have htrt : target.Truthful σ := htr
        subst hcc
        have hopc : p.columnsRequired.subset (cur.appliedColumns target.columns) = true := hop
        have hl := (metadata_truthful σ target hwft htrt).keys
        have hC := pjoin_commute_sound p cur target.columns (sem σ p.fixed) (sem σ target) hl hF hcur hopc
        cases hfirst : (p.commute cur target.columns (cur.appliedColumns target.columns)).1 with
        | none =>
          simp only [hfirst, Option.map_none] at h
          injection h with h; injection h with h1 h2
          subst h1
          rw [← h2, pjoin_commute_none_done p cur _ _ hfirst]
          exact ⟨fun _ => rfl, fun h => by cases h⟩
        | some f =>
          simp only [hfirst, Option.map_some] at h
          obtain ⟨hfp, hcd, hreq, _, _, _⟩ := pjoinCommuteSoundAt_some p cur target.columns _ _ f hC hfirst
          subst hfp
          cases hb : backtrack st fuel (.pj f) target pref with
          | error e => simp [hb] at h
          | ok v =>
            obtain ⟨up, d⟩ := v
            simp only [hb] at h
            obtain ⟨ih1, ih2⟩ := backtrack_pj_sound σ st pref hpk f gF hfe hres hfix fuel target up d hwft htrt hreq
              hpo hnp hb
            cases d with
            | false =>
              have := ih1 rfl
              subst this
              simp only [Bool.not_false, Bool.true_or, if_true, Bool.false_and] at h
              injection h with h
              exact unchanged h
            | true =>
              have B := ih2 rfl
              cases up with
              | same =>
                simp only [Res.get] at B
                simp only at h
                by_cases hbeq : ((f.commute cur target.columns (cur.appliedColumns target.columns)).2.1 == cur) = true
                · simp only [hbeq, Bool.or_true, if_true, Bool.true_and] at h
                  injection h with h; injection h with h1 h2; subst h1
                  refine ⟨fun hd => rfl, fun _ => ?_⟩
                  exact btj_same σ f cur target hwft htrt hcur hF hopc f hfirst B hbeq
                · simp only [hbeq, Bool.not_true, Bool.or_self, Bool.false_eq_true, if_false, Bool.true_and] at h
                  cases hfin : (f.commute cur target.columns (cur.appliedColumns target.columns)).2.1.finishApply target with
                  | error e => simp [hfin] at h
                  | ok r =>
                    simp only [hfin] at h
                    injection h with h; injection h with h1 h2; subst h1
                    rw [← h2, hcd]
                    refine ⟨fun hd => (by cases hd), fun _ => ?_⟩
                    exact btj_step σ f cur target target r hwft htrt hcur hF hopc f hfirst B hfin
              | new u =>
                simp only [Res.get] at B
                simp only [Bool.not_true, Bool.false_and, Bool.false_eq_true, if_false, Bool.true_and] at h
                cases hfin : (f.commute cur target.columns (cur.appliedColumns target.columns)).2.1.finishApply u with
                | error e => simp [hfin] at h
                | ok r =>
                  simp only [hfin] at h
                  injection h with h; injection h with h1 h2; subst h1
                  rw [← h2, hcd]
                  refine ⟨fun hd => (by cases hd), fun _ => ?_⟩
                  exact btj_step σ f cur target u r hwft htrt hcur hF hopc f hfirst B hfin

/-! ### `apply` around `backtrack_unary`: `_begin_apply`, and the refusal of a cross-engine join -/

theorem Cols.seteq_refl (c : Cols) : c.seteq c = true := (Cols.seteq_iff c c).mpr (fun _ => Iff.rfl)

/-- What `PartialJoin._begin_apply` guarantees about its replacement beyond `pjBeginApply_ok`. -/
theorem pjBeginApply_req (p : PJoin) (x : Rel) (pref : Option Engine) (p' : PJoin) (e : Engine)
    (h : p.beginApply x pref = .ok (p', e)) :
    p'.columnsRequired.subset x.columns = true ∧ p'.join.resolved = true := by
  unfold PJoin.beginApply at h
  simp only at h
  by_cases hres : p.join.resolved = true
  · simp only [hres, Bool.not_true, Bool.false_eq_true, if_false] at h
    split at h
    · cases h
    · rename_i hc
      injection h with h; injection h with h1 _
      subst h1
      exact ⟨by simpa using hc, hres⟩
  · have hres' : p.join.resolved = false := by simpa using hres
    simp only [hres', Bool.not_false, if_true] at h
    cases hc : p.join.appliedCommonColumns p.fixed.columns x.columns with
    | error e => simp [hc] at h
    | ok common =>
      simp only [hc] at h
      split at h
      · cases h
      · rename_i hcc
        injection h with h; injection h with h1 _
        subst h1
        exact ⟨by simpa using hcc, by simp [JoinOp.resolved, Cols.seteq_refl]⟩

theorem joinBeginApply_cross (j : JoinOp) (l r : Rel) (op' : BOp) (hne : l.engine ≠ r.engine)
    (h : joinBeginApply j l r = .ok op') :
    ∃ op, op' = .join op ∧ op.pred = j.pred ∧
      ((j.pred.asTrivial == some true) = true → l.isJoinIdentity = false ∧ r.isJoinIdentity = false) := by
  have hne' : (l.engine != r.engine) = true := by simpa using hne
  unfold joinBeginApply at h
  simp only [bind, Except.bind, pure, Except.pure, throw, throwThe, MonadExceptOf.throw, hne', Bool.true_and] at h
  repeat' (split at h)
  all_goals first
    | (cases h; done)
    | (exfalso; simp_all; done)
    | (injection h with h; subst h; exact ⟨_, rfl, rfl, by simp_all⟩)

/-- A join of relations of different engines is refused by `Join.apply`. -/
theorem binaryApply_join_cross_engine (st : Store) (fuel : Nat) (j : JoinOp) (l r : Rel) (hne : l.engine ≠ r.engine)
    (res : BRes) : binaryApply st fuel (.join j) l r ≠ .ok res := by
  intro h
  cases fuel with
  | zero => rw [binaryApply] at h; cases h
  | succ fuel =>
    rw [binaryApply] at h
    simp only [bind, Except.bind] at h
    cases hb : joinBeginApply j l r with
    | error e => simp [hb] at h
    | ok op' =>
      simp only [hb] at h
      obtain ⟨op, hop, hpred, htriv⟩ := joinBeginApply_cross j l r op' hne hb
      subst hop
      have hne' : (l.engine != r.engine) = true := by simpa using hne
      cases hk : l.engine.kind with
      | iter =>
        simp only [hk, binaryFinishApply, hpred] at h
        by_cases ht : (j.pred.asTrivial == some true) = true
        · obtain ⟨h1, h2⟩ := htriv ht
          simp [ht, h1, h2, hne'] at h
        · simp [ht, hne'] at h
      | sql =>
        simp only [hk] at h
        cases fuel with
        | zero => rw [appendBinarySql] at h; cases h
        | succ fuel =>
          rw [appendBinarySql] at h
          simp [bind, Except.bind, throw, throwThe, MonadExceptOf.throw, hne'] at h

theorem pjFinish_cross_engine (st : Store) (fuel : Nat) (p : PJoin) (t : Rel) (hne : p.fixed.engine ≠ t.engine)
    (res : Res) : pjFinishApply st fuel p t ≠ .ok res := by
  intro h
  cases fuel with
  | zero => rw [pjFinishApply] at h; cases h
  | succ fuel =>
    rw [pjFinishApply] at h
    simp only [bind, Except.bind] at h
    cases hs : p.fixedIsLhs with
    | true =>
      simp only [hs, if_true] at h
      cases hb : binaryApply st fuel (.join p.join) p.fixed t with
      | error e => simp [hb] at h
      | ok r => exact binaryApply_join_cross_engine st fuel p.join p.fixed t hne r hb
    | false =>
      simp only [hs, Bool.false_eq_true, if_false] at h
      cases hb : binaryApply st fuel (.join p.join) t p.fixed with
      | error e => simp [hb] at h
      | ok r => exact binaryApply_join_cross_engine st fuel p.join t p.fixed (fun h => hne h.symm) r hb

theorem appendUnary_pj_cross_engine (st : Store) (fuel : Nat) (p : PJoin) (t : Rel) (hk : t.engine.kind = .iter)
    (hne : p.fixed.engine ≠ t.engine) (res : Res) : appendUnary st fuel (.pj p) t ≠ .ok res := by
  intro h
  cases fuel with
  | zero => rw [appendUnary] at h; cases h
  | succ fuel =>
    rw [appendUnary] at h
    simp only [hk] at h
    exact pjFinish_cross_engine st fuel p t hne res h

/-- **`relation.join(fixed)` from an iteration-engine relation, fixed relation in a database** (default options:
the preferred engine is the fixed relation's, back-tracking on, no transfer): whenever the call succeeds, the join
was back-tracked into the database, and the result is well-formed, lives in the target's engine and has the columns
and - as a multiset - the rows of the join (on the common columns `_begin_apply` resolved) applied at the root. -/
theorem applyOp_pj_backtracked (σ : Leaves) (st : Store) (fuel : Nat) (p : PJoin) (t : Rel) (o : Opts)
    (hpref : o.pref = none ∨ o.pref = some p.fixed.engine) (hbt : o.backtrack = true) (htr : o.transfer = false)
    (hkt : t.engine.kind = .iter) (hks : p.fixed.engine.kind = .sql)
    (gF : Good NodeInv.triv σ p.fixed)
    (hfix0 : p.join.resolved = true → p.join.minCols.subset p.fixed.columns = true)
    (hwf : t.WF) (htrt : t.Truthful σ) (hpo : t.prefTargetsGood NodeInv.triv σ p.fixed.engine)
    (hnp : t.spineNoPayload st)
    (res : Res) (h : applyOp st fuel (.pj p) t o = .ok res) :
    ∃ p', p.beginApply t o.pref = .ok (p', p.fixed.engine) ∧ BTJ σ p' t (res.get t) := by
  cases fuel with
  | zero => rw [applyOp] at h; cases h
  | succ fuel =>
    rw [applyOp] at h
    simp only [AnyOp.beginApply, bind, Except.bind, pure, Except.pure, Except.map] at h
    cases hb : p.beginApply t o.pref with
    | error e => simp [hb] at h
    | ok v =>
      obtain ⟨p', e⟩ := v
      obtain ⟨f1, _, _, f4, f5, _, _, _⟩ := pjBeginApply_ok p t o.pref p' e hfix0 hb
      obtain ⟨hreq, hres'⟩ := pjBeginApply_req p t o.pref p' e hb
      have he : e = p.fixed.engine := by rcases hpref with hq | hq <;> simp [f4, hq]
      subst he
      have hne : p.fixed.engine ≠ t.engine := fun hh => by rw [hh, hkt] at hks; cases hks
      have hne' : (p.fixed.engine != t.engine) = true := by simpa using hne
      simp only [hb, hne', hbt, htr, if_true, Bool.false_eq_true, if_false] at h
      cases hbk : backtrack st fuel (.pj p') t p.fixed.engine with
      | error e => simp [hbk] at h
      | ok v =>
        obtain ⟨up, d⟩ := v
        simp only [hbk] at h
        obtain ⟨ih1, ih2⟩ := backtrack_pj_sound σ st p.fixed.engine hks p' (f1 ▸ gF) (by rw [f1]) hres'
          (by rw [f1]; exact f5) fuel t up d hwf htrt hreq hpo hnp hbk
        cases d with
        | false =>
          have := ih1 rfl
          subst this
          exfalso
          simp only [Bool.not_false, if_true, Res.get] at h
          have hx : ∀ r, appendUnary st fuel (.pj p') t ≠ .ok r :=
            fun r => appendUnary_pj_cross_engine st fuel p' t hkt (by rw [f1]; exact hne) r
          cases happ : appendUnary st fuel (.pj p') t with
          | ok r => exact hx r happ
          | error e =>
            simp only [happ] at h
            split at h
            · simp [throw, throwThe, MonadExceptOf.throw] at h
            · cases h
        | true =>
          simp only [Bool.not_true, Bool.false_eq_true, if_false] at h
          injection h with h
          subst h
          exact ⟨p', rfl, ih2 rfl⟩

/-! ### `transfer=True` -/

/-- What a join that ended up in the preferred (database) engine after a transfer promises. -/
structure JoinedIn (σ : Leaves) (p : PJoin) (t t' : Rel) : Prop where
  wf : t'.WF
  truthful : t'.Truthful σ
  engine : t'.engine = p.fixed.engine
  rows : List.Perm (sem σ t') (p.semRows (sem σ p.fixed) (sem σ t))
  cols : ∀ x, x ∈ t'.columns ↔ x ∈ p.appliedColumns t.columns

/-- **`relation.join(fixed, transfer=...)`**: as `applyOp_pj_backtracked`, for either value of `transfer`: when
back-tracking does not finish and `transfer=True`, the target is transferred into the database and joined there. -/
theorem applyOp_pj_any_transfer (σ : Leaves) (st : Store) (fuel : Nat) (p : PJoin) (t : Rel) (o : Opts)
    (hpref : o.pref = none ∨ o.pref = some p.fixed.engine) (hbt : o.backtrack = true)
    (hkt : t.engine.kind = .iter) (hks : p.fixed.engine.kind = .sql)
    (gF : Good NodeInv.triv σ p.fixed)
    (hfix0 : p.join.resolved = true → p.join.minCols.subset p.fixed.columns = true)
    (hwf : t.WF) (htrt : t.Truthful σ) (hpo : t.prefTargetsGood NodeInv.triv σ p.fixed.engine)
    (hnp : t.spineNoPayload st) (hts : o.transfer = true → transferSimplify p.fixed.engine t = none)
    (res : Res) (h : applyOp st fuel (.pj p) t o = .ok res) :
    ∃ p', p.beginApply t o.pref = .ok (p', p.fixed.engine) ∧
      (BTJ σ p' t (res.get t) ∨ (o.transfer = true ∧ JoinedIn σ p' t (res.get t))) := by
  cases htr : o.transfer with
  | false =>
    obtain ⟨p', hb, B⟩ := applyOp_pj_backtracked σ st fuel p t o hpref hbt htr hkt hks gF hfix0 hwf htrt hpo hnp res h
    exact ⟨p', hb, Or.inl B⟩
  | true =>
    cases fuel with
    | zero => rw [applyOp] at h; cases h
    | succ fuel =>
      rw [applyOp] at h
      simp only [AnyOp.beginApply, bind, Except.bind, pure, Except.pure, Except.map] at h
      cases hb : p.beginApply t o.pref with
      | error e => simp [hb] at h
      | ok v =>
        obtain ⟨p', e⟩ := v
        obtain ⟨f1, _, _, f4, f5, f6, f7, _⟩ := pjBeginApply_ok p t o.pref p' e hfix0 hb
        obtain ⟨hreq, hres'⟩ := pjBeginApply_req p t o.pref p' e hb
        have he : e = p.fixed.engine := by rcases hpref with hq | hq <;> simp [f4, hq]
        subst he
        have hne : p.fixed.engine ≠ t.engine := fun hh => by rw [hh, hkt] at hks; cases hks
        have hne' : (p.fixed.engine != t.engine) = true := by simpa using hne
        simp only [hb, hne', hbt, htr, if_true] at h
        cases hbk : backtrack st fuel (.pj p') t p.fixed.engine with
        | error e => simp [hbk] at h
        | ok v =>
          obtain ⟨up, d⟩ := v
          simp only [hbk] at h
          obtain ⟨ih1, ih2⟩ := backtrack_pj_sound σ st p.fixed.engine hks p' (f1 ▸ gF) (by rw [f1]) hres'
            (by rw [f1]; exact f5) fuel t up d hwf htrt hreq hpo hnp hbk
          cases d with
          | true =>
            simp only [Bool.not_true, Bool.false_eq_true, if_false] at h
            injection h with h
            subst h
            exact ⟨p', rfl, Or.inl (ih2 rfl)⟩
          | false =>
            have := ih1 rfl
            subst this
            simp only [Bool.not_false, if_true, Res.get] at h
            cases htt : transferTo st fuel p.fixed.engine t with
            | error e => simp [htt] at h
            | ok r1 =>
              simp only [htt] at h
              obtain ⟨s1, c1, w1, t1, e1, _, g1⟩ := transferTo_sql_sound σ st fuel p.fixed.engine t r1 hwf htrt
                (fun hq => by rw [hkt] at hq; cases hq) (hts htr) htt
              have g1 := g1 hks
              have e1 := e1 (fun hh => hne hh.symm)
              cases r1 with
              | same => exact absurd e1 (fun hh => hne hh.symm)
              | new x =>
                simp only [Res.get] at s1 c1 w1 t1 e1 g1 h
                have hsub : ∀ a : Cols, a.subset t.columns = true → a.subset x.columns = true := fun a ha =>
                  (Cols.subset_iff _ _).mpr (fun u hu => (c1 u).mpr ((Cols.subset_iff _ _).mp ha u hu))
                have hcl : p'.join.minCols.subset (p'.lhs x).columns = true := by
                  unfold PJoin.lhs; split
                  · rw [f1]; exact f5
                  · exact hsub _ f6
                have hcr : p'.join.minCols.subset (p'.rhs x).columns = true := by
                  unfold PJoin.rhs; split
                  · exact hsub _ f6
                  · rw [f1]; exact f5
                have hp : p'.join.pred.columnsRequired.subset ((p'.lhs x).columns.union (p'.rhs x).columns) = true := by
                  refine (Cols.subset_iff _ _).mpr fun u hu => ?_
                  have := (Cols.mem_union _ _ _).mp ((Cols.subset_iff _ _).mp f7 u hu)
                  have this' : u ∈ p.fixed.columns ∨ u ∈ x.columns := this.imp id (fun h => (c1 u).mpr h)
                  unfold PJoin.lhs PJoin.rhs
                  rw [f1]
                  split
                  · exact (Cols.mem_union _ _ _).mpr this'
                  · exact (Cols.mem_union _ _ _).mpr this'.symm
                cases happ : appendUnary st fuel (.pj p') x with
                | error e => simp [happ] at h
                | ok r2 =>
                  obtain ⟨T, hT, gT, _, semT, colT, engT⟩ :=
                    appendUnary_pj_sound σ st fuel p' x g1 (f1 ▸ gF) hcl hcr hp r2 happ
                  subst hT
                  simp only [happ] at h
                  injection h with h
                  subst h
                  refine ⟨p', rfl, Or.inr ⟨rfl, ⟨gT.wf, gT.truthful, ?_, ?_, ?_⟩⟩⟩
                  · show T.engine = _
                    rw [engT]; unfold PJoin.lhs; split
                    · rfl
                    · rw [f1]; exact e1
                  · show List.Perm (sem σ T) _
                    rw [semT]
                    unfold PJoin.semRows PJoin.lhs PJoin.rhs
                    split <;> simp only [s1] <;> exact List.Perm.refl _
                  · intro u
                    show u ∈ T.columns ↔ _
                    rw [colT u, PJoin.mem_appliedColumns]
                    unfold PJoin.lhs PJoin.rhs
                    split <;> simp only [Cols.mem_union, c1 u] <;> first | exact Iff.rfl | exact Or.comm

/-! ### Every option combination -/

/-- The not-finished branch of `apply` with `transfer=True`: the target transferred into the database and joined. -/
theorem pj_joined_after_transfer (σ : Leaves) (st : Store) (fuel : Nat) (p p' : PJoin) (t : Rel)
    (hkt : t.engine.kind = .iter) (hks : p.fixed.engine.kind = .sql) (gF : Good NodeInv.triv σ p.fixed)
    (hwf : t.WF) (htrt : t.Truthful σ) (hts : transferSimplify p.fixed.engine t = none)
    (f1 : p'.fixed = p.fixed) (f5 : p'.join.minCols.subset p.fixed.columns = true)
    (f6 : p'.join.minCols.subset t.columns = true)
    (f7 : p'.join.pred.columnsRequired.subset (p.fixed.columns.union t.columns) = true)
    (r1 : Res) (htt : transferTo st fuel p.fixed.engine t = .ok r1) :
    ∃ x, r1 = .new x ∧ ∀ r2, appendUnary st fuel (.pj p') x = .ok r2 → ∃ T, r2 = .new T ∧ JoinedIn σ p' t T := by
  have hne : p.fixed.engine ≠ t.engine := fun hh => by rw [hh, hkt] at hks; cases hks
  obtain ⟨s1, c1, w1, t1, e1, _, g1⟩ := transferTo_sql_sound σ st fuel p.fixed.engine t r1 hwf htrt
    (fun hq => by rw [hkt] at hq; cases hq) hts htt
  have g1 := g1 hks
  have e1 := e1 (fun hh => hne hh.symm)
  cases r1 with
  | same => exact absurd e1 (fun hh => hne hh.symm)
  | new x =>
    refine ⟨x, rfl, fun r2 happ => ?_⟩
    simp only [Res.get] at s1 c1 w1 t1 e1 g1
    have hsub : ∀ a : Cols, a.subset t.columns = true → a.subset x.columns = true := fun a ha =>
      (Cols.subset_iff _ _).mpr (fun u hu => (c1 u).mpr ((Cols.subset_iff _ _).mp ha u hu))
    have hcl : p'.join.minCols.subset (p'.lhs x).columns = true := by
      unfold PJoin.lhs; split
      · rw [f1]; exact f5
      · exact hsub _ f6
    have hcr : p'.join.minCols.subset (p'.rhs x).columns = true := by
      unfold PJoin.rhs; split
      · exact hsub _ f6
      · rw [f1]; exact f5
    have hp : p'.join.pred.columnsRequired.subset ((p'.lhs x).columns.union (p'.rhs x).columns) = true := by
      refine (Cols.subset_iff _ _).mpr fun u hu => ?_
      have := (Cols.mem_union _ _ _).mp ((Cols.subset_iff _ _).mp f7 u hu)
      have this' : u ∈ p.fixed.columns ∨ u ∈ x.columns := this.imp id (fun h => (c1 u).mpr h)
      unfold PJoin.lhs PJoin.rhs
      rw [f1]
      split
      · exact (Cols.mem_union _ _ _).mpr this'
      · exact (Cols.mem_union _ _ _).mpr this'.symm
    obtain ⟨T, hT, gT, _, semT, colT, engT⟩ :=
      appendUnary_pj_sound σ st fuel p' x g1 (f1 ▸ gF) hcl hcr hp r2 happ
    refine ⟨T, hT, ⟨gT.wf, gT.truthful, ?_, ?_, ?_⟩⟩
    · rw [engT]; unfold PJoin.lhs; split
      · rfl
      · rw [f1]; exact e1
    · rw [semT]
      unfold PJoin.semRows PJoin.lhs PJoin.rhs
      split <;> simp only [s1] <;> exact List.Perm.refl _
    · intro u
      rw [colT u, PJoin.mem_appliedColumns]
      unfold PJoin.lhs PJoin.rhs
      split <;> simp only [Cols.mem_union, c1 u] <;> first | exact Iff.rfl | exact Or.comm

/-- **`PartialJoin.apply` with EVERY combination of `backtrack` / `transfer` / `require_preferred_engine`** (preferred
engine = the fixed relation's database, target in an iteration engine). -/
theorem applyOp_pj_all_options (σ : Leaves) (st : Store) (fuel : Nat) (p : PJoin) (t : Rel) (o : Opts)
    (hpref : o.pref = none ∨ o.pref = some p.fixed.engine)
    (hkt : t.engine.kind = .iter) (hks : p.fixed.engine.kind = .sql)
    (gF : Good NodeInv.triv σ p.fixed)
    (hfix0 : p.join.resolved = true → p.join.minCols.subset p.fixed.columns = true)
    (hwf : t.WF) (htrt : t.Truthful σ) (hpo : t.prefTargetsGood NodeInv.triv σ p.fixed.engine)
    (hnp : t.spineNoPayload st) (hts : o.transfer = true → transferSimplify p.fixed.engine t = none)
    (res : Res) (h : applyOp st fuel (.pj p) t o = .ok res) :
    ∃ p', p.beginApply t o.pref = .ok (p', p.fixed.engine) ∧
      ((o.backtrack = true ∧ BTJ σ p' t (res.get t)) ∨ (o.transfer = true ∧ JoinedIn σ p' t (res.get t))) := by
  cases hbt : o.backtrack with
  | true =>
    obtain ⟨p', hb, B | J⟩ := applyOp_pj_any_transfer σ st fuel p t o hpref hbt hkt hks gF hfix0 hwf htrt hpo hnp hts res h
    · exact ⟨p', hb, Or.inl ⟨rfl, B⟩⟩
    · exact ⟨p', hb, Or.inr J⟩
  | false =>
    cases fuel with
    | zero => rw [applyOp] at h; cases h
    | succ fuel =>
      rw [applyOp] at h
      simp only [AnyOp.beginApply, bind, Except.bind, pure, Except.pure, Except.map] at h
      cases hb : p.beginApply t o.pref with
      | error e => simp [hb] at h
      | ok v =>
        obtain ⟨p', e⟩ := v
        obtain ⟨f1, _, _, f4, f5, f6, f7, _⟩ := pjBeginApply_ok p t o.pref p' e hfix0 hb
        have he : e = p.fixed.engine := by rcases hpref with hq | hq <;> simp [f4, hq]
        subst he
        have hne : p.fixed.engine ≠ t.engine := fun hh => by rw [hh, hkt] at hks; cases hks
        have hne' : (p.fixed.engine != t.engine) = true := by simpa using hne
        simp only [hb, hne', hbt, if_true, Bool.false_eq_true, if_false, Bool.not_false, Res.get] at h
        have hx : ∀ r, appendUnary st fuel (.pj p') t ≠ .ok r :=
          fun r => appendUnary_pj_cross_engine st fuel p' t hkt (by rw [f1]; exact hne) r
        cases htr : o.transfer with
        | false =>
          exfalso
          simp only [htr, Bool.false_eq_true, if_false] at h
          cases happ : appendUnary st fuel (.pj p') t with
          | ok r => exact hx r happ
          | error e =>
            simp only [happ] at h
            split at h
            · simp [throw, throwThe, MonadExceptOf.throw] at h
            · cases h
        | true =>
          simp only [htr, if_true] at h
          cases htt : transferTo st fuel p.fixed.engine t with
          | error e => simp [htt] at h
          | ok r1 =>
            obtain ⟨x, hx1, K⟩ := pj_joined_after_transfer σ st fuel p p' t hkt hks gF hwf htrt (hts htr) f1 f5 f6 f7 r1 htt
            subst hx1
            simp only [htt, Res.get] at h
            cases happ : appendUnary st fuel (.pj p') x with
            | error e => simp [happ] at h
            | ok r2 =>
              obtain ⟨T, hT, J⟩ := K r2 happ
              subst hT
              simp only [happ] at h
              injection h with h
              subst h
              exact ⟨p', rfl, Or.inr ⟨rfl, J⟩⟩

/-! ### Rejection of cross-engine joins (C20) -/

/-- `Join.apply(lhs, rhs)` on operands of different engines whose columns are fine raises `EngineError`. -/
theorem binaryApply_join_cross_engine_error (st : Store) (fuel : Nat) (j : JoinOp) (l r : Rel)
    (hne : l.engine ≠ r.engine) (op' : BOp) (hb : joinBeginApply j l r = .ok op') :
    binaryApply st (fuel+2) (.join j) l r = .error .engine := by
  obtain ⟨op, hop, hpred, htriv⟩ := joinBeginApply_cross j l r op' hne hb
  subst hop
  have hne' : (l.engine != r.engine) = true := by simpa using hne
  rw [binaryApply]
  simp only [bind, Except.bind, hb]
  cases hk : l.engine.kind with
  | iter =>
    simp only [binaryFinishApply, hpred]
    by_cases ht : (j.pred.asTrivial == some true) = true
    · obtain ⟨h1, h2⟩ := htriv ht
      simp [ht, h1, h2, hne']
    · simp [ht, hne']
  | sql =>
    simp only []
    rw [appendBinarySql]
    simp [bind, Except.bind, throw, throwThe, MonadExceptOf.throw, hne']

/-- `relation.join(fixed, backtrack=False, transfer=False)` across engines never returns a relation. -/
theorem applyOp_pj_no_options_rejected (st : Store) (fuel : Nat) (p : PJoin) (t : Rel) (o : Opts)
    (hpref : o.pref = none ∨ o.pref = some p.fixed.engine) (hbt : o.backtrack = false) (htr : o.transfer = false)
    (hkt : t.engine.kind = .iter) (hne : p.fixed.engine ≠ t.engine)
    (hfix0 : p.join.resolved = true → p.join.minCols.subset p.fixed.columns = true)
    (res : Res) : applyOp st fuel (.pj p) t o ≠ .ok res := by
  intro h
  cases fuel with
  | zero => rw [applyOp] at h; cases h
  | succ fuel =>
    rw [applyOp] at h
    simp only [AnyOp.beginApply, bind, Except.bind, pure, Except.pure, Except.map] at h
    cases hb : p.beginApply t o.pref with
    | error e => simp [hb] at h
    | ok v =>
      obtain ⟨p', e⟩ := v
      obtain ⟨f1, _, _, f4, _, _, _, _⟩ := pjBeginApply_ok p t o.pref p' e hfix0 hb
      have he : e = p.fixed.engine := by rcases hpref with hq | hq <;> simp [f4, hq]
      subst he
      have hne' : (p.fixed.engine != t.engine) = true := by simpa using hne
      simp only [hb, hne', hbt, htr, if_true, Bool.false_eq_true, if_false, Bool.not_false, Res.get] at h
      have hx : ∀ r, appendUnary st fuel (.pj p') t ≠ .ok r :=
        fun r => appendUnary_pj_cross_engine st fuel p' t hkt (by rw [f1]; exact hne) r
      cases happ : appendUnary st fuel (.pj p') t with
      | ok r => exact hx r happ
      | error e =>
        simp only [happ] at h
        split at h
        · simp [throw, throwThe, MonadExceptOf.throw] at h
        · cases h

end DafRel
