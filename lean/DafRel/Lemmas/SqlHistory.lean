/-
Construction histories inside one SQL engine (`SqlBuild`): the tree the factories build has, in the
reference semantics, exactly the rows of the direct evaluation of the operation sequence - the SQL
analogue of `build_invariant` (C01), composed from the tree-building induction.
-/
import DafRel.Lemmas.JoinFactory
import DafRel.Lemmas.SqlTransfer

namespace DafRel

variable {I : NodeInv}


theorem joinRows_congr_common (c1 c2 : Cols) (p : Pred) (L R : List Row) (h : ∀ u, u ∈ c1 ↔ u ∈ c2) :
    joinRows c1 p L R = joinRows c2 p L R := by
  unfold joinRows
  have : ∀ a b : Row, a.agree b c1 = a.agree b c2 := by
    intro a b
    unfold Row.agree
    rw [Bool.eq_iff_iff]
    simp only [List.all_eq_true]
    exact ⟨fun g u hu => g u ((h u).mpr hu), fun g u hu => g u ((h u).mp hu)⟩
  simp only [this]

theorem keys_inter_congr (a a' b b' : Cols) (ha : ∀ u, u ∈ a ↔ u ∈ a') (hb : ∀ u, u ∈ b ↔ u ∈ b') :
    ∀ u, u ∈ Cols.keys (Cols.inter a b) ↔ u ∈ Cols.keys (Cols.inter a' b') := by
  intro u
  simp only [Cols.keys, Cols.inter, List.mem_filter, decide_eq_true_eq, ha u, hb u]

/-- `sql.Engine.append_binary(Chain, lhs, rhs)` on two Good trees with the same columns. -/
theorem appendBinarySql_chain_sound (σ : Leaves) (st : Store) (fuel : Nat) (l r : Rel)
    (gl : Good I σ l) (gr : Good I σ r) (hcols : ∀ t, t ∈ l.columns ↔ t ∈ r.columns)
    (res : BRes) (h : appendBinarySql st fuel .chain l r = .ok res) :
    ∃ T, res = .new T ∧ Good I σ T ∧ SelOK σ T ∧ sem σ T = sem σ l ++ sem σ r ∧
      (∀ c, c ∈ T.columns ↔ c ∈ l.columns) ∧ T.engine = l.engine := by
  cases fuel with
  | zero => rw [appendBinarySql] at h; cases h
  | succ fuel =>
    rw [appendBinarySql] at h
    simp only [bind, Except.bind, pure, Except.pure] at h
    split at h
    · cases h
    · cases h1 : conform st fuel l with
      | error e => simp [h1] at h
      | ok cl =>
        cases h2 : conform st fuel r with
        | error e => simp [h1, h2] at h
        | ok cr =>
          simp only [h1, h2] at h
          obtain ⟨g1, c1⟩ := (treeBuild_sound σ st fuel).conform l cl gl h1
          obtain ⟨g2, c2⟩ := (treeBuild_sound σ st fuel).conform r cr gr h2
          cases h3 : appendBinarySel st fuel .chain (cl.get l) (cr.get r) with
          | error e => simp [h3] at h
          | ok br =>
            simp only [h3] at h
            cases fuel with
            | zero => rw [appendBinarySel] at h3; cases h3
            | succ fuel' =>
              obtain ⟨S, hS, gS, okS, semS, colS, engS⟩ :=
                chain_sel_sound σ st fuel' _ _ g1 g2 c1.ok.isSel c2.ok.isSel
                  (fun t => (c1.cols t).trans ((hcols t).trans (c2.cols t).symm)) br h3
              subst hS
              simp only [BRes.get] at h
              injection h with h
              exact ⟨S, h.symm, gS, okS, by rw [semS, c1.sem_eq, c2.sem_eq],
                fun c => (colS c).trans (c1.cols c), by rw [engS, c1.engine]⟩

/-- `lhs.chain(rhs)` inside one SQL engine. -/
theorem binaryApply_chain_sql_sound (σ : Leaves) (st : Store) (fuel : Nat) (l r : Rel)
    (gl : Good I σ l) (gr : Good I σ r) (res : BRes) (h : binaryApply st fuel .chain l r = .ok res) :
    ∃ T, res = .new T ∧ Good I σ T ∧ SelOK σ T ∧ sem σ T = sem σ l ++ sem σ r ∧
      (∀ c, c ∈ T.columns ↔ c ∈ l.columns) ∧ T.engine = l.engine := by
  cases fuel with
  | zero => rw [binaryApply] at h; cases h
  | succ fuel =>
    rw [binaryApply] at h
    simp only [bind, Except.bind, gl.sql] at h
    cases hcb : chainBeginApply l r with
    | error e => simp [hcb] at h
    | ok op' =>
      simp only [hcb] at h
      unfold chainBeginApply at hcb
      split at hcb
      · cases hcb
      · split at hcb
        · cases hcb
        · rename_i hc
          injection hcb with hcb
          subst hcb
          have hcols : ∀ t, t ∈ l.columns ↔ t ∈ r.columns :=
            (Cols.seteq_iff l.columns r.columns).mp (by simpa using hc)
          exact appendBinarySql_chain_sound σ st fuel l r gl gr hcols res h

/-- `relation.materialized(name)` inside a SQL engine, on a Good tree. -/
theorem materialize_good (σ : Leaves) (st : Store) (fuel : Nat) (t : Rel) (name : String) (res : Res)
    (gt : Good I σ t) (hnew : ∀ x : Rel, x.isAtom = true → x.oid = 0 → I.atom x)
    (h : materialize st fuel t name = .ok res) :
    Good I σ (res.get t) ∧ sem σ (res.get t) = sem σ t ∧ (∀ c, c ∈ (res.get t).columns ↔ c ∈ t.columns) ∧
      (res.get t).engine = t.engine := by
  have hk := gt.sql
  cases fuel with
  | zero => rw [materialize] at h; cases h
  | succ fuel =>
    rw [materialize] at h
    simp only [hk, bind, Except.bind, pure, Except.pure] at h
    cases hc : conform st fuel t with
    | error e => simp [hc] at h
    | ok ct =>
      simp only [hc] at h
      obtain ⟨g, C⟩ := (treeBuild_sound σ st fuel).conform t ct gt hc
      split at h
      · cases h
      · split at h
        · injection h with h; subst h
          exact ⟨g, C.sem_eq, C.cols, C.engine⟩
        · cases ha : applySkip (Rel.mat 0 name (ct.get t)) {} with
          | error e => simp [ha] at h
          | ok r =>
            simp only [ha] at h
            injection h with h; subst h
            have gM : Good I σ (Rel.mat 0 name (ct.get t)) :=
              Good.atom _ rfl C.ok.wf C.ok.truthful (by show (ct.get t).engine.kind = _; rw [C.engine]; exact hk)
                (hnew _ rfl rfl)
            obtain ⟨gW, W⟩ := good_wrap σ _ r gM rfl rfl ha
            show Good I σ r ∧ sem σ r = _ ∧ (∀ c, c ∈ r.columns ↔ _) ∧ r.engine = _
            exact ⟨gW, by rw [W.sem_eq]; exact C.sem_eq, fun c => (W.cols c).trans (C.cols c),
              by rw [W.engine]; exact C.engine⟩

/-- What is true of the tree built for a SQL history. -/
structure SqlBuilt (I : NodeInv) (σ : Leaves) (eng : Engine) (b : SqlBuild) (r : Rel) : Prop where
  good : Good I σ r
  sem_eq : sem σ r = b.direct σ
  cols : ∀ c, c ∈ r.columns ↔ c ∈ b.cols
  engine : r.engine = eng

/-- **Every construction history inside one SQL engine builds a tree with the rows of its direct
evaluation.** -/
theorem sql_build_invariantI (σ : Leaves) (st : Store) (eng : Engine) (hk : eng.kind = .sql)
    (hnew : ∀ x : Rel, x.isAtom = true → x.oid = 0 → I.atom x) :
    (b : SqlBuild) → (r : Rel) → b.ok σ → b.LeavesOK I eng → b.tree st eng = .ok r → SqlBuilt I σ eng b r
  | .leaf oid cols name mn mx msgs, r, hok, hl, h => by
    simp only [SqlBuild.tree] at h
    injection h with h; subst h
    exact ⟨Good.atom _ rfl trivial hok hk hl, rfl, fun _ => Iff.rfl, rfl⟩
  | .op o b, r, hok, hl, h => by
    simp only [SqlBuild.tree] at h
    cases hb : SqlBuild.tree st eng b with
    | error e => simp [hb] at h
    | ok t =>
      simp only [hb] at h
      have ih := sql_build_invariantI σ st eng hk hnew b t hok hl hb
      cases ha : applyOp st defaultFuel (.u o) t {} with
      | error e => simp [ha] at h
      | ok res =>
        simp only [ha] at h
        injection h with h; subst h
        obtain ⟨g, F, _⟩ := (treeBuild_sound σ st defaultFuel).apply o t res ih.good ha
        refine ⟨g, ?_, ?_, by rw [F.engine]; exact ih.engine⟩
        · rw [F.sem_eq, ih.sem_eq]
          exact UOp.sem_congr o _ _ (UOp.appliedColumns_congr o _ _ ih.cols) _
        · intro c
          rw [F.cols c]
          exact UOp.appliedColumns_congr o _ _ ih.cols c
  | .chain a b, r, hok, hl, h => by
    simp only [SqlBuild.tree] at h
    cases ha : SqlBuild.tree st eng a with
    | error e => simp [ha] at h
    | ok ta =>
      cases hb : SqlBuild.tree st eng b with
      | error e => simp [ha, hb] at h
      | ok tb =>
        simp only [ha, hb] at h
        have iha := sql_build_invariantI σ st eng hk hnew a ta hok.1 hl.1 ha
        have ihb := sql_build_invariantI σ st eng hk hnew b tb hok.2 hl.2 hb
        cases hc : binaryApply st defaultFuel .chain ta tb with
        | error e => simp [hc] at h
        | ok res =>
          simp only [hc] at h
          injection h with h; subst h
          obtain ⟨T, hT, gT, _, semT, colT, engT⟩ :=
            binaryApply_chain_sql_sound σ st defaultFuel ta tb iha.good ihb.good res hc
          subst hT
          exact ⟨gT, by rw [show (BRes.new T).get ta tb = T from rfl, semT, iha.sem_eq, ihb.sem_eq]; rfl,
            fun c => (colT c).trans (iha.cols c), by rw [show (BRes.new T).get ta tb = T from rfl, engT]; exact iha.engine⟩
  | .join a b pred, r, hok, hl, h => by
    simp only [SqlBuild.tree] at h
    cases ha : SqlBuild.tree st eng a with
    | error e => simp [ha] at h
    | ok ta =>
      cases hb : SqlBuild.tree st eng b with
      | error e => simp [ha, hb] at h
      | ok tb =>
        simp only [ha, hb] at h
        have iha := sql_build_invariantI σ st eng hk hnew a ta hok.1 hl.1 ha
        have ihb := sql_build_invariantI σ st eng hk hnew b tb hok.2 hl.2 hb
        cases hj : Rel.joinWith st ta tb pred true false with
        | error e => simp [hj] at h
        | ok res =>
          simp only [hj] at h
          injection h with h; subst h
          unfold Rel.joinWith JoinOp.make at hj
          simp only at hj
          obtain ⟨common, T, hT, gT, _, semT, colT, engT, _, _, hcommon⟩ :=
            applyOp_pj_sound σ st defaultFuel ⟨⟨pred, [], none⟩, tb, false⟩ ta { backtrack := true, transfer := false }
              iha.good ihb.good rfl (by rw [ihb.engine, iha.engine])
              (fun hr => by simp [JoinOp.resolved] at hr) res hj
          subst hT
          have hc := hcommon (by simp [JoinOp.resolved])
          simp only [JoinOp.appliedCommonColumns, JoinOp.resolved, Bool.not_false, if_true] at hc
          have hcm : common = Cols.keys (Cols.inter tb.columns ta.columns) := by
            simp [Cols.subset] at hc
            exact hc.symm
          refine ⟨gT, ?_, ?_, by rw [show (Res.new T).get ta = T from rfl, engT]; exact iha.engine⟩
          · show sem σ T = _
            rw [semT]
            simp only [PJoin.lhs, PJoin.rhs, Bool.false_eq_true, if_false, SqlBuild.direct]
            rw [iha.sem_eq, ihb.sem_eq, hcm]
            exact joinRows_congr_common _ _ _ _ _ (keys_inter_congr _ _ _ _ ihb.cols iha.cols)
          · intro c
            show c ∈ T.columns ↔ _
            rw [colT c]
            simp only [PJoin.lhs, PJoin.rhs, Bool.false_eq_true, if_false, SqlBuild.cols, Cols.mem_union,
              iha.cols c, ihb.cols c]
  | .mat name b, r, hok, hl, h => by
    simp only [SqlBuild.tree] at h
    cases hb : SqlBuild.tree st eng b with
    | error e => simp [hb] at h
    | ok t =>
      simp only [hb] at h
      have ih := sql_build_invariantI σ st eng hk hnew b t hok hl hb
      cases hm : materialize st defaultFuel t name with
      | error e => simp [hm] at h
      | ok res =>
        simp only [hm] at h
        injection h with h; subst h
        obtain ⟨g, s1, s2, s3⟩ := materialize_good σ st defaultFuel t name res ih.good hnew hm
        exact ⟨g, by rw [s1]; exact ih.sem_eq, fun c => (s2 c).trans (ih.cols c), by rw [s3]; exact ih.engine⟩

theorem leavesOK_triv (eng : Engine) : (b : SqlBuild) → b.LeavesOK NodeInv.triv eng
  | .leaf .. => trivial
  | .op _ b => leavesOK_triv eng b
  | .chain a b => ⟨leavesOK_triv eng a, leavesOK_triv eng b⟩
  | .join a b _ => ⟨leavesOK_triv eng a, leavesOK_triv eng b⟩
  | .mat _ b => leavesOK_triv eng b

/-- The same with no extra invariant. -/
theorem sql_build_invariant (σ : Leaves) (st : Store) (eng : Engine) (hk : eng.kind = .sql)
    (b : SqlBuild) (r : Rel) (hok : b.ok σ) (h : b.tree st eng = .ok r) : SqlBuilt NodeInv.triv σ eng b r :=
  sql_build_invariantI σ st eng hk (fun _ _ _ => trivial) b r hok (leavesOK_triv eng b) h

end DafRel
