/-
The metadata theorem (C06): columns and row bounds are truthful for every well-formed tree
over truthful leaves, hence so are `is_join_identity` and `is_trivial`.
-/
import DafRel.Lemmas.WF

namespace DafRel

/-- Facts the metadata promises about the rows of a relation. -/
structure MetaOK (rows : List Row) (cols : Cols) (mn : Nat) (mx : Option Nat) : Prop where
  keys : RowsHaveCols rows cols
  lower : mn ≤ rows.length
  upper : ∀ m, mx = some m → rows.length ≤ m

theorem UOp.meta_ok (op : UOp) (rows : List Row) (tcols : Cols) (mn : Nat) (mx : Option Nat)
    (h : MetaOK rows tcols mn mx) (hwf : op.wfOn tcols = true) :
    MetaOK (op.sem (op.appliedColumns tcols) rows) (op.appliedColumns tcols) (op.appliedMinRows mn)
      (op.appliedMaxRows tcols mx) := by
  obtain ⟨hk, hl, hu⟩ := h
  cases op with
  | «calc» tag e =>
    refine ⟨?_, ?_, ?_⟩
    · intro r hr
      simp only [UOp.sem, List.mem_map] at hr
      obtain ⟨r0, hr0, rfl⟩ := hr
      exact (hk r0 hr0).set tag _
    · simpa [UOp.sem, UOp.appliedMinRows] using hl
    · simpa [UOp.sem, UOp.appliedMaxRows] using hu
  | dedup =>
    refine ⟨?_, ?_, ?_⟩
    · intro r hr
      exact hk r (mem_firstOccAux _ _ _ _ hr)
    · simp only [UOp.sem, UOp.appliedMinRows]
      split
      · rename_i h1
        have hne : rows ≠ [] := by
          intro h0; subst h0; simp at hl; omega
        have := firstOcc_ne_nil (UOp.dedup.appliedColumns tcols) rows hne
        cases hf : firstOcc (UOp.dedup.appliedColumns tcols) rows with
        | nil => exact absurd hf this
        | cons _ _ => simp
      · omega
    · intro m hm
      simp only [UOp.appliedMaxRows] at hm
      have hle : (firstOcc tcols rows).length ≤ rows.length := length_firstOccAux_le _ _ _
      simp only [UOp.sem, UOp.appliedColumns]
      split at hm
      · rename_i hempty
        have h1 := length_firstOcc_noCols tcols hempty rows
        cases mx with
        | none => simp at hm; omega
        | some k =>
          simp only at hm
          have := hu k rfl
          split at hm <;> (simp at hm; omega)
      · have := hu m hm
        omega
  | identity =>
    exact ⟨hk, by simpa [UOp.appliedMinRows, UOp.sem] using hl, by simpa [UOp.appliedMaxRows, UOp.sem] using hu⟩
  | proj c =>
    simp only [UOp.wfOn, UOp.columnsRequired, Bool.and_true, Cols.subset_iff] at hwf
    refine ⟨?_, ?_, ?_⟩
    · intro r hr
      simp only [UOp.sem, List.mem_map] at hr
      obtain ⟨r0, hr0, rfl⟩ := hr
      exact (hk r0 hr0).restrict c hwf
    · simpa [UOp.sem, UOp.appliedMinRows] using hl
    · simpa [UOp.sem, UOp.appliedMaxRows] using hu
  | sel p =>
    refine ⟨?_, ?_, ?_⟩
    · intro r hr
      simp only [UOp.sem, List.mem_filter] at hr
      exact hk r hr.1
    · simp [UOp.appliedMinRows]
    · intro m hm
      simp only [UOp.appliedMaxRows] at hm
      have := hu m hm
      have := List.length_filter_le (fun r => p.val r) rows
      simp only [UOp.sem]
      omega
  | slice s e =>
    refine ⟨?_, ?_, ?_⟩
    · intro r hr
      exact hk r (mem_sliceList _ _ _ _ hr)
    · cases e with
      | none => simp only [UOp.sem, UOp.appliedMinRows, length_sliceList]; omega
      | some e' => simp only [UOp.sem, UOp.appliedMinRows, length_sliceList]; omega
    · intro m hm
      cases e with
      | none =>
        cases mx with
        | none => simp [UOp.appliedMaxRows] at hm
        | some k =>
          simp only [UOp.appliedMaxRows, Option.some.injEq] at hm
          have := hu k rfl
          simp only [UOp.sem, length_sliceList]
          omega
      | some e' =>
        cases mx with
        | none =>
          simp only [UOp.appliedMaxRows, Option.some.injEq] at hm
          simp only [UOp.sem, length_sliceList]
          omega
        | some k =>
          simp only [UOp.appliedMaxRows, Option.some.injEq] at hm
          have := hu k rfl
          simp only [UOp.sem, length_sliceList]
          omega
  | sort ts =>
    refine ⟨?_, ?_, ?_⟩
    · intro r hr
      exact hk r ((mem_isort _ _ _).mp hr)
    · simpa [UOp.sem, UOp.appliedMinRows, length_isort] using hl
    · simpa [UOp.sem, UOp.appliedMaxRows, length_isort] using hu

/-- **C06.** Columns and row bounds of every well-formed tree over truthful leaves are truthful. -/
theorem metadata_truthful (σ : Leaves) : (t : Rel) → t.WF → t.Truthful σ →
    MetaOK (sem σ t) t.columns t.minRows t.maxRows
  | .leaf oid _ cols _ mn mx _ _, _, ht => by
    simp only [Rel.Truthful] at ht
    exact ⟨ht.1, ht.2.1, ht.2.2⟩
  | .unary op t cols, hwf, ht => by
    simp only [Rel.WF] at hwf
    simp only [Rel.Truthful] at ht
    obtain ⟨hwt, hc, hop⟩ := hwf
    have ih := metadata_truthful σ t hwt ht
    subst hc
    simpa [sem, Rel.columns, Rel.minRows, Rel.maxRows] using UOp.meta_ok op _ _ _ _ ih hop
  | .binary op l r cols, hwf, ht => by
    simp only [Rel.WF] at hwf
    simp only [Rel.Truthful] at ht
    obtain ⟨hwl, hwr, hop⟩ := hwf
    have ihl := metadata_truthful σ l hwl ht.1
    have ihr := metadata_truthful σ r hwr ht.2
    cases op with
    | chain =>
      simp only at hop
      obtain ⟨hc, heq⟩ := hop
      subst hc
      refine ⟨?_, ?_, ?_⟩
      · intro x hx
        simp only [sem, List.mem_append] at hx
        rcases hx with hx | hx
        · exact ihl.keys x hx
        · exact (ihr.keys x hx).congr (fun t => (heq t).symm)
      · simp only [sem, Rel.minRows, BOp.chainMinRows, List.length_append]
        have := ihl.lower; have := ihr.lower; omega
      · intro m hm
        simp only [Rel.maxRows, BOp.chainMaxRows] at hm
        simp only [sem, List.length_append]
        cases hlm : l.maxRows <;> cases hrm : r.maxRows <;> simp [hlm, hrm] at hm
        have := ihl.upper _ hlm; have := ihr.upper _ hrm; omega
    | join j =>
      simp only at hop
      obtain ⟨hc, _, _⟩ := hop
      subst hc
      refine ⟨?_, ?_, ?_⟩
      · intro x hx
        obtain ⟨a, b, ha, hb, rfl⟩ := mem_joinRows _ _ _ _ _ hx
        exact (ihl.keys a ha).merge (ihr.keys b hb)
      · simp [Rel.minRows]
      · intro m hm
        simp only [Rel.maxRows, JoinOp.appliedMaxRows] at hm
        have hlen := length_joinRows_le j.minCols j.pred (sem σ l) (sem σ r)
        simp only [sem]
        split at hm
        · rename_i hz
          simp only [Bool.or_eq_true, beq_iff_eq] at hz
          injection hm with hm
          subst hm
          rcases hz with hz | hz
          · have := ihl.upper 0 hz
            have h0 : (sem σ l).length = 0 := by omega
            rw [h0, Nat.zero_mul] at hlen; exact hlen
          · have := ihr.upper 0 hz
            have h0 : (sem σ r).length = 0 := by omega
            rw [h0, Nat.mul_zero] at hlen; exact hlen
        · cases hlm : l.maxRows <;> cases hrm : r.maxRows <;> simp [hlm, hrm] at hm
          rename_i a b
          have h1 := ihl.upper _ hlm
          have h2 := ihr.upper _ hrm
          subst hm
          calc (joinRows j.minCols j.pred (sem σ l) (sem σ r)).length
              ≤ (sem σ l).length * (sem σ r).length := hlen
            _ ≤ a * b := Nat.mul_le_mul h1 h2
    | ignoreOne il => exact absurd hop (by simp)
  | .mat _ _ t, hwf, ht => by
    simpa [sem, Rel.columns, Rel.minRows, Rel.maxRows] using metadata_truthful σ t hwf ht
  | .transfer _ _ t, hwf, ht => by
    simpa [sem, Rel.columns, Rel.minRows, Rel.maxRows] using metadata_truthful σ t hwf ht
  | .select _ _ _ _ _ _ _ _ t, hwf, ht => by
    simpa [sem, Rel.columns, Rel.minRows, Rel.maxRows] using metadata_truthful σ t hwf ht

/-- A relation flagged as join identity contains exactly the one empty row. -/
theorem joinIdentity_sound (σ : Leaves) (t : Rel) (hwf : t.WF) (ht : t.Truthful σ)
    (h : t.isJoinIdentity = true) : sem σ t = [Row.empty] := by
  have m := metadata_truthful σ t hwf ht
  simp only [Rel.isJoinIdentity, Bool.and_eq_true, beq_iff_eq] at h
  obtain ⟨⟨hc, hmax⟩, hmin⟩ := h
  have h1 := m.upper 1 hmax
  have h2 := m.lower
  rw [hmin] at h2
  have hlen : (sem σ t).length = 1 := by omega
  match hs : sem σ t, hlen with
  | [r], _ =>
    have hr := m.keys r (by simp [hs])
    have hcols : t.columns = [] := by
      cases hcc : t.columns with
      | nil => rfl
      | cons _ _ => simp [Cols.isEmpty, hcc] at hc
    have : r = Row.empty := by
      funext u
      have := hr u
      rw [hcols] at this
      cases hru : r u with
      | none => rfl
      | some v => simp [hru] at this
    rw [this]

/-- A relation whose `max_rows` is 0 has no rows. -/
theorem maxRows_zero_sound (σ : Leaves) (t : Rel) (hwf : t.WF) (ht : t.Truthful σ)
    (h : t.maxRows = some 0) : sem σ t = [] := by
  have := (metadata_truthful σ t hwf ht).upper 0 h
  exact List.eq_nil_of_length_eq_zero (by omega)

end DafRel
