/-
Soundness of back-tracking insertion in iteration engines (`iteration.Engine.backtrack_unary`),
for the unary operation classes: the relation it returns has the content the operation applied at
the root would have (when it reports `done`), or is a relation on which applying the operation at
the root gives that content (when it does not).  Groundwork for C03.
-/
import DafRel.Lemmas.Commute
import DafRel.Lemmas.Build
import DafRel.Spec.Backtrack
import DafRel.Lemmas.ApplySpec
import DafRel.Lemmas.ConformSound

namespace DafRel


/-! ### The shape of commutation reports -/

/-- The reported second operation is the existing one, or `Identity` (a projection swallowing a
projection or an unused calculation), or the widened projection of a calculation moving past a
projection. -/
theorem commute_second_shape (o cur : UOp) (tcols ccols : Cols) :
    (o.commute cur tcols ccols).second = cur ∨ (o.commute cur tcols ccols).second = .identity ∨
      (∃ tag e c, o = .calc tag e ∧ cur = .proj c ∧ (o.commute cur tcols ccols).second = .proj (c.insert tag)) := by
  unfold UOp.commute
  cases o <;> cases cur <;> simp only [UOp.commuteFail] <;> (repeat' split) <;>
    first
      | exact Or.inl rfl
      | exact Or.inl trivial
      | exact Or.inr (Or.inl rfl)
      | exact Or.inr (Or.inl trivial)
      | exact Or.inr (Or.inr ⟨_, _, _, rfl, rfl, rfl⟩)

/-- Operations other than projections move as themselves and never partially. -/
theorem commute_first_nonproj (o cur : UOp) (tcols ccols : Cols) (f : UOp) (ho : o.isProj = false)
    (h : (o.commute cur tcols ccols).first = some f) :
    f = o ∧ (o.commute cur tcols ccols).done = true := by
  unfold UOp.commute at h ⊢
  cases o <;> simp only [UOp.isProj] at ho <;> cases cur <;> simp only [UOp.commuteFail] at h ⊢ <;>
    (repeat' split at h) <;> (try (simp at h)) <;> (try (injection h with h; subst h)) <;> simp_all

/-- A projection moves as a projection. -/
theorem commute_first_proj (cols : Cols) (cur : UOp) (tcols ccols : Cols) (f : UOp)
    (h : ((UOp.proj cols).commute cur tcols ccols).first = some f) : ∃ F, f = .proj F := by
  unfold UOp.commute at h
  cases cur <;> simp only at h <;> (repeat' split at h) <;>
    (injection h with h; exact ⟨_, h.symm⟩)

/-! ### Locality: what a projection of the result needs of the input -/

/-- Selections, slices, sorts (and the identity) can be computed on rows restricted to any column
set that contains the columns they require. -/
theorem restrict_local (cur : UOp) (F : Cols) (hreq : cur.columnsRequired.subset F = true)
    (hkind : cur.isDedup = false ∧ (∀ t e, cur ≠ .calc t e) ∧ (∀ c, cur ≠ .proj c)) (y : List Row) (c1 c2 : Cols) :
    cur.sem c1 (y.map (fun r => r.restrict F)) = (cur.sem c2 y).map (fun r => r.restrict F) := by
  cases cur with
  | dedup => simp [UOp.isDedup] at hkind
  | «calc» t e => exact absurd rfl (hkind.2.1 t e)
  | proj c => exact absurd rfl (hkind.2.2 c)
  | identity => rfl
  | slice a b => exact sliceList_map _ a b y
  | sel p =>
    simp only [UOp.sem, List.filter_map]
    congr 1
    apply List.filter_congr
    intro r _
    exact Pred.val_restrict p r F hreq
  | sort ts =>
    simp only [UOp.sem]
    apply isort_map
    intro a b _ _
    have hv : ∀ (t : SortTerm), t ∈ ts → ∀ r, t.expr.val (Row.restrict r F) = t.expr.val r :=
      fun t ht r => Expr.val_restrict t.expr r F (sortCols_subset_term ts F hreq t ht)
    exact lexLe_congr ts a _ b _ (fun t ht => hv t ht a) (fun t ht => hv t ht b)

/-- If a function of a row only looks at the columns `F`, lists that agree on `F` have the same image. -/
theorem map_of_restrict_eq {β : Type} (g : Row → β) (F : Cols) (x l : List Row)
    (hg : ∀ r, g r = g (r.restrict F))
    (heq : x.map (fun r => r.restrict F) = l.map (fun r => r.restrict F)) : x.map g = l.map g := by
  have h1 : x.map g = (x.map (fun r => r.restrict F)).map g := by
    rw [List.map_map]; apply List.map_congr_left; intro r _; exact hg r
  have h2 : l.map g = (l.map (fun r => r.restrict F)).map g := by
    rw [List.map_map]; apply List.map_congr_left; intro r _; exact hg r
  rw [h1, h2, heq]

/-- **The step a partly inserted projection needs.**  `proj cols` is being moved past `cur`; its
first operation `proj F` was only partly inserted, leaving an upstream relation with columns
`U ⊇ F` whose rows agree with the target's on `F`.  Then the reported second operation is
applicable to that relation and, followed by the projection onto `cols`, gives what `cur` followed
by the projection gives on the target. -/
theorem proj_pending_step (cols : Cols) (cur : UOp) (tcols F U : Cols) (l x : List Row)
    (hcur : cur.wfOn tcols = true) (hself : (UOp.proj cols).wfOn (cur.appliedColumns tcols) = true)
    (hnd : cur.isDedup = false)
    (hf : ((UOp.proj cols).commute cur tcols (cur.appliedColumns tcols)).first = some (.proj F))
    (hFU : ∀ t, t ∈ F → t ∈ U) (hUT : ∀ t, t ∈ U → t ∈ tcols)
    (heq : x.map (fun r => r.restrict F) = l.map (fun r => r.restrict F)) :
    let second := ((UOp.proj cols).commute cur tcols (cur.appliedColumns tcols)).second
    second.wfOn U = true ∧ second.columnsRequired.subset U = true ∧
      (∀ c, c ∈ cols → c ∈ second.appliedColumns U) ∧
      (second.sem (second.appliedColumns U) x).map (fun r => r.restrict cols) =
        (cur.sem (cur.appliedColumns tcols) l).map (fun r => r.restrict cols) := by
  have hsubU : ∀ (A : Cols), (∀ t, t ∈ A → t ∈ F) → A.subset U = true := by
    intro A hA; rw [Cols.subset_iff]; intro t ht; exact hFU t (hA t ht)
  -- the generic branch, for operations that keep their target's columns
  have generic : ∀ (hkeep : ∀ c, cur.appliedColumns c = c) (hwf : ∀ c, cur.wfOn c = cur.columnsRequired.subset c)
      (hkind : cur.isDedup = false ∧ (∀ t e, cur ≠ .calc t e) ∧ (∀ c, cur ≠ .proj c))
      (hcomm : (UOp.proj cols).commute cur tcols (cur.appliedColumns tcols) =
        if !(cur.columnsRequired.subset cols) then
          ⟨some (.proj (cols.union cur.columnsRequired)), cur, false⟩
        else ⟨some (.proj cols), cur, true⟩),
      let second := ((UOp.proj cols).commute cur tcols (cur.appliedColumns tcols)).second
      second.wfOn U = true ∧ second.columnsRequired.subset U = true ∧
        (∀ c, c ∈ cols → c ∈ second.appliedColumns U) ∧
        (second.sem (second.appliedColumns U) x).map (fun r => r.restrict cols) =
          (cur.sem (cur.appliedColumns tcols) l).map (fun r => r.restrict cols) := by
    intro hkeep hwf hkind hcomm
    have hsec : ((UOp.proj cols).commute cur tcols (cur.appliedColumns tcols)).second = cur := by
      rw [hcomm]; split <;> rfl
    have hFfacts : (∀ t, t ∈ cols → t ∈ F) ∧ (∀ t, t ∈ cur.columnsRequired → t ∈ F) := by
      rw [hcomm] at hf
      by_cases h : cur.columnsRequired.subset cols = true
      · simp only [h, Bool.not_true, Bool.false_eq_true, if_false] at hf
        injection hf with hf; injection hf with hf; subst hf
        exact ⟨fun _ h => h, (Cols.subset_iff _ _).mp h⟩
      · simp only [h, Bool.not_false, if_true] at hf
        injection hf with hf; injection hf with hf; subst hf
        exact ⟨fun t ht => (Cols.mem_union _ _ t).mpr (Or.inl ht),
               fun t ht => (Cols.mem_union _ _ t).mpr (Or.inr ht)⟩
    obtain ⟨hcF, hrF⟩ := hFfacts
    simp only [hsec]
    simp only [hkeep]
    have hreqU : cur.columnsRequired.subset U = true := hsubU _ hrF
    have hreqF : cur.columnsRequired.subset F = true := by
      rw [Cols.subset_iff]; exact hrF
    refine ⟨by rw [hwf]; exact hreqU, hreqU, fun c hc => hFU c (hcF c hc), ?_⟩
    calc (cur.sem U x).map (fun r => r.restrict cols)
        = ((cur.sem U x).map (fun r => r.restrict F)).map (fun r => r.restrict cols) :=
            (map_restrict_restrict _ cols F hcF).symm
      _ = (cur.sem U (x.map (fun r => r.restrict F))).map (fun r => r.restrict cols) := by
            rw [restrict_local cur F hreqF hkind x U U]
      _ = (cur.sem tcols (l.map (fun r => r.restrict F))).map (fun r => r.restrict cols) := by
            rw [heq, restrict_local cur F hreqF hkind l U tcols, restrict_local cur F hreqF hkind l tcols tcols]
      _ = ((cur.sem tcols l).map (fun r => r.restrict F)).map (fun r => r.restrict cols) := by
            rw [restrict_local cur F hreqF hkind l tcols tcols]
      _ = (cur.sem tcols l).map (fun r => r.restrict cols) := map_restrict_restrict _ cols F hcF
  cases cur with
  | dedup => simp [UOp.isDedup] at hnd
  | identity =>
    exact generic (fun _ => rfl) (fun _ => rfl) ⟨rfl, fun _ _ h => (by cases h), fun _ h => (by cases h)⟩ rfl
  | slice a b =>
    exact generic (fun _ => rfl) (fun _ => rfl) ⟨rfl, fun _ _ h => (by cases h), fun _ h => (by cases h)⟩ rfl
  | sel p =>
    exact generic (fun _ => rfl) (fun c => by simp [UOp.wfOn, UOp.columnsRequired])
      ⟨rfl, fun _ _ h => (by cases h), fun _ h => (by cases h)⟩ rfl
  | sort ts =>
    exact generic (fun _ => rfl) (fun c => by simp [UOp.wfOn, UOp.columnsRequired])
      ⟨rfl, fun _ _ h => (by cases h), fun _ h => (by cases h)⟩ rfl
  | proj c0 =>
    simp only [UOp.commute] at hf ⊢
    injection hf with hf; injection hf with hf; subst hf
    simp only [UOp.wfOn_proj, UOp.appliedColumns_proj] at hself
    refine ⟨rfl, rfl, fun c hc => hFU c hc, ?_⟩
    simp only [UOp.sem, UOp.appliedColumns]
    rw [map_restrict_restrict l cols c0 ((Cols.subset_iff _ _).mp hself)]
    exact heq
  | «calc» tag e =>
    simp only [UOp.wfOn_proj] at hself
    simp only [UOp.appliedColumns] at hself
    simp only [UOp.wfOn, UOp.columnsRequired, Bool.and_eq_true, decide_eq_true_eq] at hcur
    obtain ⟨hereq, htag⟩ := hcur
    have hsub := (Cols.subset_iff _ _).mp hself
    have htagU : tag ∉ U := fun h => htag (hUT tag h)
    by_cases ht : tag ∈ cols
    · have hcm : ∀ y, y ∈ cols.diff [tag] ↔ y ∈ cols ∧ y ≠ tag := by
        intro y; rw [Cols.mem_diff]; simp
      -- in both sub-cases F contains `cols` minus the tag and the columns of the expression
      have key : ∀ (hcmF : ∀ y, y ∈ cols.diff [tag] → y ∈ F) (heF : ∀ y, y ∈ e.columnsRequired → y ∈ F),
          (UOp.calc tag e).wfOn U = true ∧ (UOp.calc tag e).columnsRequired.subset U = true ∧
          (∀ c, c ∈ cols → c ∈ (UOp.calc tag e).appliedColumns U) ∧
          ((UOp.calc tag e).sem ((UOp.calc tag e).appliedColumns U) x).map (fun r => r.restrict cols) =
            ((UOp.calc tag e).sem ((UOp.calc tag e).appliedColumns tcols) l).map (fun r => r.restrict cols) := by
        intro hcmF heF
        have heU : e.columnsRequired.subset U = true := hsubU _ heF
        have heFs : e.columnsRequired.subset F = true := by rw [Cols.subset_iff]; exact heF
        refine ⟨?_, heU, ?_, ?_⟩
        · simp only [UOp.wfOn, UOp.columnsRequired, Bool.and_eq_true]
          exact ⟨heU, decide_eq_true htagU⟩
        · intro c hc
          simp only [UOp.appliedColumns, Cols.mem_insert]
          by_cases hct : c = tag
          · exact Or.inr hct
          · exact Or.inl (hFU c (hcmF c ((hcm c).mpr ⟨hc, hct⟩)))
        · simp only [UOp.sem, List.map_map]
          apply map_of_restrict_eq _ F x l _ heq
          intro r
          simp only [Function.comp]
          rw [Expr.val_restrict e r F heFs]
          funext u
          unfold Row.restrict Row.set
          by_cases huc : u ∈ cols
          · by_cases hu : u = tag
            · simp [huc, hu]
            · have : u ∈ F := hcmF u ((hcm u).mpr ⟨huc, hu⟩)
              simp [huc, hu, this]
          · simp [huc]
      by_cases hreq : e.columnsRequired.subset (cols.diff [tag]) = true
      · simp only [UOp.commute, ht, not_true_eq_false, if_false, UOp.columnsRequired, hreq, Bool.not_true,
          Bool.false_eq_true] at hf ⊢
        injection hf with hf; injection hf with hf; subst hf
        exact key (fun _ h => h) ((Cols.subset_iff _ _).mp hreq)
      · simp only [UOp.commute, ht, not_true_eq_false, if_false, UOp.columnsRequired, hreq, Bool.not_false,
          if_true] at hf ⊢
        injection hf with hf; injection hf with hf; subst hf
        exact key (fun y h => (Cols.mem_union _ _ y).mpr (Or.inl h)) (fun y h => (Cols.mem_union _ _ y).mpr (Or.inr h))
    · simp only [UOp.commute, ht, not_false_eq_true, if_true] at hf ⊢
      injection hf with hf; injection hf with hf; subst hf
      refine ⟨rfl, rfl, fun c hc => hFU c hc, ?_⟩
      simp only [UOp.sem, UOp.appliedColumns, List.map_map]
      have : (l.map (fun r => r.restrict cols)) =
          l.map ((fun r : Row => r.restrict cols) ∘ fun r => r.set tag (e.val r)) := by
        apply List.map_congr_left
        intro r _
        simp only [Function.comp]
        exact (Row.restrict_set r cols tag _ ht).symm
      rw [← this]
      exact heq

/-! ### The invariant of `backtrack_unary` -/

theorem BTok.unchanged (σ : Leaves) (o : UOp) (tree : Rel) (hwf : tree.WF) (htr : tree.Truthful σ)
    (hop : o.wfOn tree.columns = true) : BTok σ o tree tree false :=
  ⟨hwf, htr, rfl, fun h => (by cases h), fun _ => hop, fun _ _ h => h, fun _ => ⟨rfl, fun _ => Iff.rfl⟩,
   fun _ _ => ⟨rfl, fun _ => Iff.rfl⟩⟩

/-- Through a transfer node everything is passed on unchanged. -/
theorem BTok.transfer {σ : Leaves} {o : UOp} {target t' : Rel} {d : Bool} (h : BTok σ o target t' d)
    (oid oid' : Nat) (dest : Engine) : BTok σ o (.transfer oid dest target) (.transfer oid' dest t') d :=
  ⟨h.wf, h.truthful, rfl, h.done_sound, h.pend_wf, h.pend_cols, h.pend_sound, h.pend_same⟩

/-- `apply` with default options inside an iteration engine is sound (the `_begin_apply` /
`_finish_apply` pair). -/
theorem applyOp_iter_sound (σ : Leaves) (st : Store) (k : Nat) (o : UOp) (t : Rel) (res : Res)
    (hk : t.engine.kind = .iter) (hwf : t.WF) (htr : t.Truthful σ)
    (h : applyOp st (k+2) (.u o) t {} = .ok res) : FinishOK σ o t (res.get t) := by
  rw [applyOp_iter st k o t hk] at h
  cases hbeg : o.beginApply t none with
  | error e => simp [hbeg] at h
  | ok x =>
    obtain ⟨o', e⟩ := x
    simp only [hbeg] at h
    rcases beginApply_cases o t o' e hbeg with ⟨h1, hwfo⟩ | ⟨h1, hnoop⟩
    · subst h1
      exact finishApply_sound σ t o' hwf htr hwfo res h
    · subst h1
      rw [finishApply_identity] at h
      injection h with h; subst h
      exact noop_sound σ o t hwf htr hnoop

theorem applyOp_fuel_zero (st : Store) (op : AnyOp) (t : Rel) (o : Opts) :
    applyOp st 0 op t o = .error .fuel := by rw [applyOp]

theorem applyOp_fuel_one (st : Store) (o : UOp) (t : Rel) (res : Res) :
    applyOp st 1 (.u o) t {} ≠ .ok res := by
  intro h
  rw [applyOp] at h
  simp only [AnyOp.beginApply] at h
  cases hb : o.beginApply t none with
  | error e => simp [hb, Except.map, bind, Except.bind] at h
  | ok x =>
    obtain ⟨o', e⟩ := x
    have he := beginApply_engine o t o' e hb
    subst he
    simp [hb, Except.map, bind, Except.bind, appendUnary, Res.get, pure, Except.pure] at h

/-- `FinishOK` says the same as the `done` half of `BTok` (for a tree with the same columns). -/
theorem congr_applied (o : UOp) {c1 c2 : Cols} (h : ∀ x, x ∈ c1 ↔ x ∈ c2) :
    ∀ x, x ∈ o.appliedColumns c1 ↔ x ∈ o.appliedColumns c2 := UOp.appliedColumns_congr o c1 c2 h

/-- Operations other than projections: the reported second operation is the existing one, except
for a calculation moving past a projection. -/
theorem commute_second_nonproj (o cur : UOp) (tcols ccols : Cols) (ho : o.isProj = false) :
    (o.commute cur tcols ccols).second = cur ∨
      (∃ tag e c, o = .calc tag e ∧ cur = .proj c ∧ (o.commute cur tcols ccols).second = .proj (c.insert tag)) := by
  unfold UOp.commute
  cases o <;> simp only [UOp.isProj] at ho <;> cases cur <;> simp only [UOp.commuteFail] <;> (repeat' split) <;>
    first
      | exact Or.inl rfl
      | exact Or.inl trivial
      | exact Or.inr ⟨_, _, _, rfl, rfl, rfl⟩
      | (simp at ho)

/-- Unfolding the statement of C04 at a successful report. -/
theorem commuteSoundAt_some (o cur : UOp) (tcols : Cols) (l : List Row) (f : UOp)
    (hC : commuteSoundAt o cur tcols l)
    (hf : (o.commute cur tcols (cur.appliedColumns tcols)).first = some f) :
    let c := o.commute cur tcols (cur.appliedColumns tcols)
    let ccols := cur.appliedColumns tcols
    let fc := f.appliedColumns tcols
    let sc := c.second.appliedColumns fc
    f.wfOn tcols = true ∧ c.second.wfOn fc = true ∧
      (c.done = true →
        c.second.sem sc (f.sem fc l) = o.sem (o.appliedColumns ccols) (cur.sem ccols l) ∧
        (∀ x, x ∈ sc ↔ x ∈ o.appliedColumns ccols)) ∧
      (c.done = false →
        o.wfOn sc = true ∧
        o.sem (o.appliedColumns sc) (c.second.sem sc (f.sem fc l)) = o.sem (o.appliedColumns ccols) (cur.sem ccols l) ∧
        (∀ x, x ∈ o.appliedColumns sc ↔ x ∈ o.appliedColumns ccols) ∧
        (∀ x, x ∈ sc → x ∈ ccols)) := by
  unfold commuteSoundAt at hC
  simp only [hf] at hC
  obtain ⟨h1, h2, h3⟩ := hC
  refine ⟨h1, h2, ?_, ?_⟩
  · intro hd; rw [if_pos hd] at h3; exact h3
  · intro hd
    have : ¬ ((o.commute cur tcols (cur.appliedColumns tcols)).done = true) := by simp [hd]
    rw [if_neg this] at h3; exact h3

/-- The inner call finished: apply the reported second operation on top of what it returned. -/
theorem bt_step_done (σ : Leaves) (o cur : UOp) (target : Rel) (f : UOp) (u' : Rel) (res : Res)
    (hwft : target.WF) (htrt : target.Truthful σ) (hcur : cur.wfOn target.columns = true)
    (hC : commuteSoundAt o cur target.columns (sem σ target))
    (hf : (o.commute cur target.columns (cur.appliedColumns target.columns)).first = some f)
    (ih : BTok σ f target u' true)
    (hfin : (o.commute cur target.columns (cur.appliedColumns target.columns)).second.finishApply u' = .ok res) :
    BTok σ o (.unary cur target (cur.appliedColumns target.columns)) (res.get u')
      (o.commute cur target.columns (cur.appliedColumns target.columns)).done := by
  obtain ⟨hfw, hsw, hd, hp⟩ := commuteSoundAt_some o cur target.columns (sem σ target) f hC hf
  obtain ⟨hsem, hcols⟩ := ih.done_sound rfl
  have hswu : (o.commute cur target.columns (cur.appliedColumns target.columns)).second.wfOn u'.columns = true := by
    rw [wfOn_congr _ _ _ hcols]; exact hsw
  have F := finishApply_sound σ u' _ ih.wf ih.truthful hswu res hfin
  have hrc : ∀ x, x ∈ (res.get u').columns ↔
      x ∈ (o.commute cur target.columns (cur.appliedColumns target.columns)).second.appliedColumns (f.appliedColumns target.columns) :=
    fun x => (F.cols x).trans (congr_applied _ hcols x)
  have hrs : sem σ (res.get u') =
      (o.commute cur target.columns (cur.appliedColumns target.columns)).second.sem
        ((o.commute cur target.columns (cur.appliedColumns target.columns)).second.appliedColumns (f.appliedColumns target.columns))
        (f.sem (f.appliedColumns target.columns) (sem σ target)) := by
    rw [F.sem_eq, hsem]
    exact UOp.sem_congr _ _ _ (congr_applied _ hcols) _
  refine ⟨F.wf, F.truthful, by rw [F.engine, ih.engine]; rfl, ?_, ?_, ?_, ?_, ?_⟩
  · intro hdone
    obtain ⟨e1, e2⟩ := hd hdone
    exact ⟨by rw [hrs, e1]; rfl, fun x => (hrc x).trans (e2 x)⟩
  · intro hdone
    obtain ⟨e1, _, _, _⟩ := hp hdone
    rw [wfOn_congr _ _ _ hrc]; exact e1
  · intro hdone x hx
    obtain ⟨_, _, _, e4⟩ := hp hdone
    exact e4 x ((hrc x).mp hx)
  · intro hdone
    obtain ⟨_, e2, e3, _⟩ := hp hdone
    refine ⟨?_, fun x => (congr_applied o hrc x).trans (e3 x)⟩
    rw [hrs, UOp.sem_congr o _ _ (congr_applied o hrc)]
    exact e2
  · intro hdone hnp
    have := (commute_first_nonproj o cur _ _ f hnp hf).2
    rw [this] at hdone; cases hdone

theorem beq_identity (cur : UOp) (h : (UOp.identity == cur) = true) : cur = .identity := by
  cases cur <;> first | rfl | (exact absurd h (by simp [BEq.beq, UOp.beq]))

/-- The inner call finished without inserting anything and the commuted replacement equals the
existing operation: the tree is returned unchanged. -/
theorem bt_step_same (σ : Leaves) (o cur : UOp) (target : Rel) (f : UOp)
    (hwft : target.WF) (htrt : target.Truthful σ) (hcur : cur.wfOn target.columns = true)
    (hop : o.wfOn (cur.appliedColumns target.columns) = true)
    (hC : commuteSoundAt o cur target.columns (sem σ target))
    (hf : (o.commute cur target.columns (cur.appliedColumns target.columns)).first = some f)
    (ih : BTok σ f target target true)
    (hbeq : ((o.commute cur target.columns (cur.appliedColumns target.columns)).second == cur) = true) :
    BTok σ o (.unary cur target (cur.appliedColumns target.columns))
      (.unary cur target (cur.appliedColumns target.columns))
      (o.commute cur target.columns (cur.appliedColumns target.columns)).done := by
  have hwf : (Rel.unary cur target (cur.appliedColumns target.columns)).WF := ⟨hwft, rfl, hcur⟩
  have htr : (Rel.unary cur target (cur.appliedColumns target.columns)).Truthful σ := htrt
  cases hdn : (o.commute cur target.columns (cur.appliedColumns target.columns)).done with
  | false => exact BTok.unchanged σ o _ hwf htr hop
  | true =>
    obtain ⟨hfw, hsw, hd, _⟩ := commuteSoundAt_some o cur target.columns (sem σ target) f hC hf
    obtain ⟨e1, e2⟩ := hd hdn
    obtain ⟨hsem, hcols⟩ := ih.done_sound rfl
    -- the second operation IS the existing one
    have hsec : (o.commute cur target.columns (cur.appliedColumns target.columns)).second = cur := by
      rcases commute_second_shape o cur target.columns (cur.appliedColumns target.columns) with h | h | ⟨tag, e, c, h1, h2, h3⟩
      · exact h
      · rw [h] at hbeq ⊢
        exact (beq_identity cur hbeq).symm
      · subst h1; subst h2
        rw [h3] at hbeq
        have hb : (c.insert tag).seteq c = true := hbeq
        have htin : tag ∈ c := ((Cols.seteq_iff _ _).mp hb tag).mp ((Cols.mem_insert c tag tag).mpr (Or.inr rfl))
        simp only [UOp.wfOn, UOp.columnsRequired, UOp.appliedColumns, Bool.and_eq_true] at hop
        exact absurd htin (of_decide_eq_true hop.2)
    rw [hsec] at e1 e2
    refine ⟨hwf, htr, rfl, ?_, fun h => (by cases h), fun h => (by cases h), fun h => (by cases h), fun h => (by cases h)⟩
    intro _
    have hc2 : ∀ x, x ∈ cur.appliedColumns (f.appliedColumns target.columns) ↔ x ∈ cur.appliedColumns target.columns :=
      fun x => (congr_applied cur hcols x).symm
    refine ⟨?_, fun x => (hc2 x).symm.trans (e2 x)⟩
    show cur.sem (cur.appliedColumns target.columns) (sem σ target) =
      o.sem (o.appliedColumns (cur.appliedColumns target.columns)) (cur.sem (cur.appliedColumns target.columns) (sem σ target))
    rw [← e1, ← hsem]
    exact UOp.sem_congr cur _ _ (fun x => (hc2 x).symm) _

/-- The inner call could not finish and the operation is not a projection: what it returned is
equivalent to the target, and the existing operation is re-applied to it. -/
theorem bt_step_pending_nonproj (σ : Leaves) (o cur : UOp) (target : Rel) (f : UOp) (u : Rel) (res : Res)
    (hwft : target.WF) (htrt : target.Truthful σ) (hcur : cur.wfOn target.columns = true)
    (hop : o.wfOn (cur.appliedColumns target.columns) = true) (hnp : o.isProj = false)
    (hC : commuteSoundAt o cur target.columns (sem σ target))
    (hf : (o.commute cur target.columns (cur.appliedColumns target.columns)).first = some f)
    (ih : BTok σ f target u false)
    (hfin : (if (!false && !((o.commute cur target.columns (cur.appliedColumns target.columns)).second.columnsRequired.subset u.columns)) = true
              then cur else (o.commute cur target.columns (cur.appliedColumns target.columns)).second).finishApply u = .ok res) :
    BTok σ o (.unary cur target (cur.appliedColumns target.columns)) (res.get u) false ∧
      (res.get u).columns.subset (cur.appliedColumns target.columns) = true := by
  obtain ⟨hfo, _⟩ := commute_first_nonproj o cur _ _ f hnp hf
  subst hfo
  obtain ⟨hsame, hcols⟩ := ih.pend_same rfl hnp
  obtain ⟨hfw, _, _, _⟩ := commuteSoundAt_some f cur target.columns (sem σ target) f hC hf
  -- in every case it is the existing operation that is re-applied
  have hrepl : (if (!false && !((f.commute cur target.columns (cur.appliedColumns target.columns)).second.columnsRequired.subset u.columns)) = true
              then cur else (f.commute cur target.columns (cur.appliedColumns target.columns)).second) = cur := by
    rcases commute_second_nonproj f cur target.columns (cur.appliedColumns target.columns) hnp with h | ⟨tag, e, c, h1, h2, h3⟩
    · rw [h]; split <;> rfl
    · subst h1; subst h2
      rw [h3]
      have : ((UOp.proj (c.insert tag)).columnsRequired.subset u.columns) = false := by
        rw [Bool.eq_false_iff]
        intro hs
        have : tag ∈ u.columns := (Cols.subset_iff _ _).mp hs tag ((Cols.mem_insert c tag tag).mpr (Or.inr rfl))
        have : tag ∈ target.columns := (hcols tag).mp this
        simp only [UOp.wfOn, UOp.columnsRequired, Bool.and_eq_true, decide_eq_true_eq] at hfw
        exact hfw.2 this
      simp [this]
  rw [hrepl] at hfin
  have hcu : cur.wfOn u.columns = true := by rw [wfOn_congr cur _ _ hcols]; exact hcur
  have F := finishApply_sound σ u cur ih.wf ih.truthful hcu res hfin
  have hrc : ∀ x, x ∈ (res.get u).columns ↔ x ∈ cur.appliedColumns target.columns :=
    fun x => (F.cols x).trans (congr_applied cur hcols x)
  have hrs : sem σ (res.get u) = cur.sem (cur.appliedColumns target.columns) (sem σ target) := by
    rw [F.sem_eq, hsame]
    exact UOp.sem_congr cur _ _ (congr_applied cur hcols) _
  refine ⟨⟨F.wf, F.truthful, by rw [F.engine, ih.engine]; rfl, fun h => (by cases h), ?_, ?_, ?_, ?_⟩, ?_⟩
  · intro _; rw [wfOn_congr f _ _ hrc]; exact hop
  · intro _ x hx; exact (hrc x).mp hx
  · intro _
    refine ⟨?_, congr_applied f hrc⟩
    rw [hrs, UOp.sem_congr f _ _ (congr_applied f hrc)]
    rfl
  · intro _ _; exact ⟨hrs, hrc⟩
  · rw [Cols.subset_iff]; intro x hx; exact (hrc x).mp hx

/-- The inner call could only partly insert a projection: the reported second operation is applied
to what it returned, and the result is projected back onto the tree's columns if needed. -/
theorem bt_step_pending_proj (σ : Leaves) (cols : Cols) (cur : UOp) (target : Rel) (F : Cols) (u : Rel)
    (res : Res)
    (hwft : target.WF) (htrt : target.Truthful σ) (hcur : cur.wfOn target.columns = true)
    (hop : (UOp.proj cols).wfOn (cur.appliedColumns target.columns) = true) (hnd : cur.isDedup = false)
    (hf : ((UOp.proj cols).commute cur target.columns (cur.appliedColumns target.columns)).first = some (.proj F))
    (ih : BTok σ (.proj F) target u false)
    (hfin : (if (!false && !(((UOp.proj cols).commute cur target.columns (cur.appliedColumns target.columns)).second.columnsRequired.subset u.columns)) = true
              then cur else ((UOp.proj cols).commute cur target.columns (cur.appliedColumns target.columns)).second).finishApply u = .ok res) :
    ((res.get u).columns.subset (cur.appliedColumns target.columns) = true →
        BTok σ (.proj cols) (.unary cur target (cur.appliedColumns target.columns)) (res.get u) false) ∧
      (∀ res2, (UOp.proj ((res.get u).columns.inter (cur.appliedColumns target.columns))).finishApply (res.get u) = .ok res2 →
        BTok σ (.proj cols) (.unary cur target (cur.appliedColumns target.columns)) (res2.get (res.get u)) false) := by
  have hFU : ∀ t, t ∈ F → t ∈ u.columns := by
    have := ih.pend_wf rfl
    rw [UOp.wfOn_proj] at this
    exact (Cols.subset_iff _ _).mp this
  have hUT := ih.pend_cols rfl
  have heq : (sem σ u).map (fun r => r.restrict F) = (sem σ target).map (fun r => r.restrict F) := (ih.pend_sound rfl).1
  obtain ⟨hsw, hsreq, hcin, hE⟩ := proj_pending_step cols cur target.columns F u.columns (sem σ target) (sem σ u)
    hcur hop hnd hf hFU hUT heq
  have hrepl : (if (!false && !(((UOp.proj cols).commute cur target.columns (cur.appliedColumns target.columns)).second.columnsRequired.subset u.columns)) = true
              then cur else ((UOp.proj cols).commute cur target.columns (cur.appliedColumns target.columns)).second) =
      ((UOp.proj cols).commute cur target.columns (cur.appliedColumns target.columns)).second := by
    simp [hsreq]
  rw [hrepl] at hfin
  have Fr := finishApply_sound σ u _ ih.wf ih.truthful hsw res hfin
  have hcolsub : cols.subset (cur.appliedColumns target.columns) = true := by rw [← UOp.wfOn_proj cols]; exact hop
  have hcc := (Cols.subset_iff _ _).mp hcolsub
  have hcr : ∀ c, c ∈ cols → c ∈ (res.get u).columns := fun c hc => (Fr.cols c).mpr (hcin c hc)
  have hEr : (sem σ (res.get u)).map (fun r => r.restrict cols) =
      (cur.sem (cur.appliedColumns target.columns) (sem σ target)).map (fun r => r.restrict cols) := by
    rw [Fr.sem_eq]; exact hE
  constructor
  · intro hsub
    refine ⟨Fr.wf, Fr.truthful, by rw [Fr.engine, ih.engine]; rfl, fun h => (by cases h), ?_, ?_, ?_, ?_⟩
    · intro _; rw [UOp.wfOn_proj, Cols.subset_iff]; exact hcr
    · intro _; exact (Cols.subset_iff _ _).mp hsub
    · intro _; exact ⟨hEr, fun _ => Iff.rfl⟩
    · intro _ h; simp [UOp.isProj] at h
  · intro res2 hfin2
    have hw2 : (UOp.proj ((res.get u).columns.inter (cur.appliedColumns target.columns))).wfOn (res.get u).columns = true := by
      rw [UOp.wfOn_proj, Cols.subset_iff]
      intro t ht; exact ((Cols.mem_inter _ _ t).mp ht).1
    have F2 := finishApply_sound σ (res.get u) _ Fr.wf Fr.truthful hw2 res2 hfin2
    have hc2 : ∀ c, c ∈ cols → c ∈ (res.get u).columns.inter (cur.appliedColumns target.columns) :=
      fun c hc => (Cols.mem_inter _ _ c).mpr ⟨hcr c hc, hcc c hc⟩
    refine ⟨F2.wf, F2.truthful, by rw [F2.engine, Fr.engine, ih.engine]; rfl, fun h => (by cases h), ?_, ?_, ?_, ?_⟩
    · intro _
      rw [UOp.wfOn_proj, Cols.subset_iff]
      intro c hc; exact (F2.cols c).mpr (hc2 c hc)
    · intro _ x hx
      exact ((Cols.mem_inter _ _ x).mp ((F2.cols x).mp hx)).2
    · intro _
      refine ⟨?_, fun _ => Iff.rfl⟩
      show (sem σ (res2.get (res.get u))).map (fun r => r.restrict cols) = _
      rw [F2.sem_eq]
      simp only [UOp.sem_proj]
      rw [map_restrict_restrict _ cols _ hc2]
      exact hEr
    · intro _ h; simp [UOp.isProj] at h

theorem BTok.of_finish {σ : Leaves} {o : UOp} {t t' : Rel} (h : FinishOK σ o t t') : BTok σ o t t' true :=
  ⟨h.wf, h.truthful, h.engine, fun _ => ⟨h.sem_eq, h.cols⟩, fun h => (by cases h), fun h => (by cases h),
   fun h => (by cases h), fun h => (by cases h)⟩

theorem prefTargetsGood_of_iter (σ : Leaves) (pref : Engine) (hpk : pref.kind = .iter) :
    (t : Rel) → t.prefTargetsGood NodeInv.triv σ pref
  | .unary _ t _ => prefTargetsGood_of_iter σ pref hpk t
  | .transfer _ _ t => ⟨fun _ hq => (by rw [hpk] at hq; cases hq), prefTargetsGood_of_iter σ pref hpk t⟩
  | .leaf .. => trivial
  | .binary .. => trivial
  | .mat .. => trivial
  | .select .. => trivial

/-- **Back-tracking is sound** (iteration engines, unary operations): whatever
`backtrack_unary(op, tree, preferred)` returns satisfies `BTok`. -/
theorem backtrack_sound (σ : Leaves) (st : Store) (pref : Engine) :
    (fuel : Nat) → (o : UOp) → (tree : Rel) → (res : Res) → (done : Bool) →
    tree.WF → tree.Truthful σ → o.wfOn tree.columns = true → (o.isProj = true → tree.spineNoDedup) →
    tree.prefTargetsGood NodeInv.triv σ pref →
    backtrack st fuel (.u o) tree pref = .ok (res, done) → BTok σ o tree (res.get tree) done
  | 0, o, tree, res, done, _, _, _, _, _, h => by rw [backtrack] at h; cases h
  | fuel+1, o, tree, res, done, hwf, htr, hop, hnd, hpo, h => by
    cases hk : tree.engine.kind with
    | sql =>
      rw [backtrack.eq_def] at h
      simp only [hk] at h
      injection h with h; injection h with h1 h2; subst h1; subst h2
      exact BTok.unchanged σ o tree hwf htr hop
    | iter =>
      cases tree with
      | leaf a b c d e f g i =>
        rw [backtrack.eq_def] at h
        simp only [hk, Rel.isLocked, if_true] at h
        injection h with h; injection h with h1 h2; subst h1; subst h2
        exact BTok.unchanged σ o _ hwf htr hop
      | mat a b c =>
        rw [backtrack.eq_def] at h
        simp only [hk, Rel.isLocked, if_true] at h
        injection h with h; injection h with h1 h2; subst h1; subst h2
        exact BTok.unchanged σ o _ hwf htr hop
      | binary a b c d =>
        rw [backtrack.eq_def] at h
        simp only [hk, Rel.isLocked, Bool.false_eq_true, if_false] at h
        injection h with h; injection h with h1 h2; subst h1; subst h2
        exact BTok.unchanged σ o _ hwf htr hop
      | select a b c d e f g i j =>
        rw [backtrack.eq_def] at h
        simp [hk, Rel.isLocked] at h
      | transfer oid dest target =>
        rw [backtrack] at h
        simp only [hk, Rel.isLocked, Bool.false_eq_true, if_false, bind, Except.bind, pure, Except.pure] at h
        have hwft : target.WF := hwf
        have htrt : target.Truthful σ := htr
        have hopt : o.wfOn target.columns = true := hop
        have hndt : o.isProj = true → target.spineNoDedup := fun hp => hnd hp
        have hpo' : (target.engine = pref → pref.kind = .sql → Good NodeInv.triv σ target) ∧ target.prefTargetsGood NodeInv.triv σ pref := hpo
        by_cases he : (target.engine == pref) = true
        · simp only [he, if_true] at h
          cases happ : applyOp st fuel (.u o) target {} with
          | error e => simp [happ] at h
          | ok r =>
            simp only [happ] at h
            injection h with h; injection h with h1 h2; subst h2
            have F : FinishOK σ o target (r.get target) := by
              cases hpk : pref.kind with
              | iter =>
                have hkt : target.engine.kind = .iter := by rw [beq_iff_eq.mp he]; exact hpk
                have hfuel : ∃ k, fuel = k + 2 := by
                  match fuel, happ with
                  | 0, happ => rw [applyOp_fuel_zero] at happ; cases happ
                  | 1, happ => exact absurd happ (applyOp_fuel_one st o target r)
                  | k+2, _ => exact ⟨k, rfl⟩
                obtain ⟨k, hk2⟩ := hfuel
                subst hk2
                exact applyOp_iter_sound σ st k o target r hkt hwft htrt happ
              | sql =>
                -- the preferred engine is a SQL engine: the tree-building induction applies
                exact ((treeBuild_sound σ st fuel).apply o target r (hpo'.1 (beq_iff_eq.mp he) hpk) happ).2.1
            have B := BTok.of_finish F
            rw [← h1]
            cases r with
            | same =>
              simp only [reapplyTransfer]
              split
              · exact B.transfer oid oid dest
              · exact B.transfer oid 0 dest
            | new t => exact B.transfer oid 0 dest
        · simp only [he, Bool.false_eq_true, if_false] at h
          cases hb : backtrack st fuel (.u o) target pref with
          | error e => simp [hb] at h
          | ok v =>
            obtain ⟨up, d⟩ := v
            simp only [hb] at h
            injection h with h; injection h with h1 h2; subst h2
            have B := backtrack_sound σ st pref fuel o target up d hwft htrt hopt hndt hpo'.2 hb
            rw [← h1]
            cases up with
            | same =>
              simp only [reapplyTransfer]
              split
              · exact B.transfer oid oid dest
              · exact B.transfer oid 0 dest
            | new t => exact B.transfer oid 0 dest
      | unary cur target ccols =>
        rw [backtrack] at h
        have hkt : target.engine.kind = .iter := hk
        simp only [Rel.engine, hkt, Rel.isLocked, Bool.false_eq_true, if_false, AnyOp.commute, bind, Except.bind,
          pure, Except.pure] at h
        obtain ⟨hwft, hcc, hcur⟩ := hwf
        have htrt : target.Truthful σ := htr
        subst hcc
        have hopc : o.wfOn (cur.appliedColumns target.columns) = true := hop
        have hl := (metadata_truthful σ target hwft htrt).keys
        have hwftree : (Rel.unary cur target (cur.appliedColumns target.columns)).WF := ⟨hwft, rfl, hcur⟩
        have hcurnd : o.isProj = true → cur.isDedup = false := fun hp => (hnd hp).1
        have hC : commuteSoundAt o cur target.columns (sem σ target) := by
          cases o with
          | identity => exact commute_identity cur _ _ hcur
          | slice a b => exact commute_slice a b cur _ _ hcur
          | «calc» tag e => exact commute_calc tag e cur _ _ hl hcur hopc
          | dedup => exact commute_dedup cur _ _ hl hcur
          | sel p => exact commute_sel p cur _ _ hl hcur hopc
          | sort ts => exact commute_sort ts cur _ _ hl hcur hopc
          | proj c => exact commute_proj c cur _ _ hcur hopc (hcurnd rfl)
        cases hfirst : (o.commute cur target.columns (cur.appliedColumns target.columns)).first with
        | none =>
          simp only [hfirst, Option.map_none] at h
          injection h with h; injection h with h1 h2
          subst h1
          -- a failed commutation reports `done = False`
          have hdn : (o.commute cur target.columns (cur.appliedColumns target.columns)).done = false := by
            unfold UOp.commute at hfirst ⊢
            cases o <;> cases cur <;> simp only [UOp.commuteFail] at hfirst ⊢ <;>
              (repeat' split at hfirst) <;> (try (simp at hfirst)) <;> simp_all
          rw [← h2, hdn]
          exact BTok.unchanged σ o _ hwftree htrt hopc
        | some f =>
          simp only [hfirst, Option.map_some] at h
          obtain ⟨hfw, _, _, _⟩ := commuteSoundAt_some o cur target.columns (sem σ target) f hC hfirst
          have hfnd : f.isProj = true → target.spineNoDedup := by
            intro hfp
            by_cases hop' : o.isProj = true
            · exact (hnd hop').2
            · have := (commute_first_nonproj o cur _ _ f (by simpa using hop') hfirst).1
              rw [this] at hfp; exact absurd hfp hop'
          cases hb : backtrack st fuel (.u f) target pref with
          | error e => simp [hb] at h
          | ok v =>
            obtain ⟨up, d⟩ := v
            simp only [hb] at h
            have ih := backtrack_sound σ st pref fuel f target up d hwft htrt hfw hfnd hpo hb
            cases up with
            | same =>
              simp only [Res.get] at ih
              simp only at h
              cases d with
              | false =>
                simp only [Bool.not_false, Bool.true_or, if_true, Bool.false_and] at h
                injection h with h; injection h with h1 h2; subst h1; subst h2
                exact BTok.unchanged σ o _ hwftree htrt hopc
              | true =>
                by_cases hbeq : ((o.commute cur target.columns (cur.appliedColumns target.columns)).second == cur) = true
                · simp only [hbeq, Bool.or_true, if_true, Bool.true_and] at h
                  injection h with h; injection h with h1 h2; subst h1; subst h2
                  exact bt_step_same σ o cur target f hwft htrt hcur hopc hC hfirst ih hbeq
                · simp only [hbeq, Bool.not_true, Bool.or_self, Bool.false_eq_true, if_false, Bool.true_and] at h
                  cases hfin : (o.commute cur target.columns (cur.appliedColumns target.columns)).second.finishApply target with
                  | error e => simp [hfin] at h
                  | ok r =>
                    simp only [hfin] at h
                    injection h with h; injection h with h1 h2; subst h1; subst h2
                    exact bt_step_done σ o cur target f target r hwft htrt hcur hC hfirst ih hfin
            | new u =>
              simp only [Res.get] at ih
              simp only at h
              cases d with
              | true =>
                simp only [Bool.not_true, Bool.false_and, Bool.false_eq_true, if_false, Bool.true_and] at h
                cases hfin : (o.commute cur target.columns (cur.appliedColumns target.columns)).second.finishApply u with
                | error e => simp [hfin] at h
                | ok r =>
                  simp only [hfin] at h
                  injection h with h; injection h with h1 h2; subst h1; subst h2
                  exact bt_step_done σ o cur target f u r hwft htrt hcur hC hfirst ih hfin
              | false =>
                simp only [Bool.false_and] at h
                split at h
                · cases h
                · rename_i r hfin
                  by_cases hop' : o.isProj = true
                  · have : ∃ c, o = .proj c := by cases o <;> simp [UOp.isProj] at hop' ⊢
                    obtain ⟨c, hoc⟩ := this
                    subst hoc
                    obtain ⟨F, hF⟩ := commute_first_proj c cur _ _ f hfirst
                    subst hF
                    obtain ⟨g1, g2⟩ := bt_step_pending_proj σ c cur target F u r hwft htrt hcur hopc (hcurnd rfl) hfirst ih hfin
                    by_cases hsub : (r.get u).columns.subset (cur.appliedColumns target.columns) = true
                    · simp only [hsub, Bool.not_true, Bool.and_false, Bool.false_eq_true, if_false] at h
                      injection h with h; injection h with h1 h2; subst h1; subst h2
                      exact g1 hsub
                    · have hsub' : (r.get u).columns.subset (cur.appliedColumns target.columns) = false := by
                        simpa using hsub
                      simp only [hsub', Bool.not_false, Bool.and_self, if_true] at h
                      split at h
                      · cases h
                      · rename_i r2 hfin2
                        injection h with h; injection h with h1 h2; subst h1; subst h2
                        exact g2 r2 hfin2
                  · obtain ⟨g1, g2⟩ := bt_step_pending_nonproj σ o cur target f u r hwft htrt hcur hopc
                      (by simpa using hop') hC hfirst ih hfin
                    simp only [g2, Bool.not_true, Bool.and_false, Bool.false_eq_true, if_false] at h
                    injection h with h; injection h with h1 h2; subst h1; subst h2
                    exact g1

/-! ### Back-tracking never raises a column error for a valid operation -/

/-- Exceptions that are not about the request being ill-formed: the documented `EngineError`, and
two model artefacts (recursion budget; an iteration-engine tree that contains a `sql.Select`). -/
def Err.benign (e : Err) : Prop := e = .engine ∨ e = .fuel ∨ e = .notImpl

theorem bt_step_done_err (σ : Leaves) (o cur : UOp) (target : Rel) (f : UOp) (u' : Rel) (e : Err)
    (hC : commuteSoundAt o cur target.columns (sem σ target))
    (hf : (o.commute cur target.columns (cur.appliedColumns target.columns)).first = some f)
    (ih : BTok σ f target u' true)
    (hfin : (o.commute cur target.columns (cur.appliedColumns target.columns)).second.finishApply u' = .error e) :
    e = .engine := by
  obtain ⟨_, hsw, _, _⟩ := commuteSoundAt_some o cur target.columns (sem σ target) f hC hf
  obtain ⟨_, hcols⟩ := ih.done_sound rfl
  have hswu : (o.commute cur target.columns (cur.appliedColumns target.columns)).second.wfOn u'.columns = true := by
    rw [wfOn_congr _ _ _ hcols]; exact hsw
  exact finishApply_error σ u' _ ih.wf hswu e hfin

theorem bt_step_pending_nonproj_err (σ : Leaves) (o cur : UOp) (target : Rel) (f : UOp) (u : Rel) (e : Err)
    (hcur : cur.wfOn target.columns = true) (hnp : o.isProj = false)
    (hC : commuteSoundAt o cur target.columns (sem σ target))
    (hf : (o.commute cur target.columns (cur.appliedColumns target.columns)).first = some f)
    (ih : BTok σ f target u false)
    (hfin : (if (!false && !((o.commute cur target.columns (cur.appliedColumns target.columns)).second.columnsRequired.subset u.columns)) = true
              then cur else (o.commute cur target.columns (cur.appliedColumns target.columns)).second).finishApply u = .error e) :
    e = .engine := by
  obtain ⟨hfo, _⟩ := commute_first_nonproj o cur _ _ f hnp hf
  subst hfo
  obtain ⟨_, hcols⟩ := ih.pend_same rfl hnp
  obtain ⟨hfw, _, _, _⟩ := commuteSoundAt_some f cur target.columns (sem σ target) f hC hf
  have hrepl : (if (!false && !((f.commute cur target.columns (cur.appliedColumns target.columns)).second.columnsRequired.subset u.columns)) = true
              then cur else (f.commute cur target.columns (cur.appliedColumns target.columns)).second) = cur := by
    rcases commute_second_nonproj f cur target.columns (cur.appliedColumns target.columns) hnp with h | ⟨tag, ex, c, h1, h2, h3⟩
    · rw [h]; split <;> rfl
    · subst h1; subst h2
      rw [h3]
      have : ((UOp.proj (c.insert tag)).columnsRequired.subset u.columns) = false := by
        rw [Bool.eq_false_iff]
        intro hs
        have : tag ∈ u.columns := (Cols.subset_iff _ _).mp hs tag ((Cols.mem_insert c tag tag).mpr (Or.inr rfl))
        have : tag ∈ target.columns := (hcols tag).mp this
        simp only [UOp.wfOn, UOp.columnsRequired, Bool.and_eq_true, decide_eq_true_eq] at hfw
        exact hfw.2 this
      simp [this]
  rw [hrepl] at hfin
  have hcu : cur.wfOn u.columns = true := by rw [wfOn_congr cur _ _ hcols]; exact hcur
  exact finishApply_error σ u cur ih.wf hcu e hfin

theorem bt_step_pending_proj_err (σ : Leaves) (cols : Cols) (cur : UOp) (target : Rel) (F : Cols) (u : Rel)
    (hcur : cur.wfOn target.columns = true)
    (hop : (UOp.proj cols).wfOn (cur.appliedColumns target.columns) = true) (hnd : cur.isDedup = false)
    (hf : ((UOp.proj cols).commute cur target.columns (cur.appliedColumns target.columns)).first = some (.proj F))
    (ih : BTok σ (.proj F) target u false) :
    (∀ e, (if (!false && !(((UOp.proj cols).commute cur target.columns (cur.appliedColumns target.columns)).second.columnsRequired.subset u.columns)) = true
              then cur else ((UOp.proj cols).commute cur target.columns (cur.appliedColumns target.columns)).second).finishApply u = .error e →
        e = .engine) ∧
    (∀ res e, (if (!false && !(((UOp.proj cols).commute cur target.columns (cur.appliedColumns target.columns)).second.columnsRequired.subset u.columns)) = true
              then cur else ((UOp.proj cols).commute cur target.columns (cur.appliedColumns target.columns)).second).finishApply u = .ok res →
        (UOp.proj ((res.get u).columns.inter (cur.appliedColumns target.columns))).finishApply (res.get u) = .error e →
        e = .engine) := by
  have hFU : ∀ t, t ∈ F → t ∈ u.columns := by
    have := ih.pend_wf rfl
    rw [UOp.wfOn_proj] at this
    exact (Cols.subset_iff _ _).mp this
  have hUT := ih.pend_cols rfl
  have heq : (sem σ u).map (fun r => r.restrict F) = (sem σ target).map (fun r => r.restrict F) := (ih.pend_sound rfl).1
  obtain ⟨hsw, hsreq, _, _⟩ := proj_pending_step cols cur target.columns F u.columns (sem σ target) (sem σ u)
    hcur hop hnd hf hFU hUT heq
  have hrepl : (if (!false && !(((UOp.proj cols).commute cur target.columns (cur.appliedColumns target.columns)).second.columnsRequired.subset u.columns)) = true
              then cur else ((UOp.proj cols).commute cur target.columns (cur.appliedColumns target.columns)).second) =
      ((UOp.proj cols).commute cur target.columns (cur.appliedColumns target.columns)).second := by
    simp [hsreq]
  rw [hrepl]
  refine ⟨fun e he => finishApply_error σ u _ ih.wf hsw e he, ?_⟩
  intro res e hfin he
  have Fr := finishApply_sound σ u _ ih.wf ih.truthful hsw res hfin
  have hw2 : (UOp.proj ((res.get u).columns.inter (cur.appliedColumns target.columns))).wfOn (res.get u).columns = true := by
    rw [UOp.wfOn_proj, Cols.subset_iff]
    intro t ht; exact ((Cols.mem_inter _ _ t).mp ht).1
  exact finishApply_error σ (res.get u) _ Fr.wf hw2 e he

theorem beginApply_ok_of_wf (o : UOp) (t : Rel) (pref : Option Engine) (h : o.wfOn t.columns = true) :
    ∃ v, o.beginApply t pref = .ok v := by
  unfold UOp.beginApply
  cases o with
  | identity => exact ⟨_, rfl⟩
  | dedup => exact ⟨_, rfl⟩
  | slice a b => simp only; split <;> exact ⟨_, rfl⟩
  | sort ts =>
    simp only [UOp.wfOn, UOp.columnsRequired, Bool.and_true] at h
    simp only
    split
    · exact ⟨_, rfl⟩
    · have : ts.all (fun tm => tm.expr.columnsRequired.subset t.columns) = true := by
        simp only [List.all_eq_true]
        intro tm htm
        exact sortCols_subset_term ts t.columns h tm htm
      simp [this]
  | sel p =>
    simp only [UOp.wfOn, UOp.columnsRequired, Bool.and_true] at h
    simp only
    split
    · exact ⟨_, rfl⟩
    · simp [h]
  | proj c =>
    simp only [UOp.wfOn, UOp.columnsRequired, Bool.and_true] at h
    simp only
    split
    · exact ⟨_, rfl⟩
    · simp [h]
  | «calc» tag ex =>
    simp only [UOp.wfOn, UOp.columnsRequired, Bool.and_eq_true, decide_eq_true_eq] at h
    simp [h.1, h.2]

/-- `apply` with default options inside an iteration engine, for a valid operation, raises nothing
but `EngineError` (or the model's budget artefact). -/
theorem applyOp_iter_error (σ : Leaves) (st : Store) (fuel : Nat) (o : UOp) (t : Rel) (e : Err)
    (hk : t.engine.kind = .iter) (hwf : t.WF) (hop : o.wfOn t.columns = true)
    (h : applyOp st fuel (.u o) t {} = .error e) : e.benign := by
  match fuel, h with
  | 0, h0 => rw [applyOp_fuel_zero] at h0; injection h0 with h0; exact Or.inr (Or.inl h0.symm)
  | 1, h1 =>
    rw [applyOp] at h1
    simp only [AnyOp.beginApply] at h1
    obtain ⟨v, hv⟩ := beginApply_ok_of_wf o t none hop
    obtain ⟨o', en⟩ := v
    have he := beginApply_engine o t o' en hv
    subst he
    simp [hv, Except.map, bind, Except.bind, appendUnary, Res.get, pure, Except.pure] at h1
    exact Or.inr (Or.inl h1.symm)
  | k+2, h2 =>
    rw [applyOp_iter st k o t hk] at h2
    obtain ⟨v, hv⟩ := beginApply_ok_of_wf o t none hop
    obtain ⟨o', en⟩ := v
    simp only [hv] at h2
    rcases beginApply_cases o t o' en hv with ⟨h1, hwfo⟩ | ⟨h1, _⟩
    · subst h1
      exact Or.inl (finishApply_error σ t o' hwf hwfo e h2)
    · subst h1
      rw [finishApply_identity] at h2; cases h2

/-- **A valid operation is never rejected with a column error because of where back-tracking tried
to put it** (nor with any other internal error). -/
theorem backtrack_error (σ : Leaves) (st : Store) (pref : Engine) (hpk : pref.kind = .iter) :
    (fuel : Nat) → (o : UOp) → (tree : Rel) → (e : Err) →
    tree.WF → tree.Truthful σ → o.wfOn tree.columns = true → (o.isProj = true → tree.spineNoDedup) →
    backtrack st fuel (.u o) tree pref = .error e → e.benign
  | 0, o, tree, e, _, _, _, _, h => by
    rw [backtrack] at h; injection h with h; exact Or.inr (Or.inl h.symm)
  | fuel+1, o, tree, e, hwf, htr, hop, hnd, h => by
    cases hk : tree.engine.kind with
    | sql => rw [backtrack.eq_def] at h; simp [hk] at h
    | iter =>
      cases tree with
      | leaf a b c d e' f g i => rw [backtrack.eq_def] at h; simp [hk, Rel.isLocked] at h
      | mat a b c => rw [backtrack.eq_def] at h; simp [hk, Rel.isLocked] at h
      | binary a b c d => rw [backtrack.eq_def] at h; simp [hk, Rel.isLocked] at h
      | select a b c d e' f g i j =>
        rw [backtrack.eq_def] at h
        simp [hk, Rel.isLocked] at h
        exact Or.inr (Or.inr h.symm)
      | transfer oid dest target =>
        rw [backtrack] at h
        simp only [hk, Rel.isLocked, Bool.false_eq_true, if_false, bind, Except.bind, pure, Except.pure] at h
        have hwft : target.WF := hwf
        have htrt : target.Truthful σ := htr
        have hopt : o.wfOn target.columns = true := hop
        have hndt : o.isProj = true → target.spineNoDedup := fun hp => hnd hp
        by_cases he : (target.engine == pref) = true
        · simp only [he, if_true] at h
          have hkt : target.engine.kind = .iter := by rw [beq_iff_eq.mp he]; exact hpk
          cases happ : applyOp st fuel (.u o) target {} with
          | error e2 =>
            simp only [happ] at h
            injection h with h; subst h
            exact applyOp_iter_error σ st fuel o target _ hkt hwft hopt happ
          | ok r => simp [happ] at h
        · simp only [he, Bool.false_eq_true, if_false] at h
          cases hb : backtrack st fuel (.u o) target pref with
          | error e2 =>
            simp only [hb] at h
            injection h with h; subst h
            exact backtrack_error σ st pref hpk fuel o target _ hwft htrt hopt hndt hb
          | ok v => simp [hb] at h
      | unary cur target ccols =>
        rw [backtrack] at h
        have hkt : target.engine.kind = .iter := hk
        simp only [Rel.engine, hkt, Rel.isLocked, Bool.false_eq_true, if_false, AnyOp.commute, bind, Except.bind,
          pure, Except.pure] at h
        obtain ⟨hwft, hcc, hcur⟩ := hwf
        have htrt : target.Truthful σ := htr
        subst hcc
        have hopc : o.wfOn (cur.appliedColumns target.columns) = true := hop
        have hl := (metadata_truthful σ target hwft htrt).keys
        have hcurnd : o.isProj = true → cur.isDedup = false := fun hp => (hnd hp).1
        have hC : commuteSoundAt o cur target.columns (sem σ target) := by
          cases o with
          | identity => exact commute_identity cur _ _ hcur
          | slice a b => exact commute_slice a b cur _ _ hcur
          | «calc» tag ex => exact commute_calc tag ex cur _ _ hl hcur hopc
          | dedup => exact commute_dedup cur _ _ hl hcur
          | sel p => exact commute_sel p cur _ _ hl hcur hopc
          | sort ts => exact commute_sort ts cur _ _ hl hcur hopc
          | proj c => exact commute_proj c cur _ _ hcur hopc (hcurnd rfl)
        cases hfirst : (o.commute cur target.columns (cur.appliedColumns target.columns)).first with
        | none => simp [hfirst] at h
        | some f =>
          simp only [hfirst, Option.map_some] at h
          obtain ⟨hfw, _, _, _⟩ := commuteSoundAt_some o cur target.columns (sem σ target) f hC hfirst
          have hfnd : f.isProj = true → target.spineNoDedup := by
            intro hfp
            by_cases hop' : o.isProj = true
            · exact (hnd hop').2
            · have := (commute_first_nonproj o cur _ _ f (by simpa using hop') hfirst).1
              rw [this] at hfp; exact absurd hfp hop'
          cases hb : backtrack st fuel (.u f) target pref with
          | error e2 =>
            simp only [hb] at h
            injection h with h; subst h
            exact backtrack_error σ st pref hpk fuel f target _ hwft htrt hfw hfnd hb
          | ok v =>
            obtain ⟨up, d⟩ := v
            simp only [hb] at h
            have ih := backtrack_sound σ st pref fuel f target up d hwft htrt hfw hfnd (prefTargetsGood_of_iter σ pref hpk target) hb
            cases up with
            | same =>
              simp only [Res.get] at ih
              simp only at h
              cases d with
              | false => simp at h
              | true =>
                by_cases hbeq : ((o.commute cur target.columns (cur.appliedColumns target.columns)).second == cur) = true
                · simp [hbeq] at h
                · simp only [hbeq, Bool.not_true, Bool.or_self, Bool.false_eq_true, if_false, Bool.true_and] at h
                  split at h
                  · rename_i e2 hfin
                    injection h with h; subst h
                    exact Or.inl (bt_step_done_err σ o cur target f target _ hC hfirst ih hfin)
                  · cases h
            | new u =>
              simp only [Res.get] at ih
              simp only at h
              cases d with
              | true =>
                simp only [Bool.not_true, Bool.false_and, Bool.false_eq_true, if_false, Bool.true_and] at h
                split at h
                · rename_i e2 hfin
                  injection h with h; subst h
                  exact Or.inl (bt_step_done_err σ o cur target f u _ hC hfirst ih hfin)
                · cases h
              | false =>
                simp only [Bool.false_and] at h
                split at h
                · rename_i e2 hfin
                  injection h with h; subst h
                  by_cases hop' : o.isProj = true
                  · have : ∃ c, o = .proj c := by cases o <;> simp [UOp.isProj] at hop' ⊢
                    obtain ⟨c, hoc⟩ := this
                    subst hoc
                    obtain ⟨F, hF⟩ := commute_first_proj c cur _ _ f hfirst
                    subst hF
                    exact Or.inl ((bt_step_pending_proj_err σ c cur target F u hcur hopc (hcurnd rfl) hfirst ih).1 _ hfin)
                  · exact Or.inl (bt_step_pending_nonproj_err σ o cur target f u _ hcur (by simpa using hop') hC hfirst ih hfin)
                · rename_i r hfin
                  by_cases hop' : o.isProj = true
                  · have : ∃ c, o = .proj c := by cases o <;> simp [UOp.isProj] at hop' ⊢
                    obtain ⟨c, hoc⟩ := this
                    subst hoc
                    obtain ⟨F, hF⟩ := commute_first_proj c cur _ _ f hfirst
                    subst hF
                    have herr := (bt_step_pending_proj_err σ c cur target F u hcur hopc (hcurnd rfl) hfirst ih).2 r
                    by_cases hsub : (r.get u).columns.subset (cur.appliedColumns target.columns) = true
                    · simp only [hsub, Bool.not_true, Bool.and_false, Bool.false_eq_true, if_false] at h
                      cases h
                    · have hsub' : (r.get u).columns.subset (cur.appliedColumns target.columns) = false := by
                        simpa using hsub
                      simp only [hsub', Bool.not_false, Bool.and_self, if_true] at h
                      split at h
                      · rename_i e2 hfin2
                        injection h with h; subst h
                        exact Or.inl (herr _ hfin hfin2)
                      · cases h
                  · obtain ⟨_, g2⟩ := bt_step_pending_nonproj σ o cur target f u r hwft htrt hcur hopc
                      (by simpa using hop') hC hfirst ih hfin
                    simp only [g2, Bool.not_true, Bool.and_false, Bool.false_eq_true, if_false] at h
                    cases h



theorem beginApply_cases' (op : UOp) (t : Rel) (pref : Option Engine) (op' : UOp) (e : Engine)
    (h : op.beginApply t pref = .ok (op', e)) :
    ((op' = op ∧ op.wfOn t.columns = true) ∨ (op' = .identity ∧ op.noopOn t.columns = true)) ∧
      (e = t.engine ∨ pref = some e) := by
  unfold UOp.beginApply at h
  have hpe : ∀ e', pref.getD t.engine = e' → (e' = t.engine ∨ pref = some e') := by
    intro e' he
    cases pref with
    | none => exact Or.inl he.symm
    | some p => exact Or.inr (by simpa using he)
  cases op with
  | identity =>
    injection h with h; injection h with h1 h2
    exact ⟨Or.inl ⟨h1.symm, rfl⟩, hpe e h2⟩
  | dedup =>
    injection h with h; injection h with h1 h2
    exact ⟨Or.inl ⟨h1.symm, rfl⟩, hpe e h2⟩
  | slice a b =>
    simp only at h
    split at h
    · rename_i hc
      injection h with h; injection h with h1 h2
      exact ⟨Or.inr ⟨h1.symm, by simpa [UOp.noopOn] using hc⟩, Or.inl h2.symm⟩
    · injection h with h; injection h with h1 h2
      exact ⟨Or.inl ⟨h1.symm, rfl⟩, hpe e h2⟩
  | sort ts =>
    simp only at h
    split at h
    · rename_i hc
      injection h with h; injection h with h1 h2
      exact ⟨Or.inr ⟨h1.symm, by simpa [UOp.noopOn] using hc⟩, Or.inl h2.symm⟩
    · split at h
      · rename_i hc
        injection h with h; injection h with h1 h2
        refine ⟨Or.inl ⟨h1.symm, ?_⟩, hpe e h2⟩
        simp only [UOp.wfOn, UOp.columnsRequired, Bool.and_true]
        exact sortCols_subset ts _ hc
      · cases h
  | sel p =>
    simp only at h
    split at h
    · rename_i hc
      injection h with h; injection h with h1 h2
      exact ⟨Or.inr ⟨h1.symm, by simpa [UOp.noopOn] using hc⟩, Or.inl h2.symm⟩
    · split at h
      · cases h
      · rename_i hc
        injection h with h; injection h with h1 h2
        refine ⟨Or.inl ⟨h1.symm, ?_⟩, hpe e h2⟩
        simpa [UOp.wfOn, UOp.columnsRequired] using hc
  | proj c =>
    simp only at h
    split at h
    · rename_i hc
      injection h with h; injection h with h1 h2
      exact ⟨Or.inr ⟨h1.symm, by simpa [UOp.noopOn] using hc⟩, Or.inl h2.symm⟩
    · split at h
      · cases h
      · rename_i hc
        injection h with h; injection h with h1 h2
        refine ⟨Or.inl ⟨h1.symm, ?_⟩, hpe e h2⟩
        simpa [UOp.wfOn, UOp.columnsRequired] using hc
  | «calc» tag ex =>
    simp only at h
    split at h
    · cases h
    · split at h
      · cases h
      · rename_i hc1 hc2
        injection h with h; injection h with h1 h2
        refine ⟨Or.inl ⟨h1.symm, ?_⟩, hpe e h2⟩
        simp only [UOp.wfOn, UOp.columnsRequired, Bool.and_eq_true, decide_eq_true_eq]
        exact ⟨by simpa using hc1, hc2⟩

theorem appendUnary_iter (st : Store) (fuel : Nat) (o : UOp) (x : Rel) (r : Res)
    (hk : x.engine.kind = .iter) (h : appendUnary st fuel (.u o) x = .ok r) : o.finishApply x = .ok r := by
  cases fuel with
  | zero => rw [appendUnary] at h; cases h
  | succ k => rw [appendUnary] at h; simpa [hk] using h

/-- `relation.transferred_to(dest)` towards an iteration engine from an iteration-engine relation:
same content, requested engine, same columns, still well-formed. -/
theorem transferTo_iter_sound (σ : Leaves) (st : Store) (fuel : Nat) (dest : Engine) (t : Rel) (res : Res)
    (hd : dest.kind = .iter) (hk : t.engine.kind = .iter) (hwf : t.WF) (htr : t.Truthful σ)
    (h : transferTo st fuel dest t = .ok res) :
    sem σ (res.get t) = sem σ t ∧ (res.get t).engine = dest ∧ (res.get t).columns = t.columns ∧
      (res.get t).WF ∧ (res.get t).Truthful σ := by
  cases fuel with
  | zero => rw [transferTo] at h; cases h
  | succ k =>
    rw [transferTo] at h
    simp only [hd, bind, Except.bind, pure, Except.pure] at h
    have through : ∀ (a b : Rel), transferSimplify dest a = some b →
        sem σ b = sem σ a ∧ b.columns = a.columns ∧ (a.WF → b.WF) ∧ (a.Truthful σ → b.Truthful σ) ∧ b.engine = dest := by
      intro a
      induction a with
      | transfer oid d t' ih =>
        intro b hb
        simp only [transferSimplify] at hb
        split at hb
        · rename_i he
          injection hb with hb; subst hb
          exact ⟨by simp [sem], rfl, fun w => w, fun w => w, (beq_iff_eq.mp he).symm⟩
        · obtain ⟨h1, h2, h3, h4, h5⟩ := ih b hb
          exact ⟨by simpa [sem] using h1, by simpa [Rel.columns] using h2, fun w => h3 w, fun w => h4 w, h5⟩
      | select oid so pr dd a b sk ic t' _ ih =>
        intro b hb
        simp only [transferSimplify] at hb
        obtain ⟨h1, h2, h3, h4, h5⟩ := ih b hb
        exact ⟨by simpa [sem] using h1, by simpa [Rel.columns] using h2, fun w => h3 w, fun w => h4 w, h5⟩
      | leaf => intro b hb; simp [transferSimplify] at hb
      | unary => intro b hb; simp [transferSimplify] at hb
      | binary => intro b hb; simp [transferSimplify] at hb
      | mat => intro b hb; simp [transferSimplify] at hb
    cases hs : transferSimplify dest t with
    | some u =>
      obtain ⟨h1, h2, h3, h4, h5⟩ := through t u hs
      have : (u.engine == dest) = true := by simp [h5]
      simp [hs, this] at h
      subst h
      exact ⟨h1, h5, h2, h3 hwf, h4 htr⟩
    | none =>
      simp only [hs] at h
      by_cases he : (t.engine == dest) = true
      · simp [he] at h
        subst h
        exact ⟨rfl, by simpa [Res.get] using he, rfl, hwf, htr⟩
      · cases k with
        | zero => simp [he, conformIn] at h
        | succ k' =>
          simp [he, conformIn, hk] at h
          subst h
          exact ⟨by simp [Res.get, sem], rfl, rfl, hwf, htr⟩

/-- From `o'` (= `o`, or `Identity` when `o` does nothing on `t`) back to `o`. -/
theorem applyOK_of_begin (σ : Leaves) (o o' : UOp) (t t' : Rel) (opts : Opts) (hwf : t.WF) (htr : t.Truthful σ)
    (hb : (o' = o ∧ o.wfOn t.columns = true) ∨ (o' = .identity ∧ o.noopOn t.columns = true))
    (h : ApplyOK σ o' t t' opts) : ApplyOK σ o t t' opts := by
  rcases hb with ⟨h1, _⟩ | ⟨h1, hn⟩
  · subst h1; exact h
  · subst h1
    have N := noop_sound σ o t hwf htr hn
    refine ⟨?_, fun x => (h.cols x).trans (N.cols x), h.wf, h.truthful, h.engine⟩
    rw [h.sem_eq]
    exact N.sem_eq

/-- **`UnaryOperation.apply` with any preferred-engine options is sound** (iteration engines,
the unary operation classes; projections not across a deduplication: finding F04). -/
theorem applyOp_sound (σ : Leaves) (st : Store) (fuel : Nat) (o : UOp) (t : Rel) (opts : Opts) (res : Res)
    (hkt : t.engine.kind = .iter) (hpk : ∀ p, opts.pref = some p → p.kind = .iter)
    (hwf : t.WF) (htr : t.Truthful σ) (hnd : o.isProj = true → t.spineNoDedup)
    (h : applyOp st (fuel+1) (.u o) t opts = .ok res) : ApplyOK σ o t (res.get t) opts := by
  rw [applyOp_eq_spec] at h
  unfold applyOpSpec at h
  cases hb : o.beginApply t opts.pref with
  | error e => simp [hb] at h
  | ok v =>
    obtain ⟨o', pref⟩ := v
    simp only [hb] at h
    obtain ⟨hcases, hpref⟩ := beginApply_cases' o t opts.pref o' pref hb
    have hprefk : pref.kind = .iter := by
      rcases hpref with h1 | h1
      · rw [h1]; exact hkt
      · exact hpk pref h1
    have ho'wf : o'.wfOn t.columns = true := by
      rcases hcases with ⟨h1, h2⟩ | ⟨h1, _⟩
      · rw [h1]; exact h2
      · rw [h1]; rfl
    have ho'nd : o'.isProj = true → t.spineNoDedup := by
      intro hp
      rcases hcases with ⟨h1, _⟩ | ⟨h1, _⟩
      · rw [h1] at hp; exact hnd hp
      · rw [h1] at hp; simp [UOp.isProj] at hp
    apply applyOK_of_begin σ o o' t _ opts hwf htr hcases
    -- the final `append_unary` on a relation `x` with the right content
    have finish : ∀ (base : Res) (x : Rel) (r : Res), base.get t = x → x.engine.kind = .iter → x.WF → x.Truthful σ →
        o'.wfOn x.columns = true →
        o'.sem (o'.appliedColumns x.columns) (sem σ x) = o'.sem (o'.appliedColumns t.columns) (sem σ t) →
        (∀ c, c ∈ o'.appliedColumns x.columns ↔ c ∈ o'.appliedColumns t.columns) →
        (x.engine = t.engine ∨ (opts.transfer = true ∧ opts.pref = some x.engine)) →
        (match appendUnary st fuel (.u o') x with
          | .error e => (.error e : Except Err Res)
          | .ok .same => .ok base
          | .ok (.new y) => .ok (.new y)) = .ok r → ApplyOK σ o' t (r.get t) opts := by
      intro base x r hbx hxk hxwf hxtr hxop hxsem hxcols hxeng hr
      cases ha : appendUnary st fuel (.u o') x with
      | error e => simp [ha] at hr
      | ok ra =>
        have hfa := appendUnary_iter st fuel o' x ra hxk ha
        have F := finishApply_sound σ x o' hxwf hxtr hxop ra hfa
        have hget : r.get t = ra.get x := by
          cases ra with
          | same => simp only [ha] at hr; injection hr with hr; subst hr; simpa [Res.get] using hbx
          | new y => simp only [ha] at hr; injection hr with hr; subst hr; rfl
        rw [hget]
        refine ⟨by rw [F.sem_eq]; exact hxsem, fun c => (F.cols c).trans (hxcols c), F.wf, F.truthful, ?_⟩
        rw [F.engine]; exact hxeng
    by_cases he : (pref == t.engine) = true
    · simp only [he, if_true] at h
      exact finish .same t res rfl hkt hwf htr ho'wf rfl (fun _ => Iff.rfl) (Or.inl rfl) h
    · simp only [he, Bool.false_eq_true, if_false] at h
      -- the back-tracking step (or none)
      have hbt : ∀ (r1 : Res) (d : Bool),
          (if opts.backtrack = true then backtrack st fuel (.u o') t pref else .ok (.same, false)) = .ok (r1, d) →
          BTok σ o' t (r1.get t) d := by
        intro r1 d hr
        by_cases hbk : opts.backtrack = true
        · simp only [hbk, if_true] at hr
          exact backtrack_sound σ st pref fuel o' t r1 d hwf htr ho'wf ho'nd (prefTargetsGood_of_iter σ pref hprefk t) hr
        · simp only [hbk, Bool.false_eq_true, if_false] at hr
          injection hr with hr; injection hr with h1 h2; subst h1; subst h2
          exact BTok.unchanged σ o' t hwf htr ho'wf
      cases hbtv : (if opts.backtrack = true then backtrack st fuel (.u o') t pref else .ok (.same, false)) with
      | error e => simp [hbtv] at h
      | ok v1 =>
        obtain ⟨r1, d⟩ := v1
        have B := hbt r1 d hbtv
        simp only [hbtv] at h
        cases d with
        | true =>
          simp only at h
          injection h with h; subst h
          obtain ⟨e1, e2⟩ := B.done_sound rfl
          exact ⟨e1, e2, B.wf, B.truthful, Or.inl B.engine⟩
        | false =>
          simp only at h
          obtain ⟨p1, p2⟩ := B.pend_sound rfl
          have hk1 : (r1.get t).engine.kind = .iter := by rw [B.engine]; exact hkt
          by_cases htrf : opts.transfer = true
          · simp only [htrf, if_true] at h
            cases htt : transferTo st fuel pref (r1.get t) with
            | error e => simp [htt] at h
            | ok r2 =>
              simp only [htt] at h
              obtain ⟨t1, t2, t3, t4, t5⟩ := transferTo_iter_sound σ st fuel pref (r1.get t) r2 hprefk hk1 B.wf B.truthful htt
              have hx : ∀ (base : Res), base.get t = r2.get (r1.get t) →
                  (match appendUnary st fuel (.u o') (r2.get (r1.get t)) with
                    | .error e => (.error e : Except Err Res)
                    | .ok .same => .ok base
                    | .ok (.new y) => .ok (.new y)) = .ok res → ApplyOK σ o' t (res.get t) opts := by
                intro base hbase hr
                refine finish base _ res hbase (by rw [t2]; exact hprefk) t4 t5 (by rw [t3]; exact B.pend_wf rfl)
                  (by rw [t1, t3]; exact p1) (by rw [t3]; exact p2) ?_ hr
                right
                refine ⟨htrf, ?_⟩
                rcases hpref with h1 | h1
                · exact absurd (by simp [h1]) he
                · rw [t2]; exact h1
              cases r2 with
              | same => exact hx r1 rfl h
              | new y => exact hx (.new y) rfl h
          · simp only [htrf, Bool.false_eq_true, if_false] at h
            by_cases hrq : opts.require = true
            · simp [hrq] at h
            · simp only [hrq, Bool.false_eq_true, if_false] at h
              exact finish r1 _ res rfl hk1 B.wf B.truthful (B.pend_wf rfl) p1 p2 (Or.inl B.engine) h


theorem appendUnary_iter_error (σ : Leaves) (st : Store) (fuel : Nat) (o : UOp) (x : Rel) (e : Err)
    (hk : x.engine.kind = .iter) (hwf : x.WF) (hop : o.wfOn x.columns = true)
    (h : appendUnary st fuel (.u o) x = .error e) : e.benign := by
  cases fuel with
  | zero => rw [appendUnary] at h; injection h with h; exact Or.inr (Or.inl h.symm)
  | succ k =>
    rw [appendUnary] at h
    simp only [hk] at h
    exact Or.inl (finishApply_error σ x o hwf hop e h)

theorem transferTo_iter_error (st : Store) (fuel : Nat) (dest : Engine) (t : Rel) (e : Err)
    (hd : dest.kind = .iter) (hk : t.engine.kind = .iter)
    (h : transferTo st fuel dest t = .error e) : e.benign := by
  cases fuel with
  | zero => rw [transferTo] at h; injection h with h; exact Or.inr (Or.inl h.symm)
  | succ k =>
    rw [transferTo] at h
    simp only [hd, bind, Except.bind, pure, Except.pure] at h
    cases hs : transferSimplify dest t with
    | some u =>
      have hue : u.engine = dest := by
        have through : ∀ (a b : Rel), transferSimplify dest a = some b → b.engine = dest := by
          intro a
          induction a with
          | transfer oid d t' ih =>
            intro b hb
            simp only [transferSimplify] at hb
            split at hb
            · rename_i he; injection hb with hb; subst hb; exact (beq_iff_eq.mp he).symm
            · exact ih b hb
          | select oid so pr dd a b sk ic t' _ ih => intro b hb; simp only [transferSimplify] at hb; exact ih b hb
          | leaf => intro b hb; simp [transferSimplify] at hb
          | unary => intro b hb; simp [transferSimplify] at hb
          | binary => intro b hb; simp [transferSimplify] at hb
          | mat => intro b hb; simp [transferSimplify] at hb
        exact through t u hs
      simp [hs, hue] at h
    | none =>
      simp only [hs] at h
      by_cases he : (t.engine == dest) = true
      · simp [he] at h
      · cases k with
        | zero =>
          simp [he, conformIn] at h
          exact Or.inr (Or.inl h.symm)
        | succ k' => simp [he, conformIn, hk] at h

/-- **A valid request is never rejected with a column error**, whatever the options: the only
exceptions `apply` can raise for an operation that is well-formed for the target are the documented
`EngineError` (unsupported expression, or `require_preferred_engine` could not be honoured) and the
two model artefacts. -/
theorem applyOp_error (σ : Leaves) (st : Store) (fuel : Nat) (o : UOp) (t : Rel) (opts : Opts) (e : Err)
    (hkt : t.engine.kind = .iter) (hpk : ∀ p, opts.pref = some p → p.kind = .iter)
    (hwf : t.WF) (htr : t.Truthful σ) (hop : o.wfOn t.columns = true)
    (hnd : o.isProj = true → t.spineNoDedup)
    (h : applyOp st (fuel+1) (.u o) t opts = .error e) : e.benign := by
  rw [applyOp_eq_spec] at h
  unfold applyOpSpec at h
  obtain ⟨v, hb⟩ := beginApply_ok_of_wf o t opts.pref hop
  obtain ⟨o', pref⟩ := v
  simp only [hb] at h
  obtain ⟨hcases, hpref⟩ := beginApply_cases' o t opts.pref o' pref hb
  have hprefk : pref.kind = .iter := by
    rcases hpref with h1 | h1
    · rw [h1]; exact hkt
    · exact hpk pref h1
  have ho'wf : o'.wfOn t.columns = true := by
    rcases hcases with ⟨h1, h2⟩ | ⟨h1, _⟩
    · rw [h1]; exact h2
    · rw [h1]; rfl
  have ho'nd : o'.isProj = true → t.spineNoDedup := by
    intro hp
    rcases hcases with ⟨h1, _⟩ | ⟨h1, _⟩
    · rw [h1] at hp; exact hnd hp
    · rw [h1] at hp; simp [UOp.isProj] at hp
  have finish : ∀ (base : Res) (x : Rel), x.engine.kind = .iter → x.WF → o'.wfOn x.columns = true →
      (match appendUnary st fuel (.u o') x with
        | .error e => (.error e : Except Err Res)
        | .ok .same => .ok base
        | .ok (.new y) => .ok (.new y)) = .error e → e.benign := by
    intro base x hxk hxwf hxop hr
    cases ha : appendUnary st fuel (.u o') x with
    | error e2 =>
      simp only [ha] at hr
      injection hr with hr; subst hr
      exact appendUnary_iter_error σ st fuel o' x _ hxk hxwf hxop ha
    | ok ra => cases ra <;> simp [ha] at hr
  by_cases he : (pref == t.engine) = true
  · simp only [he, if_true] at h
    exact finish .same t hkt hwf ho'wf h
  · simp only [he, Bool.false_eq_true, if_false] at h
    cases hbtv : (if opts.backtrack = true then backtrack st fuel (.u o') t pref else .ok (.same, false)) with
    | error e2 =>
      simp only [hbtv] at h
      injection h with h; subst h
      by_cases hbk : opts.backtrack = true
      · simp only [hbk, if_true] at hbtv
        exact backtrack_error σ st pref hprefk fuel o' t _ hwf htr ho'wf ho'nd hbtv
      · simp [hbk] at hbtv
    | ok v1 =>
      obtain ⟨r1, d⟩ := v1
      have B : BTok σ o' t (r1.get t) d := by
        by_cases hbk : opts.backtrack = true
        · simp only [hbk, if_true] at hbtv
          exact backtrack_sound σ st pref fuel o' t r1 d hwf htr ho'wf ho'nd (prefTargetsGood_of_iter σ pref hprefk t) hbtv
        · simp only [hbk, Bool.false_eq_true, if_false] at hbtv
          injection hbtv with hbtv; injection hbtv with h1 h2; subst h1; subst h2
          exact BTok.unchanged σ o' t hwf htr ho'wf
      simp only [hbtv] at h
      cases d with
      | true => simp at h
      | false =>
        simp only at h
        have hk1 : (r1.get t).engine.kind = .iter := by rw [B.engine]; exact hkt
        by_cases htrf : opts.transfer = true
        · simp only [htrf, if_true] at h
          cases htt : transferTo st fuel pref (r1.get t) with
          | error e2 =>
            simp only [htt] at h
            injection h with h; subst h
            exact transferTo_iter_error st fuel pref (r1.get t) _ hprefk hk1 htt
          | ok r2 =>
            simp only [htt] at h
            obtain ⟨_, t2, t3, t4, _⟩ := transferTo_iter_sound σ st fuel pref (r1.get t) r2 hprefk hk1 B.wf B.truthful htt
            have hx := finish
            cases r2 with
            | same => exact hx r1 _ hk1 B.wf (B.pend_wf rfl) h
            | new y =>
              refine hx (.new y) y ?_ ?_ ?_ h
              · have : (Res.new y).get (r1.get t) = y := rfl
                rw [this] at t2; rw [t2]; exact hprefk
              · exact t4
              · have : (Res.new y).get (r1.get t) = y := rfl
                rw [this] at t3; rw [t3]; exact B.pend_wf rfl
        · simp only [htrf, Bool.false_eq_true, if_false] at h
          by_cases hrq : opts.require = true
          · simp only [hrq, if_true] at h
            injection h with h; exact Or.inl h.symm
          · simp only [hrq, Bool.false_eq_true, if_false] at h
            exact finish r1 _ hk1 B.wf (B.pend_wf rfl) h

end DafRel
