/-
The arithmetic of `item in range(start, stop, step)` in SQL (`BETWEEN` + `%`, with SQLite's
truncating remainder and Python's flooring one) against Python's `range` membership.
-/
import DafRel.Model.Sql

namespace DafRel

theorem sqlExpr_sub_lit (env : PEnv) (x : SqlExpr) (v c : Int) (h : x.eval env = some v) :
    (SqlExpr.fn .sub [x, .lit c]).eval env = some (v - c) := by
  simp [SqlExpr.eval, SqlExpr.evalList, h, Fn.apply]

/-- Membership in the ascending range as SQL computes it. -/
theorem ascRange_sound (env : PEnv) (x : SqlExpr) (v start last step : Int) (hx : x.eval env = some v)
    (hs : 0 < step) :
    (ascRange x start last step).eval env =
      (decide (start ≤ v) && decide (v ≤ last) && decide ((v - start) % step = 0)) := by
  unfold ascRange
  by_cases h1 : start = last
  · subst h1
    simp only [beq_self_eq_true, if_true, SqlPred.eval, hx]
    rw [Bool.eq_iff_iff]
    simp only [beq_iff_eq, Option.some.injEq, Bool.and_eq_true, decide_eq_true_eq]
    constructor
    · intro h; subst h; simp
    · intro ⟨⟨h1, h2⟩, _⟩; omega
  · have hne : (start == last) = false := by simpa using h1
    simp only [hne, Bool.false_eq_true, if_false]
    by_cases h2 : step = 1
    · subst h2
      simp only [bne_self_eq_false, Bool.false_eq_true, if_false, SqlPred.eval, hx]
      simp [Int.emod_one]
    · have hne2 : (step != 1) = true := by simpa using h2
      simp only [hne2, if_true]
      have hstep0 : step ≠ 0 := by omega
      by_cases h3 : start < 0
      · simp only [h3, if_true, SqlPred.eval, SqlPred.evalAll, hx, sqlExpr_sub_lit env x v start hx,
          sqliteMod, hstep0, if_false, Bool.and_true]
        by_cases hb : start ≤ v
        · have : (v - start).tmod step = (v - start) % step := Int.tmod_eq_emod_of_nonneg (by omega)
          rw [this, Bool.eq_iff_iff]
          simp [hb]
        · simp [hb]
      · simp only [h3, if_false, SqlPred.eval, SqlPred.evalAll, hx, sqliteMod, hstep0, Bool.and_true]
        by_cases hb : start ≤ v
        · have e1 : v.tmod step = v % step := Int.tmod_eq_emod_of_nonneg (by omega)
          have e2 : start.fmod step = start % step := Int.fmod_eq_emod_of_nonneg start (by omega)
          rw [e1, e2]
          have := @Int.emod_eq_emod_iff_emod_sub_eq_zero v step start
          rw [Bool.eq_iff_iff]
          simp only [hb, decide_true, Bool.true_and, Bool.and_eq_true, decide_eq_true_eq, beq_iff_eq,
            Option.some.injEq]
          constructor
          · intro ⟨h, hm⟩; exact ⟨h, this.mp hm⟩
          · intro ⟨h, hm⟩; exact ⟨h, this.mpr hm⟩
        · simp [hb]

/-- Reversing a descending range: `range(a, b, -m)` (`a > b`, `m > 0`) has the members of the
ascending range that starts at `a - k*m` with `k = (a - b - 1) / m` and ends at `a`. -/
theorem desc_range_reversed (v a b m : Int) (hm : 0 < m) (hab : b < a) :
    let k := (a - b - 1) / m
    (a - k * m ≤ v ∧ v ≤ a + m - 1 ∧ (v - (a - k * m)) % m = 0) ↔ (b < v ∧ v ≤ a ∧ (a - v) % m = 0) := by
  intro k
  have hdvd : (v - (a - k * m)) % m = 0 ↔ (a - v) % m = 0 := by
    rw [← Int.dvd_iff_emod_eq_zero, ← Int.dvd_iff_emod_eq_zero]
    have e : v - (a - k * m) = -(a - v) + k * m := by
      have : k * m - a = -a + k * m := by omega
      omega
    rw [e]
    constructor
    · intro h
      have h2 : m ∣ k * m := Int.dvd_mul_left k m
      have := Int.dvd_sub h h2
      simpa using this
    · intro h
      exact Int.dvd_add (Int.dvd_neg.mpr h) (Int.dvd_mul_left k m)
  constructor
  · rintro ⟨h1, h2, h3⟩
    have h3' := hdvd.mp h3
    obtain ⟨j, hj⟩ := Int.dvd_of_emod_eq_zero h3'
    -- a - v = m * j
    have hj0 : 0 ≤ j := by
      by_cases hneg : j < 0
      · have : m * j ≤ m * (-1) := Int.mul_le_mul_of_nonneg_left (by omega) (by omega)
        omega
      · omega
    have hjk : j ≤ k := by
      have : m * j ≤ m * k := by
        have : k * m = m * k := Int.mul_comm k m
        omega
      exact Int.le_of_mul_le_mul_left this hm
    have hkm : k * m ≤ a - b - 1 := (Int.le_ediv_iff_mul_le hm).mp (Int.le_refl k)
    have hjm : j * m ≤ k * m := Int.mul_le_mul_of_nonneg_right hjk (by omega)
    have : m * j = j * m := Int.mul_comm m j
    refine ⟨by omega, ?_, h3'⟩
    have : 0 ≤ m * j := Int.mul_nonneg (by omega) hj0
    omega
  · rintro ⟨h1, h2, h3⟩
    obtain ⟨j, hj⟩ := Int.dvd_of_emod_eq_zero h3
    have hj0 : 0 ≤ m * j := by omega
    have hjk : j ≤ k := by
      apply (Int.le_ediv_iff_mul_le hm).mpr
      have : j * m = m * j := Int.mul_comm j m
      omega
    have hjm : j * m ≤ k * m := Int.mul_le_mul_of_nonneg_right hjk (by omega)
    have : m * j = j * m := Int.mul_comm m j
    exact ⟨by omega, by omega, hdvd.mpr h3⟩

/-- **`item in range(a, b, s)` means the same in SQL as in Python**, for every `a`, `b`, `s`
(including negative bounds, negative steps, empty ranges and `s = 0`). -/
theorem convRange_sound (env : PEnv) (x : SqlExpr) (v a b s : Int) (hx : x.eval env = some v) :
    (convRange x a b s).eval env = inRange v a b s := by
  unfold convRange inRange
  by_cases hempty : ((decide (s > 0) && decide (a ≥ b)) || (decide (s < 0) && decide (a ≤ b)) || s == 0) = true
  · simp only [hempty, if_true, SqlPred.eval]
    simp only [Bool.or_eq_true, Bool.and_eq_true, decide_eq_true_eq, beq_iff_eq] at hempty
    rcases hempty with (⟨h1, h2⟩ | ⟨h1, h2⟩) | h1
    · have : ¬ (a ≤ v ∧ v < b) := by omega
      simp only [h1, if_true]
      rw [eq_comm, Bool.eq_false_iff]
      intro hc
      simp only [Bool.and_eq_true, decide_eq_true_eq] at hc
      exact this ⟨hc.1.1, hc.1.2⟩
    · have hs0 : ¬ s > 0 := by omega
      have : ¬ (b < v ∧ v ≤ a) := by omega
      simp only [hs0, if_false, h1, if_true]
      rw [eq_comm, Bool.eq_false_iff]
      intro hc
      simp only [Bool.and_eq_true, decide_eq_true_eq] at hc
      exact this ⟨hc.1.1, hc.1.2⟩
    · subst h1; simp
  · simp only [hempty, Bool.false_eq_true, if_false]
    simp only [Bool.or_eq_true, Bool.and_eq_true, decide_eq_true_eq, beq_iff_eq, not_or, not_and] at hempty
    obtain ⟨⟨hpos, hneg⟩, hz⟩ := hempty
    by_cases hs : s < 0
    · have hs0 : ¬ s > 0 := by omega
      simp only [hs, if_true, hs0, if_false]
      have hab : b < a := by have := hneg hs; omega
      have hm : 0 < -s := by omega
      rw [ascRange_sound env x v _ _ (-s) hx hm]
      have key := desc_range_reversed v a b (-s) hm hab
      simp only at key
      have e1 : a + ((a - b - 1) / -s + 1 - 1) * s = a - (a - b - 1) / -s * -s := by
        have : ((a - b - 1) / -s + 1 - 1) = (a - b - 1) / -s := by omega
        rw [this, Int.mul_neg]; omega
      have e2 : a - s - 1 = a + -s - 1 := by omega
      rw [e1, e2]
      rw [Bool.eq_iff_iff]
      simp only [Bool.and_eq_true, decide_eq_true_eq]
      constructor
      · intro ⟨⟨h1, h2⟩, h3⟩
        have := key.mp ⟨h1, h2, h3⟩
        exact ⟨⟨this.1, this.2.1⟩, this.2.2⟩
      · intro ⟨⟨h1, h2⟩, h3⟩
        have := key.mpr ⟨h1, h2, h3⟩
        exact ⟨⟨this.1, this.2.1⟩, this.2.2⟩
    · have hs1 : s > 0 := by omega
      simp only [hs, if_false, hs1, if_true]
      rw [ascRange_sound env x v a (b - 1) s hx hs1]
      rw [Bool.eq_iff_iff]
      simp only [Bool.and_eq_true, decide_eq_true_eq]
      constructor
      · intro ⟨⟨h1, h2⟩, h3⟩; exact ⟨⟨h1, by omega⟩, h3⟩
      · intro ⟨⟨h1, h2⟩, h3⟩; exact ⟨⟨h1, by omega⟩, h3⟩

end DafRel
