/-
Basic facts about `Good` trees (Spec/Select.lean): well-formedness, engine, inversion, and closure
under `_finish_apply`.
-/
import DafRel.Lemmas.FinishApply
import DafRel.Lemmas.Build
import DafRel.Lemmas.Conform
import DafRel.Spec.Select

namespace DafRel

variable {I : NodeInv}

theorem Good.props {σ : Leaves} {t : Rel} (h : Good I σ t) : t.WF ∧ t.Truthful σ ∧ t.engine.kind = .sql := by
  induction h with
  | atom r _ hw ht he _ => exact ⟨hw, ht, he⟩
  | unary op t c _ hw ih => exact ⟨hw, ih.2.1, ih.2.2⟩
  | chain l r c _ _ hw ihl ihr => exact ⟨hw, ⟨ihl.2.1, ihr.2.1⟩, ihl.2.2⟩
  | join j l r c _ _ hw _ _ ihl ihr => exact ⟨hw, ⟨ihl.2.1, ihr.2.1⟩, ihl.2.2⟩
  | sel S hS he _ _ _ _ => exact ⟨hS.wf, hS.truthful, he⟩

theorem Good.wf {σ : Leaves} {t : Rel} (h : Good I σ t) : t.WF := h.props.1
theorem Good.truthful {σ : Leaves} {t : Rel} (h : Good I σ t) : t.Truthful σ := h.props.2.1
theorem Good.sql {σ : Leaves} {t : Rel} (h : Good I σ t) : t.engine.kind = .sql := h.props.2.2

theorem Good.selInv {σ : Leaves} {S : Rel} (h : Good I σ S) (hs : S.isSelect = true) :
    SelOK σ S ∧ Good I σ S.skipTo := by
  cases h with
  | atom r ha _ _ _ _ => cases S <;> simp_all [Rel.isAtom, Rel.isSelect]
  | unary => simp [Rel.isSelect] at hs
  | chain => simp [Rel.isSelect] at hs
  | join => simp [Rel.isSelect] at hs
  | sel S hS _ _ _ gk => exact ⟨hS, gk⟩

theorem Good.unaryInv {σ : Leaves} {op : UOp} {t : Rel} {c : Cols} (h : Good I σ (.unary op t c)) :
    Good I σ t ∧ (Rel.unary op t c).WF := by
  cases h with
  | atom r ha _ _ _ _ => simp [Rel.isAtom] at ha
  | unary _ _ _ g w => exact ⟨g, w⟩
  | sel S hS _ _ _ _ => have := hS.isSel; simp [Rel.isSelect] at this

theorem Good.chainInv {σ : Leaves} {l r : Rel} {c : Cols} (h : Good I σ (.binary .chain l r c)) :
    Good I σ l ∧ Good I σ r := by
  cases h with
  | atom r ha _ _ _ _ => simp [Rel.isAtom] at ha
  | chain _ _ _ g1 g2 _ => exact ⟨g1, g2⟩
  | sel S hS _ _ _ _ => have := hS.isSel; simp [Rel.isSelect] at this

/-- A coherent Select over a Good skip target of compilable shape is Good. -/
theorem Good.ofSel {σ : Leaves} {S : Rel} (ok : SelOK σ S) (hsh : S.skipTo.compOK true = true)
    (hI : I.sel S) (gk : Good I σ S.skipTo) : Good I σ S :=
  Good.sel S ok (by rw [ok.engine]; exact gk.sql) hsh hI gk

/-- The Select invariant of a Good Select. -/
theorem Good.selI {σ : Leaves} {S : Rel} (h : Good I σ S) (hs : S.isSelect = true) : I.sel S := by
  cases h with
  | atom r ha _ _ _ _ => cases S <;> simp_all [Rel.isAtom, Rel.isSelect]
  | unary => simp [Rel.isSelect] at hs
  | chain => simp [Rel.isSelect] at hs
  | join => simp [Rel.isSelect] at hs
  | sel S _ _ _ hI _ => exact hI

/-- The atom invariant of a Good atom. -/
theorem Good.atomI {σ : Leaves} {r : Rel} (h : Good I σ r) (ha : r.isAtom = true) : I.atom r := by
  cases h with
  | atom r _ _ _ _ hI => exact hI
  | unary => simp [Rel.isAtom] at ha
  | chain => simp [Rel.isAtom] at ha
  | join => simp [Rel.isAtom] at ha
  | sel _ hS _ _ _ _ => have := hS.isSel; cases r <;> simp_all [Rel.isAtom, Rel.isSelect]

/-- Selects made by `apply_skip` are fresh objects. -/
theorem applySkip_oid (k : Rel) (sl : Slots) (r : Rel) (h : applySkip k sl = .ok r) : r.oid = 0 := by
  rw [applySkip_eq_spec] at h
  simp only [applySkipSpec, bind, Except.bind] at h
  repeat' split at h
  all_goals first | (cases h; done) | (injection h with h; subst h; rfl)

/-- The skip target of a Good Select has the shape `to_payload` compiles. -/
theorem Good.shape {σ : Leaves} {S : Rel} (h : Good I σ S) (hs : S.isSelect = true) :
    S.skipTo.compOK true = true := by
  cases h with
  | atom r ha _ _ _ _ => cases S <;> simp_all [Rel.isAtom, Rel.isSelect]
  | unary => simp [Rel.isSelect] at hs
  | chain => simp [Rel.isSelect] at hs
  | join => simp [Rel.isSelect] at hs
  | sel S _ _ hsh _ _ => exact hsh

/-! ### shapes -/

theorem compOK_select (b : Bool) (S : Rel) (hs : S.isSelect = true) : S.compOK b = S.skipTo.compOK true := by
  cases S <;> simp [Rel.isSelect] at hs
  cases b <;> rfl

/-- A Good Select has the compilable shape (as a skip target, a join operand, a UNION branch). -/
theorem Good.compOK {σ : Leaves} {S : Rel} (h : Good I σ S) (hs : S.isSelect = true) (b : Bool) :
    S.compOK b = true := by
  rw [compOK_select b S hs]; exact h.shape hs

theorem compOK_true_of_false : (t : Rel) → t.compOK false = true → t.compOK true = true
  | .leaf .., _ => rfl
  | .mat .., _ => rfl
  | .transfer .., _ => rfl
  | .select .., h => h
  | .unary op t c, h => by cases op <;> simpa [Rel.compOK] using h
  | .binary op l r c, h => by
    cases op with
    | chain => simp [Rel.compOK] at h
    | join j => simpa [Rel.compOK] using h
    | ignoreOne b => simp [Rel.compOK] at h

theorem compOK_false_of_not_chain : (t : Rel) → t.compOK true = true → isChain t = false → t.compOK false = true
  | .leaf .., _, _ => rfl
  | .mat .., _, _ => rfl
  | .transfer .., _, _ => rfl
  | .select .., h, _ => h
  | .unary op t c, h, _ => by cases op <;> simpa [Rel.compOK] using h
  | .binary op l r c, h, hn => by
    cases op with
    | chain => simp [isChain] at hn
    | join j => simpa [Rel.compOK] using h
    | ignoreOne b => simp [Rel.compOK] at h

theorem compOK_atom (t : Rel) (ha : t.isAtom = true) (b : Bool) : t.compOK b = true := by
  cases t <;> simp [Rel.isAtom] at ha <;> cases b <;> rfl

/-- `_finish_apply` keeps trees Good. -/
theorem finishApply_good (σ : Leaves) : (t : Rel) → (op : UOp) → (res : Res) → Good I σ t →
    op.wfOn t.columns = true → op.finishApply t = .ok res → Good I σ (res.get t)
  | .unary up t' c, op, res, gt, hop, h => by
    obtain ⟨gt', hwf⟩ := gt.unaryInv
    unfold UOp.finishApply at h
    by_cases hn : op.noopOn c = true
    · simp only [hn, if_true] at h
      injection h with h; subst h; exact gt
    · simp only [hn, Bool.false_eq_true, if_false] at h
      obtain ⟨_, hc, hup⟩ := hwf
      have hss := simplify_sound op up t'.columns [] hup (by rw [← hc]; exact hop)
      cases hs : op.simplify up with
      | error e => simp [hs] at hss
      | ok sres =>
        simp only [hs] at h hss
        cases sres with
        | no =>
          simp only at h
          have hg := construct_get op _ res h
          rw [hg]
          exact Good.unary op _ _ gt ⟨gt.wf, rfl, hop⟩
        | keepUpstream => injection h with h; subst h; exact gt
        | replace s =>
          cases hr : UOp.finishApply s t' with
          | error e => simp [hr] at h
          | ok r =>
            simp only [hr] at h
            injection h with h; subst h
            exact finishApply_good σ t' s r gt' hss.2.2 hr
  | .leaf a b c d e f g i, op, res, gt, hop, h | .binary a b c d, op, res, gt, hop, h
  | .mat a b c, op, res, gt, hop, h | .transfer a b c, op, res, gt, hop, h
  | .select a b c d e f g i j, op, res, gt, hop, h => by
    unfold UOp.finishApply at h
    split at h
    · injection h with h; subst h; exact gt
    · have hg := construct_get op _ res h
      rw [hg]
      exact Good.unary op _ _ gt ⟨gt.wf, rfl, hop⟩

end DafRel

namespace DafRel

variable {I : NodeInv}

theorem Good.joinInv {σ : Leaves} {j : JoinOp} {l r : Rel} {c : Cols} (h : Good I σ (.binary (.join j) l r c)) :
    Good I σ l ∧ Good I σ r ∧ (Rel.binary (.join j) l r c).WF ∧
      j.pred.columnsRequired.subset (l.columns.union r.columns) = true := by
  cases h with
  | atom r ha _ _ _ _ => simp [Rel.isAtom] at ha
  | join _ _ _ _ g1 g2 w hp _ => exact ⟨g1, g2, w, hp⟩
  | sel S hS _ _ _ _ => have := hS.isSel; simp [Rel.isSelect] at this

theorem Good.rows {σ : Leaves} {t : Rel} (h : Good I σ t) : RowsHaveCols (sem σ t) t.columns :=
  (metadata_truthful σ t h.wf h.truthful).keys

/-- Applying a Calculation or Selection (with all the merging `_finish_apply` does) keeps the shape. -/
theorem finishApply_compOK : (t : Rel) → (op : UOp) → (res : Res) → op.belowSlots = true →
    t.compOK false = true → op.finishApply t = .ok res → (res.get t).compOK false = true
  | .unary up t' c, op, res, hb, ht, h => by
    unfold UOp.finishApply at h
    by_cases hn : op.noopOn c = true
    · simp only [hn, if_true] at h
      injection h with h; subst h; exact ht
    · simp only [hn, Bool.false_eq_true, if_false] at h
      have ht' : t'.compOK false = true := by cases up <;> simp [Rel.compOK] at ht <;> exact ht
      cases hs : op.simplify up with
      | error e => simp [hs] at h
      | ok sres =>
        simp only [hs] at h
        cases sres with
        | no =>
          simp only at h
          have hg := construct_get op _ res h
          rw [hg]
          cases op <;> simp [UOp.belowSlots] at hb <;> simpa [Rel.compOK] using ht
        | keepUpstream => injection h with h; subst h; exact ht
        | replace s =>
          cases hr : UOp.finishApply s t' with
          | error e => simp [hr] at h
          | ok r =>
            simp only [hr] at h
            injection h with h; subst h
            have hsb : s.belowSlots = true := by
              cases op <;> simp [UOp.belowSlots] at hb
              · simp [UOp.simplify] at hs
              · cases up <;> simp [UOp.simplify] at hs
                subst hs; rfl
            exact finishApply_compOK t' s r hsb ht' hr
  | .leaf a b c d e f g i, op, res, hb, ht, h | .binary a b c d, op, res, hb, ht, h
  | .mat a b c, op, res, hb, ht, h | .transfer a b c, op, res, hb, ht, h
  | .select a b c d e f g i j, op, res, hb, ht, h => by
    unfold UOp.finishApply at h
    split at h
    · injection h with h; subst h; exact ht
    · have hg := construct_get op _ res h
      rw [hg]
      cases op <;> simp [UOp.belowSlots] at hb <;> simpa [Rel.compOK] using ht

end DafRel
