/-
`Join.applied_common_columns`: the automatically resolved common columns are key columns of both operands.
-/
import DafRel.Model.Op
import DafRel.Lemmas.WF

namespace DafRel

theorem appliedCommonColumns_resolved (j : JoinOp) (lcols rcols common : Cols) (hr : j.resolved = false)
    (h : j.appliedCommonColumns lcols rcols = .ok common) :
    (∀ t, t ∈ common → t ∈ lcols ∧ t ∈ rcols ∧ t.isKey = true) ∧ j.minCols.subset common = true := by
  unfold JoinOp.appliedCommonColumns at h
  simp only [hr, Bool.not_false, if_true] at h
  have base : ∀ t, t ∈ Cols.keys (Cols.inter lcols rcols) → t ∈ lcols ∧ t ∈ rcols ∧ t.isKey = true := by
    intro t hk
    have := List.mem_filter.mp hk
    have hin := List.mem_filter.mp this.1
    exact ⟨hin.1, by simpa using hin.2, this.2⟩
  cases hm : j.maxCols with
  | none =>
    simp only [hm] at h
    by_cases hsub : j.minCols.subset (Cols.keys (Cols.inter lcols rcols)) = true
    · simp only [hsub, if_true] at h
      injection h with h; subst h
      exact ⟨base, hsub⟩
    · simp [hsub] at h
  | some m =>
    simp only [hm] at h
    by_cases hsub : j.minCols.subset (Cols.inter (Cols.keys (Cols.inter lcols rcols)) m) = true
    · simp only [hsub, if_true] at h
      injection h with h; subst h
      exact ⟨fun t ht => base t (List.mem_filter.mp ht).1, hsub⟩
    · simp [hsub] at h

end DafRel
