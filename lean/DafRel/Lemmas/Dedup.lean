/-
Python's dict-based deduplication (`to_mapping`: position of the first insertion, value of the
last) equals "first occurrence of each distinct row" on key-determined data.
-/
import DafRel.Lemmas.WF
import DafRel.Model.IterExec

namespace DafRel

/-- First occurrences with respect to an arbitrary observation `f` of a row. -/
def firstOccBy {β : Type} [DecidableEq β] (f : Row → β) (seen : List β) : List Row → List Row
  | [] => []
  | r :: rs => if f r ∈ seen then firstOccBy f seen rs else r :: firstOccBy f (f r :: seen) rs

theorem firstOccAux_eq_by (cols : Cols) (seen : List (List (Option Int))) (l : List Row) :
    firstOccAux cols seen l = firstOccBy (fun r => r.proj cols) seen l := by
  induction l generalizing seen with
  | nil => rfl
  | cons r rs ih =>
    simp only [firstOccAux, firstOccBy, List.contains_iff_mem, ih]

theorem firstOccBy_congr_seen {β : Type} [DecidableEq β] (f : Row → β) (s1 s2 : List β) (l : List Row)
    (h : ∀ x, x ∈ s1 ↔ x ∈ s2) : firstOccBy f s1 l = firstOccBy f s2 l := by
  induction l generalizing s1 s2 with
  | nil => rfl
  | cons r rs ih =>
    simp only [firstOccBy]
    by_cases hm : f r ∈ s1
    · have hm2 : f r ∈ s2 := (h _).mp hm
      simp only [hm, hm2, if_true]
      exact ih s1 s2 h
    · have hm2 : ¬ f r ∈ s2 := fun x => hm ((h _).mpr x)
      simp only [hm, hm2, if_false]
      congr 1
      apply ih
      intro x
      simp [h x]

/-- Two observations that identify the same pairs of rows yield the same first occurrences. -/
theorem firstOccBy_congr_obs {β γ : Type} [DecidableEq β] [DecidableEq γ] (f : Row → β) (g : Row → γ)
    (S l : List Row) (h : ∀ a b, (a ∈ S ∨ a ∈ l) → (b ∈ S ∨ b ∈ l) → (f a = f b ↔ g a = g b)) :
    firstOccBy f (S.map f) l = firstOccBy g (S.map g) l := by
  induction l generalizing S with
  | nil => rfl
  | cons r rs ih =>
    simp only [firstOccBy]
    have hiff : f r ∈ S.map f ↔ g r ∈ S.map g := by
      simp only [List.mem_map]
      constructor
      · rintro ⟨a, ha, hfa⟩
        exact ⟨a, ha, (h a r (Or.inl ha) (Or.inr (by simp))).mp hfa⟩
      · rintro ⟨a, ha, hga⟩
        exact ⟨a, ha, (h a r (Or.inl ha) (Or.inr (by simp))).mpr hga⟩
    by_cases hm : f r ∈ S.map f
    · simp only [hm, hiff.mp hm, if_true]
      exact ih S (fun a b ha hb => h a b (ha.imp id (List.mem_cons_of_mem _)) (hb.imp id (List.mem_cons_of_mem _)))
    · have hm2 : ¬ g r ∈ S.map g := fun x => hm (hiff.mpr x)
      simp only [hm, hm2, if_false]
      congr 1
      have := ih (r :: S) (fun a b ha hb => h a b
        (by rcases ha with ha | ha
            · rcases List.mem_cons.mp ha with rfl | ha'
              · exact Or.inr (by simp)
              · exact Or.inl ha'
            · exact Or.inr (List.mem_cons_of_mem _ ha))
        (by rcases hb with hb | hb
            · rcases List.mem_cons.mp hb with rfl | hb'
              · exact Or.inr (by simp)
              · exact Or.inl hb'
            · exact Or.inr (List.mem_cons_of_mem _ hb)))
      simpa using this

/-! ### The dictionary -/

abbrev Dict := List (List (Option Int) × Row)

theorem dictInsert_absent (k : List (Option Int)) (r : Row) (d : Dict) (h : k ∉ d.map (·.1)) :
    dictInsert k r d = d ++ [(k, r)] := by
  induction d with
  | nil => rfl
  | cons e es ih =>
    obtain ⟨k', r'⟩ := e
    simp only [List.map_cons, List.mem_cons, not_or] at h
    have hne : ¬ k' = k := fun x => h.1 x.symm
    simp only [dictInsert, hne, if_false, List.cons_append]
    rw [ih h.2]

theorem dictInsert_present (k : List (Option Int)) (r : Row) (d : Dict) (h : k ∈ d.map (·.1))
    (hv : ∀ e, e ∈ d → e.1 = k → e.2 = r) : dictInsert k r d = d := by
  induction d with
  | nil => simp at h
  | cons e es ih =>
    obtain ⟨k', r'⟩ := e
    by_cases hk : k' = k
    · have := hv (k', r') (by simp) hk
      simp only at this
      simp [dictInsert, hk, this]
    · simp only [dictInsert, hk, if_false]
      have h' : k ∈ es.map (·.1) := by
        simp only [List.map_cons, List.mem_cons] at h
        rcases h with h | h
        · exact absurd h.symm hk
        · exact h
      rw [ih h' (fun e he => hv e (List.mem_cons_of_mem _ he))]

/-- Folding the dictionary inserts: the values are the initial ones followed by the first
occurrences (by key) of the new rows, provided rows with equal keys are equal. -/
theorem foldl_dictInsert (key : Cols) (rows : List Row) (d : Dict)
    (hinv : ∀ e, e ∈ d → e.1 = e.2.proj key)
    (hkd : ∀ a b, (a ∈ d.map (·.2) ∨ a ∈ rows) → (b ∈ d.map (·.2) ∨ b ∈ rows) →
      a.proj key = b.proj key → a = b) :
    (rows.foldl (fun d r => dictInsert (r.proj key) r d) d).map (·.2)
      = d.map (·.2) ++ firstOccBy (fun r => r.proj key) (d.map (·.1)) rows := by
  induction rows generalizing d with
  | nil => simp [firstOccBy]
  | cons r rs ih =>
    simp only [List.foldl_cons, firstOccBy]
    by_cases hm : r.proj key ∈ d.map (·.1)
    · have hsame : dictInsert (r.proj key) r d = d := by
        apply dictInsert_present _ _ _ hm
        intro e he hek
        have h1 := hinv e he
        exact hkd e.2 r (Or.inl (List.mem_map_of_mem he)) (Or.inr (by simp)) (by rw [← h1, hek])
      rw [hsame]
      simp only [hm, if_true]
      exact ih d hinv (fun a b ha hb => hkd a b (ha.imp id (List.mem_cons_of_mem _)) (hb.imp id (List.mem_cons_of_mem _)))
    · rw [dictInsert_absent _ _ _ hm]
      simp only [hm, if_false]
      have := ih (d ++ [(r.proj key, r)])
        (by
          intro e he
          rcases List.mem_append.mp he with he | he
          · exact hinv e he
          · simp at he; subst he; rfl)
        (by
          intro a b ha hb
          apply hkd
          · rcases ha with ha | ha
            · simp only [List.map_append, List.mem_append, List.map_cons, List.map_nil, List.mem_singleton] at ha
              rcases ha with ha | rfl
              · exact Or.inl ha
              · exact Or.inr (by simp)
            · exact Or.inr (List.mem_cons_of_mem _ ha)
          · rcases hb with hb | hb
            · simp only [List.map_append, List.mem_append, List.map_cons, List.map_nil, List.mem_singleton] at hb
              rcases hb with hb | rfl
              · exact Or.inl hb
              · exact Or.inr (by simp)
            · exact Or.inr (List.mem_cons_of_mem _ hb))
      rw [this]
      simp only [List.map_append, List.map_cons, List.map_nil, List.append_assoc, List.singleton_append]
      congr 2
      apply firstOccBy_congr_seen
      intro x
      simp [or_comm]

/-- Rows that have exactly the columns `cols` and agree on them are equal. -/
theorem row_ext_of_cols {a b : Row} {cols : Cols} (ha : RowHasCols a cols) (hb : RowHasCols b cols)
    (h : a.proj cols = b.proj cols) : a = b := by
  funext t
  by_cases ht : t ∈ cols
  · have : ∀ (l : Cols), t ∈ l → a.proj l = b.proj l → a t = b t := by
      intro l
      induction l with
      | nil => simp
      | cons u us ih =>
        intro hm hp
        simp only [Row.proj, List.map_cons, List.cons.injEq] at hp
        rcases List.mem_cons.mp hm with rfl | hm'
        · exact hp.1
        · exact ih hm' hp.2
    exact this cols ht h
  · have h1 : a t = none := by
      cases hat : a t with
      | none => rfl
      | some v => exact absurd ((ha t).mp (by simp [hat])) ht
    have h2 : b t = none := by
      cases hbt : b t with
      | none => rfl
      | some v => exact absurd ((hb t).mp (by simp [hbt])) ht
    rw [h1, h2]

theorem agree_iff_proj (a b : Row) (c : Cols) : a.agree b c = true ↔ a.proj c = b.proj c := by
  induction c with
  | nil => simp [Row.agree, Row.proj]
  | cons t ts ih =>
    simp only [Row.agree, List.all_cons, Bool.and_eq_true, beq_iff_eq, Row.proj, List.map_cons,
      List.cons.injEq] at ih ⊢
    constructor
    · intro ⟨h1, h2⟩; exact ⟨h1, ih.mp h2⟩
    · intro ⟨h1, h2⟩; exact ⟨h1, ih.mpr h2⟩

/-- **Dict-based deduplication is first-occurrence deduplication on key-determined data.** -/
theorem dictDedup_eq_firstOcc (cols : Cols) (rows : List Row) (hc : RowsHaveCols rows cols)
    (hkd : rowsKeyDetermined cols rows = true) :
    dictDedup cols.keys rows = .ok (firstOcc cols rows) := by
  have hpresent : rows.all (fun r => cols.keys.all (fun t => (r t).isSome)) = true := by
    simp only [List.all_eq_true]
    intro r hr t ht
    have : t ∈ cols := (List.mem_filter.mp ht).1
    exact (hc r hr t).mpr this
  have hkd' : ∀ a b, a ∈ rows → b ∈ rows → a.proj cols.keys = b.proj cols.keys → a = b := by
    intro a b ha hb hp
    simp only [rowsKeyDetermined, List.all_eq_true, Bool.or_eq_true, Bool.not_eq_true'] at hkd
    have := hkd a ha b hb
    rcases this with h | h
    · have : a.agree b cols.keys = true := (agree_iff_proj a b _).mpr hp
      rw [this] at h; cases h
    · exact row_ext_of_cols (hc a ha) (hc b hb) ((agree_iff_proj a b cols).mp h)
  unfold dictDedup
  rw [if_pos hpresent]
  have h1 := foldl_dictInsert cols.keys rows [] (by simp) (by
    intro a b ha hb
    simp only [List.map_nil, List.not_mem_nil, false_or] at ha hb
    exact hkd' a b ha hb)
  simp only [List.map_nil, List.nil_append] at h1
  rw [h1]
  simp only [firstOcc, firstOccAux_eq_by]
  congr 1
  have := firstOccBy_congr_obs (fun r => r.proj cols.keys) (fun r => r.proj cols) [] rows (by
    intro a b ha hb
    simp only [List.not_mem_nil, false_or] at ha hb
    constructor
    · intro h; rw [hkd' a b ha hb h]
    · intro h
      have := row_ext_of_cols (hc a ha) (hc b hb) h
      rw [this])
  simpa using this

end DafRel
