/-
Well-formedness of trees, truthful leaves, and the metadata theorem (C06):
for a well-formed tree over truthful leaves every row of the reference semantics has exactly the
relation's columns and the number of rows lies within `[min_rows, max_rows]`.
-/
import DafRel.Lemmas.Sort
import DafRel.Lemmas.Slice
import DafRel.Spec.Preds

namespace DafRel

/-! ### Column-set lemmas -/

theorem Cols.mem_union (a b : Cols) (t : Tag) : t ∈ a.union b ↔ t ∈ a ∨ t ∈ b := by
  unfold Cols.union
  simp only [List.mem_append, List.mem_filter, decide_eq_true_eq]
  constructor
  · rintro (h | ⟨h, _⟩)
    · exact Or.inl h
    · exact Or.inr h
  · rintro (h | h)
    · exact Or.inl h
    · by_cases ha : t ∈ a
      · exact Or.inl ha
      · exact Or.inr ⟨h, ha⟩

theorem Cols.mem_insert (a : Cols) (x t : Tag) : t ∈ a.insert x ↔ t ∈ a ∨ t = x := by
  unfold Cols.insert
  split
  · rename_i h
    constructor
    · exact Or.inl
    · rintro (h' | rfl)
      · exact h'
      · exact h
  · simp

theorem Cols.subset_iff (a b : Cols) : a.subset b = true ↔ ∀ t, t ∈ a → t ∈ b := by
  simp [Cols.subset, List.all_eq_true]

theorem Cols.seteq_iff (a b : Cols) : a.seteq b = true ↔ ∀ t, t ∈ a ↔ t ∈ b := by
  simp only [Cols.seteq, Bool.and_eq_true, Cols.subset_iff]
  constructor
  · intro ⟨h1, h2⟩ t
    exact ⟨h1 t, h2 t⟩
  · intro h
    exact ⟨fun t => (h t).mp, fun t => (h t).mpr⟩

theorem Cols.mem_diff (a b : Cols) (t : Tag) : t ∈ a.diff b ↔ t ∈ a ∧ t ∉ b := by
  simp [Cols.diff]

/-! ### Row-key lemmas for each operation -/

theorem RowHasCols.set {r : Row} {c : Cols} (h : RowHasCols r c) (tag : Tag) (v : Int) :
    RowHasCols (r.set tag v) (c.insert tag) := by
  intro t
  rw [Cols.mem_insert]
  unfold Row.set
  by_cases ht : t = tag
  · simp [ht]
  · simp [ht, h t]

theorem RowHasCols.restrict {r : Row} {c : Cols} (h : RowHasCols r c) (c' : Cols)
    (hsub : ∀ t, t ∈ c' → t ∈ c) : RowHasCols (r.restrict c') c' := by
  intro t
  unfold Row.restrict
  by_cases ht : t ∈ c'
  · simp [ht, (h t).mpr (hsub t ht)]
  · simp [ht]

theorem RowHasCols.merge {l r : Row} {cl cr : Cols} (hl : RowHasCols l cl) (hr : RowHasCols r cr) :
    RowHasCols (l.merge r) (cl.union cr) := by
  intro t
  rw [Cols.mem_union]
  unfold Row.merge
  cases hrt : r t with
  | none =>
    have : ¬ t ∈ cr := fun hm => by
      have := (hr t).mpr hm
      simp [hrt] at this
    simp [this, hl t]
  | some v =>
    have : t ∈ cr := (hr t).mp (by simp [hrt])
    simp [this]

theorem RowHasCols.congr {r : Row} {c c' : Cols} (h : RowHasCols r c) (hc : ∀ t, t ∈ c ↔ t ∈ c') :
    RowHasCols r c' := fun t => (h t).trans (hc t)

/-- Restricting a row to (a set equal to) its own key set changes nothing. -/
theorem Row.restrict_self {r : Row} {c c' : Cols} (h : RowHasCols r c) (hc : ∀ t, t ∈ c' ↔ t ∈ c) :
    r.restrict c' = r := by
  funext t
  unfold Row.restrict
  by_cases ht : t ∈ c'
  · simp [ht]
  · have : ¬ t ∈ c := fun hm => ht ((hc t).mpr hm)
    have hnone : r t = none := by
      cases hrt : r t with
      | none => rfl
      | some v => exact absurd ((h t).mp (by simp [hrt])) this
    simp [ht, hnone]

/-! ### Membership in the results of the list operations -/

theorem mem_firstOccAux (cols : Cols) (seen : List (List (Option Int))) (l : List Row) (r : Row) :
    r ∈ firstOccAux cols seen l → r ∈ l := by
  induction l generalizing seen with
  | nil => simp [firstOccAux]
  | cons x xs ih =>
    unfold firstOccAux
    split
    · intro h; exact List.mem_cons_of_mem _ (ih _ h)
    · intro h
      rcases List.mem_cons.mp h with rfl | h
      · simp
      · exact List.mem_cons_of_mem _ (ih _ h)

theorem length_firstOccAux_le (cols : Cols) (seen : List (List (Option Int))) (l : List Row) :
    (firstOccAux cols seen l).length ≤ l.length := by
  induction l generalizing seen with
  | nil => simp [firstOccAux]
  | cons x xs ih =>
    unfold firstOccAux
    split
    · have := ih seen; simp; omega
    · have := ih (x.proj cols :: seen); simp; omega

theorem firstOcc_ne_nil (cols : Cols) (l : List Row) (h : l ≠ []) : firstOcc cols l ≠ [] := by
  cases l with
  | nil => exact absurd rfl h
  | cons x xs => simp [firstOcc, firstOccAux]

/-- With no columns every row has the same (empty) projection: at most one row survives. -/
theorem firstOccAux_nil_seen (seen : List (List (Option Int))) (l : List Row) (h : [] ∈ seen) :
    firstOccAux [] seen l = [] := by
  induction l with
  | nil => rfl
  | cons x xs ih =>
    unfold firstOccAux
    have : seen.contains (x.proj []) = true := by simpa [Row.proj] using h
    rw [if_pos this]
    exact ih

theorem length_firstOccAux_nil (seen : List (List (Option Int))) (l : List Row) :
    (firstOccAux [] seen l).length ≤ 1 := by
  induction l generalizing seen with
  | nil => simp [firstOccAux]
  | cons x xs ih =>
    unfold firstOccAux
    split
    · exact ih seen
    · have : firstOccAux [] (x.proj [] :: seen) xs = [] :=
        firstOccAux_nil_seen _ xs (by simp [Row.proj])
      simp [this]

theorem length_firstOcc_noCols (cols : Cols) (h : cols.isEmpty = true) (l : List Row) :
    (firstOcc cols l).length ≤ 1 := by
  have : cols = [] := by cases cols <;> simp_all [Cols.isEmpty]
  subst this
  exact length_firstOccAux_nil [] l

theorem length_sliceList {α : Type} (s : Nat) (e : Option Nat) (l : List α) :
    (sliceList s e l).length = (match e with | none => l.length | some e => min e l.length) - s := by
  cases e <;> simp [sliceList]

theorem mem_sliceList {α : Type} (s : Nat) (e : Option Nat) (l : List α) (x : α) :
    x ∈ sliceList s e l → x ∈ l := by
  cases e with
  | none => exact fun h => List.mem_of_mem_drop h
  | some e => exact fun h => List.mem_of_mem_take (List.mem_of_mem_drop h)

theorem length_joinRows_le (common : Cols) (p : Pred) (ls rs : List Row) :
    (joinRows common p ls rs).length ≤ ls.length * rs.length := by
  unfold joinRows
  induction ls with
  | nil => simp
  | cons l ls ih =>
    simp only [List.flatMap_cons, List.length_append, List.length_map, List.length_cons]
    have := List.length_filter_le (fun r => l.agree r common && p.val (l.merge r)) rs
    rw [Nat.add_mul]
    omega

theorem mem_joinRows (common : Cols) (p : Pred) (ls rs : List Row) (x : Row) :
    x ∈ joinRows common p ls rs → ∃ l r, l ∈ ls ∧ r ∈ rs ∧ x = l.merge r := by
  unfold joinRows
  simp only [List.mem_flatMap, List.mem_map, List.mem_filter]
  rintro ⟨l, hl, r, ⟨hr, _⟩, rfl⟩
  exact ⟨l, r, hl, hr, rfl⟩

end DafRel
