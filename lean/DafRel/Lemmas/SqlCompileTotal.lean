/-
**Compilation never fails on the trees the SQL engine builds** (C08): for every Good tree of the compilable
shape whose leaves and processed markers hold payloads, `_select_to_executable` and `to_payload` succeed -
no missing-column lookup (`KeyError`) in a SELECT list, ORDER BY, WHERE, ON or calculated column, no
unsupported node.  Mutual induction over the recursion budget.
-/
import DafRel.Lemmas.SqlCompileSound

namespace DafRel

variable {I : NodeInv}

/-! ### lookups that cannot fail -/

mutual
theorem convPred_total (avail : List (Tag × SqlExpr)) :
    (p : Pred) → (∀ t, t ∈ p.columnsRequired → (SqlPayload.lookup avail t).isSome = true) →
      ∃ q, convPred avail p = .ok q
  | .lit b, _ => ⟨_, rfl⟩
  | .ref t, h => by
    have := h t (by simp [Pred.columnsRequired])
    cases hl : SqlPayload.lookup avail t with
    | none => simp [hl] at this
    | some y => cases y <;> simp [convPred, hl]
  | .fn f args s, h => by
    obtain ⟨xs, hx⟩ := convExprs_total avail args (by simpa [Pred.columnsRequired] using h)
    exact ⟨.fn f xs, by simp [convPred, hx]⟩
  | .not p, h => by
    obtain ⟨q, hq⟩ := convPred_total avail p (by simpa [Pred.columnsRequired] using h)
    exact ⟨.not q, by simp [convPred, hq]⟩
  | .and ps, h => by
    obtain ⟨qs, hq⟩ := convPreds_total avail ps (by simpa [Pred.columnsRequired] using h)
    match qs, hq with
    | [], hq => simp [convPred, hq]
    | [q], hq => simp [convPred, hq]
    | q1 :: q2 :: rest, hq => simp [convPred, hq]
  | .or ps, h => by
    obtain ⟨qs, hq⟩ := convPreds_total avail ps (by simpa [Pred.columnsRequired] using h)
    match qs, hq with
    | [], hq => simp [convPred, hq]
    | [q], hq => simp [convPred, hq]
    | q1 :: q2 :: rest, hq => simp [convPred, hq]
  | .inC item c, h => by
    obtain ⟨x, hx⟩ := convExpr_total avail item (fun t ht => h t (by simp [Pred.columnsRequired, ht]))
    cases c with
    | range a b st => simp [convPred, hx]
    | seq items =>
      obtain ⟨xs, hxs⟩ := convExprs_total avail items
        (fun t ht => h t (by simp [Pred.columnsRequired, Container.columnsRequired, ht]))
      simp [convPred, hx, hxs]
theorem convPreds_total (avail : List (Tag × SqlExpr)) :
    (ps : List Pred) → (∀ t, t ∈ Pred.columnsRequiredList ps → (SqlPayload.lookup avail t).isSome = true) →
      ∃ qs, convPreds avail ps = .ok qs
  | [], _ => ⟨_, rfl⟩
  | p :: ps, h => by
    obtain ⟨q, hq⟩ := convPred_total avail p (fun t ht => h t (by simp [Pred.columnsRequiredList, ht]))
    obtain ⟨qs, hqs⟩ := convPreds_total avail ps (fun t ht => h t (by simp [Pred.columnsRequiredList, ht]))
    exact ⟨q :: qs, by simp [convPreds, hq, hqs]⟩
end

theorem convFlattened_total (avail : List (Tag × SqlExpr)) (p : Pred)
    (h : ∀ t, t ∈ p.columnsRequired → (SqlPayload.lookup avail t).isSome = true) :
    ∃ ws, convFlattened avail p = .ok ws := by
  unfold convFlattened
  cases hf : p.flattenAnd with
  | none => exact ⟨_, rfl⟩
  | some ps =>
    exact convPreds_total avail ps (fun t ht => h t (Pred.flattenAnd_cols p ps hf t ht))

theorem mapM_lookup_total (avail : List (Tag × SqlExpr)) :
    (tcols : Cols) → (∀ t, t ∈ tcols → (SqlPayload.lookup avail t).isSome = true) →
      ∃ items, tcols.mapM (fun t => (SqlPayload.lookup avail t).map (fun e => (t, e))) = some items
  | [], _ => ⟨[], rfl⟩
  | t :: ts, h => by
    obtain ⟨items, hi⟩ := mapM_lookup_total avail ts (fun x hx => h x (List.mem_cons_of_mem _ hx))
    have := h t List.mem_cons_self
    cases hl : SqlPayload.lookup avail t with
    | none => simp [hl] at this
    | some y => exact ⟨(t, y) :: items, by simp [List.mapM_cons, hl, hi]⟩

theorem sortMapM_total (avail : List (Tag × SqlExpr)) :
    (ts : List SortTerm) → (∀ t, t ∈ UOp.sortCols ts → (SqlPayload.lookup avail t).isSome = true) →
      ∃ ob, ts.mapM (fun t => (convExpr avail t.expr).map (fun e => (e, t.asc))) = .ok ob
  | [], _ => ⟨[], rfl⟩
  | t :: ts, h => by
    obtain ⟨ob, hob⟩ := sortMapM_total avail ts (fun x hx => h x (by simp [UOp.sortCols, hx]))
    obtain ⟨x, hx⟩ := convExpr_total avail t.expr (fun c hc => h c (by simp [UOp.sortCols, hc]))
    refine ⟨(x, t.asc) :: ob, ?_⟩
    simp only [Except.map] at hob
    simp [List.mapM_cons, hx, hob, Except.map, bind, Except.bind, pure, Except.pure]

theorem onCommon_total (la ra : List (Tag × SqlExpr)) :
    (common : Cols) → (∀ t, t ∈ common → (SqlPayload.lookup la t).isSome = true ∧ (SqlPayload.lookup ra t).isSome = true) →
      ∃ oc, common.mapM (onCommonTerm la ra) = some oc
  | [], _ => ⟨[], rfl⟩
  | t :: ts, h => by
    obtain ⟨oc, hoc⟩ := onCommon_total la ra ts (fun x hx => h x (List.mem_cons_of_mem _ hx))
    obtain ⟨h1, h2⟩ := h t List.mem_cons_self
    cases hl : SqlPayload.lookup la t with
    | none => simp [hl] at h1
    | some a =>
      cases hr : SqlPayload.lookup ra t with
      | none => simp [hr] at h2
      | some b => simp [List.mapM_cons, onCommonTerm, hl, hr, hoc]

theorem joinExtra_total (avail : List (Tag × SqlExpr)) (p : Pred)
    (h : ∀ t, t ∈ p.columnsRequired → (SqlPayload.lookup avail t).isSome = true) :
    ∃ ex, joinExtra avail p = .ok ex := by
  unfold joinExtra
  split
  · exact ⟨_, rfl⟩
  · exact convFlattened_total avail p h

/-! ### what the built payloads expose -/

theorem payDom_calc (p : SqlPayload) (cols : Cols) (tag : Tag) (x : SqlExpr) (h : PayDom p cols) :
    PayDom { p with avail := availSet p.avail tag x } (cols.insert tag) := by
  intro t
  show (SqlPayload.lookup (availSet p.avail tag x) t).isSome = true ↔ _
  rw [lookup_availSet, Cols.mem_insert]
  by_cases ht : t = tag
  · simp [ht]
  · simp only [ht, if_false, or_false]; exact h t

theorem payDom_sub (alias : String) (q : Query) (cols : Cols) :
    PayDom { frm := .subquery alias q, avail := subAvail alias cols } cols := by
  intro t
  show (SqlPayload.lookup (subAvail alias cols) t).isSome = true ↔ _
  rw [lookup_subAvail]; by_cases ht : t ∈ cols <;> simp [ht]

theorem payDom_merge (pl pr : SqlPayload) (lc rc : Cols) (frm : From) (wh : List SqlPred)
    (hl : PayDom pl lc) (hr : PayDom pr rc) :
    PayDom { frm := frm, wh := wh, avail := availMerge pl.avail pr.avail } (lc.union rc) := by
  intro t
  show (SqlPayload.lookup (availMerge pl.avail pr.avail) t).isSome = true ↔ _
  rw [lookup_availMerge, Cols.mem_union, ← hl t, ← hr t]
  by_cases hb : (SqlPayload.lookup pr.avail t).isSome = true
  · simp [hb]
  · simp [hb]

theorem atom_payDom (s : SqlState) (t : Rel) (p : SqlPayload) (hrd : t.PayReady s)
    (h : t.payloadSql s = some p) : PayDom p t.columns := by
  cases t with
  | leaf oid e cols nm mn mx pl ms =>
    obtain ⟨p0, hp0, P0⟩ := hrd
    simp only [Rel.payloadSql, Rel.oid, hp0, Option.some.injEq] at h
    subst h; exact P0
  | mat oid nm t' =>
    obtain ⟨p0, hp0, P0⟩ := hrd
    simp only [Rel.payloadSql, Rel.oid, hp0, Option.some.injEq] at h
    subst h; exact P0
  | transfer oid d t' =>
    obtain ⟨p0, hp0, P0⟩ := hrd
    simp only [Rel.payloadSql, Rel.oid, hp0, Option.some.injEq] at h
    subst h; exact P0
  | select oid so pr dd a b sk ic tg =>
    rcases hrd with ⟨hnone, _⟩ | ⟨own, hown, Pown⟩
    · simp [Rel.payloadSql, Rel.oid, hnone] at h
    · simp only [Rel.payloadSql, Rel.oid, hown, Option.some.injEq] at h
      subst h; exact Pown
  | unary => simp [Rel.payloadSql] at h
  | binary => simp [Rel.payloadSql] at h

/-! ### the induction -/

structure TotalOK (I : NodeInv) (σ : Leaves) (s : SqlState) (fuel : Nat) : Prop where
  select : ∀ S ctr, Good I σ S → S.isSelect = true → S.PayReady s → S.compOK false = true →
    S.height ≤ fuel + 1 → ∃ q c, compileSelect s fuel S ctr = .ok (q, c)
  payload : ∀ t ctr, Good I σ t → t.PayReady s → t.compOK false = true → t.height ≤ fuel →
    ∃ p c, toPayload s fuel t ctr = .ok (p, c) ∧ PayDom p t.columns

theorem total_zero (σ : Leaves) (s : SqlState) : TotalOK I σ s 0 := by
  refine ⟨?_, ?_⟩
  · intro S ctr _ hs _ _ hh
    cases S <;> simp [Rel.isSelect] at hs
    simp [Rel.height] at hh
  · intro t ctr _ _ _ hh
    cases t <;> simp [Rel.height] at hh

theorem total_payload_step (σ : Leaves) (s : SqlState) (fuel : Nat) (ih : TotalOK I σ s fuel) :
    ∀ t ctr, Good I σ t → t.PayReady s → t.compOK false = true → t.height ≤ fuel + 1 →
      ∃ p c, toPayload s (fuel+1) t ctr = .ok (p, c) ∧ PayDom p t.columns := by
  intro t ctr gt hrd hsh hh
  cases t with
  | leaf oid e cols nm mn mx pl ms =>
    obtain ⟨p0, hp0, P0⟩ := hrd
    exact ⟨p0, ctr, by unfold toPayload; simp [Rel.payloadSql, Rel.oid, hp0], P0⟩
  | mat oid nm t' =>
    obtain ⟨p0, hp0, P0⟩ := hrd
    exact ⟨p0, ctr, by unfold toPayload; simp [Rel.payloadSql, Rel.oid, hp0], P0⟩
  | transfer oid d t' =>
    obtain ⟨p0, hp0, P0⟩ := hrd
    exact ⟨p0, ctr, by unfold toPayload; simp [Rel.payloadSql, Rel.oid, hp0], P0⟩
  | select oid so pr dd a b sk ic tg =>
    rcases hrd with ⟨hnone, hsk⟩ | ⟨own, hown, Pown⟩
    rotate_left
    · exact ⟨own, ctr, by unfold toPayload; simp [Rel.payloadSql, Rel.oid, hown], Pown⟩
    obtain ⟨q, c1, hq⟩ := ih.select (Rel.select oid so pr dd a b sk ic tg) ctr gt rfl (Or.inl ⟨hnone, hsk⟩) hsh hh
    refine ⟨?_, c1 + 1, ?_, ?_⟩
    rotate_left
    · unfold toPayload; simp only [Rel.payloadSql, Rel.oid, hnone, hq]; rfl
    · exact payDom_sub _ q _
  | unary op t' cc =>
    obtain ⟨gt', hwf⟩ := gt.unaryInv
    obtain ⟨hwt, hcc, hopw⟩ := hwf
    have hh' : t'.height ≤ fuel := by simp only [Rel.height] at hh; omega
    cases op with
    | «calc» tag e =>
      obtain ⟨p0, c1, h0, P0⟩ := ih.payload t' ctr gt' hrd (by simpa [Rel.compOK] using hsh) hh'
      simp only [UOp.wfOn, UOp.columnsRequired, Bool.and_eq_true, decide_eq_true_eq] at hopw
      obtain ⟨x, hx⟩ := convExpr_total p0.avail e
        (fun t ht => (P0 t).mpr ((Cols.subset_iff _ _).mp hopw.1 t ht))
      refine ⟨?_, c1, ?_, ?_⟩
      rotate_left
      · unfold toPayload; simp only [Rel.payloadSql, h0, hx]; rfl
      · simp only [Rel.columns, hcc, UOp.appliedColumns]
        exact payDom_calc p0 _ tag x P0
    | sel pr =>
      obtain ⟨p0, c1, h0, P0⟩ := ih.payload t' ctr gt' hrd (by simpa [Rel.compOK] using hsh) hh'
      simp only [UOp.wfOn, UOp.columnsRequired, Bool.and_true] at hopw
      obtain ⟨ws, hw⟩ := convFlattened_total p0.avail pr
        (fun t ht => (P0 t).mpr ((Cols.subset_iff _ _).mp hopw t ht))
      refine ⟨?_, c1, ?_, ?_⟩
      rotate_left
      · unfold toPayload; simp only [Rel.payloadSql, h0, hw]; rfl
      · simp only [Rel.columns, hcc, UOp.appliedColumns]
        exact P0
    | dedup => simp [Rel.compOK] at hsh
    | identity => simp [Rel.compOK] at hsh
    | proj _ => simp [Rel.compOK] at hsh
    | slice _ _ => simp [Rel.compOK] at hsh
    | sort _ => simp [Rel.compOK] at hsh
  | binary bop l r cc =>
    cases bop with
    | chain => simp [Rel.compOK] at hsh
    | ignoreOne il => simp [Rel.compOK] at hsh
    | join j =>
      obtain ⟨gl, gr, hwf, hpc⟩ := gt.joinInv
      obtain ⟨hwl, hwr, hcc, hml, hmr⟩ := hwf
      obtain ⟨hrl, hrr, hjr⟩ := hrd
      simp only [Rel.compOK, Bool.and_eq_true] at hsh
      have hhl : l.height ≤ fuel := by simp only [Rel.height] at hh; omega
      have hhr : r.height ≤ fuel := by simp only [Rel.height] at hh; omega
      obtain ⟨pl, c1, h1, Pl⟩ := ih.payload l ctr gl hrl hsh.1 hhl
      obtain ⟨pr, c2, h2, Pr⟩ := ih.payload r c1 gr hrr hsh.2 hhr
      obtain ⟨oc, hoc⟩ := onCommon_total pl.avail pr.avail j.minCols (fun t ht =>
        ⟨(Pl t).mpr ((Cols.subset_iff _ _).mp hml t ht), (Pr t).mpr ((Cols.subset_iff _ _).mp hmr t ht)⟩)
      have Pm := payDom_merge pl pr l.columns r.columns (.join pl.frm pr.frm []) [] Pl Pr
      obtain ⟨ex, hex⟩ := joinExtra_total (availMerge pl.avail pr.avail) j.pred
        (fun t ht => (Pm t).mpr ((Cols.subset_iff _ _).mp hpc t ht))
      refine ⟨?_, c2, ?_, ?_⟩
      rotate_left
      · unfold toPayload; simp only [Rel.payloadSql, h1, h2, JoinOp.commonColumns, hjr, if_true, hoc, hex]; rfl
      · simp only [Rel.columns, hcc]
        exact payDom_merge pl pr l.columns r.columns _ _ Pl Pr

theorem total_select_step (σ : Leaves) (s : SqlState) (fuel : Nat) (ih : TotalOK I σ s fuel) :
    ∀ S ctr, Good I σ S → S.isSelect = true → S.PayReady s → S.compOK false = true →
      S.height ≤ fuel + 2 → ∃ q c, compileSelect s (fuel+1) S ctr = .ok (q, c) := by
  intro S ctr gS hs hrd hsh hh
  obtain ⟨hS, gk⟩ := gS.selInv hs
  cases S with
  | select oid so pr dd a b sk ic tg =>
    rcases hrd with ⟨hnone, hsk⟩ | ⟨own, hown, Pown⟩
    rotate_left
    · -- a payload attached to the Select itself
      obtain ⟨items, hit⟩ := mapM_lookup_total own.avail tg.columns (fun t ht => (Pown t).mpr ht)
      refine ⟨Query.select
        (items.foldl (fun acc x => if (acc.find? (·.1 == x.1)).isSome then acc else acc ++ [x]) [])
        own.frm own.wh false [] 0 none, ctr, ?_⟩
      unfold compileSelect
      simp only [hown, hit]
    have hslots : (Rel.select oid so pr dd a b sk ic tg).slots = ⟨so, pr, dd, a, b⟩ := rfl
    have hskip : (Rel.select oid so pr dd a b sk ic tg).skipTo = sk := rfl
    have gk' : Good I σ sk := hskip ▸ gk
    have hsw : (⟨so, pr, dd, a, b⟩ : Slots).wfOn sk.columns := by
      have := hS.slotsWF; rw [hslots, hskip] at this; exact this
    have hhk : sk.height ≤ fuel := by simp only [Rel.height] at hh; omega
    simp only [Rel.compOK] at hsh
    -- is the skip target a chain?
    by_cases hch : ∃ l r cc, sk = .binary .chain l r cc
    · obtain ⟨l, r, cc, rfl⟩ := hch
      simp only [Rel.compOK, Bool.and_eq_true] at hsh
      obtain ⟨⟨⟨hl, hr⟩, hcl⟩, hcr⟩ := hsh
      obtain ⟨gl, gr⟩ := gk'.chainInv
      obtain ⟨hrl, hrr, _⟩ := hsk
      have hhl : l.height ≤ fuel + 1 := by simp only [Rel.height] at hhk; omega
      have hhr : r.height ≤ fuel + 1 := by simp only [Rel.height] at hhk; omega
      obtain ⟨ql, c1, h1⟩ := ih.select l ctr gl hl hrl hcl hhl
      obtain ⟨qr, c2, h2⟩ := ih.select r c1 gr hr hrr hcr hhr
      obtain ⟨ob, hob⟩ := sortMapM_total (subAvail "" (Rel.binary .chain l r cc).columns) so (fun t ht => by
        rw [lookup_subAvail]
        have := (Cols.subset_iff _ _).mp hsw.1 t ht
        simp [this])
      cases l <;> simp [Rel.isSelect] at hl
      cases r <;> simp [Rel.isSelect] at hr
      refine ⟨?_, c2, ?_⟩
      rotate_left
      unfold compileSelect; simp only [hnone, h1, h2, hob]; rfl
    · -- one level over a payload
      have htc : ∀ t, t ∈ tg.columns → t ∈ sk.columns := by
        intro t ht
        have := (hS.cols t).mp ht
        rw [hslots, hskip] at this
        cases pr with
        | none => exact this
        | some c => exact (Cols.subset_iff _ _).mp (hsw.2 c rfl) t this
      have finish : ∀ p c1, PayDom p sk.columns →
          ((sk.payloadSql s = some p ∧ c1 = ctr) ∨ (sk.payloadSql s = none ∧ toPayload s fuel sk ctr = .ok (p, c1))) →
          ∃ q c, compileSelect s (fuel+1) (Rel.select oid so pr dd a b sk ic tg) ctr = .ok (q, c) := by
        intro p c1 P hor
        obtain ⟨items, hit⟩ := mapM_lookup_total p.avail tg.columns (fun t ht => (P t).mpr (htc t ht))
        obtain ⟨ob, hob⟩ := sortMapM_total p.avail so (fun t ht => (P t).mpr ((Cols.subset_iff _ _).mp hsw.1 t ht))
        refine ⟨Query.select
          (items.foldl (fun acc x => if (acc.find? (·.1 == x.1)).isSome then acc else acc ++ [x]) [])
          p.frm p.wh dd ob a (b.map (· - a)), c1, ?_⟩
        unfold compileSelect
        simp only [hnone]
        split
        · rename_i l r cc
          exact absurd ⟨l, r, cc, rfl⟩ hch
        · rcases hor with ⟨hps, hc⟩ | ⟨hps, h0⟩
          · subst hc; simp only [hps, hit, hob]
          · simp only [hps, h0, hit, hob]
      cases hps : sk.payloadSql s with
      | some p0 => exact finish p0 ctr (atom_payDom s sk p0 hsk hps) (Or.inl ⟨hps, rfl⟩)
      | none =>
        have hc : sk.compOK false = true := by
          cases sk with
          | binary bop l r cc =>
            cases bop with
            | chain => exact absurd ⟨l, r, cc, rfl⟩ hch
            | join j => simpa [Rel.compOK] using hsh
            | ignoreOne il => simp [Rel.compOK] at hsh
          | leaf => rfl
          | mat => rfl
          | transfer => rfl
          | unary op t c => cases op <;> simpa [Rel.compOK] using hsh
          | select => simpa [Rel.compOK] using hsh
        obtain ⟨p, c1, hp, P⟩ := ih.payload sk ctr gk' hsk hc hhk
        exact finish p c1 P (Or.inr ⟨hps, hp⟩)
  | leaf => simp [Rel.isSelect] at hs
  | unary => simp [Rel.isSelect] at hs
  | binary => simp [Rel.isSelect] at hs
  | mat => simp [Rel.isSelect] at hs
  | transfer => simp [Rel.isSelect] at hs

/-- **Compilation is total** on Good trees of the compilable shape with payloads on leaves and markers. -/
theorem compile_total (σ : Leaves) (s : SqlState) : ∀ fuel, TotalOK I σ s fuel
  | 0 => total_zero σ s
  | fuel+1 =>
    let ih := compile_total σ s fuel
    ⟨total_select_step σ s fuel ih, total_payload_step σ s fuel ih⟩

/-- Faithful payloads expose the columns of their relations. -/
theorem payReady_of_sqlReady (s : SqlState) (tables : List (List Row)) (σ : Leaves) :
    (t : Rel) → t.SqlReady s tables σ → t.PayReady s
  | .leaf .., ⟨p, hp, P⟩ => ⟨p, hp, P.dom⟩
  | .mat .., ⟨p, hp, P⟩ => ⟨p, hp, P.dom⟩
  | .transfer .., ⟨p, hp, P⟩ => ⟨p, hp, P.dom⟩
  | .unary _ t _, h => payReady_of_sqlReady s tables σ t h.1
  | .binary op l r _, h => by
    refine ⟨payReady_of_sqlReady s tables σ l h.1, payReady_of_sqlReady s tables σ r h.2.1, ?_⟩
    cases op with
    | join j => exact h.2.2.2
    | chain => trivial
    | ignoreOne b => trivial
  | .select _ _ _ _ _ _ sk _ _, h => by
    rcases h with h | ⟨own, hown, P⟩
    · exact Or.inl ⟨h.1, payReady_of_sqlReady s tables σ sk h.2.1⟩
    · exact Or.inr ⟨own, hown, P.dom⟩

/-! ### Payloads present on the INPUT tree -/

/-- "This node holds a payload exposing its columns" (atoms); "a payload held by this Select exposes its columns". -/
def domInv (s : SqlState) (h0 : s.payload 0 = none) : NodeInv where
  atom := fun x => x.isAtom = true → x.PayReady s
  sel := fun S => ∀ own, s.payload S.oid = some own → PayDom own S.columns
  selNew := fun S hS own hown => by rw [hS, h0] at hown; cases hown

theorem Good.payReady {s : SqlState} {σ : Leaves} {h0 : s.payload 0 = none} {t : Rel}
    (h : Good (domInv s h0) σ t) (hj : t.joinsResolved = true) : t.PayReady s := by
  induction h with
  | atom r ha _ _ _ hI => exact hI ha
  | unary op t c _ _ ih => exact ih (by simpa [Rel.joinsResolved] using hj)
  | chain l r c _ _ _ ihl ihr =>
    simp only [Rel.joinsResolved, Bool.and_eq_true] at hj
    exact ⟨ihl hj.1.1, ihr hj.1.2, trivial⟩
  | join j l r c _ _ _ _ _ ihl ihr =>
    simp only [Rel.joinsResolved, Bool.and_eq_true] at hj
    exact ⟨ihl hj.1.1, ihr hj.1.2, hj.2⟩
  | sel S hS _ _ hI _ ih =>
    have hs := hS.isSel
    cases S with
    | select oid so pr dd a b sk ic tg =>
      cases hp : s.payload oid with
      | none => exact Or.inl ⟨hp, ih (by simpa [Rel.joinsResolved, Rel.skipTo] using hj)⟩
      | some own => exact Or.inr ⟨own, hp, hI own hp⟩
    | leaf => simp [Rel.isSelect] at hs
    | unary => simp [Rel.isSelect] at hs
    | binary => simp [Rel.isSelect] at hs
    | mat => simp [Rel.isSelect] at hs
    | transfer => simp [Rel.isSelect] at hs

theorem atomsOK_of_payReady (s : SqlState) (h0 : s.payload 0 = none) :
    (t : Rel) → t.RawSql → t.PayReady s → t.AtomsOK (domInv s h0)
  | .leaf .., _, hf => fun _ => hf
  | .mat .., _, hf => fun _ => hf
  | .transfer .., _, hf => fun _ => hf
  | .unary _ t _, hr, hf => atomsOK_of_payReady s h0 t hr hf
  | .binary _ l r _, hr, hf => ⟨atomsOK_of_payReady s h0 l hr.1 hf.1, atomsOK_of_payReady s h0 r hr.2.1 hf.2.1⟩
  | .select .., hr, _ => by cases hr

end DafRel
