/-
Frame properties of the iteration engine's `execute`: what it does to the payload store, to the
ghost evaluation log and to the leaf-iteration log (C10, C18).  Nothing here needs the tree to be
well-formed: the statements are about every successful call.
-/
import DafRel.Lemmas.Exec

namespace DafRel

/-! ### frames of the helper steps -/

theorem iterateS_frame (σ : Leaves) (it : Iterable) (s : ExecState) (rows : List Row) (s' : ExecState)
    (h : iterateS σ it s = .ok (rows, s')) :
    s'.payloads = s.payloads ∧ s'.evals = s.evals ∧ s'.log = (it.events σ none).reverse ++ s.log ∧
      it.rows σ = .ok rows := by
  unfold iterateS iterate at h
  cases hr : it.rows σ with
  | error e => simp [hr] at h
  | ok rs =>
    simp only [hr] at h
    injection h with h
    injection h with h1 h2
    subst h1; subst h2
    exact ⟨rfl, rfl, rfl, rfl⟩

/-- `RowSequence`, `RowMapping` (and a leaf's own payload, which is one of those): iterating them
never touches a leaf payload again. -/
def Iterable.isMaterialized : Iterable → Bool
  | .seq _ => true
  | .mapping _ _ => true
  | .leafRef _ => true
  | _ => false

theorem toMappingVia_frame (σ : Leaves) (it : Iterable) (key : Cols) (s : ExecState) (it' : Iterable)
    (s' : ExecState) (h : toMappingVia σ it key s = .ok (it', s')) :
    s'.payloads = s.payloads ∧ s'.evals = s.evals ∧ it'.isStored = true ∧
      s'.log = (it.events σ none).reverse ++ s.log := by
  unfold toMappingVia at h
  cases hi : iterateS σ it s with
  | error e => simp [hi] at h
  | ok x =>
    obtain ⟨rows, s1⟩ := x
    simp only [hi] at h
    obtain ⟨f1, f2, f3, _⟩ := iterateS_frame σ it s rows s1 hi
    cases hd : dictDedup key rows with
    | error e => simp [hd] at h
    | ok d =>
      simp only [hd] at h
      injection h with h; injection h with h1 h2
      subst h1; subst h2
      exact ⟨f1, f2, rfl, f3⟩

theorem toMapping_frame (σ : Leaves) (it : Iterable) (key : Cols) (s : ExecState) (it' : Iterable)
    (s' : ExecState) (h : toMapping σ it key s = .ok (it', s')) :
    s'.payloads = s.payloads ∧ s'.evals = s.evals ∧ it'.isStored = true ∧
      (s'.log = s.log ∨ s'.log = (it.events σ none).reverse ++ s.log) := by
  cases it with
  | mapping k rows =>
    simp only [toMapping] at h
    split at h
    · injection h with h; injection h with h1 h2
      subst h1; subst h2
      exact ⟨rfl, rfl, rfl, Or.inl rfl⟩
    · cases hd : dictDedup key rows with
      | error e => simp [hd] at h
      | ok d =>
        simp only [hd] at h
        injection h with h; injection h with h1 h2
        subst h1; subst h2
        exact ⟨rfl, rfl, rfl, Or.inl rfl⟩
  | seq r => have := toMappingVia_frame σ _ key s it' s' (by simpa [toMapping] using h); exact ⟨this.1, this.2.1, this.2.2.1, Or.inr this.2.2.2⟩
  | leafRef o => have := toMappingVia_frame σ _ key s it' s' (by simpa [toMapping] using h); exact ⟨this.1, this.2.1, this.2.2.1, Or.inr this.2.2.2⟩
  | «calc» t tag e => have := toMappingVia_frame σ _ key s it' s' (by simpa [toMapping] using h); exact ⟨this.1, this.2.1, this.2.2.1, Or.inr this.2.2.2⟩
  | proj t c => have := toMappingVia_frame σ _ key s it' s' (by simpa [toMapping] using h); exact ⟨this.1, this.2.1, this.2.2.1, Or.inr this.2.2.2⟩
  | sel t p => have := toMappingVia_frame σ _ key s it' s' (by simpa [toMapping] using h); exact ⟨this.1, this.2.1, this.2.2.1, Or.inr this.2.2.2⟩
  | slice t a b => have := toMappingVia_frame σ _ key s it' s' (by simpa [toMapping] using h); exact ⟨this.1, this.2.1, this.2.2.1, Or.inr this.2.2.2⟩
  | chain a b => have := toMappingVia_frame σ _ key s it' s' (by simpa [toMapping] using h); exact ⟨this.1, this.2.1, this.2.2.1, Or.inr this.2.2.2⟩

theorem materializeVia_frame (σ : Leaves) (it : Iterable) (s : ExecState) (it' : Iterable)
    (s' : ExecState) (h : materializeVia σ it s = .ok (it', s')) :
    s'.payloads = s.payloads ∧ s'.evals = s.evals ∧ it'.isMaterialized = true ∧
      s'.log = (it.events σ none).reverse ++ s.log := by
  unfold materializeVia at h
  cases hi : iterateS σ it s with
  | error e => simp [hi] at h
  | ok x =>
    obtain ⟨rows, s1⟩ := x
    simp only [hi] at h
    obtain ⟨f1, f2, f3, _⟩ := iterateS_frame σ it s rows s1 hi
    injection h with h; injection h with h1 h2
    subst h1; subst h2
    exact ⟨f1, f2, rfl, f3⟩

theorem materializedIt_frame (σ : Leaves) (it : Iterable) (s : ExecState) (it' : Iterable)
    (s' : ExecState) (h : materializedIt σ it s = .ok (it', s')) :
    s'.payloads = s.payloads ∧ s'.evals = s.evals ∧ it'.isMaterialized = true ∧
      (s'.log = s.log ∨ s'.log = (it.events σ none).reverse ++ s.log) := by
  cases it with
  | seq r => simp only [materializedIt] at h; injection h with h; injection h with h1 h2; subst h1; subst h2; exact ⟨rfl, rfl, rfl, Or.inl rfl⟩
  | mapping k r => simp only [materializedIt] at h; injection h with h; injection h with h1 h2; subst h1; subst h2; exact ⟨rfl, rfl, rfl, Or.inl rfl⟩
  | leafRef o => simp only [materializedIt] at h; injection h with h; injection h with h1 h2; subst h1; subst h2; exact ⟨rfl, rfl, rfl, Or.inl rfl⟩
  | «calc» t tag e => have := materializeVia_frame σ _ s it' s' (by simpa [materializedIt] using h); exact ⟨this.1, this.2.1, this.2.2.1, Or.inr this.2.2.2⟩
  | proj t c => have := materializeVia_frame σ _ s it' s' (by simpa [materializedIt] using h); exact ⟨this.1, this.2.1, this.2.2.1, Or.inr this.2.2.2⟩
  | sel t p => have := materializeVia_frame σ _ s it' s' (by simpa [materializedIt] using h); exact ⟨this.1, this.2.1, this.2.2.1, Or.inr this.2.2.2⟩
  | slice t a b => have := materializeVia_frame σ _ s it' s' (by simpa [materializedIt] using h); exact ⟨this.1, this.2.1, this.2.2.1, Or.inr this.2.2.2⟩
  | chain a b => have := materializeVia_frame σ _ s it' s' (by simpa [materializedIt] using h); exact ⟨this.1, this.2.1, this.2.2.1, Or.inr this.2.2.2⟩

theorem execOp_frame (σ : Leaves) (op : UOp) (cols : Cols) (tr : Iterable) (s : ExecState)
    (it : Iterable) (s' : ExecState) (h : execOp σ op cols tr s = .ok (it, s')) :
    s'.payloads = s.payloads ∧ s'.evals = s.evals := by
  cases op with
  | identity => simp [execOp] at h
  | «calc» tag e => simp only [execOp] at h; injection h with h; injection h with h1 h2; subst h2; exact ⟨rfl, rfl⟩
  | proj c => simp only [execOp] at h; injection h with h; injection h with h1 h2; subst h2; exact ⟨rfl, rfl⟩
  | sel p => simp only [execOp] at h; injection h with h; injection h with h1 h2; subst h2; exact ⟨rfl, rfl⟩
  | slice a b => simp only [execOp] at h; injection h with h; injection h with h1 h2; subst h2; exact ⟨rfl, rfl⟩
  | dedup =>
    simp only [execOp] at h
    have := toMapping_frame σ tr _ s it s' h
    exact ⟨this.1, this.2.1⟩
  | sort ts =>
    simp only [execOp] at h
    cases hi : iterateS σ tr s with
    | error e => simp [hi] at h
    | ok x =>
      obtain ⟨rows, s1⟩ := x
      simp only [hi] at h
      obtain ⟨f1, f2, _, _⟩ := iterateS_frame σ tr s rows s1 hi
      split at h
      · injection h with h; injection h with h1 h2; subst h2; exact ⟨f1, f2⟩
      · cases h

/-! ### the shared prefix of `execute`, as an elimination rule -/

theorem exec_elim (r : Rel) (self : Engine) (s : ExecState)
    (node : Except Err (Iterable × ExecState)) (it : Iterable) (s' : ExecState)
    (h : (if r.engine != self then (.error .engine : Except Err (Iterable × ExecState))
          else if r.maxRows == some 0 then .ok (.seq [], s)
          else if r.isJoinIdentity then .ok (.seq [Row.empty], s)
          else match r.payloadIt s with
            | some p => .ok (p, s)
            | none => node) = .ok (it, s')) :
    (s' = s ∧ (it = .seq [] ∨ it = .seq [Row.empty] ∨ r.payloadIt s = some it)) ∨
      (r.payloadIt s = none ∧ node = .ok (it, s')) := by
  split at h
  · cases h
  · split at h
    · injection h with h; injection h with h1 h2
      exact Or.inl ⟨h2.symm, Or.inl h1.symm⟩
    · split at h
      · injection h with h; injection h with h1 h2
        exact Or.inl ⟨h2.symm, Or.inr (Or.inl h1.symm)⟩
      · cases hp : r.payloadIt s with
        | some p =>
          simp only [hp] at h
          injection h with h; injection h with h1 h2
          exact Or.inl ⟨h2.symm, Or.inr (Or.inr (by rw [h1]))⟩
        | none =>
          simp only [hp] at h
          exact Or.inr ⟨rfl, h⟩

/-! ### the payload store across `execute` (C10) -/

theorem ExecFrame.refl (r : Rel) (s : ExecState) : ExecFrame r s s :=
  ⟨fun _ _ h => h, fun _ h => Or.inl h, fun h => h, ⟨[], rfl⟩⟩

theorem ExecState.payload_congr {s s' : ExecState} (h : s'.payloads = s.payloads) (o : Nat) :
    s'.payload o = s.payload o := by simp [ExecState.payload, h]

theorem ExecFrame.of_eq (r : Rel) {s s' : ExecState} (hp : s'.payloads = s.payloads)
    (he : s'.evals = s.evals) : ExecFrame r s s' := by
  refine ⟨?_, ?_, ?_, ⟨[], by simp [he]⟩⟩
  · intro o p h; rw [ExecState.payload_congr hp]; exact h
  · intro o h; rw [ExecState.payload_congr hp] at h; exact Or.inl h
  · intro h
    refine ⟨by rw [he]; exact h.1, ?_⟩
    intro o ho
    rw [ExecState.payload_congr hp]
    exact h.2 o (by rw [← he]; exact ho)

theorem ExecFrame.trans {r1 r2 r : Rel} {s s1 s2 : ExecState} (h1 : ExecFrame r1 s s1)
    (h2 : ExecFrame r2 s1 s2) (hsub1 : ∀ o, o ∈ r1.matOids → o ∈ r.matOids)
    (hsub2 : ∀ o, o ∈ r2.matOids → o ∈ r.matOids) : ExecFrame r s s2 := by
  refine ⟨fun o p h => h2.mono o p (h1.mono o p h), ?_, fun h => h2.evalsOK (h1.evalsOK h), ?_⟩
  · intro o h
    rcases h2.fresh o h with h | h
    · rcases h1.fresh o h with h | h
      · exact Or.inl h
      · exact Or.inr (hsub1 o h)
    · exact Or.inr (hsub2 o h)
  · obtain ⟨n1, e1⟩ := h1.evals_ext
    obtain ⟨n2, e2⟩ := h2.evals_ext
    exact ⟨n2 ++ n1, by rw [e2, e1, List.append_assoc]⟩

/-- **Every successful `execute` call respects the payload store**: no payload is replaced or
cleared, payloads appear only on materializations of the executed tree, and no materialization's
upstream tree is evaluated a second time. -/
theorem exec_frame (σ : Leaves) :
    (r : Rel) → (self : Engine) → (s : ExecState) → (it : Iterable) → (s' : ExecState) →
    r.Acyclic → exec σ self r s = .ok (it, s') → ExecFrame r s s'
  | .leaf oid eng cols name mn mx pl msgs, self, s, it, s', _, h => by
    rw [exec] at h
    rcases exec_elim _ self s _ it s' h with ⟨h1, _⟩ | ⟨_, h2⟩
    · subst h1; exact ExecFrame.refl _ _
    · cases h2
  | .unary op t cols, self, s, it, s', hac, h => by
    rw [exec] at h
    rcases exec_elim _ self s _ it s' h with ⟨h1, _⟩ | ⟨_, h2⟩
    · subst h1; exact ExecFrame.refl _ _
    · simp only [Rel.Acyclic] at hac
      cases ht : exec σ self t s with
      | error e => simp [ht] at h2
      | ok x =>
        obtain ⟨tr, s1⟩ := x
        simp only [ht] at h2
        have f1 := exec_frame σ t self s tr s1 hac ht
        obtain ⟨g1, g2⟩ := execOp_frame σ op cols tr s1 it s' h2
        exact f1.trans (ExecFrame.of_eq t g1 g2) (fun _ h => h) (fun _ h => h)
  | .binary op l rr cols, self, s, it, s', hac, h => by
    rw [exec.eq_def] at h
    rcases exec_elim _ self s _ it s' h with ⟨h1, _⟩ | ⟨_, h2⟩
    · subst h1; exact ExecFrame.refl _ _
    · simp only [Rel.Acyclic] at hac
      cases op with
      | join j => simp at h2
      | ignoreOne b => simp at h2
      | chain =>
        simp only at h2
        cases hl : exec σ self l s with
        | error e => simp [hl] at h2
        | ok x =>
          obtain ⟨a, s1⟩ := x
          simp only [hl] at h2
          cases hr : exec σ self rr s1 with
          | error e => simp [hr] at h2
          | ok y =>
            obtain ⟨b, s2⟩ := y
            simp only [hr] at h2
            injection h2 with h2; injection h2 with _ h2; subst h2
            exact (exec_frame σ l self s a s1 hac.1 hl).trans (exec_frame σ rr self s1 b s2 hac.2 hr)
              (fun o ho => by simp [Rel.matOids, ho]) (fun o ho => by simp [Rel.matOids, ho])
  | .mat oid name t, self, s, it, s', hac, h => by
    rw [exec] at h
    rcases exec_elim _ self s _ it s' h with ⟨h1, _⟩ | ⟨hnone, h2⟩
    · subst h1; exact ExecFrame.refl _ _
    · simp only [Rel.Acyclic] at hac
      have hnone' : s.payload oid = none := by simpa [Rel.payloadIt, Rel.oid] using hnone
      cases ht : exec σ self t s with
      | error e => simp [ht] at h2
      | ok x =>
        obtain ⟨inner, s1⟩ := x
        simp only [ht] at h2
        have f1 := exec_frame σ t self s inner s1 hac.2 ht
        cases hm : materializedIt σ inner s1 with
        | error e => simp [hm] at h2
        | ok y =>
          obtain ⟨res, s2⟩ := y
          simp only [hm] at h2
          injection h2 with h2; injection h2 with h3 h2
          obtain ⟨m1, m2, _, _⟩ := materializedIt_frame σ inner s1 res s2 hm
          have hs1none : s1.payload oid = none := by
            cases hp : s1.payload oid with
            | none => rfl
            | some p =>
              rcases f1.fresh oid (by simp [hp]) with h | h
              · simp [hnone'] at h
              · exact absurd h hac.1
          have hpay : ∀ o, s'.payload o = if oid = o then some res else s1.payload o := by
            intro o
            rw [← h2]
            simp only [ExecState.payload, List.find?_cons, m1]
            by_cases he : oid = o
            · simp [he]
            · have : (oid == o) = false := by simpa using he
              simp [this, he]
          have hev : s'.evals = oid :: s1.evals := by rw [← h2]; simp [m2]
          refine ⟨?_, ?_, ?_, ?_⟩
          · intro o p hp
            rw [hpay]
            have hne : oid ≠ o := by intro he; subst he; simp [hnone'] at hp
            rw [if_neg hne]
            exact f1.mono o p hp
          · intro o ho
            rw [hpay] at ho
            by_cases he : oid = o
            · exact Or.inr (by simp [Rel.matOids, he])
            · rw [if_neg he] at ho
              rcases f1.fresh o ho with h | h
              · exact Or.inl h
              · exact Or.inr (by simp [Rel.matOids, h])
          · intro hok
            have hok1 := f1.evalsOK hok
            refine ⟨?_, ?_⟩
            · rw [hev, List.nodup_cons]
              refine ⟨?_, hok1.1⟩
              intro hm'
              have := hok1.2 oid hm'
              simp [hs1none] at this
            · intro o ho
              rw [hev] at ho
              rw [hpay]
              by_cases he : oid = o
              · simp [he]
              · rw [if_neg he]
                rcases List.mem_cons.mp ho with h | h
                · exact absurd h.symm he
                · exact hok1.2 o h
          · obtain ⟨n1, e1⟩ := f1.evals_ext
            exact ⟨oid :: n1, by rw [hev, e1]; rfl⟩
  | .transfer oid d t, self, s, it, s', hac, h => by
    rw [exec] at h
    rcases exec_elim _ self s _ it s' h with ⟨h1, _⟩ | ⟨_, h2⟩
    · subst h1; exact ExecFrame.refl _ _
    · simp only [Rel.Acyclic] at hac
      cases hk : t.engine.kind with
      | sql => simp [hk] at h2
      | iter =>
        simp only [hk] at h2
        exact (exec_frame σ t t.engine s it s' hac h2).trans (ExecFrame.refl t s') (fun _ h => h) (fun _ h => h)
  | .select oid so pr dd a b sk ic t, self, s, it, s', hac, h => by
    rw [exec.eq_def] at h
    rcases exec_elim _ self s _ it s' h with ⟨h1, _⟩ | ⟨_, h2⟩
    · subst h1; exact ExecFrame.refl _ _
    · simp only [Rel.Acyclic] at hac
      exact (exec_frame σ t self s it s' hac h2).trans (ExecFrame.refl t s') (fun _ h => h) (fun _ h => h)

/-! ### laziness (C18) -/

/-- However far an iterable is consumed, each leaf occurrence inside it is started at most once,
in order. -/
theorem events_sublist (σ : Leaves) : (it : Iterable) → (d : Option Nat) →
    (it.events σ d).Sublist it.leafOccs
  | .seq _, _ => by simp [Iterable.events, Iterable.leafOccs]
  | .mapping _ _, _ => by simp [Iterable.events, Iterable.leafOccs]
  | .leafRef o, _ => by simp [Iterable.events, Iterable.leafOccs]
  | .calc t _ _, d => by simpa [Iterable.events, Iterable.leafOccs] using events_sublist σ t d
  | .proj t _, d => by simpa [Iterable.events, Iterable.leafOccs] using events_sublist σ t d
  | .sel t p, d => by
    simp only [Iterable.events, Iterable.leafOccs]
    exact events_sublist σ t _
  | .slice t a b, d => by
    simp only [Iterable.events, Iterable.leafOccs]
    split
    · exact List.nil_sublist _
    · exact events_sublist σ t _
  | .chain a b, d => by
    simp only [Iterable.events, Iterable.leafOccs]
    split
    · exact List.nil_sublist _
    · cases d with
      | none => exact List.Sublist.append (events_sublist σ a none) (events_sublist σ b none)
      | some n =>
        simp only
        split
        · exact (events_sublist σ a (some n)).trans (List.sublist_append_left _ _)
        · exact List.Sublist.append (events_sublist σ a none) (events_sublist σ b _)

theorem stored_no_events (σ : Leaves) (it : Iterable) (h : it.isStored = true) (d : Option Nat) :
    it.events σ d = [] := by
  cases it <;> simp [Iterable.isStored] at h <;> rfl

theorem sliced_leafOccs (σ : Leaves) (it : Iterable) (a : Nat) (b : Option Nat) :
    (sliced σ it a b).leafOccs.Sublist it.leafOccs := by
  cases it <;> simp [sliced, Iterable.leafOccs]

/-- `execute` on a lazy-only tree changes nothing (no leaf iteration, no payload, no evaluation)
and its result mentions each leaf occurrence of the tree at most once, in order. -/
theorem exec_lazy (σ : Leaves) :
    (r : Rel) → (self : Engine) → (s : ExecState) → (it : Iterable) → (s' : ExecState) →
    r.LazyOnly → exec σ self r s = .ok (it, s') → s' = s ∧ it.leafOccs.Sublist r.leafOccs
  | .leaf oid eng cols name mn mx pl msgs, self, s, it, s', _, h => by
    rw [exec] at h
    rcases exec_elim _ self s _ it s' h with ⟨h1, h3⟩ | ⟨_, h2⟩
    · refine ⟨h1, ?_⟩
      rcases h3 with h3 | h3 | h3
      · subst h3; exact List.nil_sublist _
      · subst h3; exact List.nil_sublist _
      · simp only [Rel.payloadIt] at h3
        split at h3
        · injection h3 with h3; subst h3; simp [Iterable.leafOccs, Rel.leafOccs]
        · cases h3
    · cases h2
  | .unary op t cols, self, s, it, s', hl, h => by
    rw [exec] at h
    rcases exec_elim _ self s _ it s' h with ⟨h1, h3⟩ | ⟨_, h2⟩
    · refine ⟨h1, ?_⟩
      rcases h3 with h3 | h3 | h3
      · subst h3; exact List.nil_sublist _
      · subst h3; exact List.nil_sublist _
      · simp [Rel.payloadIt] at h3
    · simp only [Rel.LazyOnly] at hl
      cases ht : exec σ self t s with
      | error e => simp [ht] at h2
      | ok x =>
        obtain ⟨tr, s1⟩ := x
        simp only [ht] at h2
        obtain ⟨e1, e2⟩ := exec_lazy σ t self s tr s1 hl.1 ht
        subst e1
        cases op with
        | identity => simp [UOp.isLazy] at hl
        | dedup => simp [UOp.isLazy] at hl
        | sort ts => simp [UOp.isLazy] at hl
        | «calc» tag e =>
          simp only [execOp] at h2; injection h2 with h2; injection h2 with h3 h4
          subst h3; exact ⟨h4.symm, by simpa [Iterable.leafOccs, Rel.leafOccs] using e2⟩
        | proj c =>
          simp only [execOp] at h2; injection h2 with h2; injection h2 with h3 h4
          subst h3; exact ⟨h4.symm, by simpa [Iterable.leafOccs, Rel.leafOccs] using e2⟩
        | sel p =>
          simp only [execOp] at h2; injection h2 with h2; injection h2 with h3 h4
          subst h3; exact ⟨h4.symm, by simpa [Iterable.leafOccs, Rel.leafOccs] using e2⟩
        | slice a b =>
          simp only [execOp] at h2; injection h2 with h2; injection h2 with h3 h4
          subst h3
          exact ⟨h4.symm, (sliced_leafOccs σ tr a b).trans (by simpa [Rel.leafOccs] using e2)⟩
  | .binary op l rr cols, self, s, it, s', hl, h => by
    rw [exec.eq_def] at h
    rcases exec_elim _ self s _ it s' h with ⟨h1, h3⟩ | ⟨_, h2⟩
    · refine ⟨h1, ?_⟩
      rcases h3 with h3 | h3 | h3
      · subst h3; exact List.nil_sublist _
      · subst h3; exact List.nil_sublist _
      · simp [Rel.payloadIt] at h3
    · simp only [Rel.LazyOnly] at hl
      cases op with
      | join j => simp at h2
      | ignoreOne b => simp at h2
      | chain =>
        simp only at h2
        cases hle : exec σ self l s with
        | error e => simp [hle] at h2
        | ok x =>
          obtain ⟨a, s1⟩ := x
          simp only [hle] at h2
          obtain ⟨e1, e2⟩ := exec_lazy σ l self s a s1 hl.1 hle
          subst e1
          cases hr : exec σ self rr s1 with
          | error e => simp [hr] at h2
          | ok y =>
            obtain ⟨b, s2⟩ := y
            simp only [hr] at h2
            obtain ⟨g1, g2⟩ := exec_lazy σ rr self s1 b s2 hl.2.1 hr
            injection h2 with h2; injection h2 with h3 h4
            subst h3
            exact ⟨h4.symm.trans g1, by simpa [Iterable.leafOccs, Rel.leafOccs] using List.Sublist.append e2 g2⟩
  | .mat .., _, _, _, _, hl, _ => by simp [Rel.LazyOnly] at hl
  | .transfer .., _, _, _, _, hl, _ => by simp [Rel.LazyOnly] at hl
  | .select .., _, _, _, _, hl, _ => by simp [Rel.LazyOnly] at hl

end DafRel
