/-
What a `sql.Payload` means in the SQL evaluation model (`PaySem`): the environments of its FROM clause that
pass its WHERE terms, mapped through `columns_available`, are exactly the rows of the relation it was
made for.  Proved for each case of `to_payload`: calculation, selection, subquery, join.
-/
import DafRel.Spec.SqlCompile
import DafRel.Lemmas.SqlEnv
import DafRel.Lemmas.SqlConv
import DafRel.Lemmas.EvalVal
import DafRel.Lemmas.WF
import DafRel.Lemmas.Trivial
import DafRel.Lemmas.Build

namespace DafRel

theorem rowOf_availOK (avail : List (Tag × SqlExpr)) (env : PEnv) : AvailOK avail env (rowOf avail env) := by
  intro t x h
  simp [rowOf, h]

theorem payEnvs_local {tables : List (List Row)} {p : SqlPayload} {env : PEnv} (h : env ∈ payEnvs tables p) :
    env.localTo (From.names p.frm) :=
  envs_local tables p.frm env (List.mem_filter.mp h).1

/-- The rows of a payload have exactly its available columns (given the relation's rows do). -/
theorem PaySem.hasAll {tables : List (List Row)} {p : SqlPayload} {rows : List Row} {cols : Cols}
    (P : PaySem tables p rows cols) (hr : RowsHaveCols rows cols) {env : PEnv} (he : env ∈ payEnvs tables p)
    (c : Cols) (hc : ∀ t, t ∈ c → t ∈ cols) : (rowOf p.avail env).hasAll c := by
  intro t ht
  have hmem : rowOf p.avail env ∈ rows := by rw [P.rows_eq]; exact List.mem_map_of_mem he
  exact (hr _ hmem t).mpr (hc t ht)

/-! ### lookups in `columns_available` -/

theorem lookup_availSet (a : List (Tag × SqlExpr)) (tag t : Tag) (e : SqlExpr) :
    SqlPayload.lookup (availSet a tag e) t = if t = tag then some e else SqlPayload.lookup a t := by
  unfold availSet SqlPayload.lookup
  by_cases hin : (a.find? (·.1 == tag)).isSome = true
  · simp only [hin, if_true]
    induction a with
    | nil => simp at hin
    | cons x xs ih =>
      simp only [List.map_cons, List.find?_cons]
      by_cases hx : (x.1 == tag) = true
      · have hx' : x.1 = tag := by simpa using hx
        simp only [hx, if_true]
        by_cases ht : t = tag
        · subst ht; simp
        · have : (tag == t) = false := by simpa using fun h => ht h.symm
          simp only [this, ht, if_false]
          have hxt : (x.1 == t) = false := by rw [hx']; exact this
          simp only [hxt]
          -- the rest of the list: entries for `tag` are rewritten, others untouched
          clear ih hin
          induction xs with
          | nil => rfl
          | cons y ys ihy =>
            simp only [List.map_cons, List.find?_cons]
            by_cases hy : (y.1 == tag) = true
            · have hy' : y.1 = tag := by simpa using hy
              simp only [hy, if_true, this]
              have hyt : (y.1 == t) = false := by rw [hy']; exact this
              simp only [hyt]
              exact ihy
            · simp only [hy, Bool.false_eq_true, if_false]
              cases hyt : (y.1 == t) <;> simp only []
              exact ihy
      · simp only [hx, Bool.false_eq_true, if_false]
        have hin' : (xs.find? (·.1 == tag)).isSome = true := by
          simpa [List.find?_cons, hx] using hin
        by_cases hxt : (x.1 == t) = true
        · have : t ≠ tag := fun h => by
            have : x.1 = t := by simpa using hxt
            rw [h] at this; simp [this] at hx
          simp [hxt, this]
        · simp only [hxt, Bool.false_eq_true]
          exact ih hin'
  · simp only [hin, Bool.false_eq_true, if_false]
    have hnone : ∀ y, y ∈ a → (y.1 == tag) = false := by
      intro y hy
      cases h : (y.1 == tag) with
      | false => rfl
      | true =>
        exfalso
        apply hin
        exact List.find?_isSome.mpr ⟨y, hy, h⟩
    rw [List.find?_append]
    by_cases ht : t = tag
    · subst ht
      have : a.find? (fun x => x.1 == t) = none := List.find?_eq_none.mpr (fun y hy => by simp [hnone y hy])
      simp [this]
    · have h1 : (tag == t) = false := by simpa using fun h => ht h.symm
      simp only [ht, if_false]
      cases h : a.find? (fun x => x.1 == t) with
      | some v => simp
      | none => simp [List.find?_cons, h1]

end DafRel

namespace DafRel

/-! ### Sources of converted expressions: only those of the available columns' expressions -/

/-- Every source mentioned by some available column's expression. -/
def availSrc (avail : List (Tag × SqlExpr)) (s : String) : Prop :=
  ∃ t y, SqlPayload.lookup avail t = some y ∧ s ∈ y.srcs

mutual
theorem convExpr_srcs (avail : List (Tag × SqlExpr)) : (e : Expr) → (x : SqlExpr) → convExpr avail e = .ok x →
    ∀ s, s ∈ x.srcs → availSrc avail s
  | .lit v, x, h => by
    simp only [convExpr] at h; injection h with h; subst h
    intro s hs; simp [SqlExpr.srcs] at hs
  | .ref t, x, h => by
    simp only [convExpr] at h
    cases hl : SqlPayload.lookup avail t with
    | none => simp [hl] at h
    | some y =>
      simp only [hl] at h; injection h with h; subst h
      intro s hs; exact ⟨t, y, hl, hs⟩
  | .fn f args _, x, h => by
    simp only [convExpr] at h
    cases hc : convExprs avail args with
    | error e => simp [hc] at h
    | ok xs =>
      simp only [hc] at h; injection h with h; subst h
      intro s hs
      exact convExprs_srcs avail args xs hc s (by simpa [SqlExpr.srcs] using hs)
theorem convExprs_srcs (avail : List (Tag × SqlExpr)) : (es : List Expr) → (xs : List SqlExpr) →
    convExprs avail es = .ok xs → ∀ s, s ∈ SqlExpr.srcsList xs → availSrc avail s
  | [], xs, h => by
    simp only [convExprs] at h; injection h with h; subst h
    intro s hs; simp [SqlExpr.srcsList] at hs
  | e :: es, xs, h => by
    simp only [convExprs] at h
    cases h1 : convExpr avail e with
    | error err => simp [h1] at h
    | ok x =>
      cases h2 : convExprs avail es with
      | error err => simp [h1, h2] at h
      | ok xs' =>
        simp only [h1, h2] at h; injection h with h; subst h
        intro s hs
        simp only [SqlExpr.srcsList, List.mem_append] at hs
        rcases hs with hs | hs
        · exact convExpr_srcs avail e x h1 s hs
        · exact convExprs_srcs avail es xs' h2 s hs
end

theorem ascRange_srcs (x : SqlExpr) (a b c : Int) : ∀ s, s ∈ (ascRange x a b c).srcs → s ∈ x.srcs := by
  intro s hs
  unfold ascRange at hs
  split at hs
  · simpa [SqlPred.srcs] using hs
  · split at hs
    · split at hs <;> simpa [SqlPred.srcs, SqlPred.srcsList, SqlExpr.srcs, SqlExpr.srcsList] using hs
    · simpa [SqlPred.srcs] using hs

theorem convRange_srcs (x : SqlExpr) (a b c : Int) : ∀ s, s ∈ (convRange x a b c).srcs → s ∈ x.srcs := by
  intro s hs
  unfold convRange at hs
  split at hs
  · simp [SqlPred.srcs] at hs
  · split at hs <;> exact ascRange_srcs _ _ _ _ s hs

mutual
theorem convPred_srcs (avail : List (Tag × SqlExpr)) : (p : Pred) → (q : SqlPred) → convPred avail p = .ok q →
    ∀ s, s ∈ q.srcs → availSrc avail s
  | .lit b, q, h => by
    simp only [convPred] at h; injection h with h; subst h
    intro s hs; simp [SqlPred.srcs] at hs
  | .ref t, q, h => by
    simp only [convPred] at h
    cases hl : SqlPayload.lookup avail t with
    | none => simp [hl] at h
    | some y =>
      simp only [hl] at h
      intro s hs
      refine ⟨t, y, hl, ?_⟩
      cases y with
      | col s' c =>
        simp only at h; injection h with h; subst h
        simpa [SqlPred.srcs, SqlExpr.srcs] using hs
      | lit v =>
        simp only at h; injection h with h; subst h
        simp [SqlPred.srcs, SqlExpr.srcsList, SqlExpr.srcs] at hs
      | fn f as =>
        simp only at h; injection h with h; subst h
        simpa [SqlPred.srcs, SqlExpr.srcsList, SqlExpr.srcs] using hs
  | .fn f args _, q, h => by
    simp only [convPred] at h
    cases hc : convExprs avail args with
    | error e => simp [hc] at h
    | ok xs =>
      simp only [hc] at h; injection h with h; subst h
      intro s hs
      exact convExprs_srcs avail args xs hc s (by simpa [SqlPred.srcs] using hs)
  | .not p, q, h => by
    simp only [convPred] at h
    cases hc : convPred avail p with
    | error e => simp [hc] at h
    | ok q' =>
      simp only [hc] at h; injection h with h; subst h
      intro s hs
      exact convPred_srcs avail p q' hc s (by simpa [SqlPred.srcs] using hs)
  | .and ps, q, h => by
    simp only [convPred] at h
    cases hc : convPreds avail ps with
    | error e => simp [hc] at h
    | ok qs =>
      have key := convPreds_srcs avail ps qs hc
      simp only [hc] at h
      intro s hs
      match qs, h, key with
      | [], h, _ => injection h with h; subst h; simp [SqlPred.srcs] at hs
      | [q1], h, key => injection h with h; subst h; exact key s (by simpa [SqlPred.srcsList] using hs)
      | q1 :: q2 :: rest, h, key => injection h with h; subst h; exact key s (by simpa [SqlPred.srcs] using hs)
  | .or ps, q, h => by
    simp only [convPred] at h
    cases hc : convPreds avail ps with
    | error e => simp [hc] at h
    | ok qs =>
      have key := convPreds_srcs avail ps qs hc
      simp only [hc] at h
      intro s hs
      match qs, h, key with
      | [], h, _ => injection h with h; subst h; simp [SqlPred.srcs] at hs
      | [q1], h, key => injection h with h; subst h; exact key s (by simpa [SqlPred.srcsList] using hs)
      | q1 :: q2 :: rest, h, key => injection h with h; subst h; exact key s (by simpa [SqlPred.srcs] using hs)
  | .inC item c, q, h => by
    simp only [convPred] at h
    cases hc : convExpr avail item with
    | error e => simp [hc] at h
    | ok x =>
      simp only [hc] at h
      have kx := convExpr_srcs avail item x hc
      cases c with
      | range a b st =>
        simp only at h; injection h with h; subst h
        intro s hs
        exact kx s (convRange_srcs x a b st s hs)
      | seq items =>
        simp only at h
        cases hi : convExprs avail items with
        | error e => simp [hi] at h
        | ok xs =>
          simp only [hi] at h; injection h with h; subst h
          intro s hs
          simp only [SqlPred.srcs, List.mem_append] at hs
          rcases hs with hs | hs
          · exact kx s hs
          · exact convExprs_srcs avail items xs hi s hs
theorem convPreds_srcs (avail : List (Tag × SqlExpr)) : (ps : List Pred) → (qs : List SqlPred) →
    convPreds avail ps = .ok qs → ∀ s, s ∈ SqlPred.srcsList qs → availSrc avail s
  | [], qs, h => by
    simp only [convPreds] at h; injection h with h; subst h
    intro s hs; simp [SqlPred.srcsList] at hs
  | p :: ps, qs, h => by
    simp only [convPreds] at h
    cases h1 : convPred avail p with
    | error e => simp [h1] at h
    | ok q =>
      cases h2 : convPreds avail ps with
      | error e => simp [h1, h2] at h
      | ok qs' =>
        simp only [h1, h2] at h; injection h with h; subst h
        intro s hs
        simp only [SqlPred.srcsList, List.mem_append] at hs
        rcases hs with hs | hs
        · exact convPred_srcs avail p q h1 s hs
        · exact convPreds_srcs avail ps qs' h2 s hs
end

theorem convFlattened_srcs (avail : List (Tag × SqlExpr)) (p : Pred) (ws : List SqlPred)
    (h : convFlattened avail p = .ok ws) : ∀ s, s ∈ SqlPred.srcsList ws → availSrc avail s := by
  unfold convFlattened at h
  cases hf : p.flattenAnd with
  | none =>
    simp only [hf] at h; injection h with h; subst h
    intro s hs; simp [SqlPred.srcsList, SqlPred.srcs] at hs
  | some ps =>
    simp only [hf] at h
    exact convPreds_srcs avail ps ws h

end DafRel

namespace DafRel

/-! ### The cases of `to_payload` -/

theorem evalAll_append (env : PEnv) (ps qs : List SqlPred) :
    SqlPred.evalAll env (ps ++ qs) = (SqlPred.evalAll env ps && SqlPred.evalAll env qs) := by
  induction ps with
  | nil => simp [SqlPred.evalAll]
  | cons p ps ih => simp [SqlPred.evalAll, ih, Bool.and_assoc]

theorem srcsList_append (ps qs : List SqlPred) :
    SqlPred.srcsList (ps ++ qs) = SqlPred.srcsList ps ++ SqlPred.srcsList qs := by
  induction ps with
  | nil => rfl
  | cons p ps ih => simp [SqlPred.srcsList, ih]

/-- Calculation: one more entry in `columns_available`. -/
theorem paySem_calc (tables : List (List Row)) (p : SqlPayload) (rows : List Row) (cols : Cols) (tag : Tag)
    (e : Expr) (x : SqlExpr) (P : PaySem tables p rows cols) (hr : RowsHaveCols rows cols)
    (he : e.columnsRequired.subset cols = true) (ha : e.arityOk = true) (hx : convExpr p.avail e = .ok x) :
    PaySem tables { p with avail := availSet p.avail tag x } (rows.map (fun r => r.set tag (e.val r)))
      (cols.insert tag) := by
  refine ⟨?_, ?_, ?_, P.whSrcs⟩
  · rw [P.rows_eq, List.map_map]
    apply List.map_congr_left
    intro env henv
    have hall : (rowOf p.avail env).hasAll e.columnsRequired :=
      P.hasAll hr henv _ ((Cols.subset_iff _ _).mp he)
    have hval : x.eval env = some (e.val (rowOf p.avail env)) := by
      rw [convExpr_eval p.avail env _ (rowOf_availOK p.avail env) e x hx]
      exact Expr.eval_eq_val _ e ha hall
    funext t
    simp only [Function.comp, rowOf, lookup_availSet, Row.set]
    by_cases ht : t = tag
    · simp only [ht, if_true]; exact hval.symm
    · simp only [ht, if_false]
  · intro t
    rw [lookup_availSet, Cols.mem_insert]
    by_cases ht : t = tag
    · simp [ht]
    · simp only [ht, if_false, or_false]; exact P.dom t
  · intro t y hl s hs
    rw [lookup_availSet] at hl
    by_cases ht : t = tag
    · simp only [ht, if_true] at hl
      injection hl with hl
      rw [← hl] at hs
      obtain ⟨t', y', hl', hs'⟩ := convExpr_srcs p.avail e x hx s hs
      exact P.availSrcs t' y' hl' s hs'
    · simp only [ht, if_false] at hl
      exact P.availSrcs t y hl s hs

/-- What `convert_flattened_predicate` produces is true of an environment exactly when the predicate
is true of the row the environment stands for. -/
theorem convFlattened_sound (avail : List (Tag × SqlExpr)) (env : PEnv) (r : Row) (hav : AvailOK avail env r)
    (pr : Pred) (ws : List SqlPred) (ha : pr.arityOk = true) (hall : r.hasAll pr.columnsRequired)
    (h : convFlattened avail pr = .ok ws) : SqlPred.evalAll env ws = pr.val r := by
  unfold convFlattened at h
  have hv := Pred.flattenAnd_val r pr
  cases hf : pr.flattenAnd with
  | none =>
    simp only [hf] at h hv
    injection h with h; subst h
    simp [SqlPred.evalAll, SqlPred.eval, hv]
  | some ps =>
    simp only [hf] at h hv
    have hao := Pred.flattenAnd_arityOk pr ps hf ha
    have hcols : r.hasAll (Pred.columnsRequiredList ps) := fun t ht => hall t (Pred.flattenAnd_cols pr ps hf t ht)
    have hev := Pred.evalAll_eq_valAll r ps hao hcols
    rw [convPreds_evalAll avail env r hav ps ws _ h hev, hv]

/-- Selection: more WHERE terms. -/
theorem paySem_sel (tables : List (List Row)) (p : SqlPayload) (rows : List Row) (cols : Cols) (pr : Pred)
    (ws : List SqlPred) (P : PaySem tables p rows cols) (hr : RowsHaveCols rows cols)
    (hp : pr.columnsRequired.subset cols = true) (ha : pr.arityOk = true)
    (hw : convFlattened p.avail pr = .ok ws) :
    PaySem tables { p with wh := p.wh ++ ws } (rows.filter (fun r => pr.val r)) cols := by
  refine ⟨?_, P.dom, P.availSrcs, ?_⟩
  · rw [P.rows_eq, List.filter_map]
    congr 1
    unfold payEnvs
    rw [List.filter_filter]
    apply List.filter_congr
    intro env henv
    simp only [evalAll_append, Function.comp]
    by_cases hwh : SqlPred.evalAll env p.wh = true
    · have henv' : env ∈ payEnvs tables p := List.mem_filter.mpr ⟨henv, hwh⟩
      have hall : (rowOf p.avail env).hasAll pr.columnsRequired :=
        P.hasAll hr henv' _ ((Cols.subset_iff _ _).mp hp)
      rw [convFlattened_sound p.avail env _ (rowOf_availOK p.avail env) pr ws ha hall hw]
      simp [hwh]
    · simp [hwh]
  · intro s hs
    rw [srcsList_append, List.mem_append] at hs
    rcases hs with hs | hs
    · exact P.whSrcs s hs
    · obtain ⟨t', y', hl', hs'⟩ := convFlattened_srcs p.avail pr ws hw s hs
      exact P.availSrcs t' y' hl' s hs'

theorem lookup_append_single (acc : List (Tag × SqlExpr)) (c t : Tag) (x : SqlExpr) :
    SqlPayload.lookup (acc ++ [(c, x)]) t = (SqlPayload.lookup acc t).or (if c = t then some x else none) := by
  simp only [SqlPayload.lookup, List.find?_append, List.find?_cons, List.find?_nil]
  cases acc.find? (fun y => y.1 == t) with
  | some v => simp
  | none =>
    by_cases hc : c = t
    · simp [hc]
    · have : (c == t) = false := by simpa using hc
      simp [hc, this]

theorem lookup_subAvail (alias : String) (cols : Cols) (t : Tag) :
    SqlPayload.lookup (subAvail alias cols) t = if t ∈ cols then some (SqlExpr.col alias t) else none := by
  unfold subAvail
  have key : ∀ (cs : Cols) (acc : List (Tag × SqlExpr)),
      SqlPayload.lookup (cs.foldl (fun acc t => if (acc.find? (·.1 == t)).isSome then acc
          else acc ++ [(t, SqlExpr.col alias t)]) acc) t =
        (SqlPayload.lookup acc t).or (if t ∈ cs then some (SqlExpr.col alias t) else none) := by
    intro cs
    induction cs with
    | nil => intro acc; simp
    | cons c cs ih =>
      intro acc
      simp only [List.foldl_cons]
      by_cases hc : (acc.find? (·.1 == c)).isSome = true
      · simp only [hc, if_true]
        rw [ih acc]
        by_cases htc : t = c
        · subst htc
          have : (SqlPayload.lookup acc t).isSome = true := by simpa [SqlPayload.lookup] using hc
          cases hl : SqlPayload.lookup acc t with
          | none => simp [hl] at this
          | some v => simp
        · simp [List.mem_cons, htc]
      · simp only [hc, Bool.false_eq_true, if_false]
        rw [ih, lookup_append_single]
        by_cases htc : t = c
        · subst htc
          have hn : SqlPayload.lookup acc t = none := by
            cases hl : SqlPayload.lookup acc t with
            | none => rfl
            | some v =>
              exfalso; apply hc
              simp only [SqlPayload.lookup, Option.map_eq_some_iff] at hl
              obtain ⟨a, ha, _⟩ := hl
              simp [ha]
          simp [hn]
        · have hct : ¬ c = t := fun h => htc h.symm
          simp [List.mem_cons, htc, hct]
  have := key cols []
  simpa [SqlPayload.lookup] using this

/-- A subquery: the rows of the inner query under a fresh alias. -/
theorem paySem_subquery (tables : List (List Row)) (alias : String) (q : Query) (rows : List Row) (cols : Cols)
    (hq : (Query.eval tables q).rows = rows) (hr : RowsHaveCols rows cols) :
    PaySem tables { frm := .subquery alias q, avail := subAvail alias cols } rows cols := by
  refine ⟨?_, ?_, ?_, ?_⟩
  · unfold payEnvs
    have hf : ∀ l : List PEnv, l.filter (fun e => SqlPred.evalAll e ([] : List SqlPred)) = l := by
      intro l; simp [SqlPred.evalAll]
    simp only [From.envs, hq, hf, List.map_map]
    symm
    have : rows.map id = rows := List.map_id _
    conv => rhs; rw [← this]
    apply List.map_congr_left
    intro r hrm
    funext t
    simp only [Function.comp, rowOf, lookup_subAvail, id]
    by_cases ht : t ∈ cols
    · simp [ht, SqlExpr.eval, rowEnv]
    · simp only [ht, if_false]
      have := (hr r hrm t)
      cases hrt : r t with
      | none => rfl
      | some v => exact absurd (this.mp (by simp [hrt])) ht
  · intro t; rw [lookup_subAvail]; by_cases ht : t ∈ cols <;> simp [ht]
  · intro t y hl s hs
    rw [lookup_subAvail] at hl
    by_cases ht : t ∈ cols
    · simp only [ht, if_true] at hl; injection hl with hl; subst hl
      simpa [SqlExpr.srcs, From.names] using hs
    · simp [ht] at hl
  · intro s hs; simp [SqlPred.srcsList] at hs

end DafRel

namespace DafRel

/-! ### Join -/

theorem lookup_availMerge (a b : List (Tag × SqlExpr)) (t : Tag) :
    SqlPayload.lookup (availMerge a b) t =
      if (SqlPayload.lookup b t).isSome then SqlPayload.lookup b t else SqlPayload.lookup a t := by
  unfold availMerge SqlPayload.lookup
  rw [List.find?_append]
  by_cases hb : (b.find? (fun x => x.1 == t)).isSome = true
  · -- `t` is in `b`: no entry for `t` survives the filter of `a`
    have hnone : (a.filter (fun x => (b.find? (·.1 == x.1)).isNone)).find? (fun x => x.1 == t) = none := by
      apply List.find?_eq_none.mpr
      intro x hx
      obtain ⟨_, hx2⟩ := List.mem_filter.mp hx
      intro hxt
      have : x.1 = t := by simpa using hxt
      rw [this] at hx2
      have hn : b.find? (fun y => y.1 == t) = none := by simpa using hx2
      simp [hn] at hb
    simp [hnone, hb]
  · have hbn : b.find? (fun x => x.1 == t) = none := by
      cases h : b.find? (fun x => x.1 == t) with
      | none => rfl
      | some v => simp [h] at hb
    simp only [hbn, Option.map_none, Option.isSome_none, Bool.false_eq_true, if_false, Option.or_none]
    congr 1
    -- entries for `t` pass the filter
    induction a with
    | nil => rfl
    | cons x xs ih =>
      simp only [List.filter_cons]
      by_cases hxt : (x.1 == t) = true
      · have : x.1 = t := by simpa using hxt
        have hkeep : (b.find? (·.1 == x.1)).isNone = true := by rw [this]; simp [hbn]
        simp [hkeep, List.find?_cons, hxt]
      · by_cases hk : (b.find? (·.1 == x.1)).isNone = true
        · simp only [hk, if_true, List.find?_cons, hxt]
          exact ih
        · simp only [hk, Bool.false_eq_true, if_false, List.find?_cons, hxt]
          exact ih

/-- The rows of the two operands' payloads, for environments that pass their WHERE terms. -/
theorem rowOf_merge (tables : List (List Row)) (pl pr : SqlPayload) (L R : List Row) (lc rc : Cols)
    (Pl : PaySem tables pl L lc) (Pr : PaySem tables pr R rc) (hR : RowsHaveCols R rc)
    (hd : ∀ s, s ∈ From.names pl.frm → s ∉ From.names pr.frm)
    (a b : PEnv) (ha : a ∈ payEnvs tables pl) (hb : b ∈ payEnvs tables pr) :
    rowOf (availMerge pl.avail pr.avail) (a.merge b) = (rowOf pl.avail a).merge (rowOf pr.avail b) := by
  have la := payEnvs_local ha
  have lb := payEnvs_local hb
  funext t
  simp only [rowOf, lookup_availMerge, Row.merge]
  cases hrt : SqlPayload.lookup pr.avail t with
  | some y =>
    simp only [Option.isSome_some, if_true]
    have hy : y.eval (a.merge b) = y.eval b :=
      SqlExpr.eval_congr _ _ y (fun s hs => merge_agree_right la lb hd s (Pr.availSrcs t y hrt s hs))
    rw [hy]
    -- NULL-free: the right row has a value for every column of the right operand
    have hmem : rowOf pr.avail b ∈ R := by rw [Pr.rows_eq]; exact List.mem_map_of_mem hb
    have hsome := (hR _ hmem t).mpr ((Pr.dom t).mp (by simp [hrt]))
    simp only [rowOf, hrt] at hsome
    cases hv : y.eval b with
    | none => simp [hv] at hsome
    | some v => rfl
  | none =>
    simp only [Option.isSome_none, Bool.false_eq_true, if_false]
    cases hlt : SqlPayload.lookup pl.avail t with
    | none => rfl
    | some y =>
      exact SqlExpr.eval_congr _ _ y (fun s hs => merge_agree_left la lb hd s (Pl.availSrcs t y hlt s hs))

theorem wh_merge (tables : List (List Row)) (pl pr : SqlPayload) (L R : List Row) (lc rc : Cols)
    (Pl : PaySem tables pl L lc) (Pr : PaySem tables pr R rc)
    (hd : ∀ s, s ∈ From.names pl.frm → s ∉ From.names pr.frm)
    (a b : PEnv) (ha : a ∈ (From.envs tables pl.frm).1) (hb : b ∈ (From.envs tables pr.frm).1) :
    SqlPred.evalAll (a.merge b) (pl.wh ++ pr.wh) = (SqlPred.evalAll a pl.wh && SqlPred.evalAll b pr.wh) := by
  have la := envs_local tables pl.frm a ha
  have lb := envs_local tables pr.frm b hb
  rw [evalAll_append,
    SqlPred.evalAll_congr _ a pl.wh (fun s hs => merge_agree_left la lb hd s (Pl.whSrcs s hs)),
    SqlPred.evalAll_congr _ b pr.wh (fun s hs => merge_agree_right la lb hd s (Pr.whSrcs s hs))]

end DafRel

namespace DafRel

/-- The ON condition of the compiled join = agreement on the common columns and the predicate, on the
rows the two environments stand for. -/
theorem on_merge (tables : List (List Row)) (pl pr : SqlPayload) (L R : List Row) (lc rc : Cols)
    (Pl : PaySem tables pl L lc) (Pr : PaySem tables pr R rc) (hL : RowsHaveCols L lc) (hR : RowsHaveCols R rc)
    (hd : ∀ s, s ∈ From.names pl.frm → s ∉ From.names pr.frm)
    (common : Cols) (hcl : ∀ t, t ∈ common → t ∈ lc) (hcr : ∀ t, t ∈ common → t ∈ rc)
    (oc : List SqlPred)
    (hoc : common.mapM (onCommonTerm pl.avail pr.avail) = some oc)
    (pred : Pred) (hpa : pred.arityOk = true) (hpc : pred.columnsRequired.subset (lc.union rc) = true)
    (ex : List SqlPred)
    (hex : joinExtra (availMerge pl.avail pr.avail) pred = .ok ex)
    (a b : PEnv) (ha : a ∈ payEnvs tables pl) (hb : b ∈ payEnvs tables pr) :
    SqlPred.evalAll (a.merge b) (oc ++ ex) =
      ((rowOf pl.avail a).agree (rowOf pr.avail b) common &&
        pred.val ((rowOf pl.avail a).merge (rowOf pr.avail b))) := by
  have la := payEnvs_local ha
  have lb := payEnvs_local hb
  have hrow := rowOf_merge tables pl pr L R lc rc Pl Pr hR hd a b ha hb
  rw [evalAll_append]
  congr 1
  · -- the equality terms on the common columns
    unfold Row.agree
    clear hex
    induction common generalizing oc with
    | nil =>
      simp only [List.mapM_nil, Option.pure_def, Option.some.injEq] at hoc
      subst hoc; rfl
    | cons t ts ih =>
      cases h1 : onCommonTerm pl.avail pr.avail t with
      | none => simp [List.mapM_cons, h1] at hoc
      | some q =>
        cases h2 : ts.mapM (onCommonTerm pl.avail pr.avail) with
        | none => simp [List.mapM_cons, h1, h2] at hoc
        | some oc' =>
          simp only [List.mapM_cons, h1, h2, Option.bind_eq_bind, Option.bind_some, Option.pure_def,
            Option.some.injEq] at hoc
          subst hoc
          unfold onCommonTerm at h1
          cases hx : SqlPayload.lookup pl.avail t with
          | none => simp [hx] at h1
          | some x =>
            cases hy : SqlPayload.lookup pr.avail t with
            | none => simp [hx, hy] at h1
            | some y =>
              simp only [hx, hy, Option.some.injEq] at h1
              subst h1
              simp only [SqlPred.evalAll, List.all_cons]
              rw [ih (fun u hu => hcl u (List.mem_cons_of_mem _ hu)) (fun u hu => hcr u (List.mem_cons_of_mem _ hu)) oc' h2]
              congr 1
              -- one equality term
              have hxa : x.eval (a.merge b) = x.eval a :=
                SqlExpr.eval_congr _ _ x (fun s hs => merge_agree_left la lb hd s (Pl.availSrcs t x hx s hs))
              have hyb : y.eval (a.merge b) = y.eval b :=
                SqlExpr.eval_congr _ _ y (fun s hs => merge_agree_right la lb hd s (Pr.availSrcs t y hy s hs))
              have hla : (rowOf pl.avail a) t = x.eval a := by simp [rowOf, hx]
              have hrb : (rowOf pr.avail b) t = y.eval b := by simp [rowOf, hy]
              have hmemL : rowOf pl.avail a ∈ L := by rw [Pl.rows_eq]; exact List.mem_map_of_mem ha
              have hmemR : rowOf pr.avail b ∈ R := by rw [Pr.rows_eq]; exact List.mem_map_of_mem hb
              have hsl := (hL _ hmemL t).mpr (hcl t (by simp))
              have hsr := (hR _ hmemR t).mpr (hcr t (by simp))
              rw [hla] at hsl; rw [hrb] at hsr
              simp only [SqlPred.eval, SqlExpr.evalList, hxa, hyb, hla, hrb]
              cases hva : x.eval a with
              | none => simp [hva] at hsl
              | some va =>
                cases hvb : y.eval b with
                | none => simp [hvb] at hsr
                | some vb =>
                  simp only [PFn.apply, Option.getD_some]
                  by_cases hvv : va = vb <;> simp [hvv]
  · -- the predicate
    unfold joinExtra at hex
    by_cases htriv : (pred.asTrivial == some true) = true
    · simp only [htriv, if_true] at hex
      injection hex with hex; subst hex
      simp only [SqlPred.evalAll]
      exact (Pred.asTrivial_val _ pred true (by simpa using htriv)).symm
    · simp only [htriv, Bool.false_eq_true, if_false] at hex
      have hav : AvailOK (availMerge pl.avail pr.avail) (a.merge b) ((rowOf pl.avail a).merge (rowOf pr.avail b)) := by
        rw [← hrow]; exact rowOf_availOK _ _
      have hmemL : rowOf pl.avail a ∈ L := by rw [Pl.rows_eq]; exact List.mem_map_of_mem ha
      have hmemR : rowOf pr.avail b ∈ R := by rw [Pr.rows_eq]; exact List.mem_map_of_mem hb
      have hall : ((rowOf pl.avail a).merge (rowOf pr.avail b)).hasAll pred.columnsRequired := by
        intro t ht
        have hm := RowHasCols.merge (hL _ hmemL) (hR _ hmemR)
        exact (hm t).mpr ((Cols.subset_iff _ _).mp hpc t ht)
      exact convFlattened_sound _ _ _ hav pred ex hpa hall hex

end DafRel

namespace DafRel

theorem mem_names_availMerge {pl pr : SqlPayload} {t : Tag} {y : SqlExpr}
    (h : SqlPayload.lookup (availMerge pl.avail pr.avail) t = some y) :
    SqlPayload.lookup pr.avail t = some y ∨ SqlPayload.lookup pl.avail t = some y := by
  rw [lookup_availMerge] at h
  split at h
  · exact Or.inl h
  · exact Or.inr h

/-- One left environment against all right environments. -/
theorem join_block (tables : List (List Row)) (pl pr : SqlPayload) (L R : List Row) (lc rc : Cols)
    (Pl : PaySem tables pl L lc) (Pr : PaySem tables pr R rc) (hR : RowsHaveCols R rc)
    (hd : ∀ s, s ∈ From.names pl.frm → s ∉ From.names pr.frm) (common : Cols) (pred : Pred) (on : List SqlPred)
    (a : PEnv) (hapay : a ∈ payEnvs tables pl)
    (hon : ∀ b, b ∈ payEnvs tables pr → SqlPred.evalAll (a.merge b) on =
      ((rowOf pl.avail a).agree (rowOf pr.avail b) common && pred.val ((rowOf pl.avail a).merge (rowOf pr.avail b)))) :
    (re : List PEnv) → (∀ b, b ∈ re → b ∈ (From.envs tables pr.frm).1) →
    ((((re.filter (fun b => SqlPred.evalAll (a.merge b) on)).map (fun b => a.merge b)).filter
        (fun e => SqlPred.evalAll e (pl.wh ++ pr.wh))).map (rowOf (availMerge pl.avail pr.avail))) =
      ((((re.filter (fun e => SqlPred.evalAll e pr.wh)).map (rowOf pr.avail)).filter
        (fun r => (rowOf pl.avail a).agree r common && pred.val ((rowOf pl.avail a).merge r))).map
        (fun r => (rowOf pl.avail a).merge r))
  | [], _ => rfl
  | b :: re, hmem => by
    have ih := join_block tables pl pr L R lc rc Pl Pr hR hd common pred on a hapay hon re
      (fun x hx => hmem x (List.mem_cons_of_mem _ hx))
    have hb0 := hmem b (by simp)
    have ha0 : a ∈ (From.envs tables pl.frm).1 := (List.mem_filter.mp hapay).1
    have hwa : SqlPred.evalAll a pl.wh = true := (List.mem_filter.mp hapay).2
    have hwh := wh_merge tables pl pr L R lc rc Pl Pr hd a b ha0 hb0
    rw [hwa, Bool.true_and] at hwh
    by_cases hwb : SqlPred.evalAll b pr.wh = true
    · have hbpay : b ∈ payEnvs tables pr := List.mem_filter.mpr ⟨hb0, hwb⟩
      have hc := hon b hbpay
      have hrow := rowOf_merge tables pl pr L R lc rc Pl Pr hR hd a b hapay hbpay
      by_cases hcond : ((rowOf pl.avail a).agree (rowOf pr.avail b) common &&
          pred.val ((rowOf pl.avail a).merge (rowOf pr.avail b))) = true
      · rw [hcond] at hc
        simp only [List.filter_cons, hc, hwb, if_true, List.map_cons, hwh, hcond, hrow, ih]
      · have hcf : ((rowOf pl.avail a).agree (rowOf pr.avail b) common &&
            pred.val ((rowOf pl.avail a).merge (rowOf pr.avail b))) = false := by simpa using hcond
        rw [hcf] at hc
        simp only [List.filter_cons, hc, hwb, if_true, Bool.false_eq_true, if_false, List.map_cons, hcf, ih]
    · have hwbf : SqlPred.evalAll b pr.wh = false := by simpa using hwb
      rw [hwbf] at hwh
      by_cases hob : SqlPred.evalAll (a.merge b) on = true
      · simp only [List.filter_cons, hob, hwbf, if_true, Bool.false_eq_true, if_false, List.map_cons, hwh, ih]
      · have hobf : SqlPred.evalAll (a.merge b) on = false := by simpa using hob
        simp only [List.filter_cons, hobf, hwbf, Bool.false_eq_true, if_false, ih]

/-- **Join**: the compiled FROM ... JOIN ... ON ... with the merged `columns_available` stands for the
join of the rows the two operand payloads stand for. -/
theorem paySem_join (tables : List (List Row)) (pl pr : SqlPayload) (L R : List Row) (lc rc : Cols)
    (Pl : PaySem tables pl L lc) (Pr : PaySem tables pr R rc) (hL : RowsHaveCols L lc) (hR : RowsHaveCols R rc)
    (hd : ∀ s, s ∈ From.names pl.frm → s ∉ From.names pr.frm)
    (common : Cols) (hcl : ∀ t, t ∈ common → t ∈ lc) (hcr : ∀ t, t ∈ common → t ∈ rc)
    (oc : List SqlPred)
    (hoc : common.mapM (onCommonTerm pl.avail pr.avail) = some oc)
    (pred : Pred) (hpa : pred.arityOk = true) (hpc : pred.columnsRequired.subset (lc.union rc) = true)
    (ex : List SqlPred)
    (hex : joinExtra (availMerge pl.avail pr.avail) pred = .ok ex) :
    PaySem tables { frm := .join pl.frm pr.frm (oc ++ ex), wh := pl.wh ++ pr.wh,
                    avail := availMerge pl.avail pr.avail }
      (joinRows common pred L R) (lc.union rc) := by
  have hon := on_merge tables pl pr L R lc rc Pl Pr hL hR hd common hcl hcr oc hoc pred hpa hpc ex hex
  refine ⟨?_, ?_, ?_, ?_⟩
  · -- rows
    rw [Pl.rows_eq, Pr.rows_eq]
    unfold payEnvs joinRows
    simp only [From.envs]
    generalize hle : (From.envs tables pl.frm).1 = le
    have hlemem : ∀ a, a ∈ le → a ∈ (From.envs tables pl.frm).1 := fun a h => hle ▸ h
    clear hle
    induction le with
    | nil => rfl
    | cons a le ih =>
      have ih' := ih (fun x hx => hlemem x (List.mem_cons_of_mem _ hx))
      simp only [List.flatMap_cons, List.filter_append, List.map_append, List.filter_cons]
      have ha0 : a ∈ (From.envs tables pl.frm).1 := hlemem a (by simp)
      by_cases hwa : SqlPred.evalAll a pl.wh = true
      · have hapay : a ∈ payEnvs tables pl := List.mem_filter.mpr ⟨ha0, hwa⟩
        simp only [hwa, if_true, List.map_cons, List.flatMap_cons]
        rw [ih']
        congr 1
        exact (join_block tables pl pr L R lc rc Pl Pr hR hd common pred (oc ++ ex) a hapay
          (fun b hb => hon a b hapay hb) _ (fun b hb => hb)).symm
      · simp only [hwa, Bool.false_eq_true, if_false]
        rw [ih']
        -- nothing from `a` passes the WHERE terms
        have hnil : ((((From.envs tables pr.frm).1.filter (fun b => SqlPred.evalAll (a.merge b) (oc ++ ex))).map
            (fun b => a.merge b)).filter (fun e => SqlPred.evalAll e (pl.wh ++ pr.wh))) = [] := by
          apply List.filter_eq_nil_iff.mpr
          intro e he
          obtain ⟨b, hb, rfl⟩ := List.mem_map.mp he
          have hb0 := (List.mem_filter.mp hb).1
          rw [wh_merge tables pl pr L R lc rc Pl Pr hd a b ha0 hb0]
          simp [hwa]
        rw [hnil]
        rfl
  · intro t
    rw [lookup_availMerge, Cols.mem_union]
    by_cases hr : (SqlPayload.lookup pr.avail t).isSome = true
    · simp only [hr, if_true]
      exact ⟨fun _ => Or.inr ((Pr.dom t).mp hr), fun _ => trivial⟩
    · simp only [hr, Bool.false_eq_true, if_false]
      rw [Pl.dom t]
      exact ⟨Or.inl, fun h => h.elim id (fun h2 => absurd ((Pr.dom t).mpr h2) hr)⟩
  · intro t y hl s hs
    simp only [From.names, List.mem_append]
    rcases mem_names_availMerge hl with h | h
    · exact Or.inr (Pr.availSrcs t y h s hs)
    · exact Or.inl (Pl.availSrcs t y h s hs)
  · intro s hs
    rw [srcsList_append, List.mem_append] at hs
    simp only [From.names, List.mem_append]
    rcases hs with hs | hs
    · exact Or.inl (Pl.whSrcs s hs)
    · exact Or.inr (Pr.whSrcs s hs)

end DafRel
