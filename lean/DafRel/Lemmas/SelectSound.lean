/-
Soundness of `sql.Engine._append_unary_to_select` (model: `appendUnarySel`) case by case: the
Select it returns is coherent and has the rows of the operation applied to the rows of the given
Select.  Built on the commutation lemmas of C04 and the merging lemmas of C05.
-/
import DafRel.Lemmas.Conform
import DafRel.Lemmas.Commute
import DafRel.Lemmas.NoTriv
import DafRel.Lemmas.GoodLemmas

namespace DafRel

variable {I : NodeInv}

theorem finishApply_engine : (t : Rel) → (op : UOp) → (res : Res) → op.finishApply t = .ok res →
    (res.get t).engine = t.engine
  | .unary up t' c, op, res, h => by
    unfold UOp.finishApply at h
    split at h
    · injection h with h; subst h; rfl
    · split at h
      · cases h
      · injection h with h; subst h; rfl
      · split at h
        · cases h
        · rename_i r hr
          injection h with h; subst h
          exact finishApply_engine t' _ r hr
      · unfold UOp.construct at h
        split at h
        · cases h
        · injection h with h; subst h; rfl
  | .leaf .., op, res, h | .binary .., op, res, h | .mat .., op, res, h | .transfer .., op, res, h
  | .select .., op, res, h => by
    unfold UOp.finishApply at h
    split at h
    · injection h with h; subst h; rfl
    · unfold UOp.construct at h
      split at h
      · cases h
      · injection h with h; subst h; rfl

theorem optStep_engine (cond : Bool) (op : UOp) (t t' : Rel) (h : optStep cond op t = .ok t') :
    t'.engine = t.engine := by
  unfold optStep at h
  split at h
  · split at h
    · cases h
    · rename_i v hv
      injection h with h; subst h
      exact finishApply_engine t op v hv
  · injection h with h; subst h; rfl

theorem applySkip_engine (k : Rel) (sl : Slots) (r : Rel) (h : applySkip k sl = .ok r) : r.engine = k.engine := by
  rw [applySkip_eq_spec] at h
  unfold applySkipSpec at h
  split at h
  · cases h
  · rename_i t1 h1
    split at h
    · cases h
    · rename_i t2 h2
      split at h
      · cases h
      · rename_i t3 h3
        split at h
        · cases h
        · rename_i t4 h4
          injection h with h; subst h
          show t4.engine = k.engine
          rw [optStep_engine _ _ _ _ h4, optStep_engine _ _ _ _ h3]
          have e2 : t2.engine = t1.engine := by
            split at h2
            · exact optStep_engine _ _ _ _ h2
            · injection h2 with h2; subst h2; rfl
          rw [e2, optStep_engine _ _ _ _ h1]

theorem applySkip_selOK (σ : Leaves) (k : Rel) (sl : Slots) (r : Rel) (hwf : k.WF) (htr : k.Truthful σ)
    (hsl : sl.wfOn k.columns) (hcp : isChain k = true → sl.proj = none) (h : applySkip k sl = .ok r) :
    SelOK σ r ∧ r.skipTo = k ∧ r.slots = sl := by
  obtain ⟨t, ht⟩ := applySkip_shape k sl r h
  obtain ⟨a, b, c, d⟩ := applySkip_sem σ k sl r hwf htr hsl h
  have he := applySkip_engine k sl _ h
  subst ht
  exact ⟨⟨rfl, rfl, hcp, hwf, htr, hsl, a, b, c, d, he⟩, rfl, rfl⟩

theorem Slots.empty_wfOn (cols : Cols) : ({} : Slots).wfOn cols :=
  ⟨rfl, fun c hc => by cases hc⟩

theorem Slots.empty_sem (cols : Cols) (l : List Row) : ({} : Slots).sem cols l = l := by
  simp [Slots.sem]


/-- The skip target of the Select returned by `_append_unary_to_select` is again a Good tree when the
given Select is. -/
def SkipOK (I : NodeInv) (σ : Leaves) (S S' : Rel) : Prop :=
  Good I σ S → S.isSelect = true → Good I σ S'.skipTo ∧ S'.skipTo.compOK true = true ∧ I.sel S'

/-- The result is a fresh Select, or the Select that was passed in. -/
def FreshOr (S S' : Rel) : Prop := S'.oid = 0 ∨ S' = S

theorem FreshOr.sel {S S' : Rel} {σ : Leaves} (h : FreshOr S S') (g : Good I σ S) (hs : S.isSelect = true) :
    I.sel S' := by
  rcases h with h | h
  · exact I.selNew S' h
  · rw [h]; exact g.selI hs

theorem skipOK_same (σ : Leaves) (S S' : Rel) (h : S'.skipTo = S.skipTo) (hf : FreshOr S S') : SkipOK I σ S S' :=
  fun g hs => by rw [h]; exact ⟨(g.selInv hs).2, g.shape hs, hf.sel g hs⟩

theorem skipOK_self (σ : Leaves) (S S' : Rel) (h : S'.skipTo = S) (hf : FreshOr S S') : SkipOK I σ S S' :=
  fun g hs => by rw [h]; exact ⟨g, g.compOK hs true, hf.sel g hs⟩

/-- A sub-select over the same skip target. -/
theorem skipOK_sub (σ : Leaves) (S S' r0 : Rel) (h : S'.skipTo = r0) (ok0 : SelOK σ r0) (hk0 : r0.skipTo = S.skipTo)
    (h0 : FreshOr S r0) (hf : FreshOr S S') : SkipOK I σ S S' :=
  fun g hs => by
    rw [h]
    have g0 : Good I σ r0 := Good.ofSel ok0 (by rw [hk0]; exact g.shape hs) (h0.sel g hs)
      (by rw [hk0]; exact (g.selInv hs).2)
    exact ⟨g0, g0.compOK ok0.isSel true, hf.sel g hs⟩

theorem skipOK_nest (σ : Leaves) (S S' : Rel) (op : UOp) (res : Res) (hop : op.wfOn S.columns = true)
    (hb : op.belowSlots = true)
    (hf : op.finishApply S = .ok res) (h : S'.skipTo = res.get S) (hfr : FreshOr S S') : SkipOK I σ S S' :=
  fun g hs => by
    rw [h]
    exact ⟨finishApply_good σ S op res g hop hf,
      compOK_true_of_false _ (finishApply_compOK S op res hb (g.compOK hs false) hf), hfr.sel g hs⟩

theorem skipOK_after (σ : Leaves) (S S' : Rel) (op : UOp) (res : Res) (hop : op.wfOn S.skipTo.columns = true)
    (hb : op.belowSlots = true) (hnc : isChain S.skipTo = false)
    (hf : op.finishApply S.skipTo = .ok res) (h : S'.skipTo = res.get S.skipTo) (hfr : FreshOr S S') :
    SkipOK I σ S S' :=
  fun g hs => by
    rw [h]
    exact ⟨finishApply_good σ S.skipTo op res (g.selInv hs).2 hop hf,
      compOK_true_of_false _ (finishApply_compOK S.skipTo op res hb
        (compOK_false_of_not_chain _ (g.shape hs) hnc) hf), hfr.sel g hs⟩

/-- Nesting: the operation is applied on top of the Select, and the result is wrapped in a new
Select with nothing recorded. -/
theorem nest_sound (σ : Leaves) (op : UOp) (S : Rel) (hS : SelOK σ S) (hop : op.wfOn S.columns = true)
    (hbs : op.belowSlots = true) (inner : Res) (hi : op.finishApply S = .ok inner) (r : Rel) (h : applySkip (inner.get S) {} = .ok r)
    (st : Store) (fuel : Nat) : AppendOK σ op S r ∧ SkipOK I σ S r := by
  have F := finishApply_sound σ S op hS.wf hS.truthful hop inner hi
  obtain ⟨ok, hk, hs⟩ := applySkip_selOK σ (inner.get S) {} r F.wf F.truthful (Slots.empty_wfOn _) (fun _ => rfl) h
  have hsem : sem σ r = sem σ (inner.get S) := by
    rw [ok.sem_eq, hk, hs, Slots.empty_sem]
  have hcols : ∀ c, c ∈ r.columns ↔ c ∈ (inner.get S).columns := by
    intro c; rw [ok.cols c, hk, hs]; rfl
  exact ⟨⟨ok, by rw [hsem, F.sem_eq], fun c => (hcols c).trans (F.cols c), by rw [ok.engine, hk]; exact F.engine⟩,
    skipOK_nest σ S r op inner hop hbs hi hk (Or.inl (applySkip_oid _ _ _ h))⟩

/-! ### The rows at each stage of the slots -/

theorem rowsHaveCols_isort {le : Row → Row → Bool} {l : List Row} {c : Cols} (h : RowsHaveCols l c) :
    RowsHaveCols (isort le l) c := fun r hr => h r ((mem_isort le r l).mp hr)

theorem rowsHaveCols_filter {p : Row → Bool} {l : List Row} {c : Cols} (h : RowsHaveCols l c) :
    RowsHaveCols (l.filter p) c := fun r hr => h r (List.mem_filter.mp hr).1

theorem rowsHaveCols_restrict {l : List Row} {c c' : Cols} (h : RowsHaveCols l c) (hs : ∀ t, t ∈ c' → t ∈ c) :
    RowsHaveCols (l.map (fun r => r.restrict c')) c' := by
  intro r hr
  obtain ⟨r0, h0, rfl⟩ := List.mem_map.mp hr
  exact (h r0 h0).restrict c' hs

/-! ### Slot algebra: how one more operation is absorbed by the recorded slots -/

/-- A selection below the slots (no slice recorded) = the selection above them. -/
theorem slots_sel (sl : Slots) (cols : Cols) (p : Pred) (l : List Row) (hl : RowsHaveCols l cols)
    (hsl : sl.wfOn cols) (hp : p.columnsRequired.subset (sl.columns cols) = true)
    (hns : (sl.sliceStart != 0 || sl.sliceStop.isSome) = false) :
    sl.sem cols (l.filter (fun r => p.val r)) = (sl.sem cols l).filter (fun r => p.val r) := by
  unfold Slots.sem
  simp only [hns, Bool.false_eq_true, if_false]
  -- sort
  have h1 : (if sl.sort.isEmpty then l.filter (fun r => p.val r) else isort (lexLe sl.sort) (l.filter (fun r => p.val r))) =
      (if sl.sort.isEmpty then l else isort (lexLe sl.sort) l).filter (fun r => p.val r) := by
    split
    · rfl
    · exact (filter_isort (lexLe_total _) (lexLe_trans _) _ l).symm
  rw [h1]
  generalize hx : (if sl.sort.isEmpty then l else isort (lexLe sl.sort) l) = x
  have hxc : RowsHaveCols x cols := by
    rw [← hx]; split
    · exact hl
    · exact rowsHaveCols_isort hl
  cases hpj : sl.proj with
  | none =>
    simp only [Slots.columns, hpj]
    cases sl.dedup with
    | false => rfl
    | true => simp only [if_true]; exact sel_dedup cols _ x hxc
  | some c =>
    simp only [Slots.columns, hpj] at hp ⊢
    have hcs : ∀ t, t ∈ c → t ∈ cols := (Cols.subset_iff _ _).mp (hsl.2 c hpj)
    have h2 : (x.filter (fun r => p.val r)).map (fun r => r.restrict c) =
        (x.map (fun r => r.restrict c)).filter (fun r => p.val r) := by
      rw [List.filter_map]
      congr 1
      apply List.filter_congr
      intro r _
      exact (Pred.val_restrict p r c hp).symm
    rw [h2]
    cases sl.dedup with
    | false => rfl
    | true =>
      simp only [if_true]
      exact sel_dedup c _ _ (rowsHaveCols_restrict hxc hcs)

/-- One more slice after the slots = the slots with the merged slice. -/
theorem slots_slice (sl : Slots) (cols : Cols) (a : Nat) (b : Option Nat) (a' : Nat) (b' : Option Nat)
    (l : List Row) (hm : UOp.sliceThen sl.sliceStart sl.sliceStop a b = .ok (.slice a' b')) :
    ({ sl with sliceStart := a', sliceStop := b' } : Slots).sem cols l = sliceList a b (sl.sem cols l) := by
  have key := sliceThen_sound (α := Row) sl.sliceStart sl.sliceStop a b a' b' hm
  unfold Slots.sem
  simp only [Slots.columns]
  generalize (if sl.dedup then firstOcc (match sl.proj with | some c => c | none => cols)
      (match sl.proj with
        | some c => (if sl.sort.isEmpty then l else isort (lexLe sl.sort) l).map (fun r => r.restrict c)
        | none => (if sl.sort.isEmpty then l else isort (lexLe sl.sort) l))
    else (match sl.proj with
        | some c => (if sl.sort.isEmpty then l else isort (lexLe sl.sort) l).map (fun r => r.restrict c)
        | none => (if sl.sort.isEmpty then l else isort (lexLe sl.sort) l))) = x
  have hk := key x
  by_cases h1 : (sl.sliceStart != 0 || sl.sliceStop.isSome) = true
  · simp only [h1, if_true]
    by_cases h2 : (a' != 0 || b'.isSome) = true
    · simp only [h2, if_true]; exact hk.symm
    · simp only [h2, Bool.false_eq_true, if_false]
      have : a' = 0 ∧ b' = none := by
        simp only [Bool.or_eq_true, bne_iff_ne, ne_eq, Option.isSome_iff_ne_none, not_or, Decidable.not_not] at h2
        exact h2
      rw [hk, this.1, this.2]; simp [sliceList]
  · have h1' : sl.sliceStart = 0 ∧ sl.sliceStop = none := by
      simp only [Bool.or_eq_true, bne_iff_ne, ne_eq, Option.isSome_iff_ne_none, not_or, Decidable.not_not] at h1
      exact h1
    simp only [h1, Bool.false_eq_true, if_false]
    have hk' : sliceList a' b' x = sliceList a b x := by
      rw [← hk, h1'.1, h1'.2]; simp [sliceList]
    by_cases h2 : (a' != 0 || b'.isSome) = true
    · simp only [h2, if_true]; exact hk'
    · simp only [h2, Bool.false_eq_true, if_false]
      have : a' = 0 ∧ b' = none := by
        simp only [Bool.or_eq_true, bne_iff_ne, ne_eq, Option.isSome_iff_ne_none, not_or, Decidable.not_not] at h2
        exact h2
      rw [← hk', this.1, this.2]; simp [sliceList]

end DafRel

namespace DafRel

variable {I : NodeInv}

theorem Slots.columns_congr (sl : Slots) (c1 c2 : Cols) (h : ∀ x, x ∈ c1 ↔ x ∈ c2) :
    ∀ x, x ∈ sl.columns c1 ↔ x ∈ sl.columns c2 := by
  intro x
  unfold Slots.columns
  cases sl.proj with
  | none => exact h x
  | some c => exact Iff.rfl

theorem Slots.sem_congr (sl : Slots) (c1 c2 : Cols) (h : ∀ x, x ∈ c1 ↔ x ∈ c2) (l : List Row) :
    sl.sem c1 l = sl.sem c2 l := by
  unfold Slots.sem
  simp only [firstOcc_congr _ _ (sl.columns_congr c1 c2 h)]

theorem Slots.wfOn_congr (sl : Slots) (c1 c2 : Cols) (h : ∀ x, x ∈ c1 → x ∈ c2) (hw : sl.wfOn c1) : sl.wfOn c2 := by
  refine ⟨(Cols.subset_iff _ _).mpr fun t ht => h t ((Cols.subset_iff _ _).mp hw.1 t ht), fun c hc => ?_⟩
  exact (Cols.subset_iff _ _).mpr fun t ht => h t ((Cols.subset_iff _ _).mp (hw.2 c hc) t ht)

/-- `reapply_skip` returns the Select itself or a fresh one. -/
theorem reapplySkip_fresh (S : Rel) (ns : Option Rel) (after : Option UOp) (kw : Option Slots) (res : Res)
    (h : reapplySkip S ns after kw = .ok res) : FreshOr S (res.get S) := by
  unfold reapplySkip at h
  simp only [bind, Except.bind, pure, Except.pure] at h
  repeat' split at h
  all_goals first
    | (cases h; done)
    | (injection h with h; subst h; exact Or.inr rfl)
    | (rename_i r hr; injection h with h; subst h; exact Or.inl (applySkip_oid _ _ _ hr))

/-- `reapply_skip(**kwargs)` with the same skip target: a new Select over it with the given slots. -/
theorem reapplySkip_kw (σ : Leaves) (S : Rel) (sl' : Slots) (res : Res) (hS : SelOK σ S)
    (hsl : sl'.wfOn S.skipTo.columns) (hcp : isChain S.skipTo = true → sl'.proj = none)
    (h : reapplySkip S none none (some sl') = .ok res) :
    ∃ r, res = .new r ∧ SelOK σ r ∧ r.skipTo = S.skipTo ∧ r.slots = sl' := by
  unfold reapplySkip at h
  simp only [bind, Except.bind, pure, Except.pure, Res.get, Option.getD] at h
  cases ha : applySkip S.skipTo sl' with
  | error e => simp [ha] at h
  | ok r =>
    simp only [ha] at h
    injection h with h
    exact ⟨r, h.symm, applySkip_selOK σ _ _ r hS.skipWF hS.skipTruthful hsl hcp ha⟩

/-- `reapply_skip(after=op, **kwargs)`: the operation is applied to the skip target and the slots are
re-applied on top (or the Select itself is returned when nothing changed). -/
theorem reapplySkip_after (σ : Leaves) (S : Rel) (op : UOp) (kw : Option Slots) (res : Res) (hS : SelOK σ S)
    (hop : op.wfOn S.skipTo.columns = true)
    (hsl : (kw.getD S.slots).wfOn (op.appliedColumns S.skipTo.columns))
    (hcp : ∀ k, op.finishApply S.skipTo = .ok (.new k) → isChain k = true → (kw.getD S.slots).proj = none)
    (hc0 : isChain S.skipTo = true → (kw.getD S.slots).proj = none)
    (h : reapplySkip S none (some op) kw = .ok res) :
    SelOK σ (res.get S) ∧ FinishOK σ op S.skipTo (res.get S).skipTo ∧ (res.get S).slots = kw.getD S.slots ∧
      ∃ inner, op.finishApply S.skipTo = .ok inner ∧ (res.get S).skipTo = inner.get S.skipTo := by
  unfold reapplySkip at h
  simp only [bind, Except.bind, pure, Except.pure, Res.get] at h
  cases hf : op.finishApply S.skipTo with
  | error e => simp [hf] at h
  | ok inner =>
    have F := finishApply_sound σ S.skipTo op hS.skipWF hS.skipTruthful hop inner hf
    simp only [hf] at h
    have hwf' : (kw.getD S.slots).wfOn (inner.get S.skipTo).columns :=
      Slots.wfOn_congr _ _ _ (fun x hx => (F.cols x).mpr hx) hsl
    cases inner with
    | same =>
      simp only [Res.get] at h F hwf'
      cases kw with
      | none =>
        simp only at h
        injection h with h; subst h
        exact ⟨hS, F, rfl, .same, rfl, rfl⟩
      | some sl' =>
        simp only [Option.getD] at h hwf'
        cases ha : applySkip S.skipTo sl' with
        | error e => simp [ha] at h
        | ok r =>
          simp only [ha] at h
          injection h with h; subst h
          obtain ⟨ok, hk, hs⟩ := applySkip_selOK σ _ _ r hS.skipWF hS.skipTruthful hwf' hc0 ha
          exact ⟨ok, by simp only [Res.get]; rw [hk]; exact F, by simp only [Res.get]; exact hs, .same, rfl, hk⟩
    | new k =>
      simp only [Res.get] at h F hwf'
      have fin : ∀ r, applySkip k (kw.getD S.slots) = .ok r →
          SelOK σ r ∧ FinishOK σ op S.skipTo r.skipTo ∧ r.slots = kw.getD S.slots ∧
            ∃ inner, (Except.ok (Res.new k) : Except Err Res) = .ok inner ∧ r.skipTo = inner.get S.skipTo := by
        intro r ha
        obtain ⟨ok, hk, hs⟩ := applySkip_selOK σ _ _ r F.wf F.truthful hwf' (hcp k hf) ha
        exact ⟨ok, by rw [hk]; exact F, hs, .new k, rfl, hk⟩
      cases kw <;>
        (split at h
         · cases h
         · rename_i v hv
           injection h with h
           subst h
           exact fin v hv)

end DafRel

namespace DafRel

variable {I : NodeInv}

theorem sortIf (ts : List SortTerm) (l : List Row) :
    (if ts.isEmpty then l else isort (lexLe ts) l) = isort (lexLe ts) l := by
  split
  · rename_i h
    rw [List.isEmpty_iff.mp h, isort_lexLe_nil]
  · rfl

theorem isort_sortThen (s ts : List SortTerm) (l : List Row) :
    isort (lexLe (UOp.sortThen s ts)) l = isort (lexLe ts) (isort (lexLe s) l) := by
  rw [isort_lexLe_append]
  apply isort_congr
  intro a b _ _
  exact sortThen_lexLe s ts a b

theorem isort_restrict (ts : List SortTerm) (c : Cols) (h : (UOp.sortCols ts).subset c = true) (l : List Row) :
    isort (lexLe ts) (l.map (fun r => r.restrict c)) = (isort (lexLe ts) l).map (fun r => r.restrict c) := by
  apply isort_map
  intro a b _ _
  apply lexLe_congr
  · intro t ht; exact Expr.val_restrict t.expr a c (sortCols_subset_term ts c h t ht)
  · intro t ht; exact Expr.val_restrict t.expr b c (sortCols_subset_term ts c h t ht)

theorem sortCols_sortThen (s ts : List SortTerm) (c : Cols) (hs : (UOp.sortCols s).subset c = true)
    (hts : (UOp.sortCols ts).subset c = true) : (UOp.sortCols (UOp.sortThen s ts)).subset c = true := by
  rw [Cols.subset_iff] at hs hts ⊢
  intro x hx
  obtain ⟨t, ht, hct⟩ := (mem_sortCols _ x).mp hx
  rcases mem_sortThen s ts t ht with h | h
  · exact hts x ((mem_sortCols _ x).mpr ⟨t, h, hct⟩)
  · exact hs x ((mem_sortCols _ x).mpr ⟨t, h, hct⟩)

/-- One more sort after the slots (no slice recorded) = the slots with the merged sort. -/
theorem slots_sort (sl : Slots) (cols : Cols) (ts : List SortTerm) (l : List Row) (hl : RowsHaveCols l cols)
    (hsl : sl.wfOn cols) (hts : (UOp.sortCols ts).subset (sl.columns cols) = true)
    (hns : (sl.sliceStart != 0 || sl.sliceStop.isSome) = false) :
    ({ sl with sort := UOp.sortThen sl.sort ts } : Slots).sem cols l = isort (lexLe ts) (sl.sem cols l) := by
  unfold Slots.sem
  simp only [hns, Bool.false_eq_true, if_false, sortIf]
  simp only [isort_sortThen]
  generalize hx : isort (lexLe sl.sort) l = x
  have hxc : RowsHaveCols x cols := by rw [← hx]; exact rowsHaveCols_isort hl
  cases hpj : sl.proj with
  | none =>
    simp only [Slots.columns, hpj] at hts ⊢
    cases sl.dedup with
    | false => rfl
    | true => simp only [if_true]; exact sort_dedup cols ts x hxc
  | some c =>
    simp only [Slots.columns, hpj] at hts ⊢
    have hcs : ∀ t, t ∈ c → t ∈ cols := (Cols.subset_iff _ _).mp (hsl.2 c hpj)
    rw [← isort_restrict ts c hts]
    cases sl.dedup with
    | false => rfl
    | true =>
      simp only [if_true]
      exact sort_dedup c ts _ (rowsHaveCols_restrict hxc hcs)

theorem Slots.sem_sortOnly (ts : List SortTerm) (cols : Cols) (l : List Row) :
    ({ sort := ts } : Slots).sem cols l = isort (lexLe ts) l := by
  simp only [Slots.sem, sortIf]
  rfl

theorem Slots.sem_simple (sl : Slots) (cols : Cols) (l : List Row) (hpn : sl.proj = none)
    (hns : (sl.sliceStart != 0 || sl.sliceStop.isSome) = false) :
    sl.sem cols l = if sl.dedup then firstOcc cols (isort (lexLe sl.sort) l) else isort (lexLe sl.sort) l := by
  simp only [Slots.sem, sortIf, hpn, hns, Slots.columns, Bool.false_eq_true, if_false]

end DafRel

namespace DafRel

variable {I : NodeInv}

theorem SelOK.skipRows {σ : Leaves} {S : Rel} (hS : SelOK σ S) : RowsHaveCols (sem σ S.skipTo) S.skipTo.columns :=
  (metadata_truthful σ S.skipTo hS.skipWF hS.skipTruthful).keys

theorem SelOK.rows {σ : Leaves} {S : Rel} (hS : SelOK σ S) : RowsHaveCols (sem σ S) S.columns :=
  (metadata_truthful σ S hS.wf hS.truthful).keys

theorem Slots.columns_sub (sl : Slots) (cols : Cols) (h : sl.wfOn cols) : ∀ t, t ∈ sl.columns cols → t ∈ cols := by
  intro t ht
  unfold Slots.columns at ht
  cases hp : sl.proj with
  | none => simpa [hp] using ht
  | some c => simp only [hp] at ht; exact (Cols.subset_iff _ _).mp (h.2 c hp) t ht

theorem SelOK.cols_sub {σ : Leaves} {S : Rel} (hS : SelOK σ S) : ∀ t, t ∈ S.columns → t ∈ S.skipTo.columns :=
  fun t ht => Slots.columns_sub _ _ hS.slotsWF t ((hS.cols t).mp ht)

theorem sortThen_nil_left (ts : List SortTerm) : UOp.sortThen [] ts = ts := rfl

/-- `_nest_unary_over_select`: the operation applied in a new outer query level; a Sort without a Slice
moves to the outer level (it commutes with the operation). -/
theorem nestOverSelect_sound (σ : Leaves) (op : UOp) (S : Rel) (hS : SelOK σ S) (hop : op.wfOn S.columns = true)
    (hbs : op.belowSlots = true)
    (hsub : ∀ t, t ∈ S.columns → t ∈ op.appliedColumns S.columns)
    (hcomm : (UOp.sortCols S.slots.sort).subset S.columns = true → ∀ l : List Row, RowsHaveCols l S.columns →
      op.sem (op.appliedColumns S.columns) (isort (lexLe S.slots.sort) l) =
        isort (lexLe S.slots.sort) (op.sem (op.appliedColumns S.columns) l))
    (res : Res) (h : nestOverSelect op S = .ok res) (st : Store) (fuel : Nat) :
    AppendOK σ op S (res.get S) ∧ SkipOK I σ S (res.get S) := by
  unfold nestOverSelect at h
  by_cases hg : (S.slots.hasSort && !S.slots.hasSlice && (UOp.sortCols S.slots.sort).subset S.columns) = true
  · simp only [hg, if_true, bind, Except.bind, pure, Except.pure] at h
    simp only [Bool.and_eq_true, Bool.not_eq_true'] at hg
    obtain ⟨⟨_, hns⟩, hsc⟩ := hg
    have hcp : isChain S.skipTo = true → S.slots.proj = none :=
      fun hc => hS.compoundProj (by rw [hS.compound]; exact hc)
    cases hsubq : reapplySkip S none none (some ({ S.slots with sort := [] } : Slots)) with
    | error e => simp [hsubq] at h
    | ok sub =>
      simp only [hsubq] at h
      have hw : ({ S.slots with sort := [] } : Slots).wfOn S.skipTo.columns :=
        ⟨by simp [UOp.sortCols, Cols.subset_iff], hS.slotsWF.2⟩
      obtain ⟨r0, hr0, ok0, hk0, hs0⟩ := reapplySkip_kw σ S _ sub hS hw hcp hsubq
      subst hr0
      simp only [show (Res.new r0).get S = r0 from rfl] at h
      have hc0 : ∀ x, x ∈ r0.columns ↔ x ∈ S.columns := by
        intro x; rw [ok0.cols x, hs0, hk0, hS.cols x]; rfl
      have hsort' : (UOp.sortCols S.slots.sort).subset (S.slots.columns S.skipTo.columns) = true :=
        (Cols.subset_iff _ _).mpr fun t ht => (hS.cols t).mp ((Cols.subset_iff _ _).mp hsc t ht)
      -- the rows of `S` are the sorted rows of the subquery
      have hsemS : sem σ S = isort (lexLe S.slots.sort) (sem σ r0) := by
        rw [hS.sem_eq, ok0.sem_eq, hs0, hk0]
        have := slots_sort ({ S.slots with sort := [] } : Slots) S.skipTo.columns S.slots.sort _ hS.skipRows hw
          hsort' hns
        rw [← this]
        rfl
      cases hi : op.finishApply r0 with
      | error e => simp [hi] at h
      | ok inner =>
        simp only [hi] at h
        have hop0 : op.wfOn r0.columns = true := by rw [wfOn_congr op _ _ hc0]; exact hop
        have F := finishApply_sound σ r0 op ok0.wf ok0.truthful hop0 inner hi
        have hnc := finishApply_select_not_chain op r0 ok0.isSel inner hi
        cases ha : applySkip (inner.get r0) { sort := S.slots.sort } with
        | error e => simp [ha] at h
        | ok r =>
          simp only [ha] at h
          injection h with h; subst h
          have happl : ∀ x, x ∈ op.appliedColumns r0.columns ↔ x ∈ op.appliedColumns S.columns :=
            UOp.appliedColumns_congr op _ _ hc0
          have hwo : ({ sort := S.slots.sort } : Slots).wfOn (inner.get r0).columns := by
            refine ⟨(Cols.subset_iff _ _).mpr fun t ht => ?_, fun c hc => by cases hc⟩
            exact (F.cols t).mpr ((happl t).mpr (hsub t ((Cols.subset_iff _ _).mp hsc t ht)))
          obtain ⟨ok, hk, hs⟩ := applySkip_selOK σ _ _ r F.wf F.truthful hwo
            (fun hc => by rw [hnc] at hc) ha
          have hrows0 : RowsHaveCols (sem σ r0) S.columns := fun x hx => (ok0.rows x hx).congr hc0
          simp only [Res.get]
          refine ⟨⟨ok, ?_, ?_, ?_⟩, fun g hs => by
            rw [hk]
            have g0 : Good I σ r0 :=
              Good.ofSel ok0 (by rw [hk0]; exact g.shape hs)
                (FreshOr.sel (reapplySkip_fresh _ _ _ _ _ hsubq) g hs) (by rw [hk0]; exact (g.selInv hs).2)
            exact ⟨finishApply_good σ r0 op inner g0 hop0 hi,
              compOK_true_of_false _ (finishApply_compOK r0 op inner hbs (g0.compOK ok0.isSel false) hi),
              I.selNew r (applySkip_oid _ _ _ ha)⟩⟩
          · rw [ok.sem_eq, hk, hs, Slots.sem_sortOnly, F.sem_eq, hsemS, hcomm hsc _ hrows0]
            rw [UOp.sem_congr op _ _ happl]
          · intro c
            rw [ok.cols c, hs, hk]
            exact (F.cols c).trans (happl c)
          · rw [ok.engine, hk, F.engine, ok0.engine, hk0]; exact hS.engine.symm
  · simp only [hg, Bool.false_eq_true, if_false, bind, Except.bind, pure, Except.pure] at h
    cases hi : op.finishApply S with
    | error e => simp [hi] at h
    | ok inner =>
      simp only [hi] at h
      cases ha : applySkip (inner.get S) {} with
      | error e => simp [ha] at h
      | ok r =>
        simp only [ha] at h
        injection h with h; subst h
        exact nest_sound σ _ S hS hop hbs inner hi r ha st fuel

/-- `Selection` appended to a Select. -/
theorem append_sel_sound (σ : Leaves) (st : Store) (fuel : Nat) (p : Pred) (S : Rel) (res : Res)
    (hS : SelOK σ S) (hop : (UOp.sel p).wfOn S.columns = true)
    (hnc : ∀ k, (UOp.sel p).finishApply S.skipTo = .ok (.new k) → isChain k = false)
    (h : appendUnarySel st (fuel+1) (.u (.sel p)) S = .ok res) :
    AppendOK σ (.sel p) S (res.get S) ∧ SkipOK I σ S (res.get S) := by
  rw [appendUnarySel] at h
  by_cases hb : (S.slots.hasSlice || S.isCompound) = true
  · simp only [hb, if_true] at h
    refine nestOverSelect_sound σ (.sel p) S hS hop rfl (fun _ h => h) ?_ res h st fuel
    intro _ l _
    simp only [UOp.sem]
    exact filter_isort (lexLe_total _) (lexLe_trans _) _ l
  · simp only [hb, Bool.false_eq_true, if_false] at h
    simp only [Bool.or_eq_true, not_or, Bool.not_eq_true] at hb
    have hreq : p.columnsRequired.subset (S.slots.columns S.skipTo.columns) = true := by
      simp only [UOp.wfOn, UOp.columnsRequired, Bool.and_true] at hop
      exact (Cols.subset_iff _ _).mpr fun t ht => (hS.cols t).mp ((Cols.subset_iff _ _).mp hop t ht)
    have hop' : (UOp.sel p).wfOn S.skipTo.columns = true := by
      simp only [UOp.wfOn, UOp.columnsRequired, Bool.and_true] at hop ⊢
      exact (Cols.subset_iff _ _).mpr fun t ht => hS.cols_sub t ((Cols.subset_iff _ _).mp hop t ht)
    have hcomp : isChain S.skipTo = false := by rw [← hS.compound]; exact hb.2
    obtain ⟨ok, F, hs, inner, hfi, hki⟩ := reapplySkip_after σ S (.sel p) none res hS hop' hS.slotsWF
      (fun k hk hc => by rw [hnc k hk] at hc; cases hc)
      (fun hc => by rw [hcomp] at hc; cases hc) h
    have hcols : ∀ x, x ∈ (res.get S).skipTo.columns ↔ x ∈ S.skipTo.columns := F.cols
    simp only [Option.getD] at hs
    refine ⟨⟨ok, ?_, ?_, by rw [ok.engine, F.engine]; exact hS.engine.symm⟩, skipOK_after σ S _ (.sel p) inner hop' rfl hcomp hfi hki (reapplySkip_fresh _ _ _ _ _ h)⟩
    · rw [ok.sem_eq, hs, Slots.sem_congr _ _ _ hcols, F.sem_eq, hS.sem_eq]
      exact slots_sel S.slots S.skipTo.columns p _ hS.skipRows hS.slotsWF hreq hb.1
    · intro c
      rw [ok.cols c, hs, Slots.columns_congr _ _ _ hcols c, ← hS.cols c]
      rfl

end DafRel

namespace DafRel

variable {I : NodeInv}

/-- `Slice` appended to a Select: merged into the recorded slice. -/
theorem append_slice_sound (σ : Leaves) (st : Store) (fuel : Nat) (a : Nat) (b : Option Nat) (S : Rel) (res : Res)
    (hS : SelOK σ S)
    (h : appendUnarySel st (fuel+1) (.u (.slice a b)) S = .ok res) :
    AppendOK σ (.slice a b) S (res.get S) ∧ SkipOK I σ S (res.get S) := by
  rw [appendUnarySel] at h
  cases hm : UOp.sliceThen S.slots.sliceStart S.slots.sliceStop a b with
  | error e => simp [hm] at h
  | ok m =>
    cases m with
    | slice a' b' =>
      simp only [hm] at h
      have hw : ({ S.slots with sliceStart := a', sliceStop := b' } : Slots).wfOn S.skipTo.columns := hS.slotsWF
      obtain ⟨r, hr, ok, hk, hs⟩ := reapplySkip_kw σ S _ res hS hw
        (fun hc => hS.compoundProj (by rw [hS.compound]; exact hc)) h
      subst hr
      simp only [Res.get]
      refine ⟨⟨ok, ?_, ?_, by rw [ok.engine, hk]; exact hS.engine.symm⟩, skipOK_same σ S _ hk (reapplySkip_fresh _ _ _ _ _ h)⟩
      · rw [ok.sem_eq, hs, hk, hS.sem_eq]
        exact slots_slice S.slots S.skipTo.columns a b a' b' _ hm
      · intro c
        rw [ok.cols c, hs, hk]
        exact (hS.cols c).symm
    | _ => simp [hm, throw, throwThe, MonadExceptOf.throw] at h

end DafRel

namespace DafRel

variable {I : NodeInv}

theorem sliceList_sublist {α : Type} (s : Nat) (e : Option Nat) (l : List α) : (sliceList s e l).Sublist l := by
  unfold sliceList
  cases e with
  | none => exact List.drop_sublist _ _
  | some e => exact (List.drop_sublist _ _).trans (List.take_sublist _ _)

theorem firstOcc_of_sublist_firstOcc (cols : Cols) (l x : List Row) (h : x.Sublist (firstOcc cols l)) :
    firstOcc cols x = x := by
  have hp := (firstOccBy_spec (fun r : Row => r.proj cols) [] l).1
  rw [firstOcc, firstOccAux_eq_by] at h ⊢
  exact firstOccBy_of_pairwise _ _ _ (fun _ _ => by simp) (hp.sublist h)

/-- A Select that already deduplicates is unchanged by one more deduplication. -/
theorem slots_dedup_same (sl : Slots) (cols : Cols) (l : List Row) (hd : sl.dedup = true) :
    firstOcc (sl.columns cols) (sl.sem cols l) = sl.sem cols l := by
  unfold Slots.sem
  simp only [hd, if_true]
  split
  · exact firstOcc_of_sublist_firstOcc _ _ _ (sliceList_sublist _ _ _)
  · exact firstOcc_of_sublist_firstOcc _ _ _ (List.Sublist.refl _)

theorem slots_dedup_add (sl : Slots) (cols : Cols) (l : List Row) (hd : sl.dedup = false)
    (hns : (sl.sliceStart != 0 || sl.sliceStop.isSome) = false) :
    ({ sl with dedup := true } : Slots).sem cols l = firstOcc (sl.columns cols) (sl.sem cols l) := by
  unfold Slots.sem
  simp only [hd, hns, Bool.false_eq_true, if_false, if_true]
  rfl

/-- `Deduplication` appended to a Select. -/
theorem append_dedup_sound (σ : Leaves) (st : Store) (fuel : Nat) (S : Rel) (res : Res)
    (hS : SelOK σ S)
    (h : appendUnarySel st (fuel+1) (.u .dedup) S = .ok res) :
    AppendOK σ .dedup S (res.get S) ∧ SkipOK I σ S (res.get S) := by
  rw [appendUnarySel] at h
  have hcc : ∀ x, x ∈ UOp.dedup.appliedColumns S.columns ↔ x ∈ S.slots.columns S.skipTo.columns := hS.cols
  by_cases hd : S.slots.dedup = true
  · simp only [hd, Bool.not_true, Bool.false_eq_true, if_false] at h
    injection h with h; subst h
    refine ⟨⟨hS, ?_, fun _ => Iff.rfl, rfl⟩, skipOK_same σ S _ rfl (Or.inr rfl)⟩
    simp only [Res.get, UOp.sem]
    rw [firstOcc_congr _ _ hcc, hS.sem_eq]
    exact (slots_dedup_same _ _ _ hd).symm
  · simp only [hd, Bool.not_false, if_true] at h
    simp only [Bool.not_eq_true] at hd
    by_cases hsl : S.slots.hasSlice = true
    · simp only [hsl, if_true, bind, Except.bind, pure, Except.pure] at h
      cases ha : applySkip S { dedup := true } with
      | error e => simp [ha] at h
      | ok r =>
        simp only [ha] at h
        injection h with h; subst h
        obtain ⟨ok, hk, hs⟩ := applySkip_selOK σ S { dedup := true } r hS.wf hS.truthful (Slots.empty_wfOn _)
          (fun _ => rfl) ha
        simp only [Res.get]
        refine ⟨⟨ok, ?_, ?_, by rw [ok.engine, hk]⟩, skipOK_self σ S _ hk (Or.inl (applySkip_oid _ _ _ ha))⟩
        · rw [ok.sem_eq, hk, hs]; rfl
        · intro c; rw [ok.cols c, hk, hs]; rfl
    · simp only [hsl, Bool.false_eq_true, if_false] at h
      simp only [Bool.not_eq_true] at hsl
      have hw : ({ S.slots with dedup := true } : Slots).wfOn S.skipTo.columns := hS.slotsWF
      obtain ⟨r, hr, ok, hk, hs⟩ := reapplySkip_kw σ S _ res hS hw
        (fun hc => hS.compoundProj (by rw [hS.compound]; exact hc)) h
      subst hr
      simp only [Res.get]
      refine ⟨⟨ok, ?_, ?_, by rw [ok.engine, hk]; exact hS.engine.symm⟩, skipOK_same σ S _ hk (reapplySkip_fresh _ _ _ _ _ h)⟩
      · rw [ok.sem_eq, hs, hk, slots_dedup_add _ _ _ hd hsl, ← hS.sem_eq]
        exact (firstOcc_congr _ _ hcc _).symm
      · intro c
        rw [ok.cols c, hs, hk]
        exact (hS.cols c).symm

end DafRel



namespace DafRel

variable {I : NodeInv}

/-- `Sort` appended to a Select. -/
theorem append_sort_sound (σ : Leaves) (st : Store) (fuel : Nat) (ts : List SortTerm) (S : Rel) (res : Res)
    (hS : SelOK σ S) (hop : (UOp.sort ts).wfOn S.columns = true)
    (h : appendUnarySel st (fuel+1) (.u (.sort ts)) S = .ok res) :
    AppendOK σ (.sort ts) S (res.get S) ∧ SkipOK I σ S (res.get S) := by
  rw [appendUnarySel] at h
  have hts : (UOp.sortCols ts).subset S.columns = true := by
    simpa [UOp.wfOn, UOp.columnsRequired] using hop
  have hts' : (UOp.sortCols ts).subset (S.slots.columns S.skipTo.columns) = true :=
    (Cols.subset_iff _ _).mpr fun t ht => (hS.cols t).mp ((Cols.subset_iff _ _).mp hts t ht)
  have hts'' : (UOp.sortCols ts).subset S.skipTo.columns = true :=
    (Cols.subset_iff _ _).mpr fun t ht => hS.cols_sub t ((Cols.subset_iff _ _).mp hts t ht)
  by_cases hsl : S.slots.hasSlice = true
  · simp only [hsl, if_true, bind, Except.bind, pure, Except.pure] at h
    cases ha : applySkip S { sort := ts } with
    | error e => simp [ha] at h
    | ok r =>
      simp only [ha] at h
      injection h with h; subst h
      obtain ⟨ok, hk, hs⟩ := applySkip_selOK σ S { sort := ts } r hS.wf hS.truthful
        ⟨hts, fun c hc => by cases hc⟩ (fun _ => rfl) ha
      simp only [Res.get]
      refine ⟨⟨ok, ?_, ?_, by rw [ok.engine, hk]⟩, skipOK_self σ S _ hk (Or.inl (applySkip_oid _ _ _ ha))⟩
      · rw [ok.sem_eq, hk, hs]
        simp only [Slots.sem, sortIf]
        rfl
      · intro c; rw [ok.cols c, hk, hs]; rfl
  · simp only [hsl, Bool.false_eq_true, if_false] at h
    simp only [Bool.not_eq_true] at hsl
    have hcp : isChain S.skipTo = true → S.slots.proj = none :=
      fun hc => hS.compoundProj (by rw [hS.compound]; exact hc)
    split at h
    · -- sort a subquery wrapping the UNION
      rename_i hc
      simp only [Bool.and_eq_true] at hc
      have hpn : S.slots.proj = none := hS.compoundProj hc.1
      simp only [bind, Except.bind, pure, Except.pure] at h
      cases hsub : reapplySkip S none none (some { S.slots with sort := [] }) with
      | error e => simp [hsub] at h
      | ok sub =>
        simp only [hsub] at h
        have hw : ({ S.slots with sort := [] } : Slots).wfOn S.skipTo.columns :=
          ⟨by simp [UOp.sortCols, Cols.subset_iff], hS.slotsWF.2⟩
        obtain ⟨r0, hr0, ok0, hk0, hs0⟩ := reapplySkip_kw σ S _ sub hS hw hcp hsub
        subst hr0
        simp only [Res.get] at h
        cases ha : applySkip r0 { sort := UOp.sortThen S.slots.sort ts } with
        | error e => simp [ha] at h
        | ok r =>
          simp only [ha] at h
          injection h with h; subst h
          have hc0 : ∀ x, x ∈ r0.columns ↔ x ∈ S.skipTo.columns := by
            intro x
            rw [ok0.cols x, hs0, hk0]
            simp only [Slots.columns, hpn]
          have hwn : ({ sort := UOp.sortThen S.slots.sort ts } : Slots).wfOn r0.columns := by
            refine ⟨?_, fun c hc => by cases hc⟩
            apply sortCols_sortThen
            · exact (Cols.subset_iff _ _).mpr fun t ht => (hc0 t).mpr ((Cols.subset_iff _ _).mp hS.slotsWF.1 t ht)
            · exact (Cols.subset_iff _ _).mpr fun t ht => (hc0 t).mpr ((Cols.subset_iff _ _).mp hts'' t ht)
          obtain ⟨ok, hk, hs⟩ := applySkip_selOK σ r0 _ r ok0.wf ok0.truthful hwn (fun _ => rfl) ha
          simp only [Res.get]
          refine ⟨⟨ok, ?_, ?_, by rw [ok.engine, hk, ok0.engine, hk0]; exact hS.engine.symm⟩, skipOK_sub σ S _ r0 hk ok0 hk0 (reapplySkip_fresh _ _ _ _ _ hsub) (Or.inl (applySkip_oid _ _ _ ha))⟩
          · rw [ok.sem_eq, hk, hs, ok0.sem_eq, hs0, hk0, hS.sem_eq]
            rw [Slots.sem_sortOnly, Slots.sem_simple S.slots _ _ hpn hsl,
              Slots.sem_simple ({ S.slots with sort := [] } : Slots) _ _ hpn hsl]
            simp only [isort_sortThen, isort_lexLe_nil, UOp.sem]
            cases S.slots.dedup with
            | false => rfl
            | true =>
              simp only [if_true]
              rw [sort_dedup _ _ _ hS.skipRows]
          · intro c
            rw [ok.cols c, hk, hs]
            show c ∈ r0.columns ↔ c ∈ S.columns
            rw [hc0 c, hS.cols c]
            simp only [Slots.columns, hpn]
    · have hw : ({ S.slots with sort := UOp.sortThen S.slots.sort ts } : Slots).wfOn S.skipTo.columns :=
        ⟨sortCols_sortThen _ _ _ hS.slotsWF.1 hts'', hS.slotsWF.2⟩
      obtain ⟨r, hr, ok, hk, hs⟩ := reapplySkip_kw σ S _ res hS hw hcp h
      subst hr
      simp only [Res.get]
      refine ⟨⟨ok, ?_, ?_, by rw [ok.engine, hk]; exact hS.engine.symm⟩, skipOK_same σ S _ hk (reapplySkip_fresh _ _ _ _ _ h)⟩
      · rw [ok.sem_eq, hs, hk, hS.sem_eq]
        exact slots_sort S.slots S.skipTo.columns ts _ hS.skipRows hS.slotsWF hts' hsl
      · intro c
        rw [ok.cols c, hs, hk]
        exact (hS.cols c).symm

end DafRel

namespace DafRel

variable {I : NodeInv}

theorem Row.restrict_congr (r : Row) (c1 c2 : Cols) (h : ∀ x, x ∈ c1 ↔ x ∈ c2) : r.restrict c1 = r.restrict c2 := by
  funext u
  unfold Row.restrict
  by_cases hu : u ∈ c1
  · simp [hu, (h u).mp hu]
  · have hu2 : u ∉ c2 := fun h2 => hu ((h u).mpr h2)
    simp [hu, hu2]

theorem finishApply_calc_not_chain (tag : Tag) (e : Expr) (t : Rel) (k : Rel)
    (h : (UOp.calc tag e).finishApply t = .ok (.new k)) : isChain k = false := by
  cases t <;>
    (simp only [UOp.finishApply, UOp.noopOn, UOp.simplify, UOp.construct, Bool.false_eq_true, if_false] at h
     split at h
     · cases h
     · injection h with h; injection h with h; subst h; rfl)

/-- A calculation below the slots = the calculation above them (the projection, if any, keeps the
new column). -/
theorem slots_calc (sl sl' : Slots) (cols : Cols) (tag : Tag) (e : Expr) (l : List Row) (hl : RowsHaveCols l cols)
    (hsl : sl.wfOn cols) (htag : tag ∉ cols) (he : e.columnsRequired.subset (sl.columns cols) = true)
    (h1 : sl'.sort = sl.sort) (h2 : sl'.dedup = sl.dedup) (h3 : sl'.sliceStart = sl.sliceStart)
    (h4 : sl'.sliceStop = sl.sliceStop)
    (hp : match sl.proj with
      | none => sl'.proj = none
      | some c => ∃ c', sl'.proj = some c' ∧ ∀ x, x ∈ c' ↔ x ∈ c.insert tag) :
    sl'.sem (cols.insert tag) (l.map (fun r => r.set tag (e.val r))) =
      (sl.sem cols l).map (fun r => r.set tag (e.val r)) := by
  unfold Slots.sem
  simp only [h1, h2, h3, h4, sortIf]
  -- sort
  have hs : isort (lexLe sl.sort) (l.map (fun r => r.set tag (e.val r))) =
      (isort (lexLe sl.sort) l).map (fun r => r.set tag (e.val r)) := by
    apply isort_map
    intro a b _ _
    apply lexLe_congr
    · intro t ht
      exact Expr.val_set t.expr a tag _ (fun hm => htag ((Cols.subset_iff _ _).mp
        (sortCols_subset_term sl.sort cols hsl.1 t ht) tag hm))
    · intro t ht
      exact Expr.val_set t.expr b tag _ (fun hm => htag ((Cols.subset_iff _ _).mp
        (sortCols_subset_term sl.sort cols hsl.1 t ht) tag hm))
  rw [hs]
  generalize hx : isort (lexLe sl.sort) l = x
  have hxc : RowsHaveCols x cols := by rw [← hx]; exact rowsHaveCols_isort hl
  -- the rest, by cases on the projection
  cases hpj : sl.proj with
  | none =>
    simp only [hpj] at hp
    simp only [Slots.columns, hp, hpj] at he ⊢
    have hd : firstOcc (cols.insert tag) (x.map (fun r => r.set tag (e.val r))) =
        (firstOcc cols x).map (fun r => r.set tag (e.val r)) := calc_dedup cols tag e x hxc htag
    cases sl.dedup with
    | false =>
      simp only [Bool.false_eq_true, if_false]
      split
      · exact sliceList_map _ _ _ _
      · rfl
    | true =>
      simp only [if_true, hd]
      split
      · exact sliceList_map _ _ _ _
      · rfl
  | some c =>
    simp only [hpj] at hp
    obtain ⟨c', hc', hcc⟩ := hp
    simp only [Slots.columns, hc', hpj] at he ⊢
    have hcs : ∀ t, t ∈ c → t ∈ cols := (Cols.subset_iff _ _).mp (hsl.2 c hpj)
    have htc : tag ∉ c := fun hm => htag (hcs tag hm)
    have hm : (x.map (fun r => r.set tag (e.val r))).map (fun r => r.restrict c') =
        (x.map (fun r => r.restrict c)).map (fun r => r.set tag (e.val r)) := by
      rw [List.map_map, List.map_map]
      apply List.map_congr_left
      intro r _
      simp only [Function.comp]
      rw [Row.restrict_congr _ c' (c.insert tag) hcc, Row.set_restrict_insert, Expr.val_restrict e r c he]
    rw [hm]
    have hyc : RowsHaveCols (x.map (fun r => r.restrict c)) c := rowsHaveCols_restrict hxc hcs
    have hd : firstOcc c' ((x.map (fun r => r.restrict c)).map (fun r => r.set tag (e.val r))) =
        (firstOcc c (x.map (fun r => r.restrict c))).map (fun r => r.set tag (e.val r)) := by
      rw [firstOcc_congr c' (c.insert tag) hcc]
      exact calc_dedup c tag e _ hyc htc
    cases sl.dedup with
    | false =>
      simp only [Bool.false_eq_true, if_false]
      split
      · exact sliceList_map _ _ _ _
      · rfl
    | true =>
      simp only [if_true, hd]
      split
      · exact sliceList_map _ _ _ _
      · rfl

end DafRel

namespace DafRel

variable {I : NodeInv}

/-- `Calculation` appended to a Select. -/
theorem append_calc_sound (σ : Leaves) (st : Store) (fuel : Nat) (tag : Tag) (e : Expr) (S : Rel) (res : Res)
    (hS : SelOK σ S) (hop : (UOp.calc tag e).wfOn S.columns = true)
    (h : appendUnarySel st (fuel+1) (.u (.calc tag e)) S = .ok res) :
    AppendOK σ (.calc tag e) S (res.get S) ∧ SkipOK I σ S (res.get S) := by
  rw [appendUnarySel] at h
  by_cases hb : (S.isCompound || decide (tag ∈ S.skipTo.columns)) = true
  · simp only [hb, if_true] at h
    refine nestOverSelect_sound σ (.calc tag e) S hS hop rfl
      (fun t ht => (Cols.mem_insert _ _ _).mpr (Or.inl ht)) ?_ res h st fuel
    intro hsc l _
    simp only [UOp.sem]
    have htag : tag ∉ S.columns := by
      simp only [UOp.wfOn, UOp.columnsRequired, Bool.and_eq_true, decide_eq_true_eq] at hop
      exact hop.2
    symm
    apply isort_map
    intro a b _ _
    apply lexLe_congr
    · intro t ht
      exact Expr.val_set t.expr a tag _ (fun hm => htag ((Cols.subset_iff _ _).mp
        (sortCols_subset_term S.slots.sort S.columns hsc t ht) tag hm))
    · intro t ht
      exact Expr.val_set t.expr b tag _ (fun hm => htag ((Cols.subset_iff _ _).mp
        (sortCols_subset_term S.slots.sort S.columns hsc t ht) tag hm))
  · simp only [hb, Bool.false_eq_true, if_false] at h
    simp only [Bool.or_eq_true, not_or, Bool.not_eq_true, decide_eq_true_eq] at hb
    obtain ⟨hcomp, htag⟩ := hb
    have hchain : isChain S.skipTo = false := by rw [← hS.compound]; exact hcomp
    simp only [UOp.wfOn, UOp.columnsRequired, Bool.and_eq_true, decide_eq_true_eq] at hop
    have hreq : e.columnsRequired.subset (S.slots.columns S.skipTo.columns) = true :=
      (Cols.subset_iff _ _).mpr fun t ht => (hS.cols t).mp ((Cols.subset_iff _ _).mp hop.1 t ht)
    have hop' : (UOp.calc tag e).wfOn S.skipTo.columns = true := by
      simp only [UOp.wfOn, UOp.columnsRequired, Bool.and_eq_true, decide_eq_true_eq]
      exact ⟨(Cols.subset_iff _ _).mpr fun t ht => hS.cols_sub t ((Cols.subset_iff _ _).mp hop.1 t ht), htag⟩
    have hnc : ∀ (sl : Slots) k, (UOp.calc tag e).finishApply S.skipTo = .ok (.new k) → isChain k = true →
        sl.proj = none := by
      intro sl k hk hc
      rw [finishApply_calc_not_chain tag e _ k hk] at hc
      cases hc
    have hins : ∀ t, t ∈ S.skipTo.columns → t ∈ S.skipTo.columns.insert tag :=
      fun t ht => (Cols.mem_insert _ _ _).mpr (Or.inl ht)
    by_cases hpj : S.slots.hasProj = true
    · simp only [hpj, if_true] at h
      obtain ⟨c, hc⟩ := Option.isSome_iff_exists.mp hpj
      have hSc : ∀ x, x ∈ S.columns ↔ x ∈ c := by
        intro x; rw [hS.cols x]; simp only [Slots.columns, hc]
      have hw : (Option.getD (some ({ S.slots with proj := some (S.columns.insert tag) } : Slots)) S.slots).wfOn
          ((UOp.calc tag e).appliedColumns S.skipTo.columns) := by
        refine ⟨(Cols.subset_iff _ _).mpr fun t ht => hins t ((Cols.subset_iff _ _).mp hS.slotsWF.1 t ht), ?_⟩
        intro c0 hc0
        simp only [Option.getD] at hc0
        injection hc0 with hc0
        subst hc0
        refine (Cols.subset_iff _ _).mpr fun t ht => ?_
        rcases (Cols.mem_insert _ _ _).mp ht with h1 | h1
        · exact hins t (hS.cols_sub t h1)
        · exact (Cols.mem_insert _ _ _).mpr (Or.inr h1)
      obtain ⟨ok, F, hs, inner, hfi, hki⟩ := reapplySkip_after σ S (.calc tag e) _ res hS hop' hw (hnc _)
        (fun hc => by rw [hchain] at hc; cases hc) h
      simp only [Option.getD] at hs
      have hcols : ∀ x, x ∈ (res.get S).skipTo.columns ↔ x ∈ S.skipTo.columns.insert tag := F.cols
      refine ⟨⟨ok, ?_, ?_, by rw [ok.engine, F.engine]; exact hS.engine.symm⟩, skipOK_after σ S _ (.calc tag e) inner hop' rfl hchain hfi hki (reapplySkip_fresh _ _ _ _ _ h)⟩
      · rw [ok.sem_eq, hs, Slots.sem_congr _ _ _ hcols, F.sem_eq, hS.sem_eq]
        apply slots_calc S.slots ({ S.slots with proj := some (S.columns.insert tag) } : Slots)
          S.skipTo.columns tag e _ hS.skipRows hS.slotsWF htag hreq rfl rfl rfl rfl
        simp only [hc]
        refine ⟨_, rfl, fun x => ?_⟩
        simp only [Cols.mem_insert, hSc x]
      · intro x
        rw [ok.cols x, hs]
        simp only [Slots.columns]
        rfl
    · simp only [hpj, Bool.false_eq_true, if_false] at h
      have hpn : S.slots.proj = none := by
        simpa [Slots.hasProj] using hpj
      have hw : (Option.getD none S.slots).wfOn ((UOp.calc tag e).appliedColumns S.skipTo.columns) :=
        Slots.wfOn_congr _ _ _ hins hS.slotsWF
      obtain ⟨ok, F, hs, inner, hfi, hki⟩ := reapplySkip_after σ S (.calc tag e) none res hS hop' hw (hnc _)
        (fun hc => by rw [hchain] at hc; cases hc) h
      simp only [Option.getD] at hs
      have hcols : ∀ x, x ∈ (res.get S).skipTo.columns ↔ x ∈ S.skipTo.columns.insert tag := F.cols
      refine ⟨⟨ok, ?_, ?_, by rw [ok.engine, F.engine]; exact hS.engine.symm⟩, skipOK_after σ S _ (.calc tag e) inner hop' rfl hchain hfi hki (reapplySkip_fresh _ _ _ _ _ h)⟩
      · rw [ok.sem_eq, hs, Slots.sem_congr _ _ _ hcols, F.sem_eq, hS.sem_eq]
        apply slots_calc S.slots S.slots S.skipTo.columns tag e _ hS.skipRows hS.slotsWF htag hreq rfl rfl rfl rfl
        simp only [hpn]
      · intro x
        rw [ok.cols x, hs, Slots.columns_congr _ _ _ hcols x]
        simp only [Slots.columns, hpn, UOp.appliedColumns, Cols.mem_insert]
        rw [hS.cols x]
        simp only [Slots.columns, hpn]

end DafRel

namespace DafRel

variable {I : NodeInv}

theorem map_restrict_restrict (l : List Row) (c c0 : Cols) (h : ∀ t, t ∈ c → t ∈ c0) :
    (l.map (fun r => r.restrict c0)).map (fun r => r.restrict c) = l.map (fun r => r.restrict c) := by
  rw [List.map_map]
  apply List.map_congr_left
  intro r _
  exact Row.restrict_restrict r c c0 h

/-- A projection after the slots (no deduplication recorded) = the slots with that projection. -/
theorem slots_proj (sl : Slots) (cols c : Cols) (l : List Row) (hd : sl.dedup = false)
    (hc : ∀ t, t ∈ c → t ∈ sl.columns cols) :
    ({ sl with proj := some c } : Slots).sem cols l = (sl.sem cols l).map (fun r => r.restrict c) := by
  unfold Slots.sem
  simp only [hd, Bool.false_eq_true, if_false, sortIf]
  cases hp : sl.proj with
  | none =>
    simp only
    split
    · exact sliceList_map _ _ _ _
    · rfl
  | some c0 =>
    simp only [Slots.columns, hp] at hc
    simp only
    rw [← map_restrict_restrict _ c c0 hc]
    split
    · exact sliceList_map _ _ _ _
    · rfl

theorem sliceIf_map (cond : Bool) (a : Nat) (b : Option Nat) (c : Cols) (x y : List Row) (h : x = y) :
    (if cond = true then sliceList a b (x.map (fun r => r.restrict c)) else x.map (fun r => r.restrict c)) =
      (if cond = true then sliceList a b y else y).map (fun r => r.restrict c) := by
  subst h
  split
  · exact sliceList_map _ _ _ _
  · rfl

/-- The nested form of a projection: an inner Select keeps the projection and deduplication, an
outer one sorts, projects and slices. -/
theorem slots_proj_nest (sl : Slots) (cols cols' c : Cols) (l : List Row) (hl : RowsHaveCols l cols)
    (hsl : sl.wfOn cols) (hsort : (UOp.sortCols sl.sort).subset (sl.columns cols) = true) :
    ({ sort := sl.sort, proj := some c, sliceStart := sl.sliceStart, sliceStop := sl.sliceStop } : Slots).sem cols'
        (({ sl with sort := [], sliceStart := 0, sliceStop := none } : Slots).sem cols l) =
      (sl.sem cols l).map (fun r => r.restrict c) := by
  unfold Slots.sem
  simp only [sortIf, isort_lexLe_nil, bne_self_eq_false, Option.isSome_none, Bool.or_false, Bool.false_eq_true,
    if_false, Slots.columns]
  cases hp : sl.proj with
  | none =>
    simp only
    cases sl.dedup with
    | false => exact sliceIf_map _ _ _ _ _ _ rfl
    | true =>
      simp only [if_true]
      exact sliceIf_map _ _ _ _ _ _ (sort_dedup cols sl.sort l hl).symm
  | some c0 =>
    simp only [Slots.columns, hp] at hsort
    simp only
    have hcs : ∀ t, t ∈ c0 → t ∈ cols := (Cols.subset_iff _ _).mp (hsl.2 c0 hp)
    cases sl.dedup with
    | false => exact sliceIf_map _ _ _ _ _ _ (isort_restrict sl.sort c0 hsort l)
    | true =>
      simp only [if_true]
      apply sliceIf_map
      rw [← isort_restrict sl.sort c0 hsort l]
      exact (sort_dedup c0 sl.sort _ (rowsHaveCols_restrict hl hcs)).symm

end DafRel

namespace DafRel

variable {I : NodeInv}

theorem Slots.sem_pushed (sl : Slots) (cols cols' c : Cols) (l : List Row) (hd : sl.dedup = false)
    (hsort : (UOp.sortCols sl.sort).subset c = true) :
    ({ sl with proj := none } : Slots).sem cols' (l.map (fun r => r.restrict c)) =
      ({ sl with proj := some c } : Slots).sem cols l := by
  unfold Slots.sem
  simp only [hd, Bool.false_eq_true, if_false, sortIf]
  rw [isort_restrict sl.sort c hsort l]

/-- The nested form of a projection (see `slots_proj_nest`). -/
theorem proj_nest_sound (σ : Leaves) (S : Rel) (c : Cols) (hS : SelOK σ S) (hc : c.subset S.columns = true)
    (hsort : (UOp.sortCols S.slots.sort).subset S.columns = true) (sub : Res)
    (hsub : reapplySkip S none none
      (some ({ S.slots with sort := [], sliceStart := 0, sliceStop := none } : Slots)) = .ok sub)
    (r : Rel)
    (hr : applySkip (sub.get S)
      ({ sort := S.slots.sort, proj := some c, sliceStart := S.slots.sliceStart, sliceStop := S.slots.sliceStop } : Slots)
        = .ok r) (st : Store) (fuel : Nat) : AppendOK σ (.proj c) S r ∧ SkipOK I σ S r := by
  have hcp : isChain S.skipTo = true → S.slots.proj = none :=
    fun hc => hS.compoundProj (by rw [hS.compound]; exact hc)
  have hw : ({ S.slots with sort := [], sliceStart := 0, sliceStop := none } : Slots).wfOn S.skipTo.columns :=
    ⟨by simp [UOp.sortCols, Cols.subset_iff], hS.slotsWF.2⟩
  obtain ⟨r0, hr0, ok0, hk0, hs0⟩ := reapplySkip_kw σ S _ sub hS hw hcp hsub
  subst hr0
  simp only [Res.get] at hr
  have hc0 : ∀ x, x ∈ r0.columns ↔ x ∈ S.columns := by
    intro x
    rw [ok0.cols x, hs0, hk0, hS.cols x]
    rfl
  have hwn : (⟨S.slots.sort, some c, false, S.slots.sliceStart, S.slots.sliceStop⟩ : Slots).wfOn r0.columns := by
    refine ⟨(Cols.subset_iff _ _).mpr fun t ht => (hc0 t).mpr ((Cols.subset_iff _ _).mp hsort t ht), ?_⟩
    intro c1 hc1
    injection hc1 with hc1
    subst hc1
    exact (Cols.subset_iff _ _).mpr fun t ht => (hc0 t).mpr ((Cols.subset_iff _ _).mp hc t ht)
  obtain ⟨ok, hk, hs⟩ := applySkip_selOK σ r0 _ r ok0.wf ok0.truthful hwn
    (fun h => by
      have : isChain r0 = false := by
        have := ok0.isSel
        cases r0 <;> simp_all [Rel.isSelect, isChain]
      rw [this] at h; cases h) hr
  have hsort' : (UOp.sortCols S.slots.sort).subset (S.slots.columns S.skipTo.columns) = true :=
    (Cols.subset_iff _ _).mpr fun t ht => (hS.cols t).mp ((Cols.subset_iff _ _).mp hsort t ht)
  refine ⟨⟨ok, ?_, ?_, by rw [ok.engine, hk, ok0.engine, hk0]; exact hS.engine.symm⟩, skipOK_sub σ S _ r0 hk ok0 hk0 (reapplySkip_fresh _ _ _ _ _ hsub) (Or.inl (applySkip_oid _ _ _ hr))⟩
  · rw [ok.sem_eq, hk, hs, ok0.sem_eq, hs0, hk0, hS.sem_eq]
    exact slots_proj_nest S.slots S.skipTo.columns _ c _ hS.skipRows hS.slotsWF hsort'
  · intro x
    rw [ok.cols x, hs]
    rfl

end DafRel

namespace DafRel

variable {I : NodeInv}

theorem reapplySkip_newSkip (S k : Rel) (sl' : Slots) (res : Res)
    (h : reapplySkip S (some k) none (some sl') = .ok res) : ∃ r, applySkip k sl' = .ok r ∧ res = .new r := by
  unfold reapplySkip at h
  simp only [bind, Except.bind, pure, Except.pure, Res.get, Option.getD] at h
  cases ha : applySkip k sl' with
  | error e => simp [ha] at h
  | ok r =>
    simp only [ha] at h
    injection h with h
    exact ⟨r, rfl, h.symm⟩

/-- `Projection` appended to a Select.  `hpush`: what applying the projection to the branches of a
UNION achieves (the recursive call of the engine; discharged by the induction over the whole
tree-building recursion). -/
theorem append_proj_sound (σ : Leaves) (st : Store) (fuel : Nat) (c : Cols) (S : Rel) (res : Res)
    (hS : SelOK σ S) (hop : (UOp.proj c).wfOn S.columns = true)
    (hpush : ∀ l r cc, S.skipTo = .binary .chain l r cc → ∀ x res', (x = l ∨ x = r) →
      applyOp st fuel (.u (.proj c)) x {} = .ok res' →
      Good I σ (res'.get x) ∧ FinishOK σ (.proj c) x (res'.get x) ∧ (res'.get x).isSelect = true)
    (h : appendUnarySel st (fuel+1) (.u (.proj c)) S = .ok res) :
    AppendOK σ (.proj c) S (res.get S) ∧ SkipOK I σ S (res.get S) := by
  rw [appendUnarySel] at h
  have hc : c.subset S.columns = true := by simpa [UOp.wfOn, UOp.columnsRequired] using hop
  have hcp : isChain S.skipTo = true → S.slots.proj = none :=
    fun hc => hS.compoundProj (by rw [hS.compound]; exact hc)
  by_cases hd : S.slots.dedup = true
  · rw [if_pos hd] at h
    simp only [bind, Except.bind, pure, Except.pure] at h
    by_cases hso : (UOp.sortCols S.slots.sort).subset S.columns = true
    · simp only [hso, Bool.not_true, Bool.false_eq_true, if_false] at h
      cases hsub : reapplySkip S none none
          (some ({ S.slots with sort := [], sliceStart := 0, sliceStop := none } : Slots)) with
      | error e => simp [hsub] at h
      | ok sub =>
        simp only [hsub] at h
        cases ha : applySkip (sub.get S) (⟨S.slots.sort, some c, false, S.slots.sliceStart, S.slots.sliceStop⟩ : Slots) with
        | error e => simp [ha] at h
        | ok r =>
          simp only [ha] at h
          injection h with h; subst h
          exact proj_nest_sound σ S c hS hc hso sub hsub r ha st fuel
    · simp only [hso, Bool.not_false, if_true] at h
      by_cases hsl : S.slots.hasSlice = true
      · simp only [hsl, if_true] at h
        cases ha : applySkip S { proj := some c } with
        | error e => simp [ha] at h
        | ok r =>
          simp only [ha] at h
          injection h with h; subst h
          have hw : ({ proj := some c } : Slots).wfOn S.columns :=
            ⟨by simp [UOp.sortCols, Cols.subset_iff], fun c1 hc1 => by injection hc1 with hc1; subst hc1; exact hc⟩
          have hns : isChain S = false := by
            have := hS.isSel
            cases S <;> simp_all [Rel.isSelect, isChain]
          obtain ⟨ok, hk, hs⟩ := applySkip_selOK σ S _ r hS.wf hS.truthful hw
            (fun h => by rw [hns] at h; cases h) ha
          simp only [Res.get]
          refine ⟨⟨ok, ?_, ?_, by rw [ok.engine, hk]⟩, skipOK_self σ S _ hk (Or.inl (applySkip_oid _ _ _ ha))⟩
          · rw [ok.sem_eq, hk, hs]
            simp [Slots.sem, UOp.sem]
          · intro x; rw [ok.cols x, hs]; rfl
      · simp only [hsl, Bool.false_eq_true, if_false] at h
        simp [throw, throwThe, MonadExceptOf.throw] at h
  · rw [if_neg hd] at h
    simp only [Bool.not_eq_true] at hd
    have hcsl : ∀ t, t ∈ c → t ∈ S.slots.columns S.skipTo.columns :=
      fun t ht => (hS.cols t).mp ((Cols.subset_iff _ _).mp hc t ht)
    have plain : ∀ res, reapplySkip S none none (some ({ S.slots with proj := some c } : Slots)) = .ok res →
        isChain S.skipTo = false → AppendOK σ (.proj c) S (res.get S) ∧ SkipOK I σ S (res.get S) := by
      intro res h hnc
      have hw : ({ S.slots with proj := some c } : Slots).wfOn S.skipTo.columns := by
        refine ⟨hS.slotsWF.1, ?_⟩
        intro c1 hc1
        injection hc1 with hc1
        subst hc1
        exact (Cols.subset_iff _ _).mpr fun t ht => Slots.columns_sub _ _ hS.slotsWF t (hcsl t ht)
      obtain ⟨r, hr, ok, hk, hs⟩ := reapplySkip_kw σ S _ res hS hw (fun h => by rw [hnc] at h; cases h) h
      subst hr
      simp only [Res.get]
      refine ⟨⟨ok, ?_, ?_, by rw [ok.engine, hk]; exact hS.engine.symm⟩, skipOK_same σ S _ hk (reapplySkip_fresh _ _ _ _ _ h)⟩
      · rw [ok.sem_eq, hs, hk, hS.sem_eq]
        exact slots_proj S.slots S.skipTo.columns c _ hd hcsl
      · intro x; rw [ok.cols x, hs]; rfl
    cases hk : S.skipTo with
    | binary bop l r cc =>
      cases bop with
      | chain =>
        simp only [hk] at h
        have hchain : isChain S.skipTo = true := by rw [hk]; rfl
        have hpn : S.slots.proj = none := hcp hchain
        have hScols : ∀ x, x ∈ S.columns ↔ x ∈ S.skipTo.columns := by
          intro x; rw [hS.cols x]; simp only [Slots.columns, hpn]
        by_cases hso : (UOp.sortCols S.slots.sort).subset c = true
        · simp only [hso, Bool.not_true, Bool.false_eq_true, if_false, bind, Except.bind, pure, Except.pure] at h
          cases hl : applyOp st fuel (.u (.proj c)) l {} with
          | error e => simp [hl] at h
          | ok nl =>
            cases hr : applyOp st fuel (.u (.proj c)) r {} with
            | error e => simp [hl, hr] at h
            | ok nr =>
              simp only [hl, hr] at h
              obtain ⟨Gl, Fl, sl⟩ := hpush l r cc hk l nl (Or.inl rfl) hl
              obtain ⟨Gr, Fr, sr⟩ := hpush l r cc hk r nr (Or.inr rfl) hr
              -- the new skip target
              have hwfk : (Rel.binary .chain (nl.get l) (nr.get r) (nl.get l).columns).WF :=
                ⟨Fl.wf, Fr.wf, rfl, fun t => (Fl.cols t).trans (Fr.cols t).symm⟩
              have htrk : (Rel.binary .chain (nl.get l) (nr.get r) (nl.get l).columns).Truthful σ :=
                ⟨Fl.truthful, Fr.truthful⟩
              have hkc : ∀ t, t ∈ (Rel.binary .chain (nl.get l) (nr.get r) (nl.get l).columns).columns ↔ t ∈ c :=
                fun t => Fl.cols t
              obtain ⟨r1, ha, hres⟩ := reapplySkip_newSkip _ _ _ _ h
              subst hres
              · have hw : ({ S.slots with proj := none } : Slots).wfOn
                    (Rel.binary .chain (nl.get l) (nr.get r) (nl.get l).columns).columns :=
                  ⟨(Cols.subset_iff _ _).mpr fun t ht => (hkc t).mpr ((Cols.subset_iff _ _).mp hso t ht),
                    fun c1 hc1 => by cases hc1⟩
                obtain ⟨ok, hk1, hs⟩ := applySkip_selOK σ _ _ r1 hwfk htrk hw (fun _ => rfl) ha
                simp only [Res.get]
                refine ⟨⟨ok, ?_, ?_, by rw [ok.engine, hk1, hS.engine, hk]; exact Fl.engine⟩, fun _ _ => by
                  rw [hk1]
                  exact ⟨Good.chain _ _ _ Gl Gr hwfk, by simp [Rel.compOK, sl, sr, Gl.compOK sl false, Gr.compOK sr false],
                    I.selNew r1 (applySkip_oid _ _ _ ha)⟩⟩
                · rw [ok.sem_eq, hk1, hs, hS.sem_eq, hk]
                  have hsem : sem σ (Rel.binary .chain (nl.get l) (nr.get r) (nl.get l).columns) =
                      (sem σ (Rel.binary .chain l r cc)).map (fun r => r.restrict c) := by
                    simp only [sem, List.map_append]
                    rw [Fl.sem_eq, Fr.sem_eq]
                    rfl
                  rw [hsem, Slots.sem_pushed S.slots (Rel.binary .chain l r cc).columns _ c _ hd hso]
                  rw [← hk]
                  exact slots_proj S.slots S.skipTo.columns c _ hd hcsl
                · intro x
                  rw [ok.cols x, hs, hk1]
                  exact hkc x
        · simp only [hso, Bool.not_false, if_true, bind, Except.bind, pure, Except.pure] at h
          have hso' : (UOp.sortCols S.slots.sort).subset S.columns = true :=
            (Cols.subset_iff _ _).mpr fun t ht => (hScols t).mpr ((Cols.subset_iff _ _).mp hS.slotsWF.1 t ht)
          cases hsub : reapplySkip S none none
              (some ({ S.slots with sort := [], sliceStart := 0, sliceStop := none } : Slots)) with
          | error e => simp [hsub] at h
          | ok sub =>
            simp only [hsub] at h
            cases ha : applySkip (sub.get S) (⟨S.slots.sort, some c, false, S.slots.sliceStart, S.slots.sliceStop⟩ : Slots) with
            | error e => simp [ha] at h
            | ok r =>
              simp only [ha] at h
              injection h with h; subst h
              exact proj_nest_sound σ S c hS hc hso' sub hsub r ha st fuel
      | join j => simp only [hk] at h; exact plain res h (by rw [hk]; rfl)
      | ignoreOne il => simp only [hk] at h; exact plain res h (by rw [hk]; rfl)
    | _ => simp only [hk] at h; exact plain res h (by rw [hk]; rfl)

end DafRel

namespace DafRel

variable {I : NodeInv}

/-- **`_append_unary_to_select` is sound** for each of the seven concrete operations: the Select it
returns is coherent and has the rows and columns of the operation applied to the given Select.
`hpush`: the projection pushed into the branches of a
UNION does its job there (the recursive call of `apply`; discharged by the induction over the whole
tree-building recursion in `ConformSound`). -/
theorem appendUnarySel_sound (σ : Leaves) (st : Store) (fuel : Nat) (op : UOp) (S : Rel) (res : Res)
    (hS : SelOK σ S) (hop : op.wfOn S.columns = true)
    (hpush : ∀ c, op = .proj c → ∀ l r cc, S.skipTo = .binary .chain l r cc → ∀ x res', (x = l ∨ x = r) →
      applyOp st fuel (.u (.proj c)) x {} = .ok res' →
      Good I σ (res'.get x) ∧ FinishOK σ (.proj c) x (res'.get x) ∧ (res'.get x).isSelect = true)
    (h : appendUnarySel st (fuel+1) (.u op) S = .ok res) :
    AppendOK σ op S (res.get S) ∧ SkipOK I σ S (res.get S) := by
  cases op with
  | «calc» tag e => exact append_calc_sound σ st fuel tag e S res hS hop h
  | dedup => exact append_dedup_sound σ st fuel S res hS h
  | identity =>
    rw [appendUnarySel] at h
    injection h with h; subst h
    exact ⟨⟨hS, rfl, fun _ => Iff.rfl, rfl⟩, skipOK_same σ S _ rfl (Or.inr rfl)⟩
  | proj c => exact append_proj_sound σ st fuel c S res hS hop (hpush c rfl) h
  | sel p => exact append_sel_sound σ st fuel p S res hS hop (fun k hk => sel_finish_not_chain _ p k hk) h
  | slice a b => exact append_slice_sound σ st fuel a b S res hS h
  | sort ts => exact append_sort_sound σ st fuel ts S res hS hop h

end DafRel
