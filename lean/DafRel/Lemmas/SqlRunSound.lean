/-
From the compile-correctness induction to the entry point `sqlRun` (conform, compile, evaluate):
the payload of a plain table is faithful; the hypotheses of the induction split into a decidable part
(`Rel.structReady`, reported by the driver on every `sqlexec`) and the faithfulness of the payloads held by
leaves and processed markers.
-/
import DafRel.Lemmas.SqlCompileSound
import DafRel.Lemmas.SqlHistory

namespace DafRel

variable {I : NodeInv}

theorem lookup_tableAvail (name : String) (cols : Cols) (t : Tag) :
    SqlPayload.lookup (cols.map (fun t => (t, SqlExpr.col name t))) t =
      if t ∈ cols then some (SqlExpr.col name t) else none := by
  unfold SqlPayload.lookup
  induction cols with
  | nil => simp
  | cons c cs ih =>
    simp only [List.map_cons, List.find?_cons]
    by_cases hc : c = t
    · subst hc; simp
    · have : (c == t) = false := by simpa using hc
      simp only [this]
      rw [ih]
      have hne : ¬ t = c := fun h => hc h.symm
      simp [hne]

/-- **A table stands for the rows stored in it.** -/
theorem tablePayload_paySem (tables : List (List Row)) (name : String) (uid idx : Nat) (cols : Cols)
    (rows : List Row) (htab : tables.getD idx [] = rows) (hr : RowsHaveCols rows cols) :
    PaySem tables (tablePayload name uid idx cols) rows cols := by
  refine ⟨?_, ?_, ?_, ?_⟩
  · unfold payEnvs tablePayload
    have hf : ∀ l : List PEnv, l.filter (fun e => SqlPred.evalAll e ([] : List SqlPred)) = l := by
      intro l; simp [SqlPred.evalAll]
    simp only [From.envs, htab, hf, List.map_map]
    symm
    have : rows.map id = rows := List.map_id _
    conv => rhs; rw [← this]
    apply List.map_congr_left
    intro r hrm
    funext t
    simp only [Function.comp, rowOf, lookup_tableAvail, id]
    by_cases ht : t ∈ cols
    · simp [ht, SqlExpr.eval, rowEnv]
    · simp only [ht, if_false]
      have := (hr r hrm t)
      cases hrt : r t with
      | none => rfl
      | some v => exact absurd (this.mp (by simp [hrt])) ht
  · intro t; unfold tablePayload; simp only; rw [lookup_tableAvail]; by_cases ht : t ∈ cols <;> simp [ht]
  · intro t y hl s hs
    unfold tablePayload at hl ⊢
    simp only at hl
    rw [lookup_tableAvail] at hl
    by_cases ht : t ∈ cols
    · simp only [ht, if_true] at hl; injection hl with hl; subst hl
      simpa [SqlExpr.srcs, From.names] using hs
    · simp [ht] at hl
  · intro s hs; simp [tablePayload, SqlPred.srcsList] at hs

/-- A doomed table (`WHERE false`) stands for no rows. -/
theorem doomedPayload_paySem (tables : List (List Row)) (name : String) (uid idx : Nat) (cols : Cols) :
    PaySem tables (tablePayload name uid idx cols [.lit false]) [] cols := by
  refine ⟨?_, ?_, ?_, ?_⟩
  · unfold payEnvs tablePayload
    simp [SqlPred.evalAll, SqlPred.eval]
  · intro t; unfold tablePayload; simp only; rw [lookup_tableAvail]; by_cases ht : t ∈ cols <;> simp [ht]
  · intro t y hl s hs
    unfold tablePayload at hl ⊢
    simp only at hl
    rw [lookup_tableAvail] at hl
    by_cases ht : t ∈ cols
    · simp only [ht, if_true] at hl; injection hl with hl; subst hl
      simpa [SqlExpr.srcs, From.names] using hs
    · simp [ht] at hl
  · intro s hs; simp [tablePayload, SqlPred.srcsList, SqlPred.srcs, SqlExpr.srcsList] at hs

/-- Every leaf of the tree is one of the listed (id, columns) pairs, and no marker occurs. -/
def Rel.leavesIn (s : SqlState) (allowed : List (Nat × Cols)) : Rel → Bool
  | .leaf oid _ cols _ _ _ _ _ => allowed.any (fun a => a.1 == oid && a.2 == cols)
  | .unary _ t _ => Rel.leavesIn s allowed t
  | .binary _ l r _ => Rel.leavesIn s allowed l && Rel.leavesIn s allowed r
  | .mat .. => false
  | .transfer .. => false
  | .select oid _ _ _ _ _ skipTo _ _ => (s.payload oid).isNone && Rel.leavesIn s allowed skipTo

theorem faithful_of_leavesIn (s : SqlState) (tables : List (List Row)) (σ : Leaves) (allowed : List (Nat × Cols))
    (hall : ∀ a, a ∈ allowed → ∀ p, s.payload a.1 = some p → PaySem tables p (σ a.1) a.2) :
    (t : Rel) → t.leavesIn s allowed = true → t.Faithful s tables σ
  | .leaf oid e cols nm mn mx pl ms, h => by
    simp only [Rel.leavesIn, List.any_eq_true, Bool.and_eq_true, beq_iff_eq] at h
    obtain ⟨a, ha, h1, h2⟩ := h
    intro p hp
    have := hall a ha p (by rw [h1]; exact hp)
    rw [h1, h2] at this; exact this
  | .unary op t c, h => faithful_of_leavesIn s tables σ allowed hall t (by simpa [Rel.leavesIn] using h)
  | .binary op l r c, h => by
    simp only [Rel.leavesIn, Bool.and_eq_true] at h
    exact ⟨faithful_of_leavesIn s tables σ allowed hall l h.1, faithful_of_leavesIn s tables σ allowed hall r h.2⟩
  | .mat .., h => by simp [Rel.leavesIn] at h
  | .transfer .., h => by simp [Rel.leavesIn] at h
  | .select oid so pr dd a b sk ic tg, h => by
    simp only [Rel.leavesIn, Bool.and_eq_true] at h
    refine ⟨fun own hown => ?_, fun _ => faithful_of_leavesIn s tables σ allowed hall sk h.2⟩
    simp [hown] at h

/-- The decidable check plus faithful payloads give the hypotheses of the induction. -/
theorem ready_of_struct (s : SqlState) (tables : List (List Row)) (σ : Leaves) :
    (t : Rel) → t.structReady s = true → t.Faithful s tables σ → t.SqlReady s tables σ
  | .leaf oid e cols nm mn mx pl ms, hs, hf => by
    simp only [Rel.structReady] at hs
    cases hp : s.payload oid with
    | none => simp [hp] at hs
    | some p => exact ⟨p, hp, hf p hp⟩
  | .mat oid nm t, hs, hf => by
    simp only [Rel.structReady] at hs
    cases hp : s.payload oid with
    | none => simp [hp] at hs
    | some p => exact ⟨p, hp, hf p hp⟩
  | .transfer oid d t, hs, hf => by
    simp only [Rel.structReady] at hs
    cases hp : s.payload oid with
    | none => simp [hp] at hs
    | some p => exact ⟨p, hp, hf p hp⟩
  | .unary op t c, hs, hf => by
    simp only [Rel.structReady, Bool.and_eq_true] at hs
    refine ⟨ready_of_struct s tables σ t hs.1 hf, ?_⟩
    cases op <;> simpa [UOp.arityOk] using hs.2
  | .binary op l r c, hs, hf => by
    simp only [Rel.structReady, Bool.and_eq_true] at hs
    refine ⟨ready_of_struct s tables σ l hs.1.1 hf.1, ready_of_struct s tables σ r hs.1.2 hf.2, ?_⟩
    cases op with
    | join j => simpa using hs.2
    | chain => trivial
    | ignoreOne b => trivial
  | .select oid so pr dd a b sk ic tg, hs, hf => by
    simp only [Rel.structReady, Bool.and_eq_true, Bool.or_eq_true, Bool.not_eq_true'] at hs
    cases hp : s.payload oid with
    | some own => exact Or.inr ⟨own, hp, hf.1 own hp⟩
    | none =>
      simp only [hp, Option.isSome_none, Bool.false_eq_true, false_or] at hs
      obtain ⟨⟨h2, h3⟩, h4⟩ := hs
      refine Or.inl ⟨hp, ready_of_struct s tables σ sk h2 (hf.2 hp), ?_, ?_⟩
      · intro t ht; exact List.all_eq_true.mp h3 t ht
      · intro hd
        cases h4 with
        | inl h => rw [hd] at h; cases h
        | inr h => exact h

/-- **`to_executable` followed by evaluation returns the reference rows**: for every Good tree (raw SQL
trees, everything the factories build), if the entry point answers with rows, and the conformed tree passes
the decidable check and holds faithful payloads, the rows the database returns are - values, multiplicity
and order - those of the direct evaluation. -/
theorem sqlRun_sound_good (σ : Leaves) (s : SqlState) (st : Store) (r : Rel) (out : EvalOut) (b : Bool)
    (hg : Good I σ r)
    (hready : ∀ c, conform st defaultFuel r = .ok c →
      (c.get r).structReady s = true ∧ (c.get r).Faithful s s.tables σ)
    (hrun : sqlRun s st r = .inr (out, b)) : out.rows = sem σ r := by
  unfold sqlRun at hrun
  split at hrun
  · cases hrun
  cases hc : conform st defaultFuel r with
  | error e => simp [hc] at hrun
  | ok c =>
    simp only [hc] at hrun
    obtain ⟨gc, cok⟩ := (treeBuild_sound σ st defaultFuel).conform r c hg hc
    obtain ⟨hsr, hfa⟩ := hready c hc
    cases hq : compileSelect s defaultFuel (c.get r) 0 with
    | error e => simp [hq] at hrun
    | ok v =>
      obtain ⟨q, c1⟩ := v
      simp only [hq] at hrun
      split at hrun
      · cases hrun
      rename_i hdup
      split at hrun
      · cases hrun
      injection hrun with hrun; injection hrun with ho _; subst ho
      rw [(compile_sound σ s defaultFuel).select (c.get r) 0 q c1 gc cok.ok.isSel
        (ready_of_struct s s.tables σ _ hsr hfa) hq (by simpa using hdup)]
      exact cok.sem_eq

theorem sqlRun_sound (σ : Leaves) (s : SqlState) (st : Store) (r : Rel) (out : EvalOut) (b : Bool)
    (hwf : r.WF) (htr : r.Truthful σ) (hraw : r.RawSql)
    (hready : ∀ c, conform st defaultFuel r = .ok c →
      (c.get r).structReady s = true ∧ (c.get r).Faithful s s.tables σ)
    (hrun : sqlRun s st r = .inr (out, b)) : out.rows = sem σ r :=
  sqlRun_sound_good σ s st r out b (raw_good σ r hwf htr hraw) hready hrun

/-! ### Faithfulness of the payloads is a property of the INPUT tree

The tree-building induction carries a predicate on atoms and Selects (`NodeInv`); instantiated with
"holds a faithful payload, if any", it shows that the conformed tree is faithful whenever the input is: the
engine never invents a leaf, and the Selects it creates are fresh objects without payload. -/

/-- "The payload this node holds (if any) stands for its rows." -/
def payInv (s : SqlState) (tables : List (List Row)) (σ : Leaves) (h0 : s.payload 0 = none) : NodeInv where
  atom := fun x => x.isAtom = true → x.Faithful s tables σ
  sel := fun S => ∀ own, s.payload S.oid = some own → PaySem tables own (sem σ S) S.columns
  selNew := fun S hS own hown => by rw [hS, h0] at hown; cases hown

theorem Good.faithful {s : SqlState} {tables : List (List Row)} {σ : Leaves} {h0 : s.payload 0 = none} {t : Rel}
    (h : Good (payInv s tables σ h0) σ t) : t.Faithful s tables σ := by
  induction h with
  | atom r ha _ _ _ hI => exact hI ha
  | unary op t c _ _ ih => exact ih
  | chain l r c _ _ _ ihl ihr => exact ⟨ihl, ihr⟩
  | join j l r c _ _ _ _ _ ihl ihr => exact ⟨ihl, ihr⟩
  | sel S hS _ _ hI _ ih =>
    have hs := hS.isSel
    cases S <;> simp [Rel.isSelect] at hs
    exact ⟨fun own hown => hI own hown, fun _ => ih⟩

theorem atomsOK_of_faithful (s : SqlState) (tables : List (List Row)) (σ : Leaves) (h0 : s.payload 0 = none) :
    (t : Rel) → t.RawSql → t.Faithful s tables σ → t.AtomsOK (payInv s tables σ h0)
  | .leaf .., _, hf => fun _ => hf
  | .mat .., _, hf => fun _ => hf
  | .transfer .., _, hf => fun _ => hf
  | .unary _ t _, hr, hf => atomsOK_of_faithful s tables σ h0 t hr hf
  | .binary _ l r _, hr, hf =>
    ⟨atomsOK_of_faithful s tables σ h0 l hr.1 hf.1, atomsOK_of_faithful s tables σ h0 r hr.2.1 hf.2⟩
  | .select .., hr, _ => by cases hr

/-- **Conform, compile, evaluate returns the reference rows** - with the semantic hypothesis (payloads stand for
the rows of their relations) stated on the INPUT tree; what is asked of the conformed tree is only the
decidable check `Rel.structReady`. -/
theorem sqlRun_sound_input (σ : Leaves) (s : SqlState) (st : Store) (r : Rel) (out : EvalOut) (b : Bool)
    (hwf : r.WF) (htr : r.Truthful σ) (hraw : r.RawSql)
    (hF : r.Faithful s s.tables σ) (h0 : s.payload 0 = none)
    (hready : ∀ c, conform st defaultFuel r = .ok c → (c.get r).structReady s = true)
    (hrun : sqlRun s st r = .inr (out, b)) : out.rows = sem σ r := by
  have gI : Good (payInv s s.tables σ h0) σ r :=
    raw_goodI σ r hwf htr hraw (atomsOK_of_faithful s s.tables σ h0 r hraw hF)
  refine sqlRun_sound_good σ s st r out b gI (fun c hc => ⟨hready c hc, ?_⟩) hrun
  exact ((treeBuild_sound σ st defaultFuel).conform r c gI hc).1.faithful

theorem payInv_new (s : SqlState) (tables : List (List Row)) (σ : Leaves) (h0 : s.payload 0 = none) :
    ∀ x : Rel, x.isAtom = true → x.oid = 0 → (payInv s tables σ h0).atom x := by
  intro x ha hx _
  cases x <;> simp [Rel.isAtom] at ha <;>
    (simp only [Rel.oid] at hx; subst hx; intro p hp; rw [h0] at hp; cases hp)

/-- **Every construction history inside one SQL engine executes to the direct evaluation of its operation
sequence**, given that the tables attached to its LEAVES hold the leaves' rows. -/
theorem sql_history_run_sound (σ : Leaves) (s : SqlState) (st : Store) (eng : Engine) (hk : eng.kind = .sql)
    (bld : SqlBuild) (r : Rel) (out : EvalOut) (b : Bool) (hok : bld.ok σ) (h0 : s.payload 0 = none)
    (hl : bld.LeavesOK (payInv s s.tables σ h0) eng) (h : bld.tree st eng = .ok r)
    (hready : ∀ c, conform st defaultFuel r = .ok c → (c.get r).structReady s = true)
    (hrun : sqlRun s st r = .inr (out, b)) : out.rows = bld.direct σ := by
  have B := sql_build_invariantI σ st eng hk (payInv_new s s.tables σ h0) bld r hok hl h
  rw [sqlRun_sound_good σ s st r out b B.good (fun c hc => ⟨hready c hc, ?_⟩) hrun]
  · exact B.sem_eq
  · exact ((treeBuild_sound σ st defaultFuel).conform r c B.good hc).1.faithful

end DafRel
