/-
`Engine.transfer` when the source or the destination is a SQL engine: it goes through `conform`, so by
the tree-building induction it keeps content; towards a SQL engine the result is again a Good tree.
-/
import DafRel.Lemmas.ConformSound

namespace DafRel


/-- `relation.transferred_to(dest)` when the source or the destination is a SQL engine (nothing to strip
by `Transfer.simplify`): same rows and columns, requested engine, well-formed. -/
theorem transferTo_sql_sound (σ : Leaves) (st : Store) (fuel : Nat) (dest : Engine) (t : Rel)
    (res : Res) (hwf : t.WF) (htr : t.Truthful σ) (hraw : t.engine.kind = .sql → t.RawSql)
    (hs : transferSimplify dest t = none) (h : transferTo st fuel dest t = .ok res) :
    sem σ (res.get t) = sem σ t ∧ (∀ c, c ∈ (res.get t).columns ↔ c ∈ t.columns) ∧
      (res.get t).WF ∧ (res.get t).Truthful σ ∧ (t.engine ≠ dest → (res.get t).engine = dest) ∧
      (t.engine = dest → (res.get t).engine = dest) ∧ (dest.kind = .sql → Good NodeInv.triv σ (res.get t)) := by
  cases fuel with
  | zero => rw [transferTo] at h; cases h
  | succ fuel =>
    rw [transferTo] at h
    simp only [hs, bind, Except.bind, pure, Except.pure] at h
    by_cases he : (t.engine == dest) = true
    · -- already in the destination engine: only the SQL engine's conform acts
      have hed : t.engine = dest := beq_iff_eq.mp he
      simp only [he, if_true] at h
      cases hk : dest.kind with
      | iter =>
        simp only [hk] at h
        injection h with h; subst h
        exact ⟨rfl, fun _ => Iff.rfl, hwf, htr, fun hne => absurd hed hne, fun h => h,
          fun hq => by cases hq⟩
      | sql =>
        simp only [hk, Res.get] at h
        cases hc : conform st fuel t with
        | error e => simp [hc] at h
        | ok ct =>
          simp only [hc] at h
          obtain ⟨gC, C⟩ := (treeBuild_sound σ st fuel).conform t ct
            (raw_good σ t hwf htr (hraw (by rw [hed]; exact hk))) hc
          have hres : res.get t = ct.get t := by
            cases ct <;> (simp only at h; injection h with h; subst h; rfl)
          rw [hres]
          exact ⟨C.sem_eq, C.cols, C.ok.wf, C.ok.truthful, fun hne => absurd hed hne,
            fun _ => by rw [C.engine]; exact hed, fun _ => gC⟩
    · have hne : t.engine ≠ dest := fun h => he (beq_iff_eq.mpr h)
      simp only [he, Bool.false_eq_true, if_false] at h
      cases hci : conformIn st fuel t.engine.kind t with
      | error e => simp [hci] at h
      | ok ct =>
        simp only [hci] at h
        -- the conformed source
        have hsrc : sem σ (ct.get t) = sem σ t ∧ (∀ c, c ∈ (ct.get t).columns ↔ c ∈ t.columns) ∧
            (ct.get t).WF ∧ (ct.get t).Truthful σ := by
          cases fuel with
          | zero => simp [conformIn] at hci
          | succ fuel' =>
            cases hk : t.engine.kind with
            | iter =>
              simp only [conformIn, hk] at hci
              injection hci with hci; subst hci
              exact ⟨rfl, fun _ => Iff.rfl, hwf, htr⟩
            | sql =>
              simp only [conformIn, hk] at hci
              obtain ⟨_, C⟩ := (treeBuild_sound σ st fuel').conform t ct (raw_good σ t hwf htr (hraw hk)) hci
              exact ⟨C.sem_eq, C.cols, C.ok.wf, C.ok.truthful⟩
        obtain ⟨s1, s2, s3, s4⟩ := hsrc
        generalize ct.get t = src at h s1 s2 s3 s4
        cases hk : dest.kind with
        | iter =>
          simp only [hk] at h
          injection h with h; subst h
          exact ⟨s1, s2, s3, s4, fun _ => rfl, fun _ => rfl, fun hq => by cases hq⟩
        | sql =>
          simp only [hk, Res.get] at h
          cases hc : conform st fuel (Rel.transfer 0 dest src) with
          | error e => simp [hc] at h
          | ok c2 =>
            simp only [hc] at h
            have gT : Good NodeInv.triv σ (Rel.transfer 0 dest src) := Good.atom _ rfl s3 s4 hk trivial
            obtain ⟨gC, C⟩ := (treeBuild_sound σ st fuel).conform _ c2 gT hc
            have hres : res.get t = c2.get (Rel.transfer 0 dest src) := by
              cases c2 <;> (simp only at h; injection h with h; subst h; rfl)
            rw [hres]
            exact ⟨by rw [C.sem_eq]; exact s1, fun c => (C.cols c).trans (s2 c), C.ok.wf, C.ok.truthful,
              fun _ => by rw [C.engine]; rfl, fun _ => by rw [C.engine]; rfl, fun _ => gC⟩

end DafRel
