/-
Basic facts about the model of `_process_recursive`: payload holders and fully processed trees are left alone.
-/
import DafRel.Model.Processor
import DafRel.Spec.Processor

namespace DafRel

theorem processRec_cached (σ : Leaves) (fuel : Nat) (orig : Rel) (matAs : Option String)
    (s : ProcState) (h : (s.payloadOf orig).isSome = true) :
    (processRec σ (fuel+1) orig matAs).run.run s = (.ok (.same, true), s) := by
  unfold processRec
  simp [bind, ExceptT.bind, ExceptT.mk, ExceptT.bindCont, StateT.bind, get, getThe, MonadStateOf.get, StateT.get,
    liftM, monadLift, MonadLift.monadLift, ExceptT.lift, ExceptT.run, StateT.run, h, pure, ExceptT.pure, StateT.pure,
    Functor.map, StateT.map]


/-- A fully processed tree is returned unchanged: no operation node is rebuilt, no hook runs, nothing is attached. -/
theorem processRec_settled (σ : Leaves) (s : ProcState) :
    (t : Rel) → (fuel : Nat) → (matAs : Option String) →
    t.Settled s → t.size ≤ fuel → ∃ b, (processRec σ fuel t matAs).run.run s = (.ok (.same, b), s)
  | .leaf a b c d e f g h, fuel, matAs, hs, hf => by
    cases fuel with
    | zero => simp [Rel.size] at hf
    | succ n => exact ⟨true, processRec_cached σ n _ matAs s hs⟩
  | .mat a b c, fuel, matAs, hs, hf => by
    cases fuel with
    | zero => simp [Rel.size] at hf
    | succ n => exact ⟨true, processRec_cached σ n _ matAs s hs⟩
  | .transfer a b c, fuel, matAs, hs, hf => by
    cases fuel with
    | zero => simp [Rel.size] at hf
    | succ n => exact ⟨true, processRec_cached σ n _ matAs s hs⟩
  | .select a b c d e f g h i, fuel, matAs, hs, hf => by
    cases fuel with
    | zero => simp [Rel.size] at hf
    | succ n => exact ⟨true, processRec_cached σ n _ matAs s hs⟩
  | .unary op t c, fuel, matAs, hs, hf => by
    cases fuel with
    | zero => simp [Rel.size] at hf
    | succ n =>
      obtain ⟨b, ih⟩ := processRec_settled σ s t n none hs (by simp [Rel.size] at hf; omega)
      simp only [ExceptT.run, StateT.run] at ih
      refine ⟨false, ?_⟩
      unfold processRec
      simp [bind, ExceptT.bind, ExceptT.mk, ExceptT.bindCont, StateT.bind, get, getThe, MonadStateOf.get, StateT.get,
        liftM, monadLift, MonadLift.monadLift, ExceptT.lift, ExceptT.run, StateT.run, pure, ExceptT.pure, StateT.pure,
        Functor.map, StateT.map, ProcState.payloadOf, ih]
  | .binary op l r c, fuel, matAs, hs, hf => by
    cases fuel with
    | zero => simp [Rel.size] at hf
    | succ n =>
      obtain ⟨hl, hr, hop⟩ := hs
      obtain ⟨b1, ih1⟩ := processRec_settled σ s l n none hl (by simp [Rel.size] at hf; omega)
      obtain ⟨b2, ih2⟩ := processRec_settled σ s r n none hr (by simp [Rel.size] at hf; omega)
      simp only [ExceptT.run, StateT.run] at ih1 ih2
      refine ⟨false, ?_⟩
      unfold processRec
      cases op with
      | chain =>
        simp [bind, ExceptT.bind, ExceptT.mk, ExceptT.bindCont, StateT.bind, get, getThe, MonadStateOf.get, StateT.get,
          liftM, monadLift, MonadLift.monadLift, ExceptT.lift, ExceptT.run, StateT.run, pure, ExceptT.pure, StateT.pure,
          Functor.map, StateT.map, ProcState.payloadOf, ih1, ih2, Res.get, hop.1, hop.2]
      | join j =>
        simp [bind, ExceptT.bind, ExceptT.mk, ExceptT.bindCont, StateT.bind, get, getThe, MonadStateOf.get, StateT.get,
          liftM, monadLift, MonadLift.monadLift, ExceptT.lift, ExceptT.run, StateT.run, pure, ExceptT.pure, StateT.pure,
          Functor.map, StateT.map, ProcState.payloadOf, ih1, ih2, Res.get]
      | ignoreOne b =>
        simp [bind, ExceptT.bind, ExceptT.mk, ExceptT.bindCont, StateT.bind, get, getThe, MonadStateOf.get, StateT.get,
          liftM, monadLift, MonadLift.monadLift, ExceptT.lift, ExceptT.run, StateT.run, pure, ExceptT.pure, StateT.pure,
          Functor.map, StateT.map, ProcState.payloadOf, ih1, ih2, Res.get]


theorem settled_of_sqlLeafTree (s : ProcState) : (t : Rel) → t.SqlLeafTree → t.Settled s
  | .leaf oid e cols nm mn mx pl ms, h => by
    have hp : pl = true := h.2
    subst hp
    show (s.payloadOf (Rel.leaf oid e cols nm mn mx true ms)).isSome = true
    simp only [ProcState.payloadOf]
    cases s.sq.payload oid <;> rfl
  | .unary _ t _, h => settled_of_sqlLeafTree s t h
  | .binary op l r _, h => ⟨settled_of_sqlLeafTree s l h.1, settled_of_sqlLeafTree s r h.2.1, h.2.2⟩
  | .mat .., h => by cases h
  | .transfer .., h => by cases h
  | .select .., h => by cases h

end DafRel
