/-
The `join` factory inside the SQL engine: `PartialJoin._begin_apply` resolves the common columns,
`apply` hands over to `append_unary`, which conforms the target and joins the two Selects.
-/
import DafRel.Lemmas.ConformSound
import DafRel.Lemmas.JoinCommon

namespace DafRel

variable {I : NodeInv}

/-- `append_unary(PartialJoin, target)` in the SQL engine. -/
theorem appendUnary_pj_sound (σ : Leaves) (st : Store) (fuel : Nat) (p : PJoin) (x : Rel)
    (gx : Good I σ x) (gF : Good I σ p.fixed)
    (hcl : p.join.minCols.subset (p.lhs x).columns = true) (hcr : p.join.minCols.subset (p.rhs x).columns = true)
    (hp : p.join.pred.columnsRequired.subset ((p.lhs x).columns.union (p.rhs x).columns) = true)
    (res : Res) (h : appendUnary st fuel (.pj p) x = .ok res) :
    ∃ T, res = .new T ∧ Good I σ T ∧ SelOK σ T ∧
      sem σ T = joinRows p.join.minCols p.join.pred (sem σ (p.lhs x)) (sem σ (p.rhs x)) ∧
      (∀ c, c ∈ T.columns ↔ c ∈ (p.lhs x).columns.union (p.rhs x).columns) ∧ T.engine = (p.lhs x).engine := by
  cases fuel with
  | zero => rw [appendUnary] at h; cases h
  | succ fuel =>
    rw [appendUnary] at h
    simp only [gx.sql, bind, Except.bind, pure, Except.pure] at h
    cases h1 : conform st fuel x with
    | error e => simp [h1] at h
    | ok ct =>
      simp only [h1] at h
      obtain ⟨gs, cs⟩ := (treeBuild_sound σ st fuel).conform x ct gx h1
      cases h2 : appendUnarySel st fuel (.pj p) (ct.get x) with
      | error e => simp [h2] at h
      | ok r2 =>
        simp only [h2] at h
        cases fuel with
        | zero => rw [appendUnarySel] at h2; cases h2
        | succ fuel' =>
          -- the operands with the conformed target in place of the target
          have hl : ∀ t, t ∈ (p.lhs (ct.get x)).columns ↔ t ∈ (p.lhs x).columns := by
            intro t; unfold PJoin.lhs; split
            · exact Iff.rfl
            · exact cs.cols t
          have hr : ∀ t, t ∈ (p.rhs (ct.get x)).columns ↔ t ∈ (p.rhs x).columns := by
            intro t; unfold PJoin.rhs; split
            · exact cs.cols t
            · exact Iff.rfl
          have hun : ∀ t, t ∈ (p.lhs (ct.get x)).columns.union (p.rhs (ct.get x)).columns ↔
              t ∈ (p.lhs x).columns.union (p.rhs x).columns := by
            intro t; rw [Cols.mem_union, Cols.mem_union, hl t, hr t]
          obtain ⟨T, hT, gT, okT, semT, colT, engT⟩ := appendSel_pj_sound σ st fuel' p (ct.get x) gs gF
            (subset_congr_right _ _ _ hl hcl) (subset_congr_right _ _ _ hr hcr)
            (subset_congr_right _ _ _ hun hp) r2 h2
          subst hT
          have hres : res = .new T := by
            cases ct <;> (simp only [Res.get] at h; injection h with h; exact h.symm)
          have hsl : sem σ (p.lhs (ct.get x)) = sem σ (p.lhs x) := by
            unfold PJoin.lhs; split
            · rfl
            · exact cs.sem_eq
          have hsr : sem σ (p.rhs (ct.get x)) = sem σ (p.rhs x) := by
            unfold PJoin.rhs; split
            · exact cs.sem_eq
            · rfl
          have hel : (p.lhs (ct.get x)).engine = (p.lhs x).engine := by
            unfold PJoin.lhs; split
            · rfl
            · exact cs.engine
          exact ⟨T, hres, gT, okT, by rw [semT, hsl, hsr], fun c => (colT c).trans (hun c), by rw [engT, hel]⟩

end DafRel

namespace DafRel

variable {I : NodeInv}

/-- What `PartialJoin._begin_apply` returns: the same fixed operand and side, the same predicate,
common columns that both operands have, a predicate that only needs columns of the two operands. -/
theorem pjBeginApply_ok (p : PJoin) (x : Rel) (pref : Option Engine) (p' : PJoin) (e : Engine)
    (hfix : p.join.resolved = true → p.join.minCols.subset p.fixed.columns = true)
    (h : p.beginApply x pref = .ok (p', e)) :
    p'.fixed = p.fixed ∧ p'.fixedIsLhs = p.fixedIsLhs ∧ p'.join.pred = p.join.pred ∧
      e = pref.getD p.fixed.engine ∧
      p'.join.minCols.subset p.fixed.columns = true ∧ p'.join.minCols.subset x.columns = true ∧
      p'.join.pred.columnsRequired.subset (p.fixed.columns.union x.columns) = true ∧
      (p.join.resolved = false →
        p.join.appliedCommonColumns p.fixed.columns x.columns = .ok p'.join.minCols) := by
  unfold PJoin.beginApply at h
  simp only at h
  have key : ∀ q : PJoin, q.fixed = p.fixed → q.fixedIsLhs = p.fixedIsLhs → q.join.pred = p.join.pred →
      q.join.minCols.subset p.fixed.columns = true →
      (p.join.resolved = false → p.join.appliedCommonColumns p.fixed.columns x.columns = .ok q.join.minCols) →
      (if !(q.columnsRequired.subset x.columns) then (Except.error Err.column : Except Err (PJoin × Engine))
        else .ok (q, pref.getD q.fixed.engine)) = .ok (p', e) →
      p'.fixed = p.fixed ∧ p'.fixedIsLhs = p.fixedIsLhs ∧ p'.join.pred = p.join.pred ∧
        e = pref.getD p.fixed.engine ∧
        p'.join.minCols.subset p.fixed.columns = true ∧ p'.join.minCols.subset x.columns = true ∧
        p'.join.pred.columnsRequired.subset (p.fixed.columns.union x.columns) = true ∧
        (p.join.resolved = false →
          p.join.appliedCommonColumns p.fixed.columns x.columns = .ok p'.join.minCols) := by
    intro q h1 h2 h3 h4 h5 hq
    split at hq
    · cases hq
    · rename_i hreq
      injection hq with hq
      injection hq with hq1 hq2
      subst hq1
      simp only [Bool.not_eq_true, Bool.not_eq_false'] at hreq
      have hreq' := (Cols.subset_iff _ _).mp hreq
      refine ⟨h1, h2, h3, by rw [← hq2, h1], h4, ?_, ?_, h5⟩
      · exact (Cols.subset_iff _ _).mpr fun t ht => hreq' t (by
          unfold PJoin.columnsRequired; exact (Cols.mem_union _ _ _).mpr (Or.inr ht))
      · refine (Cols.subset_iff _ _).mpr fun t ht => ?_
        by_cases hf : t ∈ p.fixed.columns
        · exact (Cols.mem_union _ _ _).mpr (Or.inl hf)
        · refine (Cols.mem_union _ _ _).mpr (Or.inr (hreq' t ?_))
          unfold PJoin.columnsRequired
          exact (Cols.mem_union _ _ _).mpr (Or.inl ((Cols.mem_diff _ _ _).mpr ⟨ht, by rw [h1]; exact hf⟩))
  by_cases hr : p.join.resolved = true
  · simp only [hr, Bool.not_true, Bool.false_eq_true, if_false] at h
    exact key p rfl rfl rfl (hfix hr) (fun hf => by rw [hr] at hf; cases hf) h
  · simp only [hr, Bool.not_false, if_true] at h
    cases hc : p.join.appliedCommonColumns p.fixed.columns x.columns with
    | error e' => simp [hc] at h
    | ok common =>
      simp only [hc] at h
      have hcm := (appliedCommonColumns_resolved p.join _ _ common (by simpa using hr) hc).1
      obtain ⟨k1, k2, k3, k4, k5, k6, k7, k8⟩ :=
        key { p with join := { p.join with minCols := common, maxCols := some common } } rfl rfl rfl
          ((Cols.subset_iff _ _).mpr fun t ht => (hcm t ht).1) (fun _ => hc) h
      exact ⟨k1, k2, k3, k4, k5, k6, k7, fun hf => hc.symm.trans (k8 hf)⟩

/-- **`Join.partial(fixed).apply(target)` inside one SQL engine** (no preferred engine given):
the result is a coherent Select with exactly the rows of the join of the two operands on the
resolved common columns and the predicate. -/
theorem applyOp_pj_sound (σ : Leaves) (st : Store) (fuel : Nat) (p : PJoin) (x : Rel) (o : Opts)
    (gx : Good I σ x) (gF : Good I σ p.fixed) (hpref : o.pref = none) (heng : p.fixed.engine = x.engine)
    (hfix : p.join.resolved = true → p.join.minCols.subset p.fixed.columns = true)
    (res : Res) (h : applyOp st fuel (.pj p) x o = .ok res) :
    ∃ common T, res = .new T ∧ Good I σ T ∧ SelOK σ T ∧
      sem σ T = joinRows common p.join.pred (sem σ (p.lhs x)) (sem σ (p.rhs x)) ∧
      (∀ c, c ∈ T.columns ↔ c ∈ (p.lhs x).columns.union (p.rhs x).columns) ∧ T.engine = x.engine ∧
      common.subset p.fixed.columns = true ∧ common.subset x.columns = true ∧
      (p.join.resolved = false → p.join.appliedCommonColumns p.fixed.columns x.columns = .ok common) := by
  cases fuel with
  | zero => rw [applyOp] at h; cases h
  | succ fuel =>
    rw [applyOp] at h
    simp only [AnyOp.beginApply, bind, Except.bind, pure, Except.pure, Except.map] at h
    cases hb : p.beginApply x o.pref with
    | error e => simp [hb] at h
    | ok v =>
      obtain ⟨p', e⟩ := v
      obtain ⟨f1, f2, f3, f4, f5, f6, f7, f8⟩ := pjBeginApply_ok p x o.pref p' e hfix hb
      have he : e = x.engine := by rw [f4, hpref]; exact heng
      subst he
      simp only [hb, bne_self_eq_false, Bool.false_eq_true, if_false, Bool.not_false, if_true, Res.get] at h
      cases h1 : appendUnary st fuel (.pj p') x with
      | error e => simp [h1] at h
      | ok r1 =>
        have hl : p'.lhs x = p.lhs x := by unfold PJoin.lhs; rw [f1, f2]
        have hr : p'.rhs x = p.rhs x := by unfold PJoin.rhs; rw [f1, f2]
        have hcl : p'.join.minCols.subset (p'.lhs x).columns = true := by
          unfold PJoin.lhs; split
          · rw [f1]; exact f5
          · exact f6
        have hcr : p'.join.minCols.subset (p'.rhs x).columns = true := by
          unfold PJoin.rhs; split
          · exact f6
          · rw [f1]; exact f5
        have hp : p'.join.pred.columnsRequired.subset ((p'.lhs x).columns.union (p'.rhs x).columns) = true := by
          refine (Cols.subset_iff _ _).mpr fun t ht => ?_
          have := (Cols.mem_union _ _ _).mp ((Cols.subset_iff _ _).mp f7 t ht)
          unfold PJoin.lhs PJoin.rhs
          rw [f1]
          split
          · exact (Cols.mem_union _ _ _).mpr this
          · exact (Cols.mem_union _ _ _).mpr this.symm
        obtain ⟨T, hT, gT, okT, semT, colT, engT⟩ :=
          appendUnary_pj_sound σ st fuel p' x gx (by rw [f1]; exact gF) hcl hcr hp r1 h1
        subst hT
        simp only [h1] at h
        injection h with h
        refine ⟨p'.join.minCols, T, h.symm, gT, okT, ?_, ?_, ?_, f5, f6, f8⟩
        · rw [semT, hl, hr, f3]
        · intro c; rw [colT c, hl, hr]
        · rw [engT, hl]; unfold PJoin.lhs; split
          · exact heng
          · rfl

end DafRel
