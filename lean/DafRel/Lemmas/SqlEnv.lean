/-
Environments of the SQL evaluation model: FROM-clause environments are undefined outside the clause's
names; evaluation only looks at the sources an expression mentions; merging two environments over
disjoint names agrees with each of them on its own names.
-/
import DafRel.Model.Sql

namespace DafRel

/-- `env` is undefined on every source outside `names`. -/
def PEnv.localTo (env : PEnv) (names : List String) : Prop := ∀ s, s ∉ names → ∀ t, env s t = none

theorem rowEnv_local (name : String) (r : Row) : (rowEnv name r).localTo [name] := by
  intro s hs t
  unfold rowEnv
  have : (s == name) = false := by simpa using hs
  simp [this]

theorem PEnv.merge_local {a b : PEnv} {A B : List String} (ha : a.localTo A) (hb : b.localTo B) :
    (a.merge b).localTo (A ++ B) := by
  intro s hs t
  have h1 : s ∉ A := fun h => hs (List.mem_append.mpr (Or.inl h))
  have h2 : s ∉ B := fun h => hs (List.mem_append.mpr (Or.inr h))
  simp [PEnv.merge, ha s h1 t, hb s h2 t]

theorem envs_local (tables : List (List Row)) : (f : From) → ∀ env, env ∈ (From.envs tables f).1 →
    env.localTo (From.names f)
  | .table name _ idx, env, h => by
    simp only [From.envs, List.mem_map] at h
    obtain ⟨r, _, rfl⟩ := h
    exact rowEnv_local name r
  | .subquery alias q, env, h => by
    simp only [From.envs, List.mem_map] at h
    obtain ⟨r, _, rfl⟩ := h
    exact rowEnv_local alias r
  | .join l r on, env, h => by
    simp only [From.envs, List.mem_flatMap, List.mem_map, List.mem_filter] at h
    obtain ⟨a, ha, b, ⟨hb, _⟩, rfl⟩ := h
    exact PEnv.merge_local (envs_local tables l a ha) (envs_local tables r b hb)

/-- Two environments agree on the sources in `srcs`. -/
def PEnv.agreeOn (e1 e2 : PEnv) (srcs : List String) : Prop := ∀ s, s ∈ srcs → ∀ t, e1 s t = e2 s t

mutual
theorem SqlExpr.eval_congr (e1 e2 : PEnv) : (x : SqlExpr) → e1.agreeOn e2 x.srcs → x.eval e1 = x.eval e2
  | .lit _, _ => rfl
  | .col s t, h => by simpa [SqlExpr.eval] using h s (by simp [SqlExpr.srcs]) t
  | .fn f args, h => by
    simp only [SqlExpr.eval]
    rw [SqlExpr.evalList_congr e1 e2 args (by simpa [SqlExpr.srcs] using h)]
theorem SqlExpr.evalList_congr (e1 e2 : PEnv) : (xs : List SqlExpr) → e1.agreeOn e2 (SqlExpr.srcsList xs) →
    SqlExpr.evalList e1 xs = SqlExpr.evalList e2 xs
  | [], _ => rfl
  | x :: xs, h => by
    simp only [SqlExpr.evalList]
    rw [SqlExpr.eval_congr e1 e2 x (fun s hs => h s (by simp [SqlExpr.srcsList, hs])),
      SqlExpr.evalList_congr e1 e2 xs (fun s hs => h s (by simp [SqlExpr.srcsList, hs]))]
end

mutual
theorem SqlPred.eval_congr (e1 e2 : PEnv) : (p : SqlPred) → e1.agreeOn e2 p.srcs → p.eval e1 = p.eval e2
  | .lit _, _ => rfl
  | .col s t, h => by simp only [SqlPred.eval]; rw [h s (by simp [SqlPred.srcs]) t]
  | .fn f args, h => by
    simp only [SqlPred.eval]
    rw [SqlExpr.evalList_congr e1 e2 args (by simpa [SqlPred.srcs] using h)]
  | .not p, h => by
    simp only [SqlPred.eval]
    rw [SqlPred.eval_congr e1 e2 p (by simpa [SqlPred.srcs] using h)]
  | .and ps, h => by
    simp only [SqlPred.eval]
    exact SqlPred.evalAll_congr e1 e2 ps (by simpa [SqlPred.srcs] using h)
  | .or ps, h => by
    simp only [SqlPred.eval]
    exact SqlPred.evalAny_congr e1 e2 ps (by simpa [SqlPred.srcs] using h)
  | .eqLit x v, h => by
    simp only [SqlPred.eval]
    rw [SqlExpr.eval_congr e1 e2 x (by simpa [SqlPred.srcs] using h)]
  | .between x lo hi, h => by
    simp only [SqlPred.eval]
    rw [SqlExpr.eval_congr e1 e2 x (by simpa [SqlPred.srcs] using h)]
  | .modEq x st r, h => by
    simp only [SqlPred.eval]
    rw [SqlExpr.eval_congr e1 e2 x (by simpa [SqlPred.srcs] using h)]
  | .inList x xs, h => by
    simp only [SqlPred.eval]
    rw [SqlExpr.eval_congr e1 e2 x (fun s hs => h s (by simp [SqlPred.srcs, hs])),
      SqlExpr.evalList_congr e1 e2 xs (fun s hs => h s (by simp [SqlPred.srcs, hs]))]
theorem SqlPred.evalAll_congr (e1 e2 : PEnv) : (ps : List SqlPred) → e1.agreeOn e2 (SqlPred.srcsList ps) →
    SqlPred.evalAll e1 ps = SqlPred.evalAll e2 ps
  | [], _ => rfl
  | p :: ps, h => by
    simp only [SqlPred.evalAll]
    rw [SqlPred.eval_congr e1 e2 p (fun s hs => h s (by simp [SqlPred.srcsList, hs])),
      SqlPred.evalAll_congr e1 e2 ps (fun s hs => h s (by simp [SqlPred.srcsList, hs]))]
theorem SqlPred.evalAny_congr (e1 e2 : PEnv) : (ps : List SqlPred) → e1.agreeOn e2 (SqlPred.srcsList ps) →
    SqlPred.evalAny e1 ps = SqlPred.evalAny e2 ps
  | [], _ => rfl
  | p :: ps, h => by
    simp only [SqlPred.evalAny]
    rw [SqlPred.eval_congr e1 e2 p (fun s hs => h s (by simp [SqlPred.srcsList, hs])),
      SqlPred.evalAny_congr e1 e2 ps (fun s hs => h s (by simp [SqlPred.srcsList, hs]))]
end

/-- Merging environments over disjoint names: the merge agrees with each part on its own names. -/
theorem merge_agree_left {a b : PEnv} {A B : List String} (_ha : a.localTo A) (hb : b.localTo B)
    (hd : ∀ s, s ∈ A → s ∉ B) : (a.merge b).agreeOn a A := by
  intro s hs t
  simp only [PEnv.merge]
  cases h : a s t with
  | some v => rfl
  | none => exact hb s (hd s hs) t

theorem merge_agree_right {a b : PEnv} {A B : List String} (ha : a.localTo A) (_hb : b.localTo B)
    (hd : ∀ s, s ∈ A → s ∉ B) : (a.merge b).agreeOn b B := by
  intro s hs t
  have : s ∉ A := fun h => hd s h hs
  simp [PEnv.merge, ha s this t]

end DafRel
