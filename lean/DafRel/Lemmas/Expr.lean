/-
Lemmas about expressions and predicates: congruence of evaluation on the required columns,
soundness of `as_trivial`, `flatten_logical_and`, `logical_and`.
-/
import DafRel.Model.Expr

namespace DafRel

/-! ### Evaluation only depends on the required columns -/

mutual
theorem Expr.val_congr (r1 r2 : Row) :
    (e : Expr) → (∀ t, t ∈ e.columnsRequired → r1 t = r2 t) → e.val r1 = e.val r2
  | .lit _, _ => rfl
  | .ref t, h => by
    have := h t (by simp [Expr.columnsRequired])
    simp [Expr.val, Row.getD0, this]
  | .fn f args _, h => by
    have := Expr.valList_congr r1 r2 args (by simpa [Expr.columnsRequired] using h)
    simp [Expr.val, this]
theorem Expr.valList_congr (r1 r2 : Row) :
    (es : List Expr) → (∀ t, t ∈ Expr.columnsRequiredList es → r1 t = r2 t) →
      Expr.valList r1 es = Expr.valList r2 es
  | [], _ => rfl
  | e :: es, h => by
    have h1 := Expr.val_congr r1 r2 e (fun t ht => h t (by simp [Expr.columnsRequiredList, ht]))
    have h2 := Expr.valList_congr r1 r2 es (fun t ht => h t (by simp [Expr.columnsRequiredList, ht]))
    simp [Expr.valList, h1, h2]
end

mutual
theorem Expr.eval_congr (r1 r2 : Row) :
    (e : Expr) → (∀ t, t ∈ e.columnsRequired → r1 t = r2 t) → e.eval r1 = e.eval r2
  | .lit _, _ => rfl
  | .ref t, h => by
    have := h t (by simp [Expr.columnsRequired])
    simp [Expr.eval, this]
  | .fn f args _, h => by
    have := Expr.evalList_congr r1 r2 args (by simpa [Expr.columnsRequired] using h)
    simp [Expr.eval, this]
theorem Expr.evalList_congr (r1 r2 : Row) :
    (es : List Expr) → (∀ t, t ∈ Expr.columnsRequiredList es → r1 t = r2 t) →
      Expr.evalList r1 es = Expr.evalList r2 es
  | [], _ => rfl
  | e :: es, h => by
    have h1 := Expr.eval_congr r1 r2 e (fun t ht => h t (by simp [Expr.columnsRequiredList, ht]))
    have h2 := Expr.evalList_congr r1 r2 es (fun t ht => h t (by simp [Expr.columnsRequiredList, ht]))
    simp [Expr.evalList, h1, h2]
end

theorem Container.valContains_congr (r1 r2 : Row) (x : Int) (c : Container)
    (h : ∀ t, t ∈ c.columnsRequired → r1 t = r2 t) : c.valContains r1 x = c.valContains r2 x := by
  cases c with
  | range a b s => rfl
  | seq items =>
    have := Expr.valList_congr r1 r2 items (by simpa [Container.columnsRequired] using h)
    simp [Container.valContains, this]

theorem Container.evalContains_congr (r1 r2 : Row) (x : Int) (c : Container)
    (h : ∀ t, t ∈ c.columnsRequired → r1 t = r2 t) : c.evalContains r1 x = c.evalContains r2 x := by
  cases c with
  | range a b s => rfl
  | seq items =>
    have := Expr.evalList_congr r1 r2 items (by simpa [Container.columnsRequired] using h)
    simp [Container.evalContains, this]

mutual
theorem Pred.val_congr (r1 r2 : Row) :
    (p : Pred) → (∀ t, t ∈ p.columnsRequired → r1 t = r2 t) → p.val r1 = p.val r2
  | .lit _, _ => rfl
  | .ref t, h => by
    have := h t (by simp [Pred.columnsRequired])
    unfold Pred.val Row.getD0
    rw [this]
  | .fn f args _, h => by
    have := Expr.valList_congr r1 r2 args (by simpa [Pred.columnsRequired] using h)
    simp [Pred.val, this]
  | .not p, h => by
    have := Pred.val_congr r1 r2 p (by simpa [Pred.columnsRequired] using h)
    simp [Pred.val, this]
  | .and ps, h => by
    have := Pred.valAll_congr r1 r2 ps (by simpa [Pred.columnsRequired] using h)
    simp [Pred.val, this]
  | .or ps, h => by
    have := Pred.valAny_congr r1 r2 ps (by simpa [Pred.columnsRequired] using h)
    simp [Pred.val, this]
  | .inC item c, h => by
    have h1 := Expr.val_congr r1 r2 item (fun t ht => h t (by simp [Pred.columnsRequired, ht]))
    have h2 := Container.valContains_congr r1 r2 (item.val r2) c
      (fun t ht => h t (by simp [Pred.columnsRequired, ht]))
    simp [Pred.val, h1, h2]
theorem Pred.valAll_congr (r1 r2 : Row) :
    (ps : List Pred) → (∀ t, t ∈ Pred.columnsRequiredList ps → r1 t = r2 t) →
      Pred.valAll r1 ps = Pred.valAll r2 ps
  | [], _ => rfl
  | p :: ps, h => by
    have h1 := Pred.val_congr r1 r2 p (fun t ht => h t (by simp [Pred.columnsRequiredList, ht]))
    have h2 := Pred.valAll_congr r1 r2 ps (fun t ht => h t (by simp [Pred.columnsRequiredList, ht]))
    simp [Pred.valAll, h1, h2]
theorem Pred.valAny_congr (r1 r2 : Row) :
    (ps : List Pred) → (∀ t, t ∈ Pred.columnsRequiredList ps → r1 t = r2 t) →
      Pred.valAny r1 ps = Pred.valAny r2 ps
  | [], _ => rfl
  | p :: ps, h => by
    have h1 := Pred.val_congr r1 r2 p (fun t ht => h t (by simp [Pred.columnsRequiredList, ht]))
    have h2 := Pred.valAny_congr r1 r2 ps (fun t ht => h t (by simp [Pred.columnsRequiredList, ht]))
    simp [Pred.valAny, h1, h2]
end

mutual
theorem Pred.eval_congr (r1 r2 : Row) :
    (p : Pred) → (∀ t, t ∈ p.columnsRequired → r1 t = r2 t) → p.eval r1 = p.eval r2
  | .lit _, _ => rfl
  | .ref t, h => by
    have := h t (by simp [Pred.columnsRequired])
    simp [Pred.eval, this]
  | .fn f args _, h => by
    have := Expr.evalList_congr r1 r2 args (by simpa [Pred.columnsRequired] using h)
    simp [Pred.eval, this]
  | .not p, h => by
    have := Pred.eval_congr r1 r2 p (by simpa [Pred.columnsRequired] using h)
    simp [Pred.eval, this]
  | .and ps, h => by
    have := Pred.evalAll_congr r1 r2 ps (by simpa [Pred.columnsRequired] using h)
    simp [Pred.eval, this]
  | .or ps, h => by
    have := Pred.evalAny_congr r1 r2 ps (by simpa [Pred.columnsRequired] using h)
    simp [Pred.eval, this]
  | .inC item c, h => by
    have h1 := Expr.eval_congr r1 r2 item (fun t ht => h t (by simp [Pred.columnsRequired, ht]))
    have h2 := fun x => Container.evalContains_congr r1 r2 x c
      (fun t ht => h t (by simp [Pred.columnsRequired, ht]))
    simp [Pred.eval, h1, h2]
theorem Pred.evalAll_congr (r1 r2 : Row) :
    (ps : List Pred) → (∀ t, t ∈ Pred.columnsRequiredList ps → r1 t = r2 t) →
      Pred.evalAll r1 ps = Pred.evalAll r2 ps
  | [], _ => rfl
  | p :: ps, h => by
    have h1 := Pred.eval_congr r1 r2 p (fun t ht => h t (by simp [Pred.columnsRequiredList, ht]))
    have h2 := Pred.evalAll_congr r1 r2 ps (fun t ht => h t (by simp [Pred.columnsRequiredList, ht]))
    simp [Pred.evalAll, h1, h2]
theorem Pred.evalAny_congr (r1 r2 : Row) :
    (ps : List Pred) → (∀ t, t ∈ Pred.columnsRequiredList ps → r1 t = r2 t) →
      Pred.evalAny r1 ps = Pred.evalAny r2 ps
  | [], _ => rfl
  | p :: ps, h => by
    have h1 := Pred.eval_congr r1 r2 p (fun t ht => h t (by simp [Pred.columnsRequiredList, ht]))
    have h2 := Pred.evalAny_congr r1 r2 ps (fun t ht => h t (by simp [Pred.columnsRequiredList, ht]))
    simp [Pred.evalAny, h1, h2]
end

theorem Row.restrict_agree (r : Row) (c : Cols) : ∀ t, t ∈ c → (r.restrict c) t = r t := by
  intro t ht
  simp [Row.restrict, ht]

end DafRel
