/-
Slices: `Slice.then` is total and composes positional windows exactly; the lazy
`SliceRowIterable` enumeration equals Python slicing.
-/
import DafRel.Model.Sem
import DafRel.Model.IterExec

namespace DafRel

variable {α : Type}

/-- Closed form of `Slice.then` (with the empty-window clamp). -/
def sliceThenSpec (s1 : Nat) (e1 : Option Nat) (s2 : Nat) (e2 : Option Nat) : Nat × Option Nat :=
  (s1 + s2,
   match e1, e2 with
   | none, none => none
   | none, some b => some (max (b + s1) (s1 + s2))
   | some a, none => some (max a (s1 + s2))
   | some a, some b => some (max (min a (b + s1)) (s1 + s2)))

/-- `Slice.then` never raises and always returns the closed form. -/
theorem sliceThen_eq (s1 : Nat) (e1 : Option Nat) (s2 : Nat) (e2 : Option Nat) :
    UOp.sliceThen s1 e1 s2 e2
      = .ok (.slice (sliceThenSpec s1 e1 s2 e2).1 (sliceThenSpec s1 e1 s2 e2).2) := by
  unfold UOp.sliceThen UOp.mkSlice sliceThenSpec
  cases e1 <;> cases e2 <;> simp <;> grind

theorem getElem?_sliceList (s : Nat) (e : Option Nat) (l : List α) (i : Nat) :
    (sliceList s e l)[i]? =
      match e with
      | none => l[s + i]?
      | some e => if s + i < e then l[s + i]? else none := by
  cases e with
  | none => simp [sliceList, List.getElem?_drop]
  | some e =>
    simp only [sliceList, List.getElem?_drop, List.getElem?_take]

/-- The closed form selects exactly the rows the two slices select in sequence. -/
theorem sliceList_sliceList (s1 : Nat) (e1 : Option Nat) (s2 : Nat) (e2 : Option Nat) (l : List α) :
    sliceList s2 e2 (sliceList s1 e1 l)
      = sliceList (sliceThenSpec s1 e1 s2 e2).1 (sliceThenSpec s1 e1 s2 e2).2 l := by
  apply List.ext_getElem?
  intro i
  rw [getElem?_sliceList, getElem?_sliceList]
  unfold sliceThenSpec
  cases e1 <;> cases e2 <;> simp only [getElem?_sliceList] <;> grind

/-- Composition through the code's `Slice.then`. -/
theorem sliceThen_sound (s1 : Nat) (e1 : Option Nat) (s2 : Nat) (e2 : Option Nat) (s : Nat)
    (e : Option Nat) (h : UOp.sliceThen s1 e1 s2 e2 = .ok (.slice s e)) (l : List α) :
    sliceList s2 e2 (sliceList s1 e1 l) = sliceList s e l := by
  rw [sliceThen_eq] at h
  injection h with h
  injection h with h1 h2
  rw [sliceList_sliceList, h1, h2]

/-- The lazy enumeration of `SliceRowIterable` is Python slicing. -/
theorem sliceEnum_eq (s : Nat) (e : Option Nat) (l : List α) (n : Nat)
    (hn : ∀ e', e = some e' → n ≤ e') :
    sliceEnum s e n l = sliceList (s - n) (e.map (· - n)) l := by
  induction l generalizing n with
  | nil => cases e <;> simp [sliceEnum, sliceList]
  | cons x xs ih =>
    unfold sliceEnum
    cases e with
    | none =>
      have ih' := ih (n + 1) (by simp)
      by_cases h : n ≥ s
      · have : s - n = 0 := by omega
        have h' : s - (n + 1) = 0 := by omega
        simp [h, ih', sliceList, this, h']
      · have : s - n = (s - (n + 1)) + 1 := by omega
        simp [h, ih', sliceList, this]
    | some e =>
      have hle := hn e rfl
      by_cases he : e = n
      · subst he
        simp [sliceList]
      · have hne : ¬ (some e == some n) = true := by simp [he]
        have ih' := ih (n + 1) (by intro e' h; injection h with h; omega)
        simp only [hne, if_false, Bool.false_eq_true]
        have h1 : e - n = (e - (n + 1)) + 1 := by omega
        by_cases h : n ≥ s
        · have h0 : s - n = 0 := by omega
          have h' : s - (n + 1) = 0 := by omega
          simp only [h, if_true, ih', Option.map_some, sliceList, h0, h', List.drop_zero]
          simp [h1]
        · have h0 : s - n = (s - (n + 1)) + 1 := by omega
          simp only [h, if_false, ih', Option.map_some, sliceList]
          rw [h1, h0]
          simp

theorem sliceEnum_zero (s : Nat) (e : Option Nat) (l : List α) :
    sliceEnum s e 0 l = sliceList s e l := by
  rw [sliceEnum_eq _ _ _ _ (by intros; omega)]
  cases e <;> simp

end DafRel
