/-
Correctness of the iteration engine model (`Model/IterExec.lean`) against the reference
semantics (`Model/Sem.lean`): groundwork for C01 / C10 / C18.
-/
import DafRel.Model.IterExec
import DafRel.Lemmas.Metadata
import DafRel.Lemmas.Dedup
import DafRel.Lemmas.EvalVal
import DafRel.Lemmas.Lex

namespace DafRel

/-! ### Small monadic list lemmas -/

theorem mapM'_ok {α β : Type} (f : α → Except Err β) (g : α → β) (l : List α)
    (h : ∀ x, x ∈ l → f x = .ok (g x)) : mapM' f l = .ok (l.map g) := by
  induction l with
  | nil => rfl
  | cons x xs ih =>
    have hx := h x (by simp)
    have hxs := ih (fun y hy => h y (by simp [hy]))
    simp [mapM', hx, hxs]

theorem filterM'_ok {α : Type} (f : α → Except Err Bool) (p : α → Bool) (l : List α)
    (h : ∀ x, x ∈ l → f x = .ok (p x)) : filterM' f l = .ok (l.filter p) := by
  induction l with
  | nil => rfl
  | cons x xs ih =>
    have hx := h x (by simp)
    have hxs := ih (fun y hy => h y (by simp [hy]))
    simp only [filterM', hx, hxs, List.filter_cons]

theorem RowHasCols.hasAll {r : Row} {cols c : Cols} (h : RowHasCols r cols)
    (hc : c.subset cols = true) : r.hasAll c := by
  intro t ht
  exact (h t).mpr ((Cols.subset_iff c cols).mp hc t ht)

theorem StoreOK.log {σ : Leaves} {reg : Nat → Option (List Row)} {s : ExecState}
    (h : StoreOK σ reg s) (log : List Nat) : StoreOK σ reg { s with log := log } := h

theorem ExecState.payload_cons (s : ExecState) (oid : Nat) (it : Iterable) (o : Nat) :
    ({ s with payloads := (oid, it) :: s.payloads } : ExecState).payload o =
      if oid = o then some it else s.payload o := by
  simp only [ExecState.payload, List.find?_cons]
  by_cases h : oid = o
  · simp [h]
  · have : (oid == o) = false := by simpa using h
    simp [this, h]

theorem StoreOK.cons {σ : Leaves} {reg : Nat → Option (List Row)} {s : ExecState}
    (h : StoreOK σ reg s) (oid : Nat) (it : Iterable) (rows : List Row) (hi : ItOK it)
    (hr : reg oid = some rows) (hrows : it.rows σ = .ok rows) :
    StoreOK σ reg { s with payloads := (oid, it) :: s.payloads } := by
  intro o it' hp
  rw [ExecState.payload_cons] at hp
  by_cases ho : oid = o
  · rw [if_pos ho] at hp
    cases hp
    subst ho
    exact ⟨hi, rows, hr, hrows⟩
  · rw [if_neg ho] at hp
    exact h o it' hp

/-! ### `iterateS`, `sliced`, `materializedIt`, `toMapping` -/

theorem iterateS_ok (σ : Leaves) (it : Iterable) (s : ExecState) (rows : List Row)
    (h : it.rows σ = .ok rows) :
    iterateS σ it s = .ok (rows, { s with log := (it.events σ none).reverse ++ s.log }) := by
  simp [iterateS, iterate, h]

theorem slice_rows (σ : Leaves) (it : Iterable) (a : Nat) (b : Option Nat) (rows : List Row)
    (h : it.rows σ = .ok rows) : (Iterable.slice it a b).rows σ = .ok (sliceList a b rows) := by
  simp only [Iterable.rows, h, sliceEnum_zero]

theorem sliced_rows (σ : Leaves) (it : Iterable) (a : Nat) (b : Option Nat) (rows : List Row)
    (h : it.rows σ = .ok rows) : (sliced σ it a b).rows σ = .ok (sliceList a b rows) := by
  cases it with
  | seq r => simp only [Iterable.rows] at h; cases h; simp [sliced, Iterable.rows]
  | leafRef o => simp only [Iterable.rows] at h; cases h; simp [sliced, Iterable.rows]
  | _ => exact slice_rows σ _ a b rows h

theorem sliced_itOK (σ : Leaves) (it : Iterable) (a : Nat) (b : Option Nat) : ItOK (sliced σ it a b) := by
  cases it <;> simp [sliced, ItOK]

/-! ### First occurrences of lists without repetitions -/

theorem firstOccBy_of_pairwise {β : Type} [DecidableEq β] (f : Row → β) (seen : List β) (l : List Row)
    (hs : ∀ r, r ∈ l → f r ∉ seen) (hp : l.Pairwise (fun a b => f a ≠ f b)) :
    firstOccBy f seen l = l := by
  induction l generalizing seen with
  | nil => rfl
  | cons r rs ih =>
    have hr : f r ∉ seen := hs r (by simp)
    simp only [firstOccBy, hr, if_false]
    congr 1
    rw [List.pairwise_cons] at hp
    apply ih
    · intro x hx hm
      rcases List.mem_cons.mp hm with h | h
      · exact hp.1 x hx h.symm
      · exact hs x (List.mem_cons_of_mem _ hx) h
    · exact hp.2

theorem firstOccBy_spec {β : Type} [DecidableEq β] (f : Row → β) (seen : List β) (l : List Row) :
    (firstOccBy f seen l).Pairwise (fun a b => f a ≠ f b) ∧
      (∀ r, r ∈ firstOccBy f seen l → f r ∉ seen ∧ r ∈ l) := by
  induction l generalizing seen with
  | nil => simp [firstOccBy]
  | cons r rs ih =>
    simp only [firstOccBy]
    by_cases hr : f r ∈ seen
    · simp only [hr, if_true]
      refine ⟨(ih seen).1, fun x hx => ⟨((ih seen).2 x hx).1, List.mem_cons_of_mem _ ((ih seen).2 x hx).2⟩⟩
    · simp only [hr, if_false]
      have h := ih (f r :: seen)
      refine ⟨?_, ?_⟩
      · rw [List.pairwise_cons]
        refine ⟨?_, h.1⟩
        intro x hx he
        have := (h.2 x hx).1
        exact this (by simp [he])
      · intro x hx
        rcases List.mem_cons.mp hx with rfl | hx
        · exact ⟨hr, by simp⟩
        · have := h.2 x hx
          exact ⟨fun hm => this.1 (List.mem_cons_of_mem _ hm), List.mem_cons_of_mem _ this.2⟩

/-- A mapping whose key is (as a set) the key columns of `cols` is already deduplicated. -/
theorem firstOcc_of_mapping (cols k : Cols) (rows : List Row)
    (hk : k.seteq cols.keys = true) (hp : rows.Pairwise (fun a b => a.proj k ≠ b.proj k)) :
    firstOcc cols rows = rows := by
  rw [firstOcc, firstOccAux_eq_by]
  apply firstOccBy_of_pairwise
  · intro r _; simp
  · refine hp.imp ?_
    intro a b hab he
    apply hab
    have hag : a.agree b cols = true := (agree_iff_proj a b cols).mpr he
    apply (agree_iff_proj a b k).mp
    simp only [Row.agree, List.all_eq_true] at hag ⊢
    intro t ht
    have : t ∈ cols.keys := ((Cols.seteq_iff k cols.keys).mp hk t).mp ht
    exact hag t (List.mem_filter.mp this).1

/-- On key-determined rows with exactly the columns `cols`, first occurrences are pairwise
distinct on the key columns. -/
theorem firstOcc_pairwise_keys (cols : Cols) (rows : List Row) (_hc : RowsHaveCols rows cols)
    (hkd : rowsKeyDetermined cols rows = true) :
    (firstOcc cols rows).Pairwise (fun a b => a.proj cols.keys ≠ b.proj cols.keys) := by
  have h := firstOccBy_spec (fun r : Row => r.proj cols) [] rows
  rw [firstOcc, firstOccAux_eq_by]
  have hmem : ∀ r, r ∈ firstOccBy (fun r : Row => r.proj cols) [] rows → r ∈ rows := fun r hr => (h.2 r hr).2
  revert hmem
  generalize firstOccBy (fun r : Row => r.proj cols) [] rows = l at h
  intro hmem
  have hp := h.1
  clear h
  induction l with
  | nil => exact List.Pairwise.nil
  | cons a l ih =>
    rw [List.pairwise_cons] at hp ⊢
    refine ⟨?_, ih (fun r hr => hmem r (List.mem_cons_of_mem _ hr)) hp.2⟩
    intro b hb he
    apply hp.1 b hb
    simp only [rowsKeyDetermined, List.all_eq_true, Bool.or_eq_true, Bool.not_eq_true'] at hkd
    have := hkd a (hmem a (by simp)) b (hmem b (List.mem_cons_of_mem _ hb))
    rcases this with h1 | h1
    · have : a.agree b cols.keys = true := (agree_iff_proj a b _).mpr he
      rw [this] at h1; cases h1
    · exact (agree_iff_proj a b cols).mp h1

/-- `to_mapping` on the executed target of a deduplication. -/
theorem toMapping_correct (σ : Leaves) (it : Iterable) (cols : Cols) (s : ExecState) (rows : List Row)
    (hrows : it.rows σ = .ok rows) (hit : ItOK it) (hc : RowsHaveCols rows cols)
    (hkd : rowsKeyDetermined cols rows = true) :
    ∃ it' s', toMapping σ it cols.keys s = .ok (it', s') ∧ it'.rows σ = .ok (firstOcc cols rows) ∧
      ItOK it' ∧ s'.payloads = s.payloads := by
  have hd := dictDedup_eq_firstOcc cols rows hc hkd
  have hpw := firstOcc_pairwise_keys cols rows hc hkd
  cases it with
  | mapping k r =>
    simp only [Iterable.rows] at hrows
    cases hrows
    simp only [toMapping]
    by_cases hk : k.seteq cols.keys = true
    · rw [if_pos hk]
      refine ⟨_, _, rfl, ?_, hit, rfl⟩
      simp only [Iterable.rows]
      rw [firstOcc_of_mapping cols k rows hk hit]
    · rw [if_neg hk]
      simp only [hd]
      exact ⟨_, _, rfl, rfl, hpw, rfl⟩
  | seq r => simp only [toMapping, toMappingVia, iterateS_ok σ _ s rows hrows, hd]; exact ⟨_, _, rfl, rfl, hpw, rfl⟩
  | leafRef o => simp only [toMapping, toMappingVia, iterateS_ok σ _ s rows hrows, hd]; exact ⟨_, _, rfl, rfl, hpw, rfl⟩
  | «calc» t tag e => simp only [toMapping, toMappingVia, iterateS_ok σ _ s rows hrows, hd]; exact ⟨_, _, rfl, rfl, hpw, rfl⟩
  | proj t c => simp only [toMapping, toMappingVia, iterateS_ok σ _ s rows hrows, hd]; exact ⟨_, _, rfl, rfl, hpw, rfl⟩
  | sel t p => simp only [toMapping, toMappingVia, iterateS_ok σ _ s rows hrows, hd]; exact ⟨_, _, rfl, rfl, hpw, rfl⟩
  | slice t x y => simp only [toMapping, toMappingVia, iterateS_ok σ _ s rows hrows, hd]; exact ⟨_, _, rfl, rfl, hpw, rfl⟩
  | chain x y => simp only [toMapping, toMappingVia, iterateS_ok σ _ s rows hrows, hd]; exact ⟨_, _, rfl, rfl, hpw, rfl⟩

/-! ### One step of `execute` -/

theorem sortCols_mem (ts : List SortTerm) (t : SortTerm) (ht : t ∈ ts) (c : Tag)
    (hc : c ∈ t.expr.columnsRequired) : c ∈ UOp.sortCols ts := by
  induction ts with
  | nil => cases ht
  | cons u us ih =>
    simp only [UOp.sortCols, List.mem_append]
    rcases List.mem_cons.mp ht with rfl | h
    · exact Or.inl hc
    · exact Or.inr (ih h)

/-- The executed form of one operation has the rows the reference semantics prescribes, never
fails on well-formed input, and leaves the payload store alone. -/
theorem execOp_correct (σ : Leaves) (op : UOp) (tcols : Cols) (tr : Iterable) (s : ExecState)
    (rows : List Row) (hrows : tr.rows σ = .ok rows) (hit : ItOK tr)
    (hc : RowsHaveCols rows tcols) (hwf : op.wfOn tcols = true) (hid : op.isIdentity = false)
    (har : op.arityOk = true)
    (hkd : (match op with
            | .dedup => rowsKeyDetermined (op.appliedColumns tcols) rows
            | _ => true) = true) :
    ∃ it s', execOp σ op (op.appliedColumns tcols) tr s = .ok (it, s') ∧
      it.rows σ = .ok (op.sem (op.appliedColumns tcols) rows) ∧ ItOK it ∧
      s'.payloads = s.payloads := by
  simp only [UOp.wfOn, Bool.and_eq_true] at hwf
  obtain ⟨hreq, _⟩ := hwf
  cases op with
  | identity => simp [UOp.isIdentity] at hid
  | «calc» tag e =>
    refine ⟨_, _, rfl, ?_, trivial, rfl⟩
    simp only [Iterable.rows, hrows, UOp.sem]
    apply mapM'_ok
    intro r hr
    have := Expr.eval_eq_val r e (by simpa [UOp.arityOk] using har)
      ((hc r hr).hasAll (by simpa [UOp.columnsRequired] using hreq))
    simp [this]
  | dedup =>
    have hcols : UOp.appliedColumns .dedup tcols = tcols := rfl
    simp only [hcols] at hkd ⊢
    obtain ⟨it', s', h1, h2, h3, h4⟩ := toMapping_correct σ tr tcols s rows hrows hit hc hkd
    exact ⟨it', s', by simpa [execOp] using h1, by simpa [UOp.sem] using h2, h3, h4⟩
  | proj c =>
    refine ⟨_, _, rfl, ?_, trivial, rfl⟩
    simp only [Iterable.rows, hrows, UOp.sem]
    have : rows.all (fun r => c.all (fun k => (r k).isSome)) = true := by
      simp only [List.all_eq_true]
      intro r hr k hk
      exact (hc r hr).hasAll (by simpa [UOp.columnsRequired] using hreq) k hk
    rw [if_pos this]
  | sel p =>
    refine ⟨_, _, rfl, ?_, trivial, rfl⟩
    simp only [Iterable.rows, hrows, UOp.sem]
    apply filterM'_ok
    intro r hr
    have := Pred.eval_eq_val r p (by simpa [UOp.arityOk] using har)
      ((hc r hr).hasAll (by simpa [UOp.columnsRequired] using hreq))
    simp [this]
  | slice a b =>
    exact ⟨_, _, rfl, by simpa [UOp.sem] using sliced_rows σ tr a b rows hrows, sliced_itOK σ tr a b, rfl⟩
  | sort ts =>
    have hall : rows.all (fun row => ts.all (fun t => (t.expr.eval row).isSome)) = true := by
      simp only [List.all_eq_true]
      intro r hr t ht
      simp only [UOp.arityOk, List.all_eq_true] at har
      have hsub : t.expr.columnsRequired.subset tcols = true := by
        rw [Cols.subset_iff]
        intro c hcm
        exact (Cols.subset_iff _ _).mp (by simpa [UOp.columnsRequired] using hreq) c
          (sortCols_mem ts t ht c hcm)
      have := Expr.eval_eq_val r t.expr (har t ht) ((hc r hr).hasAll hsub)
      simp [this]
    refine ⟨.seq (multipassSort ts rows), { s with log := (tr.events σ none).reverse ++ s.log }, ?_, ?_, trivial, rfl⟩
    · simp only [execOp, iterateS_ok σ tr s rows hrows, hall, if_true]
    · simp only [Iterable.rows, UOp.sem, multipassSort_eq]

theorem materializedIt_correct (σ : Leaves) (it : Iterable) (s : ExecState) (rows : List Row)
    (hrows : it.rows σ = .ok rows) (hit : ItOK it) :
    ∃ it' s', materializedIt σ it s = .ok (it', s') ∧ it'.rows σ = .ok rows ∧ ItOK it' ∧
      s'.payloads = s.payloads := by
  cases it with
  | seq r => exact ⟨_, _, rfl, hrows, hit, rfl⟩
  | mapping k r => exact ⟨_, _, rfl, hrows, hit, rfl⟩
  | leafRef o => exact ⟨_, _, rfl, hrows, hit, rfl⟩
  | «calc» t tag e => simp only [materializedIt, materializeVia, iterateS_ok σ _ s rows hrows]; exact ⟨_, _, rfl, rfl, trivial, rfl⟩
  | proj t c => simp only [materializedIt, materializeVia, iterateS_ok σ _ s rows hrows]; exact ⟨_, _, rfl, rfl, trivial, rfl⟩
  | sel t p => simp only [materializedIt, materializeVia, iterateS_ok σ _ s rows hrows]; exact ⟨_, _, rfl, rfl, trivial, rfl⟩
  | slice t x y => simp only [materializedIt, materializeVia, iterateS_ok σ _ s rows hrows]; exact ⟨_, _, rfl, rfl, trivial, rfl⟩
  | chain x y => simp only [materializedIt, materializeVia, iterateS_ok σ _ s rows hrows]; exact ⟨_, _, rfl, rfl, trivial, rfl⟩

theorem StoreOK.of_payloads_eq {σ : Leaves} {reg : Nat → Option (List Row)} {s s' : ExecState}
    (h : StoreOK σ reg s) (he : s'.payloads = s.payloads) : StoreOK σ reg s' := by
  intro o it hp
  apply h o it
  simpa [ExecState.payload, he] using hp

/-! ### The whole of `execute` -/

/-- What `execute` must deliver for the relation `r`. -/
def ExecGood (σ : Leaves) (reg : Nat → Option (List Row)) (r : Rel)
    (x : Except Err (Iterable × ExecState)) : Prop :=
  ∃ it s', x = .ok (it, s') ∧ it.rows σ = .ok (sem σ r) ∧ ItOK it ∧ StoreOK σ reg s'

theorem payloadIt_correct (σ : Leaves) (reg : Nat → Option (List Row)) (r : Rel) (s : ExecState)
    (hreg : r.RegOK σ reg) (hs : StoreOK σ reg s) (p : Iterable) (hp : r.payloadIt s = some p) :
    p.rows σ = .ok (sem σ r) ∧ ItOK p := by
  cases r with
  | leaf oid eng cols name mn mx pl msgs =>
    simp only [Rel.payloadIt] at hp
    split at hp
    · cases hp; exact ⟨rfl, trivial⟩
    · cases hp
  | unary op t cols => simp [Rel.payloadIt] at hp
  | binary op l rr cols => simp [Rel.payloadIt] at hp
  | mat oid name t =>
    simp only [Rel.payloadIt, Rel.oid] at hp
    obtain ⟨hi, rows, hr, hrows⟩ := hs oid p hp
    simp only [Rel.RegOK] at hreg
    rw [hreg.1] at hr
    cases hr
    exact ⟨hrows, hi⟩
  | transfer oid d t =>
    simp only [Rel.payloadIt, Rel.oid] at hp
    obtain ⟨hi, rows, hr, hrows⟩ := hs oid p hp
    simp only [Rel.RegOK] at hreg
    rw [hreg.1] at hr
    cases hr
    exact ⟨hrows, hi⟩
  | select oid so pr dd s1 s2 sk ic t =>
    simp only [Rel.payloadIt, Rel.oid] at hp
    obtain ⟨hi, rows, hr, hrows⟩ := hs oid p hp
    simp only [Rel.RegOK] at hreg
    rw [hreg.1] at hr
    cases hr
    exact ⟨hrows, hi⟩

/-- The part of `execute` that does not depend on the node class: engine check, the two
metadata short-cuts (sound by C06) and the cached payload. -/
theorem exec_shortcuts (σ : Leaves) (reg : Nat → Option (List Row)) (r : Rel) (self : Engine)
    (s : ExecState) (he : r.engine = self) (hwf : r.WF) (htr : r.Truthful σ)
    (hreg : r.RegOK σ reg) (hs : StoreOK σ reg s) (node : Except Err (Iterable × ExecState))
    (hnode : r.payloadIt s = none → ExecGood σ reg r node) :
    ExecGood σ reg r
      (if r.engine != self then .error .engine
       else if r.maxRows == some 0 then .ok (.seq [], s)
       else if r.isJoinIdentity then .ok (.seq [Row.empty], s)
       else match r.payloadIt s with
         | some p => .ok (p, s)
         | none => node) := by
  have h1 : (r.engine != self) = false := by simp [he]
  rw [h1]
  simp only [Bool.false_eq_true, if_false]
  by_cases h0 : r.maxRows = some 0
  · have : (r.maxRows == some 0) = true := by simp [h0]
    rw [if_pos this]
    exact ⟨_, _, rfl, by simp [Iterable.rows, maxRows_zero_sound σ r hwf htr h0], trivial, hs⟩
  · have : ¬ ((r.maxRows == some 0) = true) := by simpa using h0
    rw [if_neg this]
    by_cases hj : r.isJoinIdentity = true
    · rw [if_pos hj]
      exact ⟨_, _, rfl, by simp [Iterable.rows, joinIdentity_sound σ r hwf htr hj], trivial, hs⟩
    · rw [if_neg hj]
      cases hp : r.payloadIt s with
      | some p =>
        obtain ⟨h2, h3⟩ := payloadIt_correct σ reg r s hreg hs p hp
        exact ⟨_, _, rfl, h2, h3, hs⟩
      | none => exact hnode hp

/-- **Iteration engine correctness.**  For every tree the iteration engine is documented to
execute that is well-formed, over truthful leaves, with key-determined input to every
deduplication, starting from any store whose cached payloads are right, `execute` succeeds and
the rows of its result are exactly the reference semantics; the store stays right. -/
theorem exec_correct (σ : Leaves) (reg : Nat → Option (List Row)) :
    (r : Rel) → (self : Engine) → (s : ExecState) →
    r.IterOK → r.WF → r.Truthful σ → keyDetermined σ r = true → r.RegOK σ reg → StoreOK σ reg s →
    r.engine = self → ExecGood σ reg r (exec σ self r s)
  | .leaf oid eng cols name mn mx pl msgs, self, s, hio, hwf, htr, _, hreg, hs, he => by
    rw [exec]
    refine exec_shortcuts σ reg _ self s he hwf htr hreg hs _ ?_
    intro hp
    simp only [Rel.IterOK] at hio
    simp [Rel.payloadIt, hio] at hp
  | .unary op t cols, self, s, hio, hwf, htr, hkd, hreg, hs, he => by
    rw [exec]
    refine exec_shortcuts σ reg _ self s he hwf htr hreg hs _ ?_
    intro _
    simp only [Rel.IterOK] at hio
    simp only [Rel.WF] at hwf
    simp only [Rel.Truthful] at htr
    simp only [keyDetermined, Bool.and_eq_true] at hkd
    simp only [Rel.RegOK] at hreg
    obtain ⟨it, s1, h1, h2, h3, h4⟩ :=
      exec_correct σ reg t self s hio.1 hwf.1 htr hkd.1 hreg hs (by simpa [Rel.engine] using he)
    have hm := metadata_truthful σ t hwf.1 htr
    obtain ⟨hc, hop⟩ := hwf.2
    subst hc
    obtain ⟨it', s', g1, g2, g3, g4⟩ := execOp_correct σ op t.columns it s1 (sem σ t) h2 h3 hm.keys hop
      hio.2.1 hio.2.2 (by
        cases op <;> first | rfl | exact hkd.2)
    refine ⟨it', s', ?_, by simpa [sem] using g2, g3, h4.of_payloads_eq g4⟩
    simp only [h1, g1]
  | .binary op l rr cols, self, s, hio, hwf, htr, hkd, hreg, hs, he => by
    rw [exec.eq_def]
    refine exec_shortcuts σ reg _ self s he hwf htr hreg hs _ ?_
    intro _
    simp only [Rel.IterOK] at hio
    obtain ⟨hl, hr, heng, hop⟩ := hio
    cases op with
    | join j => cases hop
    | ignoreOne b => cases hop
    | chain =>
      simp only [Rel.WF] at hwf
      simp only [Rel.Truthful] at htr
      simp only [keyDetermined, Bool.and_eq_true] at hkd
      simp only [Rel.RegOK] at hreg
      have hel : l.engine = self := by simpa [Rel.engine] using he
      obtain ⟨a, s1, h1, h2, _, h4⟩ := exec_correct σ reg l self s hl hwf.1 htr.1 hkd.1 hreg.1 hs hel
      obtain ⟨b, s2, g1, g2, _, g4⟩ :=
        exec_correct σ reg rr self s1 hr hwf.2.1 htr.2 hkd.2 hreg.2 h4 (by rw [← heng, hel])
      refine ⟨.chain a b, s2, ?_, ?_, trivial, g4⟩
      · simp only [h1, g1]
      · simp only [Iterable.rows, h2, g2, sem]
  | .mat oid name t, self, s, hio, hwf, htr, hkd, hreg, hs, he => by
    rw [exec]
    refine exec_shortcuts σ reg _ self s he hwf htr hreg hs _ ?_
    intro _
    simp only [Rel.IterOK] at hio
    simp only [Rel.WF] at hwf
    simp only [Rel.Truthful] at htr
    simp only [keyDetermined] at hkd
    simp only [Rel.RegOK] at hreg
    obtain ⟨it, s1, h1, h2, h3, h4⟩ :=
      exec_correct σ reg t self s hio hwf htr hkd hreg.2 hs (by simpa [Rel.engine] using he)
    obtain ⟨it', s2, g1, g2, g3, g4⟩ := materializedIt_correct σ it s1 (sem σ t) h2 h3
    refine ⟨it', { s2 with payloads := (oid, it') :: s2.payloads, evals := oid :: s2.evals }, ?_,
      by simpa [sem] using g2, g3, ?_⟩
    · simp only [h1, g1]
    · exact StoreOK.of_payloads_eq ((h4.of_payloads_eq g4).cons oid it' (sem σ t) g3 hreg.1 g2) rfl
  | .transfer oid d t, self, s, hio, hwf, htr, hkd, hreg, hs, he => by
    rw [exec]
    refine exec_shortcuts σ reg _ self s he hwf htr hreg hs _ ?_
    intro _
    simp only [Rel.IterOK] at hio
    simp only [Rel.WF] at hwf
    simp only [Rel.Truthful] at htr
    simp only [keyDetermined] at hkd
    simp only [Rel.RegOK] at hreg
    obtain ⟨it, s1, h1, h2, h3, h4⟩ := exec_correct σ reg t t.engine s hio.1 hwf htr hkd hreg.2 hs rfl
    refine ⟨it, s1, ?_, by simpa [sem] using h2, h3, h4⟩
    simp only [hio.2, h1]
  | .select oid so pr dd s1 s2 sk ic t, self, s, hio, hwf, htr, hkd, hreg, hs, he => by
    rw [exec.eq_def]
    refine exec_shortcuts σ reg _ self s he hwf htr hreg hs _ ?_
    intro _
    simp only [Rel.IterOK] at hio
    simp only [Rel.WF] at hwf
    simp only [Rel.Truthful] at htr
    simp only [keyDetermined] at hkd
    simp only [Rel.RegOK] at hreg
    obtain ⟨it, s1, h1, h2, h3, h4⟩ :=
      exec_correct σ reg t self s hio hwf htr hkd hreg.2 hs (by simpa [Rel.engine] using he)
    exact ⟨it, s1, by simp only [h1], by simpa [sem] using h2, h3, h4⟩

/-! ### Consistent marker ids: a registry exists -/

def regOf (m : List (Nat × List Row)) : Nat → Option (List Row) :=
  fun o => (m.find? (fun p => p.1 == o)).map (·.2)

theorem regOf_mem (m : List (Nat × List Row))
    (hc : ∀ p q, p ∈ m → q ∈ m → p.1 = q.1 → p.2 = q.2) (p : Nat × List Row) (hp : p ∈ m) :
    regOf m p.1 = some p.2 := by
  unfold regOf
  cases hf : m.find? (fun q => q.1 == p.1) with
  | none =>
    have := List.find?_eq_none.mp hf p hp
    simp at this
  | some q =>
    have hq := List.mem_of_find?_eq_some hf
    have hq1 : q.1 = p.1 := by simpa using List.find?_some hf
    simp [hc q p hq hp hq1]

theorem RegOK_of_markers (σ : Leaves) (reg : Nat → Option (List Row)) :
    (r : Rel) → (∀ p, p ∈ r.markers σ → reg p.1 = some p.2) → r.RegOK σ reg
  | .leaf .., _ => trivial
  | .unary _ t _, h => RegOK_of_markers σ reg t (by simpa [Rel.markers] using h)
  | .binary _ l r _, h => by
    simp only [Rel.RegOK]
    exact ⟨RegOK_of_markers σ reg l (fun p hp => h p (by simp [Rel.markers, hp])),
           RegOK_of_markers σ reg r (fun p hp => h p (by simp [Rel.markers, hp]))⟩
  | .mat oid _ t, h => by
    simp only [Rel.RegOK]
    exact ⟨h (oid, sem σ t) (by simp [Rel.markers]),
      RegOK_of_markers σ reg t (fun p hp => h p (by simp [Rel.markers, hp]))⟩
  | .transfer oid _ t, h => by
    simp only [Rel.RegOK]
    exact ⟨h (oid, sem σ t) (by simp [Rel.markers]),
      RegOK_of_markers σ reg t (fun p hp => h p (by simp [Rel.markers, hp]))⟩
  | .select oid _ _ _ _ _ _ _ t, h => by
    simp only [Rel.RegOK]
    exact ⟨h (oid, sem σ t) (by simp [Rel.markers]),
      RegOK_of_markers σ reg t (fun p hp => h p (by simp [Rel.markers, hp]))⟩

theorem RegOK_of_consistent (σ : Leaves) (r : Rel) (h : r.MarkersConsistent σ) :
    r.RegOK σ (regOf (r.markers σ)) :=
  RegOK_of_markers σ _ r (fun p hp => regOf_mem _ h p hp)

theorem StoreOK_empty (σ : Leaves) (reg : Nat → Option (List Row)) : StoreOK σ reg {} := by
  intro o it h
  simp [ExecState.payload] at h

end DafRel
