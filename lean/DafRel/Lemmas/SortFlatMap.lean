/-
A stable sort commutes with a `flatMap` whose blocks carry the key of the element they come from:
sorting the expanded list = expanding the sorted list.  Used for a join whose TARGET is the left (outer)
operand of the nested loop, moved upstream of a Sort (C04, `PartialJoin.commute`).
-/
import DafRel.Lemmas.Sort

namespace DafRel

variable {α β : Type}

theorem insertSorted_skip (le : β → β → Bool) (x : β) (ys rest : List β) (h : ∀ y, y ∈ ys → le x y = false) :
    insertSorted le x (ys ++ rest) = ys ++ insertSorted le x rest := by
  induction ys with
  | nil => rfl
  | cons y ys ih =>
    have hy : le x y = false := h y (by simp)
    have := ih (fun z hz => h z (by simp [hz]))
    simp [insertSorted, hy, this]

theorem foldr_insert_skip (le : β → β → Bool) (xs ys rest : List β)
    (h : ∀ x, x ∈ xs → ∀ y, y ∈ ys → le x y = false) :
    xs.foldr (insertSorted le) (ys ++ rest) = ys ++ xs.foldr (insertSorted le) rest := by
  induction xs with
  | nil => rfl
  | cons x xs ih =>
    simp only [List.foldr_cons]
    rw [ih (fun z hz => h z (by simp [hz]))]
    exact insertSorted_skip le x ys _ (h x (by simp))

theorem foldr_insert_front (le : β → β → Bool) (xs L : List β)
    (hxx : ∀ x, x ∈ xs → ∀ y, y ∈ xs → le x y = true) (hxL : ∀ x, x ∈ xs → ∀ y, y ∈ L → le x y = true) :
    xs.foldr (insertSorted le) L = xs ++ L := by
  induction xs with
  | nil => rfl
  | cons x xs ih =>
    simp only [List.foldr_cons]
    rw [ih (fun a ha b hb => hxx a (by simp [ha]) b (by simp [hb])) (fun a ha b hb => hxL a (by simp [ha]) b hb)]
    apply insertSorted_of_le_all
    intro z hz
    rcases List.mem_append.mp hz with hz | hz
    · exact hxx x (by simp) z (by simp [hz])
    · exact hxL x (by simp) z hz

theorem isort_append (le : β → β → Bool) (xs ys : List β) :
    isort le (xs ++ ys) = xs.foldr (insertSorted le) (isort le ys) := by
  induction xs with
  | nil => rfl
  | cons x xs ih => simp [isort, ih]

/-- Inserting the block of `a` into the expansion of a sorted list = expanding the list with `a` inserted. -/
theorem insert_block (le : β → β → Bool) (le' : α → α → Bool) (g : α → List β) (ht : Total le') (tr : Trans le')
    (a : α) : (S : List α) → Sorted le' S →
    (∀ u v, (u = a ∨ u ∈ S) → (v = a ∨ v ∈ S) → ∀ x y, x ∈ g u → y ∈ g v → le x y = le' u v) →
    (g a).foldr (insertSorted le) (S.flatMap g) = (insertSorted le' a S).flatMap g
  | [], _, hkey => by
    simp only [List.flatMap_nil, insertSorted, List.flatMap_cons, List.append_nil]
    have := foldr_insert_front le (g a) []
      (fun x hx y hy => by
        rw [hkey a a (Or.inl rfl) (Or.inl rfl) x y hx hy]
        rcases ht a a with h | h <;> exact h)
      (fun _ _ _ hy => by cases hy)
    simpa using this
  | b :: S', hS, hkey => by
    have hS' : Sorted le' S' := (List.pairwise_cons.mp hS).2
    have hbS : ∀ c, c ∈ S' → le' b c = true := (List.pairwise_cons.mp hS).1
    unfold insertSorted
    by_cases hab : le' a b = true
    · simp only [hab, if_true]
      rw [List.flatMap_cons (x := a)]
      apply foldr_insert_front
      · intro x hx y hy
        rw [hkey a a (Or.inl rfl) (Or.inl rfl) x y hx hy]
        rcases ht a a with h | h <;> exact h
      · intro x hx y hy
        obtain ⟨c, hc, hyc⟩ := List.mem_flatMap.mp hy
        rw [hkey a c (Or.inl rfl) (Or.inr hc) x y hx hyc]
        rcases List.mem_cons.mp hc with rfl | hc'
        · exact hab
        · exact tr a b c hab (hbS c hc')
    · have hab' : le' a b = false := by simpa using hab
      simp only [hab', Bool.false_eq_true, if_false, List.flatMap_cons]
      rw [foldr_insert_skip le (g a) (g b) _
        (fun x hx y hy => by rw [hkey a b (Or.inl rfl) (Or.inr (by simp)) x y hx hy]; exact hab')]
      congr 1
      exact insert_block le le' g ht tr a S' hS'
        (fun u v hu hv => hkey u v (hu.imp id (fun h => by simp [h])) (hv.imp id (fun h => by simp [h])))

/-- **A stable sort commutes with a key-preserving expansion.** -/
theorem isort_flatMap (le : β → β → Bool) (le' : α → α → Bool) (g : α → List β) (ht : Total le') (tr : Trans le') :
    (l : List α) → (∀ u v, u ∈ l → v ∈ l → ∀ x y, x ∈ g u → y ∈ g v → le x y = le' u v) →
    isort le (l.flatMap g) = (isort le' l).flatMap g
  | [], _ => rfl
  | a :: l', hkey => by
    simp only [List.flatMap_cons, isort]
    rw [isort_append, isort_flatMap le le' g ht tr l' (fun u v hu hv => hkey u v (by simp [hu]) (by simp [hv]))]
    apply insert_block le le' g ht tr a _ (sorted_isort ht tr l')
    intro u v hu hv
    apply hkey
    · rcases hu with rfl | hu
      · simp
      · simp [(mem_isort le' u l').mp hu]
    · rcases hv with rfl | hv
      · simp
      · simp [(mem_isort le' v l').mp hv]

end DafRel
