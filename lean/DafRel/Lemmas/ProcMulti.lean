/-
The Processor on a tree over several iteration engines (transfers between iteration engines, materializations of
single-engine subtrees): whenever processing succeeds, the returned tree has the rows, columns and engine of the
input, is executable, and the payload store is right for it - with the registry of marker contents extended at the
fresh allocation ids of the nodes the Processor created.
-/
import DafRel.Lemmas.ProcIter
import DafRel.Lemmas.ProcBasics
import DafRel.Lemmas.Metadata
import DafRel.Lemmas.Build
import DafRel.Lemmas.SqlRunSound

namespace DafRel

variable {sq0 : SqlState}

/-- `reg'` agrees with `reg` on all ids below `n`. -/
def RegExt (reg reg' : Nat → Option (List Row)) (n : Nat) : Prop := ∀ o, o < n → reg' o = reg o

theorem RegExt.refl (reg : Nat → Option (List Row)) (n : Nat) : RegExt reg reg n := fun _ _ => rfl

theorem RegExt.trans {r1 r2 r3 : Nat → Option (List Row)} {n m : Nat} (h1 : RegExt r1 r2 n) (h2 : RegExt r2 r3 m)
    (hnm : n ≤ m) : RegExt r1 r3 n := fun o ho => (h2 o (Nat.lt_of_lt_of_le ho hnm)).trans (h1 o ho)

theorem markersBelow_mono {n m : Nat} (hnm : n ≤ m) : (t : Rel) → t.markersBelow n → t.markersBelow m
  | .leaf .., _ => trivial
  | .unary _ t _, h => markersBelow_mono hnm t h
  | .binary _ l r _, h => ⟨markersBelow_mono hnm l h.1, markersBelow_mono hnm r h.2⟩
  | .mat _ _ t, h => ⟨Nat.lt_of_lt_of_le h.1 hnm, markersBelow_mono hnm t h.2⟩
  | .transfer _ _ t, h => ⟨Nat.lt_of_lt_of_le h.1 hnm, markersBelow_mono hnm t h.2⟩
  | .select _ _ _ _ _ _ _ _ t, h => ⟨Nat.lt_of_lt_of_le h.1 hnm, markersBelow_mono hnm t h.2⟩

theorem RegOK_ext (σ : Leaves) {reg reg' : Nat → Option (List Row)} {n : Nat} (he : RegExt reg reg' n) :
    (t : Rel) → t.RegOK σ reg → t.markersBelow n → t.RegOK σ reg'
  | .leaf .., _, _ => trivial
  | .unary _ t _, h, hb => RegOK_ext σ he t h hb
  | .binary _ l r _, h, hb => ⟨RegOK_ext σ he l h.1 hb.1, RegOK_ext σ he r h.2 hb.2⟩
  | .mat oid _ t, h, hb => ⟨by rw [he oid hb.1]; exact h.1, RegOK_ext σ he t h.2 hb.2⟩
  | .transfer oid _ t, h, hb => ⟨by rw [he oid hb.1]; exact h.1, RegOK_ext σ he t h.2 hb.2⟩
  | .select oid _ _ _ _ _ _ _ t, h, hb => ⟨by rw [he oid hb.1]; exact h.1, RegOK_ext σ he t h.2 hb.2⟩

/-- Registering the rows of a fresh marker. -/
def regSet (reg : Nat → Option (List Row)) (f : Nat) (rows : List Row) : Nat → Option (List Row) :=
  fun o => if o = f then some rows else reg o

theorem regSet_ext (reg : Nat → Option (List Row)) (f : Nat) (rows : List Row) : RegExt reg (regSet reg f rows) f :=
  fun o ho => by simp [regSet, Nat.ne_of_lt ho]

/-- Attaching a payload at `f` and registering its rows keeps the store right. -/
theorem StoreOK_set {σ : Leaves} {reg : Nat → Option (List Row)} {s : ExecState} (h : StoreOK σ reg s)
    (f : Nat) (it : Iterable) (rows : List Row) (hi : ItOK it) (hrows : it.rows σ = .ok rows) :
    StoreOK σ (regSet reg f rows) { s with payloads := (f, it) :: s.payloads } := by
  intro o it' hp
  rw [ExecState.payload_cons] at hp
  by_cases ho : f = o
  · rw [if_pos ho] at hp
    cases hp
    subst ho
    exact ⟨hi, rows, by simp [regSet], hrows⟩
  · rw [if_neg ho] at hp
    obtain ⟨a, rs, b, c⟩ := h o it' hp
    have hne : ¬ o = f := fun h => ho h.symm
    exact ⟨a, rs, by simp [regSet, hne, b], c⟩

/-- The `transfer` hook between two iteration engines (the source may contain processed Transfers out of a
database: they hold payloads). -/
theorem hookTransfer_iter (σ : Leaves) (reg : Nat → Option (List Row)) (t : Rel) (dest : Engine)
    (matAs : Option String) (s : ProcState) (hd : dest.kind = .iter)
    (hk : t.engine.kind = .iter) (hio : t.IterOKs s.st) (hwf : t.WF) (htr : t.Truthful σ)
    (hkd : keyDetermined σ t = true) (hreg : t.RegOK σ reg) (hs : StoreOK σ reg s.st) (hac : t.Acyclic) :
    ∃ s', (hookTransfer σ t dest matAs) s = (.ok (.iter (.seq (sem σ t))), s') ∧ StoreOK σ reg s'.st ∧
      s'.sq = s.sq ∧ s'.nextTemp = s.nextTemp ∧ PayMono s.st s'.st ∧ PayNew t s.st s'.st ∧ PayKeep s.st s'.st := by
  obtain ⟨it, st', h1, h2, h3, h4, h5⟩ : ∃ it st', exec σ t.engine t { s.st with log := [] } = .ok (it, st') ∧
      it.rows σ = .ok (sem σ t) ∧ StoreOK σ reg st' ∧ PayMono s.st st' ∧ PayNew t s.st st' := by
    have hm0 : PayMono s.st { s.st with log := [] } := PayMono.of_payloads_eq rfl
    have := exec_correctM σ reg t t.engine { s.st with log := [] } (IterOKs.mono hm0 t hio) hwf htr hkd hreg
      (hs.log []) rfl
    unfold ExecGoodM at this
    obtain ⟨it, s', a, b, _, d, e, f⟩ := this
    exact ⟨it, s', a, b, d, hm0.trans e, fun o ho => f o ho⟩
  unfold hookTransfer evalSingle wrapRows
  simp [bind, ExceptT.bind, ExceptT.mk, ExceptT.bindCont, StateT.bind, get, getThe, MonadStateOf.get,
    StateT.get, set, StateT.set, modify, modifyGet, MonadStateOf.modifyGet, StateT.modifyGet, MonadState.modifyGet,
    liftM, monadLift, MonadLift.monadLift, ExceptT.lift, pure,
    ExceptT.pure, StateT.pure, Functor.map, StateT.map, hk, hd, h1, h2]
  have hfr := exec_frame σ t t.engine _ it st' hac h1
  exact ⟨_, rfl, h3.of_payloads_eq rfl, rfl, rfl, fun o ho => h4 o ho, fun o ho => h5 o ho,
    fun o p hp => hfr.mono o p hp⟩

theorem run_ok_inj {α β : Type} {a a' : α} {e : Type} {s s' : β}
    (h : ((Except.ok a : Except e α), s) = (Except.ok a', s')) : a = a' ∧ s = s' := by
  injection h with h1 h2
  injection h1 with h1
  exact ⟨h1, h2⟩

/-- The `transfer` hook on a source that lives in a SQL engine (destination: an iteration engine): the source is
conformed, compiled and run; whenever that succeeds, the payload handed back is the row sequence of the direct
evaluation of the source. -/
theorem hookTransfer_sql (σ : Leaves) (x : Rel) (dest : Engine) (matAs : Option String) (s : ProcState)
    (hd : dest.kind = .iter) (hk : x.engine.kind = .sql) (hwf : x.WF) (htr : x.Truthful σ) (hraw : x.RawSql)
    (hF : x.Faithful s.sq s.sq.tables σ) (h0 : s.sq.payload 0 = none)
    (hready : ∀ c, conform s.store defaultFuel x = .ok c → (c.get x).structReady s.sq = true)
    (p : AnyPayload) (s' : ProcState) (h : hookTransfer σ x dest matAs s = (.ok p, s')) :
    p = .iter (.seq (sem σ x)) ∧ s'.st = s.st ∧ s'.sq = s.sq ∧ s'.nextTemp = s.nextTemp := by
  have gI : Good (payInv s.sq s.sq.tables σ h0) σ x :=
    raw_goodI σ x hwf htr hraw (atomsOK_of_faithful s.sq s.sq.tables σ h0 x hraw hF)
  unfold hookTransfer evalSingle wrapRows at h
  simp [bind, ExceptT.bind, ExceptT.mk, ExceptT.bindCont, StateT.bind, get, getThe, MonadStateOf.get,
    StateT.get, set, StateT.set, modify, modifyGet, MonadStateOf.modifyGet, StateT.modifyGet, MonadState.modifyGet,
    liftM, monadLift, MonadLift.monadLift, ExceptT.lift, pure,
    ExceptT.pure, StateT.pure, Functor.map, StateT.map, hk, hd] at h
  simp only [ProcState.store] at h hready
  cases hc : conform (s.st.store ++ List.map (fun p => (p.fst, p.fst)) s.sq.payloads) defaultFuel x with
  | error e =>
    simp only [hc, throw, throwThe, MonadExceptOf.throw, ExceptT.mk, pure, StateT.pure] at h
    injection h with h1 _; cases h1
  | ok c =>
    obtain ⟨gc, cok⟩ := (treeBuild_sound σ _ defaultFuel).conform x c gI hc
    have hsr := hready c hc
    have hfa := gc.faithful
    simp only [hc] at h
    cases hq : compileSelect s.sq defaultFuel (c.get x) 0 with
    | error e =>
      simp only [hq, throw, throwThe, MonadExceptOf.throw, ExceptT.mk, pure, StateT.pure] at h
      injection h with h1 _; cases h1
    | ok v =>
      obtain ⟨q, c1⟩ := v
      simp only [hq] at h
      by_cases hdup : q.hasDup = true
      · simp only [hdup, if_true, throw, throwThe, MonadExceptOf.throw, ExceptT.mk, pure, StateT.pure] at h
        injection h with h1 _; cases h1
      · by_cases hacc : q.accepts = false
        · simp only [hdup, hacc, if_true, if_false, throw, throwThe, MonadExceptOf.throw, ExceptT.mk, pure,
            StateT.pure] at h
          injection h with h1 _; cases h1
        · simp only [hdup, hacc, if_false, StateT.bind, StateT.map, StateT.set, ExceptT.bindCont, Functor.map,
            pure, StateT.pure, bind] at h
          have hrows : (Query.eval s.sq.tables q).rows = sem σ x := by
            rw [(compile_sound σ s.sq defaultFuel).select (c.get x) 0 q c1 gc cok.ok.isSel
              (ready_of_struct s.sq s.sq.tables σ _ hsr hfa) hq (by simpa using hdup)]
            exact cok.sem_eq
          obtain ⟨h1, h2⟩ := run_ok_inj h
          subst h1; subst h2
          exact ⟨by rw [hrows], rfl, rfl, rfl⟩

/-- What is known of a tree the Processor handles, relative to a registry and a state. -/
structure TreeInv (σ : Leaves) (reg : Nat → Option (List Row)) (sq0 : SqlState) (x : Rel) (s : ProcState) : Prop where
  wf : x.WF
  truthful : x.Truthful σ
  kd : keyDetermined σ x = true
  regOK : x.RegOK σ reg
  below : x.markersBelow s.nextTemp
  store : StoreOK σ reg s.st
  sq : s.sq = sq0
  free : x.sqFree sq0
  fresh : ∀ o, s.nextTemp ≤ o → sq0.payload o = none
  /-- nothing is stored under allocation ids that have not been handed out yet -/
  freshSt : ∀ o, s.nextTemp ≤ o → s.st.payload o = none
  /-- no Materialization object occurs inside its own upstream tree -/
  acyc : x.Acyclic
  /-- allocation ids are positive (0 marks a node a pure model function has just created) -/
  pos : ∀ o, o ∈ x.matOids → 0 < o
  tpos : 0 < s.nextTemp

theorem matOids_below {n : Nat} : (t : Rel) → t.markersBelow n → ∀ o, o ∈ t.matOids → o < n
  | .leaf .., _, _, ho => by simp [Rel.matOids] at ho
  | .unary _ t _, h, o, ho => matOids_below t h o ho
  | .binary _ l r _, h, o, ho => by
    simp only [Rel.matOids, List.mem_append] at ho
    exact ho.elim (matOids_below l h.1 o) (matOids_below r h.2 o)
  | .mat oid _ t, h, o, ho => by
    simp only [Rel.matOids, List.mem_cons] at ho
    rcases ho with ho | ho
    · rw [ho]; exact h.1
    · exact matOids_below t h.2 o ho
  | .transfer _ _ t, h, o, ho => matOids_below t h.2 o ho
  | .select _ _ _ _ _ _ _ _ t, h, o, ho => matOids_below t h.2 o ho

/-- Payloads that appear on Materializations of a tree whose markers were all allocated keep the unallocated ids
free. -/
theorem freshSt_of_new {t : Rel} {st st' : ExecState} {n n' : Nat} (hb : t.markersBelow n) (hn : n ≤ n')
    (hf : ∀ o, n ≤ o → st.payload o = none) (hnew : PayNew t st st') : ∀ o, n' ≤ o → st'.payload o = none := by
  intro o ho
  cases hp : st'.payload o with
  | none => rfl
  | some p =>
    rcases hnew o (by simp [hp]) with h | h
    · rw [hf o (Nat.le_trans hn ho)] at h; cases h
    · have := matOids_below t hb o h
      omega

/-- Payloads present after processing were there before, sit on a Materialization of the INPUT tree, or on a node the
Processor created (an allocation id it handed out: `n ≤ o`). -/
def PayNewP (t : Rel) (n : Nat) (s s' : ExecState) : Prop :=
  ∀ o, (s'.payload o).isSome = true → (s.payload o).isSome = true ∨ o ∈ t.matOids ∨ n ≤ o

theorem PayNewP.refl (t : Rel) (n : Nat) (s : ExecState) : PayNewP t n s s := fun _ h => Or.inl h

theorem PayNewP.of_new {t : Rel} {s s' : ExecState} (n : Nat) (h : PayNew t s s') : PayNewP t n s s' :=
  fun o ho => (h o ho).imp id Or.inl

theorem PayNewP.cons {t : Rel} {n : Nat} {s s1 : ExecState} (h : PayNewP t n s s1) (o0 : Nat) (it : Iterable)
    (ev : List Nat) (ho0 : o0 ∈ t.matOids ∨ n ≤ o0) :
    PayNewP t n s { s1 with payloads := (o0, it) :: s1.payloads, evals := ev } := by
  intro o ho
  by_cases hoo : o = o0
  · rw [hoo]; exact Or.inr ho0
  · have hne : (o0 == o) = false := by simpa using fun h => hoo h.symm
    exact h o (by simpa [ExecState.payload, List.find?_cons, hne] using ho)

theorem PayNewP.trans {t1 t2 t : Rel} {n m : Nat} {a b c : ExecState} (h1 : PayNewP t1 n a b) (h2 : PayNewP t2 m b c)
    (hnm : n ≤ m) (s1 : ∀ o, o ∈ t1.matOids → o ∈ t.matOids ∨ n ≤ o)
    (s2 : ∀ o, o ∈ t2.matOids → o ∈ t.matOids ∨ n ≤ o) : PayNewP t n a c := by
  intro o ho
  rcases h2 o ho with h | h | h
  · rcases h1 o h with h | h | h
    · exact Or.inl h
    · exact Or.inr (s1 o h)
    · exact Or.inr (Or.inr h)
  · exact Or.inr (s2 o h)
  · exact Or.inr (Or.inr (Nat.le_trans hnm h))

/-- The shape of a tree the Processor returns, as far as `Materialization.simplify` looks: no Select marker at the
root or below unary operations, and a Transfer there leads to another engine. -/
def Rel.ProcShape : Rel → Prop
  | .unary _ t _ => Rel.ProcShape t
  | .transfer _ d t => d ≠ t.engine
  | .select .. => False
  | _ => True

/-- A Materialization the Processor hands back (at the root, or below unary operations that were re-applied as
no-ops) holds a payload. -/
def Rel.MatPay (s : ExecState) : Rel → Prop
  | .unary _ t _ => Rel.MatPay s t
  | .mat oid _ _ => (s.payload oid).isSome = true
  | _ => True

theorem MatPay.mono {s s' : ExecState} (hm : PayMono s s') : (x : Rel) → x.MatPay s → x.MatPay s'
  | .unary _ t _, h => MatPay.mono hm t h
  | .mat oid _ _, h => hm oid h
  | .leaf .., _ => trivial
  | .binary .., _ => trivial
  | .transfer .., _ => trivial
  | .select .., _ => trivial

/-- Re-applying the operation of an existing node to the processed target (`operation.apply(new_target)` inside one
iteration engine). -/
theorem reapply_iter (σ : Leaves) (reg : Nat → Option (List Row)) (st : Store) (op : UOp) (t x : Rel) (c : Cols)
    (s : ProcState) (r : Res)
    (hnid : op.isIdentity = false) (har : op.arityOk = true) (hwf : (Rel.unary op t c).WF)
    (hkd : keyDetermined σ (Rel.unary op t c) = true)
    (X : TreeInv σ reg sq0 x s) (hX : x.IterOKs s.st) (hsh : x.ProcShape) (hmp : x.MatPay s.st)
    (hsem : sem σ x = sem σ t)
    (hcols : ∀ u, u ∈ x.columns ↔ u ∈ t.columns) (hk : x.engine.kind = .iter)
    (h : applyOp st defaultFuel (.u op) x {} = .ok r) :
    TreeInv σ reg sq0 (r.get x) s ∧ (r.get x).IterOKs s.st ∧ sem σ (r.get x) = sem σ (Rel.unary op t c) ∧
      (∀ u, u ∈ (r.get x).columns ↔ u ∈ c) ∧ (r.get x).engine = x.engine ∧
      (∀ o, o ∈ (r.get x).matOids → o ∈ x.matOids) ∧ (r.get x).ProcShape ∧ (r.get x).MatPay s.st := by
  obtain ⟨hwt, hc, hop⟩ := hwf
  rw [defaultFuel_eq, applyOp_iter st 99998 op x hk] at h
  cases hbeg : op.beginApply x none with
  | error e => simp [hbeg] at h
  | ok v =>
    obtain ⟨o', e⟩ := v
    simp only [hbeg] at h
    have hopx : op.wfOn x.columns = true := by rw [wfOn_congr op _ _ hcols]; exact hop
    have hcolsEq : ∀ u, u ∈ op.appliedColumns x.columns ↔ u ∈ c := by
      intro u; rw [hc]; exact UOp.appliedColumns_congr op _ _ hcols u
    have hsemEq : op.sem (op.appliedColumns x.columns) (sem σ x) = sem σ (Rel.unary op t c) := by
      simp only [sem]
      rw [hsem, hc]
      exact UOp.sem_congr op _ _ (UOp.appliedColumns_congr op _ _ hcols) _
    rcases beginApply_cases op x o' e hbeg with ⟨h1, hwfo⟩ | ⟨h1, hnoop⟩
    · subst h1
      have f := finishApply_sound σ x o' X.wf X.truthful hwfo r h
      have hkd' : keyDetermined σ (r.get x) = true := by
        by_cases hdd : o'.isDedup = true
        · have : o' = .dedup := by cases o' <;> simp [UOp.isDedup] at hdd ⊢
          subst this
          rw [finishApply_dedup x r h]
          simp only [keyDetermined, Bool.and_eq_true] at hkd ⊢
          refine ⟨X.kd, ?_⟩
          have := hkd.2
          rw [rowsKeyDetermined_congr _ _ hcols, hsem]
          rw [hc] at this
          simpa [UOp.appliedColumns] using this
        · exact finishApply_kd σ x o' r X.kd (by simpa using hdd) h
      have hmo : ∀ o, o ∈ (r.get x).matOids → o ∈ x.matOids :=
        finishApply_pres (fun y => ∀ o, o ∈ y.matOids → o ∈ x.matOids) (fun _ => True) (fun _ => True)
          (fun up t c hp => ⟨hp, trivial⟩) (fun op t c hp _ _ => hp) (fun _ _ _ _ _ _ => trivial) x o' r
          (fun _ h => h) trivial h
      refine ⟨⟨f.wf, f.truthful, hkd', ?_, ?_, X.store, X.sq, ?_, X.fresh, X.freshSt, ?_,
          fun o ho => X.pos o (hmo o ho), X.tpos⟩, ?_,
        by rw [← hsemEq]; exact f.sem_eq, fun u => (f.cols u).trans (hcolsEq u), f.engine, hmo,
        finishApply_pres (fun y => y.ProcShape) (fun _ => True) (fun _ => True)
          (fun up t c hp => ⟨hp, trivial⟩) (fun op t c hp _ _ => hp) (fun _ _ _ _ _ _ => trivial) x o' r hsh trivial h,
        finishApply_pres (fun y => y.MatPay s.st) (fun _ => True) (fun _ => True)
          (fun up t c hp => ⟨hp, trivial⟩) (fun op t c hp _ _ => hp) (fun _ _ _ _ _ _ => trivial) x o' r hmp trivial h⟩
      · exact finishApply_pres (fun y => y.RegOK σ reg) (fun _ => True) (fun _ => True)
          (fun up t c hp => ⟨hp, trivial⟩) (fun op t c hp _ _ => hp) (fun _ _ _ _ _ _ => trivial) x o' r X.regOK trivial h
      · exact finishApply_pres (fun y => y.markersBelow s.nextTemp) (fun _ => True) (fun _ => True)
          (fun up t c hp => ⟨hp, trivial⟩) (fun op t c hp _ _ => hp) (fun _ _ _ _ _ _ => trivial) x o' r X.below trivial h
      · exact finishApply_pres (fun y => y.sqFree sq0) (fun _ => True) (fun _ => True)
          (fun up t c hp => ⟨hp, trivial⟩) (fun op t c hp _ _ => hp) (fun _ _ _ _ _ _ => trivial) x o' r X.free trivial h
      · exact finishApply_pres (fun y => y.Acyclic) (fun _ => True) (fun _ => True)
          (fun up t c hp => ⟨hp, trivial⟩) (fun op t c hp _ _ => hp) (fun _ _ _ _ _ _ => trivial) x o' r X.acyc trivial h
      · exact finishApply_pres (fun y => y.IterOKs s.st) UOp.execOK UOp.execOK
          (fun up t c hp => by simp only [Rel.IterOKs] at hp; exact ⟨hp.1, hp.2⟩)
          (fun op t c hp hq _ => by simp only [Rel.IterOKs]; exact ⟨hp, hq⟩)
          simplify_execOK x o' r hX ⟨hnid, har⟩ h
    · subst h1
      rw [finishApply_identity] at h
      injection h with h; subst h
      have f := noop_sound σ op x X.wf X.truthful hnoop
      exact ⟨X, hX, by rw [← hsemEq]; exact f.sem_eq, fun u => (f.cols u).trans (hcolsEq u), rfl, fun _ h => h, hsh, hmp⟩

theorem rechain_iter (σ : Leaves) (reg : Nat → Option (List Row)) (st : Store) (l r : Rel) (s : ProcState) (b : BRes)
    (L : TreeInv σ reg sq0 l s) (R : TreeInv σ reg sq0 r s) (hL : l.IterOKs s.st) (hR : r.IterOKs s.st)
    (hk : l.engine.kind = .iter) (h : binaryApply st defaultFuel .chain l r = .ok b) :
    TreeInv σ reg sq0 (b.get l r) s ∧ (b.get l r).IterOKs s.st ∧ sem σ (b.get l r) = sem σ l ++ sem σ r ∧
      (∀ u, u ∈ (b.get l r).columns ↔ u ∈ l.columns) ∧ (b.get l r).engine = l.engine ∧
      (∀ o, o ∈ (b.get l r).matOids → o ∈ l.matOids ∨ o ∈ r.matOids) ∧ (b.get l r).ProcShape ∧
      (b.get l r).MatPay s.st := by
  have hfuel : defaultFuel = 99999 + 1 := rfl
  rw [hfuel, binaryApply] at h
  simp only [chainBeginApply] at h
  by_cases he : (l.engine != r.engine) = true
  · simp [he, bind, Except.bind] at h
  · simp only [he, Bool.false_eq_true, if_false] at h
    have heq : l.engine = r.engine := by simpa using he
    by_cases hc : l.columns.seteq r.columns = true
    · simp [hc, bind, Except.bind, binaryFinishApply, hk] at h
      subst h
      have hceq := (Cols.seteq_iff _ _).mp hc
      refine ⟨⟨⟨L.wf, R.wf, rfl, hceq⟩, ⟨L.truthful, R.truthful⟩, ?_,
        ⟨L.regOK, R.regOK⟩, ⟨L.below, R.below⟩, L.store, L.sq, ⟨L.free, R.free⟩, L.fresh, L.freshSt, ⟨L.acyc, R.acyc⟩,
          (fun o ho => by
            simp only [BRes.get, Rel.matOids, List.mem_append] at ho
            exact ho.elim (L.pos o) (R.pos o)), L.tpos⟩,
        ⟨hL, hR, heq, trivial⟩, ?_, ?_, ?_, ?_, trivial, trivial⟩
      · simp [BRes.get, keyDetermined, L.kd, R.kd]
      · simp [sem, BRes.get]
      · intro u; simp [BRes.get, Rel.columns]
      · simp [BRes.get, Rel.engine]
      · intro o ho
        simpa [BRes.get, Rel.matOids] using ho
    · simp [hc, bind, Except.bind] at h

theorem MultiIter.kind : (t : Rel) → t.MultiIter → t.engine.kind = .iter
  | .leaf .., h => h.1
  | .unary _ t _, h => MultiIter.kind t h.1
  | .binary _ l _ _, h => MultiIter.kind l h.1
  | .mat _ _ t, h => h.1
  | .transfer _ _ _, h => h.1
  | .select .., h => by cases h

/-- What processing achieves. -/
structure ProcMultiOK (σ : Leaves) (reg : Nat → Option (List Row)) (sq0 : SqlState) (t : Rel) (s : ProcState)
    (matAs : Option String) (res : Res) (b : Bool) (s' : ProcState) : Prop where
  inv : TreeInv σ reg sq0 (res.get t) s'
  exec : (res.get t).IterOKs s'.st
  mono : PayMono s.st s'.st
  sem_eq : sem σ (res.get t) = sem σ t
  cols : ∀ u, u ∈ (res.get t).columns ↔ u ∈ t.columns
  engine : (res.get t).engine = t.engine
  temp : s.nextTemp ≤ s'.nextTemp
  /-- the `was_materialized` flag is raised only when the returned relation holds a payload (looked up through
  payload-less markers) -/
  flag : b = true → (payloadThrough s' (res.get t)).isSome = true
  /-- the returned tree has the shape `Materialization.simplify` relies on -/
  shape : (res.get t).ProcShape
  /-- a Materialization handed back holds a payload -/
  matpay : (res.get t).MatPay s'.st
  /-- payloads were added only to Materializations of the input tree and to nodes the Processor created -/
  newp : PayNewP t s.nextTemp s.st s'.st
  /-- the Materializations of the returned tree are the input's or new ones -/
  mats : ∀ o, o ∈ (res.get t).matOids → o ∈ t.matOids ∨ s.nextTemp ≤ o
  /-- write-once: every payload that was there is still there, the same object -/
  keep : PayKeep s.st s'.st

theorem TreeInv.same {σ : Leaves} {reg reg' : Nat → Option (List Row)} {t : Rel} {s s' : ProcState}
    (T : TreeInv σ reg sq0 t s) (he : RegExt reg reg' s.nextTemp) (hn : s.nextTemp ≤ s'.nextTemp)
    (hs : StoreOK σ reg' s'.st) (hq : s'.sq = sq0) (hfs : ∀ o, s'.nextTemp ≤ o → s'.st.payload o = none) :
    TreeInv σ reg' sq0 t s' :=
  ⟨T.wf, T.truthful, T.kd, RegOK_ext σ he t T.regOK T.below, markersBelow_mono hn t T.below, hs, hq, T.free,
    fun o ho => T.fresh o (Nat.le_trans hn ho), hfs, T.acyc, T.pos, Nat.lt_of_lt_of_le T.tpos hn⟩


theorem process_multi_iter (σ : Leaves) (h0 : sq0.payload 0 = none) :
    (t : Rel) → (fuel : Nat) → (matAs : Option String) → (s : ProcState) → (reg : Nat → Option (List Row)) →
    t.MultiIter → t.SqlSrcOK σ sq0 → TreeInv σ reg sq0 t s → t.size ≤ fuel →
    ∀ res b s', (processRec σ fuel t matAs).run.run s = (.ok (res, b), s') →
    ∃ reg', RegExt reg reg' s.nextTemp ∧ ProcMultiOK σ reg' sq0 t s matAs res b s'
  | .leaf oid le cols nm mn mx pl ms, fuel, matAs, s, reg, hm, hsql, T, hf, res, b, s', h => by
    cases fuel with
    | zero => simp [Rel.size] at hf
    | succ n =>
      have hpl : pl = true := hm.2
      have hc : (s.payloadOf (Rel.leaf oid le cols nm mn mx pl ms)).isSome = true := by
        rw [payloadOf_free s (Rel.leaf oid le cols nm mn mx pl ms) (by rw [T.sq]; exact T.free)]; simp [hpl]
      unfold processRec at h
      simp [bind, ExceptT.bind, ExceptT.mk, ExceptT.bindCont, StateT.bind, get, getThe, MonadStateOf.get, StateT.get,
        liftM, monadLift, MonadLift.monadLift, ExceptT.lift, ExceptT.run, StateT.run, hc, pure, ExceptT.pure,
        StateT.pure, Functor.map, StateT.map] at h
      obtain ⟨h1, h2⟩ := run_ok_inj h
      injection h1 with h1 hb
      subst h1; subst h2; subst hb
      exact ⟨reg, RegExt.refl _ _, T, hpl, PayMono.refl _, rfl, fun _ => Iff.rfl, rfl, Nat.le_refl _,
        fun _ => payloadThrough_isSome s _ hc, trivial, trivial, PayNewP.refl _ _ _, (fun _ h => Or.inl h), PayKeep.refl _⟩
  | .select .., _, _, _, _, hm, _, _, _, _, _, _, _ => by cases hm
  | .mat oid name target, fuel, matAs, s, reg, hm, hsql, T, hf, res, b, s', h => by
    obtain ⟨hek, hcase⟩ := hm
    rcases hcase with ⟨hp, hio⟩ | hmt
    · obtain ⟨s'', h', P⟩ := process_plain_iter σ reg target.engine hek (Rel.mat oid name target) fuel matAs s
        hp hio T.wf T.truthful T.kd T.regOK T.store (by rw [T.sq]; exact T.free) T.acyc hf
      rw [h'] at h
      obtain ⟨h1, h2⟩ := run_ok_inj h
      injection h1 with h1 hb
      subst h1; subst h2
      exact ⟨reg, RegExt.refl _ _, T.same (RegExt.refl _ _) (Nat.le_of_eq P.temp.symm) P.store (P.sq.trans T.sq)
          (freshSt_of_new T.below (Nat.le_of_eq P.temp.symm) T.freshSt P.new),
        IterOKs.of_iterOK _ (Rel.mat oid name target) hio, P.mono, rfl, fun _ => Iff.rfl, rfl,
        Nat.le_of_eq P.temp.symm, fun _ => payloadThrough_isSome _ _ (P.cached rfl), trivial,
        (by
          have hc' := P.cached rfl
          rw [payloadOf_free s'' (Rel.mat oid name target) (by rw [P.sq, T.sq]; exact T.free.1)] at hc'
          show (s''.st.payload oid).isSome = true
          cases hp' : s''.st.payload oid with
          | none => simp [Rel.oid, hp'] at hc'
          | some _ => rfl),
        PayNewP.of_new _ P.new, (fun _ h => Or.inl h), P.keep⟩
    · -- a materialization of a multi-engine subtree
      cases fuel with
      | zero => simp [Rel.size] at hf
      | succ n =>
        have hoid : oid < s.nextTemp := T.below.1
        unfold processRec at h
        cases hc : (s.payloadOf (Rel.mat oid name target)).isSome with
        | true =>
          simp [bind, ExceptT.bind, ExceptT.mk, ExceptT.bindCont, StateT.bind, get, getThe, MonadStateOf.get,
            StateT.get, liftM, monadLift, MonadLift.monadLift, ExceptT.lift, ExceptT.run, StateT.run, hc, pure,
            ExceptT.pure, StateT.pure, Functor.map, StateT.map] at h
          obtain ⟨h1, h2⟩ := run_ok_inj h
          injection h1 with h1 hb
          subst h1; subst h2; subst hb
          have hpay : (s.st.payload oid).isSome = true := by
            rw [payloadOf_free s (Rel.mat oid name target) (by rw [T.sq]; exact T.free.1)] at hc
            cases hp : s.st.payload oid with
            | none => simp [Rel.oid, hp] at hc
            | some _ => rfl
          exact ⟨reg, RegExt.refl _ _, T, Or.inl hpay, PayMono.refl _, rfl, fun _ => Iff.rfl, rfl, Nat.le_refl _,
            fun _ => payloadThrough_isSome _ _ hc, trivial, hpay, PayNewP.refl _ _ _, (fun _ h => Or.inl h),
            PayKeep.refl _⟩
        | false =>
          have hs0 : s.st.payload oid = none := by
            rw [payloadOf_free s (Rel.mat oid name target) (by rw [T.sq]; exact T.free.1)] at hc
            cases hp0 : s.st.payload oid with
            | none => rfl
            | some q => simp [Rel.oid, hp0] at hc
          have Tt : TreeInv σ reg sq0 target s :=
            ⟨T.wf, T.truthful, T.kd, T.regOK.2, T.below.2, T.store, T.sq, T.free.2, T.fresh, T.freshSt, T.acyc.2,
              fun o ho => T.pos o (List.mem_cons_of_mem _ ho), T.tpos⟩
          cases hr0 : (processRec σ n target (some name)).run.run s with
          | mk r1 s1 =>
            have hr := hr0
            simp only [ExceptT.run, StateT.run] at hr
            cases r1 with
            | error e =>
              simp [bind, ExceptT.bind, ExceptT.mk, ExceptT.bindCont, StateT.bind, get, getThe, MonadStateOf.get,
                StateT.get, liftM, monadLift, MonadLift.monadLift, ExceptT.lift, ExceptT.run, StateT.run, pure,
                ExceptT.pure, StateT.pure, Functor.map, StateT.map, hc, hr] at h
              injection h with h1 _; cases h1
            | ok v =>
              obtain ⟨nt, fl⟩ := v
              obtain ⟨reg1, hext, P⟩ := process_multi_iter σ h0 target n (some name) s reg hmt hsql Tt
                (by simp [Rel.size] at hf ⊢; omega) nt fl s1 hr0
              have hregoid : reg1 oid = some (sem σ target) := by
                rw [hext oid hoid]; exact T.regOK.1
              have hoid1 : oid < s1.nextTemp := Nat.lt_of_lt_of_le hoid P.temp
              have hnotin : oid ∉ (nt.get target).matOids := by
                intro hmem
                rcases P.mats oid hmem with hh | hh
                · exact T.acyc.1 hh
                · omega
              have hnone1 : s1.st.payload oid = none := by
                cases hp1 : s1.st.payload oid with
                | none => rfl
                | some p =>
                  rcases P.newp oid (by simp [hp1]) with hh | hh | hh
                  · rw [hs0] at hh; cases hh
                  · exact absurd hh T.acyc.1
                  · omega
              have hkx : (nt.get target).engine.kind = .iter := by rw [P.engine]; exact hek
              have hfreeX : (nt.get target).sqFree s1.sq := by rw [P.inv.sq]; exact P.inv.free
              cases nt with
              | same =>
                obtain ⟨it, s2, hmp, hi, hrows, h2, hsq, hnt, hm2, hn2, hk2⟩ := matPayload_spec σ reg1 oid name target
                  target fl s1 hek hek P.exec P.inv.wf P.inv.truthful P.inv.kd P.inv.regOK P.inv.store P.inv.acyc
                  hfreeX rfl T.wf T.truthful P.flag
                simp [bind, ExceptT.bind, ExceptT.mk, ExceptT.bindCont, StateT.bind, get, getThe,
                  MonadStateOf.get, StateT.get, modify, modifyGet, MonadStateOf.modifyGet, StateT.modifyGet,
                  MonadState.modifyGet, liftM, monadLift, MonadLift.monadLift, ExceptT.lift, ExceptT.run,
                  StateT.run, pure, ExceptT.pure, StateT.pure, Functor.map, StateT.map, hc, hr, Res.get,
                  hmp] at h
                obtain ⟨h1, h2'⟩ := run_ok_inj h
                injection h1 with h1 hb
                subst h1; subst h2'; subst hb
                have hfs2 : ∀ o, s2.nextTemp ≤ o → s2.st.payload o = none :=
                  freshSt_of_new P.inv.below (Nat.le_of_eq hnt.symm) P.inv.freshSt hn2
                have hnone2 : s2.st.payload oid = none := by
                  cases hp2 : s2.st.payload oid with
                  | none => rfl
                  | some p =>
                    rcases hn2 oid (by simp [hp2]) with hh | hh
                    · rw [hnone1] at hh; cases hh
                    · exact absurd hh hnotin
                have htemp : s.nextTemp ≤ s2.nextTemp := by rw [hnt]; exact P.temp
                have hst : StoreOK σ reg1 (s2.attach oid (.iter it)).st :=
                  StoreOK.cons h2 oid it _ hi hregoid hrows
                refine ⟨reg1, hext, T.same hext htemp hst (hsq.trans P.inv.sq) ?_, Or.inl ?_, ?_, rfl,
                  fun _ => Iff.rfl, rfl, htemp, fun _ => payloadThrough_isSome _ _ ?_, trivial,
                  (by simp [Rel.MatPay, Res.get, ProcState.attach, ExecState.payload]), ?_,
                  (fun _ h => Or.inl h), ?_⟩
                · intro o ho
                  have hne : (oid == o) = false := by
                    have : s2.nextTemp ≤ o := ho
                    have := hnt
                    simp; omega
                  have := hfs2 o ho
                  simpa [ProcState.attach, ExecState.payload, List.find?_cons, hne] using this
                · simp [ProcState.attach, ExecState.payload]
                · exact (P.mono.trans hm2).trans (PayMono.cons s2.st oid it s2.st.evals)
                · simp [ProcState.attach, ProcState.payloadOf, Rel.oid, ExecState.payload, Res.get]
                · have hlift : PayNewP (Rel.mat oid name target) s.nextTemp s.st s1.st :=
                    fun o ho => (P.newp o ho).imp id (Or.imp (fun h => List.mem_cons_of_mem _ h) id)
                  have hstep : PayNewP (Rel.mat oid name target) s.nextTemp s.st s2.st :=
                    PayNewP.trans hlift (PayNewP.of_new s1.nextTemp hn2) P.temp (fun _ h => Or.inl h)
                      (fun o h => Or.inl (show o ∈ (Rel.mat oid name target).matOids from List.mem_cons_of_mem oid h))
                  exact PayNewP.cons hstep oid it s2.st.evals (Or.inl (by simp [Rel.matOids]))
                · exact (P.keep.trans hk2).trans (PayKeep.cons s2.st oid it s2.st.evals hnone2)
              | new x =>
                have hmatdef : materialize s1.store defaultFuel x name =
                    .ok (if matSimplify x then Res.same else .new (.mat 0 name x)) := by
                  rw [defaultFuel_eq, materialize]
                  have : x.engine.kind = .iter := hkx
                  simp only [this]
                  split <;> rfl
                have hpos1 : s1.nextTemp ≠ 0 := by omega
                cases hk : s1.nextTemp with
                | zero => exact absurd hk hpos1
                | succ k =>
                have hle : s.nextTemp ≤ k + 1 := by have := P.temp; omega
                have hbelowX : x.markersBelow (k + 1) := by rw [← hk]; exact P.inv.below
                have hsemx : sem σ x = sem σ target := P.sem_eq
                -- the payload computation, in the state after the fresh id was drawn
                obtain ⟨it, s2, hmp, hi, hrows, h2, hsq, hnt, hm2, hn2, hk2⟩ := matPayload_spec σ reg1 oid name target
                  x fl ⟨s1.st, s1.sq, s1.hooks, k + 1 + 1, s1.det⟩ hkx hek P.exec P.inv.wf P.inv.truthful P.inv.kd
                  P.inv.regOK P.inv.store P.inv.acyc hfreeX hsemx T.wf T.truthful
                  (fun hh => by
                    have := payloadThrough_temp s1 (k + 1 + 1) x
                    rw [show payloadThrough ⟨s1.st, s1.sq, s1.hooks, k + 1 + 1, s1.det⟩ x = payloadThrough s1 x from this]
                    exact P.flag hh)
                have hsq' : s2.sq = s1.sq := hsq
                have hnt' : s2.nextTemp = k + 1 + 1 := hnt
                have hfs2 : ∀ o, k + 1 + 1 ≤ o → s2.st.payload o = none :=
                  freshSt_of_new hbelowX (by omega) (by rw [← hk]; exact P.inv.freshSt) hn2
                have hnone2 : s2.st.payload oid = none := by
                  cases hp2 : s2.st.payload oid with
                  | none => rfl
                  | some p =>
                    rcases hn2 oid (by simp [hp2]) with hh | hh
                    · rw [show (⟨s1.st, s1.sq, s1.hooks, k + 1 + 1, s1.det⟩ : ProcState).st = s1.st from rfl, hnone1] at hh
                      cases hh
                    · exact absurd hh hnotin
                have hlift : PayNewP (Rel.mat oid name target) s.nextTemp s.st s1.st :=
                  fun o ho => (P.newp o ho).imp id (Or.imp (fun h => List.mem_cons_of_mem _ h) id)
                have hstep : PayNewP (Rel.mat oid name target) s.nextTemp s.st s2.st :=
                  PayNewP.trans hlift (PayNewP.of_new s1.nextTemp hn2) P.temp (fun _ h => Or.inl h)
                    (fun o h => (P.mats o h).imp (fun hh => List.mem_cons_of_mem oid hh) id)
                have hkeep2 : PayKeep s.st s2.st := P.keep.trans hk2
                have hmono2 : PayMono s.st s2.st := P.mono.trans hm2
                simp [bind, ExceptT.bind, ExceptT.mk, ExceptT.bindCont, StateT.bind, get, getThe,
                  MonadStateOf.get, StateT.get, set, StateT.set, modify, modifyGet, MonadStateOf.modifyGet,
                  StateT.modifyGet, MonadState.modifyGet, liftM, monadLift, MonadLift.monadLift, ExceptT.lift,
                  ExceptT.run, StateT.run, pure, ExceptT.pure, StateT.pure, Functor.map, StateT.map, hc, hr,
                  Res.get, hmatdef, freshTemp, hk] at h
                -- the case where a new Materialization node is created
                have hN1 : matSimplify x = false →
                    ∃ reg', RegExt reg reg' s.nextTemp ∧
                      ProcMultiOK σ reg' sq0 (Rel.mat oid name target) s matAs res b s' := by
                  intro hms
                  have hnoneN : (⟨s1.st, s1.sq, s1.hooks, k + 1 + 1, s1.det⟩ : ProcState).payloadOf
                      (Rel.mat (k + 1) name x) = none := by
                    simp [ProcState.payloadOf, Rel.oid, P.inv.freshSt (k + 1) (by omega), P.inv.sq,
                      P.inv.fresh (k + 1) (by omega)]
                  simp [hms, setMatOid, tempRoot, lookThrough, hnoneN, hmp, bind, ExceptT.bind, ExceptT.mk,
                    ExceptT.bindCont, StateT.bind, StateT.get, StateT.modifyGet, pure, ExceptT.pure, StateT.pure,
                    Functor.map, StateT.map] at h
                  obtain ⟨h1, h2'⟩ := run_ok_inj h
                  injection h1 with h1 hb
                  subst h1; subst h2'; subst hb
                  have hnoneK : s2.st.payload (k + 1) = none := by
                    cases hpk : s2.st.payload (k + 1) with
                    | none => rfl
                    | some p =>
                      rcases hn2 (k + 1) (by simp [hpk]) with hh | hh
                      · rw [show (⟨s1.st, s1.sq, s1.hooks, k + 1 + 1, s1.det⟩ : ProcState).st = s1.st from rfl,
                          P.inv.freshSt (k + 1) (by omega)] at hh
                        cases hh
                      · exact absurd (matOids_below _ hbelowX _ hh) (Nat.lt_irrefl _)
                  have hrowsX : it.rows σ = .ok (sem σ x) := by rw [hrows, hsemx]
                  refine ⟨regSet reg1 (k + 1) (sem σ x), hext.trans (regSet_ext _ _ _) hle, ?_, Or.inl ?_, ?_, ?_, ?_,
                    ?_, ?_, fun _ => payloadThrough_isSome _ _ ?_, trivial,
                    (by simp [Rel.MatPay, Res.get, ProcState.attach, ExecState.payload]), ?_, ?_, ?_⟩
                  · refine ⟨P.inv.wf, P.inv.truthful, P.inv.kd, ⟨by simp [regSet], ?_⟩, ⟨?_, ?_⟩, ?_, ?_, ?_, ?_, ?_,
                      ⟨fun hmem => Nat.lt_irrefl _ (matOids_below _ hbelowX _ hmem), P.inv.acyc⟩, ?_, ?_⟩
                    · exact RegOK_ext σ (regSet_ext _ _ _) _ P.inv.regOK hbelowX
                    · show k + 1 < s2.nextTemp
                      omega
                    · exact markersBelow_mono (by show k + 1 ≤ s2.nextTemp; omega) _ hbelowX
                    · exact StoreOK_set (StoreOK.cons h2 oid it _ hi hregoid hrows) (k + 1) it _ hi hrowsX
                    · show s2.sq = sq0
                      rw [hsq']; exact P.inv.sq
                    · exact ⟨P.inv.fresh _ (by omega), P.inv.free⟩
                    · intro o ho
                      have ho' : s2.nextTemp ≤ o := ho
                      exact P.inv.fresh o (by omega)
                    · intro o ho
                      have ho' : s2.nextTemp ≤ o := ho
                      have hne1 : (k + 1 == o) = false := by simp; omega
                      have hne2 : (oid == o) = false := by simp; omega
                      have := hfs2 o (by omega)
                      simpa [ProcState.attach, ExecState.payload, List.find?_cons, hne1, hne2] using this
                    · intro o ho
                      have ho' : o ∈ (k + 1) :: x.matOids := ho
                      rcases List.mem_cons.mp ho' with ho | ho
                      · omega
                      · exact P.inv.pos o ho
                    · show 0 < s2.nextTemp
                      omega
                  · simp [ProcState.attach, ExecState.payload]
                  · intro o ho
                    have h1 := hmono2 o ho
                    by_cases a : (k + 1 == o) = true
                    · simp [ProcState.attach, ExecState.payload, List.find?_cons, a]
                    · by_cases bb : (oid == o) = true
                      · simp [ProcState.attach, ExecState.payload, List.find?_cons, a, bb]
                      · simpa [ProcState.attach, ExecState.payload, List.find?_cons, a, bb] using h1
                  · simpa [Res.get, sem] using hsemx
                  · intro u
                    simpa [Res.get, Rel.columns] using P.cols u
                  · simpa [Res.get, Rel.engine] using P.engine
                  · show s.nextTemp ≤ s2.nextTemp
                    omega
                  · simp [ProcState.attach, ProcState.payloadOf, Rel.oid, ExecState.payload, Res.get]
                  · exact PayNewP.cons (PayNewP.cons hstep oid it s2.st.evals (Or.inl (by simp [Rel.matOids])))
                      (k + 1) it s2.st.evals (Or.inr hle)
                  · intro o ho
                    simp only [Res.get, Rel.matOids, List.mem_cons] at ho
                    rcases ho with ho | ho
                    · rw [ho]; exact Or.inr hle
                    · exact (P.mats o ho).imp (fun hh => List.mem_cons_of_mem oid hh) id
                  · refine hkeep2.trans ((PayKeep.cons s2.st oid it s2.st.evals hnone2).trans
                      (PayKeep.cons _ (k + 1) it s2.st.evals ?_))
                    have hne : (oid == k + 1) = false := by simp; omega
                    simpa [ExecState.payload, List.find?_cons, hne] using hnoneK
                -- the processed target is itself locked (a leaf or a Materialization): nothing is added, its payload is
                -- handed to the input's Materialization
                have hN2 : ∀ (it0 : Iterable), ItOK it0 → it0.rows σ = .ok (sem σ x) → x.MatPay s1.st →
                    (Except.ok (Res.new x, true),
                      (⟨s1.st, s1.sq, s1.hooks, k + 1 + 1, s1.det⟩ : ProcState).attach oid (.iter it0)) =
                      ((Except.ok (res, b) : Except Err (Res × Bool)), s') →
                    ((⟨s1.st, s1.sq, s1.hooks, k + 1 + 1, s1.det⟩ : ProcState).payloadOf x).isSome = true →
                    ∃ reg', RegExt reg reg' s.nextTemp ∧
                      ProcMultiOK σ reg' sq0 (Rel.mat oid name target) s matAs res b s' := by
                  intro it0 hi0 hr0' hmp0 hh hps
                  obtain ⟨h1, h2'⟩ := run_ok_inj hh
                  injection h1 with h1 hb
                  subst h1; subst h2'; subst hb
                  have hst : StoreOK σ reg1 ((⟨s1.st, s1.sq, s1.hooks, k + 1 + 1, s1.det⟩ : ProcState).attach oid
                      (.iter it0)).st := StoreOK.cons P.inv.store oid it0 _ hi0 hregoid (by rw [hr0', hsemx])
                  refine ⟨reg1, hext, P.inv.same (RegExt.refl _ _) (by show s1.nextTemp ≤ k + 1 + 1; omega) hst P.inv.sq ?_,
                    IterOKs.mono (PayMono.cons s1.st oid it0 s1.st.evals) _ P.exec, ?_, ?_, ?_, ?_, ?_,
                    fun _ => payloadThrough_isSome _ _ ?_, P.shape,
                    MatPay.mono (PayMono.cons s1.st oid it0 s1.st.evals) _ hmp0, ?_, ?_, ?_⟩
                  · intro o ho
                    have ho' : k + 1 + 1 ≤ o := ho
                    have hne : (oid == o) = false := by simp; omega
                    have := P.inv.freshSt o (by omega)
                    simpa [ProcState.attach, ExecState.payload, List.find?_cons, hne] using this
                  · exact P.mono.trans (PayMono.cons s1.st oid it0 s1.st.evals)
                  · simpa [Res.get, sem] using hsemx
                  · intro u
                    simpa [Res.get, Rel.columns] using P.cols u
                  · simpa [Res.get, Rel.engine] using P.engine
                  · show s.nextTemp ≤ k + 1 + 1
                    omega
                  · exact payloadOf_mono (s := ⟨s1.st, s1.sq, s1.hooks, k + 1 + 1, s1.det⟩)
                      (s' := ProcState.attach ⟨s1.st, s1.sq, s1.hooks, k + 1 + 1, s1.det⟩ oid (.iter it0)) rfl
                      (PayMono.cons s1.st oid it0 s1.st.evals) x hps
                  · exact PayNewP.cons hlift oid it0 s1.st.evals (Or.inl (by simp [Rel.matOids]))
                  · intro o ho
                    exact (P.mats o ho).imp (fun hh => List.mem_cons_of_mem oid hh) id
                  · exact P.keep.trans (PayKeep.cons s1.st oid it0 s1.st.evals hnone1)
                cases x with
                | unary op' t' c' => exact hN1 rfl
                | binary op' l' r' c' => exact hN1 rfl
                | transfer o' d' t' =>
                  have hd : d' ≠ t'.engine := P.shape
                  exact hN1 (by
                    have : (d' == t'.engine) = false := by simpa using hd
                    simp [matSimplify, this])
                | select a1 a2 a3 a4 a5 a6 a7 a8 a9 => exact absurd P.shape (by simp [Rel.ProcShape, Res.get])
                | leaf loid le lcols lnm lmn lmx lpl lms =>
                  have hpl : lpl = true := P.exec
                  have hsqn : s1.sq.payload loid = none := hfreeX
                  have hpo : (⟨s1.st, s1.sq, s1.hooks, k + 1 + 1, s1.det⟩ : ProcState).payloadOf
                      (Rel.leaf loid le lcols lnm lmn lmx lpl lms) = some (.iter (.leafRef loid)) := by
                    simp [ProcState.payloadOf, hpl, hsqn]
                  simp [matSimplify, tempRoot, lookThrough, hpo, bind, ExceptT.bind, ExceptT.mk,
                    ExceptT.bindCont, StateT.bind, StateT.get, StateT.modifyGet, pure, ExceptT.pure, StateT.pure,
                    Functor.map, StateT.map] at h
                  exact hN2 (.leafRef loid) trivial rfl trivial h (by rw [hpo]; rfl)
                | mat o nm t1 =>
                  have hopos : 0 < o := P.inv.pos o (by simp [Rel.matOids, Res.get])
                  have hmpay : (s1.st.payload o).isSome = true := P.matpay
                  cases ho : o with
                  | zero => omega
                  | succ o' =>
                    subst ho
                    cases hpo' : s1.st.payload (o' + 1) with
                    | none => simp [hpo'] at hmpay
                    | some it0 =>
                      obtain ⟨hi0, rows, hr, hrows0⟩ := P.inv.store (o' + 1) it0 hpo'
                      have hreg1 : reg1 (o' + 1) = some (sem σ t1) := P.inv.regOK.1
                      rw [hreg1] at hr
                      injection hr with hr
                      have hpo : (⟨s1.st, s1.sq, s1.hooks, k + 1 + 1, s1.det⟩ : ProcState).payloadOf
                          (Rel.mat (o' + 1) nm t1) = some (.iter it0) := by
                        simp [ProcState.payloadOf, Rel.oid, hpo']
                      simp [matSimplify, tempRoot, lookThrough, hpo, bind, ExceptT.bind, ExceptT.mk,
                        ExceptT.bindCont, StateT.bind, StateT.get, StateT.modifyGet, pure, ExceptT.pure, StateT.pure,
                        Functor.map, StateT.map] at h
                      exact hN2 it0 hi0 (by rw [hrows0, ← hr]; rfl) P.matpay h (by rw [hpo]; rfl)
  | .unary op target c, fuel, matAs, s, reg, hm, hsql, T, hf, res, b, s', h => by
    cases fuel with
    | zero => simp [Rel.size] at hf
    | succ n =>
      have hkd' : keyDetermined σ target = true := by
        have := T.kd; simp only [keyDetermined, Bool.and_eq_true] at this; exact this.1
      obtain ⟨hmt, hnid, har⟩ := hm
      have Tt : TreeInv σ reg sq0 target s :=
        ⟨T.wf.1, T.truthful, hkd', T.regOK, T.below, T.store, T.sq, T.free, T.fresh, T.freshSt, T.acyc, T.pos, T.tpos⟩
      unfold processRec at h
      cases hr0 : (processRec σ n target none).run.run s with
      | mk r1 s1 =>
        have hr := hr0
        simp only [ExceptT.run, StateT.run] at hr
        cases r1 with
        | error e =>
          simp [bind, ExceptT.bind, ExceptT.mk, ExceptT.bindCont, StateT.bind, get, getThe, MonadStateOf.get,
            StateT.get, liftM, monadLift, MonadLift.monadLift, ExceptT.lift, ExceptT.run, StateT.run, pure,
            ExceptT.pure, StateT.pure, Functor.map, StateT.map, ProcState.payloadOf, hr] at h
          injection h with h1 _; cases h1
        | ok v =>
          obtain ⟨nt, fl⟩ := v
          obtain ⟨reg1, hext, P⟩ := process_multi_iter σ h0 target n none s reg hmt hsql Tt
            (by simp [Rel.size] at hf; omega) nt fl s1 hr0
          simp [bind, ExceptT.bind, ExceptT.mk, ExceptT.bindCont, StateT.bind, get, getThe, MonadStateOf.get,
            StateT.get, liftM, monadLift, MonadLift.monadLift, ExceptT.lift, ExceptT.run, StateT.run, pure,
            ExceptT.pure, StateT.pure, Functor.map, StateT.map, ProcState.payloadOf, hr] at h
          cases nt with
          | same =>
            simp only [StateT.pure, pure] at h
            obtain ⟨h1, h2⟩ := run_ok_inj h
            injection h1 with h1 hb
            subst h1; subst h2; subst hb
            exact ⟨reg1, hext, T.same hext P.temp P.inv.store P.inv.sq P.inv.freshSt, ⟨P.exec, hnid, har⟩, P.mono, rfl,
              fun _ => Iff.rfl, rfl, P.temp, (fun hh => by cases hh), P.shape, P.matpay,
              (fun o ho => by simpa [Rel.matOids] using P.newp o ho), (fun _ h => Or.inl h), P.keep⟩
          | new t' =>
            have hk : t'.engine.kind = .iter := by
              have := P.engine
              simp only [Res.get] at this
              rw [this]; exact MultiIter.kind target hmt
            cases ha : applyOp s1.store defaultFuel (.u op) t' {} with
            | error e =>
              simp only [StateT.bind, StateT.map, StateT.get, ExceptT.bindCont, Functor.map, ha, throw, throwThe,
                MonadExceptOf.throw, ExceptT.mk, pure, StateT.pure, bind] at h
              injection h with h1 _; cases h1
            | ok r =>
              simp only [StateT.bind, StateT.map, StateT.get, ExceptT.bindCont, Functor.map, ha, pure,
                StateT.pure, bind] at h
              obtain ⟨h1, h2⟩ := run_ok_inj h
              injection h1 with h1 hb
              subst h1; subst h2; subst hb
              obtain ⟨I, hx, hs, hc, he, hmo, hsp, hmpay⟩ := reapply_iter σ reg1 s1.store op target t' c s1 r hnid har T.wf T.kd
                P.inv P.exec P.shape P.matpay P.sem_eq P.cols hk ha
              exact ⟨reg1, hext, I, hx, P.mono, hs, fun u => hc u, he.trans P.engine, P.temp, (fun hh => by cases hh),
                hsp, hmpay, (fun o ho => by simpa [Rel.matOids] using P.newp o ho),
                (fun o ho => by simpa [Rel.matOids, Res.get] using P.mats o (hmo o ho)), P.keep⟩
  | .binary op l r c, fuel, matAs, s, reg, hm, hsql, T, hf, res, b, s', h => by
    cases fuel with
    | zero => simp [Rel.size] at hf
    | succ n =>
      obtain ⟨hml, hmr, heng, hop⟩ := hm
      cases op with
      | join j => cases hop
      | ignoreOne bb => cases hop
      | chain =>
        have hkd := T.kd
        simp only [keyDetermined, Bool.and_eq_true] at hkd
        obtain ⟨hwl, hwr, hcc, hcols⟩ := T.wf
        have Tl : TreeInv σ reg sq0 l s :=
          ⟨hwl, T.truthful.1, hkd.1, T.regOK.1, T.below.1, T.store, T.sq, T.free.1, T.fresh, T.freshSt, T.acyc.1,
            fun o ho => T.pos o (by simp [Rel.matOids, ho]), T.tpos⟩
        unfold processRec at h
        cases hr0 : (processRec σ n l none).run.run s with
        | mk r1 s1 =>
          have hr := hr0
          simp only [ExceptT.run, StateT.run] at hr
          cases r1 with
          | error e =>
            simp [bind, ExceptT.bind, ExceptT.mk, ExceptT.bindCont, StateT.bind, get, getThe, MonadStateOf.get,
              StateT.get, liftM, monadLift, MonadLift.monadLift, ExceptT.lift, ExceptT.run, StateT.run, pure,
              ExceptT.pure, StateT.pure, Functor.map, StateT.map, ProcState.payloadOf, hr] at h
            injection h with h1 _; cases h1
          | ok v =>
            obtain ⟨nl, lp⟩ := v
            obtain ⟨reg1, hext1, P1⟩ := process_multi_iter σ h0 l n none s reg hml hsql.1 Tl
              (by simp [Rel.size] at hf; omega) nl lp s1 hr0
            have Tr : TreeInv σ reg1 sq0 r s1 :=
              ⟨hwr, T.truthful.2, hkd.2, RegOK_ext σ hext1 r T.regOK.2 T.below.2,
                markersBelow_mono P1.temp r T.below.2, P1.inv.store, P1.inv.sq, T.free.2, P1.inv.fresh, P1.inv.freshSt, T.acyc.2,
                fun o ho => T.pos o (by simp [Rel.matOids, ho]), P1.inv.tpos⟩
            cases hq0 : (processRec σ n r none).run.run s1 with
            | mk r2 s2 =>
              have hq := hq0
              simp only [ExceptT.run, StateT.run] at hq
              cases r2 with
              | error e =>
                simp [bind, ExceptT.bind, ExceptT.mk, ExceptT.bindCont, StateT.bind, get, getThe, MonadStateOf.get,
                  StateT.get, liftM, monadLift, MonadLift.monadLift, ExceptT.lift, ExceptT.run, StateT.run, pure,
                  ExceptT.pure, StateT.pure, Functor.map, StateT.map, ProcState.payloadOf, hr, hq] at h
                injection h with h1 _; cases h1
              | ok w =>
                obtain ⟨nr, rp⟩ := w
                obtain ⟨reg2, hext2, P2⟩ := process_multi_iter σ h0 r n none s1 reg1 hmr hsql.2 Tr
                  (by simp [Rel.size] at hf; omega) nr rp s2 hq0
                simp [bind, ExceptT.bind, ExceptT.mk, ExceptT.bindCont, StateT.bind, get, getThe, MonadStateOf.get,
                  StateT.get, liftM, monadLift, MonadLift.monadLift, ExceptT.lift, ExceptT.run, StateT.run, pure,
                  ExceptT.pure, StateT.pure, Functor.map, StateT.map, ProcState.payloadOf, hr, hq] at h
                have L' : TreeInv σ reg2 sq0 (nl.get l) s2 := P1.inv.same hext2 P2.temp P2.inv.store P2.inv.sq P2.inv.freshSt
                have R' := P2.inv
                have L'x : (nl.get l).IterOKs s2.st := IterOKs.mono P2.mono _ P1.exec
                have hmono : PayMono s.st s2.st := P1.mono.trans P2.mono
                have hextAll : RegExt reg reg2 s.nextTemp := hext1.trans hext2 P1.temp
                have htemp : s.nextTemp ≤ s2.nextTemp := Nat.le_trans P1.temp P2.temp
                have hsemC : sem σ (Rel.binary .chain l r c) = sem σ l ++ sem σ r := by simp [sem]
                have hnewp : PayNewP (Rel.binary .chain l r c) s.nextTemp s.st s2.st :=
                  PayNewP.trans P1.newp P2.newp P1.temp (fun o h => Or.inl (by simp [Rel.matOids, h]))
                    (fun o h => Or.inl (by simp [Rel.matOids, h]))
                have hmL : ∀ o, o ∈ (nl.get l).matOids → o ∈ (Rel.binary .chain l r c).matOids ∨ s.nextTemp ≤ o :=
                  fun o ho => (P1.mats o ho).imp (fun h => by simp [Rel.matOids, h]) id
                have hmR : ∀ o, o ∈ (nr.get r).matOids → o ∈ (Rel.binary .chain l r c).matOids ∨ s.nextTemp ≤ o :=
                  fun o ho => (P2.mats o ho).imp (fun h => by simp [Rel.matOids, h]) (fun h => Nat.le_trans P1.temp h)
                have hempty : ∀ x : Rel, x.WF → x.Truthful σ → x.maxRows = some 0 → sem σ x = [] := by
                  intro x hw ht hmx
                  have := (metadata_truthful σ x hw ht).upper 0 hmx
                  exact List.eq_nil_of_length_eq_zero (Nat.le_zero.mp this)
                have finishNew : ∀ (X : Rel) (fl : Bool), TreeInv σ reg2 sq0 X s2 → X.IterOKs s2.st →
                    sem σ X = sem σ l ++ sem σ r →
                    (∀ u, u ∈ X.columns ↔ u ∈ l.columns) → X.engine = l.engine →
                    (fl = true → (payloadThrough s2 X).isSome = true) → X.ProcShape → X.MatPay s2.st →
                    (∀ o, o ∈ X.matOids → o ∈ (Rel.binary .chain l r c).matOids ∨ s.nextTemp ≤ o) →
                    (Except.ok (Res.new X, fl), s2) = ((Except.ok (res, b) : Except Err (Res × Bool)), s') →
                    ∃ reg', RegExt reg reg' s.nextTemp ∧ ProcMultiOK σ reg' sq0 (Rel.binary .chain l r c) s matAs res b s' := by
                  intro X fl IX hxX hsX hcX heX hfX hshX hmpX hmX hh
                  obtain ⟨h1, h2⟩ := run_ok_inj hh
                  injection h1 with h1 hb
                  subst h1; subst h2; subst hb
                  exact ⟨reg2, hextAll, IX, hxX, hmono, by rw [hsemC]; exact hsX, fun u => by rw [hcc]; exact hcX u, heX, htemp,
                    hfX, hshX, hmpX, hnewp, hmX, P1.keep.trans P2.keep⟩
                by_cases hl0 : (nl.get l).maxRows = some 0
                · simp only [hl0, if_true, StateT.pure, pure] at h
                  refine finishNew (nr.get r) rp R' P2.exec ?_ ?_ ?_ P2.flag P2.shape P2.matpay hmR h
                  · rw [P2.sem_eq, ← P1.sem_eq, hempty _ L'.wf L'.truthful hl0]; rfl
                  · intro u; rw [P2.cols u]; exact (hcols u).symm
                  · rw [P2.engine]; exact heng.symm
                · simp only [hl0, if_false] at h
                  by_cases hr0' : (nr.get r).maxRows = some 0
                  · simp only [hr0', if_true, StateT.pure, pure] at h
                    refine finishNew (nl.get l) lp L' L'x ?_ (fun u => P1.cols u) P1.engine
                      (fun hh => payloadThrough_mono (P2.inv.sq.trans P1.inv.sq.symm) P2.mono _ (P1.flag hh)) P1.shape
                      (MatPay.mono P2.mono _ P1.matpay) hmL h
                    rw [P1.sem_eq, ← P2.sem_eq, hempty _ R'.wf R'.truthful hr0']; simp
                  · simp only [hr0', if_false] at h
                    have hk : (nl.get l).engine.kind = .iter := by rw [P1.engine]; exact MultiIter.kind l hml
                    have hrebuild : (match binaryApply s2.store defaultFuel BOp.chain (nl.get l) (nr.get r) with
                        | Except.error e => ((Except.error e : Except Err (Res × Bool)), s2)
                        | Except.ok bb => (Except.ok (Res.new (bb.get (nl.get l) (nr.get r)), false), s2)) =
                        (Except.ok (res, b), s') →
                        ∃ reg', RegExt reg reg' s.nextTemp ∧ ProcMultiOK σ reg' sq0 (Rel.binary .chain l r c) s matAs res b s' := by
                      intro hh
                      cases hb : binaryApply s2.store defaultFuel BOp.chain (nl.get l) (nr.get r) with
                      | error e => simp only [hb] at hh; injection hh with h1 _; cases h1
                      | ok bb =>
                        simp only [hb] at hh
                        obtain ⟨IX, hxX, hsX, hcX, heX, hmX, hshX, hmpX⟩ := rechain_iter σ reg2 s2.store _ _ s2 bb L' R' L'x P2.exec hk hb
                        refine finishNew _ false IX hxX ?_ ?_ ?_ (fun hh => by cases hh) hshX hmpX
                          (fun o ho => (hmX o ho).elim (hmL o) (hmR o)) hh
                        · rw [hsX, P1.sem_eq, P2.sem_eq]
                        · intro u; rw [hcX u]; exact P1.cols u
                        · rw [heX]; exact P1.engine
                    cases nl with
                    | same =>
                      cases nr with
                      | same =>
                        simp only [StateT.pure, pure] at h
                        obtain ⟨h1, h2⟩ := run_ok_inj h
                        injection h1 with h1 hb
                        subst h1; subst h2; subst hb
                        exact ⟨reg2, hextAll, T.same hextAll htemp P2.inv.store P2.inv.sq P2.inv.freshSt,
                          ⟨L'x, P2.exec, heng, trivial⟩, hmono, rfl, fun _ => Iff.rfl, rfl, htemp, (fun hh => by cases hh),
                          trivial, trivial, hnewp, (fun _ h => Or.inl h), P1.keep.trans P2.keep⟩
                      | new y =>
                        apply hrebuild
                        simp only [StateT.bind, StateT.map, StateT.get, ExceptT.bindCont, Functor.map, throw,
                          throwThe, MonadExceptOf.throw, ExceptT.mk, pure, StateT.pure, bind] at h
                        cases hb : binaryApply s2.store defaultFuel BOp.chain (Res.same.get l) ((Res.new y).get r) <;>
                          simp only [hb] at h ⊢ <;> exact h
                    | new x =>
                      apply hrebuild
                      simp only [StateT.bind, StateT.map, StateT.get, ExceptT.bindCont, Functor.map, throw,
                        throwThe, MonadExceptOf.throw, ExceptT.mk, pure, StateT.pure, bind] at h
                      cases hb : binaryApply s2.store defaultFuel BOp.chain ((Res.new x).get l) (nr.get r) <;>
                        simp only [hb] at h ⊢ <;> exact h
  | .transfer oid dest target, fuel, matAs, s, reg, hm, hsql, T, hf, res, b, s', h => by
    cases fuel with
    | zero => simp [Rel.size] at hf
    | succ n =>
      obtain ⟨hdk, hne, hsrc⟩ := hm
      -- a NEW Transfer node over the untouched target, holding a payload with the target's rows
      have hnewnode : ∀ (s2 : ProcState) (it : Iterable), s2.st = s.st → s2.sq = s.sq → s2.nextTemp = s.nextTemp →
          ItOK it → it.rows σ = .ok (sem σ target) →
          (Except.ok (Res.new (Rel.transfer s2.nextTemp dest target), matAs.isSome),
              ({ s2 with nextTemp := s2.nextTemp + 1 } : ProcState).attach s2.nextTemp (.iter it)) =
            ((Except.ok (res, b) : Except Err (Res × Bool)), s') →
          ∃ reg', RegExt reg reg' s.nextTemp ∧ ProcMultiOK σ reg' sq0 (Rel.transfer oid dest target) s matAs res b s' := by
        intro s2 it hst hsq hnt hi hrows hh
        obtain ⟨h1, h2⟩ := run_ok_inj hh
        injection h1 with h1 hb
        subst h1; subst h2; subst hb
        refine ⟨regSet reg s2.nextTemp (sem σ target), by rw [hnt]; exact regSet_ext _ _ _, ?_, ?_, ?_, rfl,
          fun _ => Iff.rfl, rfl, ?_,
          (fun _ => payloadThrough_isSome _ _ (by
            simp [ProcState.attach, ProcState.payloadOf, Rel.oid, ExecState.payload, Res.get])),
          hne, trivial, ?_,
          (fun _ h => Or.inl h), ?_⟩
        · refine ⟨T.wf, T.truthful, T.kd, ⟨by simp [regSet], ?_⟩, ⟨?_, ?_⟩, ?_, ?_, ?_, ?_, ?_, T.acyc, T.pos,
            Nat.lt_succ_of_lt (by rw [hnt]; exact T.tpos)⟩
          · exact RegOK_ext σ (by rw [hnt]; exact regSet_ext _ _ _) _ T.regOK.2 T.below.2
          · show s2.nextTemp < s2.nextTemp + 1
            omega
          · exact markersBelow_mono (by show s.nextTemp ≤ s2.nextTemp + 1; omega) _ T.below.2
          · show StoreOK σ _ { s2.st with payloads := (s2.nextTemp, it) :: s2.st.payloads }
            rw [hst]
            exact StoreOK_set T.store s2.nextTemp it _ hi hrows
          · show s2.sq = sq0
            rw [hsq]; exact T.sq
          · exact ⟨T.fresh _ (by rw [hnt]; exact Nat.le_refl _), T.free.2⟩
          · intro o ho
            exact T.fresh o (by have : s2.nextTemp + 1 ≤ o := ho; omega)
          · intro o ho
            have ho' : s2.nextTemp + 1 ≤ o := ho
            have hne : (s2.nextTemp == o) = false := by simp; omega
            have := T.freshSt o (by omega)
            rw [← hst] at this
            simpa [ProcState.attach, ExecState.payload, List.find?_cons, hne] using this
        · refine Or.inl ?_
          show (({ s2.st with payloads := (s2.nextTemp, it) :: s2.st.payloads } : ExecState).payload s2.nextTemp).isSome
            = true
          simp [ExecState.payload]
        · show PayMono s.st { s2.st with payloads := (s2.nextTemp, it) :: s2.st.payloads }
          rw [hst]
          exact PayMono.cons s.st _ it s.st.evals
        · show s.nextTemp ≤ s2.nextTemp + 1
          omega
        · show PayNewP _ _ s.st { s2.st with payloads := (s2.nextTemp, it) :: s2.st.payloads }
          rw [hst]
          exact PayNewP.cons (PayNewP.refl _ _ _) s2.nextTemp it s.st.evals (Or.inr (Nat.le_of_eq hnt.symm))
        · show PayKeep s.st { s2.st with payloads := (s2.nextTemp, it) :: s2.st.payloads }
          rw [hst]
          exact PayKeep.cons s.st s2.nextTemp it s.st.evals (T.freshSt _ (Nat.le_of_eq hnt.symm))
      unfold processRec at h
      cases hc : (s.payloadOf (Rel.transfer oid dest target)).isSome with
      | true =>
        simp [bind, ExceptT.bind, ExceptT.mk, ExceptT.bindCont, StateT.bind, get, getThe, MonadStateOf.get,
          StateT.get, liftM, monadLift, MonadLift.monadLift, ExceptT.lift, ExceptT.run, StateT.run, hc, pure,
          ExceptT.pure, StateT.pure, Functor.map, StateT.map] at h
        obtain ⟨h1, h2⟩ := run_ok_inj h
        injection h1 with h1 hb
        subst h1; subst h2; subst hb
        have hpay : (s.st.payload oid).isSome = true := by
          rw [payloadOf_free s (Rel.transfer oid dest target) (by rw [T.sq]; exact T.free.1)] at hc
          cases hp : s.st.payload oid with
          | none => simp [Rel.oid, hp] at hc
          | some _ => rfl
        exact ⟨reg, RegExt.refl _ _, T, Or.inl hpay, PayMono.refl _, rfl, fun _ => Iff.rfl, rfl, Nat.le_refl _,
          fun _ => payloadThrough_isSome _ _ hc, hne, trivial,
          PayNewP.refl _ _ _, (fun _ h => Or.inl h), PayKeep.refl _⟩
      | false =>
       by_cases hji : (Rel.transfer oid dest target).isJoinIdentity = true
       · simp [bind, ExceptT.bind, ExceptT.mk, ExceptT.bindCont, StateT.bind, get, getThe, MonadStateOf.get,
           StateT.get, set, StateT.set, modify, modifyGet, MonadStateOf.modifyGet, StateT.modifyGet,
           MonadState.modifyGet, liftM, monadLift, MonadLift.monadLift, ExceptT.lift, ExceptT.run, StateT.run, pure,
           ExceptT.pure, StateT.pure, Functor.map, StateT.map, hc, hji, trivialPayload, hdk, freshTemp, Res.get] at h
         exact hnewnode s _ rfl rfl rfl (by simp [ItOK]) (by
           rw [joinIdentity_sound σ target T.wf T.truthful
             (by simpa [Rel.isJoinIdentity, Rel.columns, Rel.maxRows, Rel.minRows] using hji)]; rfl) h
       · by_cases hmz : (Rel.transfer oid dest target).maxRows = some 0
         · simp [bind, ExceptT.bind, ExceptT.mk, ExceptT.bindCont, StateT.bind, get, getThe, MonadStateOf.get,
             StateT.get, set, StateT.set, modify, modifyGet, MonadStateOf.modifyGet, StateT.modifyGet,
             MonadState.modifyGet, liftM, monadLift, MonadLift.monadLift, ExceptT.lift, ExceptT.run, StateT.run, pure,
             ExceptT.pure, StateT.pure, Functor.map, StateT.map, hc, hji, hmz, trivialPayload, hdk, freshTemp,
             Res.get] at h
           exact hnewnode s _ rfl rfl rfl (by simp [ItOK]) (by
             rw [maxRows_zero_sound σ target T.wf T.truthful (by simpa [Rel.maxRows] using hmz)]; rfl) h
         · have hnji : (Rel.transfer oid dest target).isJoinIdentity = false := by simpa using hji
           have hnz : (Rel.transfer oid dest target).maxRows ≠ some 0 := hmz
           rcases hsrc with ⟨hki, hmt⟩ | ⟨hks, hraw, hleaf⟩
           · -- the source lives in an iteration engine
             have Tt : TreeInv σ reg sq0 target s :=
               ⟨T.wf, T.truthful, T.kd, T.regOK.2, T.below.2, T.store, T.sq, T.free.2 hki, T.fresh, T.freshSt, T.acyc, T.pos, T.tpos⟩
             cases hr0 : (processRec σ n target none).run.run s with
             | mk r1 s1 =>
               have hr := hr0
               simp only [ExceptT.run, StateT.run] at hr
               cases r1 with
               | error e =>
                 simp [bind, ExceptT.bind, ExceptT.mk, ExceptT.bindCont, StateT.bind, get, getThe, MonadStateOf.get,
                   StateT.get, liftM, monadLift, MonadLift.monadLift, ExceptT.lift, ExceptT.run, StateT.run, pure,
                   ExceptT.pure, StateT.pure, Functor.map, StateT.map, hc, hnji, hnz, hr] at h
                 injection h with h1 _; cases h1
               | ok v =>
                 obtain ⟨nt, fl⟩ := v
                 obtain ⟨reg1, hext, P⟩ := process_multi_iter σ h0 target n none s reg hmt (hsql.2 hki) Tt
                   (by simp [Rel.size] at hf; omega) nt fl s1 hr0
                 have hk : (nt.get target).engine.kind = .iter := by rw [P.engine]; exact hki
                 obtain ⟨s2, hh, h2, hsq, hnt, hm2, hn2, hk2⟩ := hookTransfer_iter σ reg1 (nt.get target) dest matAs s1 hdk hk
                   P.exec P.inv.wf P.inv.truthful P.inv.kd P.inv.regOK P.inv.store P.inv.acyc
                 simp [bind, ExceptT.bind, ExceptT.mk, ExceptT.bindCont, StateT.bind, get, getThe, MonadStateOf.get,
                   StateT.get, liftM, monadLift, MonadLift.monadLift, ExceptT.lift, ExceptT.run, StateT.run, pure,
                   ExceptT.pure, StateT.pure, Functor.map, StateT.map, hc, hnji, hnz, hr, hh, freshTemp,
                   set, StateT.set, modify, modifyGet, MonadStateOf.modifyGet, StateT.modifyGet,
                   MonadState.modifyGet] at h
                 obtain ⟨h1, h2'⟩ := run_ok_inj h
                 injection h1 with h1 hb
                 subst h1; subst h2'; subst hb
                 have hf1 : s2.nextTemp = s1.nextTemp := hnt
                 have hfs2 : ∀ o, s2.nextTemp ≤ o → s2.st.payload o = none :=
                   freshSt_of_new P.inv.below (Nat.le_of_eq hf1.symm) P.inv.freshSt hn2
                 refine ⟨regSet reg1 s2.nextTemp (sem σ (nt.get target)),
                   hext.trans (regSet_ext _ _ _) (by rw [hf1]; exact P.temp), ?_, ?_, ?_, ?_, ?_, rfl, ?_,
                   (fun _ => payloadThrough_isSome _ _ (by
                     simp [ProcState.attach, ProcState.payloadOf, Rel.oid, ExecState.payload, Res.get])),
                   (by show dest ≠ (nt.get target).engine; rw [P.engine]; exact hne), trivial,
                   PayNewP.cons (PayNewP.trans P.newp (PayNewP.of_new s1.nextTemp hn2) P.temp
                     (fun o h => Or.inl (by simpa [Rel.matOids] using h))
                     (fun o h => (P.mats o h).imp (fun h => by simpa [Rel.matOids] using h) id)) s2.nextTemp _ s2.st.evals
                     (Or.inr (by rw [hf1]; exact P.temp)),
                   (fun o ho => (P.mats o (by simpa [Rel.matOids, Res.get] using ho)).imp
                     (fun h => by simpa [Rel.matOids] using h) id),
                   P.keep.trans (hk2.trans (PayKeep.cons s2.st s2.nextTemp _ s2.st.evals (hfs2 _ (Nat.le_refl _))))⟩
                 · refine ⟨P.inv.wf, P.inv.truthful, P.inv.kd, ⟨by simp [regSet], ?_⟩, ⟨?_, ?_⟩, ?_, ?_, ?_, ?_, ?_, P.inv.acyc,
                     P.inv.pos, Nat.lt_succ_of_lt (by rw [hf1]; exact P.inv.tpos)⟩
                   · exact RegOK_ext σ (regSet_ext _ _ _) _ P.inv.regOK (by rw [hf1]; exact P.inv.below)
                   · show s2.nextTemp < s2.nextTemp + 1
                     omega
                   · exact markersBelow_mono (by show s1.nextTemp ≤ s2.nextTemp + 1; omega) _ P.inv.below
                   · exact StoreOK_set h2 s2.nextTemp (.seq (sem σ (nt.get target))) _ trivial rfl
                   · show s2.sq = sq0
                     rw [hsq]; exact P.inv.sq
                   · exact ⟨P.inv.fresh _ (by rw [hf1]; exact Nat.le_refl _), fun _ => P.inv.free⟩
                   · intro o ho
                     exact P.inv.fresh o (by have : s2.nextTemp + 1 ≤ o := ho; omega)
                   · intro o ho
                     have ho' : s2.nextTemp + 1 ≤ o := ho
                     have hne : (s2.nextTemp == o) = false := by simp; omega
                     have := hfs2 o (by omega)
                     simpa [ProcState.attach, ExecState.payload, List.find?_cons, hne] using this
                 · refine Or.inl ?_
                   show (({ s2.st with payloads := (s2.nextTemp, _) :: s2.st.payloads } : ExecState).payload
                     s2.nextTemp).isSome = true
                   simp [ExecState.payload]
                 · exact P.mono.trans (hm2.trans (PayMono.cons s2.st _ _ s2.st.evals))
                 · show sem σ (nt.get target) = sem σ target
                   exact P.sem_eq
                 · intro u
                   show u ∈ (nt.get target).columns ↔ u ∈ target.columns
                   exact P.cols u
                 · show s.nextTemp ≤ s2.nextTemp + 1
                   have := P.temp
                   omega
           · -- the source lives in a SQL engine: it is conformed, compiled and run by the hook
             obtain ⟨bb, hsame⟩ := processRec_settled σ s target n none (settled_of_sqlLeafTree s target hleaf)
               (by simp [Rel.size] at hf; omega)
             simp only [ExceptT.run, StateT.run] at hsame
             obtain ⟨hFa, hRd⟩ := hsql.1 hks
             cases hh0 : hookTransfer σ target dest matAs s with
             | mk r2 s2 =>
               cases r2 with
               | error e =>
                 simp [bind, ExceptT.bind, ExceptT.mk, ExceptT.bindCont, StateT.bind, get, getThe, MonadStateOf.get,
                   StateT.get, liftM, monadLift, MonadLift.monadLift, ExceptT.lift, ExceptT.run, StateT.run, pure,
                   ExceptT.pure, StateT.pure, Functor.map, StateT.map, hc, hnji, hnz, hsame, hh0, Res.get] at h
                 injection h with h1 _; cases h1
               | ok p =>
                 obtain ⟨hp, hst, hsq, hnt⟩ := hookTransfer_sql σ target dest matAs s hdk hks T.wf T.truthful hraw
                   (by rw [T.sq]; exact hFa) (by rw [T.sq]; exact h0)
                   (fun c hcc => by rw [T.sq]; exact hRd _ c hcc) p s2 hh0
                 subst hp
                 simp [bind, ExceptT.bind, ExceptT.mk, ExceptT.bindCont, StateT.bind, get, getThe, MonadStateOf.get,
                   StateT.get, liftM, monadLift, MonadLift.monadLift, ExceptT.lift, ExceptT.run, StateT.run, pure,
                   ExceptT.pure, StateT.pure, Functor.map, StateT.map, hc, hnji, hnz, hsame, hh0, freshTemp, Res.get,
                   set, StateT.set, modify, modifyGet, MonadStateOf.modifyGet, StateT.modifyGet,
                   MonadState.modifyGet] at h
                 exact hnewnode s2 (.seq (sem σ target)) hst hsq hnt trivial rfl h

/-- **Process, then execute**: whenever `Processor.process` succeeds on a tree of leaves, unary operations,
chains, materializations of single-engine subtrees, transfers between iteration engines and transfers OUT OF A SQL
ENGINE (the hook conforms, compiles and runs the source), the returned tree has the engine and the columns of the
input, and executing it in its final engine yields exactly the rows of the direct evaluation of the input. -/
theorem process_multi_then_execute (σ : Leaves) (reg : Nat → Option (List Row)) (t : Rel) (st : ExecState)
    (sq : SqlState) (h0 : sq.payload 0 = none) (hm : t.MultiIter) (hsql : t.SqlSrcOK σ sq) (hwf : t.WF)
    (htr : t.Truthful σ) (hkd : keyDetermined σ t = true) (hreg : t.RegOK σ reg) (hb : t.markersBelow tempBase)
    (hs : StoreOK σ reg st) (hfree : t.sqFree sq) (hfresh : ∀ o, tempBase ≤ o → sq.payload o = none)
    (hfreshSt : ∀ o, tempBase ≤ o → st.payload o = none) (hac : t.Acyclic) (hpos : ∀ o, o ∈ t.matOids → 0 < o)
    (hf : t.size ≤ defaultFuel)
    (res : Res) (ps : ProcState) (h : processTop σ st sq t = (.ok res, ps)) :
    (res.get t).engine = t.engine ∧ (∀ u, u ∈ (res.get t).columns ↔ u ∈ t.columns) ∧
      ∃ it s', exec σ (res.get t).engine (res.get t) ps.st = .ok (it, s') ∧ it.rows σ = .ok (sem σ t) := by
  unfold processTop at h
  cases hr : (processRec σ defaultFuel t none).run.run { st := st, sq := sq } with
  | mk r1 s1 =>
    simp only [ExceptT.run, StateT.run] at hr
    simp only [ExceptT.run, StateT.run, hr] at h
    cases r1 with
    | error e => injection h with h1 _; cases h1
    | ok v =>
      obtain ⟨res0, b⟩ := v
      simp only [Except.map] at h
      obtain ⟨h1, h2⟩ := run_ok_inj h
      subst h1; subst h2
      obtain ⟨reg', _, P⟩ := process_multi_iter σ h0 t defaultFuel none { st := st, sq := sq } reg hm hsql
        ⟨hwf, htr, hkd, hreg, hb, hs, rfl, hfree, hfresh, hfreshSt, hac, hpos, (by show 0 < 9000000; omega)⟩ hf res0 b s1 hr
      refine ⟨P.engine, P.cols, ?_⟩
      have := exec_correctM σ reg' (res0.get t) (res0.get t).engine s1.st P.exec P.inv.wf P.inv.truthful
        P.inv.kd P.inv.regOK P.inv.store rfl
      unfold ExecGoodM at this
      obtain ⟨it, s'', a, bb, _, _, _, _⟩ := this
      exact ⟨it, s'', a, by rw [bb, P.sem_eq]⟩

/-- A history of `process` calls on ONE input tree, each starting in the state the previous one left: the results
(returned tree and state) in order. -/
inductive ProcRuns (σ : Leaves) (fuel : Nat) (t : Rel) : ProcState → List (Res × ProcState) → Prop
  | nil (s : ProcState) : ProcRuns σ fuel t s []
  | cons {s s' : ProcState} {res : Res} {b : Bool} {rest : List (Res × ProcState)}
      (h : (processRec σ fuel t none).run.run s = (.ok (res, b), s')) (hr : ProcRuns σ fuel t s' rest) :
      ProcRuns σ fuel t s ((res, s') :: rest)

/-- The processing invariant of the INPUT tree survives a `process` call (relative to the extended registry). -/
theorem TreeInv.after {σ : Leaves} {reg reg' : Nat → Option (List Row)} {t : Rel} {s s' : ProcState} {matAs : Option String}
    {res : Res} {b : Bool} (T : TreeInv σ reg sq0 t s) (he : RegExt reg reg' s.nextTemp)
    (P : ProcMultiOK σ reg' sq0 t s matAs res b s') : TreeInv σ reg' sq0 t s' :=
  T.same he P.temp P.inv.store P.inv.sq P.inv.freshSt

/-- **Any number of repeated `process` calls on the same tree**: every one of them returns a tree with the engine and
columns of the input that executes, in the state it left, to exactly the rows of the direct evaluation. -/
theorem process_repeatedly (σ : Leaves) (h0 : sq0.payload 0 = none) (t : Rel) (fuel : Nat) (hm : t.MultiIter)
    (hsql : t.SqlSrcOK σ sq0) (hf : t.size ≤ fuel) :
    (runs : List (Res × ProcState)) → (s : ProcState) → (reg : Nat → Option (List Row)) → TreeInv σ reg sq0 t s →
    ProcRuns σ fuel t s runs →
    ∀ x, x ∈ runs → (x.1.get t).engine = t.engine ∧ (∀ u, u ∈ (x.1.get t).columns ↔ u ∈ t.columns) ∧
      ∃ it s'', exec σ (x.1.get t).engine (x.1.get t) x.2.st = .ok (it, s'') ∧ it.rows σ = .ok (sem σ t)
  | [], _, _, _, _, x, hx => by cases hx
  | (res, s') :: rest, s, reg, T, hruns, x, hx => by
    cases hruns with
    | cons h hr =>
      rename_i b
      obtain ⟨reg', hext, P⟩ := process_multi_iter σ h0 t fuel none s reg hm hsql T hf res b s' h
      rcases List.mem_cons.mp hx with hx | hx
      · subst hx
        refine ⟨P.engine, P.cols, ?_⟩
        have := exec_correctM σ reg' (res.get t) (res.get t).engine s'.st P.exec P.inv.wf P.inv.truthful
          P.inv.kd P.inv.regOK P.inv.store rfl
        unfold ExecGoodM at this
        obtain ⟨it, s'', a, bb, _, _, _, _⟩ := this
        exact ⟨it, s'', a, by rw [bb, P.sem_eq]⟩
      · exact process_repeatedly σ h0 t fuel hm hsql hf rest s' reg' (T.after hext P) hr x hx

/-- **Write-once over any number of `process` calls**: whatever payload any node held before the first call it still
holds - the same object - after every later call; payloads are only ever added on Materializations of the input tree
or on nodes the Processor created since the first call; the database-side state is never touched. -/
theorem process_repeatedly_write_once (σ : Leaves) (h0 : sq0.payload 0 = none) (t : Rel) (fuel : Nat) (hm : t.MultiIter)
    (hsql : t.SqlSrcOK σ sq0) (hf : t.size ≤ fuel) :
    (runs : List (Res × ProcState)) → (s : ProcState) → (reg : Nat → Option (List Row)) → TreeInv σ reg sq0 t s →
    ProcRuns σ fuel t s runs →
    ∀ x, x ∈ runs → PayKeep s.st x.2.st ∧ PayNewP t s.nextTemp s.st x.2.st ∧ x.2.sq = s.sq ∧ s.nextTemp ≤ x.2.nextTemp
  | [], _, _, _, _, x, hx => by cases hx
  | (res, s') :: rest, s, reg, T, hruns, x, hx => by
    cases hruns with
    | cons h hr =>
      rename_i b
      obtain ⟨reg', hext, P⟩ := process_multi_iter σ h0 t fuel none s reg hm hsql T hf res b s' h
      have hsq : s'.sq = s.sq := P.inv.sq.trans T.sq.symm
      rcases List.mem_cons.mp hx with hx | hx
      · subst hx
        exact ⟨P.keep, P.newp, hsq, P.temp⟩
      · obtain ⟨k, n, q, tt⟩ :=
          process_repeatedly_write_once σ h0 t fuel hm hsql hf rest s' reg' (T.after hext P) hr x hx
        refine ⟨P.keep.trans k, ?_, q.trans hsq, Nat.le_trans P.temp tt⟩
        intro o ho
        rcases n o ho with h1 | h1 | h1
        · exact P.newp o h1
        · exact Or.inr (Or.inl h1)
        · exact Or.inr (Or.inr (Nat.le_trans P.temp h1))

end DafRel
