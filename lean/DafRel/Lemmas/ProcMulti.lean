/-
The Processor on a tree over several iteration engines (transfers between iteration engines, materializations of
single-engine subtrees): whenever processing succeeds, the returned tree has the rows, columns and engine of the
input, is executable, and the payload store is right for it - with the registry of marker contents extended at the
fresh allocation ids of the nodes the Processor created.
-/
import DafRel.Lemmas.ProcIter
import DafRel.Lemmas.Metadata
import DafRel.Lemmas.Build

namespace DafRel

/-- `reg'` agrees with `reg` on all ids below `n`. -/
def RegExt (reg reg' : Nat → Option (List Row)) (n : Nat) : Prop := ∀ o, o < n → reg' o = reg o

theorem RegExt.refl (reg : Nat → Option (List Row)) (n : Nat) : RegExt reg reg n := fun _ _ => rfl

theorem RegExt.trans {r1 r2 r3 : Nat → Option (List Row)} {n m : Nat} (h1 : RegExt r1 r2 n) (h2 : RegExt r2 r3 m)
    (hnm : n ≤ m) : RegExt r1 r3 n := fun o ho => (h2 o (Nat.lt_of_lt_of_le ho hnm)).trans (h1 o ho)

theorem markersBelow_mono {n m : Nat} (hnm : n ≤ m) : (t : Rel) → t.markersBelow n → t.markersBelow m
  | .leaf .., _ => trivial
  | .unary _ t _, h => markersBelow_mono hnm t h
  | .binary _ l r _, h => ⟨markersBelow_mono hnm l h.1, markersBelow_mono hnm r h.2⟩
  | .mat _ _ t, h => ⟨Nat.lt_of_lt_of_le h.1 hnm, markersBelow_mono hnm t h.2⟩
  | .transfer _ _ t, h => ⟨Nat.lt_of_lt_of_le h.1 hnm, markersBelow_mono hnm t h.2⟩
  | .select _ _ _ _ _ _ _ _ t, h => ⟨Nat.lt_of_lt_of_le h.1 hnm, markersBelow_mono hnm t h.2⟩

theorem RegOK_ext (σ : Leaves) {reg reg' : Nat → Option (List Row)} {n : Nat} (he : RegExt reg reg' n) :
    (t : Rel) → t.RegOK σ reg → t.markersBelow n → t.RegOK σ reg'
  | .leaf .., _, _ => trivial
  | .unary _ t _, h, hb => RegOK_ext σ he t h hb
  | .binary _ l r _, h, hb => ⟨RegOK_ext σ he l h.1 hb.1, RegOK_ext σ he r h.2 hb.2⟩
  | .mat oid _ t, h, hb => ⟨by rw [he oid hb.1]; exact h.1, RegOK_ext σ he t h.2 hb.2⟩
  | .transfer oid _ t, h, hb => ⟨by rw [he oid hb.1]; exact h.1, RegOK_ext σ he t h.2 hb.2⟩
  | .select oid _ _ _ _ _ _ _ t, h, hb => ⟨by rw [he oid hb.1]; exact h.1, RegOK_ext σ he t h.2 hb.2⟩

/-- Registering the rows of a fresh marker. -/
def regSet (reg : Nat → Option (List Row)) (f : Nat) (rows : List Row) : Nat → Option (List Row) :=
  fun o => if o = f then some rows else reg o

theorem regSet_ext (reg : Nat → Option (List Row)) (f : Nat) (rows : List Row) : RegExt reg (regSet reg f rows) f :=
  fun o ho => by simp [regSet, Nat.ne_of_lt ho]

/-- Attaching a payload at `f` and registering its rows keeps the store right. -/
theorem StoreOK_set {σ : Leaves} {reg : Nat → Option (List Row)} {s : ExecState} (h : StoreOK σ reg s)
    (f : Nat) (it : Iterable) (rows : List Row) (hi : ItOK it) (hrows : it.rows σ = .ok rows) :
    StoreOK σ (regSet reg f rows) { s with payloads := (f, it) :: s.payloads } := by
  intro o it' hp
  rw [ExecState.payload_cons] at hp
  by_cases ho : f = o
  · rw [if_pos ho] at hp
    cases hp
    subst ho
    exact ⟨hi, rows, by simp [regSet], hrows⟩
  · rw [if_neg ho] at hp
    obtain ⟨a, rs, b, c⟩ := h o it' hp
    have hne : ¬ o = f := fun h => ho h.symm
    exact ⟨a, rs, by simp [regSet, hne, b], c⟩

/-- The `transfer` hook between two iteration engines. -/
theorem hookTransfer_iter (σ : Leaves) (reg : Nat → Option (List Row)) (t : Rel) (dest : Engine)
    (matAs : Option String) (s : ProcState) (hd : dest.kind = .iter)
    (hk : t.engine.kind = .iter) (hio : t.IterOK) (hwf : t.WF) (htr : t.Truthful σ) (hkd : keyDetermined σ t = true)
    (hreg : t.RegOK σ reg) (hs : StoreOK σ reg s.st) :
    ∃ s', (hookTransfer σ t dest matAs) s = (.ok (.iter (.seq (sem σ t))), s') ∧ StoreOK σ reg s'.st ∧
      s'.sq = s.sq ∧ s'.nextTemp = s.nextTemp := by
  obtain ⟨it, st', h1, h2, h3⟩ : ∃ it st', exec σ t.engine t { s.st with log := [] } = .ok (it, st') ∧
      it.rows σ = .ok (sem σ t) ∧ StoreOK σ reg st' := by
    have := exec_correct σ reg t t.engine { s.st with log := [] } hio hwf htr hkd hreg (hs.log []) rfl
    unfold ExecGood at this
    obtain ⟨it, s', a, b, _, d⟩ := this
    exact ⟨it, s', a, b, d⟩
  unfold hookTransfer evalSingle wrapRows
  simp [bind, ExceptT.bind, ExceptT.mk, ExceptT.bindCont, StateT.bind, get, getThe, MonadStateOf.get,
    StateT.get, set, StateT.set, modify, modifyGet, MonadStateOf.modifyGet, StateT.modifyGet, MonadState.modifyGet,
    liftM, monadLift, MonadLift.monadLift, ExceptT.lift, pure,
    ExceptT.pure, StateT.pure, Functor.map, StateT.map, hk, hd, h1, h2]
  exact ⟨_, rfl, h3.of_payloads_eq rfl, rfl, rfl⟩

/-- What is known of a tree the Processor handles, relative to a registry and a state. -/
structure TreeInv (σ : Leaves) (reg : Nat → Option (List Row)) (x : Rel) (s : ProcState) : Prop where
  iterOK : x.IterOK
  wf : x.WF
  truthful : x.Truthful σ
  kd : keyDetermined σ x = true
  regOK : x.RegOK σ reg
  below : x.markersBelow s.nextTemp
  store : StoreOK σ reg s.st
  sq : s.sq.payloads = []

/-- Re-applying the operation of an existing node to the processed target (`operation.apply(new_target)` inside one
iteration engine). -/
theorem reapply_iter (σ : Leaves) (reg : Nat → Option (List Row)) (st : Store) (op : UOp) (t x : Rel) (c : Cols)
    (s : ProcState) (r : Res)
    (hio : (Rel.unary op t c).IterOK) (hwf : (Rel.unary op t c).WF) (hkd : keyDetermined σ (Rel.unary op t c) = true)
    (X : TreeInv σ reg x s) (hsem : sem σ x = sem σ t) (hcols : ∀ u, u ∈ x.columns ↔ u ∈ t.columns)
    (hk : x.engine.kind = .iter)
    (h : applyOp st defaultFuel (.u op) x {} = .ok r) :
    TreeInv σ reg (r.get x) s ∧ sem σ (r.get x) = sem σ (Rel.unary op t c) ∧
      (∀ u, u ∈ (r.get x).columns ↔ u ∈ c) ∧ (r.get x).engine = x.engine := by
  obtain ⟨hit, hnid, har⟩ := hio
  obtain ⟨hwt, hc, hop⟩ := hwf
  rw [defaultFuel_eq, applyOp_iter st 99998 op x hk] at h
  cases hbeg : op.beginApply x none with
  | error e => simp [hbeg] at h
  | ok v =>
    obtain ⟨o', e⟩ := v
    simp only [hbeg] at h
    have hopx : op.wfOn x.columns = true := by rw [wfOn_congr op _ _ hcols]; exact hop
    have hcolsEq : ∀ u, u ∈ op.appliedColumns x.columns ↔ u ∈ c := by
      intro u; rw [hc]; exact UOp.appliedColumns_congr op _ _ hcols u
    have hsemEq : op.sem (op.appliedColumns x.columns) (sem σ x) = sem σ (Rel.unary op t c) := by
      simp only [sem]
      rw [hsem, hc]
      exact UOp.sem_congr op _ _ (UOp.appliedColumns_congr op _ _ hcols) _
    rcases beginApply_cases op x o' e hbeg with ⟨h1, hwfo⟩ | ⟨h1, hnoop⟩
    · subst h1
      have f := finishApply_sound σ x o' X.wf X.truthful hwfo r h
      have hkd' : keyDetermined σ (r.get x) = true := by
        by_cases hdd : o'.isDedup = true
        · have : o' = .dedup := by cases o' <;> simp [UOp.isDedup] at hdd ⊢
          subst this
          rw [finishApply_dedup x r h]
          simp only [keyDetermined, Bool.and_eq_true] at hkd ⊢
          refine ⟨X.kd, ?_⟩
          have := hkd.2
          rw [rowsKeyDetermined_congr _ _ hcols, hsem]
          rw [hc] at this
          simpa [UOp.appliedColumns] using this
        · exact finishApply_kd σ x o' r X.kd (by simpa using hdd) h
      refine ⟨⟨finishApply_iterOK x o' r X.iterOK ⟨hnid, har⟩ h, f.wf, f.truthful, hkd', ?_, ?_, X.store, X.sq⟩,
        by rw [← hsemEq]; exact f.sem_eq, fun u => (f.cols u).trans (hcolsEq u), f.engine⟩
      · exact finishApply_pres (fun y => y.RegOK σ reg) (fun _ => True) (fun _ => True)
          (fun up t c hp => ⟨hp, trivial⟩) (fun op t c hp _ _ => hp) (fun _ _ _ _ _ _ => trivial) x o' r X.regOK trivial h
      · exact finishApply_pres (fun y => y.markersBelow s.nextTemp) (fun _ => True) (fun _ => True)
          (fun up t c hp => ⟨hp, trivial⟩) (fun op t c hp _ _ => hp) (fun _ _ _ _ _ _ => trivial) x o' r X.below trivial h
    · subst h1
      rw [finishApply_identity] at h
      injection h with h; subst h
      have f := noop_sound σ op x X.wf X.truthful hnoop
      exact ⟨X, by rw [← hsemEq]; exact f.sem_eq, fun u => (f.cols u).trans (hcolsEq u), rfl⟩

theorem rechain_iter (σ : Leaves) (reg : Nat → Option (List Row)) (st : Store) (l r : Rel) (s : ProcState) (b : BRes)
    (L : TreeInv σ reg l s) (R : TreeInv σ reg r s) (hk : l.engine.kind = .iter)
    (h : binaryApply st defaultFuel .chain l r = .ok b) :
    TreeInv σ reg (b.get l r) s ∧ sem σ (b.get l r) = sem σ l ++ sem σ r ∧
      (∀ u, u ∈ (b.get l r).columns ↔ u ∈ l.columns) ∧ (b.get l r).engine = l.engine := by
  have hfuel : defaultFuel = 99999 + 1 := rfl
  rw [hfuel, binaryApply] at h
  simp only [chainBeginApply] at h
  by_cases he : (l.engine != r.engine) = true
  · simp [he, bind, Except.bind] at h
  · simp only [he, Bool.false_eq_true, if_false] at h
    have heq : l.engine = r.engine := by simpa using he
    by_cases hc : l.columns.seteq r.columns = true
    · simp [hc, bind, Except.bind, binaryFinishApply, hk] at h
      subst h
      have hceq := (Cols.seteq_iff _ _).mp hc
      refine ⟨⟨⟨L.iterOK, R.iterOK, heq, trivial⟩, ⟨L.wf, R.wf, rfl, hceq⟩, ⟨L.truthful, R.truthful⟩, ?_,
        ⟨L.regOK, R.regOK⟩, ⟨L.below, R.below⟩, L.store, L.sq⟩, ?_, ?_, ?_⟩
      · simp [BRes.get, keyDetermined, L.kd, R.kd]
      · simp [sem, BRes.get]
      · intro u; simp [BRes.get, Rel.columns]
      · simp [BRes.get, Rel.engine]
    · simp [hc, bind, Except.bind] at h

theorem run_ok_inj {α β : Type} {a a' : α} {e : Type} {s s' : β}
    (h : ((Except.ok a : Except e α), s) = (Except.ok a', s')) : a = a' ∧ s = s' := by
  injection h with h1 h2
  injection h1 with h1
  exact ⟨h1, h2⟩

theorem MultiIter.kind : (t : Rel) → t.MultiIter → t.engine.kind = .iter
  | .leaf .., h => h
  | .unary _ t _, h => MultiIter.kind t h
  | .binary _ l _ _, h => MultiIter.kind l h.1
  | .mat _ _ t, h => h.1
  | .transfer _ _ _, h => h.2
  | .select .., h => by cases h

/-- What processing achieves. -/
structure ProcMultiOK (σ : Leaves) (reg : Nat → Option (List Row)) (t : Rel) (s : ProcState) (res : Res)
    (s' : ProcState) : Prop where
  inv : TreeInv σ reg (res.get t) s'
  sem_eq : sem σ (res.get t) = sem σ t
  cols : ∀ u, u ∈ (res.get t).columns ↔ u ∈ t.columns
  engine : (res.get t).engine = t.engine
  temp : s.nextTemp ≤ s'.nextTemp

theorem TreeInv.same {σ : Leaves} {reg reg' : Nat → Option (List Row)} {t : Rel} {s s' : ProcState}
    (T : TreeInv σ reg t s) (he : RegExt reg reg' s.nextTemp) (hn : s.nextTemp ≤ s'.nextTemp)
    (hs : StoreOK σ reg' s'.st) (hq : s'.sq.payloads = []) : TreeInv σ reg' t s' :=
  ⟨T.iterOK, T.wf, T.truthful, T.kd, RegOK_ext σ he t T.regOK T.below, markersBelow_mono hn t T.below, hs, hq⟩

theorem process_multi_iter (σ : Leaves) :
    (t : Rel) → (fuel : Nat) → (matAs : Option String) → (s : ProcState) → (reg : Nat → Option (List Row)) →
    t.MultiIter → TreeInv σ reg t s → t.size ≤ fuel →
    ∀ res b s', (processRec σ fuel t matAs).run.run s = (.ok (res, b), s') →
    ∃ reg', RegExt reg reg' s.nextTemp ∧ ProcMultiOK σ reg' t s res s'
  | .leaf oid le cols nm mn mx pl ms, fuel, matAs, s, reg, hm, T, hf, res, b, s', h => by
    cases fuel with
    | zero => simp [Rel.size] at hf
    | succ n =>
      have hpl : pl = true := T.iterOK
      have hc : (s.payloadOf (Rel.leaf oid le cols nm mn mx pl ms)).isSome = true := by
        rw [payloadOf_sq_nil s T.sq]; simp [hpl]
      unfold processRec at h
      simp [bind, ExceptT.bind, ExceptT.mk, ExceptT.bindCont, StateT.bind, get, getThe, MonadStateOf.get, StateT.get,
        liftM, monadLift, MonadLift.monadLift, ExceptT.lift, ExceptT.run, StateT.run, hc, pure, ExceptT.pure,
        StateT.pure, Functor.map, StateT.map] at h
      obtain ⟨h1, h2⟩ := run_ok_inj h
      injection h1 with h1 _
      subst h1; subst h2
      exact ⟨reg, RegExt.refl _ _, T, rfl, fun _ => Iff.rfl, rfl, Nat.le_refl _⟩
  | .select .., _, _, _, _, hm, _, _, _, _, _, _ => by cases hm
  | .mat oid name target, fuel, matAs, s, reg, hm, T, hf, res, b, s', h => by
    obtain ⟨hek, hp⟩ := hm
    obtain ⟨s'', h', P⟩ := process_plain_iter σ reg target.engine hek (Rel.mat oid name target) fuel matAs s
      hp T.iterOK T.wf T.truthful T.kd T.regOK T.store T.sq hf
    rw [h'] at h
    obtain ⟨h1, h2⟩ := run_ok_inj h
    injection h1 with h1 _
    subst h1; subst h2
    exact ⟨reg, RegExt.refl _ _, T.same (RegExt.refl _ _) (Nat.le_of_eq P.temp.symm) P.store P.sq, rfl,
      fun _ => Iff.rfl, rfl, Nat.le_of_eq P.temp.symm⟩
  | .unary op target c, fuel, matAs, s, reg, hm, T, hf, res, b, s', h => by
    cases fuel with
    | zero => simp [Rel.size] at hf
    | succ n =>
      have hkd' : keyDetermined σ target = true := by
        have := T.kd; simp only [keyDetermined, Bool.and_eq_true] at this; exact this.1
      have Tt : TreeInv σ reg target s := ⟨T.iterOK.1, T.wf.1, T.truthful, hkd', T.regOK, T.below, T.store, T.sq⟩
      unfold processRec at h
      cases hr0 : (processRec σ n target none).run.run s with
      | mk r1 s1 =>
        have hr := hr0
        simp only [ExceptT.run, StateT.run] at hr
        cases r1 with
        | error e =>
          simp [bind, ExceptT.bind, ExceptT.mk, ExceptT.bindCont, StateT.bind, get, getThe, MonadStateOf.get,
            StateT.get, liftM, monadLift, MonadLift.monadLift, ExceptT.lift, ExceptT.run, StateT.run, pure,
            ExceptT.pure, StateT.pure, Functor.map, StateT.map, ProcState.payloadOf, hr] at h
          injection h with h1 _; cases h1
        | ok v =>
          obtain ⟨nt, fl⟩ := v
          obtain ⟨reg1, hext, P⟩ := process_multi_iter σ target n none s reg hm Tt
            (by simp [Rel.size] at hf; omega) nt fl s1 hr0
          simp [bind, ExceptT.bind, ExceptT.mk, ExceptT.bindCont, StateT.bind, get, getThe, MonadStateOf.get,
            StateT.get, liftM, monadLift, MonadLift.monadLift, ExceptT.lift, ExceptT.run, StateT.run, pure,
            ExceptT.pure, StateT.pure, Functor.map, StateT.map, ProcState.payloadOf, hr] at h
          cases nt with
          | same =>
            simp only [StateT.pure, pure] at h
            obtain ⟨h1, h2⟩ := run_ok_inj h
            injection h1 with h1 _
            subst h1; subst h2
            exact ⟨reg1, hext, T.same hext P.temp P.inv.store P.inv.sq, rfl, fun _ => Iff.rfl, rfl, P.temp⟩
          | new t' =>
            have hk : t'.engine.kind = .iter := by
              have := P.engine
              simp only [Res.get] at this
              rw [this]; exact MultiIter.kind target hm
            cases ha : applyOp s1.store defaultFuel (.u op) t' {} with
            | error e =>
              simp only [StateT.bind, StateT.map, StateT.get, ExceptT.bindCont, Functor.map, ha, throw, throwThe,
                MonadExceptOf.throw, ExceptT.mk, pure, StateT.pure, bind] at h
              injection h with h1 _; cases h1
            | ok r =>
              simp only [StateT.bind, StateT.map, StateT.get, ExceptT.bindCont, Functor.map, ha, pure,
                StateT.pure, bind] at h
              obtain ⟨h1, h2⟩ := run_ok_inj h
              injection h1 with h1 _
              subst h1; subst h2
              obtain ⟨I, hs, hc, he⟩ := reapply_iter σ reg1 s1.store op target t' c s1 r T.iterOK T.wf T.kd P.inv
                P.sem_eq P.cols hk ha
              exact ⟨reg1, hext, I, hs, fun u => hc u, he.trans P.engine, P.temp⟩
  | .binary op l r c, fuel, matAs, s, reg, hm, T, hf, res, b, s', h => by
    cases fuel with
    | zero => simp [Rel.size] at hf
    | succ n =>
      obtain ⟨hml, hmr⟩ := hm
      obtain ⟨hil, hir, heng, hop⟩ := T.iterOK
      cases op with
      | join j => cases hop
      | ignoreOne bb => cases hop
      | chain =>
        have hkd := T.kd
        simp only [keyDetermined, Bool.and_eq_true] at hkd
        obtain ⟨hwl, hwr, hcc, hcols⟩ := T.wf
        have Tl : TreeInv σ reg l s := ⟨hil, hwl, T.truthful.1, hkd.1, T.regOK.1, T.below.1, T.store, T.sq⟩
        unfold processRec at h
        cases hr0 : (processRec σ n l none).run.run s with
        | mk r1 s1 =>
          have hr := hr0
          simp only [ExceptT.run, StateT.run] at hr
          cases r1 with
          | error e =>
            simp [bind, ExceptT.bind, ExceptT.mk, ExceptT.bindCont, StateT.bind, get, getThe, MonadStateOf.get,
              StateT.get, liftM, monadLift, MonadLift.monadLift, ExceptT.lift, ExceptT.run, StateT.run, pure,
              ExceptT.pure, StateT.pure, Functor.map, StateT.map, ProcState.payloadOf, hr] at h
            injection h with h1 _; cases h1
          | ok v =>
            obtain ⟨nl, lp⟩ := v
            obtain ⟨reg1, hext1, P1⟩ := process_multi_iter σ l n none s reg hml Tl
              (by simp [Rel.size] at hf; omega) nl lp s1 hr0
            have Tr : TreeInv σ reg1 r s1 :=
              ⟨hir, hwr, T.truthful.2, hkd.2, RegOK_ext σ hext1 r T.regOK.2 T.below.2,
                markersBelow_mono P1.temp r T.below.2, P1.inv.store, P1.inv.sq⟩
            cases hq0 : (processRec σ n r none).run.run s1 with
            | mk r2 s2 =>
              have hq := hq0
              simp only [ExceptT.run, StateT.run] at hq
              cases r2 with
              | error e =>
                simp [bind, ExceptT.bind, ExceptT.mk, ExceptT.bindCont, StateT.bind, get, getThe, MonadStateOf.get,
                  StateT.get, liftM, monadLift, MonadLift.monadLift, ExceptT.lift, ExceptT.run, StateT.run, pure,
                  ExceptT.pure, StateT.pure, Functor.map, StateT.map, ProcState.payloadOf, hr, hq] at h
                injection h with h1 _; cases h1
              | ok w =>
                obtain ⟨nr, rp⟩ := w
                obtain ⟨reg2, hext2, P2⟩ := process_multi_iter σ r n none s1 reg1 hmr Tr
                  (by simp [Rel.size] at hf; omega) nr rp s2 hq0
                simp [bind, ExceptT.bind, ExceptT.mk, ExceptT.bindCont, StateT.bind, get, getThe, MonadStateOf.get,
                  StateT.get, liftM, monadLift, MonadLift.monadLift, ExceptT.lift, ExceptT.run, StateT.run, pure,
                  ExceptT.pure, StateT.pure, Functor.map, StateT.map, ProcState.payloadOf, hr, hq] at h
                have L' : TreeInv σ reg2 (nl.get l) s2 := P1.inv.same hext2 P2.temp P2.inv.store P2.inv.sq
                have R' := P2.inv
                have hextAll : RegExt reg reg2 s.nextTemp := hext1.trans hext2 P1.temp
                have htemp : s.nextTemp ≤ s2.nextTemp := Nat.le_trans P1.temp P2.temp
                have hsemC : sem σ (Rel.binary .chain l r c) = sem σ l ++ sem σ r := by simp [sem]
                have hempty : ∀ x : Rel, x.WF → x.Truthful σ → x.maxRows = some 0 → sem σ x = [] := by
                  intro x hw ht hmx
                  have := (metadata_truthful σ x hw ht).upper 0 hmx
                  exact List.eq_nil_of_length_eq_zero (Nat.le_zero.mp this)
                have finishNew : ∀ (X : Rel) (fl : Bool), TreeInv σ reg2 X s2 → sem σ X = sem σ l ++ sem σ r →
                    (∀ u, u ∈ X.columns ↔ u ∈ l.columns) → X.engine = l.engine →
                    (Except.ok (Res.new X, fl), s2) = ((Except.ok (res, b) : Except Err (Res × Bool)), s') →
                    ∃ reg', RegExt reg reg' s.nextTemp ∧ ProcMultiOK σ reg' (Rel.binary .chain l r c) s res s' := by
                  intro X fl IX hsX hcX heX hh
                  obtain ⟨h1, h2⟩ := run_ok_inj hh
                  injection h1 with h1 _
                  subst h1; subst h2
                  exact ⟨reg2, hextAll, IX, by rw [hsemC]; exact hsX, fun u => by rw [hcc]; exact hcX u, heX, htemp⟩
                by_cases hl0 : (nl.get l).maxRows = some 0
                · simp only [hl0, if_true, StateT.pure, pure] at h
                  refine finishNew (nr.get r) rp R' ?_ ?_ ?_ h
                  · rw [P2.sem_eq, ← P1.sem_eq, hempty _ L'.wf L'.truthful hl0]; rfl
                  · intro u; rw [P2.cols u]; exact (hcols u).symm
                  · rw [P2.engine]; exact heng.symm
                · simp only [hl0, if_false] at h
                  by_cases hr0' : (nr.get r).maxRows = some 0
                  · simp only [hr0', if_true, StateT.pure, pure] at h
                    refine finishNew (nl.get l) lp L' ?_ (fun u => P1.cols u) P1.engine h
                    rw [P1.sem_eq, ← P2.sem_eq, hempty _ R'.wf R'.truthful hr0']; simp
                  · simp only [hr0', if_false] at h
                    have hk : (nl.get l).engine.kind = .iter := by rw [P1.engine]; exact MultiIter.kind l hml
                    have hrebuild : (match binaryApply s2.store defaultFuel BOp.chain (nl.get l) (nr.get r) with
                        | Except.error e => ((Except.error e : Except Err (Res × Bool)), s2)
                        | Except.ok bb => (Except.ok (Res.new (bb.get (nl.get l) (nr.get r)), false), s2)) =
                        (Except.ok (res, b), s') →
                        ∃ reg', RegExt reg reg' s.nextTemp ∧ ProcMultiOK σ reg' (Rel.binary .chain l r c) s res s' := by
                      intro hh
                      cases hb : binaryApply s2.store defaultFuel BOp.chain (nl.get l) (nr.get r) with
                      | error e => simp only [hb] at hh; injection hh with h1 _; cases h1
                      | ok bb =>
                        simp only [hb] at hh
                        obtain ⟨IX, hsX, hcX, heX⟩ := rechain_iter σ reg2 s2.store _ _ s2 bb L' R' hk hb
                        refine finishNew _ false IX ?_ ?_ ?_ hh
                        · rw [hsX, P1.sem_eq, P2.sem_eq]
                        · intro u; rw [hcX u]; exact P1.cols u
                        · rw [heX]; exact P1.engine
                    cases nl with
                    | same =>
                      cases nr with
                      | same =>
                        simp only [StateT.pure, pure] at h
                        obtain ⟨h1, h2⟩ := run_ok_inj h
                        injection h1 with h1 _
                        subst h1; subst h2
                        exact ⟨reg2, hextAll, T.same hextAll htemp P2.inv.store P2.inv.sq, rfl, fun _ => Iff.rfl, rfl,
                          htemp⟩
                      | new y =>
                        apply hrebuild
                        simp only [StateT.bind, StateT.map, StateT.get, ExceptT.bindCont, Functor.map, throw,
                          throwThe, MonadExceptOf.throw, ExceptT.mk, pure, StateT.pure, bind] at h
                        cases hb : binaryApply s2.store defaultFuel BOp.chain (Res.same.get l) ((Res.new y).get r) <;>
                          simp only [hb] at h ⊢ <;> exact h
                    | new x =>
                      apply hrebuild
                      simp only [StateT.bind, StateT.map, StateT.get, ExceptT.bindCont, Functor.map, throw,
                        throwThe, MonadExceptOf.throw, ExceptT.mk, pure, StateT.pure, bind] at h
                      cases hb : binaryApply s2.store defaultFuel BOp.chain ((Res.new x).get l) (nr.get r) <;>
                        simp only [hb] at h ⊢ <;> exact h
  | .transfer oid dest target, fuel, matAs, s, reg, hm, T, hf, res, b, s', h => by
    cases fuel with
    | zero => simp [Rel.size] at hf
    | succ n =>
      obtain ⟨hmt, hdk⟩ := hm
      have Tt : TreeInv σ reg target s := ⟨T.iterOK.1, T.wf, T.truthful, T.kd, T.regOK.2, T.below.2, T.store, T.sq⟩
      unfold processRec at h
      -- a statically trivial transfer: the engine's trivial payload on a new node, the target untouched
      have htrivial : ∀ (ji : Bool) (rows : List Row), sem σ target = rows →
          rows = (if ji then [Row.empty] else []) →
          (Except.ok (Res.new (Rel.transfer s.nextTemp dest target), matAs.isSome),
              ({ s with nextTemp := s.nextTemp + 1 } : ProcState).attach s.nextTemp
                (.iter (.mapping [] (if ji then [Row.empty] else [])))) =
            ((Except.ok (res, b) : Except Err (Res × Bool)), s') →
          ∃ reg', RegExt reg reg' s.nextTemp ∧ ProcMultiOK σ reg' (Rel.transfer oid dest target) s res s' := by
        intro ji rows hsem hrows hh
        obtain ⟨h1, h2⟩ := run_ok_inj hh
        injection h1 with h1 _
        subst h1; subst h2
        refine ⟨regSet reg s.nextTemp (sem σ target), regSet_ext _ _ _, ?_, rfl, fun _ => Iff.rfl, rfl, ?_⟩
        · refine ⟨T.iterOK, T.wf, T.truthful, T.kd, ⟨by simp [regSet], ?_⟩, ⟨?_, ?_⟩, ?_, T.sq⟩
          · exact RegOK_ext σ (regSet_ext _ _ _) _ T.regOK.2 T.below.2
          · show s.nextTemp < s.nextTemp + 1
            omega
          · exact markersBelow_mono (by show s.nextTemp ≤ s.nextTemp + 1; omega) _ T.below.2
          · refine StoreOK_set T.store s.nextTemp _ _ ?_ (by rw [hsem, hrows]; rfl)
            cases ji <;> simp [ItOK]
        · show s.nextTemp ≤ s.nextTemp + 1
          omega
      cases hc : (s.payloadOf (Rel.transfer oid dest target)).isSome with
      | true =>
        simp [bind, ExceptT.bind, ExceptT.mk, ExceptT.bindCont, StateT.bind, get, getThe, MonadStateOf.get,
          StateT.get, liftM, monadLift, MonadLift.monadLift, ExceptT.lift, ExceptT.run, StateT.run, hc, pure,
          ExceptT.pure, StateT.pure, Functor.map, StateT.map] at h
        obtain ⟨h1, h2⟩ := run_ok_inj h
        injection h1 with h1 _
        subst h1; subst h2
        exact ⟨reg, RegExt.refl _ _, T, rfl, fun _ => Iff.rfl, rfl, Nat.le_refl _⟩
      | false =>
       by_cases hji : (Rel.transfer oid dest target).isJoinIdentity = true
       · simp [bind, ExceptT.bind, ExceptT.mk, ExceptT.bindCont, StateT.bind, get, getThe, MonadStateOf.get,
           StateT.get, set, StateT.set, modify, modifyGet, MonadStateOf.modifyGet, StateT.modifyGet,
           MonadState.modifyGet, liftM, monadLift, MonadLift.monadLift, ExceptT.lift, ExceptT.run, StateT.run, pure,
           ExceptT.pure, StateT.pure, Functor.map, StateT.map, hc, hji, trivialPayload, hdk, freshTemp, Res.get] at h
         exact htrivial true _ (joinIdentity_sound σ target T.wf T.truthful (by simpa [Rel.isJoinIdentity, Rel.columns, Rel.maxRows, Rel.minRows] using hji)) rfl h
       · by_cases hmz : (Rel.transfer oid dest target).maxRows = some 0
         · simp [bind, ExceptT.bind, ExceptT.mk, ExceptT.bindCont, StateT.bind, get, getThe, MonadStateOf.get,
             StateT.get, set, StateT.set, modify, modifyGet, MonadStateOf.modifyGet, StateT.modifyGet,
             MonadState.modifyGet, liftM, monadLift, MonadLift.monadLift, ExceptT.lift, ExceptT.run, StateT.run, pure,
             ExceptT.pure, StateT.pure, Functor.map, StateT.map, hc, hji, hmz, trivialPayload, hdk, freshTemp,
             Res.get] at h
           exact htrivial false _ (maxRows_zero_sound σ target T.wf T.truthful (by simpa [Rel.maxRows] using hmz)) rfl h
         · have hnji : (Rel.transfer oid dest target).isJoinIdentity = false := by simpa using hji
           have hnz : (Rel.transfer oid dest target).maxRows ≠ some 0 := hmz
           exact (by
        cases hr0 : (processRec σ n target none).run.run s with
        | mk r1 s1 =>
          have hr := hr0
          simp only [ExceptT.run, StateT.run] at hr
          cases r1 with
          | error e =>
            simp [bind, ExceptT.bind, ExceptT.mk, ExceptT.bindCont, StateT.bind, get, getThe, MonadStateOf.get,
              StateT.get, liftM, monadLift, MonadLift.monadLift, ExceptT.lift, ExceptT.run, StateT.run, pure,
              ExceptT.pure, StateT.pure, Functor.map, StateT.map, hc, hnji, hnz, hr] at h
            injection h with h1 _; cases h1
          | ok v =>
            obtain ⟨nt, fl⟩ := v
            obtain ⟨reg1, hext, P⟩ := process_multi_iter σ target n none s reg hmt Tt
              (by simp [Rel.size] at hf; omega) nt fl s1 hr0
            have hk : (nt.get target).engine.kind = .iter := by rw [P.engine]; exact T.iterOK.2
            obtain ⟨s2, hh, h2, hsq, hnt⟩ := hookTransfer_iter σ reg1 (nt.get target) dest matAs s1 hdk hk
              P.inv.iterOK P.inv.wf P.inv.truthful P.inv.kd P.inv.regOK P.inv.store
            simp [bind, ExceptT.bind, ExceptT.mk, ExceptT.bindCont, StateT.bind, get, getThe, MonadStateOf.get,
              StateT.get, liftM, monadLift, MonadLift.monadLift, ExceptT.lift, ExceptT.run, StateT.run, pure,
              ExceptT.pure, StateT.pure, Functor.map, StateT.map, hc, hnji, hnz, hr, hh, freshTemp,
              set, StateT.set, modify, modifyGet, MonadStateOf.modifyGet, StateT.modifyGet, MonadState.modifyGet] at h
            obtain ⟨h1, h2'⟩ := run_ok_inj h
            injection h1 with h1 _
            subst h1; subst h2'
            have hf1 : s2.nextTemp = s1.nextTemp := hnt
            refine ⟨regSet reg1 s2.nextTemp (sem σ (nt.get target)),
              hext.trans (regSet_ext _ _ _) (by rw [hf1]; exact P.temp), ?_, ?_, ?_, rfl, ?_⟩
            · refine ⟨⟨P.inv.iterOK, hk⟩, P.inv.wf, P.inv.truthful, P.inv.kd, ⟨by simp [regSet], ?_⟩, ⟨?_, ?_⟩, ?_, ?_⟩
              · exact RegOK_ext σ (regSet_ext _ _ _) _ P.inv.regOK (by rw [hf1]; exact P.inv.below)
              · show s2.nextTemp < s2.nextTemp + 1
                omega
              · exact markersBelow_mono (by show s1.nextTemp ≤ s2.nextTemp + 1; omega) _ P.inv.below
              · exact StoreOK_set h2 s2.nextTemp (.seq (sem σ (nt.get target))) _ trivial rfl
              · show s2.sq.payloads = []
                rw [hsq]; exact P.inv.sq
            · show sem σ (nt.get target) = sem σ target
              exact P.sem_eq
            · intro u
              show u ∈ (nt.get target).columns ↔ u ∈ target.columns
              exact P.cols u
            · show s.nextTemp ≤ s2.nextTemp + 1
              have := P.temp
              omega)

/-- **Process, then execute** (several iteration engines): whenever `Processor.process` succeeds on a tree of
leaves, unary operations, chains, transfers between iteration engines and materializations of single-engine
subtrees, the returned tree has the engine and columns of the input, and executing it yields exactly the rows of
the direct evaluation of the input. -/
theorem process_multi_then_execute (σ : Leaves) (reg : Nat → Option (List Row)) (t : Rel) (st : ExecState)
    (hm : t.MultiIter) (hio : t.IterOK) (hwf : t.WF) (htr : t.Truthful σ) (hkd : keyDetermined σ t = true)
    (hreg : t.RegOK σ reg) (hb : t.markersBelow tempBase) (hs : StoreOK σ reg st) (hf : t.size ≤ defaultFuel)
    (res : Res) (ps : ProcState) (h : processTop σ st {} t = (.ok res, ps)) :
    (res.get t).engine = t.engine ∧ (∀ u, u ∈ (res.get t).columns ↔ u ∈ t.columns) ∧
      ∃ it s', exec σ (res.get t).engine (res.get t) ps.st = .ok (it, s') ∧ it.rows σ = .ok (sem σ t) := by
  unfold processTop at h
  cases hr : (processRec σ defaultFuel t none).run.run { st := st, sq := {} } with
  | mk r1 s1 =>
    simp only [ExceptT.run, StateT.run] at hr
    simp only [ExceptT.run, StateT.run, hr] at h
    cases r1 with
    | error e => injection h with h1 _; cases h1
    | ok v =>
      obtain ⟨res0, b⟩ := v
      simp only [Except.map] at h
      obtain ⟨h1, h2⟩ := run_ok_inj h
      subst h1; subst h2
      obtain ⟨reg', _, P⟩ := process_multi_iter σ t defaultFuel none { st := st, sq := {} } reg hm
        ⟨hio, hwf, htr, hkd, hreg, hb, hs, rfl⟩ hf res0 b s1 hr
      refine ⟨P.engine, P.cols, ?_⟩
      have := exec_correct σ reg' (res0.get t) (res0.get t).engine s1.st P.inv.iterOK P.inv.wf P.inv.truthful
        P.inv.kd P.inv.regOK P.inv.store rfl
      unfold ExecGood at this
      obtain ⟨it, s'', a, bb, _, _⟩ := this
      exact ⟨it, s'', a, by rw [bb, P.sem_eq]⟩

end DafRel
