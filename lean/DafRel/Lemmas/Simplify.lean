/-
Soundness and totality of `simplify` (merging / eliding adjacent operations) and of the default
`_finish_apply` recursion built on it.
-/
import DafRel.Lemmas.Lex
import DafRel.Lemmas.Trivial
import DafRel.Lemmas.Metadata
import DafRel.Model.Apply

namespace DafRel

/-! ### Column bookkeeping -/

theorem mem_sortThen (self next : List SortTerm) (t : SortTerm) :
    t ∈ UOp.sortThen self next → t ∈ next ∨ t ∈ self := by
  unfold UOp.sortThen
  induction self generalizing next with
  | nil => simp
  | cons u us ih =>
    simp only [List.foldl_cons]
    intro h
    split at h
    · rcases ih _ h with h' | h'
      · exact Or.inl h'
      · exact Or.inr (List.mem_cons_of_mem _ h')
    · rcases ih _ h with h' | h'
      · rcases List.mem_append.mp h' with h'' | h''
        · exact Or.inl h''
        · simp at h''; exact Or.inr (by simp [h''])
      · exact Or.inr (List.mem_cons_of_mem _ h')

theorem mem_sortCols (ts : List SortTerm) (c : Tag) :
    c ∈ UOp.sortCols ts ↔ ∃ t, t ∈ ts ∧ c ∈ t.expr.columnsRequired := by
  induction ts with
  | nil => simp [UOp.sortCols]
  | cons u us ih => simp [UOp.sortCols, ih]

mutual
theorem Pred.flattenAnd_cols : (p : Pred) → (ps : List Pred) → p.flattenAnd = some ps →
    ∀ t, t ∈ Pred.columnsRequiredList ps → t ∈ p.columnsRequired
  | .and qs, ps, h => by
    simp only [Pred.flattenAnd] at h
    simpa [Pred.columnsRequired] using Pred.flattenAndList_cols qs ps h
  | .lit true, ps, h => by simp [Pred.flattenAnd] at h; subst h; simp [Pred.columnsRequiredList]
  | .lit false, ps, h => by simp [Pred.flattenAnd] at h
  | .ref x, ps, h => by simp [Pred.flattenAnd] at h; subst h; simp [Pred.columnsRequiredList]
  | .fn f a s, ps, h => by simp [Pred.flattenAnd] at h; subst h; simp [Pred.columnsRequiredList]
  | .not p, ps, h => by simp [Pred.flattenAnd] at h; subst h; simp [Pred.columnsRequiredList]
  | .or qs, ps, h => by simp [Pred.flattenAnd] at h; subst h; simp [Pred.columnsRequiredList]
  | .inC i c, ps, h => by simp [Pred.flattenAnd] at h; subst h; simp [Pred.columnsRequiredList]
theorem Pred.flattenAndList_cols : (qs : List Pred) → (ps : List Pred) →
    Pred.flattenAndList qs = some ps →
    ∀ t, t ∈ Pred.columnsRequiredList ps → t ∈ Pred.columnsRequiredList qs
  | [], ps, h => by simp [Pred.flattenAndList] at h; subst h; simp
  | q :: qs, ps, h => by
    unfold Pred.flattenAndList at h
    cases hq : Pred.flattenAnd q with
    | none => simp [hq] at h
    | some xs =>
      cases hqs : Pred.flattenAndList qs with
      | none => simp [hq, hqs] at h
      | some ys =>
        simp [hq, hqs] at h
        subst h
        intro t ht
        have key : ∀ (as bs : List Pred), Pred.columnsRequiredList (as ++ bs)
            = Pred.columnsRequiredList as ++ Pred.columnsRequiredList bs := by
          intro as bs
          induction as with
          | nil => rfl
          | cons a as iha => simp [Pred.columnsRequiredList, iha]
        rw [key] at ht
        simp only [Pred.columnsRequiredList, List.mem_append]
        rcases List.mem_append.mp ht with h1 | h1
        · exact Or.inl (Pred.flattenAnd_cols q xs hq t h1)
        · exact Or.inr (Pred.flattenAndList_cols qs ys hqs t h1)
end

theorem Pred.logicalAnd_cols (ps : List Pred) (t : Tag) :
    t ∈ (Pred.logicalAnd ps).columnsRequired → t ∈ Pred.columnsRequiredList ps := by
  match ps with
  | [] => simp [Pred.logicalAnd, Pred.columnsRequired]
  | [p] => simp [Pred.logicalAnd, Pred.columnsRequiredList]
  | p :: q :: rest => simp [Pred.logicalAnd, Pred.columnsRequired]

theorem Pred.normalise_cols (p : Pred) (t : Tag) :
    t ∈ p.normalise.columnsRequired → t ∈ p.columnsRequired := by
  unfold Pred.normalise
  cases h : p.flattenAnd with
  | none => exact id
  | some ps =>
    intro ht
    exact Pred.flattenAnd_cols p ps h t (Pred.logicalAnd_cols ps t ht)

/-! ### `simplify` -/

theorem Row.restrict_restrict (r : Row) (c c0 : Cols) (h : ∀ t, t ∈ c → t ∈ c0) :
    (r.restrict c0).restrict c = r.restrict c := by
  funext t
  unfold Row.restrict
  by_cases ht : t ∈ c
  · simp [ht, h t ht]
  · simp [ht]

theorem Row.restrict_set (r : Row) (c : Cols) (tag : Tag) (v : Int) (h : tag ∉ c) :
    (r.set tag v).restrict c = r.restrict c := by
  funext t
  unfold Row.restrict Row.set
  by_cases ht : t ∈ c
  · have : t ≠ tag := fun e => h (e ▸ ht)
    simp [ht, this]
  · simp [ht]

theorem isort_lexLe_nil (l : List Row) : isort (lexLe []) l = l := by
  have : isort (lexLe []) l = isort (fun _ _ => true) l := by apply isort_congr; intros; rfl
  rw [this, isort_true]

/-- What `simplify` promises, for a target with columns `tcols` and rows `l`:
never an exception; a kept upstream means the new operation does nothing; a replacement is
equivalent to the two operations in sequence, produces the same columns and is well-formed. -/
theorem simplify_sound (new up : UOp) (tcols : Cols) (l : List Row)
    (hup : up.wfOn tcols = true) (hnew : new.wfOn (up.appliedColumns tcols) = true) :
    match new.simplify up with
    | .error _ => False
    | .ok .no => True
    | .ok .keepUpstream =>
      ∀ c, new.sem c (up.sem (up.appliedColumns tcols) l) = up.sem (up.appliedColumns tcols) l
    | .ok (.replace m) =>
      (∀ c1 c2, m.sem c1 l = new.sem c2 (up.sem (up.appliedColumns tcols) l)) ∧
      m.appliedColumns tcols = new.appliedColumns (up.appliedColumns tcols) ∧
      m.wfOn tcols = true := by
  cases new with
  | «calc» tag e => simp [UOp.simplify]
  | dedup => simp [UOp.simplify]
  | identity => simp [UOp.simplify, UOp.sem]
  | proj c =>
    cases up with
    | proj c0 =>
      simp only [UOp.simplify]
      simp only [UOp.wfOn, UOp.columnsRequired, UOp.appliedColumns, Bool.and_true, Cols.subset_iff] at hup hnew
      refine ⟨?_, rfl, ?_⟩
      · intro _ _
        simp only [UOp.sem, List.map_map]
        apply List.map_congr_left
        intro r _
        simp [Row.restrict_restrict r c c0 hnew]
      · simp only [UOp.wfOn, UOp.columnsRequired, Bool.and_true, Cols.subset_iff]
        exact fun t ht => hup t (hnew t ht)
    | «calc» tag e =>
      by_cases htag : tag ∈ c
      · simp [UOp.simplify, htag]
      · simp only [UOp.simplify, htag, if_false]
        simp only [UOp.wfOn, UOp.columnsRequired, UOp.appliedColumns, Bool.and_true, Cols.subset_iff] at hnew
        refine ⟨?_, rfl, ?_⟩
        · intro _ _
          simp only [UOp.sem, List.map_map]
          apply List.map_congr_left
          intro r _
          simp [Row.restrict_set r c tag _ htag]
        · simp only [UOp.wfOn, UOp.columnsRequired, Bool.and_true, Cols.subset_iff]
          intro t ht
          rcases (Cols.mem_insert tcols tag t).mp (hnew t ht) with h | h
          · exact h
          · exact absurd (h ▸ ht) htag
    | dedup => simp [UOp.simplify]
    | identity => simp [UOp.simplify]
    | sel _ => simp [UOp.simplify]
    | slice _ _ => simp [UOp.simplify]
    | sort _ => simp [UOp.simplify]
  | sel p =>
    cases up with
    | sel q =>
      simp only [UOp.simplify, UOp.mkSel]
      simp only [UOp.wfOn, UOp.columnsRequired, UOp.appliedColumns, Bool.and_true, Cols.subset_iff] at hup hnew
      refine ⟨?_, rfl, ?_⟩
      · intro _ _
        simp only [UOp.sem, List.filter_filter]
        apply List.filter_congr
        intro r _
        rw [Pred.normalise_val]
        simp [Pred.val, Pred.valAll, Bool.and_comm]
      · simp only [UOp.wfOn, UOp.columnsRequired, Bool.and_true, Cols.subset_iff]
        intro t ht
        have := Pred.normalise_cols _ t ht
        simp only [Pred.columnsRequired, Pred.columnsRequiredList, List.append_nil, List.mem_append] at this
        rcases this with h | h
        · exact hup t h
        · exact hnew t h
    | «calc» _ _ => simp [UOp.simplify]
    | dedup => simp [UOp.simplify]
    | identity => simp [UOp.simplify]
    | proj _ => simp [UOp.simplify]
    | slice _ _ => simp [UOp.simplify]
    | sort _ => simp [UOp.simplify]
  | slice s e =>
    by_cases h0 : (s == 0 && e.isNone) = true
    · simp only [UOp.simplify, h0, if_true]
      simp only [Bool.and_eq_true, beq_iff_eq, Option.isNone_iff_eq_none] at h0
      obtain ⟨rfl, rfl⟩ := h0
      intro _
      simp [UOp.sem, sliceList]
    · cases up with
      | slice s0 e0 =>
        simp only [UOp.simplify, h0, if_false, Bool.false_eq_true, sliceThen_eq, Except.map]
        refine ⟨?_, rfl, by simp [UOp.wfOn, UOp.columnsRequired, Cols.subset]⟩
        intro _ _
        simp only [UOp.sem]
        rw [sliceList_sliceList]
      | «calc» _ _ => simp [UOp.simplify, h0]
      | dedup => simp [UOp.simplify, h0]
      | identity => simp [UOp.simplify, h0]
      | proj _ => simp [UOp.simplify, h0]
      | sel _ => simp [UOp.simplify, h0]
      | sort _ => simp [UOp.simplify, h0]
  | sort ts =>
    by_cases h0 : ts.isEmpty = true
    · simp only [UOp.simplify, h0, if_true]
      have : ts = [] := by cases ts <;> simp_all
      subst this
      intro _
      simp [UOp.sem, isort_lexLe_nil]
    · cases up with
      | sort ts0 =>
        simp only [UOp.simplify, h0, if_false, Bool.false_eq_true]
        simp only [UOp.wfOn, UOp.columnsRequired, UOp.appliedColumns, Bool.and_true, Cols.subset_iff] at hup hnew
        refine ⟨?_, rfl, ?_⟩
        · intro _ _
          simp only [UOp.sem]
          rw [isort_lexLe_append]
          apply isort_congr
          intro a b _ _
          exact sortThen_lexLe ts0 ts a b
        · simp only [UOp.wfOn, UOp.columnsRequired, Bool.and_true, Cols.subset_iff]
          intro c hc
          obtain ⟨t, ht, hct⟩ := (mem_sortCols _ c).mp hc
          rcases mem_sortThen ts0 ts t ht with h | h
          · exact hnew c ((mem_sortCols _ c).mpr ⟨t, h, hct⟩)
          · exact hup c ((mem_sortCols _ c).mpr ⟨t, h, hct⟩)
      | «calc» _ _ => simp [UOp.simplify, h0]
      | dedup => simp [UOp.simplify, h0]
      | identity => simp [UOp.simplify, h0]
      | proj _ => simp [UOp.simplify, h0]
      | sel _ => simp [UOp.simplify, h0]
      | slice _ _ => simp [UOp.simplify, h0]

/-- Merging never raises for a pair of operations that are each individually valid. -/
theorem simplify_total (new up : UOp) : ∀ e, new.simplify up ≠ .error e := by
  intro e h
  cases new <;> cases up <;> simp [UOp.simplify, sliceThen_eq, Except.map] at h
  all_goals (split at h <;> simp at h)

end DafRel
