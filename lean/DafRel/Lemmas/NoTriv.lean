/-
Skip targets without trivially-true selections on their unary spine: `_finish_apply` keeps them so,
and a Selection applied to one never exposes a chain underneath (a merged predicate is trivially true
only when both parts are).
-/
import DafRel.Model.Apply
import DafRel.Spec.Select
import DafRel.Lemmas.TrivTrue

namespace DafRel

/-! ### No trivially-true selections on the unary spine of a skip target -/

theorem construct_noTriv (op : UOp) (t : Rel) (res : Res) (hn : op.noopOn t.columns = false)
    (ht : t.NoTrivSel) (h : op.construct t = .ok res) : (res.get t).NoTrivSel := by
  unfold UOp.construct at h
  split at h
  · cases h
  · injection h with h; subst h
    refine ⟨?_, ht⟩
    intro p hp
    subst hp
    simpa [UOp.noopOn] using hn

theorem finishApply_noTriv : (t : Rel) → (op : UOp) → (res : Res) → t.NoTrivSel → op.finishApply t = .ok res →
    (res.get t).NoTrivSel
  | .unary up t' c, op, res, ht, h => by
    unfold UOp.finishApply at h
    by_cases hn : op.noopOn c = true
    · simp only [hn, if_true] at h
      injection h with h; subst h; exact ht
    · simp only [hn, Bool.false_eq_true, if_false] at h
      split at h
      · cases h
      · injection h with h; subst h; exact ht
      · split at h
        · cases h
        · rename_i r hr
          injection h with h; subst h
          exact finishApply_noTriv t' _ r ht.2 hr
      · exact construct_noTriv op _ res (by simpa [Rel.columns] using hn) ht h
  | .leaf .., op, res, ht, h | .binary .., op, res, ht, h | .mat .., op, res, ht, h
  | .transfer .., op, res, ht, h | .select .., op, res, ht, h => by
    unfold UOp.finishApply at h
    split at h
    · injection h with h; subst h; exact ht
    · rename_i hn
      exact construct_noTriv op _ res (by simpa using hn) ht h

theorem construct_not_chain (op : UOp) (t k : Rel) (h : op.construct t = .ok (.new k)) : isChain k = false := by
  unfold UOp.construct at h
  split at h
  · cases h
  · injection h with h; injection h with h; subst h; rfl

/-- A Selection applied to a skip target without trivially-true selections never exposes a chain. -/
theorem sel_finish_not_chain : (t : Rel) → (p : Pred) → (k : Rel) → t.NoTrivSel →
    (UOp.sel p).finishApply t = .ok (.new k) → isChain k = false
  | .unary up t' c, p, k, ht, h => by
    unfold UOp.finishApply at h
    split at h
    · cases h
    · cases up with
      | sel q =>
        simp only [UOp.simplify] at h
        cases hs : UOp.mkSel (.and [q, p]) with
        | sel s =>
          simp only [hs] at h
          cases hr : (UOp.sel s).finishApply t' with
          | error e => simp [hr] at h
          | ok r =>
            simp only [hr] at h
            injection h with h; injection h with h; subst h
            cases r with
            | new k' => exact sel_finish_not_chain t' s k' ht.2 hr
            | same =>
              simp only [Res.get]
              -- `t'` itself came back: either it is not a chain, or the merged predicate is trivially true
              cases t' with
              | binary bop l r cc =>
                cases bop with
                | chain =>
                  exfalso
                  simp only [UOp.finishApply, UOp.noopOn] at hr
                  by_cases htriv : (s.asTrivial == some true) = true
                  · have := mkSel_and_trivial q p s hs (by simpa using htriv)
                    exact ht.1 q rfl this.1
                  · simp only [htriv, Bool.false_eq_true, if_false] at hr
                    unfold UOp.construct at hr
                    split at hr <;> cases hr
                | _ => rfl
              | _ => rfl
        | _ => simp [UOp.mkSel] at hs
      | _ =>
        simp only [UOp.simplify] at h
        exact construct_not_chain _ _ _ h
  | .leaf .., p, k, _, h | .binary .., p, k, _, h | .mat .., p, k, _, h
  | .transfer .., p, k, _, h | .select .., p, k, _, h => by
    unfold UOp.finishApply at h
    split at h
    · cases h
    · exact construct_not_chain _ _ _ h


theorem finishApply_select_not_chain (op : UOp) (S : Rel) (hs : S.isSelect = true) (res : Res)
    (h : op.finishApply S = .ok res) : isChain (res.get S) = false := by
  cases S with
  | select =>
    unfold UOp.finishApply at h
    split at h
    · injection h with h; subst h; rfl
    · cases res with
      | same => rfl
      | new k => exact construct_not_chain _ _ _ h
  | _ => simp [Rel.isSelect] at hs

theorem noTrivSel_of_select (S : Rel) (hs : S.isSelect = true) : S.NoTrivSel := by
  cases S <;> simp_all [Rel.isSelect, Rel.NoTrivSel]

theorem not_chain_of_select (S : Rel) (hs : S.isSelect = true) : isChain S = false := by
  cases S <;> simp_all [Rel.isSelect, isChain]

end DafRel
