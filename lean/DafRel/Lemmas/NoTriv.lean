/-
When `_finish_apply` can hand back a chain: never for a Calculation or Selection that returns a new
relation (a merged predicate is trivially true only when both parts are), never on top of a Select.
-/
import DafRel.Model.Apply
import DafRel.Spec.Select
import DafRel.Lemmas.TrivTrue

namespace DafRel

/-! ### No trivially-true selections on the unary spine of a skip target -/

theorem construct_not_chain (op : UOp) (t k : Rel) (h : op.construct t = .ok (.new k)) : isChain k = false := by
  unfold UOp.construct at h
  split at h
  · cases h
  · injection h with h; injection h with h; subst h; rfl

/-- A Selection applied to a skip target never exposes a chain underneath: a merged predicate is
trivially true only when both parts are, and then the new Selection is dropped before merging. -/
theorem sel_finish_not_chain : (t : Rel) → (p : Pred) → (k : Rel) →
    (UOp.sel p).finishApply t = .ok (.new k) → isChain k = false
  | .unary up t' c, p, k, h => by
    unfold UOp.finishApply at h
    split at h
    · cases h
    · cases up with
      | sel q =>
        simp only [UOp.simplify] at h
        cases hs : UOp.mkSel (.and [q, p]) with
        | sel s =>
          simp only [hs] at h
          cases hr : (UOp.sel s).finishApply t' with
          | error e => simp [hr] at h
          | ok r =>
            simp only [hr] at h
            injection h with h; injection h with h; subst h
            cases r with
            | new k' => exact sel_finish_not_chain t' s k' hr
            | same =>
              simp only [Res.get]
              -- `t'` itself came back: either it is not a chain, or the merged predicate is trivially true
              cases t' with
              | binary bop l r cc =>
                cases bop with
                | chain =>
                  exfalso
                  simp only [UOp.finishApply, UOp.noopOn] at hr
                  by_cases htriv : (s.asTrivial == some true) = true
                  · have := mkSel_and_trivial q p s hs (by simpa using htriv)
                    rename_i hnoop
                    exact hnoop (by simp [UOp.noopOn, this.2])
                  · simp only [htriv, Bool.false_eq_true, if_false] at hr
                    unfold UOp.construct at hr
                    split at hr <;> cases hr
                | _ => rfl
              | _ => rfl
        | _ => simp [UOp.mkSel] at hs
      | _ =>
        simp only [UOp.simplify] at h
        exact construct_not_chain _ _ _ h
  | .leaf .., p, k, h | .binary .., p, k, h | .mat .., p, k, h
  | .transfer .., p, k, h | .select .., p, k, h => by
    unfold UOp.finishApply at h
    split at h
    · cases h
    · exact construct_not_chain _ _ _ h


theorem finishApply_select_not_chain (op : UOp) (S : Rel) (hs : S.isSelect = true) (res : Res)
    (h : op.finishApply S = .ok res) : isChain (res.get S) = false := by
  cases S with
  | select =>
    unfold UOp.finishApply at h
    split at h
    · injection h with h; subst h; rfl
    · cases res with
      | same => rfl
      | new k => exact construct_not_chain _ _ _ h
  | _ => simp [Rel.isSelect] at hs

theorem not_chain_of_select (S : Rel) (hs : S.isSelect = true) : isChain S = false := by
  cases S <;> simp_all [Rel.isSelect, isChain]

end DafRel
