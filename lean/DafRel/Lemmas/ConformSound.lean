/-
Soundness of the SQL engine's tree building for join-free trees: `conform`, `append_unary` and
`_append_unary_to_select` (with its recursive projection push-down into the branches of a UNION)
preserve rows and columns and return coherent `Select` markers.  Induction over the recursion budget
of the mutual block.
-/
import DafRel.Lemmas.SelectSound
import DafRel.Lemmas.NoTriv
import DafRel.Lemmas.ApplySpec
import DafRel.Lemmas.Commute
import DafRel.Lemmas.Build
import DafRel.Lemmas.JoinSound

namespace DafRel

variable {I : NodeInv}

end DafRel

namespace DafRel

variable {I : NodeInv}

theorem Rel.RawSql.engine : (t : Rel) → t.RawSql → t.engine.kind = .sql
  | .leaf .., h => h
  | .unary _ t _, h => Rel.RawSql.engine t h
  | .binary _ l _ _, h => Rel.RawSql.engine l h.1
  | .mat .., h => h
  | .transfer .., h => h
  | .select .., h => by cases h

/-- Raw well-formed SQL trees over truthful leaves whose atoms satisfy the atom invariant are covered. -/
theorem raw_goodI (σ : Leaves) : (t : Rel) → t.WF → t.Truthful σ → t.RawSql → t.AtomsOK I → Good I σ t
  | .leaf a b c d e f g i, hw, ht, hr, ha => Good.atom _ rfl hw ht hr ha
  | .mat a b t, hw, ht, hr, ha => Good.atom _ rfl hw ht hr ha
  | .transfer a b t, hw, ht, hr, ha => Good.atom _ rfl hw ht hr ha
  | .unary op t c, hw, ht, hr, ha => Good.unary op t c (raw_goodI σ t hw.1 ht hr ha) hw
  | .binary op l r c, hw, ht, hr, ha => by
    obtain ⟨h1, h2, h3⟩ := hr
    cases op with
    | chain => exact Good.chain l r c (raw_goodI σ l hw.1 ht.1 h1 ha.1) (raw_goodI σ r hw.2.1 ht.2 h2 ha.2) hw
    | join j =>
      exact Good.join j l r c (raw_goodI σ l hw.1 ht.1 h1 ha.1) (raw_goodI σ r hw.2.1 ht.2 h2 ha.2) hw h3.1 h3.2
    | ignoreOne il => cases h3
  | .select .., _, _, hr, _ => by cases hr

theorem atomsOK_triv : (t : Rel) → t.AtomsOK NodeInv.triv
  | .leaf .. => trivial
  | .mat .. => trivial
  | .transfer .. => trivial
  | .unary _ t _ => atomsOK_triv t
  | .binary _ l r _ => ⟨atomsOK_triv l, atomsOK_triv r⟩
  | .select _ _ _ _ _ _ k _ _ => ⟨trivial, atomsOK_triv k⟩

/-- Raw well-formed SQL trees over truthful leaves are covered (no extra invariant). -/
theorem raw_good (σ : Leaves) (t : Rel) (hw : t.WF) (ht : t.Truthful σ) (hr : t.RawSql) : Good NodeInv.triv σ t :=
  raw_goodI σ t hw ht hr (atomsOK_triv t)

/-- A coherent Select with nothing recorded over a Good tree that is not a chain. -/
theorem good_wrap (σ : Leaves) (k r : Rel) (hk : Good I σ k) (hnc : isChain k = false)
    (hsh : k.compOK true = true) (h : applySkip k {} = .ok r) : Good I σ r ∧ ConformOK σ k r := by
  obtain ⟨ok, hsk, hs⟩ := applySkip_selOK σ k {} r hk.wf hk.truthful (Slots.empty_wfOn _) (fun _ => rfl) h
  have hsem : sem σ r = sem σ k := by rw [ok.sem_eq, hsk, hs, Slots.empty_sem]
  have hcols : ∀ c, c ∈ r.columns ↔ c ∈ k.columns := by intro c; rw [ok.cols c, hsk, hs]; rfl
  have heng : r.engine = k.engine := by rw [ok.engine, hsk]
  exact ⟨Good.ofSel ok (by rw [hsk]; exact hsh) (I.selNew r (applySkip_oid _ _ _ h)) (by rw [hsk]; exact hk),
    ⟨ok, hsem, hcols, heng⟩⟩

end DafRel

namespace DafRel

variable {I : NodeInv}

def chainSpec (l r : Rel) : Except Err BRes :=
  match (if l.slots.hasSlice = true then applySkip l {} else Except.ok l) with
  | .error e => .error e
  | .ok l' =>
    match (if r.slots.hasSlice = true then applySkip r {} else Except.ok r) with
    | .error e => .error e
    | .ok r' =>
      match applySkip (Rel.binary .chain l' r' l'.columns) {} with
      | .error e => .error e
      | .ok S => .ok (.new S)

theorem appendBinarySel_chain (st : Store) (fuel : Nat) (l r : Rel) (res : BRes)
    (h : appendBinarySel st (fuel+1) .chain l r = .ok res) : chainSpec l r = .ok res := by
  rw [appendBinarySel] at h
  simp only at h
  split at h
  · cases h
  · split at h
    · cases h
    · simp only [bind, Except.bind, pure, Except.pure] at h
      unfold chainSpec
      by_cases h1 : l.slots.hasSlice = true <;> by_cases h2 : r.slots.hasSlice = true <;>
        simp only [h1, h2, if_true, Bool.false_eq_true, if_false] at h ⊢
      all_goals
        revert h
        cases applySkip l {} <;> cases applySkip r {} <;> exact id

/-- `_append_binary_to_select(Chain, lhs, rhs)` for two Good Selects with the same columns. -/
theorem chain_sel_sound (σ : Leaves) (st : Store) (fuel : Nat) (l r : Rel) (hl : Good I σ l) (hr : Good I σ r)
    (hls : l.isSelect = true) (hrs : r.isSelect = true) (hcols : ∀ t, t ∈ l.columns ↔ t ∈ r.columns)
    (res : BRes) (h : appendBinarySel st (fuel+1) .chain l r = .ok res) :
    ∃ S, res = .new S ∧ Good I σ S ∧ SelOK σ S ∧ sem σ S = sem σ l ++ sem σ r ∧
      (∀ c, c ∈ S.columns ↔ c ∈ l.columns) ∧ S.engine = l.engine := by
  have h := appendBinarySel_chain st fuel l r res h
  unfold chainSpec at h
  -- the two operands, wrapped when they carry a slice
  have wrap : ∀ (x : Rel), Good I σ x → x.isSelect = true → ∀ x',
      (if x.slots.hasSlice = true then applySkip x {} else Except.ok x) = .ok x' →
      Good I σ x' ∧ x'.isSelect = true ∧ sem σ x' = sem σ x ∧ (∀ c, c ∈ x'.columns ↔ c ∈ x.columns) ∧
        x'.engine = x.engine := by
    intro x hx hxs x' hw
    split at hw
    · obtain ⟨g, c⟩ := good_wrap σ x x' hx (not_chain_of_select x hxs) (hx.compOK hxs true) hw
      exact ⟨g, c.ok.isSel, c.sem_eq, c.cols, c.engine⟩
    · injection hw with hw; subst hw
      exact ⟨hx, hxs, rfl, fun _ => Iff.rfl, rfl⟩
  cases h1 : (if l.slots.hasSlice = true then applySkip l {} else Except.ok l) with
  | error e => simp [h1] at h
  | ok l' =>
    cases h2 : (if r.slots.hasSlice = true then applySkip r {} else Except.ok r) with
    | error e => simp [h1, h2] at h
    | ok r' =>
      simp only [h1, h2] at h
      obtain ⟨gl, sl, seml, cl, el⟩ := wrap l hl hls l' h1
      obtain ⟨gr, sr, semr, cr, er⟩ := wrap r hr hrs r' h2
      cases ha : applySkip (Rel.binary .chain l' r' l'.columns) {} with
      | error e => simp [ha] at h
      | ok S =>
        simp only [ha] at h
        injection h with h
        have hwf : (Rel.binary .chain l' r' l'.columns).WF :=
          ⟨gl.wf, gr.wf, rfl, fun t => (cl t).trans ((hcols t).trans (cr t).symm)⟩
        have htr : (Rel.binary .chain l' r' l'.columns).Truthful σ := ⟨gl.truthful, gr.truthful⟩
        obtain ⟨ok, hsk, hs⟩ := applySkip_selOK σ _ {} S hwf htr (Slots.empty_wfOn _) (fun _ => rfl) ha
        have heng : S.engine = l.engine := by rw [ok.engine, hsk]; exact el
        refine ⟨S, h.symm, ?_, ok, ?_, ?_, heng⟩
        · exact Good.ofSel ok (by rw [hsk]; simp [Rel.compOK, sl, sr, gl.compOK sl false, gr.compOK sr false])
            (I.selNew S (applySkip_oid _ _ _ ha)) (by rw [hsk]; exact Good.chain _ _ _ gl gr hwf)
        · rw [ok.sem_eq, hsk, hs, Slots.empty_sem]
          simp only [sem, seml, semr]
        · intro c; rw [ok.cols c, hsk, hs]; exact cl c

end DafRel

namespace DafRel

variable {I : NodeInv}

/-! ### Joins of two Selects -/

def stripGuard (x : Rel) (oc : Cols) : Rel × Bool :=
  let s := strip x
  if s.2 && !((s.1.columns.diff x.columns).inter oc).isEmpty then (x, false) else s

def joinSpec (j : JoinOp) (l r : Rel) : Except Err BRes :=
  let a := stripGuard l r.columns
  let b := stripGuard r l.columns
  match binaryFinishApply (.join j) a.1 b.1 with
  | .error e => .error e
  | .ok joined =>
    match applySkip (joined.get a.1 b.1)
        { proj := bif a.2 || b.2 then some (l.columns.union r.columns) else none } with
    | .error e => .error e
    | .ok S => .ok (.new S)

theorem appendBinarySel_join (st : Store) (fuel : Nat) (j : JoinOp) (l r : Rel) (res : BRes)
    (h : appendBinarySel st (fuel+1) (.join j) l r = .ok res) : joinSpec j l r = .ok res := by
  rw [appendBinarySel] at h
  simp only at h
  split at h
  · cases h
  · split at h
    · cases h
    · simp only [bind, Except.bind, pure, Except.pure] at h
      unfold joinSpec stripGuard
      revert h
      cases strip l with
      | mk nl0 lp0 =>
        cases strip r with
        | mk nr0 rp0 =>
          simp only
          cases lp0 <;> cases rp0 <;>
          by_cases g1 : (!((nl0.columns.diff l.columns).inter r.columns).isEmpty) = true <;>
          by_cases g2 : (!((nr0.columns.diff r.columns).inter l.columns).isEmpty) = true <;>
          simp only [g1, g2, if_true, Bool.false_eq_true, if_false, Bool.true_and, Bool.false_and, Bool.or_self,
            Bool.or_true, Bool.or_false, Bool.true_or, cond_true, cond_false] <;>
          (cases binaryFinishApply (BOp.join j) _ _ with
           | error e => exact id
           | ok joined => simp only; cases applySkip _ _ <;> exact id)

end DafRel

namespace DafRel

variable {I : NodeInv}

/-- What the (guarded) stripping of one join operand provides. -/
structure SideOK (I : NodeInv) (σ : Leaves) (x nx : Rel) (xp : Bool) (oc : Cols) : Prop where
  wf : nx.WF
  truthful : nx.Truthful σ
  sem_eq : sem σ x = (sem σ nx).map (fun r => r.restrict x.columns)
  sub : ∀ t, t ∈ x.columns → t ∈ nx.columns
  engine : nx.engine = x.engine
  hidden : ∀ u, u ∈ nx.columns → u ∉ x.columns → u ∉ oc
  same : xp = false → ∀ t, t ∈ nx.columns ↔ t ∈ x.columns
  notChain : isChain nx = false
  good : Good I σ nx
  shape : nx.compOK false = true

theorem sideOK_self (σ : Leaves) (x : Rel) (gx : Good I σ x) (hs : x.isSelect = true) (oc : Cols) :
    SideOK I σ x x false oc :=
  ⟨gx.wf, gx.truthful,
    (map_restrict_self _ x.columns x.columns (metadata_truthful σ x gx.wf gx.truthful).keys (fun _ => Iff.rfl)).symm,
    fun _ h => h, rfl, fun u h1 h2 => absurd h1 h2, fun _ _ => Iff.rfl, not_chain_of_select x hs, gx,
    gx.compOK hs false⟩

theorem stripGuard_ok (σ : Leaves) (x : Rel) (gx : Good I σ x) (hxs : x.isSelect = true) (oc : Cols) :
    SideOK I σ x (stripGuard x oc).1 (stripGuard x oc).2 oc := by
  obtain ⟨hx, gk⟩ := gx.selInv hxs
  unfold stripGuard strip
  by_cases hc : (!x.slots.dedup && !x.slots.hasSort && !x.slots.hasSlice && !x.isCompound) = true
  · simp only [hc, if_true]
    by_cases hg : (x.slots.hasProj && !((x.skipTo.columns.diff x.columns).inter oc).isEmpty) = true
    · simp only [hg, if_true]
      exact sideOK_self σ x gx hxs oc
    · simp only [hg, Bool.false_eq_true, if_false]
      simp only [Bool.and_eq_true, Bool.not_eq_true'] at hc
      obtain ⟨⟨⟨hd, hso⟩, hsl⟩, hcomp⟩ := hc
      have hsort : x.slots.sort.isEmpty = true := by simpa [Slots.hasSort] using hso
      have hsl' : (x.slots.sliceStart != 0 || x.slots.sliceStop.isSome) = false := hsl
      cases hp : x.slots.proj with
      | none =>
        have hcols : ∀ t, t ∈ x.columns ↔ t ∈ x.skipTo.columns := by
          intro t; rw [hx.cols t]; simp only [Slots.columns, hp]
        refine ⟨hx.skipWF, hx.skipTruthful, ?_, fun t h => (hcols t).mp h, hx.engine.symm,
          fun u h1 h2 => absurd ((hcols u).mpr h1) h2, fun _ t => (hcols t).symm,
          by rw [← hx.compound]; exact hcomp, gk,
          compOK_false_of_not_chain _ (gx.shape hxs) (by rw [← hx.compound]; exact hcomp)⟩
        have hsem : sem σ x = sem σ x.skipTo := by
          rw [hx.sem_eq]
          unfold Slots.sem
          simp only [hsort, if_true, hd, Bool.false_eq_true, if_false, hsl', hp]
        rw [hsem]
        exact (map_restrict_self _ x.skipTo.columns x.columns hx.skipRows hcols).symm
      | some c =>
        have hcols : ∀ t, t ∈ x.columns ↔ t ∈ c := by
          intro t; rw [hx.cols t]; simp only [Slots.columns, hp]
        have hsub : ∀ t, t ∈ x.columns → t ∈ x.skipTo.columns := hx.cols_sub
        refine ⟨hx.skipWF, hx.skipTruthful, ?_, hsub, hx.engine.symm, ?_, ?_, by rw [← hx.compound]; exact hcomp, gk,
          compOK_false_of_not_chain _ (gx.shape hxs) (by rw [← hx.compound]; exact hcomp)⟩
        · have hsem : sem σ x = (sem σ x.skipTo).map (fun r => r.restrict c) := by
            rw [hx.sem_eq]
            unfold Slots.sem
            simp only [hsort, if_true, hd, Bool.false_eq_true, if_false, hsl', hp]
          rw [hsem]
          apply List.map_congr_left
          intro r _
          exact (Row.restrict_congr r _ _ hcols).symm
        · intro u h1 h2 h3
          have hpj : x.slots.hasProj = true := by simp [Slots.hasProj, hp]
          simp only [hpj, Bool.true_and, Bool.not_eq_true, Bool.not_eq_false'] at hg
          have hmem : u ∈ (x.skipTo.columns.diff x.columns).inter oc :=
            (Cols.mem_inter _ _ _).mpr ⟨(Cols.mem_diff _ _ _).mpr ⟨h1, h2⟩, h3⟩
          have := Cols.eq_nil_of_isEmpty _ hg
          rw [this] at hmem
          cases hmem
        · intro hf
          simp [Slots.hasProj, hp] at hf
  · simp only [hc, Bool.false_eq_true, if_false, Bool.false_and]
    exact sideOK_self σ x gx hxs oc

end DafRel

namespace DafRel

variable {I : NodeInv}

/-- `_append_binary_to_select(Join, lhs, rhs)` for two Good Selects. -/
theorem join_sel_sound (σ : Leaves) (st : Store) (fuel : Nat) (j : JoinOp) (l r : Rel) (hl : Good I σ l)
    (hr : Good I σ r) (hls : l.isSelect = true) (hrs : r.isSelect = true)
    (hcl : j.minCols.subset l.columns = true) (hcr : j.minCols.subset r.columns = true)
    (hp : j.pred.columnsRequired.subset (l.columns.union r.columns) = true) (heng : l.engine = r.engine)
    (res : BRes) (h : appendBinarySel st (fuel+1) (.join j) l r = .ok res) :
    ∃ S, res = .new S ∧ Good I σ S ∧ SelOK σ S ∧
      sem σ S = joinRows j.minCols j.pred (sem σ l) (sem σ r) ∧
      (∀ c, c ∈ S.columns ↔ c ∈ l.columns.union r.columns) ∧ S.engine = l.engine := by
  have h := appendBinarySel_join st fuel j l r res h
  unfold joinSpec at h
  dsimp only at h
  have A := stripGuard_ok σ l hl hls r.columns
  have B := stripGuard_ok σ r hr hrs l.columns
  generalize (stripGuard l r.columns).1 = nl at h A
  generalize (stripGuard l r.columns).2 = lp at h A
  generalize (stripGuard r l.columns).1 = nr at h B
  generalize (stripGuard r l.columns).2 = rp at h B
  have hmcl : ∀ u, u ∈ j.minCols → u ∈ l.columns := (Cols.subset_iff _ _).mp hcl
  have hmcr : ∀ u, u ∈ j.minCols → u ∈ r.columns := (Cols.subset_iff _ _).mp hcr
  cases hj : binaryFinishApply (.join j) nl nr with
  | error e => simp [hj] at h
  | ok joined =>
    simp only [hj] at h
    obtain ⟨jw, jt, jsem, jcols, jeng⟩ := joinFinish_sound σ j nl nr A.wf A.truthful B.wf B.truthful
      ((Cols.subset_iff _ _).mpr fun u hu => A.sub u (hmcl u hu))
      ((Cols.subset_iff _ _).mpr fun u hu => B.sub u (hmcr u hu))
      (by rw [A.engine, B.engine]; exact heng) joined hj
    have jnc : isChain (joined.get nl nr) = false := by
      cases joined with
      | lhs => exact A.notChain
      | rhs => exact B.notChain
      | new k =>
        unfold binaryFinishApply at hj
        simp only at hj
        repeat' split at hj
        all_goals first | (cases hj; done) | (injection hj with hj; injection hj with hj; subst hj; rfl)
    generalize hP : (bif lp || rp then some (l.columns.union r.columns) else none : Option Cols) = P at h
    have hPs : (lp = true ∨ rp = true) → P = some (l.columns.union r.columns) := fun hq => by
      rw [← hP]; rcases hq with hq | hq <;> simp [hq]
    have hPn : ¬(lp = true ∨ rp = true) → P = none := fun hq => by
      simp only [not_or, Bool.not_eq_true] at hq
      rw [← hP]; simp [hq.1, hq.2]
    cases ha : applySkip (joined.get nl nr) { proj := P } with
    | error e => simp [ha] at h
    | ok S =>
      simp only [ha] at h
      injection h with h
      have hw : ({ proj := P } : Slots).wfOn (joined.get nl nr).columns := by
        refine ⟨by simp [UOp.sortCols, Cols.subset_iff], ?_⟩
        intro c hc
        by_cases hpj : lp = true ∨ rp = true
        · rw [hPs hpj] at hc
          injection hc with hc
          subst hc
          refine (Cols.subset_iff _ _).mpr fun u hu => (jcols u).mpr ?_
          rcases (Cols.mem_union _ _ _).mp hu with h1 | h1
          · exact (Cols.mem_union _ _ _).mpr (Or.inl (A.sub u h1))
          · exact (Cols.mem_union _ _ _).mpr (Or.inr (B.sub u h1))
        · rw [hPn hpj] at hc; cases hc
      obtain ⟨ok, hsk, hs⟩ := applySkip_selOK σ _ _ S jw jt hw (fun hc => by rw [jnc] at hc; cases hc) ha
      have hengS : S.engine = l.engine := by rw [ok.engine, hsk, jeng, A.engine]
      have gJ : Good I σ (joined.get nl nr) := by
        cases joined with
        | lhs => exact A.good
        | rhs => exact B.good
        | new k =>
          have hkk : k = .binary (.join j) nl nr (nl.columns.union nr.columns) := by
            unfold binaryFinishApply at hj
            simp only at hj
            repeat' split at hj
            all_goals first | (cases hj; done) | (injection hj with hj; injection hj with hj; exact hj.symm)
          subst hkk
          have hpk : j.pred.columnsRequired.subset (nl.columns.union nr.columns) = true :=
            (Cols.subset_iff _ _).mpr fun t ht => by
              rcases (Cols.mem_union _ _ _).mp ((Cols.subset_iff _ _).mp hp t ht) with h1 | h1
              · exact (Cols.mem_union _ _ _).mpr (Or.inl (A.sub t h1))
              · exact (Cols.mem_union _ _ _).mpr (Or.inr (B.sub t h1))
          exact Good.join j nl nr _ A.good B.good jw hpk (by rw [A.engine, B.engine]; exact heng)
      have sJ : (joined.get nl nr).compOK true = true := by
        cases joined with
        | lhs => exact compOK_true_of_false _ A.shape
        | rhs => exact compOK_true_of_false _ B.shape
        | new k =>
          have hkk : k = .binary (.join j) nl nr (nl.columns.union nr.columns) := by
            unfold binaryFinishApply at hj
            simp only at hj
            repeat' split at hj
            all_goals first | (cases hj; done) | (injection hj with hj; injection hj with hj; exact hj.symm)
          subst hkk
          simp [BRes.get, Rel.compOK, A.shape, B.shape]
      refine ⟨S, h.symm, Good.ofSel ok (by rw [hsk]; exact sJ) (I.selNew S (applySkip_oid _ _ _ ha))
        (by rw [hsk]; exact gJ), ok, ?_, ?_, hengS⟩
      · rw [ok.sem_eq, hsk, hs, jsem]
        by_cases hpj : lp = true ∨ rp = true
        · rw [hPs hpj]
          simp only [Slots.sem, List.isEmpty_nil, if_true, Bool.false_eq_true, if_false,
            bne_self_eq_false, Option.isSome_none, Bool.or_false]
          rw [A.sem_eq, B.sem_eq]
          exact (joinRows_restrict j.minCols j.pred (sem σ nl) (sem σ nr) l.columns r.columns nr.columns
            (metadata_truthful σ nr B.wf B.truthful).keys B.sub (fun u h1 h2 => B.hidden u h1 h2)
            hmcl hmcr hp).symm
        · rw [hPn hpj]
          simp only [Slots.sem, List.isEmpty_nil, if_true, Bool.false_eq_true, if_false,
            bne_self_eq_false, Option.isSome_none, Bool.or_false]
          simp only [not_or, Bool.not_eq_true] at hpj
          rw [A.sem_eq, B.sem_eq,
            map_restrict_self _ nl.columns l.columns (metadata_truthful σ nl A.wf A.truthful).keys
              (fun t => (A.same hpj.1 t).symm),
            map_restrict_self _ nr.columns r.columns (metadata_truthful σ nr B.wf B.truthful).keys
              (fun t => (B.same hpj.2 t).symm)]
      · intro c
        rw [ok.cols c, hs, hsk]
        by_cases hpj : lp = true ∨ rp = true
        · rw [hPs hpj]; rfl
        · rw [hPn hpj]
          simp only [Slots.columns]
          simp only [not_or, Bool.not_eq_true] at hpj
          rw [jcols c, Cols.mem_union, Cols.mem_union, A.same hpj.1 c, B.same hpj.2 c]

end DafRel

namespace DafRel

variable {I : NodeInv}

/-- The joint statement proved by induction over the recursion budget. -/
structure TreeBuildOK (I : NodeInv) (σ : Leaves) (st : Store) (fuel : Nat) : Prop where
  conform : ∀ t res, Good I σ t → DafRel.conform st fuel t = .ok res →
    Good I σ (res.get t) ∧ ConformOK σ t (res.get t)
  appendSel : ∀ op S res, Good I σ S → S.isSelect = true → op.wfOn S.columns = true →
    appendUnarySel st fuel (.u op) S = .ok res → Good I σ (res.get S) ∧ AppendOK σ op S (res.get S)
  appendUnary : ∀ op x res, Good I σ x → op.wfOn x.columns = true →
    DafRel.appendUnary st fuel (.u op) x = .ok res →
    Good I σ (res.get x) ∧ FinishOK σ op x (res.get x) ∧ (res.get x).isSelect = true
  apply : ∀ op x res, Good I σ x → applyOp st fuel (.u op) x {} = .ok res →
    Good I σ (res.get x) ∧ FinishOK σ op x (res.get x) ∧ (res.get x).isSelect = true

theorem treeBuild_zero (σ : Leaves) (st : Store) : TreeBuildOK I σ st 0 :=
  ⟨fun t res _ h => (by unfold DafRel.conform at h; cases h),
   fun op S res _ _ _ h => (by unfold appendUnarySel at h; cases h),
   fun op x res _ _ h => (by unfold DafRel.appendUnary at h; cases h),
   fun op x res _ h => (by unfold applyOp at h; cases h)⟩

theorem conform_step (σ : Leaves) (st : Store) (fuel : Nat) (ih : TreeBuildOK I σ st fuel) :
    ∀ t res, Good I σ t → DafRel.conform st (fuel+1) t = .ok res →
      Good I σ (res.get t) ∧ ConformOK σ t (res.get t) := by
  intro t res ht h
  cases t with
  | select a b c d e f g i j =>
    rw [DafRel.conform] at h
    injection h with h; subst h
    obtain ⟨ok, _⟩ := ht.selInv rfl
    exact ⟨ht, ok, rfl, fun _ => Iff.rfl, rfl⟩
  | unary op t' c =>
    rw [DafRel.conform] at h
    simp only [bind, Except.bind, pure, Except.pure] at h
    have ht' : Good I σ t' ∧ (Rel.unary op t' c).WF := by
      cases ht with
      | atom r ha _ _ _ => simp [Rel.isAtom] at ha
      | unary _ _ _ g w => exact ⟨g, w⟩
      | sel S hS _ _ => have := hS.isSel; simp [Rel.isSelect] at this
    obtain ⟨gt', hw, hc, hop⟩ := ht'
    cases h1 : DafRel.conform st fuel t' with
    | error e => simp [h1] at h
    | ok ct =>
      simp only [h1] at h
      obtain ⟨gs, cs⟩ := ih.conform t' ct gt' h1
      have hop' : op.wfOn (ct.get t').columns = true := by rw [wfOn_congr op _ _ cs.cols]; exact hop
      cases h2 : appendUnarySel st fuel (.u op) (ct.get t') with
      | error e => simp [h2] at h
      | ok r2 =>
        simp only [h2] at h
        injection h with h; subst h
        obtain ⟨g2, a2⟩ := ih.appendSel op _ r2 gs cs.ok.isSel hop' h2
        refine ⟨g2, a2.ok, ?_, ?_, ?_⟩
        · show sem σ (r2.get (ct.get t')) = _
          rw [a2.sem_eq, cs.sem_eq]
          simp only [sem]
          rw [hc]
          exact UOp.sem_congr op _ _ (UOp.appliedColumns_congr op _ _ cs.cols) _
        · intro x
          show x ∈ (r2.get (ct.get t')).columns ↔ x ∈ c
          rw [a2.cols x, UOp.appliedColumns_congr op _ _ cs.cols x, hc]
        · show (r2.get (ct.get t')).engine = _
          rw [a2.engine, cs.engine]; rfl
  | binary bop l r c =>
    rw [DafRel.conform] at h
    simp only [bind, Except.bind, pure, Except.pure] at h
    have hb : Good I σ l ∧ Good I σ r ∧ (Rel.binary bop l r c).WF ∧
        (match bop with
         | .chain => True
         | .join j => j.pred.columnsRequired.subset (l.columns.union r.columns) = true ∧ l.engine = r.engine
         | .ignoreOne _ => False) := by
      cases ht with
      | atom r ha _ _ _ => simp [Rel.isAtom] at ha
      | chain _ _ _ g1 g2 w => exact ⟨g1, g2, w, trivial⟩
      | join _ _ _ _ g1 g2 w hp he => exact ⟨g1, g2, w, hp, he⟩
      | sel S hS _ _ => have := hS.isSel; simp [Rel.isSelect] at this
    obtain ⟨gl, gr, hw, hextra⟩ := hb
    cases h1 : DafRel.conform st fuel l with
    | error e => simp [h1] at h
    | ok cl =>
      cases h2 : DafRel.conform st fuel r with
      | error e => simp [h1, h2] at h
      | ok cr =>
        simp only [h1, h2] at h
        obtain ⟨g1, c1⟩ := ih.conform l cl gl h1
        obtain ⟨g2, c2⟩ := ih.conform r cr gr h2
        cases h3 : appendBinarySel st fuel bop (cl.get l) (cr.get r) with
        | error e => simp [h3] at h
        | ok br =>
          simp only [h3] at h
          injection h with h; subst h
          cases fuel with
          | zero => rw [appendBinarySel] at h3; cases h3
          | succ fuel' =>
            cases bop with
            | chain =>
              have hcc : ∀ t, t ∈ (cl.get l).columns ↔ t ∈ (cr.get r).columns :=
                fun t => (c1.cols t).trans ((hw.2.2.2 t).trans (c2.cols t).symm)
              obtain ⟨S, hS, gS, okS, semS, colS, engS⟩ :=
                chain_sel_sound σ st fuel' _ _ g1 g2 c1.ok.isSel c2.ok.isSel hcc br h3
              subst hS
              simp only [Res.get, BRes.get]
              refine ⟨gS, okS, ?_, ?_, ?_⟩
              · rw [semS, c1.sem_eq, c2.sem_eq]; rfl
              · intro x; rw [colS x, c1.cols x]; show _ ↔ x ∈ c; rw [hw.2.2.1]
              · rw [engS, c1.engine]; rfl
            | join j =>
              obtain ⟨hwl, hwr, hcols, hml, hmr⟩ := hw
              have sub_congr : ∀ (a b b' : Cols), (∀ t, t ∈ b' ↔ t ∈ b) → a.subset b = true → a.subset b' = true :=
                fun a b b' hbb ha => (Cols.subset_iff _ _).mpr fun t ht => (hbb t).mpr ((Cols.subset_iff _ _).mp ha t ht)
              have hun : ∀ t, t ∈ (cl.get l).columns.union (cr.get r).columns ↔ t ∈ l.columns.union r.columns := by
                intro t; rw [Cols.mem_union, Cols.mem_union, c1.cols t, c2.cols t]
              obtain ⟨S, hS, gS, okS, semS, colS, engS⟩ :=
                join_sel_sound σ st fuel' j _ _ g1 g2 c1.ok.isSel c2.ok.isSel
                  (sub_congr _ _ _ c1.cols hml) (sub_congr _ _ _ c2.cols hmr)
                  (sub_congr _ _ _ hun hextra.1) (by rw [c1.engine, c2.engine]; exact hextra.2) br h3
              subst hS
              simp only [Res.get, BRes.get]
              refine ⟨gS, okS, ?_, ?_, ?_⟩
              · rw [semS, c1.sem_eq, c2.sem_eq]; rfl
              · intro x; rw [colS x, hun x]; show _ ↔ x ∈ c; rw [hcols]
              · rw [engS, c1.engine]; rfl
            | ignoreOne il => cases hextra
  | leaf a b c d e f g i =>
    rw [DafRel.conform] at h
    simp only [bind, Except.bind, pure, Except.pure] at h
    cases ha : applySkip (Rel.leaf a b c d e f g i) {} with
    | error e => simp [ha] at h
    | ok r =>
      simp only [ha] at h
      injection h with h; subst h
      exact good_wrap σ _ r ht rfl rfl ha
  | mat a b t' =>
    rw [DafRel.conform] at h
    simp only [bind, Except.bind, pure, Except.pure] at h
    cases ha : applySkip (Rel.mat a b t') {} with
    | error e => simp [ha] at h
    | ok r =>
      simp only [ha] at h
      injection h with h; subst h
      exact good_wrap σ _ r ht rfl rfl ha
  | transfer a b t' =>
    rw [DafRel.conform] at h
    simp only [bind, Except.bind, pure, Except.pure] at h
    cases ha : applySkip (Rel.transfer a b t') {} with
    | error e => simp [ha] at h
    | ok r =>
      simp only [ha] at h
      injection h with h; subst h
      exact good_wrap σ _ r ht rfl rfl ha

end DafRel

namespace DafRel

variable {I : NodeInv}

theorem appendSel_step (σ : Leaves) (st : Store) (fuel : Nat) (ih : TreeBuildOK I σ st fuel) :
    ∀ op S res, Good I σ S → S.isSelect = true → op.wfOn S.columns = true →
      appendUnarySel st (fuel+1) (.u op) S = .ok res → Good I σ (res.get S) ∧ AppendOK σ op S (res.get S) := by
  intro op S res gS hs hop h
  obtain ⟨okS, gk⟩ := gS.selInv hs
  have hpush : ∀ c, op = .proj c → ∀ l r cc, S.skipTo = .binary .chain l r cc → ∀ x res', (x = l ∨ x = r) →
      applyOp st fuel (.u (.proj c)) x {} = .ok res' →
      Good I σ (res'.get x) ∧ FinishOK σ (.proj c) x (res'.get x) ∧ (res'.get x).isSelect = true := by
    intro c _ l r cc hk x res' hx hx'
    have hbr := (hk ▸ gk : Good I σ (.binary .chain l r cc)).chainInv
    have gx : Good I σ x := by
      rcases hx with rfl | rfl
      · exact hbr.1
      · exact hbr.2
    have R := ih.apply (.proj c) x res' gx hx'
    exact R
  obtain ⟨A, K⟩ := appendUnarySel_sound σ st fuel op S res okS hop hpush h
  exact ⟨Good.ofSel A.ok (K gS hs).2.1 (K gS hs).2.2 (K gS hs).1, A⟩

theorem appendUnary_step (σ : Leaves) (st : Store) (fuel : Nat) (ih : TreeBuildOK I σ st fuel) :
    ∀ op x res, Good I σ x → op.wfOn x.columns = true →
      DafRel.appendUnary st (fuel+1) (.u op) x = .ok res →
      Good I σ (res.get x) ∧ FinishOK σ op x (res.get x) ∧ (res.get x).isSelect = true := by
  intro op x res gx hop h
  rw [DafRel.appendUnary] at h
  simp only [gx.sql, bind, Except.bind, pure, Except.pure] at h
  cases h1 : DafRel.conform st fuel x with
  | error e => simp [h1] at h
  | ok ct =>
    simp only [h1] at h
    obtain ⟨gs, cs⟩ := ih.conform x ct gx h1
    have hop' : op.wfOn (ct.get x).columns = true := by rw [wfOn_congr op _ _ cs.cols]; exact hop
    cases h2 : appendUnarySel st fuel (.u op) (ct.get x) with
    | error e => simp [h2] at h
    | ok r2 =>
      simp only [h2] at h
      obtain ⟨g2, a2⟩ := ih.appendSel op _ r2 gs cs.ok.isSel hop' h2
      have hres : res.get x = r2.get (ct.get x) := by
        cases r2 <;> cases ct <;> (simp only at h; injection h with h; subst h; rfl)
      rw [hres]
      refine ⟨g2, ⟨a2.ok.wf, a2.ok.truthful, ?_, ?_, ?_⟩, a2.ok.isSel⟩
      · rw [a2.sem_eq, cs.sem_eq]
        exact UOp.sem_congr op _ _ (UOp.appliedColumns_congr op _ _ cs.cols) _
      · intro c
        rw [a2.cols c, UOp.appliedColumns_congr op _ _ cs.cols c]
      · rw [a2.engine, cs.engine]

theorem apply_step (σ : Leaves) (st : Store) (fuel : Nat) (ih : TreeBuildOK I σ st fuel) :
    ∀ op x res, Good I σ x → applyOp st (fuel+1) (.u op) x {} = .ok res →
      Good I σ (res.get x) ∧ FinishOK σ op x (res.get x) ∧ (res.get x).isSelect = true := by
  intro op x res gx h
  rw [applyOp_eq_spec] at h
  unfold applyOpSpec at h
  cases hb : op.beginApply x ({} : Opts).pref with
  | error e => simp [hb] at h
  | ok v =>
    obtain ⟨o', pref⟩ := v
    have hb' : op.beginApply x none = .ok (o', pref) := hb
    have he := beginApply_engine op x o' pref hb'
    subst he
    simp only [hb, beq_self_eq_true, if_true, Res.get] at h
    cases h1 : DafRel.appendUnary st fuel (.u o') x with
    | error e => simp [h1] at h
    | ok r1 =>
      have hres : res.get x = r1.get x := by
        cases r1 <;> (simp only [h1] at h; injection h with h; subst h; rfl)
      rw [hres]
      rcases beginApply_cases op x o' _ hb' with ⟨ho, hwf⟩ | ⟨ho, hnoop⟩
      · subst ho
        exact ih.appendUnary _ x r1 gx hwf h1
      · subst ho
        obtain ⟨g, F, hsel⟩ := ih.appendUnary .identity x r1 gx (by simp [UOp.wfOn, UOp.columnsRequired, Cols.subset_iff]) h1
        have N := noop_sound σ op x gx.wf gx.truthful hnoop
        refine ⟨g, ⟨F.wf, F.truthful, ?_, ?_, F.engine⟩, hsel⟩
        · rw [F.sem_eq]
          simp only [UOp.sem]
          exact N.sem_eq
        · intro c
          rw [F.cols c]
          simp only [UOp.appliedColumns]
          exact N.cols c

/-- **The SQL engine's tree building is sound on join-free trees**, for every recursion budget. -/
theorem treeBuild_sound (σ : Leaves) (st : Store) : ∀ fuel, TreeBuildOK I σ st fuel
  | 0 => treeBuild_zero σ st
  | fuel+1 =>
    let ih := treeBuild_sound σ st fuel
    ⟨conform_step σ st fuel ih, appendSel_step σ st fuel ih, appendUnary_step σ st fuel ih,
      apply_step σ st fuel ih⟩

end DafRel

namespace DafRel

variable {I : NodeInv}

/-! ### The `join` factory inside the SQL engine (`PartialJoin` through `apply`) -/

theorem subset_congr_right (a b b' : Cols) (hbb : ∀ t, t ∈ b' ↔ t ∈ b) (ha : a.subset b = true) :
    a.subset b' = true :=
  (Cols.subset_iff _ _).mpr fun t ht => (hbb t).mpr ((Cols.subset_iff _ _).mp ha t ht)

/-- `sql.Engine.append_binary(Join, lhs, rhs)` on two Good trees. -/
theorem appendBinarySql_join_sound (σ : Leaves) (st : Store) (fuel : Nat) (j : JoinOp) (l r : Rel)
    (gl : Good I σ l) (gr : Good I σ r) (hcl : j.minCols.subset l.columns = true)
    (hcr : j.minCols.subset r.columns = true)
    (hp : j.pred.columnsRequired.subset (l.columns.union r.columns) = true)
    (res : BRes) (h : appendBinarySql st fuel (.join j) l r = .ok res) :
    ∃ T, res = .new T ∧ Good I σ T ∧ SelOK σ T ∧ sem σ T = joinRows j.minCols j.pred (sem σ l) (sem σ r) ∧
      (∀ c, c ∈ T.columns ↔ c ∈ l.columns.union r.columns) ∧ T.engine = l.engine := by
  cases fuel with
  | zero => rw [appendBinarySql] at h; cases h
  | succ fuel =>
    rw [appendBinarySql] at h
    simp only [bind, Except.bind, pure, Except.pure] at h
    split at h
    · cases h
    · rename_i heng
      simp only [Bool.or_eq_true, bne_iff_ne, ne_eq, not_or, Decidable.not_not] at heng
      cases h1 : conform st fuel l with
      | error e => simp [h1] at h
      | ok cl =>
        cases h2 : conform st fuel r with
        | error e => simp [h1, h2] at h
        | ok cr =>
          simp only [h1, h2] at h
          obtain ⟨g1, c1⟩ := (treeBuild_sound σ st fuel).conform l cl gl h1
          obtain ⟨g2, c2⟩ := (treeBuild_sound σ st fuel).conform r cr gr h2
          cases h3 : appendBinarySel st fuel (.join j) (cl.get l) (cr.get r) with
          | error e => simp [h3] at h
          | ok br =>
            simp only [h3] at h
            cases fuel with
            | zero => rw [appendBinarySel] at h3; cases h3
            | succ fuel' =>
              have hun : ∀ t, t ∈ (cl.get l).columns.union (cr.get r).columns ↔ t ∈ l.columns.union r.columns := by
                intro t; rw [Cols.mem_union, Cols.mem_union, c1.cols t, c2.cols t]
              obtain ⟨S, hS, gS, okS, semS, colS, engS⟩ :=
                join_sel_sound σ st fuel' j _ _ g1 g2 c1.ok.isSel c2.ok.isSel
                  (subset_congr_right _ _ _ c1.cols hcl) (subset_congr_right _ _ _ c2.cols hcr)
                  (subset_congr_right _ _ _ hun hp) (by rw [c1.engine, c2.engine]; exact heng.1) br h3
              subst hS
              simp only [BRes.get] at h
              injection h with h
              exact ⟨S, h.symm, gS, okS, by rw [semS, c1.sem_eq, c2.sem_eq],
                fun c => (colS c).trans (hun c), by rw [engS, c1.engine]⟩

/-- The operands of a partial join in their order. -/
def PJoin.lhs (p : PJoin) (t : Rel) : Rel := if p.fixedIsLhs then p.fixed else t
def PJoin.rhs (p : PJoin) (t : Rel) : Rel := if p.fixedIsLhs then t else p.fixed

/-- `_append_unary_to_select(PartialJoin, select)`. -/
theorem appendSel_pj_sound (σ : Leaves) (st : Store) (fuel : Nat) (p : PJoin) (S : Rel)
    (gS : Good I σ S) (gF : Good I σ p.fixed)
    (hcl : p.join.minCols.subset (p.lhs S).columns = true) (hcr : p.join.minCols.subset (p.rhs S).columns = true)
    (hp : p.join.pred.columnsRequired.subset ((p.lhs S).columns.union (p.rhs S).columns) = true)
    (res : Res) (h : appendUnarySel st (fuel+1) (.pj p) S = .ok res) :
    ∃ T, res = .new T ∧ Good I σ T ∧ SelOK σ T ∧
      sem σ T = joinRows p.join.minCols p.join.pred (sem σ (p.lhs S)) (sem σ (p.rhs S)) ∧
      (∀ c, c ∈ T.columns ↔ c ∈ (p.lhs S).columns.union (p.rhs S).columns) ∧ T.engine = (p.lhs S).engine := by
  rw [appendUnarySel] at h
  simp only [bind, Except.bind, pure, Except.pure] at h
  unfold PJoin.lhs PJoin.rhs at *
  cases hf : p.fixedIsLhs with
  | true =>
    simp only [hf, if_true] at h hcl hcr hp ⊢
    cases hb : appendBinarySql st fuel (.join p.join) p.fixed S with
    | error e => simp [hb] at h
    | ok br =>
      obtain ⟨T, hT, rest⟩ := appendBinarySql_join_sound σ st fuel p.join _ _ gF gS hcl hcr hp br hb
      subst hT
      simp only [hb, BRes.get] at h
      injection h with h
      exact ⟨T, h.symm, rest⟩
  | false =>
    simp only [hf, Bool.false_eq_true, if_false] at h hcl hcr hp ⊢
    cases hb : appendBinarySql st fuel (.join p.join) S p.fixed with
    | error e => simp [hb] at h
    | ok br =>
      obtain ⟨T, hT, rest⟩ := appendBinarySql_join_sound σ st fuel p.join _ _ gS gF hcl hcr hp br hb
      subst hT
      simp only [hb, BRes.get] at h
      injection h with h
      exact ⟨T, h.symm, rest⟩

end DafRel
