/-
`Select.apply_skip` and the marker cases of `sql.Engine.conform`: shape, coherence of the compound
flag, and the meaning of the recorded slots (supporting lemmas for C17).
-/
import DafRel.Lemmas.FinishApply
import DafRel.Lemmas.Build
import DafRel.Spec.Select

namespace DafRel

/-- Whatever `apply_skip` returns is a `Select` that records exactly the given slots and skip
target, flagged compound precisely when the skip target is a chain. -/
theorem applySkip_shape (k : Rel) (sl : Slots) (r : Rel) (h : applySkip k sl = .ok r) :
    ∃ t, r = .select 0 sl.sort sl.proj sl.dedup sl.sliceStart sl.sliceStop k (isChain k) t := by
  unfold applySkip at h
  simp only [bind, Except.bind, pure, Except.pure] at h
  repeat' split at h
  all_goals first | (cases h; done) | (cases h; exact ⟨_, rfl⟩)

/-- One optional step of `apply_skip`. -/
theorem applySkip_step (σ : Leaves) (op : UOp) (t : Rel) (hwf : t.WF) (htr : t.Truthful σ)
    (hop : op.wfOn t.columns = true) (res : Res) (h : op.finishApply t = .ok res) :
    (res.get t).WF ∧ (res.get t).Truthful σ ∧
      sem σ (res.get t) = op.sem (op.appliedColumns t.columns) (sem σ t) ∧
      (∀ c, c ∈ (res.get t).columns ↔ c ∈ op.appliedColumns t.columns) :=
  let f := finishApply_sound σ t op hwf htr hop res h
  ⟨f.wf, f.truthful, f.sem_eq, f.cols⟩

def optStep (cond : Bool) (op : UOp) (t : Rel) : Except Err Rel :=
  if cond then
    match op.finishApply t with
    | .error e => .error e
    | .ok v => .ok (v.get t)
  else .ok t

def applySkipSpec (k : Rel) (sl : Slots) : Except Err Rel :=
  match optStep (!sl.sort.isEmpty) (.sort sl.sort) k with
  | .error e => .error e
  | .ok t1 =>
    match (match sl.proj with
           | some c => optStep true (.proj c) t1
           | none => .ok t1) with
    | .error e => .error e
    | .ok t2 =>
      match optStep sl.dedup .dedup t2 with
      | .error e => .error e
      | .ok t3 =>
        match optStep (sl.sliceStart != 0 || sl.sliceStop.isSome) (.slice sl.sliceStart sl.sliceStop) t3 with
        | .error e => .error e
        | .ok t4 => .ok (.select 0 sl.sort sl.proj sl.dedup sl.sliceStart sl.sliceStop k (isChain k) t4)

theorem applySkip_eq_spec (k : Rel) (sl : Slots) : applySkip k sl = applySkipSpec k sl := by
  unfold applySkip applySkipSpec optStep
  simp only [bind, Except.bind, pure, Except.pure]
  cases hs : (!sl.sort.isEmpty) <;> simp only [if_true, Bool.false_eq_true, if_false]
  all_goals (try (cases (UOp.sort sl.sort).finishApply k <;> simp only []))
  all_goals (try rfl)
  all_goals (cases hp : sl.proj <;> simp only [if_true])
  all_goals (try (cases (UOp.proj _).finishApply _ <;> simp only []))
  all_goals (try rfl)
  all_goals (cases hd : sl.dedup <;> simp only [if_true, Bool.false_eq_true, if_false])
  all_goals (try (cases UOp.dedup.finishApply _ <;> simp only []))
  all_goals (try rfl)
  all_goals (cases hc : (sl.sliceStart != 0 || sl.sliceStop.isSome) <;> simp only [if_true, Bool.false_eq_true, if_false])
  all_goals (try (cases (UOp.slice _ _).finishApply _ <;> simp only []))
  all_goals (try rfl)

theorem optStep_sound (σ : Leaves) (cond : Bool) (op : UOp) (t t' : Rel) (hwf : t.WF) (htr : t.Truthful σ)
    (hop : cond = true → op.wfOn t.columns = true) (h : optStep cond op t = .ok t') :
    t'.WF ∧ t'.Truthful σ ∧
      sem σ t' = (if cond then op.sem (op.appliedColumns t.columns) (sem σ t) else sem σ t) ∧
      (∀ c, c ∈ t'.columns ↔ c ∈ (if cond then op.appliedColumns t.columns else t.columns)) := by
  unfold optStep at h
  cases cond with
  | false =>
    simp only [Bool.false_eq_true, if_false] at h ⊢
    injection h with h; subst h
    exact ⟨hwf, htr, rfl, fun _ => Iff.rfl⟩
  | true =>
    simp only [if_true] at h ⊢
    cases hf : op.finishApply t with
    | error e => simp [hf] at h
    | ok v =>
      simp only [hf] at h
      injection h with h; subst h
      exact applySkip_step σ op t hwf htr (hop rfl) v hf

/-- **Markers are coherent with their skip target.**  The relation a `Select` marks (`target`) has
the rows obtained by applying the recorded sort, projection, deduplication and slice, in that order,
to the rows of the skip target - whatever merging `_finish_apply` did with operations at the top of
the skip target - and exposes the recorded columns. -/
theorem applySkip_sem (σ : Leaves) (k : Rel) (sl : Slots) (r : Rel) (hwf : k.WF) (htr : k.Truthful σ)
    (hsl : sl.wfOn k.columns) (h : applySkip k sl = .ok r) :
    r.WF ∧ r.Truthful σ ∧ sem σ r = sl.sem k.columns (sem σ k) ∧
      (∀ c, c ∈ r.columns ↔ c ∈ sl.columns k.columns) := by
  rw [applySkip_eq_spec] at h
  unfold applySkipSpec at h
  cases h1 : optStep (!sl.sort.isEmpty) (.sort sl.sort) k with
  | error e => simp [h1] at h
  | ok t1 =>
    simp only [h1] at h
    obtain ⟨w1, r1, s1, c1⟩ := optStep_sound σ _ _ k t1 hwf htr
      (fun _ => by simp [UOp.wfOn, UOp.columnsRequired, hsl.1]) h1
    have c1' : ∀ c, c ∈ t1.columns ↔ c ∈ k.columns := by
      intro c; have := c1 c; split at this <;> simpa [UOp.appliedColumns] using this
    have s1' : sem σ t1 = (if sl.sort.isEmpty then sem σ k else isort (lexLe sl.sort) (sem σ k)) := by
      rw [s1]; cases sl.sort.isEmpty <;> simp [UOp.sem]
    -- projection
    cases h2 : (match sl.proj with
           | some c => optStep true (.proj c) t1
           | none => .ok t1) with
    | error e => simp [h2] at h
    | ok t2 =>
      simp only [h2] at h
      have P2 : t2.WF ∧ t2.Truthful σ ∧
          sem σ t2 = (match sl.proj with
            | some c => (sem σ t1).map (fun r => r.restrict c)
            | none => sem σ t1) ∧
          (∀ c, c ∈ t2.columns ↔ c ∈ sl.columns k.columns) := by
        cases hp : sl.proj with
        | none =>
          simp only [hp] at h2
          injection h2 with h2; subst h2
          exact ⟨w1, r1, rfl, by simpa [Slots.columns, hp] using c1'⟩
        | some c =>
          simp only [hp] at h2
          have hc : (UOp.proj c).wfOn t1.columns = true := by
            rw [wfOn_congr (.proj c) _ _ c1']
            simp [UOp.wfOn, UOp.columnsRequired, hsl.2 c hp]
          obtain ⟨a1, a2, a3, a4⟩ := optStep_sound σ true (.proj c) t1 t2 w1 r1 (fun _ => hc) h2
          exact ⟨a1, a2, by simpa [UOp.sem] using a3, by simpa [Slots.columns, hp, UOp.appliedColumns] using a4⟩
      obtain ⟨w2, r2, s2, c2⟩ := P2
      cases h3 : optStep sl.dedup .dedup t2 with
      | error e => simp [h3] at h
      | ok t3 =>
        simp only [h3] at h
        obtain ⟨w3, r3, s3, c3⟩ := optStep_sound σ _ _ t2 t3 w2 r2 (fun _ => rfl) h3
        have c3' : ∀ c, c ∈ t3.columns ↔ c ∈ sl.columns k.columns := by
          intro c; have := c3 c; split at this <;> simpa [UOp.appliedColumns, c2 c] using this
        cases h4 : optStep (sl.sliceStart != 0 || sl.sliceStop.isSome) (.slice sl.sliceStart sl.sliceStop) t3 with
        | error e => simp [h4] at h
        | ok t4 =>
          simp only [h4] at h
          injection h with h; subst h
          obtain ⟨w4, r4, s4, c4⟩ := optStep_sound σ _ _ t3 t4 w3 r3 (fun _ => rfl) h4
          refine ⟨w4, r4, ?_, ?_⟩
          · show sem σ t4 = _
            rw [s4, s3, s2, s1']
            unfold Slots.sem
            have hded : ∀ l, firstOcc (UOp.dedup.appliedColumns t2.columns) l = firstOcc (sl.columns k.columns) l := by
              intro l
              simp only [UOp.appliedColumns]
              exact firstOcc_congr _ _ c2 l
            cases hs : sl.sort.isEmpty <;> cases hp : sl.proj <;> cases hd : sl.dedup <;>
              cases hc : (sl.sliceStart != 0 || sl.sliceStop.isSome) <;>
              simp [hded, UOp.sem]
          · intro c
            show c ∈ t4.columns ↔ _
            have := c4 c
            split at this <;> simpa [UOp.appliedColumns, c3' c] using this

end DafRel
