/-
Theory of the stable insertion sort `isort` used as the specification of "a stable sort"
(and as the model of Python's `list.sort`): membership, sortedness, congruence, commutation of
inserts, and the composition theorem

    isort A (isort B l) = isort (lexOf A B) l

for total preorders `A`, `B` — "sorting by the minor key first and then stably by the major key
is sorting by the lexicographic order".
-/
import DafRel.Model.Sem

namespace DafRel

variable {α : Type}

def Total (le : α → α → Bool) : Prop := ∀ a b, le a b = true ∨ le b a = true
def Trans (le : α → α → Bool) : Prop := ∀ a b c, le a b = true → le b c = true → le a c = true

/-- Lexicographic combination: `A` is the major order, `B` breaks `A`-ties. -/
def lexOf (A B : α → α → Bool) : α → α → Bool := fun a b => A a b && (!(A b a) || B a b)

theorem lexOf_total {A B : α → α → Bool} (hA : Total A) (hB : Total B) : Total (lexOf A B) := by
  intro a b
  have h1 := hA a b
  have h2 := hB a b
  unfold lexOf
  cases hab : A a b <;> cases hba : A b a <;> cases hb1 : B a b <;> cases hb2 : B b a <;> simp_all

theorem lexOf_trans {A B : α → α → Bool} (hA : Total A) (tA : Trans A) (tB : Trans B) :
    Trans (lexOf A B) := by
  intro a b c h1 h2
  unfold lexOf at *
  have tab := tA a b c
  have tbc := tA b c a
  have tca := tA c a b
  have tcb := tA c b a
  have tba := tA b a c
  have tB1 := tB a b c
  have := hA a c
  cases hab : A a b <;> cases hba : A b a <;> cases hbc : A b c <;> cases hcb : A c b <;>
    cases hac : A a c <;> cases hca : A c a <;> simp_all

theorem insertSorted_cons (le : α → α → Bool) (x y : α) (ys : List α) :
    insertSorted le x (y :: ys) = if le x y = true then x :: y :: ys else y :: insertSorted le x ys := rfl

theorem mem_insertSorted (le : α → α → Bool) (x z : α) (l : List α) :
    z ∈ insertSorted le x l ↔ z = x ∨ z ∈ l := by
  induction l with
  | nil => simp [insertSorted]
  | cons y ys ih =>
    unfold insertSorted
    split
    · simp
    · simp [ih, or_left_comm]

theorem mem_isort (le : α → α → Bool) (z : α) (l : List α) : z ∈ isort le l ↔ z ∈ l := by
  induction l with
  | nil => simp [isort]
  | cons y ys ih => simp [isort, mem_insertSorted, ih]

theorem length_insertSorted (le : α → α → Bool) (x : α) (l : List α) :
    (insertSorted le x l).length = l.length + 1 := by
  induction l with
  | nil => simp [insertSorted]
  | cons y ys ih =>
    unfold insertSorted
    split <;> simp [ih]

theorem length_isort (le : α → α → Bool) (l : List α) : (isort le l).length = l.length := by
  induction l with
  | nil => simp [isort]
  | cons y ys ih => simp [isort, length_insertSorted, ih]

/-- Sortedness: every element is `le` every later element. -/
def Sorted (le : α → α → Bool) (l : List α) : Prop := l.Pairwise (fun a b => le a b = true)

theorem sorted_insertSorted {le : α → α → Bool} (ht : Total le) (tr : Trans le) (x : α)
    (l : List α) (h : Sorted le l) : Sorted le (insertSorted le x l) := by
  induction l with
  | nil => simp [insertSorted, Sorted]
  | cons y ys ih =>
    unfold Sorted at h ih ⊢
    rw [List.pairwise_cons] at h
    unfold insertSorted
    split
    · rename_i hxy
      rw [List.pairwise_cons, List.pairwise_cons]
      refine ⟨?_, h.1, h.2⟩
      intro z hz
      rcases List.mem_cons.mp hz with rfl | hz
      · exact hxy
      · exact tr _ _ _ hxy (h.1 z hz)
    · rename_i hxy
      rw [List.pairwise_cons]
      refine ⟨?_, ih h.2⟩
      intro z hz
      rcases (mem_insertSorted le x z ys).mp hz with rfl | hz
      · rcases ht z y with h' | h'
        · exact absurd h' hxy
        · exact h'
      · exact h.1 z hz

theorem sorted_isort {le : α → α → Bool} (ht : Total le) (tr : Trans le) (l : List α) :
    Sorted le (isort le l) := by
  induction l with
  | nil => simp [isort, Sorted]
  | cons y ys ih => exact sorted_insertSorted ht tr y _ ih

/-- `insertSorted` only looks at `le x ·` on the elements of the list. -/
theorem insertSorted_congr (le1 le2 : α → α → Bool) (x : α) (l : List α)
    (h : ∀ z, z ∈ l → le1 x z = le2 x z) : insertSorted le1 x l = insertSorted le2 x l := by
  induction l with
  | nil => rfl
  | cons y ys ih =>
    unfold insertSorted
    rw [h y (by simp), ih (fun z hz => h z (by simp [hz]))]

theorem isort_congr (le1 le2 : α → α → Bool) (l : List α)
    (h : ∀ a b, a ∈ l → b ∈ l → le1 a b = le2 a b) : isort le1 l = isort le2 l := by
  induction l with
  | nil => rfl
  | cons y ys ih =>
    have ih' := ih (fun a b ha hb => h a b (by simp [ha]) (by simp [hb]))
    simp only [isort, ih']
    apply insertSorted_congr
    intro z hz
    exact h y z (by simp) (by simp [(mem_isort le2 z ys).mp hz])

/-- Inserting into a sorted list an element that is `le` all of it puts it in front. -/
theorem insertSorted_of_le_all (le : α → α → Bool) (x : α) (l : List α)
    (h : ∀ z, z ∈ l → le x z = true) : insertSorted le x l = x :: l := by
  cases l with
  | nil => rfl
  | cons y ys => simp [insertSorted, h y (by simp)]

/-- A sorted list is a fixed point of the stable sort. -/
theorem isort_of_sorted {le : α → α → Bool} (l : List α) (h : Sorted le l) : isort le l = l := by
  induction l with
  | nil => rfl
  | cons y ys ih =>
    unfold Sorted at h
    rw [List.pairwise_cons] at h
    simp only [isort, ih h.2]
    exact insertSorted_of_le_all le y ys h.1

/-- Inserts of two elements that are not equivalent commute on a sorted list. -/
theorem insertSorted_comm {le : α → α → Bool} (ht : Total le) (tr : Trans le) (x y : α)
    (hne : ¬ (le x y = true ∧ le y x = true)) (l : List α) (hs : Sorted le l) :
    insertSorted le y (insertSorted le x l) = insertSorted le x (insertSorted le y l) := by
  induction l with
  | nil =>
    have := ht x y
    simp only [insertSorted]
    cases hxy : le x y <;> cases hyx : le y x <;> simp_all
  | cons z zs ih =>
    unfold Sorted at hs
    rw [List.pairwise_cons] at hs
    have ih' := ih hs.2
    have txy := ht x y
    have t1 := tr x y z
    have t2 := tr y x z
    have t3 := tr x z y
    have t4 := tr y z x
    have t5 := tr z x y
    have t6 := tr z y x
    have hxz := ht x z
    have hyz := ht y z
    simp only [insertSorted]
    cases hxy : le x y <;> cases hyx : le y x <;> cases hxz' : le x z <;> cases hyz' : le y z <;>
      cases hzx : le z x <;> cases hzy : le z y <;> simp_all [insertSorted]

/-- If `m` is `B`-sorted then its stable `A`-sort is sorted for the lexicographic order. -/
theorem sorted_lex_isort {A B : α → α → Bool} (hA : Total A) (tA : Trans A) (hB : Total B)
    (tB : Trans B) (m : List α) (hm : Sorted B m) : Sorted (lexOf A B) (isort A m) := by
  induction m with
  | nil => simp [isort, Sorted]
  | cons y ys ih =>
    unfold Sorted at hm
    rw [List.pairwise_cons] at hm
    have ih' := ih hm.2
    simp only [isort]
    have hc : insertSorted A y (isort A ys) = insertSorted (lexOf A B) y (isort A ys) := by
      apply insertSorted_congr
      intro z hz
      have := hm.1 z ((mem_isort A z ys).mp hz)
      simp [lexOf, this]
    rw [hc]
    exact sorted_insertSorted (lexOf_total hA hB) (lexOf_trans hA tA tB) y _ ih'

/-- Key step: stably `A`-sorting a `B`-sorted list after a `B`-insert is a lexicographic insert. -/
theorem isort_insertSorted_lex {A B : α → α → Bool} (hA : Total A) (tA : Trans A) (hB : Total B)
    (tB : Trans B) (x : α) (m : List α) (hm : Sorted B m) :
    isort A (insertSorted B x m) = insertSorted (lexOf A B) x (isort A m) := by
  induction m with
  | nil => simp [insertSorted, isort]
  | cons y ys ih =>
    unfold Sorted at hm
    rw [List.pairwise_cons] at hm
    have ih' := ih hm.2
    rw [insertSorted_cons B x y ys]
    by_cases hxy : B x y = true
    · rw [if_pos hxy]
      -- x is B-below everything: both inserts behave like an A-insert
      show insertSorted A x (isort A (y :: ys)) = _
      apply insertSorted_congr
      intro z hz
      have hz' := (mem_isort A z (y :: ys)).mp hz
      have hxz : B x z = true := by
        rcases List.mem_cons.mp hz' with rfl | hz''
        · exact hxy
        · exact tB _ _ _ hxy (hm.1 z hz'')
      simp [lexOf, hxz]
    · rw [if_neg hxy]
      have hyx : B y x = true := by
        rcases hB x y with h | h
        · exact absurd h hxy
        · exact h
      show insertSorted A y (isort A (insertSorted B x ys)) = _
      rw [ih']
      show _ = insertSorted (lexOf A B) x (insertSorted A y (isort A ys))
      -- y is B-below x and everything in ys
      have c1 : insertSorted A y (insertSorted (lexOf A B) x (isort A ys))
          = insertSorted (lexOf A B) y (insertSorted (lexOf A B) x (isort A ys)) := by
        apply insertSorted_congr
        intro z hz
        have hyz : B y z = true := by
          rcases (mem_insertSorted _ x z _).mp hz with rfl | hz'
          · exact hyx
          · exact hm.1 z ((mem_isort A z ys).mp hz')
        simp [lexOf, hyz]
      have c2 : insertSorted A y (isort A ys) = insertSorted (lexOf A B) y (isort A ys) := by
        apply insertSorted_congr
        intro z hz
        have := hm.1 z ((mem_isort A z ys).mp hz)
        simp [lexOf, this]
      rw [c1, c2]
      apply insertSorted_comm (lexOf_total hA hB) (lexOf_trans hA tA tB)
      · intro ⟨h1, h2⟩
        simp only [lexOf, Bool.and_eq_true, Bool.or_eq_true, Bool.not_eq_true'] at h1 h2
        rcases h1.2 with h | h
        · rw [h] at h2; exact absurd h2.1 (by simp)
        · exact hxy h
      · exact sorted_lex_isort hA tA hB tB ys hm.2

/-- **Stable sort composition.** -/
theorem isort_isort_lex {A B : α → α → Bool} (hA : Total A) (tA : Trans A) (hB : Total B)
    (tB : Trans B) (l : List α) : isort A (isort B l) = isort (lexOf A B) l := by
  induction l with
  | nil => rfl
  | cons x xs ih =>
    simp only [isort]
    rw [isort_insertSorted_lex hA tA hB tB x _ (sorted_isort hB tB xs), ih]

theorem isort_true (l : List α) : isort (fun _ _ => true) l = l := by
  induction l with
  | nil => rfl
  | cons x xs ih => simp only [isort, ih]; cases xs <;> simp [insertSorted]

end DafRel
