/-
One query level: the SELECT compiled for a `Select` marker (select list, FROM, WHERE, DISTINCT, ORDER BY,
OFFSET/LIMIT) evaluates, in the SQL evaluation model, to  slice(dedup(proj(sort(rows of the skip target)))).
-/
import DafRel.Lemmas.SqlPayloadSem
import DafRel.Lemmas.SqlEvalLists
import DafRel.Lemmas.SelectSound

namespace DafRel

/-- The de-duplicated select list built from the target's columns. -/
def selectItems (avail : List (Tag × SqlExpr)) (tcols : Cols) : Option (List (Tag × SqlExpr)) :=
  (tcols.mapM (fun t => (SqlPayload.lookup avail t).map (fun e => (t, e)))).map
    (fun items => items.foldl (fun acc x => if (acc.find? (·.1 == x.1)).isSome then acc else acc ++ [x]) [])

theorem mapM_lookup_spec (avail : List (Tag × SqlExpr)) : (tcols : Cols) → (items : List (Tag × SqlExpr)) →
    tcols.mapM (fun t => (SqlPayload.lookup avail t).map (fun e => (t, e))) = some items →
    items.map (·.1) = tcols ∧ ∀ x, x ∈ items → SqlPayload.lookup avail x.1 = some x.2
  | [], items, h => by
    simp only [List.mapM_nil, Option.pure_def, Option.some.injEq] at h
    subst h; exact ⟨rfl, fun x hx => by cases hx⟩
  | t :: ts, items, h => by
    simp only [List.mapM_cons, Option.bind_eq_bind] at h
    cases hl : SqlPayload.lookup avail t with
    | none => simp [hl] at h
    | some e =>
      simp only [hl, Option.map_some, Option.bind_some] at h
      cases hr : ts.mapM (fun t => (SqlPayload.lookup avail t).map (fun e => (t, e))) with
      | none => simp [hr] at h
      | some rest =>
        simp only [hr, Option.bind_some, Option.pure_def, Option.some.injEq] at h
        subst h
        obtain ⟨h1, h2⟩ := mapM_lookup_spec avail ts rest hr
        refine ⟨by simp [h1], ?_⟩
        intro x hx
        rcases List.mem_cons.mp hx with rfl | hx
        · exact hl
        · exact h2 x hx

/-- Looking a tag up in the de-duplicated select list. -/
theorem find_dedupItems (items : List (Tag × SqlExpr)) (t : Tag) :
    ((items.foldl (fun acc x => if (acc.find? (·.1 == x.1)).isSome then acc else acc ++ [x]) []).find? (·.1 == t)) =
      items.find? (·.1 == t) := by
  have key : ∀ (its acc : List (Tag × SqlExpr)),
      ((its.foldl (fun acc x => if (acc.find? (·.1 == x.1)).isSome then acc else acc ++ [x]) acc).find? (·.1 == t)) =
        (acc.find? (·.1 == t)).or (its.find? (·.1 == t)) := by
    intro its
    induction its with
    | nil => intro acc; simp
    | cons x xs ih =>
      intro acc
      simp only [List.foldl_cons]
      by_cases hx : (acc.find? (·.1 == x.1)).isSome = true
      · simp only [hx, if_true]
        rw [ih acc]
        by_cases hxt : (x.1 == t) = true
        · have : x.1 = t := by simpa using hxt
          rw [this] at hx
          cases hf : acc.find? (fun y => y.1 == t) with
          | none => simp [hf] at hx
          | some v => simp
        · simp [List.find?_cons, hxt]
      · simp only [hx, Bool.false_eq_true, if_false]
        rw [ih, List.find?_append]
        cases hf : acc.find? (fun y => y.1 == t) with
        | some v => simp
        | none =>
          by_cases hxt : (x.1 == t) = true
          · simp [List.find?_cons, hxt]
          · simp [List.find?_cons, hxt]
  simpa using key items []

end DafRel

namespace DafRel

/-- The converted ORDER BY terms evaluate to the sort keys of the row an environment stands for. -/
theorem orderBy_keys (avail : List (Tag × SqlExpr)) (env : PEnv) (r : Row) (hav : AvailOK avail env r) :
    (ts : List SortTerm) → (ob : List (SqlExpr × Bool)) →
    ts.mapM (fun t => (convExpr avail t.expr).map (fun e => (e, t.asc))) = .ok ob →
    (∀ t, t ∈ ts → t.expr.arityOk = true) → r.hasAll (UOp.sortCols ts) →
    orderKeys ob env = keysOf ts r
  | [], ob, h, _, _ => by
    simp only [List.mapM_nil, pure, Except.pure] at h
    injection h with h; subst h; rfl
  | t :: ts, ob, h, har, hall => by
    simp only [List.mapM_cons, bind, Except.bind] at h
    cases hx0 : (convExpr avail t.expr).map (fun e => (e, t.asc)) with
    | error e => simp [hx0] at h
    | ok px =>
      simp only [hx0] at h
      cases hr : ts.mapM (fun t => (convExpr avail t.expr).map (fun e => (e, t.asc))) with
      | error e => simp [hr] at h
      | ok rest =>
        simp only [hr, pure, Except.pure] at h
        injection h with h; subst h
        -- the converted expression of this term
        obtain ⟨x, hx, hpx⟩ : ∃ x, convExpr avail t.expr = .ok x ∧ px = (x, t.asc) := by
          cases hc : convExpr avail t.expr with
          | error e => simp [Except.map, hc] at hx0
          | ok x =>
            simp only [Except.map, hc] at hx0
            injection hx0 with hx0
            exact ⟨x, rfl, hx0.symm⟩
        subst hpx
        have hall1 : r.hasAll t.expr.columnsRequired := fun c hc => hall c (by simp [UOp.sortCols, hc])
        have hall2 : r.hasAll (UOp.sortCols ts) := fun c hc => hall c (by simp [UOp.sortCols, hc])
        have hv : x.eval env = some (t.expr.val r) := by
          rw [convExpr_eval avail env r hav t.expr x hx]
          exact Expr.eval_eq_val r t.expr (har t (by simp)) hall1
        simp only [orderKeys, List.map_cons, keysOf, hv, Option.getD_some]
        congr 1
        exact orderBy_keys avail env r hav ts rest hr (fun u hu => har u (List.mem_cons_of_mem _ hu)) hall2

theorem orderBy_isEmpty (avail : List (Tag × SqlExpr)) : (ts : List SortTerm) → (ob : List (SqlExpr × Bool)) →
    ts.mapM (fun t => (convExpr avail t.expr).map (fun e => (e, t.asc))) = .ok ob → ob.isEmpty = ts.isEmpty
  | [], ob, h => by
    simp only [List.mapM_nil, pure, Except.pure] at h
    injection h with h; subst h; rfl
  | t :: ts, ob, h => by
    simp only [List.mapM_cons, bind, Except.bind] at h
    cases hx : (convExpr avail t.expr).map (fun e => (e, t.asc)) with
    | error e => simp [hx] at h
    | ok x =>
      simp only [hx] at h
      cases hr : ts.mapM (fun t => (convExpr avail t.expr).map (fun e => (e, t.asc))) with
      | error e => simp [hr] at h
      | ok rest =>
        simp only [hr, pure, Except.pure] at h
        injection h with h; subst h; rfl

end DafRel

namespace DafRel

theorem sliceIf_eq {α : Type} (a : Nat) (b : Option Nat) (l : List α) :
    (if (a != 0 || b.isSome) = true then sliceList a b l else l) = sliceList a b l := by
  split
  · rfl
  · rename_i h
    simp only [Bool.or_eq_true, bne_iff_ne, ne_eq, not_or, Decidable.not_not, Bool.not_eq_true,
      Option.isSome_eq_false_iff, Option.isNone_iff_eq_none] at h
    rw [h.1, h.2]; simp [sliceList]

/-- The row a SELECT list produces from an environment: the full row restricted to the listed columns. -/
theorem itemsRow (avail : List (Tag × SqlExpr)) (tcols : Cols) (items0 : List (Tag × SqlExpr))
    (h : tcols.mapM (fun t => (SqlPayload.lookup avail t).map (fun e => (t, e))) = some items0) (env : PEnv) :
    itemRow (items0.foldl (fun acc x => if (acc.find? (·.1 == x.1)).isSome then acc else acc ++ [x]) []) env =
      (rowOf avail env).restrict tcols := by
  obtain ⟨h1, h2⟩ := mapM_lookup_spec avail tcols items0 h
  funext t
  unfold itemRow
  rw [find_dedupItems]
  simp only [Row.restrict, rowOf]
  cases hf : items0.find? (·.1 == t) with
  | none =>
    have : t ∉ tcols := by
      intro ht
      rw [← h1] at ht
      obtain ⟨x, hx, hxt⟩ := List.mem_map.mp ht
      have := List.find?_eq_none.mp hf x hx
      simp [hxt] at this
    simp [this]
  | some x =>
    have hxm := List.mem_of_find?_eq_some hf
    have hxt : x.1 = t := by simpa using List.find?_some hf
    have ht : t ∈ tcols := by rw [← h1, ← hxt]; exact List.mem_map_of_mem hxm
    have := h2 x hxm
    rw [hxt] at this
    simp [ht, this]

/-- **One SELECT level.** -/
theorem select_level_sem (tables : List (List Row)) (p : SqlPayload) (L : List Row) (skipcols : Cols) (sl : Slots)
    (tcols : Cols) (items0 : List (Tag × SqlExpr)) (ob : List (SqlExpr × Bool))
    (P : PaySem tables p L skipcols) (hL : RowsHaveCols L skipcols) (hsl : sl.wfOn skipcols)
    (htc : ∀ t, t ∈ tcols ↔ t ∈ sl.columns skipcols)
    (hitems : tcols.mapM (fun t => (SqlPayload.lookup p.avail t).map (fun e => (t, e))) = some items0)
    (hob : sl.sort.mapM (fun t => (convExpr p.avail t.expr).map (fun e => (e, t.asc))) = .ok ob)
    (har : ∀ t, t ∈ sl.sort → t.expr.arityOk = true)
    (hamb : sl.dedup = true → (UOp.sortCols sl.sort).subset (sl.columns skipcols) = true) :
    (Query.eval tables (.select
        (items0.foldl (fun acc x => if (acc.find? (·.1 == x.1)).isSome then acc else acc ++ [x]) [])
        p.frm p.wh sl.dedup ob sl.sliceStart (sl.sliceStop.map (· - sl.sliceStart)))).rows =
      sl.sem skipcols L := by
  obtain ⟨hi1, _⟩ := mapM_lookup_spec p.avail tcols items0 hitems
  -- the (row, keys) pairs, in terms of the rows of the skip target
  have hpairs : ((((From.envs tables p.frm).1).filter (fun e => SqlPred.evalAll e p.wh)).map (fun e =>
        (itemRow (items0.foldl (fun acc x => if (acc.find? (·.1 == x.1)).isSome then acc else acc ++ [x]) []) e,
         orderKeys ob e))) =
      L.map (fun r => (r.restrict tcols, keysOf sl.sort r)) := by
    rw [P.rows_eq, List.map_map]
    apply List.map_congr_left
    intro e he
    have he' : e ∈ payEnvs tables p := he
    simp only [Function.comp]
    rw [itemsRow p.avail tcols items0 hitems e,
      orderBy_keys p.avail e _ (rowOf_availOK _ _) sl.sort ob hob har
        (P.hasAll hL he' _ ((Cols.subset_iff _ _).mp hsl.1))]
  -- restricting to the select list = the recorded projection (or nothing)
  have hrestr : L.map (fun r => r.restrict tcols) =
      (match sl.proj with
       | some c => L.map (fun r => r.restrict c)
       | none => L) := by
    cases hp : sl.proj with
    | none =>
      simp only [Slots.columns, hp] at htc
      exact map_restrict_self L skipcols tcols hL htc
    | some c =>
      simp only [Slots.columns, hp] at htc
      apply List.map_congr_left
      intro r _
      exact Row.restrict_congr r _ _ htc
  have hcolsC : ∀ x, x ∈ (items0.foldl (fun acc x => if (acc.find? (·.1 == x.1)).isSome then acc else acc ++ [x]) []).map (·.1) ↔
      x ∈ sl.columns skipcols := by
    intro x
    rw [← htc x, ← hi1]
    simp only [List.mem_map]
    constructor
    · rintro ⟨y, hy, rfl⟩
      have hf : ((items0.foldl (fun acc x => if (acc.find? (·.1 == x.1)).isSome then acc else acc ++ [x]) []).find?
          (·.1 == y.1)).isSome = true := List.find?_isSome.mpr ⟨y, hy, by simp⟩
      rw [find_dedupItems] at hf
      obtain ⟨z, hz, hzy⟩ := List.find?_isSome.mp hf
      exact ⟨z, hz, by simpa using hzy⟩
    · rintro ⟨y, hy, rfl⟩
      have hf : (items0.find? (·.1 == y.1)).isSome = true := List.find?_isSome.mpr ⟨y, hy, by simp⟩
      rw [← find_dedupItems] at hf
      obtain ⟨z, hz, hzy⟩ := List.find?_isSome.mp hf
      exact ⟨z, hz, by simpa using hzy⟩
  simp only [Query.eval, finishLevel_rows]
  rw [hpairs, orderBy_isEmpty p.avail sl.sort ob hob, sliceList_limit]
  unfold Slots.sem
  rw [sliceIf_eq, sortIf]
  cases hd : sl.dedup with
  | false =>
    simp only [Bool.false_eq_true, if_false]
    rw [← sliceList_map]
    congr 1
    by_cases hs : sl.sort.isEmpty = true
    · simp only [hs, Bool.not_true, Bool.false_eq_true, if_false, List.map_map]
      have hnil : sl.sort = [] := List.isEmpty_iff.mp hs
      rw [hnil, isort_lexLe_nil]
      exact hrestr
    · simp only [hs, Bool.not_false, if_true]
      rw [isort_pairs sl.sort (fun r => r.restrict tcols) L, List.map_map]
      have := hrestr
      -- the same restriction applied to the sorted rows
      have hrestr' : (isort (lexLe sl.sort) L).map (fun r => r.restrict tcols) =
          (match sl.proj with
           | some c => (isort (lexLe sl.sort) L).map (fun r => r.restrict c)
           | none => isort (lexLe sl.sort) L) := by
        cases hp : sl.proj with
        | none =>
          simp only [Slots.columns, hp] at htc
          exact map_restrict_self _ skipcols tcols (rowsHaveCols_isort hL) htc
        | some c =>
          simp only [Slots.columns, hp] at htc
          apply List.map_congr_left
          intro r _
          exact Row.restrict_congr r _ _ htc
      exact hrestr'
  | true =>
    have hsc := hamb hd
    have hsc' : (UOp.sortCols sl.sort).subset tcols = true :=
      (Cols.subset_iff _ _).mpr fun t ht => (htc t).mpr ((Cols.subset_iff _ _).mp hsc t ht)
    simp only [if_true]
    -- keys are a function of the projected row
    have hkeys : L.map (fun r => (r.restrict tcols, keysOf sl.sort r)) =
        (L.map (fun r => r.restrict tcols)).map (fun r => (r, keysOf sl.sort r)) := by
      rw [List.map_map]
      apply List.map_congr_left
      intro r _
      simp only [Function.comp, keysOf]
      congr 1
      apply List.map_congr_left
      intro t ht
      rw [Expr.val_restrict t.expr r tcols (sortCols_subset_term sl.sort tcols hsc' t ht)]
    rw [hkeys, distinctPairs_map]
    have hfo : firstOccAux ((items0.foldl (fun acc x => if (acc.find? (·.1 == x.1)).isSome then acc else acc ++ [x]) []).map (·.1)) []
        (L.map (fun r => r.restrict tcols)) = firstOcc (sl.columns skipcols) (L.map (fun r => r.restrict tcols)) :=
      firstOcc_congr _ _ hcolsC _
    rw [hfo]
    have hprojrows : RowsHaveCols (L.map (fun r => r.restrict tcols)) (sl.columns skipcols) := by
      intro r hr
      obtain ⟨r0, h0, rfl⟩ := List.mem_map.mp hr
      have := (hL r0 h0).restrict tcols (fun t ht => Slots.columns_sub sl skipcols hsl t ((htc t).mp ht))
      exact this.congr htc
    rw [← sliceList_map]
    congr 1
    have hid : ∀ (k : Row → List (Int × Bool)) (X : List Row),
        X.map ((fun x : Row × List (Int × Bool) => x.fst) ∘ fun r => (id r, k r)) = X :=
      fun k X => (List.map_congr_left (fun _ _ => rfl)).trans (List.map_id X)
    by_cases hs : sl.sort.isEmpty = true
    · simp only [hs, Bool.not_true, Bool.false_eq_true, if_false, List.map_map]
      have hnil : sl.sort = [] := List.isEmpty_iff.mp hs
      rw [hnil, isort_lexLe_nil, hrestr]
      exact hid _ _
    · simp only [hs, Bool.not_false, if_true]
      have hmapid : (firstOcc (sl.columns skipcols) (L.map (fun r => r.restrict tcols))).map
            (fun r => (r, keysOf sl.sort r)) =
          (firstOcc (sl.columns skipcols) (L.map (fun r => r.restrict tcols))).map
            (fun r => (id r, keysOf sl.sort r)) := rfl
      rw [hmapid, isort_pairs sl.sort id, List.map_map, hid]
      -- sort and first occurrences commute on the projected rows; sort and projection commute
      rw [← sort_dedup _ sl.sort _ hprojrows, isort_restrict sl.sort tcols hsc' L]
      have hrestr' : (isort (lexLe sl.sort) L).map (fun r => r.restrict tcols) =
          (match sl.proj with
           | some c => (isort (lexLe sl.sort) L).map (fun r => r.restrict c)
           | none => isort (lexLe sl.sort) L) := by
        cases hp : sl.proj with
        | none =>
          simp only [Slots.columns, hp] at htc
          exact map_restrict_self _ skipcols tcols (rowsHaveCols_isort hL) htc
        | some c =>
          simp only [Slots.columns, hp] at htc
          apply List.map_congr_left
          intro r _
          exact Row.restrict_congr r _ _ htc
      rw [hrestr']
      cases sl.proj <;> rfl

end DafRel

namespace DafRel

theorem subAvail_availOK (cols : Cols) (r : Row) : AvailOK (subAvail "" cols) (rowEnv "" r) r := by
  intro t x hl
  rw [lookup_subAvail] at hl
  by_cases ht : t ∈ cols
  · simp only [ht, if_true] at hl
    injection hl with hl; subst hl
    simp [SqlExpr.eval, rowEnv]
  · simp [ht] at hl

/-- **One compound (UNION [ALL]) level.** -/
theorem compound_level_sem (tables : List (List Row)) (ql qr : Query) (L : List Row) (skipcols : Cols) (sl : Slots)
    (ob : List (SqlExpr × Bool))
    (hrows : (Query.eval tables ql).rows ++ (Query.eval tables qr).rows = L)
    (hL : RowsHaveCols L skipcols) (hsl : sl.wfOn skipcols) (hpn : sl.proj = none)
    (hob : sl.sort.mapM (fun t => (convExpr (subAvail "" skipcols) t.expr).map (fun e => (e, t.asc))) = .ok ob)
    (har : ∀ t, t ∈ sl.sort → t.expr.arityOk = true) :
    (Query.eval tables (.compound (!sl.dedup) ql qr skipcols ob sl.sliceStart
        (sl.sliceStop.map (· - sl.sliceStart)))).rows = sl.sem skipcols L := by
  have hpairs : L.map (fun row => (row, orderKeys ob (rowEnv "" row))) =
      L.map (fun r => (id r, keysOf sl.sort r)) := by
    apply List.map_congr_left
    intro r hr
    rw [orderBy_keys (subAvail "" skipcols) (rowEnv "" r) r (subAvail_availOK skipcols r) sl.sort ob hob har
      (fun t ht => (hL r hr t).mpr ((Cols.subset_iff _ _).mp hsl.1 t ht))]
    rfl
  have hid : ∀ (k : Row → List (Int × Bool)) (X : List Row),
      X.map ((fun x : Row × List (Int × Bool) => x.fst) ∘ fun r => (id r, k r)) = X :=
    fun k X => (List.map_congr_left (fun _ _ => rfl)).trans (List.map_id X)
  simp only [Query.eval, finishLevel_rows, hrows]
  rw [hpairs, orderBy_isEmpty _ sl.sort ob hob, sliceList_limit]
  unfold Slots.sem
  rw [sliceIf_eq, sortIf]
  simp only [hpn, Slots.columns]
  rw [← sliceList_map]
  congr 1
  cases hd : sl.dedup with
  | false =>
    simp only [Bool.not_false, if_true, Bool.false_eq_true, if_false]
    by_cases hs : sl.sort.isEmpty = true
    · have hnil : sl.sort = [] := List.isEmpty_iff.mp hs
      simp only [hs, Bool.not_true, Bool.false_eq_true, if_false, List.map_map]
      rw [hnil, isort_lexLe_nil]
      exact hid _ _
    · simp only [hs, Bool.not_false, if_true]
      rw [isort_pairs sl.sort id L, List.map_map]
      exact hid _ _
  | true =>
    simp only [Bool.not_true, Bool.false_eq_true, if_false, if_true]
    have hmapid : L.map (fun r => (id r, keysOf sl.sort r)) = L.map (fun r => (r, keysOf sl.sort r)) := rfl
    rw [hmapid, distinctPairs_map]
    have hfo : firstOccAux skipcols [] L = firstOcc skipcols L := rfl
    rw [hfo]
    by_cases hs : sl.sort.isEmpty = true
    · have hnil : sl.sort = [] := List.isEmpty_iff.mp hs
      simp only [hs, Bool.not_true, Bool.false_eq_true, if_false, List.map_map]
      rw [hnil, isort_lexLe_nil]
      exact hid _ _
    · simp only [hs, Bool.not_false, if_true]
      have hmapid2 : (firstOcc skipcols L).map (fun r => (r, keysOf sl.sort r)) =
          (firstOcc skipcols L).map (fun r => (id r, keysOf sl.sort r)) := rfl
      rw [hmapid2, isort_pairs sl.sort id, List.map_map, hid]
      exact (sort_dedup skipcols sl.sort L hL).symm

end DafRel
