/-
Bridge for the engine-method dispatch table (translator T-b, `Gen.dispatch` in Gen/Flags.lean): kept in a file of its
own so that a change to the engines' method resolution concerns only the properties that rely on it (C15).
-/
import DafRel.Gen.Flags

namespace DafRel.Bridge

/-- **Method resolution of the two engine classes** (re-read through the MRO of the live classes on this run): the
model's dispatch on the engine kind - `backtrack` does nothing for a SQL engine, `appendUnary` / `binaryApply` /
`transferTo` / `materialize` / `conformIn` run the base-class code for an iteration engine and the overriding code for a
SQL engine - stands for exactly this table; the base-class `backtrack_unary` hands the tree back (`return tree, False,
...`). -/
theorem dispatch_eq : Gen.dispatch =
    [("iteration.Engine", "backtrack_unary", "iteration._engine.Engine"),
     ("iteration.Engine", "append_unary", "_engine.Engine"),
     ("iteration.Engine", "append_binary", "_engine.Engine"),
     ("iteration.Engine", "transfer", "_engine.Engine"),
     ("iteration.Engine", "materialize", "_engine.Engine"),
     ("iteration.Engine", "conform", "_engine.Engine"),
     ("sql.Engine", "backtrack_unary", "_engine.Engine"),
     ("sql.Engine", "append_unary", "sql._engine.Engine"),
     ("sql.Engine", "append_binary", "sql._engine.Engine"),
     ("sql.Engine", "transfer", "sql._engine.Engine"),
     ("sql.Engine", "materialize", "sql._engine.Engine"),
     ("sql.Engine", "conform", "sql._engine.Engine"),
     ("_engine.Engine", "backtrack_unary:body", "return tree, False")] := by decide

end DafRel.Bridge
