/-
Bridge lemmas for translator T-e: the `commute`, `simplify` and `_begin_apply` methods of the
operation classes, as regenerated from the current source (Gen/Ops.lean), ARE the model's
`UOp.commute`, `UOp.simplify`, `UOp.beginApply`.  A change of the Python source that changes the
meaning of one of these methods makes the corresponding lemma fail to compile.
-/
import DafRel.Gen.Ops
import DafRel.Model.Apply

namespace DafRel.Bridge

open DafRel

/- The helpers the translator emits (`isinstance` tests, field reads, `upstream.then(self)`) and the model's small
definitions unfold in every bridge proof, and each proof ends with the same case analysis: a rewrite of the Python
between `match`/`isinstance`, nested/flat conditionals or early returns keeps these lemmas provable. -/
attribute [local simp] UOp.isCalculation UOp.isDeduplication UOp.isIdentity' UOp.isProjection UOp.isSelection
  UOp.isSlice UOp.isSort UOp.projColumns UOp.calcTag UOp.calcExpr UOp.selPred UOp.sliceStart UOp.sliceStop
  UOp.sortTerms UOp.thenOf

/-- Split every conditional / match that is left and close each case; two rounds, because simplifying with a
branch hypothesis can expose further conditionals. -/
local macro "split_close" : tactic =>
  `(tactic| (all_goals (repeat' (first | rfl | split))
             all_goals (try (first | rfl | (simp_all; done) | (grind) | simp_all))
             all_goals (repeat' (first | rfl | split))
             all_goals (try (first | rfl | (simp_all; done) | grind))))

/-- `cases` on the other operation, unfold, split every remaining conditional, close by simplification. -/
local macro "bridge_by_cases " x:ident : tactic =>
  `(tactic| ((cases $x:ident <;> (try simp)); split_close))

/-! ### `commute` -/

theorem Calculation_commute_eq (tag : Tag) (e : Expr) (cur : UOp) (tcols ccols : Cols) :
    Gen.Calculation_commute tag e cur tcols ccols = (UOp.calc tag e).commute cur tcols ccols := by
  unfold Gen.Calculation_commute UOp.commute
  cases cur <;> simp [UOp.columnsRequired, UOp.commuteFail]
  split_close

theorem Deduplication_commute_eq (cur : UOp) (tcols ccols : Cols) :
    Gen.Deduplication_commute cur tcols ccols = UOp.dedup.commute cur tcols ccols := by
  unfold Gen.Deduplication_commute UOp.commute
  simp only [UOp.commuteFail]
  split_close

theorem Projection_commute_eq (c : Cols) (cur : UOp) (tcols ccols : Cols) :
    Gen.Projection_commute c cur tcols ccols = (UOp.proj c).commute cur tcols ccols := by
  unfold Gen.Projection_commute UOp.commute
  cases cur <;> simp
  split_close

theorem Selection_commute_eq (p : Pred) (cur : UOp) (tcols ccols : Cols) :
    Gen.Selection_commute p cur tcols ccols = (UOp.sel p).commute cur tcols ccols := by
  unfold Gen.Selection_commute UOp.commute
  simp only [UOp.commuteFail, UOp.columnsRequired]
  split_close

theorem Slice_commute_eq (s : Nat) (e : Option Nat) (cur : UOp) (tcols ccols : Cols) :
    Gen.Slice_commute s e cur tcols ccols = (UOp.slice s e).commute cur tcols ccols := by
  unfold Gen.Slice_commute UOp.commute
  bridge_by_cases cur

theorem Sort_commute_eq (ts : List SortTerm) (cur : UOp) (tcols ccols : Cols) :
    Gen.Sort_commute ts cur tcols ccols = (UOp.sort ts).commute cur tcols ccols := by
  unfold Gen.Sort_commute UOp.commute
  cases cur <;> simp [UOp.commuteFail, UOp.columnsRequired]
  split_close

/-! ### `simplify` -/

theorem Projection_simplify_eq (c : Cols) (up : UOp) :
    Gen.Projection_simplify c up = (UOp.proj c).simplify up := by
  unfold Gen.Projection_simplify UOp.simplify
  bridge_by_cases up

theorem Selection_simplify_eq (p : Pred) (up : UOp) :
    Gen.Selection_simplify p up = (UOp.sel p).simplify up := by
  unfold Gen.Selection_simplify UOp.simplify
  bridge_by_cases up

theorem Slice_simplify_eq (s : Nat) (e : Option Nat) (up : UOp) :
    Gen.Slice_simplify s e up = (UOp.slice s e).simplify up := by
  unfold Gen.Slice_simplify UOp.simplify
  bridge_by_cases up

theorem Sort_simplify_eq (ts : List SortTerm) (up : UOp) :
    Gen.Sort_simplify ts up = (UOp.sort ts).simplify up := by
  unfold Gen.Sort_simplify UOp.simplify
  bridge_by_cases up

/-! ### `_begin_apply` -/

theorem Calculation_begin_apply_eq (tag : Tag) (e : Expr) (t : Rel) (pref : Option Engine) :
    Gen.Calculation_begin_apply tag e t.columns t.engine pref = (UOp.calc tag e).beginApply t pref := by
  unfold Gen.Calculation_begin_apply UOp.beginApply
  simp only
  split_close

theorem Projection_begin_apply_eq (c : Cols) (t : Rel) (pref : Option Engine) :
    Gen.Projection_begin_apply c t.columns t.engine pref = (UOp.proj c).beginApply t pref := by
  unfold Gen.Projection_begin_apply UOp.beginApply
  simp only
  split_close

theorem Selection_begin_apply_eq (p : Pred) (t : Rel) (pref : Option Engine) :
    Gen.Selection_begin_apply p t.columns t.engine pref = (UOp.sel p).beginApply t pref := by
  unfold Gen.Selection_begin_apply UOp.beginApply
  simp only
  split_close

theorem Slice_begin_apply_eq (s : Nat) (e : Option Nat) (t : Rel) (pref : Option Engine) :
    Gen.Slice_begin_apply s e t.columns t.engine pref = (UOp.slice s e).beginApply t pref := by
  unfold Gen.Slice_begin_apply UOp.beginApply
  simp only
  split_close

theorem Sort_begin_apply_eq (ts : List SortTerm) (t : Rel) (pref : Option Engine) :
    Gen.Sort_begin_apply ts t.columns t.engine pref = (UOp.sort ts).beginApply t pref := by
  unfold Gen.Sort_begin_apply UOp.beginApply
  simp only
  split_close

end DafRel.Bridge
