/-
Bridge lemma for translator T-f, `sql.Select.apply_skip` (Gen/SqlOps.lean); a file of its own so that it concerns only
the property that exports it (C17).
-/
import DafRel.Gen.SqlOps

namespace DafRel.Bridge

open DafRel

/-- `sql.Select.apply_skip`, as regenerated over the model's `Slots`, is the model's `applySkip`. -/
theorem Select_apply_skip_eq (skipTo : Rel) (sl : Slots) : Gen.Select_apply_skip skipTo sl = applySkip skipTo sl := by
  unfold Gen.Select_apply_skip applySkip
  simp only [bind, Except.bind, pure, Except.pure]
  cases hs : sl.sort.isEmpty <;> cases hp : sl.proj <;> cases hd : sl.dedup <;>
    cases hsl : (sl.sliceStart != 0 || sl.sliceStop.isSome) <;>
    simp [hs, hp, hd, hsl] <;> (repeat' split) <;> simp_all


end DafRel.Bridge
