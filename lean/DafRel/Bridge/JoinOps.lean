/-
Bridge lemmas for translator T-f, join methods: `PartialJoin._begin_apply`, `Join.applied_common_columns`,
`Join._begin_apply` and `Join._finish_apply`, as regenerated from the current source (Gen/JoinOps.lean), are the model's
definitions.  Kept apart from Bridge/RelOps.lean so that a change to one of these methods concerns only the properties
whose theorems are stated with them (C03, C14, C20).
-/
import DafRel.Gen.JoinOps
import DafRel.Bridge.RelOps

namespace DafRel.Bridge

open DafRel

theorem seteq_self (c : Cols) : c.seteq c = true := by
  simp [Cols.seteq, Cols.subset]

/-- `PartialJoin._begin_apply`, as regenerated (self-recursive on the replacement with resolved common columns, hence
the recursion budget: two levels suffice), is the model's `PJoin.beginApply`. -/
theorem PartialJoin_begin_apply_eq (fuel : Nat) (p : PJoin) (t : Rel) (pref : Option Engine) :
    Gen.PartialJoin_begin_apply (fuel+2) p t pref = p.beginApply t pref := by
  unfold PJoin.beginApply
  rw [Gen.PartialJoin_begin_apply]
  by_cases hres : p.join.resolved = true
  · simp [hres, PartialJoin_columns_required_eq]
  · have hres' : p.join.resolved = false := by simpa using hres
    simp only [hres', Bool.not_false, if_true]
    cases hc : p.join.appliedCommonColumns p.fixed.columns t.columns with
    | error e => rfl
    | ok c =>
      simp only []
      rw [Gen.PartialJoin_begin_apply]
      have hr : JoinOp.resolved { p.join with minCols := c, maxCols := some c } = true := by
        simp [JoinOp.resolved, seteq_self]
      simp [hr, PartialJoin_columns_required_eq]

/-- `Join.applied_common_columns`, as regenerated, is the model's `JoinOp.appliedCommonColumns`. -/
theorem Join_applied_common_columns_eq (j : JoinOp) (lcols rcols : Cols) :
    Gen.Join_applied_common_columns j lcols rcols = j.appliedCommonColumns lcols rcols := by
  unfold Gen.Join_applied_common_columns JoinOp.appliedCommonColumns
  by_cases hres : (!j.resolved) = true
  · simp only [hres, if_true]
    cases hm : j.maxCols <;> simp only [] <;> (split <;> simp_all)
  · simp [hres]

/-- `Join._begin_apply(lhs, rhs)`, as regenerated, is the model's `joinBeginApply`. -/
theorem Join_begin_apply_eq (j : JoinOp) (l r : Rel) : Gen.Join_begin_apply j l r = joinBeginApply j l r := by
  unfold Gen.Join_begin_apply joinBeginApply
  simp only [bind, Except.bind, pure, Except.pure, throw, throwThe, MonadExceptOf.throw]
  by_cases h0 : (!(j.pred.columnsRequired.subset (l.columns.union r.columns))) = true
  · simp [h0]
  · simp only [h0, Bool.false_eq_true, if_false]
    by_cases hres : (!j.resolved) = true
    · simp only [hres, if_true]
      cases hc : j.appliedCommonColumns l.columns r.columns with
      | error e => rfl
      | ok c => rfl
    · simp only [hres, Bool.false_eq_true, if_false]
      cases hc : j.commonColumns with
      | error e => rfl
      | ok c =>
        -- tolerant of the order in which the two operands are checked
        first
          | rfl
          | (by_cases h1 : c.subset l.columns = true <;> by_cases h2 : c.subset r.columns = true <;> simp [h1, h2])

/-- `Join._finish_apply(lhs, rhs)`, as regenerated, is the model's `binaryFinishApply (.join j)`. -/
theorem Join_finish_apply_eq (j : JoinOp) (l r : Rel) :
    Gen.Join_finish_apply j l r = binaryFinishApply (.join j) l r := by
  unfold Gen.Join_finish_apply binaryFinishApply
  by_cases ht : (j.pred.asTrivial == some true) = true
  · by_cases h1 : l.isJoinIdentity = true
    · simp [ht, h1]
    · by_cases h2 : r.isJoinIdentity = true <;> simp [ht, h1, h2]
  · simp [ht]


end DafRel.Bridge
