/-
Bridge lemmas for translator T-f: `PartialJoin.columns_required`, `PartialJoin.commute`,
`Materialization.simplify`, `Transfer.simplify`, `Chain._begin_apply`, `Join._begin_apply`, `Join._finish_apply` and `PartialJoin._begin_apply`, as regenerated from the
current source (Gen/RelOps.lean), are the model's definitions.
-/
import DafRel.Gen.RelOps

namespace DafRel.Bridge

open DafRel

theorem PartialJoin_columns_required_eq (p : PJoin) : Gen.PartialJoin_columns_required p = p.columnsRequired := rfl

theorem PartialJoin_commute_eq (p : PJoin) (cur : UOp) (tcols ccols : Cols) :
    Gen.PartialJoin_commute p cur tcols ccols = p.commute cur tcols ccols := by
  unfold Gen.PartialJoin_commute PJoin.commute
  rw [PartialJoin_columns_required_eq]
  cases cur <;> simp <;> (repeat' split) <;> simp_all

theorem seteq_self (c : Cols) : c.seteq c = true := by
  simp [Cols.seteq, Cols.subset]

/-- `PartialJoin._begin_apply`, as regenerated (self-recursive on the replacement with resolved common columns, hence
the recursion budget: two levels suffice), is the model's `PJoin.beginApply`. -/
theorem PartialJoin_begin_apply_eq (fuel : Nat) (p : PJoin) (t : Rel) (pref : Option Engine) :
    Gen.PartialJoin_begin_apply (fuel+2) p t pref = p.beginApply t pref := by
  unfold PJoin.beginApply
  rw [Gen.PartialJoin_begin_apply]
  by_cases hres : p.join.resolved = true
  · simp [hres, PartialJoin_columns_required_eq]
  · have hres' : p.join.resolved = false := by simpa using hres
    simp only [hres', Bool.not_false, if_true]
    cases hc : p.join.appliedCommonColumns p.fixed.columns t.columns with
    | error e => rfl
    | ok c =>
      simp only []
      rw [Gen.PartialJoin_begin_apply]
      have hr : JoinOp.resolved { p.join with minCols := c, maxCols := some c } = true := by
        simp [JoinOp.resolved, seteq_self]
      simp [hr, PartialJoin_columns_required_eq]

/-- `Join.applied_common_columns`, as regenerated, is the model's `JoinOp.appliedCommonColumns`. -/
theorem Join_applied_common_columns_eq (j : JoinOp) (lcols rcols : Cols) :
    Gen.Join_applied_common_columns j lcols rcols = j.appliedCommonColumns lcols rcols := by
  unfold Gen.Join_applied_common_columns JoinOp.appliedCommonColumns
  by_cases hres : (!j.resolved) = true
  · simp only [hres, if_true]
    cases hm : j.maxCols <;> simp only [] <;> (split <;> simp_all)
  · simp [hres]

/-- `Join._begin_apply(lhs, rhs)`, as regenerated, is the model's `joinBeginApply`. -/
theorem Join_begin_apply_eq (j : JoinOp) (l r : Rel) : Gen.Join_begin_apply j l r = joinBeginApply j l r := by
  unfold Gen.Join_begin_apply joinBeginApply
  simp only [bind, Except.bind, pure, Except.pure, throw, throwThe, MonadExceptOf.throw]
  by_cases h0 : (!(j.pred.columnsRequired.subset (l.columns.union r.columns))) = true
  · simp [h0]
  · simp only [h0, Bool.false_eq_true, if_false]
    by_cases hres : (!j.resolved) = true
    · simp only [hres, if_true]
      cases hc : j.appliedCommonColumns l.columns r.columns with
      | error e => rfl
      | ok c => rfl
    · simp only [hres, Bool.false_eq_true, if_false]
      cases hc : j.commonColumns with
      | error e => rfl
      | ok c =>
        -- tolerant of the order in which the two operands are checked
        first
          | rfl
          | (by_cases h1 : c.subset l.columns = true <;> by_cases h2 : c.subset r.columns = true <;> simp [h1, h2])

/-- `Join._finish_apply(lhs, rhs)`, as regenerated, is the model's `binaryFinishApply (.join j)`. -/
theorem Join_finish_apply_eq (j : JoinOp) (l r : Rel) :
    Gen.Join_finish_apply j l r = binaryFinishApply (.join j) l r := by
  unfold Gen.Join_finish_apply binaryFinishApply
  by_cases ht : (j.pred.asTrivial == some true) = true
  · by_cases h1 : l.isJoinIdentity = true
    · simp [ht, h1]
    · by_cases h2 : r.isJoinIdentity = true <;> simp [ht, h1, h2]
  · simp [ht]

theorem Materialization_simplify_eq : (t : Rel) → Gen.Materialization_simplify t = matSimplify t
  | .leaf .. => by simp [Gen.Materialization_simplify, matSimplify]
  | .mat .. => by simp [Gen.Materialization_simplify, matSimplify]
  | .unary .. => by simp [Gen.Materialization_simplify, matSimplify]
  | .binary .. => by simp [Gen.Materialization_simplify, matSimplify]
  | .transfer _ d t => by
    simp only [Gen.Materialization_simplify, matSimplify, Rel.engine]
    rw [Materialization_simplify_eq t]
    by_cases h : (d == t.engine) = true <;> simp [h]
  | .select _ _ _ _ _ _ _ _ t => by
    simp only [Gen.Materialization_simplify, matSimplify, Rel.engine, beq_self_eq_true, if_true]
    exact Materialization_simplify_eq t

theorem Transfer_simplify_eq (dest : Engine) : (t : Rel) → Gen.Transfer_simplify dest t = transferSimplify dest t
  | .leaf .. => by simp [Gen.Transfer_simplify, transferSimplify, Rel.isLocked]
  | .mat .. => by simp [Gen.Transfer_simplify, transferSimplify, Rel.isLocked]
  | .unary .. => by simp [Gen.Transfer_simplify, transferSimplify, Rel.isLocked]
  | .binary .. => by simp [Gen.Transfer_simplify, transferSimplify, Rel.isLocked]
  | .transfer _ d t => by
    simp only [Gen.Transfer_simplify, transferSimplify, Rel.isLocked, Bool.false_eq_true, if_false]
    rw [Transfer_simplify_eq dest t]
  | .select _ _ _ _ _ _ _ _ t => by
    simp only [Gen.Transfer_simplify, transferSimplify, Rel.isLocked, Bool.false_eq_true, if_false]
    exact Transfer_simplify_eq dest t

theorem Chain_begin_apply_eq (l r : Rel) : Gen.Chain_begin_apply l r = chainBeginApply l r := rfl

end DafRel.Bridge
