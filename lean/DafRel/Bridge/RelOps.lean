/-
Bridge lemmas for translator T-f: `PartialJoin.columns_required`, `PartialJoin.commute`,
`Materialization.simplify`, `Transfer.simplify` and `Chain._begin_apply`, as regenerated from the
current source (Gen/RelOps.lean), are the model's definitions.
-/
import DafRel.Gen.RelOps

namespace DafRel.Bridge

open DafRel

theorem PartialJoin_columns_required_eq (p : PJoin) : Gen.PartialJoin_columns_required p = p.columnsRequired := rfl

theorem PartialJoin_commute_eq (p : PJoin) (cur : UOp) (tcols ccols : Cols) :
    Gen.PartialJoin_commute p cur tcols ccols = p.commute cur tcols ccols := by
  unfold Gen.PartialJoin_commute PJoin.commute
  rw [PartialJoin_columns_required_eq]
  cases cur <;> simp <;> (repeat' split) <;> simp_all

theorem Materialization_simplify_eq : (t : Rel) → Gen.Materialization_simplify t = matSimplify t
  | .leaf .. => by simp [Gen.Materialization_simplify, matSimplify]
  | .mat .. => by simp [Gen.Materialization_simplify, matSimplify]
  | .unary .. => by simp [Gen.Materialization_simplify, matSimplify]
  | .binary .. => by simp [Gen.Materialization_simplify, matSimplify]
  | .transfer _ d t => by
    simp only [Gen.Materialization_simplify, matSimplify, Rel.engine]
    rw [Materialization_simplify_eq t]
    by_cases h : (d == t.engine) = true <;> simp [h]
  | .select _ _ _ _ _ _ _ _ t => by
    simp only [Gen.Materialization_simplify, matSimplify, Rel.engine, beq_self_eq_true, if_true]
    exact Materialization_simplify_eq t

theorem Transfer_simplify_eq (dest : Engine) : (t : Rel) → Gen.Transfer_simplify dest t = transferSimplify dest t
  | .leaf .. => by simp [Gen.Transfer_simplify, transferSimplify, Rel.isLocked]
  | .mat .. => by simp [Gen.Transfer_simplify, transferSimplify, Rel.isLocked]
  | .unary .. => by simp [Gen.Transfer_simplify, transferSimplify, Rel.isLocked]
  | .binary .. => by simp [Gen.Transfer_simplify, transferSimplify, Rel.isLocked]
  | .transfer _ d t => by
    simp only [Gen.Transfer_simplify, transferSimplify, Rel.isLocked, Bool.false_eq_true, if_false]
    rw [Transfer_simplify_eq dest t]
  | .select _ _ _ _ _ _ _ _ t => by
    simp only [Gen.Transfer_simplify, transferSimplify, Rel.isLocked, Bool.false_eq_true, if_false]
    exact Transfer_simplify_eq dest t

theorem Chain_begin_apply_eq (l r : Rel) : Gen.Chain_begin_apply l r = chainBeginApply l r := rfl

end DafRel.Bridge
