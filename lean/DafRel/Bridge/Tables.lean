/-
Bridge lemmas for the regenerated constant tables: operation flags (T-b), dataclass schema (T-c)
and the relation-name format (T-d).
-/
import DafRel.Gen.Flags
import DafRel.Gen.Schema
import DafRel.Gen.Names
import DafRel.Model.Rel

namespace DafRel.Bridge

/-! ### Relation-name format -/

theorem nameFormat_eq : Gen.nameFormat = Names.modelFormat := by decide

/-- The counter is read into the name *before* it is incremented, by exactly one. -/
theorem nameSteps_eq : Gen.nameSteps = ["format", "increment", "return"] ∧ Gen.nameIncrement = 1 := by
  decide

/-! ### Operation flags -/

private def tg : Tag := ⟨"t", true⟩

/-- One representative operation per class (the flag functions ignore the parameters, see
`flags_parameter_independent`). -/
def representatives : List (String × UOp) :=
  [("Calculation", .calc tg (.ref tg)), ("Deduplication", .dedup), ("Identity", .identity),
   ("Projection", .proj []), ("Selection", .sel (.lit true)), ("Slice", .slice 0 none), ("Sort", .sort [])]

def modelFlags : List (String × String × Bool) :=
  (representatives.flatMap (fun (n, op) =>
    [(n, "is_empty_invariant", op.isEmptyInvariant), (n, "is_count_invariant", op.isCountInvariant),
     (n, "is_order_dependent", op.isOrderDependent), (n, "is_count_dependent", op.isCountDependent)])) ++
  [("PartialJoin", "is_empty_invariant", false), ("PartialJoin", "is_count_invariant", false),
   ("PartialJoin", "is_order_dependent", false), ("PartialJoin", "is_count_dependent", false)]

theorem flags_eq : Gen.flags = modelFlags := by decide

theorem flags_parameter_independent :
    (∀ t e, (UOp.calc t e).isEmptyInvariant = true ∧ (UOp.calc t e).isCountInvariant = true ∧
            (UOp.calc t e).isOrderDependent = false ∧ (UOp.calc t e).isCountDependent = false) ∧
    (∀ c, (UOp.proj c).isEmptyInvariant = true ∧ (UOp.proj c).isCountInvariant = true ∧
          (UOp.proj c).isOrderDependent = false ∧ (UOp.proj c).isCountDependent = false) ∧
    (∀ p, (UOp.sel p).isEmptyInvariant = false ∧ (UOp.sel p).isCountInvariant = false ∧
          (UOp.sel p).isOrderDependent = false ∧ (UOp.sel p).isCountDependent = false) ∧
    (∀ s e, (UOp.slice s e).isEmptyInvariant = false ∧ (UOp.slice s e).isCountInvariant = false ∧
            (UOp.slice s e).isOrderDependent = true ∧ (UOp.slice s e).isCountDependent = true) ∧
    (∀ ts, (UOp.sort ts).isEmptyInvariant = true ∧ (UOp.sort ts).isCountInvariant = true ∧
           (UOp.sort ts).isOrderDependent = false ∧ (UOp.sort ts).isCountDependent = false) :=
  ⟨fun _ _ => ⟨rfl, rfl, rfl, rfl⟩, fun _ => ⟨rfl, rfl, rfl, rfl⟩, fun _ => ⟨rfl, rfl, rfl, rfl⟩,
   fun _ _ => ⟨rfl, rfl, rfl, rfl⟩, fun _ => ⟨rfl, rfl, rfl, rfl⟩⟩

/-- `is_locked`: exactly leaves and materializations. -/
theorem locked_eq : Gen.locked =
    [("LeafRelation", true), ("UnaryOperationRelation", false), ("BinaryOperationRelation", false),
     ("Materialization", true), ("Transfer", false), ("Select", false)] := by decide

theorem model_isLocked (r : Rel) : r.isLocked = (match r with
    | .leaf .. => true
    | .mat .. => true
    | _ => false) := by
  cases r <;> rfl

/-! ### Dataclass schema: every node class hashes by value -/

/-- Python's dataclass rule: `eq=True, frozen=True` generates `__hash__` from the compared
fields; such an instance is hashable iff all compared field values are.  A field whose value is
another dataclass of this table ("object") or an immutable builtin ("hashable") qualifies; a
`list` ("sequence") or mutable `set` does not. -/
def classHashable (row : String × Bool × Bool × String × List (String × String)) : Bool :=
  row.2.1 && row.2.2.1 && row.2.2.2.1 == "fieldhash" &&
    row.2.2.2.2.all (fun f => f.2 == "hashable" || f.2 == "object")

theorem all_node_classes_hashable : Gen.schema.all classHashable = true := by decide

end DafRel.Bridge
