/-
Bridge lemmas: the definitions regenerated from the Python source (`Gen/Kernel.lean`) equal the
hand-written model functions the property theorems are stated over.  A semantic change of the
Python code changes the generated term and makes the corresponding lemma fail.
-/
import DafRel.Gen.Kernel
import DafRel.Model.Rel

namespace DafRel.Bridge

open DafRel.PyLite DafRel.Gen

/- Every PyLite primitive unfolds in the bridge proofs, whichever of them a (re)translated method happens to use:
a rewrite of the Python that swaps `is None` for `is not None`, `<` for `>=`, nests or flattens conditionals
keeps the lemmas below provable. -/
attribute [local simp] asInt arith add sub mul min2 max2 cmp lt le gt ge PyLite.eq ne isNone isNotNone truthy
  pyNot pyIf pyAnd pyOr bind2

/-- `int | None` -/
def optN : Option Nat → PyV
  | none => .none
  | some n => .int n

def optI : Option Int → PyV
  | none => .none
  | some n => .int n

/-- How a freshly built `Slice` object is represented. -/
def sliceObj (op : Except Err UOp) : PyM PyV :=
  match op with
  | .ok (.slice s e) => .ok (.obj "Slice" (.int s) (optN e))
  | .ok _ => .error (.other "not-a-slice")
  | .error _ => .error .valueError

theorem Slice_new_eq (s : Int) (e : Option Int) :
    Slice_new (.int s) (optI e) = sliceObj (UOp.mkSlice s e) := by
  cases e <;>
    simp [Slice_new, Slice_post_init, UOp.mkSlice, sliceObj, optI, optN, pyIf, pyAnd, bind2, lt, cmp, asInt,
      isNotNone, truthy, bind, Except.bind, pure, Except.pure] <;>
    grind

theorem Slice_then_eq (s1 : Nat) (e1 : Option Nat) (s2 : Nat) (e2 : Option Nat) :
    Slice_then (.int s2) (optN e2) (.int s1) (optN e1) = sliceObj (UOp.sliceThen s1 e1 s2 e2) := by
  cases e1 <;> cases e2 <;>
    simp [Slice_then, Slice_new, Slice_post_init, UOp.sliceThen, UOp.mkSlice, sliceObj, optN, pyIf, pyAnd, bind2,
      lt, add, min2, arith, cmp, asInt, isNotNone, isNone, truthy, bind, Except.bind, pure, Except.pure] <;>
    grind

theorem Slice_applied_min_rows_eq (s : Nat) (e : Option Nat) (tmin : Nat) :
    Slice_applied_min_rows (.int s) (optN e) (.int tmin)
      = .ok (.int ((UOp.slice s e).appliedMinRows tmin : Nat)) := by
  cases e <;>
    simp [Slice_applied_min_rows, UOp.appliedMinRows, optN, pyIf, bind2, sub, min2, max2, arith, asInt,
      isNotNone, truthy, bind, Except.bind, pure, Except.pure] <;>
    grind

theorem Slice_applied_max_rows_eq (s : Nat) (e : Option Nat) (c : Cols) (tmax : Option Nat) :
    Slice_applied_max_rows (.int s) (optN e) (optN tmax)
      = .ok (optN ((UOp.slice s e).appliedMaxRows c tmax)) := by
  cases e <;> cases tmax <;>
    simp [Slice_applied_max_rows, UOp.appliedMaxRows, optN, pyIf, bind2, sub, min2, max2, arith, asInt,
      isNotNone, truthy, bind, Except.bind, pure, Except.pure] <;>
    grind

theorem Deduplication_applied_min_rows_eq (tmin : Nat) :
    Deduplication_applied_min_rows (.int tmin) = .ok (.int (UOp.dedup.appliedMinRows tmin : Nat)) := by
  simp [Deduplication_applied_min_rows, UOp.appliedMinRows, pyIf, bind2, ge, cmp, asInt, truthy, bind,
    Except.bind, pure, Except.pure]
  grind

/-- `target.columns` enters only through its truthiness. -/
theorem Deduplication_applied_max_rows_eq (c : Cols) (tmax : Option Nat) :
    Deduplication_applied_max_rows (.bool (!c.isEmpty)) (optN tmax)
      = .ok (optN (UOp.dedup.appliedMaxRows c tmax)) := by
  cases tmax <;> cases hc : c.isEmpty <;>
    simp [Deduplication_applied_max_rows, UOp.appliedMaxRows, optN, pyIf, pyOr, pyNot, bind2, ge, cmp, asInt,
      isNone, truthy, bind, Except.bind, pure, Except.pure, hc] <;>
    grind

theorem Chain_applied_min_rows_eq (a b : Nat) :
    Chain_applied_min_rows (.int a) (.int b) = .ok (.int (BOp.chainMinRows a b : Nat)) := by
  simp [Chain_applied_min_rows, BOp.chainMinRows, bind2, add, arith, asInt, bind, Except.bind, pure, Except.pure]

theorem Chain_applied_max_rows_eq (a b : Option Nat) :
    Chain_applied_max_rows (optN a) (optN b) = .ok (optN (BOp.chainMaxRows a b)) := by
  cases a <;> cases b <;>
    simp [Chain_applied_max_rows, BOp.chainMaxRows, optN, pyIf, pyOr, bind2, add, arith, asInt, isNone, truthy,
      bind, Except.bind, pure, Except.pure]

theorem Join_applied_min_rows_eq : Join_applied_min_rows = .ok (.int 0) := rfl

theorem Join_applied_max_rows_eq (a b : Option Nat) :
    Join_applied_max_rows (optN a) (optN b) = .ok (optN (JoinOp.appliedMaxRows a b)) := by
  cases a <;> cases b <;>
    simp [Join_applied_max_rows, JoinOp.appliedMaxRows, optN, pyIf, pyOr, bind2, mul, eq, arith, asInt, isNone,
      truthy, bind, Except.bind, pure, Except.pure] <;>
    grind

theorem Selection_applied_min_rows_eq (p : Pred) (tmin : Nat) :
    Selection_applied_min_rows = .ok (.int ((UOp.sel p).appliedMinRows tmin : Nat)) := rfl

theorem passthrough_min_rows_eq (tmin : Nat) :
    Projection_applied_min_rows (.int tmin) = .ok (.int tmin) ∧
    Calculation_applied_min_rows (.int tmin) = .ok (.int tmin) ∧
    Reordering_applied_min_rows (.int tmin) = .ok (.int tmin) :=
  ⟨rfl, rfl, rfl⟩

theorem passthrough_max_rows_eq (tmax : Option Nat) :
    Reordering_applied_max_rows (optN tmax) = .ok (optN tmax) ∧
    UnaryOperation_applied_max_rows (optN tmax) = .ok (optN tmax) :=
  ⟨rfl, rfl⟩

/-- The model's `appliedMinRows/MaxRows` of the pass-through operations are the identity. -/
theorem model_passthrough (tag : Tag) (e : Expr) (c : Cols) (ts : List SortTerm) (tmin : Nat) (tc : Cols)
    (tmax : Option Nat) :
    (UOp.calc tag e).appliedMinRows tmin = tmin ∧ (UOp.proj c).appliedMinRows tmin = tmin ∧
    (UOp.sort ts).appliedMinRows tmin = tmin ∧ UOp.identity.appliedMinRows tmin = tmin ∧
    (UOp.calc tag e).appliedMaxRows tc tmax = tmax ∧ (UOp.proj c).appliedMaxRows tc tmax = tmax ∧
    (UOp.sort ts).appliedMaxRows tc tmax = tmax ∧ (UOp.sel (.lit true)).appliedMaxRows tc tmax = tmax :=
  ⟨rfl, rfl, rfl, rfl, rfl, rfl, rfl, rfl⟩

theorem Relation_is_join_identity_eq (r : Rel) :
    Relation_is_join_identity (.bool (!r.columns.isEmpty)) (optN r.maxRows) (.int r.minRows)
      = .ok (.bool r.isJoinIdentity) := by
  have h1 : ∀ n : Nat, ((n : Int) = 1) = (n = 1) := by intro n; apply propext; omega
  cases hm : r.maxRows <;> cases hc : r.columns.isEmpty <;>
    simp [Relation_is_join_identity, Rel.isJoinIdentity, optN, pyAnd, pyNot, bind2, eq, asInt, truthy, bind,
      Except.bind, pure, Except.pure, hm, hc, h1]
  rename_i val
  by_cases hv : val = 1 <;> simp [hv]
  cases hmn : (r.minRows == 1) <;> simp_all

theorem Relation_is_trivial_eq (r : Rel) :
    Relation_is_trivial (.bool r.isJoinIdentity) (optN r.maxRows) = .ok (.bool r.isTrivial) := by
  cases hm : r.maxRows <;> cases hj : r.isJoinIdentity <;>
    simp [Relation_is_trivial, Rel.isTrivial, optN, pyOr, bind2, eq, asInt, truthy, bind, Except.bind, pure,
      Except.pure, hm, hj] <;>
    grind

end DafRel.Bridge
