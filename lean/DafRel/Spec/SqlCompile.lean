/-
SPECIFICATION (hashed by the audit): what the statements about the emitted SELECT (C02 / C11) are written in.
What a `sql.Payload` stands for in the SQL evaluation model, and the side conditions on a tree under which
`_select_to_executable` / `to_payload` are proved to return the reference rows.
-/
import DafRel.Model.Sql
import DafRel.Model.Sem
import DafRel.Spec.Preds

namespace DafRel

/-- The row an environment stands for under `columns_available`. -/
def rowOf (avail : List (Tag × SqlExpr)) (env : PEnv) : Row := fun t =>
  match SqlPayload.lookup avail t with
  | some x => x.eval env
  | none => none

/-- The environments of a payload: FROM clause filtered by WHERE. -/
def payEnvs (tables : List (List Row)) (p : SqlPayload) : List PEnv :=
  ((From.envs tables p.frm).1).filter (fun e => SqlPred.evalAll e p.wh)

structure PaySem (tables : List (List Row)) (p : SqlPayload) (rows : List Row) (cols : Cols) : Prop where
  rows_eq : rows = (payEnvs tables p).map (rowOf p.avail)
  dom : ∀ t, (SqlPayload.lookup p.avail t).isSome = true ↔ t ∈ cols
  availSrcs : ∀ t x, SqlPayload.lookup p.avail t = some x → ∀ s, s ∈ x.srcs → s ∈ From.names p.frm
  whSrcs : ∀ s, s ∈ SqlPred.srcsList p.wh → s ∈ From.names p.frm

/-- Side conditions on the tree being compiled: leaves and processed markers carry payloads that stand for
their rows; a payload attached to a Select stands for the Select's rows; every expression has the arity of its function; a
deduplicating Select does not sort by a column its projection dropped (the database may then order the
surviving row by any of the merged keys: the model flags that query as ambiguous); joins are resolved. -/
def Rel.SqlReady (s : SqlState) (tables : List (List Row)) (σ : Leaves) : Rel → Prop
  | .leaf oid _ cols _ _ _ _ _ => ∃ p, s.payload oid = some p ∧ PaySem tables p (σ oid) cols
  | .unary op t _ => Rel.SqlReady s tables σ t ∧ op.arityOk = true
  | .binary op l r _ => Rel.SqlReady s tables σ l ∧ Rel.SqlReady s tables σ r ∧
      (match op with
       | .join j => j.pred.arityOk = true ∧ j.resolved = true
       | _ => True)
  | .mat oid _ t => ∃ p, s.payload oid = some p ∧ PaySem tables p (sem σ t) t.columns
  | .transfer oid _ t => ∃ p, s.payload oid = some p ∧ PaySem tables p (sem σ t) t.columns
  | .select oid sort proj dedup a b skipTo ic target =>
      (s.payload oid = none ∧ Rel.SqlReady s tables σ skipTo ∧ (∀ t, t ∈ sort → t.expr.arityOk = true) ∧
        (dedup = true → (UOp.sortCols sort).subset target.columns = true)) ∨
      -- a payload attached to the Select itself stands for the Select's rows
      (∃ own, s.payload oid = some own ∧
        PaySem tables own (sem σ (.select oid sort proj dedup a b skipTo ic target)) target.columns)

/-- The payloads held by the leaves and processed markers of the tree stand for their rows. -/
def Rel.Faithful (s : SqlState) (tables : List (List Row)) (σ : Leaves) : Rel → Prop
  | .leaf oid _ cols _ _ _ _ _ => ∀ p, s.payload oid = some p → PaySem tables p (σ oid) cols
  | .unary _ t _ => Rel.Faithful s tables σ t
  | .binary _ l r _ => Rel.Faithful s tables σ l ∧ Rel.Faithful s tables σ r
  | .mat oid _ t => ∀ p, s.payload oid = some p → PaySem tables p (sem σ t) t.columns
  | .transfer oid _ t => ∀ p, s.payload oid = some p → PaySem tables p (sem σ t) t.columns
  | .select oid sort proj dedup a b skipTo ic target =>
      (∀ own, s.payload oid = some own →
        PaySem tables own (sem σ (.select oid sort proj dedup a b skipTo ic target)) target.columns) ∧
      (s.payload oid = none → Rel.Faithful s tables σ skipTo)

/-! ### Totality of the compilation (C08) -/

/-- The columns a payload makes available are exactly `cols`. -/
def PayDom (p : SqlPayload) (cols : Cols) : Prop :=
  ∀ t, (SqlPayload.lookup p.avail t).isSome = true ↔ t ∈ cols

/-- Recursion depth of `_select_to_executable` / `to_payload` on a tree. -/
def Rel.height : Rel → Nat
  | .leaf .. => 1
  | .unary _ t _ => Rel.height t + 1
  | .binary _ l r _ => max (Rel.height l) (Rel.height r) + 1
  | .mat .. => 1
  | .transfer .. => 1
  | .select _ _ _ _ _ _ skipTo _ _ => Rel.height skipTo + 2

/-- Leaves and processed markers hold payloads exposing their columns; so does a payload attached to a Select;
joins carry resolved common columns. -/
def Rel.PayReady (s : SqlState) : Rel → Prop
  | .leaf oid _ cols _ _ _ _ _ => ∃ p, s.payload oid = some p ∧ PayDom p cols
  | .unary _ t _ => Rel.PayReady s t
  | .binary op l r _ => Rel.PayReady s l ∧ Rel.PayReady s r ∧
      (match op with
       | .join j => j.resolved = true
       | _ => True)
  | .mat oid _ t => ∃ p, s.payload oid = some p ∧ PayDom p t.columns
  | .transfer oid _ t => ∃ p, s.payload oid = some p ∧ PayDom p t.columns
  | .select oid _ _ _ _ _ skipTo _ target =>
      (s.payload oid = none ∧ Rel.PayReady s skipTo) ∨ (∃ own, s.payload oid = some own ∧ PayDom own target.columns)

/-- Every join node (outside payload holders) carries resolved common columns: decidable. -/
def Rel.joinsResolved : Rel → Bool
  | .leaf .. => true
  | .unary _ t _ => Rel.joinsResolved t
  | .binary op l r _ => Rel.joinsResolved l && Rel.joinsResolved r &&
      (match op with
       | .join j => j.resolved
       | _ => true)
  | .mat .. => true
  | .transfer .. => true
  | .select _ _ _ _ _ _ skipTo _ _ => Rel.joinsResolved skipTo

end DafRel
