/-
SPECIFICATION (hashed by the audit): construction histories inside one iteration engine, the
tree the library model builds for them, and their direct evaluation.  Used by the statement of C01.
-/
import DafRel.Model.Apply
import DafRel.Model.Sem
import DafRel.Spec.Preds

namespace DafRel

/-! ### Construction histories inside one iteration engine -/

/-- A history of public factory calls: `leaf` = `engine.make_leaf(..., payload=rows)`,
`op o b` = `b.with_…(o)` / `o.apply(b)` with default options, `chain a b` = `a.chain(b)`,
`mat` = `b.materialized(name)` (the allocation id names the new marker object, if one is made). -/
inductive Build where
  | leaf (oid : Nat) (cols : Cols) (name : String) (mn : Nat) (mx : Option Nat) (msgs : Nat)
  | op (o : UOp) (b : Build)
  | chain (a b : Build)
  | mat (oid : Nat) (name : String) (b : Build)

/-- The tree the library builds for a history (`Except.error` = the factory call raises). -/
def Build.tree (st : Store) (eng : Engine) : Build → Except Err Rel
  | .leaf oid cols name mn mx msgs => .ok (.leaf oid eng cols name mn mx true msgs)
  | .op o b =>
    match Build.tree st eng b with
    | .error e => .error e
    | .ok t =>
      match applyOp st defaultFuel (.u o) t {} with
      | .error e => .error e
      | .ok res => .ok (res.get t)
  | .chain a b =>
    match Build.tree st eng a with
    | .error e => .error e
    | .ok ta =>
      match Build.tree st eng b with
      | .error e => .error e
      | .ok tb =>
        match binaryApply st defaultFuel .chain ta tb with
        | .error e => .error e
        | .ok res => .ok (res.get ta tb)
  | .mat oid name b =>
    match Build.tree st eng b with
    | .error e => .error e
    | .ok t =>
      match materialize st defaultFuel t name with
      | .error e => .error e
      | .ok .same => .ok t
      | .ok (.new (.mat _ n t')) => .ok (.mat oid n t')
      | .ok (.new x) => .ok x

/-- The columns the history promises (specification, not read off the library's tree). -/
def Build.cols : Build → Cols
  | .leaf _ cols _ _ _ _ => cols
  | .op o b => o.appliedColumns b.cols
  | .chain a _ => a.cols
  | .mat _ _ b => b.cols

/-- **Direct evaluation of the applied operation sequence.** -/
def Build.direct (σ : Leaves) : Build → List Row
  | .leaf oid _ _ _ _ _ => σ oid
  | .op o b => o.sem (o.appliedColumns b.cols) (Build.direct σ b)
  | .chain a b => Build.direct σ a ++ Build.direct σ b
  | .mat _ _ b => Build.direct σ b

/-- Preconditions on the history: truthful leaves, well-formed applications (arities), and the
documented contract of key columns for every deduplication (stated on the *direct* rows). -/
def Build.ok (σ : Leaves) : Build → Prop
  | .leaf oid cols _ mn mx _ =>
    RowsHaveCols (σ oid) cols ∧ mn ≤ (σ oid).length ∧ (∀ m, mx = some m → (σ oid).length ≤ m)
  | .op o b => Build.ok σ b ∧ o.arityOk = true ∧
      (o.isDedup = true → rowsKeyDetermined b.cols (Build.direct σ b) = true)
  | .chain a b => Build.ok σ a ∧ Build.ok σ b
  | .mat _ _ b => Build.ok σ b

end DafRel
