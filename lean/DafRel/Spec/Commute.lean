/-
SPECIFICATION (hashed by the audit: lean/obligations.json "spec"): what a commutation report
promises.  Used by the statement of C04.
-/
import DafRel.Model.Sem

namespace DafRel

/-- What a commutation report promises for a target with columns `tcols` and rows `l`
(`cur` is the existing operation, applied to that target; `self` is the new one). -/
def commuteSoundAt (self cur : UOp) (tcols : Cols) (l : List Row) : Prop :=
  let ccols := cur.appliedColumns tcols
  let c := self.commute cur tcols ccols
  match c.first with
  | none => True
  | some f =>
    let fc := f.appliedColumns tcols
    let sc := c.second.appliedColumns fc
    f.wfOn tcols = true ∧ c.second.wfOn fc = true ∧
    (if c.done then
       c.second.sem sc (f.sem fc l) = self.sem (self.appliedColumns ccols) (cur.sem ccols l) ∧
       (∀ x, x ∈ sc ↔ x ∈ self.appliedColumns ccols)
     else
       self.wfOn sc = true ∧
       self.sem (self.appliedColumns sc) (c.second.sem sc (f.sem fc l)) =
         self.sem (self.appliedColumns ccols) (cur.sem ccols l) ∧
       (∀ x, x ∈ self.appliedColumns sc ↔ x ∈ self.appliedColumns ccols) ∧
       (∀ x, x ∈ sc → x ∈ ccols))

end DafRel

namespace DafRel

/-- The list function of a partial join: the rows `F` of the fixed relation joined, on the resolved
common columns and the predicate, with the rows of the target (on the side `fixed_is_lhs` says). -/
def PJoin.semRows (p : PJoin) (F l : List Row) : List Row :=
  if p.fixedIsLhs then joinRows p.join.minCols p.join.pred F l
  else joinRows p.join.minCols p.join.pred l F

/-- What the report of `PartialJoin.commute` promises for a target with columns `tcols` and rows `l`
(`cur` is the existing operation applied to that target, `F` are the rows of the fixed relation):
a refusal hands back the existing operation; a move is complete, moves the join itself, the join and the
reported second operation are well-formed where they would be applied, the columns are those of joining at
the root, and the rows are those of joining at the root - as a multiset always (a join defines no row
order: with the fixed relation on the left the nested-loop order of `joinRows` groups by the fixed row),
and as a list, order included, whenever the existing operation is not a sort or the target is the left (outer)
operand of the join. -/
def pjoinCommuteSoundAt (p : PJoin) (cur : UOp) (tcols : Cols) (F l : List Row) : Prop :=
  let ccols := cur.appliedColumns tcols
  let c := p.commute cur tcols ccols
  match c.1 with
  | none => c.2.1 = cur
  | some f =>
    let jc := f.appliedColumns tcols
    let sc := c.2.1.appliedColumns jc
    f = p ∧ c.2.2 = true ∧ p.columnsRequired.subset tcols = true ∧ c.2.1.wfOn jc = true ∧
    (∀ x, x ∈ sc ↔ x ∈ p.appliedColumns ccols) ∧
    List.Perm (c.2.1.sem sc (p.semRows F l)) (p.semRows F (cur.sem ccols l)) ∧
    (((∀ ts, cur ≠ .sort ts) ∨ p.fixedIsLhs = false) →
      c.2.1.sem sc (p.semRows F l) = p.semRows F (cur.sem ccols l))

end DafRel
