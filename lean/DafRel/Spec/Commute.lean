/-
SPECIFICATION (hashed by the audit: lean/obligations.json "spec"): what a commutation report
promises.  Used by the statement of C04.
-/
import DafRel.Model.Sem

namespace DafRel

/-- What a commutation report promises for a target with columns `tcols` and rows `l`
(`cur` is the existing operation, applied to that target; `self` is the new one). -/
def commuteSoundAt (self cur : UOp) (tcols : Cols) (l : List Row) : Prop :=
  let ccols := cur.appliedColumns tcols
  let c := self.commute cur tcols ccols
  match c.first with
  | none => True
  | some f =>
    let fc := f.appliedColumns tcols
    let sc := c.second.appliedColumns fc
    f.wfOn tcols = true ∧ c.second.wfOn fc = true ∧
    (if c.done then
       c.second.sem sc (f.sem fc l) = self.sem (self.appliedColumns ccols) (cur.sem ccols l) ∧
       (∀ x, x ∈ sc ↔ x ∈ self.appliedColumns ccols)
     else
       self.wfOn sc = true ∧
       self.sem (self.appliedColumns sc) (c.second.sem sc (f.sem fc l)) =
         self.sem (self.appliedColumns ccols) (cur.sem ccols l) ∧
       (∀ x, x ∈ self.appliedColumns sc ↔ x ∈ self.appliedColumns ccols) ∧
       (∀ x, x ∈ sc → x ∈ ccols))

end DafRel
