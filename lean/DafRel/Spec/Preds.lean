/-
SPECIFICATION (hashed by the audit): the predicates that appear as hypotheses in property
theorems - truthful leaves, structural well-formedness, executability by the iteration engine,
consistency of the payload store.
-/
import DafRel.Model.IterExec

namespace DafRel

/-- `keys(row) == cols`. -/
def RowHasCols (r : Row) (c : Cols) : Prop := ∀ t, (r t).isSome = true ↔ t ∈ c

def RowsHaveCols (rows : List Row) (c : Cols) : Prop := ∀ r, r ∈ rows → RowHasCols r c

/-- Leaves of the tree are truthful: declared columns are the row keys, declared bounds hold. -/
def Rel.Truthful (σ : Leaves) : Rel → Prop
  | .leaf oid _ cols _ mn mx _ _ =>
    RowsHaveCols (σ oid) cols ∧ mn ≤ (σ oid).length ∧ (∀ m, mx = some m → (σ oid).length ≤ m)
  | .unary _ t _ => Rel.Truthful σ t
  | .binary _ l r _ => Rel.Truthful σ l ∧ Rel.Truthful σ r
  | .mat _ _ t => Rel.Truthful σ t
  | .transfer _ _ t => Rel.Truthful σ t
  | .select _ _ _ _ _ _ _ _ t => Rel.Truthful σ t

/-- Structural well-formedness (what every factory call establishes: C14). -/
def Rel.WF : Rel → Prop
  | .leaf .. => True
  | .unary op t cols =>
    Rel.WF t ∧ cols = op.appliedColumns t.columns ∧ op.wfOn t.columns = true
  | .binary op l r cols =>
    Rel.WF l ∧ Rel.WF r ∧
      (match op with
       | .chain => cols = l.columns ∧ (∀ t, t ∈ l.columns ↔ t ∈ r.columns)
       | .join j => cols = l.columns.union r.columns ∧ j.minCols.subset l.columns = true ∧
                    j.minCols.subset r.columns = true
       | .ignoreOne _ => False)
  | .mat _ _ t => Rel.WF t
  | .transfer _ _ t => Rel.WF t
  | .select _ _ _ _ _ _ _ _ t => Rel.WF t

def UOp.isDedup : UOp → Bool
  | .dedup => true
  | _ => false

/-! ### Static conditions on trees the iteration engine executes -/

/-- All function applications inside the operation have the arity of their function. -/
def UOp.arityOk : UOp → Bool
  | .calc _ e => e.arityOk
  | .sel p => p.arityOk
  | .sort ts => ts.all (fun t => t.expr.arityOk)
  | _ => true

def UOp.isIdentity : UOp → Bool
  | .identity => true
  | _ => false

/-- Trees the iteration engine is documented to execute: leaves with payloads, the six concrete
unary operations, chains, materializations and transfers *between iteration engines*. -/
def Rel.IterOK : Rel → Prop
  | .leaf _ _ _ _ _ _ p _ => p = true
  | .unary op t _ => Rel.IterOK t ∧ op.isIdentity = false ∧ op.arityOk = true
  | .binary op l r _ =>
    Rel.IterOK l ∧ Rel.IterOK r ∧ l.engine = r.engine ∧
      (match op with
       | .chain => True
       | _ => False)
  | .mat _ _ t => Rel.IterOK t
  | .transfer _ _ t => Rel.IterOK t ∧ t.engine.kind = .iter
  | .select _ _ _ _ _ _ _ _ t => Rel.IterOK t

/-- A `RowMapping` really is a mapping: its rows are pairwise distinct on its key. -/
def ItOK : Iterable → Prop
  | .mapping k rows => rows.Pairwise (fun a b => a.proj k ≠ b.proj k)
  | _ => True

/-- `reg` names, for every marker allocation id, the rows a payload attached there must have. -/
def Rel.RegOK (σ : Leaves) (reg : Nat → Option (List Row)) : Rel → Prop
  | .leaf .. => True
  | .unary _ t _ => Rel.RegOK σ reg t
  | .binary _ l r _ => Rel.RegOK σ reg l ∧ Rel.RegOK σ reg r
  | .mat oid _ t => reg oid = some (sem σ t) ∧ Rel.RegOK σ reg t
  | .transfer oid _ t => reg oid = some (sem σ t) ∧ Rel.RegOK σ reg t
  | .select oid _ _ _ _ _ _ _ t => reg oid = some (sem σ t) ∧ Rel.RegOK σ reg t

/-- Every payload in the store holds the rows registered for its marker. -/
def StoreOK (σ : Leaves) (reg : Nat → Option (List Row)) (s : ExecState) : Prop :=
  ∀ oid it, s.payload oid = some it → ItOK it ∧ ∃ rows, reg oid = some rows ∧ it.rows σ = .ok rows

/-- The marker nodes of a tree: allocation id and the rows a payload there must hold. -/
def Rel.markers (σ : Leaves) : Rel → List (Nat × List Row)
  | .leaf .. => []
  | .unary _ t _ => Rel.markers σ t
  | .binary _ l r _ => Rel.markers σ l ++ Rel.markers σ r
  | .mat oid _ t => (oid, sem σ t) :: Rel.markers σ t
  | .transfer oid _ t => (oid, sem σ t) :: Rel.markers σ t
  | .select oid _ _ _ _ _ _ _ t => (oid, sem σ t) :: Rel.markers σ t

/-- Marker nodes with the same allocation id (the same Python object) have the same content.
Holds trivially when ids are pairwise distinct, and for shared sub-trees. -/
def Rel.MarkersConsistent (σ : Leaves) (r : Rel) : Prop :=
  ∀ p q, p ∈ r.markers σ → q ∈ r.markers σ → p.1 = q.1 → p.2 = q.2

/-! ### Engine consistency and structural well-formedness (C14) -/

/-- What C14 demands of a tree beyond `Rel.WF` (in the model an operation node's engine *is* its
operand's, so "each operation node lives in the engine of its operand" holds by construction):
binary operands share an engine, transfers never connect an engine to itself, join nodes carry
common columns that both operands have, the placeholders `Identity` / `IgnoreOne` are never nodes,
and every expression is supported by the engine of the node holding it. -/
def Rel.EngineOK : Rel → Prop
  | .leaf .. => True
  | .unary op t _ =>
    Rel.EngineOK t ∧ op.isIdentity = false ∧ op.isSupportedBy t.engine.kind = true
  | .binary op l r _ =>
    Rel.EngineOK l ∧ Rel.EngineOK r ∧ l.engine = r.engine ∧
      (match op with
       | .chain => True
       | .join j => j.minCols.subset l.columns = true ∧ j.minCols.subset r.columns = true ∧
                    j.pred.isSupportedBy l.engine.kind = true
       | .ignoreOne _ => False)
  | .mat _ _ t => Rel.EngineOK t
  | .transfer _ d t => Rel.EngineOK t ∧ d ≠ t.engine
  | .select _ _ _ _ _ _ _ _ t => Rel.EngineOK t

/-! ### Materialization bookkeeping (C10) -/

/-- Allocation ids of the materialization nodes of a tree. -/
def Rel.matOids : Rel → List Nat
  | .leaf .. => []
  | .unary _ t _ => Rel.matOids t
  | .binary _ l r _ => Rel.matOids l ++ Rel.matOids r
  | .mat oid _ t => oid :: Rel.matOids t
  | .transfer _ _ t => Rel.matOids t
  | .select _ _ _ _ _ _ _ _ t => Rel.matOids t

/-- No materialization object occurs inside its own upstream tree (Python objects are built
bottom-up and are immutable, so the object graph is acyclic). -/
def Rel.Acyclic : Rel → Prop
  | .leaf .. => True
  | .unary _ t _ => Rel.Acyclic t
  | .binary _ l r _ => Rel.Acyclic l ∧ Rel.Acyclic r
  | .mat oid _ t => oid ∉ Rel.matOids t ∧ Rel.Acyclic t
  | .transfer _ _ t => Rel.Acyclic t
  | .select _ _ _ _ _ _ _ _ t => Rel.Acyclic t

/-- The ghost evaluation log is duplicate free and every materialization evaluated so far still
holds its payload. -/
def EvalsOK (s : ExecState) : Prop :=
  s.evals.Nodup ∧ ∀ o, o ∈ s.evals → (s.payload o).isSome = true

/-- What one successful `execute` call does to the payload store. -/
structure ExecFrame (r : Rel) (s s' : ExecState) : Prop where
  /-- write-once: a payload that is there is never replaced or cleared -/
  mono : ∀ o p, s.payload o = some p → s'.payload o = some p
  /-- payloads appear only on materialization nodes of the executed tree -/
  fresh : ∀ o, (s'.payload o).isSome = true → (s.payload o).isSome = true ∨ o ∈ r.matOids
  /-- each materialization's upstream tree is evaluated at most once, ever -/
  evalsOK : EvalsOK s → EvalsOK s'
  /-- the evaluation log only grows -/
  evals_ext : ∃ new, s'.evals = new ++ s.evals

/-! ### Laziness (C18) -/

def UOp.isLazy : UOp → Bool
  | .calc _ _ => true
  | .proj _ => true
  | .sel _ => true
  | .slice _ _ => true
  | _ => false

/-- Trees made only of calculation, projection, selection, slice and chain over leaves. -/
def Rel.LazyOnly : Rel → Prop
  | .leaf .. => True
  | .unary op t _ => Rel.LazyOnly t ∧ op.isLazy = true
  | .binary op l r _ =>
    Rel.LazyOnly l ∧ Rel.LazyOnly r ∧
      (match op with
       | .chain => True
       | _ => False)
  | _ => False

/-- The leaf occurrences of a tree, left to right (one entry per occurrence). -/
def Rel.leafOccs : Rel → List Nat
  | .leaf oid .. => [oid]
  | .unary _ t _ => Rel.leafOccs t
  | .binary _ l r _ => Rel.leafOccs l ++ Rel.leafOccs r
  | .mat _ _ t => Rel.leafOccs t
  | .transfer _ _ t => Rel.leafOccs t
  | .select _ _ _ _ _ _ _ _ t => Rel.leafOccs t

/-- The leaf payload occurrences inside a row iterable. -/
def Iterable.leafOccs : Iterable → List Nat
  | .seq _ => []
  | .mapping _ _ => []
  | .leafRef o => [o]
  | .calc t _ _ => Iterable.leafOccs t
  | .proj t _ => Iterable.leafOccs t
  | .sel t _ => Iterable.leafOccs t
  | .slice t _ _ => Iterable.leafOccs t
  | .chain a b => Iterable.leafOccs a ++ Iterable.leafOccs b

/-- `RowSequence` / `RowMapping`: the result holds its rows itself. -/
def Iterable.isStored : Iterable → Bool
  | .seq _ => true
  | .mapping _ _ => true
  | _ => false

end DafRel
