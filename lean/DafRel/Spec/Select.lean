/-
SPECIFICATION (hashed by the audit): what it means for a `sql.Select` marker to be coherent, and
what appending an operation to it must achieve.  Used by the statements about the SQL engine's
tree building (C17 / C02 / C11, supporting).
-/
import DafRel.Model.Apply
import DafRel.Model.Sem
import DafRel.Spec.Preds

namespace DafRel

/-- The slots are well-formed on a skip target with columns `cols`. -/
def Slots.wfOn (sl : Slots) (cols : Cols) : Prop :=
  (UOp.sortCols sl.sort).subset cols = true ∧ (∀ c, sl.proj = some c → c.subset cols = true)

/-- The columns a Select with these slots exposes. -/
def Slots.columns (sl : Slots) (cols : Cols) : Cols :=
  match sl.proj with
  | some c => c
  | none => cols

/-- The list function the slots stand for: sort, then projection, then deduplication, then slice. -/
def Slots.sem (sl : Slots) (cols : Cols) (l : List Row) : List Row :=
  let l1 := if sl.sort.isEmpty then l else isort (lexLe sl.sort) l
  let l2 := match sl.proj with
    | some c => l1.map (fun r => r.restrict c)
    | none => l1
  let l3 := if sl.dedup then firstOcc (sl.columns cols) l2 else l2
  if sl.sliceStart != 0 || sl.sliceStop.isSome then sliceList sl.sliceStart sl.sliceStop l3 else l3

def Rel.selTarget : Rel → Rel
  | .select _ _ _ _ _ _ _ _ t => t
  | r => r

/-- A coherent SELECT marker: flagged compound iff its skip target is a chain (and then it records no
projection: projections of a UNION are pushed into its branches or nested); its recorded slots are
well-formed on the skip target; the relation it marks has the rows the slots prescribe. -/
structure SelOK (σ : Leaves) (S : Rel) : Prop where
  isSel : S.isSelect = true
  compound : S.isCompound = isChain S.skipTo
  compoundProj : S.isCompound = true → S.slots.proj = none
  skipWF : S.skipTo.WF
  skipTruthful : S.skipTo.Truthful σ
  slotsWF : S.slots.wfOn S.skipTo.columns
  wf : S.WF
  truthful : S.Truthful σ
  sem_eq : sem σ S = S.slots.sem S.skipTo.columns (sem σ S.skipTo)
  cols : ∀ c, c ∈ S.columns ↔ c ∈ S.slots.columns S.skipTo.columns
  engine : S.engine = S.skipTo.engine

/-- What `_append_unary_to_select(op, S)` must return. -/
structure AppendOK (σ : Leaves) (op : UOp) (S S' : Rel) : Prop where
  ok : SelOK σ S'
  sem_eq : sem σ S' = op.sem (op.appliedColumns S.columns) (sem σ S)
  cols : ∀ c, c ∈ S'.columns ↔ c ∈ op.appliedColumns S.columns
  engine : S'.engine = S.engine

/-- Raw SQL trees covered by the conform theorem: assembled bottom-up from leaves, materializations
and transfers into one SQL engine with the seven unary operations, chains and joins (whose predicate
only needs columns of the operands, which live in one engine) - no `Select` markers (those are what
`conform` adds). -/
def Rel.RawSql : Rel → Prop
  | .leaf _ e _ _ _ _ _ _ => e.kind = .sql
  | .unary _ t _ => Rel.RawSql t
  | .binary op l r _ => Rel.RawSql l ∧ Rel.RawSql r ∧
      (match op with
       | .chain => True
       | .join j => j.pred.columnsRequired.subset (l.columns.union r.columns) = true ∧ l.engine = r.engine
       | .ignoreOne _ => False)
  | .mat _ _ t => t.engine.kind = .sql
  | .transfer _ d _ => d.kind = .sql
  | .select .. => False

/-- What `conform(t)` must return. -/
structure ConformOK (σ : Leaves) (t t' : Rel) : Prop where
  ok : SelOK σ t'
  sem_eq : sem σ t' = sem σ t
  cols : ∀ c, c ∈ t'.columns ↔ c ∈ t.columns
  engine : t'.engine = t.engine

end DafRel
