/-
SPECIFICATION (hashed by the audit): what it means for a `sql.Select` marker to be coherent, and
what appending an operation to it must achieve.  Used by the statements about the SQL engine's
tree building (C17 / C02 / C11, supporting).
-/
import DafRel.Model.Apply
import DafRel.Model.Sem
import DafRel.Spec.Preds

namespace DafRel

/-- The slots are well-formed on a skip target with columns `cols`. -/
def Slots.wfOn (sl : Slots) (cols : Cols) : Prop :=
  (UOp.sortCols sl.sort).subset cols = true ∧ (∀ c, sl.proj = some c → c.subset cols = true)

/-- The columns a Select with these slots exposes. -/
def Slots.columns (sl : Slots) (cols : Cols) : Cols :=
  match sl.proj with
  | some c => c
  | none => cols

/-- The list function the slots stand for: sort, then projection, then deduplication, then slice. -/
def Slots.sem (sl : Slots) (cols : Cols) (l : List Row) : List Row :=
  let l1 := if sl.sort.isEmpty then l else isort (lexLe sl.sort) l
  let l2 := match sl.proj with
    | some c => l1.map (fun r => r.restrict c)
    | none => l1
  let l3 := if sl.dedup then firstOcc (sl.columns cols) l2 else l2
  if sl.sliceStart != 0 || sl.sliceStop.isSome then sliceList sl.sliceStart sl.sliceStop l3 else l3

def Rel.selTarget : Rel → Rel
  | .select _ _ _ _ _ _ _ _ t => t
  | r => r

/-- A coherent SELECT marker: flagged compound iff its skip target is a chain (and then it records no
projection: projections of a UNION are pushed into its branches or nested); its recorded slots are
well-formed on the skip target; the relation it marks has the rows the slots prescribe. -/
structure SelOK (σ : Leaves) (S : Rel) : Prop where
  isSel : S.isSelect = true
  compound : S.isCompound = isChain S.skipTo
  compoundProj : S.isCompound = true → S.slots.proj = none
  skipWF : S.skipTo.WF
  skipTruthful : S.skipTo.Truthful σ
  slotsWF : S.slots.wfOn S.skipTo.columns
  wf : S.WF
  truthful : S.Truthful σ
  sem_eq : sem σ S = S.slots.sem S.skipTo.columns (sem σ S.skipTo)
  cols : ∀ c, c ∈ S.columns ↔ c ∈ S.slots.columns S.skipTo.columns
  engine : S.engine = S.skipTo.engine

/-- What `_append_unary_to_select(op, S)` must return. -/
structure AppendOK (σ : Leaves) (op : UOp) (S S' : Rel) : Prop where
  ok : SelOK σ S'
  sem_eq : sem σ S' = op.sem (op.appliedColumns S.columns) (sem σ S)
  cols : ∀ c, c ∈ S'.columns ↔ c ∈ op.appliedColumns S.columns
  engine : S'.engine = S.engine

/-- Raw SQL trees covered by the conform theorem: assembled bottom-up from leaves, materializations
and transfers into one SQL engine with the seven unary operations, chains and joins (whose predicate
only needs columns of the operands, which live in one engine) - no `Select` markers (those are what
`conform` adds). -/
def Rel.RawSql : Rel → Prop
  | .leaf _ e _ _ _ _ _ _ => e.kind = .sql
  | .unary _ t _ => Rel.RawSql t
  | .binary op l r _ => Rel.RawSql l ∧ Rel.RawSql r ∧
      (match op with
       | .chain => True
       | .join j => j.pred.columnsRequired.subset (l.columns.union r.columns) = true ∧ l.engine = r.engine
       | .ignoreOne _ => False)
  | .mat _ _ t => t.engine.kind = .sql
  | .transfer _ d _ => d.kind = .sql
  | .select .. => False

/-- What `conform(t)` must return. -/
structure ConformOK (σ : Leaves) (t t' : Rel) : Prop where
  ok : SelOK σ t'
  sem_eq : sem σ t' = sem σ t
  cols : ∀ c, c ∈ t'.columns ↔ c ∈ t.columns
  engine : t'.engine = t.engine

def Rel.isAtom : Rel → Bool
  | .leaf .. => true
  | .mat .. => true
  | .transfer .. => true
  | _ => false

/-- Extra invariants carried along by `Good`: a predicate on the payload-holding nodes at the boundary
(leaves, materializations, transfers) and one on Select markers, which must hold of every freshly created
Select (allocation id 0).  The tree-building theorems hold for every such pair, so whatever is known of the
atoms and Selects of the input is known of those of the output: the engine never invents a leaf. -/
structure NodeInv where
  atom : Rel → Prop
  sel : Rel → Prop
  selNew : ∀ S, S.oid = 0 → sel S

/-- No extra invariant. -/
def NodeInv.triv : NodeInv := ⟨fun _ => True, fun _ => True, fun _ _ => trivial⟩

/-- Trees the SQL engine's tree building is shown sound on: raw trees, coherent Selects whose skip
target is again such a tree and has the shape `to_payload` can compile (`Rel.compOK`), and anything built from those.  Every relation the SQL engine's
factories return for such an input is again one (`treeBuild_sound`), so the theorems compose over
construction histories. -/
inductive Good (I : NodeInv) (σ : Leaves) : Rel → Prop
  | atom (r : Rel) : r.isAtom = true → r.WF → r.Truthful σ → r.engine.kind = .sql → I.atom r → Good I σ r
  | unary (op : UOp) (t : Rel) (c : Cols) : Good I σ t → (Rel.unary op t c).WF → Good I σ (.unary op t c)
  | chain (l r : Rel) (c : Cols) : Good I σ l → Good I σ r → (Rel.binary .chain l r c).WF →
      Good I σ (.binary .chain l r c)
  | join (j : JoinOp) (l r : Rel) (c : Cols) : Good I σ l → Good I σ r → (Rel.binary (.join j) l r c).WF →
      j.pred.columnsRequired.subset (l.columns.union r.columns) = true → l.engine = r.engine →
      Good I σ (.binary (.join j) l r c)
  | sel (S : Rel) : SelOK σ S → S.engine.kind = .sql → S.skipTo.compOK true = true → I.sel S →
      Good I σ S.skipTo → Good I σ S

/-- The atoms of a raw tree satisfy the atom invariant. -/
def Rel.AtomsOK (I : NodeInv) : Rel → Prop
  | .leaf a b c d e f g h => I.atom (.leaf a b c d e f g h)
  | .unary _ t _ => Rel.AtomsOK I t
  | .binary _ l r _ => Rel.AtomsOK I l ∧ Rel.AtomsOK I r
  | .mat a b t => I.atom (.mat a b t)
  | .transfer a b t => I.atom (.transfer a b t)
  | .select a b c d e f g h i => I.sel (.select a b c d e f g h i) ∧ Rel.AtomsOK I g

/-! ### Construction histories inside one SQL engine -/

/-- A history of public factory calls inside one SQL engine: `leaf` = `engine.make_leaf(...)`,
`op o b` = `o.apply(b)` with default options, `chain a b` = `a.chain(b)`, `join a b p` = `a.join(b, p)`
(common columns resolved automatically), `mat` = `b.materialized(name)`. -/
inductive SqlBuild where
  | leaf (oid : Nat) (cols : Cols) (name : String) (mn : Nat) (mx : Option Nat) (msgs : Nat)
  | op (o : UOp) (b : SqlBuild)
  | chain (a b : SqlBuild)
  | join (a b : SqlBuild) (pred : Pred)
  | mat (name : String) (b : SqlBuild)

/-- The tree the library builds for a history (`Except.error` = the factory call raises). -/
def SqlBuild.tree (st : Store) (eng : Engine) : SqlBuild → Except Err Rel
  | .leaf oid cols name mn mx msgs => .ok (.leaf oid eng cols name mn mx true msgs)
  | .op o b =>
    match SqlBuild.tree st eng b with
    | .error e => .error e
    | .ok t =>
      match applyOp st defaultFuel (.u o) t {} with
      | .error e => .error e
      | .ok res => .ok (res.get t)
  | .chain a b =>
    match SqlBuild.tree st eng a with
    | .error e => .error e
    | .ok ta =>
      match SqlBuild.tree st eng b with
      | .error e => .error e
      | .ok tb =>
        match binaryApply st defaultFuel .chain ta tb with
        | .error e => .error e
        | .ok res => .ok (res.get ta tb)
  | .join a b pred =>
    match SqlBuild.tree st eng a with
    | .error e => .error e
    | .ok ta =>
      match SqlBuild.tree st eng b with
      | .error e => .error e
      | .ok tb =>
        match Rel.joinWith st ta tb pred true false with
        | .error e => .error e
        | .ok res => .ok (res.get ta)
  | .mat name b =>
    match SqlBuild.tree st eng b with
    | .error e => .error e
    | .ok t =>
      match materialize st defaultFuel t name with
      | .error e => .error e
      | .ok res => .ok (res.get t)

/-- The columns the history promises (specification, not read off the library's tree). -/
def SqlBuild.cols : SqlBuild → Cols
  | .leaf _ cols _ _ _ _ => cols
  | .op o b => o.appliedColumns b.cols
  | .chain a _ => a.cols
  | .join a b _ => a.cols.union b.cols
  | .mat _ b => b.cols

/-- **Direct evaluation of the applied operation sequence**: natural join on the shared key columns
plus the predicate, concatenation for chain. -/
def SqlBuild.direct (σ : Leaves) : SqlBuild → List Row
  | .leaf oid _ _ _ _ _ => σ oid
  | .op o b => o.sem (o.appliedColumns b.cols) (SqlBuild.direct σ b)
  | .chain a b => SqlBuild.direct σ a ++ SqlBuild.direct σ b
  | .join a b pred =>
    joinRows (Cols.keys (Cols.inter b.cols a.cols)) pred (SqlBuild.direct σ a) (SqlBuild.direct σ b)
  | .mat _ b => SqlBuild.direct σ b

/-- The leaves of the history satisfy the atom invariant. -/
def SqlBuild.LeavesOK (I : NodeInv) (eng : Engine) : SqlBuild → Prop
  | .leaf oid cols name mn mx msgs => I.atom (.leaf oid eng cols name mn mx true msgs)
  | .op _ b => SqlBuild.LeavesOK I eng b
  | .chain a b => SqlBuild.LeavesOK I eng a ∧ SqlBuild.LeavesOK I eng b
  | .join a b _ => SqlBuild.LeavesOK I eng a ∧ SqlBuild.LeavesOK I eng b
  | .mat _ b => SqlBuild.LeavesOK I eng b

/-- Preconditions on the history: truthful leaves. -/
def SqlBuild.ok (σ : Leaves) : SqlBuild → Prop
  | .leaf oid cols _ mn mx _ =>
    RowsHaveCols (σ oid) cols ∧ mn ≤ (σ oid).length ∧ (∀ m, mx = some m → (σ oid).length ≤ m)
  | .op _ b => SqlBuild.ok σ b
  | .chain a b => SqlBuild.ok σ a ∧ SqlBuild.ok σ b
  | .join a b _ => SqlBuild.ok σ a ∧ SqlBuild.ok σ b
  | .mat _ b => SqlBuild.ok σ b

end DafRel
