/-
SPECIFICATION (hashed by the audit): what back-tracking insertion and `apply` with preferred-engine
options promise.  Used by the statements of C03.
-/
import DafRel.Model.Apply
import DafRel.Model.Sem
import DafRel.Spec.Preds
import DafRel.Spec.Select

namespace DafRel

def UOp.isProj : UOp → Bool
  | .proj _ => true
  | _ => false

/-- No deduplication on the path back-tracking would take (needed for projections: finding F04). -/
def Rel.spineNoDedup : Rel → Prop
  | .unary op t _ => op.isDedup = false ∧ Rel.spineNoDedup t
  | .transfer _ _ t => Rel.spineNoDedup t
  | _ => True

/-- Every transfer on the path back-tracking takes whose target already lives in the preferred engine
has a target covered by the SQL tree-building theorems, when that engine is a SQL engine (nothing is
required when the preferred engine is an iteration engine). -/
def Rel.prefTargetsGood (I : NodeInv) (σ : Leaves) (pref : Engine) : Rel → Prop
  | .unary _ t _ => Rel.prefTargetsGood I σ pref t
  | .transfer _ _ t => (t.engine = pref → pref.kind = .sql → Good I σ t) ∧ Rel.prefTargetsGood I σ pref t
  | _ => True

/-- No Transfer on the path back-tracking takes holds a payload (true of every tree that has not been processed;
`attach_payload` on a Transfer is what `Processor.process` does). -/
def Rel.spineNoPayload (st : Store) : Rel → Prop
  | .unary _ t _ => Rel.spineNoPayload st t
  | .transfer oid _ t => (st.get oid).isNone = true ∧ Rel.spineNoPayload st t
  | _ => True

/-- What `backtrack_unary(op, tree, preferred)` promises about the relation `tree'` it returns
(`done` = the operation has been applied inside `tree'`; otherwise it still has to be applied on
top of `tree'`). -/
structure BTok (σ : Leaves) (o : UOp) (tree tree' : Rel) (done : Bool) : Prop where
  wf : tree'.WF
  truthful : tree'.Truthful σ
  engine : tree'.engine = tree.engine
  done_sound : done = true →
    sem σ tree' = o.sem (o.appliedColumns tree.columns) (sem σ tree) ∧
      (∀ x, x ∈ tree'.columns ↔ x ∈ o.appliedColumns tree.columns)
  pend_wf : done = false → o.wfOn tree'.columns = true
  pend_cols : done = false → ∀ x, x ∈ tree'.columns → x ∈ tree.columns
  pend_sound : done = false →
    o.sem (o.appliedColumns tree'.columns) (sem σ tree') = o.sem (o.appliedColumns tree.columns) (sem σ tree) ∧
      (∀ x, x ∈ o.appliedColumns tree'.columns ↔ x ∈ o.appliedColumns tree.columns)
  pend_same : done = false → o.isProj = false →
    sem σ tree' = sem σ tree ∧ (∀ x, x ∈ tree'.columns ↔ x ∈ tree.columns)

/-- What the result of an `apply` call must satisfy (content, columns, well-formedness, engine). -/
structure ApplyOK (σ : Leaves) (o : UOp) (t t' : Rel) (opts : Opts) : Prop where
  sem_eq : sem σ t' = o.sem (o.appliedColumns t.columns) (sem σ t)
  cols : ∀ x, x ∈ t'.columns ↔ x ∈ o.appliedColumns t.columns
  wf : t'.WF
  truthful : t'.Truthful σ
  /-- the result lives in the target's engine, or - only when a transfer was asked for - in the
  preferred engine -/
  engine : t'.engine = t.engine ∨ (opts.transfer = true ∧ opts.pref = some t'.engine)

end DafRel
