/-
SPECIFICATION (hashed by the audit): predicates the statements about the Processor (C07 / C10) are written in.
-/
import DafRel.Model.Processor

namespace DafRel

/-- Every leaf and marker of the tree holds a payload, and no chain has a statically empty operand (such a chain
is replaced by its other operand even when nothing else has to be done). -/
def Rel.Settled (s : ProcState) : Rel → Prop
  | .unary _ t _ => Rel.Settled s t
  | .binary op l r _ => Rel.Settled s l ∧ Rel.Settled s r ∧
      (match op with
       | .chain => l.maxRows ≠ some 0 ∧ r.maxRows ≠ some 0
       | _ => True)
  | r => (s.payloadOf r).isSome = true

end DafRel
