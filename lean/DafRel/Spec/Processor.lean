/-
SPECIFICATION (hashed by the audit): predicates the statements about the Processor (C07 / C10) are written in.
-/
import DafRel.Model.Processor
import DafRel.Spec.Select
import DafRel.Spec.SqlCompile

namespace DafRel

/-- Every leaf and marker of the tree holds a payload, and no chain has a statically empty operand (such a chain
is replaced by its other operand even when nothing else has to be done). -/
def Rel.Settled (s : ProcState) : Rel → Prop
  | .unary _ t _ => Rel.Settled s t
  | .binary op l r _ => Rel.Settled s l ∧ Rel.Settled s r ∧
      (match op with
       | .chain => l.maxRows ≠ some 0 ∧ r.maxRows ≠ some 0
       | _ => True)
  | r => (s.payloadOf r).isSome = true

/-- A tree inside ONE iteration engine with materializations (statically trivial ones included) but no transfers
and no Select markers, whose chains have no statically empty operand (the case where the Processor prunes a
branch and so returns a new tree). -/
def Rel.PlainIter (e : Engine) : Rel → Prop
  | .leaf _ e' _ _ _ _ _ _ => e' = e
  | .unary _ t _ => Rel.PlainIter e t
  | .binary op l r _ => Rel.PlainIter e l ∧ Rel.PlainIter e r ∧
      (match op with
       | .chain => l.maxRows ≠ some 0 ∧ r.maxRows ≠ some 0
       | _ => True)
  | .mat _ _ t => Rel.PlainIter e t
  | .transfer .. => False
  | .select .. => False

/-- The `was_materialized` flag `_process_recursive` reports for a tree it leaves unchanged. -/
def Rel.procFlag : Rel → Bool
  | .unary .. => false
  | .binary .. => false
  | _ => true

/-- A SQL-engine tree of leaves (holding payloads), unary operations, joins and chains without a statically empty
operand: the source of a Transfer out of a database. -/
def Rel.SqlLeafTree : Rel → Prop
  | .leaf _ e _ _ _ _ p _ => e.kind = .sql ∧ p = true
  | .unary _ t _ => Rel.SqlLeafTree t
  | .binary op l r _ => Rel.SqlLeafTree l ∧ Rel.SqlLeafTree r ∧
      (match op with
       | .chain => l.maxRows ≠ some 0 ∧ r.maxRows ≠ some 0
       | _ => True)
  | _ => False

/-- A multi-engine tree whose operations run in iteration engines: leaves, unary operations, chains,
materializations (of single-engine subtrees, and of any subtree of this class: directly after a transfer, over
re-applied operations, over chains that get pruned), transfers between DIFFERENT iteration engines (statically trivial
ones included) and transfers OUT OF A SQL ENGINE whose source is a raw SQL tree over leaves. -/
def Rel.MultiIter : Rel → Prop
  | .leaf _ e _ _ _ _ p _ => e.kind = .iter ∧ p = true
  | .unary op t _ => Rel.MultiIter t ∧ op.isIdentity = false ∧ op.arityOk = true
  | .binary op l r _ => Rel.MultiIter l ∧ Rel.MultiIter r ∧ l.engine = r.engine ∧
      (match op with
       | .chain => True
       | _ => False)
  | .mat _ _ t => t.engine.kind = .iter ∧
      ((Rel.PlainIter t.engine t ∧ t.IterOK) ∨ Rel.MultiIter t)
  | .transfer _ d t => d.kind = .iter ∧ d ≠ t.engine ∧
      ((t.engine.kind = .iter ∧ Rel.MultiIter t) ∨ (t.engine.kind = .sql ∧ t.RawSql ∧ t.SqlLeafTree))
  | .select .. => False

/-- What is assumed of the SQL sources of the tree, relative to the database state: the tables attached to their
leaves hold the leaves' rows, and the conformed source passes the decidable check of the compile-correctness
theorem (C02). -/
def Rel.SqlSrcOK (σ : Leaves) (sq0 : SqlState) : Rel → Prop
  | .unary _ t _ => Rel.SqlSrcOK σ sq0 t
  | .binary _ l r _ => Rel.SqlSrcOK σ sq0 l ∧ Rel.SqlSrcOK σ sq0 r
  | .mat _ _ t => Rel.SqlSrcOK σ sq0 t
  | .transfer _ _ t =>
    (t.engine.kind = .sql → t.Faithful sq0 sq0.tables σ ∧
      ∀ st c, conform st defaultFuel t = .ok c → (c.get t).structReady sq0 = true) ∧
    (t.engine.kind = .iter → Rel.SqlSrcOK σ sq0 t)
  | _ => True

/-- Every marker of the tree has an allocation id below `n` (ids the Processor hands out later are fresh). -/
def Rel.markersBelow (n : Nat) : Rel → Prop
  | .leaf .. => True
  | .unary _ t _ => Rel.markersBelow n t
  | .binary _ l r _ => Rel.markersBelow n l ∧ Rel.markersBelow n r
  | .mat oid _ t => oid < n ∧ Rel.markersBelow n t
  | .transfer oid _ t => oid < n ∧ Rel.markersBelow n t
  | .select oid _ _ _ _ _ _ _ t => oid < n ∧ Rel.markersBelow n t

/-- The SQL-side payload store holds nothing under the allocation ids of the iteration-engine part of the tree
(ids are unique per object: a SQL payload belongs to a SQL leaf or marker).  SQL subtrees below a Transfer are not
inspected. -/
def Rel.sqFree (sq : SqlState) : Rel → Prop
  | .leaf oid _ _ _ _ _ _ _ => sq.payload oid = none
  | .unary _ t _ => Rel.sqFree sq t
  | .binary _ l r _ => Rel.sqFree sq l ∧ Rel.sqFree sq r
  | .mat oid _ t => sq.payload oid = none ∧ Rel.sqFree sq t
  | .transfer oid _ t => sq.payload oid = none ∧ (t.engine.kind = .iter → Rel.sqFree sq t)
  | .select oid _ _ _ _ _ _ _ t => sq.payload oid = none ∧ Rel.sqFree sq t

end DafRel
