/-
SPECIFICATION (hashed by the audit): predicates the statements about the Processor (C07 / C10) are written in.
-/
import DafRel.Model.Processor

namespace DafRel

/-- Every leaf and marker of the tree holds a payload, and no chain has a statically empty operand (such a chain
is replaced by its other operand even when nothing else has to be done). -/
def Rel.Settled (s : ProcState) : Rel → Prop
  | .unary _ t _ => Rel.Settled s t
  | .binary op l r _ => Rel.Settled s l ∧ Rel.Settled s r ∧
      (match op with
       | .chain => l.maxRows ≠ some 0 ∧ r.maxRows ≠ some 0
       | _ => True)
  | r => (s.payloadOf r).isSome = true

/-- A tree inside ONE iteration engine with materializations (statically trivial ones included) but no transfers
and no Select markers, whose chains have no statically empty operand (the case where the Processor prunes a
branch and so returns a new tree). -/
def Rel.PlainIter (e : Engine) : Rel → Prop
  | .leaf _ e' _ _ _ _ _ _ => e' = e
  | .unary _ t _ => Rel.PlainIter e t
  | .binary op l r _ => Rel.PlainIter e l ∧ Rel.PlainIter e r ∧
      (match op with
       | .chain => l.maxRows ≠ some 0 ∧ r.maxRows ≠ some 0
       | _ => True)
  | .mat _ _ t => Rel.PlainIter e t
  | .transfer .. => False
  | .select .. => False

/-- The `was_materialized` flag `_process_recursive` reports for a tree it leaves unchanged. -/
def Rel.procFlag : Rel → Bool
  | .unary .. => false
  | .binary .. => false
  | _ => true

/-- A tree over SEVERAL iteration engines: leaves, unary operations, chains, transfers between iteration engines
(statically trivial ones included) and materializations of single-engine subtrees. -/
def Rel.MultiIter : Rel → Prop
  | .leaf _ e _ _ _ _ _ _ => e.kind = .iter
  | .unary _ t _ => Rel.MultiIter t
  | .binary _ l r _ => Rel.MultiIter l ∧ Rel.MultiIter r
  | .mat _ _ t => t.engine.kind = .iter ∧ Rel.PlainIter t.engine t
  | .transfer _ d t => Rel.MultiIter t ∧ d.kind = .iter
  | .select .. => False

/-- Every marker of the tree has an allocation id below `n` (ids the Processor hands out later are fresh). -/
def Rel.markersBelow (n : Nat) : Rel → Prop
  | .leaf .. => True
  | .unary _ t _ => Rel.markersBelow n t
  | .binary _ l r _ => Rel.markersBelow n l ∧ Rel.markersBelow n r
  | .mat oid _ t => oid < n ∧ Rel.markersBelow n t
  | .transfer oid _ t => oid < n ∧ Rel.markersBelow n t
  | .select oid _ _ _ _ _ _ _ t => oid < n ∧ Rel.markersBelow n t

end DafRel
