/-
Support definitions for the generated `Gen/Ops.lean` (translator T-e, harness/extract_ops.py):
the Lean meaning of the few Python idioms the dictionary of the translator maps to helper names.
Hand-written, part of the trusted base of the translation.
-/
import DafRel.Model.Op

namespace DafRel

namespace UOp

/-- `isinstance(op, Projection)` etc. -/
def isCalculation : UOp → Bool
  | .calc _ _ => true
  | _ => false
def isDeduplication : UOp → Bool
  | .dedup => true
  | _ => false
def isIdentity' : UOp → Bool
  | .identity => true
  | _ => false
def isProjection : UOp → Bool
  | .proj _ => true
  | _ => false
def isSelection : UOp → Bool
  | .sel _ => true
  | _ => false
def isSlice : UOp → Bool
  | .slice _ _ => true
  | _ => false
def isSort : UOp → Bool
  | .sort _ => true
  | _ => false

/-- `op.columns` of a `Projection` (only evaluated under `isinstance(op, Projection)`). -/
def projColumns : UOp → Cols
  | .proj c => c
  | _ => []

/-- Fields that one operation class has (only evaluated under the corresponding `isinstance` test). -/
def calcTag : UOp → Tag
  | .calc t _ => t
  | _ => default
def calcExpr : UOp → Expr
  | .calc _ e => e
  | _ => default
def selPred : UOp → Pred
  | .sel p => p
  | _ => default
def sliceStart : UOp → Nat
  | .slice s _ => s
  | _ => 0
def sliceStop : UOp → Option Nat
  | .slice _ e => e
  | _ => none
def sortTerms : UOp → List SortTerm
  | .sort ts => ts
  | _ => []

/-- `upstream.then(self)` as used by `Slice.simplify` / `Sort.simplify`, wrapped as the result of
`simplify` (`Slice.then` can raise through the `Slice` constructor). -/
def thenOf (upstream self : UOp) : Except Err Simplified :=
  match upstream, self with
  | .slice s0 e0, .slice s e => (sliceThen s0 e0 s e).map .replace
  | .sort ts0, .sort ts => .ok (.replace (.sort (sortThen ts0 ts)))
  | _, _ => .error .type

end UOp

end DafRel
