/-
Layer 9a: model of `GenericConcreteEngine.get_relation_name`.

    name = f"{prefix}_{self.relation_name_counter:04d}_{uuid.uuid4().hex}"
    self.relation_name_counter += 1

A name request is a sequence of atomic steps (read the counter, draw a uuid, write the counter);
a history is any interleaving of such sequences from any number of threads.  Names are lists of
characters here (the driver converts to `String`).
-/
namespace DafRel.Names

/-- The parts of the f-string, in order.  The regenerated `Gen.nameFormat` is proved equal to
`modelFormat`. -/
inductive Part where
  | pfx                      -- {prefix}
  | lit (s : String)         -- literal text
  | counter (width : Nat)    -- {self.relation_name_counter:0<width>d}
  | uuidHex                  -- {uuid.uuid4().hex}: 32 hexadecimal characters
deriving DecidableEq, Repr

def modelFormat : List Part := [.pfx, .lit "_", .counter 4, .lit "_", .uuidHex]

/-- `f"{n:0{w}d}"` for a natural number. -/
def padNat (w n : Nat) : List Char :=
  let digits := (toString n).toList
  List.replicate (w - digits.length) '0' ++ digits

def renderPart (pfx : List Char) (counter : Nat) (hex : List Char) : Part → List Char
  | .pfx => pfx
  | .lit s => s.toList
  | .counter w => padNat w counter
  | .uuidHex => hex

def render (fmt : List Part) (pfx : List Char) (counter : Nat) (hex : List Char) : List Char :=
  (fmt.map (renderPart pfx counter hex)).flatten

/-- The generated name. -/
def formatName (pfx : List Char) (counter : Nat) (hex : List Char) : List Char :=
  render modelFormat pfx counter hex

/-! ### Interleavings -/

/-- Local state of one in-flight request. -/
inductive Local where
  | idle
  | readDone (c : Nat)                      -- counter value read into the f-string
  | named (c : Nat) (name : List Char)      -- name built; counter not yet incremented
deriving Repr

structure Thread where
  pfx : List Char
  hexes : List (List Char)                  -- the uuids this thread will draw, in order
  st : Local := .idle
  produced : List (List Char) := []

structure World where
  counter : Nat := 0
  threads : List Thread

/-- One atomic step of thread `i` (no-op if the thread has nothing left to do). -/
def stepThread (w : World) (i : Nat) : World :=
  match w.threads[i]? with
  | none => w
  | some t =>
    let upd (t' : Thread) (c : Nat) : World := { counter := c, threads := w.threads.set i t' }
    match t.st, t.hexes with
    | .idle, _ :: _ => upd { t with st := .readDone w.counter } w.counter
    | .idle, [] => w
    | .readDone c, h :: hs => upd { t with st := .named c (formatName t.pfx c h), hexes := hs } w.counter
    | .readDone _, [] => w
    | .named _ name, _ =>
      -- `self.relation_name_counter += 1` (read-modify-write of the shared counter)
      upd { t with st := .idle, produced := t.produced ++ [name] } (w.counter + 1)

def run (w : World) (schedule : List Nat) : World := schedule.foldl stepThread w

def World.names (w : World) : List (List Char) := (w.threads.map (·.produced)).flatten

end DafRel.Names
