/-
Layer 5: the reference semantics — *not* a model of any code in the repository.

`sem σ t` is the "direct evaluation of the applied operation sequence" that the properties
speak about: an ordered list of rows with duplicates.
  calculation  = map (add one derived value per row)
  projection   = map (keep the named columns)
  selection    = filter
  deduplication= first occurrence of each distinct row
  sort         = stable sort by the lexicographic per-direction comparator
  slice        = positional `rows[start:stop]`
  chain        = concatenation
  join         = nested-loop natural join on the resolved common columns plus the predicate
  markers      = identity
-/
import DafRel.Model.Rel

namespace DafRel

/-- Leaf contents: rows of the leaf with allocation id `oid`. -/
abbrev Leaves := Nat → List Row

/-! ### List functions of the specification -/

/-- Keep the first occurrence of each distinct row (distinct on the columns `cols`). -/
def firstOccAux (cols : Cols) (seen : List (List (Option Int))) : List Row → List Row
  | [] => []
  | r :: rs =>
    if seen.contains (r.proj cols) then firstOccAux cols seen rs
    else r :: firstOccAux cols (r.proj cols :: seen) rs

def firstOcc (cols : Cols) (l : List Row) : List Row := firstOccAux cols [] l

/-- Insert `x` before the first element `y` with `le x y` (keeps the sort stable when elements
are inserted from the right). -/
def insertSorted {α : Type} (le : α → α → Bool) (x : α) : List α → List α
  | [] => [x]
  | y :: ys => if le x y then x :: y :: ys else y :: insertSorted le x ys

/-- Stable insertion sort: the specification of "a stable sort". -/
def isort {α : Type} (le : α → α → Bool) : List α → List α
  | [] => []
  | x :: xs => insertSorted le x (isort le xs)

/-- `a` is not after `b` in the lexicographic order given by the sort terms
(per-term direction; earlier terms win). -/
def lexLe (ts : List SortTerm) (a b : Row) : Bool :=
  match ts with
  | [] => true
  | t :: ts =>
    let ka := t.expr.val a
    let kb := t.expr.val b
    if ka = kb then lexLe ts a b
    else if t.asc then decide (ka < kb) else decide (ka > kb)

/-- Python `rows[start:stop]` for non-negative bounds. -/
def sliceList {α : Type} (start : Nat) (stop : Option Nat) (l : List α) : List α :=
  match stop with
  | none => l.drop start
  | some e => (l.take e).drop start

/-- Nested-loop join: pairs that agree on the common columns and satisfy the predicate. -/
def joinRows (common : Cols) (p : Pred) (ls rs : List Row) : List Row :=
  ls.flatMap (fun l => (rs.filter (fun r => l.agree r common && p.val (l.merge r))).map (fun r => l.merge r))

/-- The list function of a unary operation; `cols` are the columns of the relation the operation
produces (needed for the notion of "distinct row"). -/
def UOp.sem (op : UOp) (cols : Cols) (l : List Row) : List Row :=
  match op with
  | .calc tag e => l.map (fun r => r.set tag (e.val r))
  | .dedup => firstOcc cols l
  | .identity => l
  | .proj c => l.map (fun r => r.restrict c)
  | .sel p => l.filter (fun r => p.val r)
  | .slice s e => sliceList s e l
  | .sort ts => isort (lexLe ts) l

/-- Reference semantics of a relation tree. -/
def sem (σ : Leaves) : Rel → List Row
  | .leaf oid _ _ _ _ _ _ _ => σ oid
  | .unary op t cols => op.sem cols (sem σ t)
  | .binary op l r _ =>
    match op with
    | .chain => sem σ l ++ sem σ r
    | .join j => joinRows j.minCols j.pred (sem σ l) (sem σ r)
    | .ignoreOne il => if il then sem σ r else sem σ l
  | .mat _ _ t => sem σ t
  | .transfer _ _ t => sem σ t
  | .select _ _ _ _ _ _ _ _ t => sem σ t

/-- Rows that agree on the key columns agree on all columns (the documented contract of
`ColumnTag.is_key`, under which the code's key-based deduplication is a row deduplication). -/
def rowsKeyDetermined (cols : Cols) (rows : List Row) : Bool :=
  rows.all (fun a => rows.all (fun b => !(a.agree b cols.keys) || a.agree b cols))

/-- The input of every deduplication node in the tree is key-determined. -/
def keyDetermined (σ : Leaves) : Rel → Bool
  | .leaf .. => true
  | .unary op t cols =>
    keyDetermined σ t &&
      (match op with
       | .dedup => rowsKeyDetermined cols (sem σ t)
       | _ => true)
  | .binary _ l r _ => keyDetermined σ l && keyDetermined σ r
  | .mat _ _ t => keyDetermined σ t
  | .transfer _ _ t => keyDetermined σ t
  | .select _ _ _ _ _ _ _ _ t => keyDetermined σ t

/-- Static well-formedness of applying `op` to a relation with columns `tcols`. -/
def UOp.wfOn (op : UOp) (tcols : Cols) : Bool :=
  op.columnsRequired.subset tcols &&
    (match op with
     | .calc tag _ => decide (tag ∉ tcols)
     | _ => true)

end DafRel
