/-
Layer 2 of the model: operations (without the relations they act on).

Mirrors `_unary_operation.py`, `_binary_operation.py` and `_operations/*.py`:
flags, `columns_required`, `applied_columns/min_rows/max_rows`, `simplify`, `then`, `commute`.
`PartialJoin` holds a relation and is therefore defined with the trees (`Model/Rel.lean`).
-/
import DafRel.Model.Expr

namespace DafRel

/-- `SortTerm(expression, ascending)`. -/
structure SortTerm where
  expr : Expr
  asc : Bool
deriving Repr, Inhabited

instance : BEq SortTerm := ⟨fun a b => a.expr == b.expr && a.asc == b.asc⟩

/-- The concrete unary operations that can be nodes of a tree, plus `Identity`. -/
inductive UOp where
  | calc (tag : Tag) (e : Expr)
  | dedup
  | identity
  | proj (cols : Cols)
  | sel (p : Pred)
  | slice (start : Nat) (stop : Option Nat)
  | sort (terms : List SortTerm)
deriving Repr, Inhabited

/-- `Join(predicate, min_columns, max_columns)`. -/
structure JoinOp where
  pred : Pred
  minCols : Cols
  maxCols : Option Cols
deriving Repr, Inhabited

/-- Binary operations: `Chain`, `Join`, and the placeholder `IgnoreOne(ignore_lhs)`. -/
inductive BOp where
  | chain
  | join (j : JoinOp)
  | ignoreOne (ignoreLhs : Bool)
deriving Repr, Inhabited

namespace UOp

/-- Dataclass `__eq__` of operations (frozenset equality for projections). -/
def beq : UOp → UOp → Bool
  | .calc t e, .calc t' e' => t == t' && e == e'
  | .dedup, .dedup => true
  | .identity, .identity => true
  | .proj c, .proj c' => c.seteq c'
  | .sel p, .sel q => p == q
  | .slice s e, .slice s' e' => s == s' && e == e'
  | .sort ts, .sort ts' => ts == ts'
  | _, _ => false

instance : BEq UOp := ⟨beq⟩

/-! ### Constructors with the `__post_init__` checks -/

/-- `Slice(start, stop)`: `ValueError` for a negative start or `stop < start`. -/
def mkSlice (start : Int) (stop : Option Int) : Except Err UOp :=
  if start < 0 then .error .value
  else match stop with
    | none => .ok (.slice start.toNat none)
    | some e => if e < start then .error .value else .ok (.slice start.toNat (some e.toNat))

/-- `Selection(predicate)`: `__post_init__` flattens nested ANDs and literal `True`s. -/
def mkSel (p : Pred) : UOp := .sel p.normalise

/-- `Calculation(tag, expression)`: `ColumnError` if the expression needs no columns. -/
def mkCalc (tag : Tag) (e : Expr) : Except Err UOp :=
  if e.columnsRequired.isEmpty then .error .column else .ok (.calc tag e)

/-! ### Flags (the regenerated table `Gen.flags` is proved equal to these) -/

def isEmptyInvariant : UOp → Bool
  | .calc _ _ => true
  | .dedup => true
  | .identity => true
  | .proj _ => true
  | .sel _ => false
  | .slice _ _ => false
  | .sort _ => true

def isCountInvariant : UOp → Bool
  | .calc _ _ => true
  | .dedup => false
  | .identity => true
  | .proj _ => true
  | .sel _ => false
  | .slice _ _ => false
  | .sort _ => true

def isOrderDependent : UOp → Bool
  | .slice _ _ => true
  | _ => false

def isCountDependent : UOp → Bool
  | .slice _ _ => true
  | _ => false

/-! ### `columns_required`, `is_supported_by` -/

def sortCols : List SortTerm → Cols
  | [] => []
  | t :: ts => t.expr.columnsRequired ++ sortCols ts

def columnsRequired : UOp → Cols
  | .calc _ e => e.columnsRequired
  | .proj c => c
  | .sel p => p.columnsRequired
  | .sort ts => sortCols ts
  | _ => []

def isSupportedBy (k : EngineKind) : UOp → Bool
  | .calc _ e => e.isSupportedBy k
  | .sel p => p.isSupportedBy k
  | .sort ts => ts.all (fun t => t.expr.isSupportedBy k)
  | _ => true

/-! ### `applied_columns`, `applied_min_rows`, `applied_max_rows` -/

def appliedColumns (op : UOp) (tcols : Cols) : Cols :=
  match op with
  | .calc tag _ => tcols.insert tag
  | .proj c => c
  | _ => tcols

/-- `limit` of a slice. -/
def sliceLimit (start : Nat) (stop : Option Nat) : Option Int :=
  stop.map (fun e => (e : Int) - start)

def appliedMinRows (op : UOp) (tmin : Nat) : Nat :=
  match op with
  | .dedup => if tmin ≥ 1 then 1 else 0
  | .sel _ => 0
  | .slice start stop =>
    let stop' := match stop with
      | some e => min e tmin
      | none => tmin
    stop' - start           -- max(stop - start, 0): truncated subtraction on Nat
  | _ => tmin

def appliedMaxRows (op : UOp) (tcols : Cols) (tmax : Option Nat) : Option Nat :=
  match op with
  | .dedup =>
    if tcols.isEmpty then
      (match tmax with
       | none => some 1
       | some m => if m ≥ 1 then some 1 else some 0)
    else tmax
  | .slice start stop =>
    match stop, tmax with
    | some e, some m => some (min e m - start)
    | some e, none => some (e - start)
    | none, some m => some (m - start)
    | none, none => none
  | _ => tmax

/-! ### `then` -/

/-- `Slice.then`: composition of `self = [s1:e1]` followed by `next = [s2:e2]`.
The constructor call `Slice(new_start, new_stop)` may raise `ValueError`. -/
def sliceThen (s1 : Nat) (e1 : Option Nat) (s2 : Nat) (e2 : Option Nat) : Except Err UOp :=
  let newStart : Int := (s1 : Int) + s2
  let newStop : Option Int :=
    match e1, e2 with
    | none, none => none
    | none, some b => some ((b : Int) + s1)
    | some a, none => some (a : Int)
    | some a, some b => some (min (a : Int) ((b : Int) + s1))
  -- `if new_stop is not None and new_stop < new_start: new_stop = new_start`
  let newStop : Option Int := newStop.map (fun e => if e < newStart then newStart else e)
  mkSlice newStart newStop

/-- `Sort.then`: `next`'s terms first, then those of `self` not already present. -/
def sortThen (self next : List SortTerm) : List SortTerm :=
  self.foldl (fun acc t => if acc.contains t then acc else acc ++ [t]) next

/-! ### `simplify` -/

/-- Result of `simplify`: `no` = `None`; `keepUpstream` = the `upstream` object itself was
returned (`simplified is target.operation`); `replace op` = a different operation object. -/
inductive Simplified where
  | no
  | keepUpstream
  | replace (op : UOp)
deriving Repr, Inhabited

def simplify (self upstream : UOp) : Except Err Simplified :=
  match self with
  | .identity => .ok .keepUpstream
  | .slice s e =>
    if s == 0 && e.isNone then .ok .keepUpstream
    else match upstream with
      | .slice s0 e0 => (sliceThen s0 e0 s e).map .replace
      | _ => .ok .no
  | .sort ts =>
    if ts.isEmpty then .ok .keepUpstream
    else match upstream with
      | .sort ts0 => .ok (.replace (.sort (sortThen ts0 ts)))
      | _ => .ok .no
  | .sel p =>
    match upstream with
    | .sel q => .ok (.replace (mkSel (.and [q, p])))
    | _ => .ok .no
  | .proj c =>
    match upstream with
    | .proj _ => .ok (.replace (.proj c))
    | .calc tag _ => if tag ∈ c then .ok .no else .ok (.replace (.proj c))
    | _ => .ok .no
  | .calc _ _ => .ok .no
  | .dedup => .ok .no

/-! ### `commute` -/

/-- `UnaryCommutator` (messages dropped). -/
structure Commutator where
  first : Option UOp
  second : UOp
  done : Bool
deriving Repr, Inhabited

def commuteFail (cur : UOp) : Commutator := ⟨none, cur, false⟩

/-- `self.commute(current)` where `cur = current.operation`, `tcols = current.target.columns`,
`ccols = current.columns`. -/
def commute (self cur : UOp) (tcols ccols : Cols) : Commutator :=
  match self with
  | .identity => ⟨some self, cur, true⟩
  | .calc tag e =>
    if !(e.columnsRequired.subset tcols) then commuteFail cur
    else if tag ∈ tcols then commuteFail cur        -- `self.tag in current.target.columns`
    else
      match cur with
      | .proj c => ⟨some self, .proj (c.insert tag), true⟩
      | _ => ⟨some self, cur, true⟩
  | .dedup =>
    if !(tcols.subset ccols) then commuteFail cur
    else if cur.isCountDependent then commuteFail cur
    else ⟨some self, cur, true⟩
  | .proj cols =>
    match cur with
    | .proj _ => ⟨some self, .identity, true⟩
    | .calc tag _ =>
      if tag ∉ cols then ⟨some self, .identity, true⟩
      else
        let commuted := cols.diff [tag]
        if !(cur.columnsRequired.subset commuted) then
          ⟨some (.proj (commuted.union cur.columnsRequired)), cur, false⟩
        else ⟨some (.proj commuted), cur, true⟩
    | _ =>
      if !(cur.columnsRequired.subset cols) then
        ⟨some (.proj (cols.union cur.columnsRequired)), cur, false⟩
      else ⟨some (.proj cols), cur, true⟩
  | .sel p =>
    if !(p.columnsRequired.subset tcols) then commuteFail cur
    else if cur.isCountDependent then commuteFail cur
    else ⟨some self, cur, true⟩
  | .slice _ _ =>
    match cur with
    | .proj _ => ⟨some self, cur, true⟩
    | .calc _ _ => ⟨some self, cur, true⟩
    | _ => commuteFail cur
  | .sort ts =>
    if !((sortCols ts).subset tcols) then commuteFail cur
    else if cur.isOrderDependent then commuteFail cur
    else
      match cur with
      | .sort _ => commuteFail cur          -- `isinstance(current.operation, Sort)`
      | _ => ⟨some self, cur, true⟩

end UOp

namespace JoinOp

/-- `Join.__post_init__`: `ColumnError` unless `min_columns <= max_columns`. -/
def make (pred : Pred) (minCols : Cols) (maxCols : Option Cols) : Except Err JoinOp :=
  match maxCols with
  | some m => if minCols.subset m then .ok ⟨pred, minCols, maxCols⟩ else .error .column
  | none => .ok ⟨pred, minCols, maxCols⟩

/-- `self.max_columns == self.min_columns` (`None == frozenset()` is `False`). -/
def resolved (j : JoinOp) : Bool :=
  match j.maxCols with
  | some m => m.seteq j.minCols
  | none => false

/-- `Join.common_columns`. -/
def commonColumns (j : JoinOp) : Except Err Cols :=
  if j.resolved then .ok j.minCols else .error .column

/-- `Join.applied_common_columns(lhs, rhs)` given the operands' columns. -/
def appliedCommonColumns (j : JoinOp) (lcols rcols : Cols) : Except Err Cols :=
  if !j.resolved then
    let common : Cols := Cols.keys (Cols.inter lcols rcols)
    let common := match j.maxCols with
      | some m => Cols.inter common m
      | none => common
    if j.minCols.subset common then .ok common else .error .column
  else .ok j.minCols

def appliedMaxRows (lmax rmax : Option Nat) : Option Nat :=
  if lmax == some 0 || rmax == some 0 then some 0
  else match lmax, rmax with
    | some a, some b => some (a * b)
    | _, _ => none

end JoinOp

namespace BOp

def chainMinRows (lmin rmin : Nat) : Nat := lmin + rmin

def chainMaxRows (lmax rmax : Option Nat) : Option Nat :=
  match lmax, rmax with
  | some a, some b => some (a + b)
  | _, _ => none

end BOp

end DafRel
