/-
Layer 6: model of the native-iteration engine.

Mirrors `iteration/_engine.py::Engine.execute` and `iteration/_row_iterable.py`.
`exec` returns a *syntax tree* of row iterables (`Iterable`), exactly as the Python code returns
nested `RowIterable` objects without iterating the lazy ones; `iterate` interprets such a tree.
Both thread an event log recording every time iteration of a *leaf payload* is started
(this is what C18 speaks about), and the store of payloads attached to marker relations
(`Materialization` caches its rows there: C10).
-/
import DafRel.Model.Sem

namespace DafRel

/-- The `RowIterable` class hierarchy as data. -/
inductive Iterable where
  | seq (rows : List Row)                           -- RowSequence
  | mapping (key : Cols) (rows : List Row)          -- RowMapping(unique_key, dict) (values in dict order)
  | leafRef (oid : Nat)                             -- the (RowSequence) payload object of a leaf
  | calc (t : Iterable) (tag : Tag) (e : Expr)      -- CalculationRowIterable
  | proj (t : Iterable) (c : Cols)                  -- ProjectionRowIterable
  | sel (t : Iterable) (p : Pred)                   -- SelectionRowIterable
  | slice (t : Iterable) (s : Nat) (e : Option Nat) -- SliceRowIterable
  | chain (a b : Iterable)                          -- ChainRowIterable([a, b])
deriving Inhabited

structure ExecState where
  /-- payloads attached to marker relations, by allocation id -/
  payloads : List (Nat × Iterable) := []
  /-- leaf oids whose payload iteration was started, most recent first -/
  log : List Nat := []
  /-- GHOST (never read by the engine, never printed): allocation ids of the materializations whose
  upstream tree was evaluated, most recent first.  Lets "evaluated at most once" (C10) be stated. -/
  evals : List Nat := []
deriving Inhabited

def ExecState.payload (s : ExecState) (oid : Nat) : Option Iterable :=
  (s.payloads.find? (·.1 == oid)).map (·.2)

/-- The read-only view used by tree-building functions. -/
def ExecState.store (s : ExecState) : Store := s.payloads.map (fun p => (p.1, p.1))

abbrev ExecM := StateT ExecState (Except Err)

/-- `for n, row in enumerate(target): if stop is not None and n == stop: return; if n >= start: yield row` -/
def sliceEnum {α : Type} (start : Nat) (stop : Option Nat) : Nat → List α → List α
  | _, [] => []
  | n, x :: xs =>
    if stop == some n then []
    else if n ≥ start then x :: sliceEnum start stop (n+1) xs
    else sliceEnum start stop (n+1) xs

/-- Python dict insertion `d[k] = r`: position of the first insertion, value of the last. -/
def dictInsert (k : List (Option Int)) (r : Row) :
    List (List (Option Int) × Row) → List (List (Option Int) × Row)
  | [] => [(k, r)]
  | (k', r') :: rest => if k' = k then (k', r) :: rest else (k', r') :: dictInsert k r rest

/-- `{tuple(row[k] for k in unique_key): row for row in rows}.values()`; `KeyError` if a key
column is missing from a row. -/
def dictDedup (key : Cols) (rows : List Row) : Except Err (List Row) :=
  if rows.all (fun r => key.all (fun t => (r t).isSome)) then
    .ok ((rows.foldl (fun d r => dictInsert (r.proj key) r d) []).map (·.2))
  else .error .key

def mapM' {α β : Type} (f : α → Except Err β) : List α → Except Err (List β)
  | [] => .ok []
  | x :: xs =>
    match f x with
    | .error e => .error e
    | .ok y =>
      match mapM' f xs with
      | .error e => .error e
      | .ok ys => .ok (y :: ys)

def filterM' {α : Type} (f : α → Except Err Bool) : List α → Except Err (List α)
  | [] => .ok []
  | x :: xs =>
    match f x with
    | .error e => .error e
    | .ok b =>
      match filterM' f xs with
      | .error e => .error e
      | .ok ys => .ok (if b then x :: ys else ys)

/-- All rows of an iterable (`list(iterable)` without the bookkeeping); `error` = an exception
raised while a row is computed. -/
def Iterable.rows (σ : Leaves) : Iterable → Except Err (List Row)
  | .seq rows => .ok rows
  | .mapping _ rows => .ok rows
  | .leafRef oid => .ok (σ oid)
  | .calc t tag e =>
    match Iterable.rows σ t with
    | .error err => .error err
    | .ok rows =>
      mapM' (fun r => match e.eval r with
                      | some v => Except.ok (r.set tag v)
                      | none => .error .key) rows
  | .proj t c =>
    match Iterable.rows σ t with
    | .error err => .error err
    | .ok rows =>
      if rows.all (fun r => c.all (fun k => (r k).isSome)) then .ok (rows.map (·.restrict c))
      else .error .key
  | .sel t p =>
    match Iterable.rows σ t with
    | .error err => .error err
    | .ok rows =>
      filterM' (fun r => match p.eval r with
                         | some b => Except.ok b
                         | none => .error .key) rows
  | .slice t s e =>
    match Iterable.rows σ t with
    | .error err => .error err
    | .ok rows => .ok (sliceEnum s e 0 rows)
  | .chain a b =>
    match Iterable.rows σ a with
    | .error err => .error err
    | .ok ra =>
      match Iterable.rows σ b with
      | .error err => .error err
      | .ok rb => .ok (ra ++ rb)

def Iterable.rowsD (σ : Leaves) (it : Iterable) : List Row :=
  match it.rows σ with
  | .ok r => r
  | .error _ => []

/-- Number of input elements a filter consumes to deliver `d` outputs (`none` = everything). -/
def pullsForMatches (flags : List Bool) (d : Nat) : Option Nat :=
  let rec go (fl : List Bool) (need : Nat) (seen : Nat) : Option Nat :=
    match need with
    | 0 => some seen
    | need'+1 =>
      match fl with
      | [] => none
      | true :: rest => if need' = 0 then some (seen + 1) else go rest need' (seen + 1)
      | false :: rest => go rest (need'+1) (seen + 1)
  go flags d 0

/-- The leaf-payload iterations that are *started* by `iter(it)` followed by `d` calls of
`next()` (`none` = until exhaustion, i.e. `list(it)`).  Generator expressions call `iter()` on
their source immediately; generator functions (`SliceRowIterable`) and `itertools.chain` only at
the first `next()`. -/
def Iterable.events (σ : Leaves) : Iterable → Option Nat → List Nat
  | .seq _, _ => []
  | .mapping _ _, _ => []
  | .leafRef oid, _ => [oid]
  | .calc t _ _, d => Iterable.events σ t d
  | .proj t _, d => Iterable.events σ t d
  | .sel t p, d =>
    let flags := (t.rowsD σ).map (fun r => (p.eval r).getD false)
    let k : Option Nat := match d with
      | none => none
      | some n => pullsForMatches flags n
    Iterable.events σ t k
  | .slice t s e, d =>
    if d == some 0 then []
    else
      let src := t.rowsD σ
      let m := (sliceEnum s e 0 src).length
      let exhaust : Option Nat := match e with
        | some stop => if stop < src.length then some (stop + 1) else none
        | none => none
      let k : Option Nat := match d with
        | none => exhaust
        | some n => if n ≤ m then some (s + n) else exhaust
      Iterable.events σ t k
  | .chain a b, d =>
    if d == some 0 then []
    else
      let la := (a.rowsD σ).length
      match d with
      | none => Iterable.events σ a none ++ Iterable.events σ b none
      | some n =>
        if n ≤ la then Iterable.events σ a (some n)
        else Iterable.events σ a none ++ Iterable.events σ b (some (n - la))

/-- `list(iterable)`: fully iterate, returning the rows and the extended leaf-iteration log. -/
def iterate (σ : Leaves) (it : Iterable) (log : List Nat) : Except Err (List Row × List Nat) :=
  match it.rows σ with
  | .error e => .error e
  | .ok rows => .ok (rows, (it.events σ none).reverse ++ log)

/-- `list(it)` with the bookkeeping of the leaf-iteration log, as a state transformer. -/
def iterateS (σ : Leaves) (it : Iterable) (s : ExecState) : Except Err (List Row × ExecState) :=
  match iterate σ it s.log with
  | .error e => .error e
  | .ok (rows, log) => .ok (rows, { s with log := log })

/-- Lift into `ExecM` (used by the processor model). -/
def iterateM (σ : Leaves) (it : Iterable) : ExecM (List Row) := fun s => iterateS σ it s

/-- The generic `to_mapping`: iterate fully, build the dictionary. -/
def toMappingVia (σ : Leaves) (it : Iterable) (key : Cols) (s : ExecState) : Except Err (Iterable × ExecState) :=
  match iterateS σ it s with
  | .error e => .error e
  | .ok (rows, s1) =>
    match dictDedup key rows with
    | .error e => .error e
    | .ok d => .ok (.mapping key d, s1)

/-- `RowIterable.to_mapping(unique_key)`. -/
def toMapping (σ : Leaves) (it : Iterable) (key : Cols) (s : ExecState) : Except Err (Iterable × ExecState) :=
  match it with
  | .mapping k rows =>
    if k.seteq key then .ok (.mapping k rows, s)       -- `unique_key == self.unique_key`: same object
    else
      match dictDedup key rows with
      | .error e => .error e
      | .ok d => .ok (.mapping key d, s)
  | _ => toMappingVia σ it key s

/-- `RowIterable.sliced(start, stop)`. -/
def sliced (σ : Leaves) (it : Iterable) (s : Nat) (e : Option Nat) : Iterable :=
  match it with
  | .seq rows => .seq (sliceList s e rows)            -- RowSequence(self.rows[start:stop])
  | .leafRef oid => .seq (sliceList s e (σ oid))      -- leaf payloads are RowSequences: no iteration
  | _ => .slice it s e

/-- The generic `materialized()`: iterate fully into a `RowSequence`. -/
def materializeVia (σ : Leaves) (it : Iterable) (s : ExecState) : Except Err (Iterable × ExecState) :=
  match iterateS σ it s with
  | .error e => .error e
  | .ok (rows, s1) => .ok (.seq rows, s1)

/-- `RowIterable.materialized()`. -/
def materializedIt (σ : Leaves) (it : Iterable) (s : ExecState) : Except Err (Iterable × ExecState) :=
  match it with
  | .seq _ | .mapping _ _ | .leafRef _ => .ok (it, s)
  | _ => materializeVia σ it s

/-- Tuple comparison `tuple(a) <= tuple(b)` on equally long integer tuples. -/
def tupleLe : List Int → List Int → Bool
  | [], _ => true
  | _ :: _, [] => false
  | a :: as, b :: bs => if a = b then tupleLe as bs else decide (a < b)

/-- `itertools.groupby(terms, key=attrgetter("ascending"))`. -/
def groupByAsc : List SortTerm → List (Bool × List SortTerm)
  | [] => []
  | t :: ts =>
    match groupByAsc ts with
    | (asc, g) :: rest => if asc == t.asc then (asc, t :: g) :: rest else (t.asc, [t]) :: (asc, g) :: rest
    | [] => [(t.asc, [t])]

/-- One `rows_list.sort(key=..., reverse=not ascending)` call. -/
def sortPass (asc : Bool) (g : List SortTerm) (rows : List Row) : List Row :=
  let key := fun (r : Row) => g.map (fun t => t.expr.val r)
  if asc then isort (fun a b => tupleLe (key a) (key b)) rows
  else isort (fun a b => tupleLe (key b) (key a)) rows

/-- The multi-pass sort of `execute`: one stable sort per direction group, last group first. -/
def multipassSort (ts : List SortTerm) (rows : List Row) : List Row :=
  (groupByAsc ts).reverse.foldl (fun rows g => sortPass g.1 g.2 rows) rows

def Rel.payloadIt (s : ExecState) : Rel → Option Iterable
  | .leaf oid _ _ _ _ _ p _ => if p then some (.leafRef oid) else none
  | .unary .. => none
  | .binary .. => none
  | r => s.payload r.oid

/-- `relation.attach_payload(payload)`: allowed only on a marker relation that has no payload
(`hasPay` says which allocation ids currently hold one); everything else is a `TypeError`.
Returns the allocation id the payload is stored under. -/
def attachTarget (hasPay : Nat → Bool) (r : Rel) : Except Err Nat :=
  match r with
  | .mat oid .. | .transfer oid .. | .select oid .. => if hasPay oid then .error .type else .ok oid
  | _ => .error .type

/-- The step of `execute` for one unary operation, given the executed target. -/
def execOp (σ : Leaves) (op : UOp) (cols : Cols) (targetRows : Iterable) (s : ExecState) :
    Except Err (Iterable × ExecState) :=
  match op with
  | .calc tag e => .ok (.calc targetRows tag e, s)
  | .dedup => toMapping σ targetRows cols.keys s
  | .proj c => .ok (.proj targetRows c, s)
  | .sel p => .ok (.sel targetRows p, s)
  | .slice a b => .ok (sliced σ targetRows a b, s)
  | .sort ts =>
    match iterateS σ targetRows s with
    | .error e => .error e
    | .ok (rows, s1) =>
      if rows.all (fun row => ts.all (fun t => (t.expr.eval row).isSome)) then
        .ok (.seq (multipassSort ts rows), s1)
      else .error .key
  | .identity => .error .engine          -- apply_custom_unary_operation

/-- `iteration.Engine.execute(relation)` for the engine `self`, as an explicit state transformer. -/
def exec (σ : Leaves) : Engine → Rel → ExecState → Except Err (Iterable × ExecState)
  | self, r, s =>
    if r.engine != self then .error .engine
    else if r.maxRows == some 0 then .ok (.seq [], s)
    else if r.isJoinIdentity then .ok (.seq [Row.empty], s)
    else
      match r.payloadIt s with
      | some p => .ok (p, s)
      | none =>
        match r with
        | .unary op t cols =>
          match exec σ self t s with
          | .error e => .error e
          | .ok (tr, s1) => execOp σ op cols tr s1
        | .binary op l rr _ =>
          match op with
          | .chain =>
            match exec σ self l s with
            | .error e => .error e
            | .ok (a, s1) =>
              match exec σ self rr s1 with
              | .error e => .error e
              | .ok (b, s2) => .ok (.chain a b, s2)
          | .join _ => .error .engine
          | .ignoreOne _ => .error .engine
        | .mat oid _ t =>
          match exec σ self t s with
          | .error e => .error e
          | .ok (inner, s1) =>
            match materializedIt σ inner s1 with
            | .error e => .error e
            | .ok (result, s2) =>
              -- relation.attach_payload(result): the payload is None here (checked above)
              .ok (result, { s2 with payloads := (oid, result) :: s2.payloads, evals := oid :: s2.evals })
        | .transfer _ _ t =>
          match t.engine.kind with
          | .iter => exec σ t.engine t s
          | .sql => .error .engine
        | .select _ _ _ _ _ _ _ _ t => exec σ self t s
        | .leaf .. => .error .assertion

end DafRel
